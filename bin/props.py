# per-property configuration for bin/check
COMMON_TB = []
PROPS = {
    "C08": {
        "level_text": "Proof. The quorum predicates, divCeil, scalePower and CouldReachStrongQuorumFor are TRANSLATED from /repo's source on every run (go2coq) with explicit int64 wrap-around; Coq proves strong_iff (strong quorum <=> 3*part >= 2*whole for every 0 <= whole < 2^62, any part), quorum intersection (numeric and over duplicate-free signer lists), weak > 1/3, weak blocks strong, soundness of could-not-reach (with and without the adversary allowance), scaled powers in [0,65535], summing to <= 65535 and order-preserving for tables of arbitrary big-integer powers, and absence of overflow on the scaled domain. A change to the code re-generates the model and the theorems are re-checked against it. Additionally the real predicates are swept exhaustively over all (part,whole) in [0,65535]^2 and compared, with PowerTable.Add/Scaled and the real tally, against the model evaluated inside Coq.",
        "level_note": "Trusted: Coq kernel, go2coq translator (small, output human-readable, cross-checked by the correspondence sweep), big.Int arithmetic taken as exact, sort.Sort. Not covered by a theorem: that certs.go/validator.go call the same predicate (checked behaviourally at the threshold boundary in C04/C05).",
        "technique": "Coq proof over go2coq-translated functions (lia, int64 wrap explicit) + exhaustive sweep + differential correspondence",
        "coq_deps": ["Base/GoInt.vo", "Gen/QuorumGen.vo", "Quorum/QuorumProofs.vo", "Quorum/Sets.vo"],
        "trusted_base": ["modelled, not verified: math/big and go-state-types/big arithmetic (taken as exact integer arithmetic), sort.Sort in PowerTable.Add"],
        "assumptions": ["big.Int arithmetic is exact; scaled totals are <= 65535 (proved: scaled_sum_le) so int64 never wraps on the protocol's domain"],
    },
    "C20": {
        "level_text": "Proof (global convergence partial). predictor.update, newPredictor, the delay computation of Subscriber.run and every progress expression of Subscriber.poll / Poller.CatchUp are TRANSLATED from /repo on every run. Coq proves: progress = instances advanced at both return sites (no uint64 wrap), wait = remaining interval + min(request time, half), invariant min <= interval <= max with bounded explore distance/back-off for every reachable predictor state and every progress value, steady production is a fixed point, >=2 certificates per poll never lengthen and strictly shorten the interval above the minimum, no progress enters/doubles a capped back-off that one certificate ends, wait always in [min,10*max]. Real predictor runs (sequences and arbitrary states) and real polling rounds over a libp2p mocknet are compared with the model inside Coq. NOT proved: convergence to the true production interval from an arbitrary start.",
        "level_note": "Trusted: Coq kernel, go2coq, durations within +-2^50 ns. The select loop of Subscriber.run, peer selection and libp2p are not modelled; the delay formula is tied by translation only (it is inlined in run()).",
        "technique": "Coq proof over go2coq-translated predictor/subscriber arithmetic + differential correspondence over mocknet polling rounds",
        "coq_deps": ["Base/GoInt.vo", "Gen/PredictorGen.vo", "Cx/PredictorProofs.vo", "Cx/PredictorRun.vo"],
        "trusted_base": ["modelled, not verified: libp2p mocknet transport, go-clock mock, the peer tracker's peer selection (only its effect through Poll results is observed)"],
        "assumptions": ["durations within +-2^50 ns; instance numbers below 2^64 (no wrap of NextInstance)",
                        "global convergence from an arbitrary start is NOT proved (fixed point, monotone responses and invariants are)"],
    },
}
PROPS["C16"] = {
    "coq_deps": ["Base/GoInt.vo", "Gen/ServerGen.vo", "Cx/Exchange.vo", "Cx/ExchangeProofs.vo"],
    "level_text": "Proof. The server's limit/guard/end arithmetic is TRANSLATED from certexchange/server.go on every run (uint64 wrap explicit); the inclusive GetRange, the client's sequencing loop and the poller loop are hand-written executable models. Coq proves: the served instances are exactly the stored ones from the requested instance, consecutive, exactly min(limit,256,pending-first) many, never at/after the advertised pending instance (for all first/limit/pending < 2^64 including wrap-around of first+limit); the client forwards only first, first+1, ... and at most limit; for ANY responder behaviour and any validation function the poller's store grows by exactly a sequentially valid prefix, NextInstance advances by its length, and an invalid certificate is never stored and yields PollIllegal. Real server (raw wire requester), real client and real poller (scripted malicious responder: forged, reordered, duplicated, gapped, reset, mis-advertised pending) over a libp2p mocknet are compared with the model inside Coq, and the wire is monitored against the property text.",
    "level_note": "Trusted: Coq kernel, go2coq, the hand-written models of GetRange/client/poller (tied by correspondence only), cbor-gen codecs (C14), certificate validation itself (C04) enters as an arbitrary function. libp2p stream semantics not modelled.",
    "technique": "Coq proof (translated server arithmetic + hand model of client/poller, induction over responses) + differential correspondence over mocknet",
    "trusted_base": ["hand-written models of certstore.GetRange, Client.Request loop and Poller.Poll loop (tied by correspondence)", "libp2p mocknet"],
    "assumptions": ["store holds a contiguous range [first,pending) (C09)"],
}

NOT_APPLICABLE = {}
