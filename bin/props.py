# per-property configuration for bin/check
COMMON_TB = []
PROPS = {
    "C08": {
        "coq_deps": ["Base/GoInt.vo", "Gen/QuorumGen.vo", "Quorum/QuorumProofs.vo", "Quorum/Sets.vo"],
        "trusted_base": ["modelled, not verified: math/big and go-state-types/big arithmetic (taken as exact integer arithmetic), sort.Sort in PowerTable.Add"],
        "assumptions": ["big.Int arithmetic is exact; scaled totals are <= 65535 (proved: scaled_sum_le) so int64 never wraps on the protocol's domain"],
    },
}
