(* C18 model (no proofs): hashicorp LRU semantics, the per-instance wanted / discovered caches of
   chainexchange/pubsub.go and the pubsub validator's admission rule.  Chains are lists of tipset tokens,
   so a prefix is a real list prefix; a key is the (non-empty) chain it identifies (key injectivity: C14). *)
From Coq Require Import ZArith List Bool.
Import ListNotations.
Open Scope Z_scope.

Definition chain := list Z.                 (* tipset tokens, base first *)
Definition ckey := list Z.                  (* the zero key is [] *)
Inductive portion := Placeholder | Chain (c : chain).

Fixpoint zl_eqb (a b : list Z) : bool :=
  match a, b with [], [] => true | x :: a', y :: b' => (x =? y) && zl_eqb a' b' | _, _ => false end.

(* ---- LRU: most recently used first ---- *)
Definition lru := list (ckey * portion).
Fixpoint lru_find (l : lru) (k : ckey) : option portion :=
  match l with [] => None | (k', v) :: r => if zl_eqb k' k then Some v else lru_find r k end.
Fixpoint lru_remove (l : lru) (k : ckey) : lru :=
  match l with [] => [] | (k', v) :: r => if zl_eqb k' k then r else (k', v) :: lru_remove r k end.
Definition lru_peek := lru_find.
Definition lru_get (l : lru) (k : ckey) : lru * option portion :=
  match lru_find l k with Some v => ((k, v) :: lru_remove l k, Some v) | None => (l, None) end.
Definition lru_add (cap : nat) (l : lru) (k : ckey) (v : portion) : lru :=
  firstn cap ((k, v) :: lru_remove l k).
Definition lru_contains_or_add (cap : nat) (l : lru) (k : ckey) (v : portion) : lru :=
  match lru_find l k with Some _ => l | None => lru_add cap l k v end.

(* ---- per-instance caches ---- *)
Record cx := mkCx { wanted : list (Z * lru); discovered : list (Z * lru) }.
Definition cx_empty : cx := mkCx [] [].
Fixpoint inst_get (m : list (Z * lru)) (i : Z) : lru :=
  match m with [] => [] | (j, l) :: r => if j =? i then l else inst_get r i end.
Fixpoint inst_set (m : list (Z * lru)) (i : Z) (l : lru) : list (Z * lru) :=
  match m with [] => [(i, l)] | (j, l') :: r => if j =? i then (i, l) :: r else (j, l') :: inst_set r i l end.

Fixpoint prefixes_from (acc : chain) (rest : chain) : list chain :=
  match rest with [] => [] | x :: r => (acc ++ [x]) :: prefixes_from (acc ++ [x]) r end.
Definition all_prefixes (c : chain) : list chain := prefixes_from [] c.   (* shortest first, like AllPrefixes *)

(* GetChainByInstance *)
Definition lookup (capw capd : nat) (s : cx) (i : Z) (k : ckey) : cx * option chain :=
  match k with
  | [] => (s, None)
  | _ =>
      let w := inst_get (wanted s) i in
      let '(w1, got) := lru_get w k in
      match got with
      | Some (Chain c) => (mkCx (inst_set (wanted s) i w1) (discovered s), Some c)
      | _ =>
          let d := inst_get (discovered s) i in
          let '(d1, gd) := lru_get d k in
          match gd with
          | Some p =>
              let w2 := lru_add capw w1 k p in
              let d2 := lru_remove d1 k in
              (mkCx (inst_set (wanted s) i w2) (inst_set (discovered s) i d2),
               match p with Chain c => Some c | Placeholder => None end)
          | None =>
              (mkCx (inst_set (wanted s) i (lru_contains_or_add capw w1 k Placeholder)) (inst_set (discovered s) i d1), None)
          end
      end
  end.

(* cacheAsWantedChain: own broadcast; longest prefix first *)
Definition cache_as_wanted (capw : nat) (s : cx) (i : Z) (c : chain) : cx :=
  let w := fold_left (fun w p =>
              match lru_peek w p with
              | Some (Chain _) => w
              | _ => lru_add capw w p (Chain p)
              end) (rev (all_prefixes c)) (inst_get (wanted s) i) in
  mkCx (inst_set (wanted s) i w) (discovered s).

(* cacheAsDiscoveredChain: admitted remote broadcast; one prefix at a time, longest first *)
Definition dstep (capw capd : nat) (st : lru * lru) (p : chain) : lru * lru :=
  let '(w, d) := st in
  match lru_peek w p with
  | None => (w, lru_contains_or_add capd d p (Chain p))
  | Some Placeholder => (lru_add capw w p (Chain p), d)
  | Some (Chain _) => (w, d)
  end.
Definition cache_as_discovered (capw capd : nat) (s : cx) (i : Z) (c : chain) : cx :=
  let '(w, d) := fold_left (dstep capw capd) (rev (all_prefixes c)) (inst_get (wanted s) i, inst_get (discovered s) i) in
  mkCx (inst_set (wanted s) i w) (inst_set (discovered s) i d).

(* RemoveChainsByInstance *)
Definition prune (s : cx) (n : Z) : cx :=
  mkCx (filter (fun e => negb (fst e <? n)) (wanted s)) (filter (fun e => negb (fst e <? n)) (discovered s)).

(* ---- admission (validatePubSubMessage) ---- *)
Inductive verdict := Accept | Reject | Ignore.
Record bmsg := mkB { b_decodes : bool; b_inst : Z; b_chain : chain; b_chain_valid : bool; b_ts : Z }.
Definition validator_verdict (cur : Z) (lookahead : Z) (input_base : option Z) (now_ms max_age_ms : Z) (m : bmsg) : verdict :=
  if negb (b_decodes m) then Reject else
  match b_chain m with
  | [] => Reject
  | base :: _ =>
      if negb (b_chain_valid m) then Reject else
      if (b_inst m <? cur) || (cur + lookahead <? b_inst m) then Ignore else
      if (match input_base with Some ib => (b_inst m =? cur) && negb (ib =? base) | None => false end) then Reject else
      if (b_ts m <? now_ms - max_age_ms) || (now_ms <? b_ts m) then Ignore else Accept
  end.
Definition verdict_code (v : verdict) : Z := match v with Accept => 0 | Reject => 1 | Ignore => 2 end.
