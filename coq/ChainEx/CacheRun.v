From Coq Require Import ZArith List Bool.
From F3 Require Import Cache.
Import ListNotations.
Open Scope Z_scope.

Inductive cop :=
| CLookup (i : Z) (k : ckey) (exp : option chain)
| CWanted (i : Z) (c : chain)
| CDiscovered (i : Z) (c : chain)
| CPrune (n : Z).

Definition opt_chain_eqb (a b : option chain) : bool :=
  match a, b with Some x, Some y => zl_eqb x y | None, None => true | _, _ => false end.

Fixpoint crun (capw capd : nat) (s : cx) (ops : list cop) (idx : Z) : Z :=
  match ops with
  | [] => -1
  | CLookup i k exp :: r => let '(s', got) := lookup capw capd s i k in
                            if opt_chain_eqb got exp then crun capw capd s' r (idx + 1) else idx
  | CWanted i c :: r => crun capw capd (cache_as_wanted capw s i c) r (idx + 1)
  | CDiscovered i c :: r => crun capw capd (cache_as_discovered capw capd s i c) r (idx + 1)
  | CPrune n :: r => crun capw capd (prune s n) r (idx + 1)
  end.
Definition cache_history_ok (capw capd : nat) (ops : list cop) : bool := crun capw capd cx_empty ops 0 =? -1.
