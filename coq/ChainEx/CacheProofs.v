From Coq Require Import ZArith List Bool Lia.
From F3 Require Import Cache.
Import ListNotations.
Open Scope Z_scope.

Lemma zl_eqb_eq a b : zl_eqb a b = true <-> a = b.
Proof.
  revert b. induction a as [|x a IH]; destruct b as [|y b]; cbn; try (split; congruence).
  rewrite andb_true_iff, Z.eqb_eq, IH. split; [intros [-> ->]; auto | intros H; inversion H; auto].
Qed.
Lemma zl_eqb_refl a : zl_eqb a a = true. Proof. apply zl_eqb_eq; auto. Qed.
Lemma zl_eqb_neq a b : a <> b -> zl_eqb a b = false.
Proof. intros H. destruct (zl_eqb a b) eqn:E; auto. apply zl_eqb_eq in E. contradiction. Qed.

Lemma firstn_In {A} (n : nat) (l : list A) x : In x (firstn n l) -> In x l.
Proof. revert l. induction n as [|n IH]; intros l H; [destruct H|]. destruct l as [|a l]; [destruct H|]. cbn in H. destruct H as [<-|H]; [left; auto | right; auto]. Qed.

(* ---------- every stored portion is keyed by its own chain ---------- *)
Definition good_entry (e : ckey * portion) : Prop := match snd e with Chain c => fst e = c | Placeholder => True end.
Definition good_lru (l : lru) : Prop := Forall good_entry l.
Definition good_map (m : list (Z * lru)) : Prop := Forall (fun e => good_lru (snd e)) m.
Definition KInv (s : cx) : Prop := good_map (wanted s) /\ good_map (discovered s).

Lemma find_in l k v : lru_find l k = Some v -> In (k, v) l.
Proof.
  induction l as [|[k' v'] r IH]; cbn; [discriminate|]. destruct (zl_eqb k' k) eqn:E.
  - apply zl_eqb_eq in E. intros H; inversion H; subst. auto.
  - auto.
Qed.
Lemma good_find l k c : good_lru l -> lru_find l k = Some (Chain c) -> k = c.
Proof. intros G H. apply find_in in H. unfold good_lru in G. rewrite Forall_forall in G. apply (G _ H). Qed.
Lemma good_remove l k : good_lru l -> good_lru (lru_remove l k).
Proof. induction 1 as [|[k' v'] r Hx Hr IH]; cbn; [constructor|]. destruct (zl_eqb k' k); auto. constructor; auto. Qed.
Lemma good_firstn n l : good_lru l -> good_lru (firstn n l).
Proof. intros G. unfold good_lru in *. rewrite Forall_forall in *. intros x Hx. apply G. eapply firstn_In; eauto. Qed.
Lemma good_add cap l k v : good_lru l -> good_entry (k, v) -> good_lru (lru_add cap l k v).
Proof. intros G E. unfold lru_add. apply good_firstn. constructor; auto. apply good_remove; auto. Qed.
Lemma good_coa cap l k v : good_lru l -> good_entry (k, v) -> good_lru (lru_contains_or_add cap l k v).
Proof. intros G E. unfold lru_contains_or_add. destruct (lru_find l k); auto. apply good_add; auto. Qed.
Lemma good_get l k l' v : good_lru l -> lru_get l k = (l', v) -> good_lru l' /\ (forall c, v = Some (Chain c) -> k = c).
Proof.
  intros G. unfold lru_get. destruct (lru_find l k) as [p|] eqn:F; intros H; inversion H; subst.
  - split. { constructor; [|apply good_remove; auto]. destruct p; cbn; auto. eapply good_find; eauto. }
    intros c Hc. inversion Hc; subst. eapply good_find; eauto.
  - split; auto. discriminate.
Qed.
Lemma good_inst_get m i : good_map m -> good_lru (inst_get m i).
Proof. induction 1 as [|[j l] r Hx Hr IH]; cbn; [constructor|]. destruct (j =? i); auto. Qed.
Lemma good_inst_set m i l : good_map m -> good_lru l -> good_map (inst_set m i l).
Proof.
  intros G Hl. induction G as [|[j l'] r Hx Hr IH]; cbn; [constructor; auto; constructor|].
  destruct (j =? i); constructor; auto.
Qed.

Lemma KInv_empty : KInv cx_empty. Proof. split; constructor. Qed.

Theorem lookup_key_matches capw capd s i k s' c : KInv s -> lookup capw capd s i k = (s', Some c) -> c = k /\ KInv s'.
Proof.
  intros [Gw Gd]. unfold lookup. destruct k as [|k0 kr]; [discriminate|]. set (k := k0 :: kr) in *.
  destruct (lru_get (inst_get (wanted s) i) k) as [w1 got] eqn:E1.
  destruct (good_get _ _ _ _ (good_inst_get _ i Gw) E1) as [Gw1 Hk1].
  destruct got as [[|c1]|].
  - (* placeholder in wanted *)
    destruct (lru_get (inst_get (discovered s) i) k) as [d1 gd] eqn:E2.
    destruct (good_get _ _ _ _ (good_inst_get _ i Gd) E2) as [Gd1 Hk2].
    destruct gd as [p|].
    + intros H; inversion H; subst. destruct p as [|c2]; [discriminate|]. inversion H2; subst c2. split; [symmetry; apply Hk2; auto|].
      split; cbn; apply good_inst_set; auto; [apply good_add; auto; cbn; apply Hk2; auto | apply good_remove; auto].
    + discriminate.
  - intros H; inversion H; subst. split; [symmetry; apply Hk1; auto|]. split; cbn; auto. apply good_inst_set; auto.
  - destruct (lru_get (inst_get (discovered s) i) k) as [d1 gd] eqn:E2.
    destruct (good_get _ _ _ _ (good_inst_get _ i Gd) E2) as [Gd1 Hk2].
    destruct gd as [p|].
    + intros H; inversion H; subst. destruct p as [|c2]; [discriminate|]. inversion H2; subst c2. split; [symmetry; apply Hk2; auto|].
      split; cbn; apply good_inst_set; auto; [apply good_add; auto; cbn; apply Hk2; auto | apply good_remove; auto].
    + discriminate.
Qed.

Theorem lookup_preserves_KInv capw capd s i k : KInv s -> KInv (fst (lookup capw capd s i k)).
Proof.
  intros [Gw Gd]. unfold lookup. destruct k as [|k0 kr]; [split; auto|]. set (k := k0 :: kr) in *.
  destruct (lru_get (inst_get (wanted s) i) k) as [w1 got] eqn:E1.
  destruct (good_get _ _ _ _ (good_inst_get _ i Gw) E1) as [Gw1 Hk1].
  assert (Rest : KInv (fst (let '(d1, gd) := lru_get (inst_get (discovered s) i) k in
           match gd with
           | Some p => (mkCx (inst_set (wanted s) i (lru_add capw w1 k p)) (inst_set (discovered s) i (lru_remove d1 k)),
                        match p with Chain c => Some c | Placeholder => None end)
           | None => (mkCx (inst_set (wanted s) i (lru_contains_or_add capw w1 k Placeholder)) (inst_set (discovered s) i d1), None)
           end))).
  { destruct (lru_get (inst_get (discovered s) i) k) as [d1 gd] eqn:E2.
    destruct (good_get _ _ _ _ (good_inst_get _ i Gd) E2) as [Gd1 Hk2].
    destruct gd as [p|]; cbn [fst]; split; cbn [wanted discovered]; apply good_inst_set; auto.
    - apply good_add; auto. destruct p; cbn; auto; try (apply Hk2; auto).
    - apply good_remove; auto.
    - apply good_coa; auto; cbn; auto. }
  destruct got as [[|c1]|]; auto.
  cbn [fst]. split; cbn; auto. apply good_inst_set; auto.
Qed.

Lemma fold_wanted_good capw ks : forall w, good_lru w ->
  good_lru (fold_left (fun w p => match lru_peek w p with Some (Chain _) => w | _ => lru_add capw w p (Chain p) end) ks w).
Proof.
  induction ks as [|p ks IH]; intros w G; cbn [fold_left]; auto. apply IH.
  destruct (lru_peek w p) as [[|c]|]; auto; apply good_add; auto; reflexivity.
Qed.
Theorem wanted_preserves_KInv capw s i c : KInv s -> KInv (cache_as_wanted capw s i c).
Proof.
  intros [Gw Gd]. unfold cache_as_wanted. split; cbn; auto. apply good_inst_set; auto.
  apply fold_wanted_good. apply good_inst_get; auto.
Qed.

Lemma cad_unfold capw capd s i c :
  cache_as_discovered capw capd s i c =
  let '(w, d) := fold_left (dstep capw capd) (rev (all_prefixes c)) (inst_get (wanted s) i, inst_get (discovered s) i) in
  mkCx (inst_set (wanted s) i w) (inst_set (discovered s) i d).
Proof. reflexivity. Qed.

Lemma dstep_good capw capd w d p : good_lru w -> good_lru d ->
  good_lru (fst (dstep capw capd (w, d) p)) /\ good_lru (snd (dstep capw capd (w, d) p)).
Proof.
  intros Gw Gd. unfold dstep. destruct (lru_peek w p) as [[|c]|]; cbn [fst snd]; split; auto.
  - apply good_add; auto; reflexivity.
  - apply good_coa; auto; reflexivity.
Qed.
Lemma fold_dstep_good capw capd ks : forall w d, good_lru w -> good_lru d ->
  good_lru (fst (fold_left (dstep capw capd) ks (w, d))) /\ good_lru (snd (fold_left (dstep capw capd) ks (w, d))).
Proof.
  induction ks as [|p ks IH]; intros w d Gw Gd; cbn [fold_left]; auto.
  destruct (dstep_good capw capd w d p Gw Gd) as [A B]. destruct (dstep capw capd (w, d) p) as [w' d']. apply IH; auto.
Qed.
Theorem discovered_preserves_KInv capw capd s i c : KInv s -> KInv (cache_as_discovered capw capd s i c).
Proof.
  intros [Gw Gd]. rewrite cad_unfold.
  pose proof (fold_dstep_good capw capd (rev (all_prefixes c)) _ _ (good_inst_get _ i Gw) (good_inst_get _ i Gd)) as [A B].
  destruct (fold_left _ _ _) as [w d]. cbn in A, B. split; cbn; apply good_inst_set; auto.
Qed.

Theorem prune_preserves_KInv s n : KInv s -> KInv (prune s n).
Proof.
  intros [Gw Gd]. unfold prune, KInv, good_map in *. cbn. rewrite !Forall_forall in *.
  split; intros x Hx; apply filter_In in Hx; destruct Hx; auto.
Qed.

(* ---------- unsolicited admissions never touch the wanted cache ---------- *)
Lemma fold_dstep_unsolicited capw capd ks : forall w d, (forall p, In p ks -> lru_find w p = None) ->
  fst (fold_left (dstep capw capd) ks (w, d)) = w.
Proof.
  induction ks as [|p ks IH]; intros w d H; cbn [fold_left]; auto.
  assert (E : dstep capw capd (w, d) p = (w, lru_contains_or_add capd d p (Chain p))).
  { unfold dstep, lru_peek. rewrite (H p (or_introl eq_refl)). reflexivity. }
  rewrite E. apply IH. intros q Hq. apply H. right; auto.
Qed.

Lemma inst_get_set m i j l : inst_get (inst_set m i l) j = if i =? j then l else inst_get m j.
Proof.
  induction m as [|[a b] r IH]; cbn.
  - destruct (i =? j); auto.
  - destruct (a =? i) eqn:E; cbn.
    + apply Z.eqb_eq in E. subst a. destruct (i =? j); auto.
    + rewrite IH. destruct (a =? j) eqn:E2; auto. destruct (i =? j) eqn:E3; auto.
      apply Z.eqb_eq in E2, E3. subst. rewrite Z.eqb_refl in E. discriminate.
Qed.

Theorem unsolicited_keeps_wanted capw capd s i c :
  (forall p, In p (all_prefixes c) -> lru_find (inst_get (wanted s) i) p = None) ->
  forall j, inst_get (wanted (cache_as_discovered capw capd s i c)) j = inst_get (wanted s) j.
Proof.
  intros H j. rewrite cad_unfold.
  pose proof (fold_dstep_unsolicited capw capd (rev (all_prefixes c)) (inst_get (wanted s) i) (inst_get (discovered s) i)
                ltac:(intros p Hp; apply H; apply in_rev; auto)) as E.
  destruct (fold_left _ _ _) as [w d]. cbn in E. subst w. cbn [wanted]. rewrite inst_get_set.
  destruct (i =? j) eqn:Ei; auto. apply Z.eqb_eq in Ei. subst; auto.
Qed.

(* a chain the node asked for and then received stays retrievable under ANY flood of unsolicited chains *)
Theorem wanted_retained capw capd s i k (floods : list chain) :
  k <> [] -> lru_find (inst_get (wanted s) i) k = Some (Chain k) ->
  (forall u p, In u floods -> In p (all_prefixes u) -> lru_find (inst_get (wanted s) i) p = None) ->
  snd (lookup capw capd (fold_left (fun s u => cache_as_discovered capw capd s i u) floods s) i k) = Some k.
Proof.
  intros Hk Hf Hu.
  assert (Hw : inst_get (wanted (fold_left (fun s u => cache_as_discovered capw capd s i u) floods s)) i = inst_get (wanted s) i).
  { revert s Hf Hu. induction floods as [|u r IH]; intros s Hf Hu; cbn [fold_left]; auto.
    rewrite IH.
    - apply unsolicited_keeps_wanted. intros p Hp. apply (Hu u p); [left; auto|auto].
    - rewrite unsolicited_keeps_wanted; auto. intros p Hp. apply (Hu u p); [left; auto|auto].
    - intros u' p Hu' Hp. rewrite unsolicited_keeps_wanted; [apply (Hu u' p); [right; auto|auto]|].
      intros q Hq. apply (Hu u q); [left; auto|auto]. }
  unfold lookup. destruct k as [|k0 kr]; [contradiction|]. rewrite Hw. unfold lru_get. rewrite Hf. reflexivity.
Qed.

(* asking for a key leaves a placeholder; the admitted chain then replaces it in the WANTED cache *)
Lemma firstn_app_keep {A} cap (X : list A) y Y : (length X < cap)%nat ->
  firstn cap (X ++ y :: Y) = X ++ y :: firstn (cap - length X - 1) Y.
Proof.
  intros H. rewrite firstn_app. rewrite firstn_all2 by lia. f_equal.
  destruct (cap - length X)%nat as [|m] eqn:E; [lia|]. cbn. f_equal. f_equal. lia.
Qed.

Lemma lru_find_add_same cap l k v : (1 <= cap)%nat -> lru_find (lru_add cap l k v) k = Some v.
Proof. intros H. unfold lru_add. destruct cap; [lia|]. cbn. rewrite zl_eqb_refl. reflexivity. Qed.

Lemma prefixes_from_last acc rest : rest <> [] -> last (prefixes_from acc rest) [] = acc ++ rest.
Proof.
  revert acc. induction rest as [|x r IH]; intros acc H; [contradiction|]. cbn [prefixes_from].
  destruct r as [|y r'].
  - cbn. reflexivity.
  - change (last ((acc ++ [x]) :: prefixes_from (acc ++ [x]) (y :: r')) []) with (last (prefixes_from (acc ++ [x]) (y :: r')) []).
    rewrite IH by discriminate. rewrite <- app_assoc. reflexivity.
Qed.

Theorem asked_then_admitted_is_wanted capw capd s i k : (1 <= capw)%nat -> k <> [] ->
  lru_find (inst_get (wanted s) i) k = Some Placeholder ->
  exists w', inst_get (wanted (cache_as_discovered capw capd s i k)) i = w' /\
    (lru_find w' k = Some (Chain k) \/ (* unless later (shorter) prefixes pushed it out of a tiny cache *) (length (all_prefixes k) > capw)%nat).
Proof.
  intros Hc Hk Hp. eexists. split; [reflexivity|].
  destruct (Nat.lt_ge_cases capw (length (all_prefixes k))) as [Hlt|Hge]; [right; lia|]. left.
  rewrite cad_unfold.
  (* the first prefix processed is k itself *)
  assert (Hrev : exists rest, rev (all_prefixes k) = k :: rest).
  { unfold all_prefixes. pose proof (prefixes_from_last [] k Hk) as L. cbn in L.
    destruct (prefixes_from [] k) as [|p0 ps] eqn:E. { destruct k; [contradiction|discriminate]. }
    assert (exists front, p0 :: ps = front ++ [k]).
    { exists (removelast (p0 :: ps)). pose proof (@app_removelast_last _ (p0 :: ps) [] ltac:(discriminate)) as A. rewrite L in A. exact A. }
    destruct H as [front Hfr]. rewrite Hfr, rev_app_distr. cbn. eauto. }
  destruct Hrev as [rest Hrev]. rewrite Hrev. cbn [fold_left].
  assert (E0 : dstep capw capd (inst_get (wanted s) i, inst_get (discovered s) i) k =
               (lru_add capw (inst_get (wanted s) i) k (Chain k), inst_get (discovered s) i)).
  { unfold dstep, lru_peek. rewrite Hp. reflexivity. }
  rewrite E0.
  (* afterwards (k, Chain k) is at the front of wanted; later steps add at most |rest| entries in front of it *)
  assert (G : forall ks w d n, (n + length ks < capw)%nat -> (exists pre post, w = pre ++ (k, Chain k) :: post /\ (length pre <= n)%nat /\ (forall e, In e pre -> fst e <> k)) ->
             lru_find (fst (fold_left (dstep capw capd) ks (w, d))) k = Some (Chain k)).
  { clear. induction ks as [|p ks IH]; intros w d n Hn (pre & post & Ew & Hl & Hne).
    - cbn. subst w. clear -Hne. induction pre as [|[a b] pre IHp]; cbn. { rewrite zl_eqb_refl; auto. }
      rewrite zl_eqb_neq. { apply IHp. intros e He. apply Hne. right; auto. } apply (Hne (a, b)). left; auto.
    - cbn [fold_left]. destruct (lru_peek w p) as [[|c]|] eqn:Pk.
      + (* a placeholder for p is replaced: p <> k since k maps to a chain *)
        assert (Ed : dstep capw capd (w, d) p = (lru_add capw w p (Chain p), d)) by (unfold dstep; rewrite Pk; reflexivity).
        rewrite Ed. clear Ed. apply (IH _ _ (S n)). { cbn in Hn. lia. }
        assert (Hpk : p <> k).
        { intros ->. unfold lru_peek in Pk. subst w. clear -Pk Hne. induction pre as [|[a b] pre IHp]; cbn in Pk.
          - rewrite zl_eqb_refl in Pk. discriminate.
          - rewrite zl_eqb_neq in Pk. { apply IHp; auto. intros e He. apply Hne. right; auto. } apply (Hne (a, b)). left; auto. }
        unfold lru_add. subst w.
        assert (Hrm : exists pre' post', lru_remove (pre ++ (k, Chain k) :: post) p = pre' ++ (k, Chain k) :: post' /\ (length pre' <= length pre)%nat /\ (forall e, In e pre' -> fst e <> k)).
        { clear -Hne Hpk. induction pre as [|[a b] pre IHp]; cbn.
          - rewrite zl_eqb_neq by (intros Ekp; apply Hpk; auto). exists [], (lru_remove post p). cbn. repeat split; auto; try (intros e []).
          - destruct (zl_eqb a p).
            + exists pre, post. split; auto. split; [lia|]. intros e He. apply Hne. right; auto.
            + destruct IHp as (pre' & post' & E & L & N). { intros e He. apply Hne. right; auto. }
              exists ((a, b) :: pre'), post'. rewrite E. split; auto. split; [cbn; lia|].
              intros e [<-|He]; [apply (Hne (a, b)); left; auto | apply N; auto]. }
        destruct Hrm as (pre' & post' & E & L & N). rewrite E.
        assert (Hlen : (length ((p, Chain p) :: pre') < capw)%nat).
        { cbn [length]. cbn in Hn. unfold lru, ckey, chain in *. lia. }
        exists ((p, Chain p) :: pre'), (firstn (capw - length ((p, Chain p) :: pre') - 1) post').
        split.
        { change ((p, Chain p) :: pre' ++ (k, Chain k) :: post') with (((p, Chain p) :: pre') ++ (k, Chain k) :: post').
          apply firstn_app_keep. exact Hlen. }
        split. { cbn [length]. unfold lru, ckey, chain in *. lia. }
        intros e [<-|He]; [cbn; auto | apply N; auto].
      + assert (E : dstep capw capd (w, d) p = (w, d)) by (unfold dstep; rewrite Pk; reflexivity).
        rewrite E. apply (IH _ _ n); [cbn in Hn; lia|]. exists pre, post. auto.
      + assert (E : dstep capw capd (w, d) p = (w, lru_contains_or_add capd d p (Chain p))) by (unfold dstep; rewrite Pk; reflexivity).
        rewrite E. apply (IH _ _ n); [cbn in Hn; lia|]. exists pre, post. auto. }
  assert (G0 : lru_find (fst (fold_left (dstep capw capd) rest (lru_add capw (inst_get (wanted s) i) k (Chain k), inst_get (discovered s) i))) k = Some (Chain k)).
  { apply (G rest _ _ 0%nat).
    - assert (length (rev (all_prefixes k)) = S (length rest)) by (rewrite Hrev; reflexivity). rewrite rev_length in H.
      unfold chain, ckey in *. lia.
    - unfold lru_add. destruct capw; [lia|]. cbn [firstn]. exists [], (firstn capw (lru_remove (inst_get (wanted s) i) k)).
      repeat split; auto; try (cbn; lia); try (intros e []). }
  destruct (fold_left (dstep capw capd) rest (lru_add capw (inst_get (wanted s) i) k (Chain k), inst_get (discovered s) i)) as [wf df].
  cbn [wanted fst] in *. rewrite inst_get_set, Z.eqb_refl. exact G0.
Qed.

(* ---------- pruning removes exactly the instances below the given one ---------- *)
Lemma inst_get_filter m n i :
  inst_get (filter (fun e => negb (fst e <? n)) m) i = if i <? n then [] else inst_get m i.
Proof.
  induction m as [|[j l] r IH]; cbn.
  - destruct (i <? n); auto.
  - destruct (j <? n) eqn:E; cbn.
    + rewrite IH. destruct (i <? n) eqn:E2; auto. destruct (j =? i) eqn:E3; auto.
      apply Z.eqb_eq in E3. subst. congruence.
    + destruct (j =? i) eqn:E3.
      * apply Z.eqb_eq in E3. subst. rewrite E. reflexivity.
      * exact IH.
Qed.

Theorem prune_exact s n i :
  inst_get (wanted (prune s n)) i = (if i <? n then [] else inst_get (wanted s) i) /\
  inst_get (discovered (prune s n)) i = (if i <? n then [] else inst_get (discovered s) i).
Proof. unfold prune. cbn. split; apply inst_get_filter. Qed.

(* ---------- admission rule ---------- *)
Theorem admission_spec cur lookahead input_base now age m :
  validator_verdict cur lookahead input_base now age m = Accept <->
  b_decodes m = true /\ b_chain_valid m = true /\
  (exists base rest, b_chain m = base :: rest /\
     (forall ib, input_base = Some ib -> b_inst m = cur -> ib = base)) /\
  cur <= b_inst m <= cur + lookahead /\ now - age <= b_ts m <= now.
Proof.
  unfold validator_verdict. destruct (b_decodes m); cbn [negb]; [|split; [discriminate|intros (H & _); discriminate]].
  destruct (b_chain m) as [|base rest] eqn:Ec. { split; [discriminate|]. intros (_ & _ & (b & r & H & _) & _). discriminate. }
  destruct (b_chain_valid m); cbn [negb]; [|split; [discriminate|intros (_ & H & _); discriminate]].
  destruct ((b_inst m <? cur) || (cur + lookahead <? b_inst m)) eqn:E1.
  { split; [discriminate|]. intros (_ & _ & _ & H & _). apply orb_true_iff in E1. destruct E1 as [E|E]; apply Z.ltb_lt in E; lia. }
  apply orb_false_iff in E1. destruct E1 as [E1a E1b]. apply Z.ltb_ge in E1a, E1b.
  destruct (match input_base with Some ib => (b_inst m =? cur) && negb (ib =? base) | None => false end) eqn:E2.
  { split; [discriminate|]. intros (_ & _ & (b & r & H & Hb) & _). inversion H; subst b r.
    destruct input_base as [ib|]; [|discriminate]. apply andb_true_iff in E2. destruct E2 as [A B].
    apply Z.eqb_eq in A. apply negb_true_iff in B. apply Z.eqb_neq in B. exfalso. apply B. apply Hb; auto. }
  destruct ((b_ts m <? now - age) || (now <? b_ts m)) eqn:E3.
  { split; [discriminate|]. intros (_ & _ & _ & _ & H). apply orb_true_iff in E3. destruct E3 as [E|E]; apply Z.ltb_lt in E; lia. }
  apply orb_false_iff in E3. destruct E3 as [E3a E3b]. apply Z.ltb_ge in E3a, E3b.
  split; [|auto]. intros _. repeat split; auto; try lia.
  exists base, rest. split; auto. intros ib Hib Hi. subst input_base. rewrite Hi, Z.eqb_refl in E2. cbn in E2.
  apply negb_false_iff in E2. apply Z.eqb_eq in E2. auto.
Qed.

(* ---------- an admitted chain and all its prefixes are retrievable (while the cache has room) ---------- *)
Lemma remove_not_found l k : lru_find l k = None -> lru_remove l k = l.
Proof.
  induction l as [|[k' v] r IH]; cbn; auto. destruct (zl_eqb k' k); [discriminate|]. intros H. rewrite IH; auto.
Qed.

Lemma coa_room cap l k v : (length l < cap)%nat -> lru_find l k = None -> lru_contains_or_add cap l k v = (k, v) :: l.
Proof.
  intros Hl Hf. unfold lru_contains_or_add, lru_add. rewrite Hf, (remove_not_found _ _ Hf).
  apply firstn_all2. cbn. lia.
Qed.

Lemma fold_discovered_room capw capd ks : forall w d,
  (forall p, In p ks -> lru_find w p = None) -> (length d + length ks <= capd)%nat ->
  let d' := snd (fold_left (dstep capw capd) ks (w, d)) in
  forall k, lru_find d' k = match lru_find d k with Some v => Some v | None => if existsb (zl_eqb k) ks then Some (Chain k) else None end.
Proof.
  induction ks as [|p ks IH]; intros w d Hw Hl d' k; subst d'; cbn [fold_left].
  - cbn. destruct (lru_find d k); auto.
  - assert (E : dstep capw capd (w, d) p = (w, lru_contains_or_add capd d p (Chain p))).
    { unfold dstep, lru_peek. rewrite (Hw p (or_introl eq_refl)). reflexivity. }
    rewrite E. cbn [length] in Hl.
    destruct (lru_find d p) as [vp|] eqn:Fp.
    + (* already there: untouched *)
      assert (Ec : lru_contains_or_add capd d p (Chain p) = d) by (unfold lru_contains_or_add; rewrite Fp; reflexivity).
      rewrite Ec. rewrite IH; [|intros q Hq; apply Hw; right; auto|lia].
      destruct (lru_find d k) eqn:Fk; auto. cbn [existsb]. destruct (zl_eqb k p) eqn:Ek; auto.
      apply zl_eqb_eq in Ek. subst. congruence.
    + rewrite (coa_room capd d p (Chain p)) by (auto; lia).
      rewrite IH; [|intros q Hq; apply Hw; right; auto|cbn [length]; lia].
      cbn [lru_find existsb]. destruct (zl_eqb p k) eqn:Ek.
      * apply zl_eqb_eq in Ek. subst k. rewrite Fp, zl_eqb_refl. reflexivity.
      * destruct (lru_find d k); auto. rewrite (zl_eqb_neq k p); auto. intros ->. rewrite zl_eqb_refl in Ek. discriminate.
Qed.

Theorem admitted_retrievable capw capd s i c : KInv s ->
  (forall p, In p (all_prefixes c) -> lru_find (inst_get (wanted s) i) p = None) ->
  (forall k, lru_find (inst_get (discovered s) i) k <> Some Placeholder) ->
  (length (inst_get (discovered s) i) + length (all_prefixes c) <= capd)%nat ->
  forall p, In p (all_prefixes c) -> p <> [] ->
    snd (lookup capw capd (cache_as_discovered capw capd s i c) i p) = Some p.
Proof.
  intros [Gw Gd] Hw Hph Hroom p Hp Hne.
  pose proof (unsolicited_keeps_wanted capw capd s i c Hw i) as Ew.
  assert (Ed : forall k, lru_find (inst_get (discovered (cache_as_discovered capw capd s i c)) i) k =
                 match lru_find (inst_get (discovered s) i) k with Some v => Some v
                 | None => if existsb (zl_eqb k) (rev (all_prefixes c)) then Some (Chain k) else None end).
  { intros k. rewrite cad_unfold.
    pose proof (fold_discovered_room capw capd (rev (all_prefixes c)) (inst_get (wanted s) i) (inst_get (discovered s) i)
                  ltac:(intros q Hq; apply Hw; apply in_rev; auto) ltac:(rewrite rev_length; auto) k) as F.
    destruct (fold_left _ _ _) as [w d]. cbn [snd] in F. cbn [discovered]. rewrite inst_get_set, Z.eqb_refl. exact F. }
  unfold lookup. destruct p as [|p0 pr]; [contradiction|]. set (p := p0 :: pr) in *.
  rewrite Ew. unfold lru_get at 1. rewrite (Hw p Hp).
  unfold lru_get. rewrite (Ed p).
  destruct (lru_find (inst_get (discovered s) i) p) as [v|] eqn:F.
  - destruct v as [|c0]; [exfalso; eapply Hph; eauto|]. cbn [snd].
    f_equal. symmetry. eapply good_find; [apply good_inst_get; exact Gd|exact F].
  - assert (existsb (zl_eqb p) (rev (all_prefixes c)) = true) as ->.
    { apply existsb_exists. exists p. split; [apply in_rev; rewrite rev_involutive; auto | apply zl_eqb_refl]. }
    reflexivity.
Qed.
