From Coq Require Import ZArith List Bool Lia Sorting.Sorted Sorting.Permutation.
From F3 Require Import Table.
Import ListNotations.
Open Scope Z_scope.

(* ---------- alist lemmas ---------- *)
Lemma lookup_id t id e : lookup t id = Some e -> e_id e = id.
Proof. induction t as [|x r IH]; cbn; [discriminate|]. destruct (e_id x =? id) eqn:E; auto. intros H; inversion H; subst. apply Z.eqb_eq; auto. Qed.

Lemma lookup_in t id e : lookup t id = Some e -> In e t.
Proof. induction t as [|x r IH]; cbn; [discriminate|]. destruct (e_id x =? id); auto. intros H; inversion H; auto. Qed.

Lemma lookup_none t id : lookup t id = None <-> ~ In id (ids t).
Proof.
  induction t as [|x r IH]; cbn; [tauto|]. destruct (e_id x =? id) eqn:E.
  - apply Z.eqb_eq in E. split; [discriminate|]. intros H. exfalso. apply H. auto.
  - apply Z.eqb_neq in E. rewrite IH. tauto.
Qed.

Lemma in_lookup t e : NoDup (ids t) -> In e t -> lookup t (e_id e) = Some e.
Proof.
  induction t as [|x r IH]; cbn; [tauto|]. intros Hn [->|Hin].
  - rewrite Z.eqb_refl. reflexivity.
  - inversion Hn; subst. destruct (e_id x =? e_id e) eqn:E.
    + apply Z.eqb_eq in E. exfalso. apply H1. rewrite E. apply in_map. exact Hin.
    + auto.
Qed.

Lemma lookup_remove_eq t id : lookup (remove t id) id = None.
Proof. induction t as [|x r IH]; cbn; auto. destruct (e_id x =? id) eqn:E; auto. cbn. rewrite E. auto. Qed.

Lemma lookup_remove_neq t id id' : id' <> id -> lookup (remove t id) id' = lookup t id'.
Proof.
  intros Hn. induction t as [|x r IH]; cbn; auto. destruct (e_id x =? id) eqn:E.
  - apply Z.eqb_eq in E. assert (e_id x =? id' = false) as -> by (apply Z.eqb_neq; lia). exact IH.
  - cbn. destruct (e_id x =? id'); auto.
Qed.

Lemma ids_remove_subset t id x : In x (ids (remove t id)) -> In x (ids t) /\ x <> id.
Proof.
  induction t as [|y r IH]; cbn; [tauto|]. destruct (e_id y =? id) eqn:E.
  - intros H. apply IH in H. tauto.
  - cbn. apply Z.eqb_neq in E. intros [<-|H]; [auto|]. apply IH in H. tauto.
Qed.

Lemma nodup_remove t id : NoDup (ids t) -> NoDup (ids (remove t id)).
Proof.
  induction t as [|y r IH]; cbn; auto. intros Hn. inversion Hn; subst. destruct (e_id y =? id); auto.
  cbn. constructor; auto. intros H. apply ids_remove_subset in H. tauto.
Qed.

Lemma nodup_set t e : NoDup (ids t) -> NoDup (ids (set t e)).
Proof.
  intros Hn. unfold set. cbn. constructor; [|apply nodup_remove; auto].
  intros H. apply ids_remove_subset in H. tauto.
Qed.

Lemma lookup_set_eq t e : lookup (set t e) (e_id e) = Some e.
Proof. unfold set. cbn. rewrite Z.eqb_refl. reflexivity. Qed.

Lemma lookup_set_neq t e id' : id' <> e_id e -> lookup (set t e) id' = lookup t id'.
Proof.
  intros Hn. unfold set. cbn. assert (e_id e =? id' = false) as -> by (apply Z.eqb_neq; lia).
  apply lookup_remove_neq; auto.
Qed.

Lemma forall_remove (P : entry -> Prop) t id : Forall P t -> Forall P (remove t id).
Proof. induction 1; cbn; auto. destruct (e_id x =? id); auto. Qed.

(* ---------- one delta ---------- *)
Definition wf_opt (o : option entry) : Prop := match o with Some e => wf_entry e | None => True end.

(* applying the delta between the current entry and the target entry installs the target *)
Lemma apply_delta_between m id (tgt : option entry) d :
  NoDup (ids m) -> Forall wf_entry m -> wf_opt tgt -> (forall e, tgt = Some e -> e_id e = id) ->
  delta_between id (lookup m id) tgt = Some d ->
  exists m', apply_delta m d = inr m' /\ d_id d = id /\ lookup m' id = tgt /\
             (forall id', id' <> id -> lookup m' id' = lookup m id') /\
             NoDup (ids m') /\ Forall wf_entry m'.
Proof.
  intros Hn Hw Ht Hid Hd. unfold delta_between in Hd.
  destruct (lookup m id) as [oe|] eqn:Lo.
  - assert (Hoe : wf_entry oe). { eapply Forall_forall; [exact Hw|]. eapply lookup_in; eauto. }
    pose proof (lookup_id _ _ _ Lo) as Hoid. destruct Hoe as [Hop Hok].
    destruct tgt as [ne|].
    + destruct Ht as [Hnp Hnk]. pose proof (Hid ne eq_refl) as Hnid.
      destruct (is_zero _) eqn:Z0; [discriminate|]. inversion Hd; subst d; clear Hd.
      unfold apply_delta. rewrite Z0. cbn [d_id d_dp d_key]. rewrite Lo.
      unfold is_zero in Z0. cbn [d_dp d_key] in Z0.
      destruct (e_key ne =? e_key oe) eqn:K.
      * (* same key: power must differ *)
        apply Z.eqb_eq in K. cbn [Z.eqb] in Z0. rewrite andb_true_r in Z0. apply Z.eqb_neq in Z0.
        assert (0 =? e_key oe = false) as -> by (apply Z.eqb_neq; lia).
        assert (e_power ne - e_power oe =? 0 = false) as -> by (apply Z.eqb_neq; lia).
        cbn [negb andb Z.eqb].
        replace (e_power ne - e_power oe + e_power oe) with (e_power ne) by lia.
        assert (e_power ne =? 0 = false) as -> by (apply Z.eqb_neq; lia).
        assert (0 <? e_power ne = true) as -> by (apply Z.ltb_lt; lia).
        eexists. split; [reflexivity|]. split; [reflexivity|].
        assert (E : mkE id (e_power ne) (e_key oe) = ne). { destruct ne; cbn in *; subst; reflexivity. }
        rewrite E. split. { rewrite <- Hnid. apply lookup_set_eq. }
        split. { intros id' Hne. apply lookup_set_neq. rewrite Hnid. auto. }
        split. { apply nodup_set; auto. }
        constructor; [split; auto|]. apply forall_remove; auto.
      * apply Z.eqb_neq in K.
        assert (e_key ne =? e_key oe = false) as -> by (apply Z.eqb_neq; auto).
        assert (e_key ne =? 0 = false) as -> by (apply Z.eqb_neq; auto). cbn [negb andb].
        assert (P : (if e_power ne - e_power oe =? 0 then e_power oe else e_power ne - e_power oe + e_power oe) = e_power ne).
        { destruct (e_power ne - e_power oe =? 0) eqn:E. apply Z.eqb_eq in E; lia. lia. }
        rewrite P.
        assert (e_power ne =? 0 = false) as -> by (apply Z.eqb_neq; lia).
        assert (0 <? e_power ne = true) as -> by (apply Z.ltb_lt; lia).
        eexists. split; [reflexivity|]. split; [reflexivity|].
        assert (E : mkE id (e_power ne) (e_key ne) = ne). { destruct ne; cbn in *; subst; reflexivity. }
        rewrite E. split. { rewrite <- Hnid. apply lookup_set_eq. }
        split. { intros id' Hne. apply lookup_set_neq. rewrite Hnid. auto. }
        split. { apply nodup_set; auto. }
        constructor; [split; auto|]. apply forall_remove; auto.
    + (* removal *)
      inversion Hd; subst d; clear Hd. unfold apply_delta, is_zero. cbn [d_id d_dp d_key].
      assert (- e_power oe =? 0 = false) as -> by (apply Z.eqb_neq; lia). cbn [andb]. rewrite Lo.
      assert (0 =? e_key oe = false) as -> by (apply Z.eqb_neq; lia).
      cbn [Z.eqb negb andb]. replace (- e_power oe + e_power oe) with 0 by lia. cbn [Z.eqb].
      eexists. split; [reflexivity|]. split; [reflexivity|]. split; [apply lookup_remove_eq|].
      split. { intros id' Hne. apply lookup_remove_neq; auto. }
      split; [apply nodup_remove; auto | apply forall_remove; auto].
  - destruct tgt as [ne|]; [|discriminate]. destruct Ht as [Hnp Hnk]. pose proof (Hid ne eq_refl) as Hnid.
    inversion Hd; subst d; clear Hd. unfold apply_delta, is_zero. cbn [d_id d_dp d_key].
    assert (e_power ne =? 0 = false) as -> by (apply Z.eqb_neq; lia). cbn [andb]. rewrite Lo.
    assert (e_power ne <=? 0 = false) as -> by (apply Z.leb_gt; lia).
    assert (e_key ne =? 0 = false) as -> by (apply Z.eqb_neq; auto).
    eexists. split; [reflexivity|]. split; [reflexivity|].
    assert (E : mkE id (e_power ne) (e_key ne) = ne). { destruct ne; cbn in *; subst; reflexivity. }
    rewrite E. split. { rewrite <- Hnid. apply lookup_set_eq. }
    split. { intros id' Hne. apply lookup_set_neq. rewrite Hnid. auto. }
    split. { apply nodup_set; auto. }
    constructor; [split; auto|]. apply forall_remove; auto.
Qed.

(* ---------- a sorted list of such deltas ---------- *)
Definition id_lt (x y : delta) : Prop := d_id x < d_id y.

Lemma apply_deltas_between (b : table) ds : forall m last,
  NoDup (ids m) -> Forall wf_entry m -> Forall wf_entry b -> NoDup (ids b) ->
  StronglySorted id_lt ds ->
  (forall l, last = Some l -> Forall (fun d => l < d_id d) ds) ->
  (forall d, In d ds -> delta_between (d_id d) (lookup m (d_id d)) (lookup b (d_id d)) = Some d) ->
  exists m', apply_deltas m last ds = inr m' /\ NoDup (ids m') /\ Forall wf_entry m' /\
    forall id, lookup m' id = if memZ id (map d_id ds) then lookup b id else lookup m id.
Proof.
  induction ds as [|d rest IH]; intros m last Hn Hw Hwb Hnb Hs Hl Hd.
  - exists m. cbn. auto.
  - cbn [apply_deltas].
    assert (Hlast : (match last with Some l => d_id d <=? l | None => false end) = false).
    { destruct last as [l|]; auto. specialize (Hl l eq_refl). inversion Hl; subst. apply Z.leb_gt. auto. }
    rewrite Hlast.
    assert (Hwt : wf_opt (lookup b (d_id d))).
    { destruct (lookup b (d_id d)) eqn:E; cbn; auto. eapply Forall_forall; [exact Hwb|]. eapply lookup_in; eauto. }
    destruct (apply_delta_between m (d_id d) (lookup b (d_id d)) d Hn Hw Hwt
                (fun e H => lookup_id _ _ _ H) (Hd d (or_introl eq_refl)))
      as [m1 [A1 [A2 [A3 [A4 [A5 A6]]]]]].
    rewrite A1. inversion Hs as [|? ? Hs' Hall]; subst.
    destruct (IH m1 (Some (d_id d)) A5 A6 Hwb Hnb Hs') as [m' [B1 [B2 [B3 B4]]]].
    + intros l Hl'. inversion Hl'; subst. exact Hall.
    + intros d' Hin. rewrite A4. { apply Hd. right. auto. }
      rewrite Forall_forall in Hall. specialize (Hall d' Hin). unfold id_lt in Hall. lia.
    + exists m'. split; auto. split; auto. split; auto. intros id. rewrite B4. cbn [map memZ existsb].
      unfold memZ. destruct (existsb (Z.eqb id) (map d_id rest)) eqn:E.
      * rewrite orb_true_r. reflexivity.
      * rewrite orb_false_r. destruct (id =? d_id d) eqn:E2.
        -- apply Z.eqb_eq in E2. subst id. exact A3.
        -- apply Z.eqb_neq in E2. apply A4. auto.
Qed.

(* ---------- sorting the deltas ---------- *)
Lemma insert_delta_perm d l : Permutation (insert_delta d l) (d :: l).
Proof.
  induction l as [|x r IH]; cbn; auto. destruct (d_id d <? d_id x); auto.
  eapply perm_trans; [apply perm_skip, IH|]. apply perm_swap.
Qed.
Lemma sort_deltas_perm l : Permutation (sort_deltas l) l.
Proof. induction l as [|x r IH]; cbn; auto. eapply perm_trans; [apply insert_delta_perm|]. auto. Qed.

Definition id_le (x y : delta) : Prop := d_id x <= d_id y.
Lemma insert_delta_sorted d l : StronglySorted id_le l -> StronglySorted id_le (insert_delta d l).
Proof.
  induction l as [|x r IH]; cbn; intros Hs. { constructor; auto. }
  inversion Hs; subst. destruct (d_id d <? d_id x) eqn:E.
  - apply Z.ltb_lt in E. constructor; auto. constructor. { unfold id_le; lia. }
    eapply Forall_impl; [|exact H2]. unfold id_le. intros; lia.
  - apply Z.ltb_ge in E. constructor; auto.
    assert (P : Permutation (insert_delta d r) (d :: r)) by apply insert_delta_perm.
    apply Forall_forall. intros y Hy. eapply Permutation_in in Hy; [|exact P]. destruct Hy as [<-|Hy].
    + unfold id_le; lia.
    + rewrite Forall_forall in H2. auto.
Qed.
Lemma sort_deltas_sorted l : StronglySorted id_le (sort_deltas l).
Proof. induction l; cbn; [constructor|]. apply insert_delta_sorted; auto. Qed.

Lemma sorted_le_nodup_lt l : StronglySorted id_le l -> NoDup (map d_id l) -> StronglySorted id_lt l.
Proof.
  induction l as [|x r IH]; intros Hs Hn; [constructor|]. inversion Hs; subst. cbn in Hn. inversion Hn; subst.
  constructor; auto. apply Forall_forall. intros y Hy. rewrite Forall_forall in H2. specialize (H2 y Hy).
  unfold id_le, id_lt in *. assert (d_id x <> d_id y). { intros E. apply H3. rewrite E. apply in_map. auto. } lia.
Qed.

(* ---------- the raw (unsorted) delta list ---------- *)
Definition raw_diff (a b : table) : list delta :=
  flat_map (fun ne => match delta_between (e_id ne) (lookup a (e_id ne)) (Some ne) with Some d => [d] | None => [] end) b ++
  flat_map (fun oe => if memZ (e_id oe) (ids b) then [] else [mkD (e_id oe) (- e_power oe) 0]) a.

Lemma make_diff_raw a b : make_diff a b = sort_deltas (raw_diff a b).
Proof. reflexivity. Qed.

Lemma memZ_in x l : memZ x l = true <-> In x l.
Proof.
  unfold memZ. rewrite existsb_exists. split.
  - intros [y [Hy E]]. apply Z.eqb_eq in E. subst; auto.
  - intros H. exists x. split; auto. apply Z.eqb_refl.
Qed.
Lemma memZ_false x l : memZ x l = false <-> ~ In x l.
Proof. rewrite <- memZ_in. destruct (memZ x l); split; intros; try congruence; try tauto; try (exfalso; auto; fail). Qed.

Lemma delta_between_id id o n d : delta_between id o n = Some d -> d_id d = id.
Proof.
  unfold delta_between. destruct o, n; try discriminate.
  - destruct (is_zero _); [discriminate|]. intros H; inversion H; reflexivity.
  - intros H; inversion H; reflexivity.
  - intros H; inversion H; reflexivity.
Qed.

Lemma raw_diff_in a b d : NoDup (ids a) -> NoDup (ids b) ->
  In d (raw_diff a b) <-> delta_between (d_id d) (lookup a (d_id d)) (lookup b (d_id d)) = Some d /\
                          (In (d_id d) (ids a) \/ In (d_id d) (ids b)).
Proof.
  intros Ha Hb. unfold raw_diff. rewrite in_app_iff, !in_flat_map. split.
  - intros [[ne [Hin Hd]]|[oe [Hin Hd]]].
    + destruct (delta_between (e_id ne) (lookup a (e_id ne)) (Some ne)) as [d'|] eqn:E; [|destruct Hd].
      destruct Hd as [<-|[]]. pose proof (delta_between_id _ _ _ _ E) as Hid. rewrite Hid.
      rewrite (in_lookup b ne Hb Hin). split; auto. right. apply in_map; auto.
    + destruct (memZ (e_id oe) (ids b)) eqn:M; [destruct Hd|]. destruct Hd as [<-|[]]. cbn [d_id].
      apply memZ_false in M. rewrite (in_lookup a oe Ha Hin). apply lookup_none in M. rewrite M.
      cbn. split; auto. left. apply in_map; auto.
  - intros [Hd Hor]. destruct (lookup b (d_id d)) as [ne|] eqn:Lb.
    + left. exists ne. split; [eapply lookup_in; eauto|]. rewrite (lookup_id _ _ _ Lb), Hd. left; auto.
    + right. destruct (lookup a (d_id d)) as [oe|] eqn:La; [|discriminate].
      exists oe. split; [eapply lookup_in; eauto|]. rewrite (lookup_id _ _ _ La).
      apply lookup_none in Lb. apply memZ_false in Lb. rewrite Lb. cbn in Hd. left. inversion Hd as [Hd']. cbn [d_id]. rewrite Hd'. reflexivity.
Qed.

Lemma nodup_app (l1 l2 : list Z) : NoDup l1 -> NoDup l2 -> (forall x, In x l1 -> In x l2 -> False) -> NoDup (l1 ++ l2).
Proof.
  induction l1 as [|a l1 IH]; cbn; intros H1 H2 Hd; auto. inversion H1; subst. constructor.
  - intros Hin. apply in_app_or in Hin. destruct Hin; [auto|]. eapply Hd; eauto.
  - apply IH; auto. intros x Hx Hy. eapply Hd; eauto.
Qed.

Lemma raw_diff_nodup a b : NoDup (ids a) -> NoDup (ids b) -> NoDup (map d_id (raw_diff a b)).
Proof.
  intros Ha Hb. unfold raw_diff. rewrite map_app.
  assert (N1 : forall l, NoDup (ids l) -> NoDup (map d_id (flat_map (fun ne => match delta_between (e_id ne) (lookup a (e_id ne)) (Some ne) with Some d => [d] | None => [] end) l))
          /\ forall x, In x (map d_id (flat_map (fun ne => match delta_between (e_id ne) (lookup a (e_id ne)) (Some ne) with Some d => [d] | None => [] end) l)) -> In x (ids l)).
  { induction l as [|ne r IH]; cbn; intros Hn. { split; [constructor|tauto]. }
    inversion Hn; subst. destruct (IH H2) as [I1 I2].
    destruct (delta_between (e_id ne) (lookup a (e_id ne)) (Some ne)) as [d|] eqn:E; cbn.
    - pose proof (delta_between_id _ _ _ _ E) as Hid. split.
      + constructor; auto. rewrite Hid. intros H. apply I2 in H. auto.
      + intros x [<-|H]; [left; auto|right; auto].
    - split; auto. }
  assert (N2 : forall l, NoDup (ids l) -> NoDup (map d_id (flat_map (fun oe => if memZ (e_id oe) (ids b) then [] else [mkD (e_id oe) (- e_power oe) 0]) l))
          /\ forall x, In x (map d_id (flat_map (fun oe => if memZ (e_id oe) (ids b) then [] else [mkD (e_id oe) (- e_power oe) 0]) l)) -> In x (ids l) /\ ~ In x (ids b)).
  { induction l as [|oe r IH]; cbn; intros Hn. { split; [constructor|tauto]. }
    inversion Hn; subst. destruct (IH H2) as [I1 I2].
    destruct (memZ (e_id oe) (ids b)) eqn:M; cbn.
    - split; auto. intros x H. apply I2 in H. tauto.
    - apply memZ_false in M. split.
      + constructor; auto. intros H. apply I2 in H. tauto.
      + intros x [<-|H]; [auto|]. apply I2 in H. tauto. }
  destruct (N1 b Hb) as [A1 A2]. destruct (N2 a Ha) as [B1 B2].
  apply nodup_app; auto. intros x H1 H2. apply A2 in H1. apply B2 in H2. tauto.
Qed.

Lemma delta_between_none id o n :
  (forall e, o = Some e -> e_id e = id) -> (forall e, n = Some e -> e_id e = id) -> wf_opt n ->
  delta_between id o n = None -> o = n.
Proof.
  intros Ho Hn Hw. unfold delta_between. destruct o as [oe|], n as [ne|]; try discriminate; auto.
  destruct (is_zero _) eqn:Z0; [|discriminate]. intros _. unfold is_zero in Z0. cbn in Z0.
  apply andb_true_iff in Z0. destruct Z0 as [P K]. apply Z.eqb_eq in P.
  destruct (e_key ne =? e_key oe) eqn:E.
  - apply Z.eqb_eq in E. specialize (Ho oe eq_refl). specialize (Hn ne eq_refl).
    destruct oe, ne; cbn in *; subst. f_equal. f_equal; lia.
  - apply Z.eqb_eq in K. destruct Hw as [_ Hk]. contradiction.
Qed.

(* ---------- apply (make a b) reaches b ---------- *)
Theorem apply_make_map a b : wf a -> wf b ->
  exists m, apply_deltas a None (make_diff a b) = inr m /\ NoDup (ids m) /\ Forall wf_entry m /\ forall id, lookup m id = lookup b id.
Proof.
  intros [Ha Wa] [Hb Wb].
  pose proof (sort_deltas_perm (raw_diff a b)) as P. rewrite <- make_diff_raw in P.
  assert (Hs : StronglySorted id_lt (make_diff a b)).
  { apply sorted_le_nodup_lt. { rewrite make_diff_raw. apply sort_deltas_sorted. }
    eapply Permutation_NoDup; [apply Permutation_map, Permutation_sym, P|]. apply raw_diff_nodup; auto. }
  destruct (apply_deltas_between b (make_diff a b) a None Ha Wa Wb Hb Hs) as [m [M1 [M2 [M3 M4]]]].
  - discriminate.
  - intros d Hin. eapply Permutation_in in Hin; [|exact P]. apply raw_diff_in in Hin; tauto.
  - exists m. split; auto. split; auto. split; auto. intros id. rewrite M4.
    destruct (memZ id (map d_id (make_diff a b))) eqn:M; auto.
    apply memZ_false in M.
    destruct (delta_between id (lookup a id) (lookup b id)) as [d|] eqn:D.
    + pose proof (delta_between_id _ _ _ _ D) as Hid.
      assert (Hor : In id (ids a) \/ In id (ids b) \/ (lookup a id = None /\ lookup b id = None)).
      { destruct (lookup a id) eqn:La. { left. apply lookup_in in La as Hi. rewrite <- (lookup_id _ _ _ La). apply in_map; auto. }
        destruct (lookup b id) eqn:Lb. { right; left. apply lookup_in in Lb as Hi. rewrite <- (lookup_id _ _ _ Lb). apply in_map; auto. }
        right; right; auto. }
      destruct Hor as [H|[H|[H1 H2]]].
      * exfalso. apply M. rewrite <- Hid. apply in_map. eapply Permutation_in; [apply Permutation_sym, P|].
        apply raw_diff_in; auto. rewrite Hid. auto.
      * exfalso. apply M. rewrite <- Hid. apply in_map. eapply Permutation_in; [apply Permutation_sym, P|].
        apply raw_diff_in; auto. rewrite Hid. auto.
      * congruence.
    + apply delta_between_none in D; auto.
      * intros e H. eapply lookup_id; eauto.
      * intros e H. eapply lookup_id; eauto.
      * destruct (lookup b id) eqn:E; cbn; auto. eapply Forall_forall; [exact Wb|]. eapply lookup_in; eauto.
Qed.

(* ---------- canonical order is a function of the map ---------- *)
Definition entry_lt (a b : entry) : Prop := e_power b < e_power a \/ (e_power a = e_power b /\ e_id a < e_id b).
Lemma entry_ltb_spec a b : entry_ltb a b = true <-> entry_lt a b.
Proof.
  unfold entry_ltb, entry_lt. rewrite orb_true_iff, andb_true_iff, !Z.ltb_lt, Z.eqb_eq. tauto.
Qed.

Lemma insert_entry_perm e l : Permutation (insert_entry e l) (e :: l).
Proof.
  induction l as [|x r IH]; cbn; auto. destruct (entry_ltb e x); auto.
  eapply perm_trans; [apply perm_skip, IH|]. apply perm_swap.
Qed.
Lemma canon_perm l : Permutation (canon l) l.
Proof. induction l as [|x r IH]; cbn; auto. eapply perm_trans; [apply insert_entry_perm|]. auto. Qed.

Definition entry_le (a b : entry) : Prop := entry_lt a b \/ (e_power a = e_power b /\ e_id a = e_id b).
Lemma insert_entry_sorted e l : StronglySorted entry_le l -> StronglySorted entry_le (insert_entry e l).
Proof.
  induction l as [|x r IH]; cbn; intros Hs. { constructor; auto. }
  inversion Hs; subst. destruct (entry_ltb e x) eqn:E.
  - apply entry_ltb_spec in E. constructor; auto. constructor. { left; auto. }
    eapply Forall_impl; [|exact H2]. unfold entry_le, entry_lt in *. intros; lia.
  - assert (Hx : entry_le x e).
    { destruct (entry_ltb x e) eqn:E2. { left. apply entry_ltb_spec; auto. }
      unfold entry_ltb in *. apply orb_false_iff in E. apply orb_false_iff in E2.
      destruct E as [E1 E3], E2 as [E4 E5]. apply Z.ltb_ge in E1, E4.
      assert (e_power e = e_power x) by lia. right. split; [lia|].
      rewrite H, Z.eqb_refl in E3. assert (e_power x =? e_power e = true) by (apply Z.eqb_eq; lia).
      rewrite H0 in E5. cbn in E3, E5. apply Z.ltb_ge in E3, E5. lia. }
    constructor; auto.
    apply Forall_forall. intros y Hy. eapply Permutation_in in Hy; [|apply insert_entry_perm]. destruct Hy as [<-|Hy]; auto.
    rewrite Forall_forall in H2. auto.
Qed.
Lemma canon_sorted l : StronglySorted entry_le (canon l).
Proof. induction l; cbn; [constructor|]. apply insert_entry_sorted; auto. Qed.

Lemma sorted_unique (l1 l2 : table) :
  StronglySorted entry_le l1 -> StronglySorted entry_le l2 -> NoDup (ids l1) -> Permutation l1 l2 -> l1 = l2.
Proof.
  revert l2. induction l1 as [|x r IH]; intros l2 S1 S2 Hn P.
  - apply Permutation_nil in P. auto.
  - destruct l2 as [|y r2]. { apply Permutation_sym, Permutation_nil in P. discriminate. }
    inversion S1 as [|? ? S1' F1]; subst. inversion S2 as [|? ? S2' F2]; subst. cbn in Hn. inversion Hn as [|? ? Hx Hn']; subst.
    assert (x = y).
    { assert (Hy : In y (x :: r)) by (eapply Permutation_in; [apply Permutation_sym, P|left; auto]).
      assert (Hx' : In x (y :: r2)) by (eapply Permutation_in; [exact P|left; auto]).
      destruct Hy as [|Hy]; auto. destruct Hx' as [|Hx']; auto.
      rewrite Forall_forall in F1, F2. specialize (F1 y Hy). specialize (F2 x Hx').
      exfalso. apply Hx. assert (e_id x = e_id y). { unfold entry_le, entry_lt in *. lia. }
      rewrite H. apply in_map; auto. }
    subst y. f_equal. apply IH; auto. eapply Permutation_cons_inv; eauto.
Qed.

Theorem canon_ext m1 m2 : NoDup (ids m1) -> NoDup (ids m2) ->
  (forall id, lookup m1 id = lookup m2 id) -> canon m1 = canon m2.
Proof.
  intros H1 H2 He.
  assert (P : Permutation m1 m2).
  { apply NoDup_Permutation.
    - eapply NoDup_map_inv; eauto.
    - eapply NoDup_map_inv; eauto.
    - intros e. split; intros Hin.
      + apply in_lookup in Hin as L; auto. rewrite He in L. eapply lookup_in; eauto.
      + apply in_lookup in Hin as L; auto. rewrite <- He in L. eapply lookup_in; eauto. }
  apply sorted_unique; try apply canon_sorted.
  - eapply Permutation_NoDup; [apply Permutation_map, Permutation_sym, canon_perm|]. auto.
  - eapply perm_trans; [apply canon_perm|]. eapply perm_trans; [exact P|]. apply Permutation_sym, canon_perm.
Qed.

(* the headline: the delta between two well-formed tables, applied to the first, yields the second
   in canonical order *)
Theorem apply_make a b : wf a -> wf b -> apply_diff a (make_diff a b) = inr (canon b).
Proof.
  intros Ha Hb. destruct (apply_make_map a b Ha Hb) as [m [M1 [M2 [M3 M4]]]].
  unfold apply_diff. rewrite M1. f_equal. apply canon_ext; auto. destruct Hb; auto.
Qed.

Example apply_make_example :
  let a := [mkE 1 10 7; mkE 2 5 8; mkE 3 5 9] in
  let b := [mkE 3 6 9; mkE 4 1 11; mkE 1 10 12] in
  make_diff a b = [mkD 1 0 12; mkD 2 (-5) 0; mkD 3 1 0; mkD 4 1 11] /\
  apply_diff a (make_diff a b) = inr [mkE 1 10 12; mkE 3 6 9; mkE 4 1 11].
Proof. split; vm_compute; reflexivity. Qed.

(* ---------- every accepted delta is THE canonical delta between input and output ---------- *)
Lemma apply_delta_inv m d m' :
  NoDup (ids m) -> Forall wf_entry m -> apply_delta m d = inr m' ->
  delta_between (d_id d) (lookup m (d_id d)) (lookup m' (d_id d)) = Some d /\
  (forall id', id' <> d_id d -> lookup m' id' = lookup m id') /\ NoDup (ids m') /\ Forall wf_entry m'.
Proof.
  intros Hn Hw. unfold apply_delta. destruct (is_zero d) eqn:Z0; [discriminate|].
  destruct d as [id dp k]. cbn [d_id d_dp d_key] in *. unfold is_zero in Z0. cbn [d_dp d_key] in Z0.
  destruct (lookup m id) as [pe|] eqn:L.
  - assert (Hpe : wf_entry pe). { eapply Forall_forall; [exact Hw|]. eapply lookup_in; eauto. }
    destruct Hpe as [Hpp Hpk]. pose proof (lookup_id _ _ _ L) as Hid.
    destruct (k =? e_key pe) eqn:K; [discriminate|]. apply Z.eqb_neq in K.
    set (p := if dp =? 0 then e_power pe else dp + e_power pe).
    assert (Hp : p = dp + e_power pe). { subst p. destruct (dp =? 0) eqn:E; auto. apply Z.eqb_eq in E. lia. }
    destruct (negb (k =? 0) && (p =? 0)) eqn:R; [discriminate|].
    destruct (p =? 0) eqn:P0.
    + apply Z.eqb_eq in P0. rewrite andb_true_r in R. apply negb_false_iff in R. apply Z.eqb_eq in R. subst k.
      intros H; inversion H; subst m'. rewrite lookup_remove_eq. cbn.
      split. { f_equal. f_equal. lia. }
      split. { intros; apply lookup_remove_neq; auto. }
      split; [apply nodup_remove; auto | apply forall_remove; auto].
    + apply Z.eqb_neq in P0. destruct (0 <? p) eqn:PP; [|discriminate]. apply Z.ltb_lt in PP.
      intros H; inversion H; subst m'.
      assert (LS : lookup (set m (mkE id p (if negb (k =? 0) then k else e_key pe))) id = Some (mkE id p (if negb (k =? 0) then k else e_key pe))).
      { apply (lookup_set_eq m (mkE id p (if negb (k =? 0) then k else e_key pe))). }
      rewrite LS. cbn [delta_between e_power e_key].
      split.
      { destruct (k =? 0) eqn:K0; cbn [negb].
        - apply Z.eqb_eq in K0. subst k. rewrite Z.eqb_refl. unfold is_zero. cbn [d_dp d_key].
          assert (Hdp : dp <> 0). { intro; subst dp. cbn in Z0. discriminate. }
          assert (p - e_power pe =? 0 = false) as -> by (apply Z.eqb_neq; lia).
          cbn [andb]. f_equal. f_equal. lia.
        - assert (k =? e_key pe = false) as -> by (apply Z.eqb_neq; auto). unfold is_zero. cbn [d_dp d_key].
          rewrite K0, andb_false_r. f_equal. f_equal. lia. }
      split. { intros id' Hne. apply lookup_set_neq. cbn. auto. }
      split. { apply nodup_set; auto. }
      constructor. { split; cbn; [lia|]. destruct (k =? 0) eqn:K0; cbn; auto. apply Z.eqb_neq in K0; auto. }
      apply forall_remove; auto.
  - destruct (dp <=? 0) eqn:D0; [discriminate|]. apply Z.leb_gt in D0.
    destruct (k =? 0) eqn:K0; [discriminate|]. apply Z.eqb_neq in K0.
    intros H; inversion H; subst m'.
    assert (LS : lookup (set m (mkE id dp k)) id = Some (mkE id dp k)) by apply (lookup_set_eq m (mkE id dp k)).
    rewrite LS. split; [reflexivity|].
    split. { intros id' Hne. apply lookup_set_neq. cbn. auto. }
    split. { apply nodup_set; auto. }
    constructor. { split; cbn; auto. } apply forall_remove; auto.
Qed.

Lemma apply_deltas_inv ds : forall m last m',
  NoDup (ids m) -> Forall wf_entry m -> apply_deltas m last ds = inr m' ->
  StronglySorted id_lt ds /\ (forall l, last = Some l -> Forall (fun d => l < d_id d) ds) /\
  NoDup (ids m') /\ Forall wf_entry m' /\
  (forall d, In d ds -> delta_between (d_id d) (lookup m (d_id d)) (lookup m' (d_id d)) = Some d) /\
  (forall id, ~ In id (map d_id ds) -> lookup m' id = lookup m id).
Proof.
  induction ds as [|d rest IH]; intros m last m' Hn Hw H; cbn [apply_deltas] in H.
  - inversion H; subst. repeat split; auto; try constructor. intros d [].
  - destruct (match last with Some l => d_id d <=? l | None => false end) eqn:Hl; [discriminate|].
    destruct (apply_delta m d) as [e|m1] eqn:A; [discriminate|].
    destruct (apply_delta_inv m d m1 Hn Hw A) as [A1 [A2 [A3 A4]]].
    destruct (IH m1 (Some (d_id d)) m' A3 A4 H) as [S [L [N [W [D U]]]]].
    specialize (L (d_id d) eq_refl).
    split. { constructor; auto. }
    split. { intros l El. subst last. apply Z.leb_gt in Hl. constructor; auto.
             eapply Forall_impl; [|exact L]. cbn. intros; lia. }
    split; auto. split; auto. split.
    + intros d' [<-|Hin].
      * rewrite U. { exact A1. }
        intros Hin. apply in_map_iff in Hin. destruct Hin as [x [Ex Hx]]. rewrite Forall_forall in L. specialize (L x Hx). lia.
      * rewrite <- A2. { apply D; auto. }
        rewrite Forall_forall in L. specialize (L d' Hin). lia.
    + intros id Hnin. cbn [map In] in Hnin. rewrite U by tauto. apply A2. intros E. apply Hnin. left. auto.
Qed.

Lemma sorted_unique_delta (l1 l2 : list delta) :
  StronglySorted id_lt l1 -> StronglySorted id_lt l2 -> (forall d, In d l1 <-> In d l2) -> l1 = l2.
Proof.
  revert l2. induction l1 as [|x r IH]; intros l2 S1 S2 Hi.
  - destruct l2 as [|y r2]; auto. exfalso. apply (Hi y). left; auto.
  - destruct l2 as [|y r2]. { exfalso. apply (Hi x). left; auto. }
    inversion S1 as [|? ? S1' F1]; subst. inversion S2 as [|? ? S2' F2]; subst.
    rewrite Forall_forall in F1, F2.
    assert (x = y).
    { assert (Hy : In y (x :: r)) by (apply Hi; left; auto).
      assert (Hx : In x (y :: r2)) by (apply Hi; left; auto).
      destruct Hy as [|Hy]; auto. destruct Hx as [|Hx]; auto.
      specialize (F1 y Hy). specialize (F2 x Hx). unfold id_lt in *. lia. }
    subst y. f_equal. apply IH; auto. intros d. split; intros Hd.
    + assert (In d (x :: r2)) as [E|]; auto. { apply Hi. right; auto. }
      subst d. specialize (F1 x Hd). unfold id_lt in F1. lia.
    + assert (In d (x :: r)) as [E|]; auto. { apply Hi. right; auto. }
      subst d. specialize (F2 x Hd). unfold id_lt in F2. lia.
Qed.

Theorem apply_unique a d m : wf a -> apply_deltas a None d = inr m -> d = make_diff a m.
Proof.
  intros [Ha Wa] H. destruct (apply_deltas_inv d a None m Ha Wa H) as [S [_ [N [W [D U]]]]].
  assert (Hs : StronglySorted id_lt (make_diff a m)).
  { apply sorted_le_nodup_lt. { rewrite make_diff_raw. apply sort_deltas_sorted. }
    eapply Permutation_NoDup; [apply Permutation_map, Permutation_sym, sort_deltas_perm|]. apply raw_diff_nodup; auto. }
  apply sorted_unique_delta; auto. intros x. rewrite make_diff_raw.
  split; intros Hx.
  - eapply Permutation_in; [apply Permutation_sym, sort_deltas_perm|]. apply raw_diff_in; auto.
    split; [apply D; auto|].
    specialize (D x Hx). destruct (lookup a (d_id x)) eqn:La.
    { left. rewrite <- (lookup_id _ _ _ La). apply in_map. eapply lookup_in; eauto. }
    destruct (lookup m (d_id x)) eqn:Lm; [|discriminate].
    right. rewrite <- (lookup_id _ _ _ Lm). apply in_map. eapply lookup_in; eauto.
  - eapply Permutation_in in Hx; [|apply sort_deltas_perm]. apply raw_diff_in in Hx; auto. destruct Hx as [Hd _].
    destruct (in_dec Z.eq_dec (d_id x) (map d_id d)) as [Hin|Hnin].
    + apply in_map_iff in Hin. destruct Hin as [y [Ey Hy]]. specialize (D y Hy). rewrite Ey in D. congruence.
    + exfalso. rewrite (U _ Hnin) in Hd. unfold delta_between in Hd.
      destruct (lookup a (d_id x)) as [oe|] eqn:La; [|discriminate].
      unfold is_zero in Hd. cbn in Hd. rewrite Z.sub_diag, !Z.eqb_refl in Hd. cbn in Hd. discriminate.
Qed.

Corollary apply_diff_unique a d t : wf a -> apply_diff a d = inr t -> exists m, t = canon m /\ d = make_diff a m.
Proof.
  intros Ha. unfold apply_diff. destruct (apply_deltas a None d) as [e|m] eqn:E; [discriminate|].
  intros H; inversion H; subst. exists m. split; auto. eapply apply_unique; eauto.
Qed.
