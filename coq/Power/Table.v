(* C04 model (no proofs): power tables, canonical order, MakePowerTableDiff, ApplyPowerTableDiffs.
   Keys are tokens (0 = empty key); powers are unbounded integers (big.Int). Mirrors certs/certs.go. *)
From Coq Require Import ZArith List Bool.
Import ListNotations.
Open Scope Z_scope.

Record entry := mkE { e_id : Z; e_power : Z; e_key : Z }.
Definition table := list entry.            (* used both as PowerEntries (ordered) and as the id-keyed map *)

Definition entry_eqb (a b : entry) : bool :=
  (e_id a =? e_id b) && (e_power a =? e_power b) && (e_key a =? e_key b).
Fixpoint table_eqb (a b : table) : bool :=
  match a, b with
  | [], [] => true
  | x :: a', y :: b' => entry_eqb x y && table_eqb a' b'
  | _, _ => false
  end.

Fixpoint lookup (t : table) (id : Z) : option entry :=
  match t with
  | [] => None
  | e :: r => if e_id e =? id then Some e else lookup r id
  end.
Fixpoint remove (t : table) (id : Z) : table :=
  match t with
  | [] => []
  | e :: r => if e_id e =? id then remove r id else e :: remove r id
  end.
Definition set (t : table) (e : entry) : table := e :: remove t (e_id e).
Definition ids (t : table) : list Z := map e_id t.
Definition memZ (x : Z) (l : list Z) : bool := existsb (Z.eqb x) l.

(* PowerEntries.Less: power descending, then id ascending *)
Definition entry_ltb (a b : entry) : bool :=
  (e_power b <? e_power a) || ((e_power a =? e_power b) && (e_id a <? e_id b)).
Fixpoint insert_entry (e : entry) (l : table) : table :=
  match l with
  | [] => [e]
  | x :: r => if entry_ltb e x then e :: l else x :: insert_entry e r
  end.
Definition canon (t : table) : table := fold_right insert_entry [] t.

(* well-formed table (as a map): unique ids, positive power, non-empty key *)
Definition wf_entry (e : entry) : Prop := 0 < e_power e /\ e_key e <> 0.
Definition wf (t : table) : Prop := NoDup (ids t) /\ Forall wf_entry t.
Definition wf_entryb (e : entry) : bool := (0 <? e_power e) && negb (e_key e =? 0).
Fixpoint nodupb (l : list Z) : bool := match l with [] => true | x :: r => negb (memZ x r) && nodupb r end.
Definition wfb (t : table) : bool := nodupb (ids t) && forallb wf_entryb t.

Record delta := mkD { d_id : Z; d_dp : Z; d_key : Z }.
Definition delta_eqb (a b : delta) : bool := (d_id a =? d_id b) && (d_dp a =? d_dp b) && (d_key a =? d_key b).
Fixpoint diff_eqb (a b : list delta) : bool :=
  match a, b with
  | [], [] => true
  | x :: a', y :: b' => delta_eqb x y && diff_eqb a' b'
  | _, _ => false
  end.
Definition is_zero (d : delta) : bool := (d_dp d =? 0) && (d_key d =? 0).

Fixpoint insert_delta (d : delta) (l : list delta) : list delta :=
  match l with
  | [] => [d]
  | x :: r => if d_id d <? d_id x then d :: l else x :: insert_delta d r
  end.
Definition sort_deltas (l : list delta) : list delta := fold_right insert_delta [] l.

(* the delta that turns `o` (entry of the old table, if any) into `n` (entry of the new one, if any) *)
Definition delta_between (id : Z) (o n : option entry) : option delta :=
  match o, n with
  | Some oe, Some ne =>
      let d := mkD id (e_power ne - e_power oe) (if e_key ne =? e_key oe then 0 else e_key ne) in
      if is_zero d then None else Some d
  | None, Some ne => Some (mkD id (e_power ne) (e_key ne))
  | Some oe, None => Some (mkD id (- e_power oe) 0)
  | None, None => None
  end.

(* MakePowerTableDiff *)
Definition make_diff (old new : table) : list delta :=
  let changed := flat_map (fun ne => match delta_between (e_id ne) (lookup old (e_id ne)) (Some ne) with
                                     | Some d => [d] | None => [] end) new in
  let removed := flat_map (fun oe => if memZ (e_id oe) (ids new) then [] else [mkD (e_id oe) (- e_power oe) 0]) old in
  sort_deltas (changed ++ removed).

Inductive derr := DNotSorted | DEmpty | DUnchangedKey | DRemoveWithKey | DNewNonPositive | DNewNoKey | DNegative.

(* one delta of ApplyPowerTableDiffsToMap *)
Definition apply_delta (m : table) (d : delta) : derr + table :=
  if is_zero d then inl DEmpty else
  match lookup m (d_id d) with
  | Some pe =>
      if d_key d =? e_key pe then inl DUnchangedKey else
      let p := if d_dp d =? 0 then e_power pe else d_dp d + e_power pe in
      if negb (d_key d =? 0) && (p =? 0) then inl DRemoveWithKey else
      let k := if negb (d_key d =? 0) then d_key d else e_key pe in
      if p =? 0 then inr (remove m (d_id d))
      else if 0 <? p then inr (set m (mkE (d_id d) p k))
      else inl DNegative
  | None =>
      if d_dp d <=? 0 then inl DNewNonPositive else
      if d_key d =? 0 then inl DNewNoKey else
      inr (set m (mkE (d_id d) (d_dp d) (d_key d)))
  end.

Fixpoint apply_deltas (m : table) (last : option Z) (ds : list delta) : derr + table :=
  match ds with
  | [] => inr m
  | d :: rest =>
      if (match last with Some l => d_id d <=? l | None => false end) then inl DNotSorted else
      match apply_delta m d with
      | inl e => inl e
      | inr m' => apply_deltas m' (Some (d_id d)) rest
      end
  end.

(* ApplyPowerTableDiffs(prev, diff): result in canonical order *)
Definition apply_diff (t : table) (d : list delta) : derr + table :=
  match apply_deltas t None d with inl e => inl e | inr m => inr (canon m) end.
Definition derr_code (e : derr) : Z :=
  match e with DNotSorted => 1 | DEmpty => 2 | DUnchangedKey => 3 | DRemoveWithKey => 4 | DNewNonPositive => 5 | DNewNoKey => 6 | DNegative => 7 end.
