(* executable history checker for the C11 correspondence *)
From Coq Require Import ZArith List Bool.
From F3 Require Import Wal.
Import ListNotations.
Open Scope Z_scope.

Inductive wop :=
| WAppend (r : rec) (fresh : name)
| WFlush                                   (* Rotate() / Close() *)
| WPurge (keep : Z)
| WAll (exp : list Z)                      (* ids returned by All(), in order *)
| WFiles (exp : list (name * list Z))      (* directory listing: name and record ids of every file *)
| WReopen
| WCrash (r : rec) (fresh : name) (cut : Z)
| WReject (fresh : name).                  (* an Append whose entry cannot be encoded: maybeRotate has run, nothing is written *)

Fixpoint zl_eqb (a b : list Z) : bool :=
  match a, b with [], [] => true | x :: a', y :: b' => (x =? y) && zl_eqb a' b' | _, _ => false end.
Fixpoint files_eqb (a : list file) (b : list (name * list Z)) : bool :=
  match a, b with
  | [], [] => true
  | f :: a', (n, ids) :: b' => name_eqb (f_name f) n && zl_eqb (map r_id (f_recs f)) ids && files_eqb a' b'
  | _, _ => false
  end.

Definition wstep (w : wal) (o : wop) : wal * bool :=
  match o with
  | WAppend r fresh => match append w r fresh with inr w' => (w', true) | inl _ => (w, false) end
  | WFlush => (flush w, true)
  | WPurge k => (purge w k, true)
  | WAll exp => (w, zl_eqb (map r_id (all w)) exp)
  | WFiles exp => (w, files_eqb (sort_files (w_dir w)) exp)
  | WReopen => (open_wal (w_dir w), true)
  | WCrash r fresh cut => (open_wal (crash_append w r fresh cut), true)
  | WReject fresh => match maybe_rotate w fresh with inr w' => (w', true) | inl _ => (w, false) end
  end.

Fixpoint wrun (w : wal) (ops : list wop) (idx : Z) : Z :=
  match ops with
  | [] => -1
  | o :: rest => let '(w', ok) := wstep w o in if ok then wrun w' rest (idx + 1) else idx
  end.
Definition wal_history_ok (ops : list wop) : bool := wrun (open_wal []) ops 0 =? -1.
