From Coq Require Import ZArith List Bool Lia Sorting.Permutation.
From F3 Require Import Wal.
Import ListNotations.
Open Scope Z_scope.

(* ---------- byte layer: acknowledged records survive a torn tail; no phantom records ---------- *)
Section BytesProofs.
  Variable entry : Type.
  Variable enc : entry -> list Z.
  Variable dec : list Z -> option (entry * list Z).
  (* the entries the log is used with (for the real WAL: GMessage values within the limits of the Go types) *)
  Variable good : entry -> Prop.
  (* the codec contract -- PROVED for the cbor-gen codec of the real entry type in Enc/CodecProofs.v and instantiated
     below (Properties/C11.v, c11_wal_entry_torn_tail etc.): self-delimiting round trip, every encoding is non-empty, and a proper
     prefix of an encoding does not decode *)
  Hypothesis dec_enc : forall e rest, good e -> dec (enc e ++ rest) = Some (e, rest).
  Hypothesis enc_nonempty : forall e, good e -> enc e <> [].
  Hypothesis dec_prefix : forall e p q, good e -> enc e = p ++ q -> q <> [] -> dec p = None.

  Lemma parse_complete : forall es fuel tail, Forall good es -> (length es < fuel)%nat -> dec tail = None ->
    parse entry dec fuel (concat (map enc es) ++ tail) = es.
  Proof.
    induction es as [|e es IH]; intros fuel tail Hg Hf Ht; destruct fuel as [|f]; try (cbn in Hf; lia).
    - cbn. rewrite Ht. reflexivity.
    - inversion Hg as [|? ? Ge Ges]; subst. cbn [map concat]. rewrite <- app_assoc. cbn [parse]. rewrite dec_enc by exact Ge.
      f_equal. apply IH; auto. cbn in Hf. lia.
  Qed.

  Lemma length_concat_ge es : Forall good es -> (length es <= length (concat (map enc es)))%nat.
  Proof.
    induction 1 as [|e es Ge _ IH]; cbn; [lia|]. rewrite app_length.
    assert (1 <= length (enc e))%nat. { destruct (enc e) eqn:E; [exfalso; eapply enc_nonempty; eauto|cbn; lia]. } lia.
  Qed.

  (* a file holding the records es followed by a torn prefix of one more record reads back exactly es *)
  Theorem torn_tail_read_good es e p q : Forall good es -> good e -> enc e = p ++ q -> q <> [] ->
    read_file entry dec (concat (map enc es) ++ p) = es.
  Proof.
    intros Hg Ge E Q. unfold read_file. apply parse_complete; [exact Hg| |eapply dec_prefix; eauto].
    rewrite app_length. pose proof (length_concat_ge es Hg). lia.
  Qed.

  Theorem clean_read_good es : dec [] = None -> Forall good es -> read_file entry dec (concat (map enc es)) = es.
  Proof.
    intros Hnil Hg. rewrite <- (app_nil_r (concat (map enc es))) at 1.
    destruct es as [|e0 es'] eqn:Ees.
    - unfold read_file. cbn. rewrite Hnil. reflexivity.
    - assert (G0 : good e0) by (inversion Hg; assumption).
      rewrite <- Ees in *. unfold read_file. rewrite app_nil_r.
      rewrite <- (app_nil_r (concat (map enc es))). apply parse_complete; [exact Hg| |].
      + rewrite app_nil_r. pose proof (length_concat_ge es Hg). lia.
      + exact (dec_prefix e0 [] (enc e0) G0 eq_refl (enc_nonempty e0 G0)).
  Qed.
End BytesProofs.

Section BytesProofsAll.
  Variable entry : Type.
  Variable enc : entry -> list Z.
  Variable dec : list Z -> option (entry * list Z).
  Hypothesis dec_enc : forall e rest, dec (enc e ++ rest) = Some (e, rest).
  Hypothesis enc_nonempty : forall e, enc e <> [].
  Hypothesis dec_prefix : forall e p q, enc e = p ++ q -> q <> [] -> dec p = None.
  Let all_good es : Forall (fun _ : entry => True) es. Proof. apply Forall_forall. intros; exact I. Qed.
  Theorem torn_tail_read es e p q : enc e = p ++ q -> q <> [] ->
    read_file entry dec (concat (map enc es) ++ p) = es.
  Proof.
    intros E Q. apply (torn_tail_read_good entry enc dec (fun _ => True)) with (e := e) (q := q); auto.
    intros; eapply dec_prefix; eauto.
  Qed.
  Theorem clean_read es : read_file entry dec (concat (map enc es)) = es.
  Proof.
    destruct es as [|e0 es'] eqn:Ees.
    - unfold read_file. cbn. destruct (dec []) as [[e r]|] eqn:D; auto.
      rewrite (dec_prefix e [] (enc e) eq_refl (enc_nonempty e)) in D. discriminate.
    - rewrite <- Ees. apply (clean_read_good entry enc dec (fun _ => True)); auto.
      + intros; eapply dec_prefix; eauto.
      + exact (dec_prefix e0 [] (enc e0) eq_refl (enc_nonempty e0)).
  Qed.
End BytesProofsAll.

(* ---------- record layer ---------- *)
Lemma name_eqb_eq a b : name_eqb a b = true <-> a = b.
Proof.
  revert b. induction a as [|x a IH]; destruct b as [|y b]; cbn; try (split; congruence).
  rewrite andb_true_iff, Z.eqb_eq, IH. split; [intros [-> ->]; auto | intros H; inversion H; auto].
Qed.
Lemma name_eqb_refl a : name_eqb a a = true. Proof. apply name_eqb_eq; auto. Qed.
Lemma name_eqb_neq a b : a <> b -> name_eqb a b = false.
Proof. intros H. destruct (name_eqb a b) eqn:E; auto. apply name_eqb_eq in E. contradiction. Qed.

Lemma find_update_same d n g : (forall f, f_name (g f) = f_name f) ->
  find_file (update_file d n g) n = option_map g (find_file d n).
Proof.
  intros Hg. induction d as [|f r IH]; cbn; auto. destruct (name_eqb (f_name f) n) eqn:E; cbn.
  - rewrite Hg, E. reflexivity.
  - rewrite E. exact IH.
Qed.
Lemma find_update_other d n n' g : (forall f, f_name (g f) = f_name f) -> n' <> n ->
  find_file (update_file d n g) n' = find_file d n'.
Proof.
  intros Hg Hn. induction d as [|f r IH]; cbn; auto. destruct (name_eqb (f_name f) n) eqn:E; cbn.
  - rewrite Hg. apply name_eqb_eq in E. rewrite E. rewrite !(name_eqb_neq n n') by auto. reflexivity.
  - destruct (name_eqb (f_name f) n'); auto.
Qed.
Lemma find_app d f n : find_file (d ++ [f]) n =
  match find_file d n with Some x => Some x | None => if name_eqb (f_name f) n then Some f else None end.
Proof. induction d as [|g r IH]; cbn; auto. destruct (name_eqb (f_name g) n); auto. Qed.
Lemma find_in_names d n f : find_file d n = Some f -> In n (map f_name d) /\ f_name f = n.
Proof.
  induction d as [|g r IH]; cbn; [discriminate|]. destruct (name_eqb (f_name g) n) eqn:E.
  - intros H; inversion H; subst. apply name_eqb_eq in E. auto.
  - intros H. apply IH in H. tauto.
Qed.
Lemma find_none_names d n : find_file d n = None <-> ~ In n (map f_name d).
Proof.
  induction d as [|g r IH]; cbn; [tauto|]. destruct (name_eqb (f_name g) n) eqn:E.
  - apply name_eqb_eq in E. split; [discriminate|]. intros H. exfalso. apply H. auto.
  - rewrite IH. split; intros H; [intros [H1|H1]; [apply name_eqb_eq in H1; congruence | auto] | tauto].
Qed.

Lemma nodup_snoc {A} (l : list A) x : NoDup l -> ~ In x l -> NoDup (l ++ [x]).
Proof. intros. eapply Permutation_NoDup; [apply Permutation_cons_append|]. constructor; auto. Qed.

Lemma nodup_app_l {A} (l1 l2 : list A) : NoDup (l1 ++ l2) -> NoDup l1.
Proof.
  induction l1 as [|a l1 IH]; cbn; intros H; [constructor|]. inversion H; subst. constructor; auto.
  intros Hin. apply H2. apply in_or_app. auto.
Qed.

Definition handle_names (w : wal) : list name :=
  map st_name (w_closed w) ++ match w_active w with Some a => [st_name a] | None => [] end.

(* well-formed handle: distinct file names; the handle lists distinct existing files, each with its true max epoch *)
Definition wfw (w : wal) : Prop :=
  NoDup (map f_name (w_dir w)) /\ NoDup (handle_names w) /\
  (forall n, In n (handle_names w) -> In n (map f_name (w_dir w))) /\
  (forall s, In s (w_closed w) \/ w_active w = Some s -> st_max s = max_epoch (recs_of (w_dir w) (st_name s))).

Lemma all_flush w : all (flush w) = all w.
Proof.
  unfold flush, all. destruct (w_active w) as [a|] eqn:E; cbn [w_closed w_active w_dir].
  - rewrite flat_map_app. cbn. rewrite !app_nil_r. reflexivity.
  - rewrite E. reflexivity.
Qed.

Lemma handle_names_flush w : handle_names (flush w) = handle_names w.
Proof.
  unfold flush, handle_names. destruct (w_active w) as [a|] eqn:E; cbn [w_closed w_active].
  - rewrite map_app. cbn. rewrite app_nil_r. reflexivity.
  - rewrite E. reflexivity.
Qed.

Lemma wfw_flush w : wfw w -> wfw (flush w).
Proof.
  intros (A & B & C & D). unfold wfw. rewrite handle_names_flush.
  assert (Ed : w_dir (flush w) = w_dir w). { unfold flush. destruct (w_active w); reflexivity. }
  rewrite Ed. repeat split; auto. intros s Hs. apply D. unfold flush in Hs. destruct (w_active w) as [a|] eqn:Ea; cbn in Hs.
  - destruct Hs as [Hs|Hs]; [|discriminate]. apply in_app_or in Hs. destruct Hs as [Hs|[<-|[]]]; auto.
  - destruct Hs as [Hs|Hs]; [left; exact Hs|]. rewrite Ea in Hs. discriminate.
Qed.

Lemma max_epoch_app rs r : max_epoch (rs ++ [r]) = Z.max (max_epoch rs) (r_epoch r).
Proof. unfold max_epoch. rewrite fold_left_app. reflexivity. Qed.

Lemma flat_map_recs_ext d d' (l : list stat) :
  (forall s, In s l -> recs_of d' (st_name s) = recs_of d (st_name s)) ->
  flat_map (fun s => recs_of d' (st_name s)) l = flat_map (fun s => recs_of d (st_name s)) l.
Proof. induction l as [|s r IH]; cbn; intros H; auto. rewrite H by auto. rewrite IH; auto. Qed.

(* an acknowledged append adds exactly that record at the end of what All returns *)
Theorem append_all w r fresh w' : wfw w -> append w r fresh = inr w' ->
  all w' = all w ++ [r] /\ wfw w'.
Proof.
  intros Hw. unfold append.
  assert (Key : forall w1, wfw w1 -> all w1 = all w -> forall a, w_active w1 = Some a ->
            let w2 := mkWal (update_file (w_dir w1) (st_name a) (fun f => mkFile (f_name f) (f_recs f ++ [r]) (f_torn f)))
                            (w_closed w1) (Some (mkStat (st_name a) (Z.max (st_max a) (r_epoch r)))) in
            all w2 = all w ++ [r] /\ wfw w2).
  { intros w1 (A & B & C & D) Eall a Ea w2.
    assert (Hg : forall f, f_name (mkFile (f_name f) (f_recs f ++ [r]) (f_torn f)) = f_name f) by reflexivity.
    assert (Hin : In (st_name a) (map f_name (w_dir w1))). { apply C. unfold handle_names. rewrite Ea. apply in_or_app. right. left; auto. }
    destruct (find_file (w_dir w1) (st_name a)) as [fa|] eqn:Fa. 2:{ apply find_none_names in Fa. contradiction. }
    assert (Hother : forall s, In s (w_closed w1) -> recs_of (w_dir w2) (st_name s) = recs_of (w_dir w1) (st_name s)).
    { intros s Hs. unfold recs_of. subst w2. cbn [w_dir]. rewrite find_update_other; auto.
      intros E. unfold handle_names in B. rewrite Ea in B. apply NoDup_remove_2 in B. apply B. rewrite app_nil_r.
      rewrite <- E. apply in_map. exact Hs. }
    assert (Hself : recs_of (w_dir w2) (st_name a) = recs_of (w_dir w1) (st_name a) ++ [r]).
    { unfold recs_of. subst w2. cbn [w_dir]. rewrite find_update_same by auto. rewrite Fa. reflexivity. }
    split.
    - unfold all at 1. subst w2. cbn [w_dir w_closed w_active st_name] in *. rewrite (flat_map_recs_ext _ _ _ Hother).
      rewrite Hself. rewrite <- Eall. unfold all. rewrite Ea. rewrite app_assoc. reflexivity.
    - unfold wfw. subst w2. cbn [w_dir w_closed w_active].
      assert (Hnames : map f_name (update_file (w_dir w1) (st_name a) (fun f => mkFile (f_name f) (f_recs f ++ [r]) (f_torn f))) = map f_name (w_dir w1)).
      { clear. induction (w_dir w1) as [|f d IH]; cbn; auto. destruct (name_eqb (f_name f) (st_name a)); cbn; [reflexivity|]. rewrite IH. reflexivity. }
      rewrite Hnames. unfold handle_names in *. cbn [w_closed w_active st_name]. rewrite Ea in B, C.
      repeat split; auto. intros s [Hs|Hs].
      + cbn [w_dir] in Hother. rewrite Hother by auto. apply D. auto.
      + inversion Hs; subst s. cbn [st_name st_max]. cbn [w_dir] in Hself. rewrite Hself, max_epoch_app. f_equal. apply D. auto. }
  (* rotation creates an empty file that is not yet in the directory *)
  assert (Rot : forall w0, wfw w0 -> all w0 = all w -> forall w1, rotate w0 fresh = inr w1 ->
            wfw w1 /\ all w1 = all w /\ exists a, w_active w1 = Some a).
  { intros w0 Hw0 E0 w1. unfold rotate.
    pose proof (wfw_flush _ Hw0) as (A & B & C & D). pose proof (all_flush w0) as Ef.
    destruct (find_file (w_dir (flush w0)) fresh) as [x|] eqn:Ff; [discriminate|].
    intros H; inversion H; subst w1; clear H. apply find_none_names in Ff.
    assert (Hact : w_active (flush w0) = None). { unfold flush. destruct (w_active w0) eqn:Ea0; cbn; auto. }
    assert (Hrec : forall n, n <> fresh -> recs_of (w_dir (flush w0) ++ [mkFile fresh [] false]) n = recs_of (w_dir (flush w0)) n).
    { intros n Hn. unfold recs_of. rewrite find_app. destruct (find_file (w_dir (flush w0)) n); auto. cbn. rewrite name_eqb_neq; auto. }
    assert (Hcl : forall s, In s (w_closed (flush w0)) -> st_name s <> fresh).
    { intros s Hs E. apply Ff. apply C. unfold handle_names. apply in_or_app. left. rewrite <- E. apply in_map; auto. }
    split; [|split; [|eexists; reflexivity]].
    - unfold wfw. cbn [w_dir w_closed w_active]. rewrite map_app. cbn [map f_name]. unfold handle_names in *. cbn [w_closed w_active st_name].
      rewrite Hact in B, C. rewrite app_nil_r in B, C. repeat split.
      + apply nodup_snoc; auto.
      + apply nodup_snoc; [auto|]. intros Hin. apply Ff. apply C. auto.
      + intros n Hn. apply in_app_or in Hn. apply in_or_app. destruct Hn as [Hn|[<-|[]]]; [left; apply C; auto | right; left; auto].
      + intros s [Hs|Hs].
        * rewrite Hrec by (apply Hcl; auto). apply D. auto.
        * inversion Hs; subst s. cbn. unfold recs_of. rewrite find_app.
          destruct (find_file (w_dir (flush w0)) fresh) eqn:F2. { apply find_in_names in F2. tauto. }
          cbn. rewrite name_eqb_refl. reflexivity.
    - unfold all at 1. cbn [w_dir w_closed w_active st_name].
      rewrite (flat_map_recs_ext (w_dir (flush w0)) _ (w_closed (flush w0))) by (intros s Hs; apply Hrec, Hcl; auto).
      unfold recs_of at 2. rewrite find_app.
      destruct (find_file (w_dir (flush w0)) fresh) eqn:F2. { apply find_in_names in F2. tauto. }
      cbn [f_name f_recs]. rewrite name_eqb_refl. cbn [f_recs]. rewrite <- E0, <- Ef. unfold all. rewrite Hact. reflexivity. }
  unfold maybe_rotate. destruct (w_active w) as [a|] eqn:Ea.
  - destruct (find_file (w_dir w) (st_name a)) as [fa|] eqn:Fa.
    + destruct (rotate_at <? file_size fa).
      * destruct (rotate w fresh) as [e|w1] eqn:R; [discriminate|].
        destruct (Rot w Hw eq_refl w1 R) as [W1 [A1 [a1 Ea1]]]. rewrite Ea1. intros H; inversion H; subst w'.
        apply (Key w1 W1 A1 a1 Ea1).
      * rewrite Ea. intros H; inversion H; subst w'. apply (Key w Hw eq_refl a Ea).
    + rewrite Ea. intros H; inversion H; subst w'. apply (Key w Hw eq_refl a Ea).
  - destruct (rotate w fresh) as [e|w1] eqn:R; [discriminate|].
    destruct (Rot w Hw eq_refl w1 R) as [W1 [A1 [a1 Ea1]]]. rewrite Ea1. intros H; inversion H; subst w'.
    apply (Key w1 W1 A1 a1 Ea1).
Qed.

(* ---------- purge ---------- *)
Lemma max_epoch_ge rs r : In r rs -> r_epoch r <= max_epoch rs.
Proof.
  unfold max_epoch. assert (G : forall l m, m <= fold_left (fun m r => Z.max m (r_epoch r)) l m).
  { induction l as [|x l IH]; intros m; cbn; [lia|]. specialize (IH (Z.max m (r_epoch x))). lia. }
  assert (H : forall l m, In r l -> r_epoch r <= fold_left (fun m r => Z.max m (r_epoch r)) l m).
  { induction l as [|x l IH]; intros m Hin; [destruct Hin|]. cbn. destruct Hin as [->|Hin].
    - specialize (G l (Z.max m (r_epoch r))). lia.
    - apply IH; auto. }
  intros Hin. apply H; auto.
Qed.

Lemma find_remove_same d n : NoDup (map f_name d) -> find_file (remove_file d n) n = None.
Proof.
  induction d as [|f r IH]; cbn; auto. intros Hn. inversion Hn; subst. destruct (name_eqb (f_name f) n) eqn:E.
  - apply name_eqb_eq in E. subst n. apply find_none_names. auto.
  - cbn. rewrite E. auto.
Qed.
Lemma find_remove_other d n n' : n' <> n -> find_file (remove_file d n) n' = find_file d n'.
Proof.
  intros Hn. induction d as [|f r IH]; cbn; auto. destruct (name_eqb (f_name f) n) eqn:E.
  - apply name_eqb_eq in E. rewrite E, (name_eqb_neq n n') by auto. reflexivity.
  - cbn. destruct (name_eqb (f_name f) n'); auto.
Qed.
Lemma names_remove_incl d n x : In x (map f_name (remove_file d n)) -> In x (map f_name d).
Proof. induction d as [|f r IH]; cbn; auto. destruct (name_eqb (f_name f) n); cbn; tauto. Qed.
Lemma nodup_remove_file d n : NoDup (map f_name d) -> NoDup (map f_name (remove_file d n)).
Proof.
  induction d as [|f r IH]; cbn; auto. intros Hn. inversion Hn; subst. destruct (name_eqb (f_name f) n); auto.
  cbn. constructor; auto. intros H. apply names_remove_incl in H. auto.
Qed.

Lemma find_fold_remove (gone : list stat) : forall d n, NoDup (map f_name d) ->
  find_file (fold_left (fun d s => remove_file d (st_name s)) gone d) n =
  if existsb (fun s => name_eqb (st_name s) n) gone then None else find_file d n.
Proof.
  induction gone as [|g gone IH]; intros d n Hn; cbn; auto.
  rewrite IH by (apply nodup_remove_file; auto).
  destruct (name_eqb (st_name g) n) eqn:E; cbn.
  - apply name_eqb_eq in E. subst n. rewrite find_remove_same by auto. destruct (existsb _ gone); reflexivity.
  - rewrite find_remove_other; auto. intros ->. rewrite name_eqb_refl in E. discriminate.
Qed.

Lemma in_handle_closed w s : In s (w_closed w) -> In (st_name s) (handle_names w).
Proof. intros H. unfold handle_names. apply in_or_app. left. apply in_map; auto. Qed.

(* purging below `keep`: a closed file goes iff its max epoch is below keep; nothing else changes *)
Theorem purge_spec w keep : wfw w ->
  (forall s, In s (w_closed w) -> st_max s < keep -> find_file (w_dir (purge w keep)) (st_name s) = None) /\
  (forall n, In n (handle_names w) ->
     (forall s, In s (w_closed w) -> st_name s = n -> keep <= st_max s) ->
     recs_of (w_dir (purge w keep)) n = recs_of (w_dir w) n) /\
  w_active (purge w keep) = w_active w /\
  w_closed (purge w keep) = filter (fun s => negb (st_max s <? keep)) (w_closed w).
Proof.
  intros (A & B & C & D). unfold purge. cbn [w_dir w_active w_closed]. split; [|split; [|split; reflexivity]].
  - intros s Hs Hlt. rewrite find_fold_remove by auto.
    assert (existsb (fun s0 => name_eqb (st_name s0) (st_name s)) (filter (fun s0 => st_max s0 <? keep) (w_closed w)) = true) as ->; auto.
    apply existsb_exists. exists s. split; [|apply name_eqb_refl]. apply filter_In. split; auto. apply Z.ltb_lt; auto.
  - intros n Hn Hkeep. unfold recs_of. rewrite find_fold_remove by auto.
    assert (existsb (fun s0 => name_eqb (st_name s0) n) (filter (fun s0 => st_max s0 <? keep) (w_closed w)) = false) as ->; auto.
    destruct (existsb _ _) eqn:E; auto. apply existsb_exists in E. destruct E as [s [Hs En]].
    apply filter_In in Hs. destruct Hs as [Hs Hl]. apply Z.ltb_lt in Hl. apply name_eqb_eq in En.
    specialize (Hkeep s Hs En). lia.
Qed.

Lemma in_all w r : wfw w -> In r (all w) ->
  exists s, (In s (w_closed w) \/ w_active w = Some s) /\ In r (recs_of (w_dir w) (st_name s)).
Proof.
  intros Hw. unfold all. intros H. apply in_app_or in H. destruct H as [H|H].
  - apply in_flat_map in H. destruct H as [s [Hs Hr]]. exists s. auto.
  - destruct (w_active w) as [a|] eqn:Ea; [|destruct H]. exists a. auto.
Qed.

(* purge is conservative: no record at or above the epoch disappears from All *)
Theorem purge_conservative w keep r : wfw w -> In r (all w) -> keep <= r_epoch r -> In r (all (purge w keep)).
Proof.
  intros Hw Hin Hk. pose proof Hw as (A & B & C & D).
  destruct (purge_spec w keep Hw) as (P1 & P2 & P3 & P4).
  destruct (in_all w r Hw Hin) as [s [Hs Hr]]. unfold all. rewrite P3, P4. apply in_or_app.
  assert (Hmax : keep <= st_max s). { rewrite (D s Hs). pose proof (max_epoch_ge _ _ Hr). lia. }
  destruct Hs as [Hs|Hs].
  - left. apply in_flat_map. exists s. split.
    + apply filter_In. split; auto. apply negb_true_iff. apply Z.ltb_ge. lia.
    + rewrite P2; auto. { apply in_handle_closed; auto. }
      intros s' Hs' En. (* same name => same stat, by NoDup of handle names *)
      assert (s' = s).
      { clear -B Hs Hs' En. unfold handle_names in B. apply nodup_app_l in B.
        induction (w_closed w) as [|x l IH]; [destruct Hs|]. cbn in B. inversion B; subst.
        destruct Hs as [->|Hs], Hs' as [->|Hs']; auto.
        - exfalso. apply H1. rewrite <- En. apply in_map; auto.
        - exfalso. apply H1. rewrite En. apply in_map; auto. }
      subst s'. exact Hmax.
  - right. rewrite Hs. rewrite P2; auto.
    + unfold handle_names. rewrite Hs. apply in_or_app. right. left; auto.
    + intros s' Hs' En. exfalso. unfold handle_names in B. rewrite Hs in B.
      apply NoDup_remove_2 in B. apply B. rewrite app_nil_r. rewrite <- En. apply in_map; auto.
Qed.

(* ---------- open / restart ---------- *)
Lemma insert_file_perm f l : Permutation (insert_file f l) (f :: l).
Proof.
  induction l as [|g r IH]; cbn; auto. destruct (lex_ltb (f_name f) (f_name g)); auto.
  eapply perm_trans; [apply perm_skip, IH|]. apply perm_swap.
Qed.
Lemma sort_files_perm l : Permutation (sort_files l) l.
Proof. induction l as [|x r IH]; cbn; auto. eapply perm_trans; [apply insert_file_perm|]. auto. Qed.

Theorem open_all d : NoDup (map f_name d) ->
  wfw (open_wal d) /\ w_active (open_wal d) = None /\
  all (open_wal d) = flat_map f_recs (sort_files d) /\ Permutation (sort_files d) d.
Proof.
  intros Hn. pose proof (sort_files_perm d) as P.
  assert (Hn' : NoDup (map f_name (sort_files d))). { eapply Permutation_NoDup; [apply Permutation_map, Permutation_sym, P|]. auto. }
  assert (Hfind : forall f, In f d -> find_file d (f_name f) = Some f).
  { clear P Hn'. induction d as [|g r IH]; intros f Hin; [destruct Hin|]. cbn in Hn. inversion Hn; subst. cbn.
    destruct Hin as [->|Hin]. { rewrite name_eqb_refl. reflexivity. }
    rewrite name_eqb_neq. { apply IH; auto. } intros E. apply H1. rewrite E. apply in_map; auto. }
  split; [|split; [reflexivity|split; auto]].
  - unfold wfw, open_wal, handle_names. cbn [w_dir w_closed w_active]. rewrite app_nil_r, map_map. cbn [st_name].
    repeat split; auto.
    + intros n Hin. eapply Permutation_in; [apply Permutation_map, P|]. exact Hin.
    + intros s [Hs|Hs]; [|discriminate]. apply in_map_iff in Hs. destruct Hs as [f [<- Hf]]. cbn [st_name st_max].
      unfold recs_of. rewrite Hfind; auto. eapply Permutation_in; [exact P|auto].
  - unfold all, open_wal. cbn [w_dir w_closed w_active]. rewrite app_nil_r.
    assert (G : forall l, (forall f, In f l -> In f d) ->
       flat_map (fun s => recs_of d (st_name s)) (map (fun f => mkStat (f_name f) (max_epoch (f_recs f))) l) = flat_map f_recs l).
    { induction l as [|f l IH]; intros Hl; cbn; auto. unfold recs_of at 1. rewrite Hfind by (apply Hl; left; auto).
      rewrite IH; auto. intros g Hg. apply Hl. right; auto. }
    apply G. intros f Hf. eapply Permutation_in; [exact P|auto].
Qed.

(* ---------- crash while appending ---------- *)
Definition grows (r : rec) (f f' : file) : Prop :=
  f_name f' = f_name f /\ (f_recs f' = f_recs f \/ f_recs f' = f_recs f ++ [r]).

Lemma update_grows d n r g : (forall f, grows r f (g f)) ->
  Forall2 (grows r) d (update_file d n g).
Proof.
  intros Hg. induction d as [|f l IH]; cbn; [constructor|]. destruct (name_eqb (f_name f) n).
  - constructor; auto. clear. induction l; constructor; auto. split; auto.
  - constructor; auto. split; auto.
Qed.

(* after a crash at ANY byte of an in-flight append, every file still holds all records it held before,
   in the same order, possibly followed by the in-flight record; at most one new (empty or one-record) file appears *)
Theorem crash_files w r fresh cut : wfw w ->
  exists d1, (d1 = w_dir w \/ d1 = w_dir w ++ [mkFile fresh [] false]) /\
     Forall2 (grows r) d1 (crash_append w r fresh cut) /\ NoDup (map f_name (crash_append w r fresh cut)).
Proof.
  intros Hw. pose proof Hw as (A & B & C & D). unfold crash_append.
  set (g := fun f : file => if r_size r <=? cut then mkFile (f_name f) (f_recs f ++ [r]) (f_torn f)
                            else if cut <=? 0 then f else mkFile (f_name f) (f_recs f) true).
  assert (Hg : forall f, grows r f (g f)).
  { intros f. subst g. cbv beta. destruct (r_size r <=? cut); [split; cbn; auto|]. destruct (cut <=? 0); split; cbn; auto. }
  assert (Hsame : forall d, Forall2 (grows r) d d). { induction d; constructor; auto. split; auto. }
  assert (Hgn : forall f, f_name (g f) = f_name f). { intros f. apply (Hg f). }
  assert (Hnames : forall d n, map f_name (update_file d n g) = map f_name d).
  { intros d n. induction d as [|f l IH]; cbn; auto. destruct (name_eqb (f_name f) n); cbn; [rewrite Hgn|rewrite IH]; reflexivity. }
  assert (Rot : forall w1, rotate w fresh = inr w1 -> w_dir w1 = w_dir w ++ [mkFile fresh [] false] /\ NoDup (map f_name (w_dir w1))).
  { unfold rotate. intros w1. assert (Ed : w_dir (flush w) = w_dir w) by (unfold flush; destruct (w_active w); reflexivity).
    rewrite Ed. destruct (find_file (w_dir w) fresh) eqn:F; [discriminate|]. intros H; inversion H; subst. cbn [w_dir].
    split; auto. rewrite map_app. cbn. apply nodup_snoc; auto. apply find_none_names; auto. }
  unfold maybe_rotate.
  assert (Done : forall w1, (w_dir w1 = w_dir w \/ w_dir w1 = w_dir w ++ [mkFile fresh [] false]) -> NoDup (map f_name (w_dir w1)) ->
     exists d1, (d1 = w_dir w \/ d1 = w_dir w ++ [mkFile fresh [] false]) /\
       Forall2 (grows r) d1 (match w_active w1 with None => w_dir w1 | Some a => update_file (w_dir w1) (st_name a) g end) /\
       NoDup (map f_name (match w_active w1 with None => w_dir w1 | Some a => update_file (w_dir w1) (st_name a) g end))).
  { intros w1 Hd Hn. exists (w_dir w1). split; auto. destruct (w_active w1); [|split; auto].
    split; [apply update_grows; auto|]. rewrite Hnames; auto. }
  destruct (w_active w) as [a|] eqn:Ea.
  - destruct (find_file (w_dir w) (st_name a)) as [fa|] eqn:Fa.
    + destruct (rotate_at <? file_size fa).
      * destruct (rotate w fresh) as [e|w1] eqn:R. { exists (w_dir w). auto. }
        destruct (Rot w1 eq_refl) as [R1 R2]. apply (Done w1); auto.
      * apply (Done w); auto.
    + apply (Done w); auto.
  - destruct (rotate w fresh) as [e|w1] eqn:R. { exists (w_dir w). auto. }
    destruct (Rot w1 eq_refl) as [R1 R2]. apply (Done w1); auto.
Qed.

Lemma grows_incl r d d' : Forall2 (grows r) d d' ->
  forall f, In f d -> exists f', In f' d' /\ f_name f' = f_name f /\ (f_recs f' = f_recs f \/ f_recs f' = f_recs f ++ [r]).
Proof.
  induction 1 as [|x y l l' Hxy _ IH]; intros f Hin; [destruct Hin|]. destruct Hin as [->|Hin].
  - exists y. destruct Hxy. split; [left; auto|]. auto.
  - destruct (IH f Hin) as [f' [H1 H2]]. exists f'. split; [right; auto|auto].
Qed.

(* acknowledged records survive a crash at any byte of the next append followed by a restart ... *)
Theorem acked_survive w r fresh cut x : wfw w -> In x (all w) ->
  In x (all (open_wal (crash_append w r fresh cut))).
Proof.
  intros Hw Hx. destruct (crash_files w r fresh cut Hw) as [d1 [Hd1 [G N]]].
  destruct (open_all _ N) as [_ [_ [Ea P]]]. rewrite Ea.
  destruct (in_all w x Hw Hx) as [s [Hs Hr]]. unfold recs_of in Hr.
  destruct (find_file (w_dir w) (st_name s)) as [f|] eqn:F; [|destruct Hr].
  assert (Hf : In f d1).
  { assert (In f (w_dir w)). { clear -F. induction (w_dir w) as [|g l IH]; cbn in F; [discriminate|].
      destruct (name_eqb (f_name g) (st_name s)); [inversion F; left; auto | right; auto]. }
    destruct Hd1 as [->| ->]; auto. apply in_or_app. auto. }
  destruct (grows_incl r d1 _ G f Hf) as [f' [H1 [H2 H3]]].
  apply in_flat_map. exists f'. split. { eapply Permutation_in; [apply Permutation_sym, P|auto]. }
  destruct H3 as [->| ->]; auto. apply in_or_app; auto.
Qed.

(* ... and nothing is returned that was not appended (torn tails never surface) *)
Theorem no_phantom w r fresh cut (log : list rec) :
  wfw w -> (forall f, In f (w_dir w) -> incl (f_recs f) log) ->
  incl (all (open_wal (crash_append w r fresh cut))) (log ++ [r]).
Proof.
  intros Hw Hlog x Hx. destruct (crash_files w r fresh cut Hw) as [d1 [Hd1 [G N]]].
  destruct (open_all _ N) as [_ [_ [Ea P]]]. rewrite Ea in Hx.
  apply in_flat_map in Hx. destruct Hx as [f' [Hf' Hx]].
  assert (Hf'' : In f' (crash_append w r fresh cut)) by (eapply Permutation_in; [exact P|auto]).
  assert (Hex : exists f, In f d1 /\ (f_recs f' = f_recs f \/ f_recs f' = f_recs f ++ [r])).
  { clear -G Hf''. induction G as [|a b l l' Hab _ IH]; [destruct Hf''|]. destruct Hf'' as [<-|Hin].
    - exists a. destruct Hab. split; [left; auto|auto].
    - destruct (IH Hin) as [f [H1 H2]]. exists f. split; [right; auto|auto]. }
  destruct Hex as [f [Hf Hr]].
  assert (Hsub : incl (f_recs f) log).
  { destruct Hd1 as [->| ->]; [apply Hlog; auto|]. apply in_app_or in Hf. destruct Hf as [Hf|[<-|[]]]; [apply Hlog; auto|].
    cbn. intros y []. }
  apply in_or_app. destruct Hr as [Hr|Hr]; rewrite Hr in Hx.
  - left. apply Hsub; auto.
  - apply in_app_or in Hx. destruct Hx as [Hx|[<-|[]]]; [left; apply Hsub; auto | right; left; auto].
Qed.

(* a restart never appends after a torn tail: the reopened log has no active file, so the next append
   starts a fresh file *)
Theorem restart_fresh_file d r fresh w' : NoDup (map f_name d) ->
  append (open_wal d) r fresh = inr w' -> find_file d fresh = None /\ recs_of (w_dir w') fresh = [r].
Proof.
  intros Hn. unfold append, maybe_rotate, open_wal. cbn [w_active]. unfold rotate, flush. cbn [w_active w_dir w_closed].
  destruct (find_file d fresh) eqn:F; [discriminate|]. cbn [w_active st_name st_max w_dir]. intros H; inversion H; subst w'. split; auto.
  unfold recs_of. cbn [w_dir]. rewrite find_update_same by reflexivity. rewrite find_app, F. cbn. rewrite name_eqb_refl. reflexivity.
Qed.
