(* C11 model (no proofs): the write-ahead log over a directory of files, mirroring
   internal/writeaheadlog/wal.go.  Two layers:
   (1) byte layer: a file is a byte string; reading decodes records until the first failure
       (Section over an abstract self-delimiting codec);
   (2) record layer: a file is its list of complete records plus a flag "torn tail". *)
From Coq Require Import ZArith List Bool.
Import ListNotations.
Open Scope Z_scope.

(* ---------- byte layer ---------- *)
Section Bytes.
  Variable entry : Type.
  Variable enc : entry -> list Z.
  (* decoder: Some (e, rest) or None (EOF / malformed / truncated) *)
  Variable dec : list Z -> option (entry * list Z).

  (* readLogFile: decode records until the first error; fuel = length of the input *)
  Fixpoint parse (fuel : nat) (bs : list Z) : list entry :=
    match fuel with
    | O => []
    | S f => match dec bs with
             | Some (e, rest) => e :: parse f rest
             | None => []
             end
    end.
  Definition read_file (bs : list Z) : list entry := parse (S (length bs)) bs.
End Bytes.

(* ---------- record layer ---------- *)
Record rec := mkRec { r_epoch : Z; r_id : Z; r_size : Z }.
Definition name := list Z.                       (* file name bytes; files are read back in lexical order *)
Record file := mkFile { f_name : name; f_recs : list rec; f_torn : bool }.

Fixpoint lex_ltb (a b : name) : bool :=
  match a, b with
  | [], [] => false
  | [], _ => true
  | _, [] => false
  | x :: a', y :: b' => if x <? y then true else if y <? x then false else lex_ltb a' b'
  end.
Fixpoint name_eqb (a b : name) : bool :=
  match a, b with [], [] => true | x :: a', y :: b' => (x =? y) && name_eqb a' b' | _, _ => false end.

Fixpoint insert_file (f : file) (l : list file) : list file :=
  match l with
  | [] => [f]
  | g :: r => if lex_ltb (f_name f) (f_name g) then f :: l else g :: insert_file f r
  end.
Definition sort_files (l : list file) : list file := fold_right insert_file [] l.

Definition max_epoch (rs : list rec) : Z := fold_left (fun m r => Z.max m (r_epoch r)) rs 0.
Definition file_size (f : file) : Z := fold_left (fun s r => s + r_size r) (f_recs f) 0.

Record stat := mkStat { st_name : name; st_max : Z }.
Record wal := mkWal {
  w_dir : list file;                 (* the directory *)
  w_closed : list stat;              (* logFiles *)
  w_active : option stat;            (* active.file / active.logStat *)
}.

Definition rotate_at : Z := 1048576.

Fixpoint find_file (d : list file) (n : name) : option file :=
  match d with [] => None | f :: r => if name_eqb (f_name f) n then Some f else find_file r n end.
Fixpoint update_file (d : list file) (n : name) (g : file -> file) : list file :=
  match d with [] => [] | f :: r => if name_eqb (f_name f) n then g f :: r else f :: update_file r n g end.
Fixpoint remove_file (d : list file) (n : name) : list file :=
  match d with [] => [] | f :: r => if name_eqb (f_name f) n then r else f :: remove_file r n end.

(* Open / hydrate: every *.wal.cbor file, in lexical name order, becomes a closed log file *)
Definition open_wal (d : list file) : wal :=
  mkWal d (map (fun f => mkStat (f_name f) (max_epoch (f_recs f))) (sort_files d)) None.

(* flush: the active file becomes a closed one *)
Definition flush (w : wal) : wal :=
  match w_active w with
  | None => w
  | Some a => mkWal (w_dir w) (w_closed w ++ [a]) None
  end.

Inductive werr := WExists.

(* rotate: flush + create a new (empty) file with the given fresh name (O_EXCL) *)
Definition rotate (w : wal) (fresh : name) : werr + wal :=
  let w := flush w in
  match find_file (w_dir w) fresh with
  | Some _ => inl WExists
  | None => inr (mkWal (w_dir w ++ [mkFile fresh [] false]) (w_closed w) (Some (mkStat fresh 0)))
  end.

Definition maybe_rotate (w : wal) (fresh : name) : werr + wal :=
  match w_active w with
  | None => rotate w fresh
  | Some a => match find_file (w_dir w) (st_name a) with
              | Some f => if rotate_at <? file_size f then rotate w fresh else inr w
              | None => inr w
              end
  end.

(* Append: rotate if needed, write the record at the end of the active file, acknowledge *)
Definition append (w : wal) (r : rec) (fresh : name) : werr + wal :=
  match maybe_rotate w fresh with
  | inl e => inl e
  | inr w1 =>
      match w_active w1 with
      | None => inr w1
      | Some a =>
          inr (mkWal (update_file (w_dir w1) (st_name a) (fun f => mkFile (f_name f) (f_recs f ++ [r]) (f_torn f)))
                     (w_closed w1) (Some (mkStat (st_name a) (Z.max (st_max a) (r_epoch r)))))
      end
  end.

(* Purge: remove every closed file whose max epoch is below keep *)
Definition purge (w : wal) (keep : Z) : wal :=
  let gone := filter (fun s => st_max s <? keep) (w_closed w) in
  mkWal (fold_left (fun d s => remove_file d (st_name s)) gone (w_dir w))
        (filter (fun s => negb (st_max s <? keep)) (w_closed w)) (w_active w).

(* All: closed files in order, then the active one; a torn tail is silently dropped *)
Definition recs_of (d : list file) (n : name) : list rec :=
  match find_file d n with Some f => f_recs f | None => [] end.
Definition all (w : wal) : list rec :=
  flat_map (fun s => recs_of (w_dir w) (st_name s)) (w_closed w) ++
  match w_active w with Some a => recs_of (w_dir w) (st_name a) | None => [] end.

(* crash during an append of `r`: the handle is lost; the file being written keeps the complete record
   (cut = whole record), nothing (cut = 0) or a torn tail (0 < cut < size) *)
Definition crash_append (w : wal) (r : rec) (fresh : name) (cut : Z) : list file :=
  match maybe_rotate w fresh with
  | inl _ => w_dir w
  | inr w1 =>
      match w_active w1 with
      | None => w_dir w1
      | Some a =>
          update_file (w_dir w1) (st_name a) (fun f =>
            if r_size r <=? cut then mkFile (f_name f) (f_recs f ++ [r]) (f_torn f)
            else if cut <=? 0 then f else mkFile (f_name f) (f_recs f) true)
      end
  end.
