(* apply_deltas respects map equivalence; canonical sort does not change the map *)
From Coq Require Import ZArith List Bool Lia Sorting.Permutation.
From F3 Require Import Table DiffProofs.
Import ListNotations.
Open Scope Z_scope.

Definition meq (a b : table) : Prop := forall id, lookup a id = lookup b id.

Lemma meq_refl a : meq a a. Proof. intros id; reflexivity. Qed.
Lemma meq_sym a b : meq a b -> meq b a. Proof. intros H id; symmetry; apply H. Qed.
Lemma meq_trans a b c : meq a b -> meq b c -> meq a c. Proof. intros H1 H2 id. rewrite H1. apply H2. Qed.

Lemma lookup_remove t id id' : lookup (remove t id) id' = if id' =? id then None else lookup t id'.
Proof.
  destruct (id' =? id) eqn:E.
  - apply Z.eqb_eq in E. subst. apply lookup_remove_eq.
  - apply Z.eqb_neq in E. apply lookup_remove_neq; auto.
Qed.
Lemma lookup_set t e id' : lookup (set t e) id' = if id' =? e_id e then Some e else lookup t id'.
Proof.
  destruct (id' =? e_id e) eqn:E.
  - apply Z.eqb_eq in E. subst. apply lookup_set_eq.
  - apply Z.eqb_neq in E. apply lookup_set_neq; auto.
Qed.

Lemma apply_delta_meq m1 m2 d : meq m1 m2 ->
  match apply_delta m1 d, apply_delta m2 d with
  | inl e1, inl e2 => e1 = e2
  | inr r1, inr r2 => meq r1 r2
  | _, _ => False
  end.
Proof.
  intros H. unfold apply_delta. destruct (is_zero d); auto. rewrite (H (d_id d)).
  destruct (lookup m2 (d_id d)) as [pe|].
  - destruct (d_key d =? e_key pe); auto.
    destruct (negb (d_key d =? 0) && ((if d_dp d =? 0 then e_power pe else d_dp d + e_power pe) =? 0)); auto.
    destruct ((if d_dp d =? 0 then e_power pe else d_dp d + e_power pe) =? 0).
    + intros id. rewrite !lookup_remove. destruct (id =? d_id d); auto.
    + destruct (0 <? (if d_dp d =? 0 then e_power pe else d_dp d + e_power pe)); auto.
      intros id. rewrite !lookup_set. cbn [e_id]. destruct (id =? d_id d); auto.
  - destruct (d_dp d <=? 0); auto. destruct (d_key d =? 0); auto.
    intros id. rewrite !lookup_set. cbn [e_id]. destruct (id =? d_id d); auto.
Qed.

Lemma apply_deltas_meq ds : forall m1 m2 last, meq m1 m2 ->
  match apply_deltas m1 last ds, apply_deltas m2 last ds with
  | inl e1, inl e2 => e1 = e2
  | inr r1, inr r2 => meq r1 r2
  | _, _ => False
  end.
Proof.
  induction ds as [|d rest IH]; intros m1 m2 last H; cbn [apply_deltas]; auto.
  destruct (match last with Some l => d_id d <=? l | None => false end); auto.
  pose proof (apply_delta_meq m1 m2 d H) as A.
  destruct (apply_delta m1 d) as [e1|r1], (apply_delta m2 d) as [e2|r2]; auto; try contradiction.
  apply IH; auto.
Qed.

Lemma canon_meq m : NoDup (ids m) -> meq (canon m) m.
Proof.
  intros Hn id. pose proof (canon_perm m) as P.
  assert (Hn' : NoDup (ids (canon m))).
  { eapply Permutation_NoDup; [apply Permutation_map, Permutation_sym, P|]. auto. }
  destruct (lookup m id) as [e|] eqn:L.
  - assert (In e (canon m)). { eapply Permutation_in; [apply Permutation_sym, P|]. eapply lookup_in; eauto. }
    rewrite <- (lookup_id _ _ _ L). apply in_lookup; auto.
  - destruct (lookup (canon m) id) as [e|] eqn:L2; auto.
    assert (In e m). { eapply Permutation_in; [exact P|]. eapply lookup_in; eauto. }
    apply in_lookup in H; auto. rewrite (lookup_id _ _ _ L2) in H. congruence.
Qed.

Lemma apply_delta_nodup m d m' : NoDup (ids m) -> apply_delta m d = inr m' -> NoDup (ids m').
Proof.
  intros Hn. unfold apply_delta. destruct (is_zero d); [discriminate|].
  destruct (lookup m (d_id d)) as [pe|].
  - destruct (d_key d =? e_key pe); [discriminate|].
    destruct (negb (d_key d =? 0) && _); [discriminate|].
    destruct (_ =? 0).
    + intros H; inversion H. apply nodup_remove; auto.
    + destruct (0 <? _); [|discriminate]. intros H; inversion H. apply nodup_set; auto.
  - destruct (d_dp d <=? 0); [discriminate|]. destruct (d_key d =? 0); [discriminate|].
    intros H; inversion H. apply nodup_set; auto.
Qed.

Lemma apply_deltas_nodup ds : forall m last m', NoDup (ids m) -> apply_deltas m last ds = inr m' -> NoDup (ids m').
Proof.
  induction ds as [|d rest IH]; intros m last m' Hn H; cbn [apply_deltas] in H.
  - inversion H; subst; auto.
  - destruct (match last with Some l => d_id d <=? l | None => false end); [discriminate|].
    destruct (apply_delta m d) as [e|m1] eqn:A; [discriminate|].
    eapply IH; [|exact H]. eapply apply_delta_nodup; eauto.
Qed.

Lemma canon_nodup m : NoDup (ids m) -> NoDup (ids (canon m)).
Proof. intros H. eapply Permutation_NoDup; [apply Permutation_map, Permutation_sym, canon_perm|]. auto. Qed.

Lemma canon_length m : length (canon m) = length m.
Proof. apply Permutation_length, canon_perm. Qed.
