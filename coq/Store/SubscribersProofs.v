(* C09, subscribers: for EVERY sequence of subscriptions, accepted puts, reads by any subscriber at any time, closes and
   re-opens: no send of the notification loop ever blocks (writers are never blocked), and every live subscriber either
   has the LATEST certificate waiting in its slot or has already taken it -- so a reader that empties its slot has seen
   the latest certificate, however far it lagged behind and however many certificates it skipped. *)
From Coq Require Import ZArith List Bool Lia.
From F3 Require Import Subscribers.
Import ListNotations.
Open Scope Z_scope.

Lemma notify_never_blocks b c : notify b c = (Some c, false).
Proof. destruct b; reflexivity. Qed.

(* the slot holds the latest certificate, or it is empty and the reader has taken the latest one *)
Definition sub_ok (latest : option Z) (s : option sub) : Prop :=
  match s with
  | None => True
  | Some x => match sb_slot x with Some c => latest = Some c | None => sb_seen x = latest end
  end.
Definition SInv (st : sstate) : Prop := ss_blocked st = false /\ Forall (sub_ok (ss_latest st)) (ss_subs st).

Lemma notify_all_spec subs c :
  snd (notify_all subs c) = false /\ Forall (sub_ok (Some c)) (fst (notify_all subs c)) /\
  length (fst (notify_all subs c)) = length subs.
Proof.
  induction subs as [|s subs IH]; cbn [notify_all fold_right]; [repeat split; constructor|].
  destruct IH as (A & B & C). fold (notify_all subs c). destruct s as [x|]; cbn [fst snd].
  - rewrite notify_never_blocks. cbn [fst snd]. rewrite A. repeat split; [constructor; [reflexivity|exact B]|cbn; rewrite C; reflexivity].
  - repeat split; [exact A|constructor; [exact I|exact B]|cbn; rewrite C; reflexivity].
Qed.

Lemma Forall_upd_nth {A} (P : A -> Prop) l k x : Forall P l -> P x -> Forall P (upd_nth l k x).
Proof.
  revert k. induction l as [|h t IH]; intros k Hl Hx; cbn; [constructor|].
  inversion Hl; subst. destruct k; constructor; auto.
Qed.
Lemma Forall_nth_default {A} (P : A -> Prop) l k d : Forall P l -> P d -> P (nth k l d).
Proof. revert k. induction l as [|h t IH]; intros k Hl Hd; destruct k; cbn; auto; inversion Hl; subst; auto. Qed.

Theorem sstep_inv st e : SInv st -> SInv (fst (sstep st e)).
Proof.
  intros (Hb & Hs). destruct e as [|c|k got|k|]; cbn [sstep].
  - split; [exact Hb|]. cbn [fst ss_subs ss_latest]. apply Forall_app. split; [exact Hs|].
    constructor; [|constructor]. cbn. destruct (ss_latest st); reflexivity.
  - destruct (notify_all (ss_subs st) c) as [subs blk] eqn:E. pose proof (notify_all_spec (ss_subs st) c) as (A & B & _).
    rewrite E in A, B. cbn [fst snd] in *. split; [cbn; rewrite Hb, A; reflexivity|exact B].
  - pose proof (Forall_nth_default _ (ss_subs st) k None Hs I) as Hk.
    destruct (nth k (ss_subs st) None) as [x|] eqn:Ek; [|split; assumption].
    cbn in Hk. destruct (sb_slot x) as [c|] eqn:Ec; [|split; assumption].
    split; [exact Hb|]. cbn [fst ss_subs ss_latest]. apply Forall_upd_nth; [exact Hs|]. cbn. symmetry. exact Hk.
  - split; [exact Hb|]. cbn [fst ss_subs ss_latest]. apply Forall_upd_nth; [exact Hs|exact I].
  - split; [exact Hb|]. cbn [fst ss_subs ss_latest]. clear Hs. induction (ss_subs st); cbn; constructor; [exact I|assumption].
Qed.

Lemma srun_fst st evs : fst (srun st evs) = fold_left (fun s e => fst (sstep s e)) evs st.
Proof.
  revert st. induction evs as [|e evs IH]; intros st; cbn [srun fold_left]; [reflexivity|].
  destruct (sstep st e) as [st' ok] eqn:E. specialize (IH st'). destruct (srun st' evs) as [st'' ok']. cbn [fst] in *. exact IH.
Qed.
Theorem srun_inv evs : forall st, SInv st -> SInv (fst (srun st evs)).
Proof.
  intros st H. rewrite srun_fst. revert st H. induction evs as [|e evs IH]; intros st H; cbn [fold_left]; [exact H|].
  apply IH. apply sstep_inv. exact H.
Qed.
Lemma SInv0 latest : SInv (ss0 latest).
Proof. split; [reflexivity|constructor]. Qed.

(* ---------- the statements ---------- *)
(* writers are never blocked: after any history no send of the notification loop would have blocked *)
Theorem writers_never_blocked latest evs : ss_blocked (fst (srun (ss0 latest) evs)) = false.
Proof. exact (proj1 (srun_inv evs _ (SInv0 latest))). Qed.

(* every live subscriber has the latest certificate pending or has taken it: after any history, a read that finds the
   slot empty means the reader's last take was the latest certificate; a read that finds something finds the latest *)
Theorem subscriber_observes_latest latest evs k x :
  let st := fst (srun (ss0 latest) evs) in
  nth k (ss_subs st) None = Some x ->
  match sb_slot x with Some c => ss_latest st = Some c | None => sb_seen x = ss_latest st end.
Proof.
  intros st Hk. pose proof (proj2 (srun_inv evs _ (SInv0 latest))) as Hs. fold st in Hs.
  pose proof (Forall_nth_default _ (ss_subs st) k None Hs I) as H. rewrite Hk in H. exact H.
Qed.

(* the next read of a live subscriber returns the latest certificate, or nothing if it has already taken it *)
Theorem next_read_is_latest latest evs k x got :
  let st := fst (srun (ss0 latest) evs) in
  nth k (ss_subs st) None = Some x -> snd (sstep st (SRead k got)) = true ->
  (got = -1 /\ sb_seen x = ss_latest st) \/ ss_latest st = Some got.
Proof.
  intros st Hk Hr. pose proof (subscriber_observes_latest latest evs k x Hk) as H. fold st in H.
  cbn [sstep] in Hr. rewrite Hk in Hr. destruct (sb_slot x) as [c|]; cbn [snd] in Hr; apply Z.eqb_eq in Hr.
  - right. rewrite H. f_equal. symmetry. exact Hr.
  - left. split; assumption.
Qed.

(* non-vacuity: a lagging subscriber (two puts between its reads) and one that subscribes on a non-empty store *)
Example lagging_subscriber :
  sub_trace_ok None [SSub; SPut 0; SPut 1; SSub; SPut 2; SRead 0 2; SRead 0 (-1); SRead 1 2; SPut 3; SClose 1; SPut 4; SRead 0 4] = true.
Proof. reflexivity. Qed.
