From Coq Require Import ZArith List Bool Lia.
From F3 Require Import GoInt ListX Table DiffProofs Validate MapEquiv CertStore.
Import ListNotations.
Open Scope Z_scope.

(* the table in force after a certificate: unchanged for an empty delta (Store.Put, importer) *)
Definition step_table (t : table) (c : cert) : derr + table :=
  match c_delta c with [] => inr t | d => apply_diff t d end.

Definition nxt (s : store) : Z := next_of (s_first s) (s_latest s).

(* store invariant, relative to the ghost sequence of power tables tabs(first), tabs(first+1), ... *)
Record inv (toks : list (table * Z)) (s : store) (tabs : Z -> table) : Prop := {
  i_freq : 0 < s_freq s;
  i_first : 0 <= s_first s;
  i_notomb : d_tomb (s_ds s) = false /\ d_rawtomb (s_ds s) = false;
  i_firstkey : d_first (s_ds s) = Some (s_first s);
  i_latest : match s_latest s with
             | Some c => d_latest (s_ds s) = Some (c_inst c) /\ d_cert (s_ds s) (c_inst c) = Some c /\ s_first s <= c_inst c
             | None => d_latest (s_ds s) = None
             end;
  i_certs : forall i, s_first s <= i < nxt s -> exists c, d_cert (s_ds s) i = Some c /\ c_inst c = i /\
              step_table (tabs i) c = inr (tabs (i + 1)) /\ cid_token toks (tabs (i + 1)) = c_pt c;
  i_init : d_power (s_ds s) (s_first s) = Some (tabs (s_first s));
  i_ckpt : forall k, s_first s < k <= nxt s -> Z.rem k (s_freq s) = 0 -> d_power (s_ds s) k = Some (tabs k);
  i_pt : s_pt s = tabs (nxt s);
  i_tabs : forall i, s_first s <= i <= nxt s -> NoDup (ids (tabs i)) /\ tabs i <> [] /\ canon (tabs i) = tabs i;
}.

Lemma nxt_ge toks s tabs : inv toks s tabs -> s_first s <= nxt s.
Proof.
  intros I. unfold nxt, next_of. destruct (s_latest s) as [c|] eqn:E; [|lia].
  pose proof (i_latest _ _ _ I) as L. rewrite E in L. lia.
Qed.

(* ---------- reading a range of consecutive certificates and folding their deltas ---------- *)
Lemma apply_range toks s tabs (I : inv toks s tabs) : forall n start m,
  s_first s <= start -> start + Z.of_nat n <= nxt s ->
  meq m (tabs start) -> NoDup (ids m) ->
  exists cs m', range_certs (s_ds s) start n = cs /\ length cs = n /\
     map c_inst cs = zseq start n /\
     apply_many m (map c_delta cs) = inr m' /\ meq m' (tabs (start + Z.of_nat n)) /\ NoDup (ids m').
Proof.
  induction n as [|n IH]; intros start m Hs He Hm Hn.
    + exists [], m. cbn. replace (start + 0) with start by lia. repeat split; auto.
    + destruct (i_certs _ _ _ I start ltac:(lia)) as [c [C1 [C2 [C3 C4]]]].
      cbn [range_certs]. rewrite C1.
      (* one step on the map *)
      assert (Hstep : exists m1, apply_deltas m None (c_delta c) = inr m1 /\ meq m1 (tabs (start + 1)) /\ NoDup (ids m1)).
      { unfold step_table in C3. destruct (c_delta c) as [|d0 dr] eqn:Ed.
        - inversion C3 as [C3']. exists m. cbn [apply_deltas]. repeat split; auto.
        - unfold apply_diff in C3. destruct (apply_deltas (tabs start) None (d0 :: dr)) as [e|mt] eqn:A; [discriminate|].
          inversion C3 as [C3'].
          pose proof (apply_deltas_meq (d0 :: dr) m (tabs start) None Hm) as Q. rewrite A in Q.
          destruct (apply_deltas m None (d0 :: dr)) as [e|m1] eqn:B; [contradiction|].
          exists m1. split; auto. split.
          + eapply meq_trans; [exact Q|]. apply meq_sym, canon_meq.
            eapply apply_deltas_nodup; [|exact A]. apply (i_tabs _ _ _ I start). pose proof (nxt_ge _ _ _ I). lia.
          + eapply apply_deltas_nodup; eauto. }
      destruct Hstep as [m1 [S1 [S2 S3]]].
      destruct (IH (start + 1) m1 ltac:(lia) ltac:(lia) S2 S3) as [cs [m' [R1 [R2 [R3 [R4 [R5 R6]]]]]]].
      exists (c :: cs), m'. rewrite R1. cbn [length map apply_many zseq]. rewrite S1, R2, R3, C2.
      split; auto. split; auto. split; auto. split; auto. split; auto.
      replace (start + Z.of_nat (S n)) with (start + 1 + Z.of_nat n) by lia. exact R5.
Qed.

Lemma range_all toks s tabs (I : inv toks s tabs) start end_ :
  s_first s <= start -> start <= end_ -> end_ < nxt s ->
  exists cs m', get_range (s_ds s) start end_ = (cs, None) /\ map c_inst cs = zseq start (Z.to_nat (end_ - start + 1)) /\
    apply_many (tabs start) (map c_delta cs) = inr m' /\ meq m' (tabs (end_ + 1)) /\ NoDup (ids m').
Proof.
  intros H1 H2 H3. unfold get_range.
  assert (end_ <? start = false) as -> by (apply Z.ltb_ge; lia).
  set (n := Z.to_nat (end_ - start + 1)).
  destruct (apply_range toks s tabs I n start (tabs start) H1 ltac:(subst n; lia) (meq_refl _)
              (proj1 (i_tabs _ _ _ I start ltac:(lia)))) as [cs [m' [R1 [R2 [R3 [R4 [R5 R6]]]]]]].
  exists cs, m'. cbv zeta. rewrite R1, R2. rewrite Nat.ltb_irrefl. split; auto. split; auto. split; auto. split; auto.
  replace (end_ + 1) with (start + Z.of_nat n) by (subst n; lia). exact R5.
Qed.

(* for every instance up to the next one, the store returns the table obtained by applying all
   earlier deltas to the initial table — across any number of check-point boundaries, any freq > 0.
   `pt` is the in-memory latest table: either the real one or empty (while the store is being opened). *)
Lemma gpt_derivable toks s tabs : inv toks s tabs -> forall pt, pt = [] \/ pt = tabs (nxt s) ->
  forall i, s_first s <= i <= nxt s ->
  get_power_table (s_ds s) (s_first s) (s_freq s) (s_latest s) pt i = inr (tabs i).
Proof.
  intros I pt Hpt i Hi. unfold get_power_table. fold (nxt s).
  assert (i <? s_first s = false) as -> by (apply Z.ltb_ge; lia).
  assert (nxt s <? i = false) as -> by (apply Z.ltb_ge; lia).
  destruct ((i =? nxt s) && negb (Nat.eqb (length pt) 0)) eqn:Sh.
  { apply andb_true_iff in Sh. destruct Sh as [E L]. apply Z.eqb_eq in E. subst i.
    destruct Hpt as [->| ->]; [discriminate|reflexivity]. }
  clear Sh. pose proof (i_freq _ _ _ I) as Hf. pose proof (i_first _ _ _ I) as H0.
  set (start := Z.max (i - Z.rem i (s_freq s)) (s_first s)).
  assert (Hrem : 0 <= Z.rem i (s_freq s) < s_freq s) by (apply Z.rem_bound_pos; lia).
  assert (Hst : s_first s <= start <= i) by (subst start; lia).
  assert (Hp : d_power (s_ds s) start = Some (tabs start)).
  { destruct (Z_le_gt_dec (i - Z.rem i (s_freq s)) (s_first s)).
    - assert (start = s_first s) as -> by (subst start; lia). apply (i_init _ _ _ I).
    - assert (start = i - Z.rem i (s_freq s)) as -> by (subst start; lia).
      apply (i_ckpt _ _ _ I); [lia|].
      rewrite (Z.rem_mod_nonneg i), (Z.rem_mod_nonneg (i - i mod s_freq s)) by (try lia; rewrite <- Z.rem_mod_nonneg; lia).
      rewrite Zminus_mod_idemp_r, Z.sub_diag. reflexivity. }
  rewrite Hp. destruct (start =? i) eqn:E. { apply Z.eqb_eq in E. rewrite E. reflexivity. }
  apply Z.eqb_neq in E.
  destruct (range_all toks s tabs I start (i - 1) ltac:(lia) ltac:(lia) ltac:(lia)) as [cs [m' [G1 [G2 [G3 [G4 G5]]]]]].
  rewrite G1. unfold apply_diffs. rewrite G3. f_equal.
  replace (i - 1 + 1) with i in G4 by lia.
  rewrite <- (proj2 (proj2 (i_tabs _ _ _ I i Hi))). apply canon_ext; auto. apply (i_tabs _ _ _ I i Hi).
Qed.

Theorem power_table_derivable toks s tabs : inv toks s tabs ->
  forall i, s_first s <= i <= nxt s -> store_power s i = inr (tabs i).
Proof. intros I i Hi. unfold store_power. apply (gpt_derivable toks s tabs I); auto. right. apply (i_pt _ _ _ I). Qed.

(* ---------- Put ---------- *)
Definition tabs_upd (tabs : Z -> table) (k : Z) (t : table) : Z -> table := fun i => if i =? k then t else tabs i.

Lemma put_plan_ok toks s c ws npt : put_plan toks s c = PutOk ws npt ->
  c_inst c = nxt s /\ c_chain c <> [] /\ chain_valid (c_chain c) = true /\
  step_table (s_pt s) c = inr npt /\ cid_token toks npt = c_pt c /\ npt <> [] /\
  ws = [WCert (c_inst c) c] ++ (if Z.rem (c_inst c + 1) (s_freq s) =? 0 then [WPower (c_inst c + 1) npt] else []) ++ [WLatest (c_inst c)].
Proof.
  unfold put_plan. fold (nxt s). destruct (c_inst c <? s_first s); [discriminate|].
  destruct (c_chain c) as [|b r] eqn:Ec; [discriminate|].
  destruct (chain_valid (b :: r)) eqn:Ev; cbn [negb]; [|discriminate].
  destruct (nxt s <? c_inst c) eqn:E1; [discriminate|]. destruct (c_inst c <? nxt s) eqn:E2; [discriminate|].
  apply Z.ltb_ge in E1, E2.
  unfold step_table.
  assert (Fin : forall t, (if negb (cid_token toks t =? c_pt c) then PutErr ECid
              else if Nat.eqb (length t) 0 then PutErr EEmptyTable
              else PutOk ([WCert (c_inst c) c] ++ (if Z.rem (c_inst c + 1) (s_freq s) =? 0 then [WPower (c_inst c + 1) t] else []) ++ [WLatest (c_inst c)]) t) = PutOk ws npt ->
            t = npt /\ cid_token toks npt = c_pt c /\ npt <> [] /\
            ws = [WCert (c_inst c) c] ++ (if Z.rem (c_inst c + 1) (s_freq s) =? 0 then [WPower (c_inst c + 1) npt] else []) ++ [WLatest (c_inst c)]).
  { intros t. destruct (cid_token toks t =? c_pt c) eqn:Ci; cbn [negb]; [|discriminate]. apply Z.eqb_eq in Ci.
    destruct (Nat.eqb (length t) 0) eqn:Le; [discriminate|].
    assert (Hne : t <> []). { intros ->. discriminate. }
    intros H; inversion H; subst. auto. }
  destruct (c_delta c) as [|d0 dr] eqn:Ed.
  - intros H. apply Fin in H. destruct H as (A & B & C & D). subst npt.
    split; [lia|]. split; [discriminate|]. repeat split; auto.
  - destruct (apply_diff (s_pt s) (d0 :: dr)) as [e|t] eqn:St; [discriminate|].
    intros H. apply Fin in H. destruct H as (A & B & C & D). subst t.
    split; [lia|]. split; [discriminate|]. repeat split; auto.
Qed.

Lemma step_table_wf t c t' : NoDup (ids t) -> canon t = t -> step_table t c = inr t' ->
  NoDup (ids t') /\ canon t' = t'.
Proof.
  intros Hn Hc. unfold step_table. destruct (c_delta c) as [|d0 dr]. { intros H; inversion H; subst; auto. }
  unfold apply_diff. destruct (apply_deltas t None (d0 :: dr)) as [e|m] eqn:A; [discriminate|].
  intros H; inversion H; subst. pose proof (apply_deltas_nodup _ _ _ _ Hn A) as Nm.
  split; [apply canon_nodup; auto|]. apply canon_ext; auto.
  - apply canon_nodup; auto.
  - apply canon_meq; auto.
Qed.

Theorem put_preserves_inv toks s tabs c ws npt :
  inv toks s tabs -> put_plan toks s c = PutOk ws npt ->
  inv toks (fst (put toks s c)) (tabs_upd tabs (nxt s + 1) npt) /\ nxt (fst (put toks s c)) = nxt s + 1.
Proof.
  intros I P. pose proof (put_plan_ok _ _ _ _ _ P) as (Hi & _ & _ & Hst & Hcid & Hne & Hws).
  pose proof (nxt_ge _ _ _ I) as Hge.
  unfold put. rewrite P. cbn [fst].
  assert (Hn : nxt (mkS (apply_writes (s_ds s) ws) (s_first s) (s_freq s) (Some c) npt) = nxt s + 1).
  { unfold nxt at 1. unfold next_of at 1. cbn [s_latest s_first]. rewrite Hi. reflexivity. }
  split; [|exact Hn].
  rewrite (i_pt _ _ _ I) in Hst.
  destruct (step_table_wf _ _ _ (proj1 (i_tabs _ _ _ I (nxt s) ltac:(lia))) (proj2 (proj2 (i_tabs _ _ _ I (nxt s) ltac:(lia)))) Hst) as [Nn Cn].
  assert (Dc : forall j, d_cert (apply_writes (s_ds s) ws) j = if j =? nxt s then Some c else d_cert (s_ds s) j).
  { intros j. subst ws. rewrite Hi. destruct (Z.rem (nxt s + 1) (s_freq s) =? 0); cbn; unfold upd; reflexivity. }
  assert (Dp : forall j, d_power (apply_writes (s_ds s) ws) j =
           if (j =? nxt s + 1) && (Z.rem (nxt s + 1) (s_freq s) =? 0) then Some npt else d_power (s_ds s) j).
  { intros j. subst ws. rewrite Hi. destruct (Z.rem (nxt s + 1) (s_freq s) =? 0); cbn; unfold upd.
    - rewrite andb_true_r. reflexivity.
    - rewrite andb_false_r. reflexivity. }
  assert (Dl : d_latest (apply_writes (s_ds s) ws) = Some (nxt s)).
  { subst ws. rewrite Hi. destruct (Z.rem (nxt s + 1) (s_freq s) =? 0); reflexivity. }
  assert (Do : d_first (apply_writes (s_ds s) ws) = d_first (s_ds s) /\ d_tomb (apply_writes (s_ds s) ws) = d_tomb (s_ds s)
               /\ d_rawtomb (apply_writes (s_ds s) ws) = d_rawtomb (s_ds s)).
  { subst ws. destruct (Z.rem (c_inst c + 1) (s_freq s) =? 0); cbn; auto. }
  destruct Do as [Do1 [Do2 Do3]].
  constructor; cbn [s_ds s_first s_freq s_latest s_pt]; try rewrite Hn.
  - apply (i_freq _ _ _ I).
  - apply (i_first _ _ _ I).
  - rewrite Do2, Do3. apply (i_notomb _ _ _ I).
  - rewrite Do1. apply (i_firstkey _ _ _ I).
  - rewrite Dl, Dc, Hi, Z.eqb_refl. repeat split; auto.
  - intros j Hj. rewrite Dc. unfold tabs_upd. destruct (j =? nxt s) eqn:E.
    + apply Z.eqb_eq in E. subst j. exists c.
      assert (nxt s =? nxt s + 1 = false) as -> by (apply Z.eqb_neq; lia). rewrite Z.eqb_refl.
      repeat split; auto.
    + apply Z.eqb_neq in E. destruct (i_certs _ _ _ I j ltac:(lia)) as [c' [A1 [A2 [A3 A4]]]].
      exists c'. assert (j =? nxt s + 1 = false) as -> by (apply Z.eqb_neq; lia).
      assert (j + 1 =? nxt s + 1 = false) as -> by (apply Z.eqb_neq; lia). auto.
  - rewrite Dp. unfold tabs_upd. assert (s_first s =? nxt s + 1 = false) as -> by (apply Z.eqb_neq; lia).
    cbn [andb]. apply (i_init _ _ _ I).
  - intros k Hk Hr. rewrite Dp. unfold tabs_upd. destruct (k =? nxt s + 1) eqn:E.
    + apply Z.eqb_eq in E. subst k. rewrite Hr, Z.eqb_refl. reflexivity.
    + cbn [andb]. apply Z.eqb_neq in E. apply (i_ckpt _ _ _ I); auto. lia.
  - unfold tabs_upd. rewrite Z.eqb_refl. reflexivity.
  - intros j Hj. unfold tabs_upd. destruct (j =? nxt s + 1) eqn:E.
    + repeat split; auto.
    + apply Z.eqb_neq in E. apply (i_tabs _ _ _ I). lia.
Qed.

(* only the immediate successor is admitted; everything else leaves the store untouched *)
Theorem put_rejects_gap toks s c : nxt s < c_inst c -> s_first s <= c_inst c -> c_chain c <> [] -> chain_valid (c_chain c) = true ->
  put toks s c = (s, Some EGap).
Proof.
  intros H1 H2 H3 H4. unfold put, put_plan. fold (nxt s).
  assert (c_inst c <? s_first s = false) as -> by (apply Z.ltb_ge; lia).
  destruct (c_chain c); [contradiction|]. rewrite H4. cbn [negb].
  assert (nxt s <? c_inst c = true) as -> by (apply Z.ltb_lt; lia). reflexivity.
Qed.

Theorem put_stale_noop toks s c : s_first s <= c_inst c < nxt s -> c_chain c <> [] -> chain_valid (c_chain c) = true ->
  put toks s c = (s, None).
Proof.
  intros H1 H3 H4. unfold put, put_plan. fold (nxt s).
  assert (c_inst c <? s_first s = false) as -> by (apply Z.ltb_ge; lia).
  destruct (c_chain c); [contradiction|]. rewrite H4. cbn [negb].
  assert (nxt s <? c_inst c = false) as -> by (apply Z.ltb_ge; lia).
  assert (c_inst c <? nxt s = true) as -> by (apply Z.ltb_lt; lia). reflexivity.
Qed.

Theorem put_error_unchanged toks s c e : snd (put toks s c) = Some e -> fst (put toks s c) = s.
Proof. unfold put. destruct (put_plan toks s c); cbn; auto. discriminate. Qed.

Theorem put_accepted_is_successor toks s c : fst (put toks s c) <> s ->
  c_inst c = nxt s /\ exists npt, step_table (s_pt s) c = inr npt /\ cid_token toks npt = c_pt c /\ npt <> [].
Proof.
  unfold put. destruct (put_plan toks s c) as [e| |ws npt] eqn:P; cbn; try congruence.
  intros _. apply put_plan_ok in P. destruct P as (A & _ & _ & B & C & D & _). split; auto. exists npt. auto.
Qed.

Theorem latest_monotone toks s c : nxt s <= nxt (fst (put toks s c)).
Proof.
  unfold put. destruct (put_plan toks s c) as [e| |ws npt] eqn:P; cbn [fst]; try lia.
  apply put_plan_ok in P. destruct P as (A & _). unfold nxt at 2, next_of. cbn. lia.
Qed.

(* ---------- contiguity / reads ---------- *)
Theorem get_stored toks s tabs : inv toks s tabs -> forall i, s_first s <= i < nxt s ->
  exists c, get s i = inr c /\ c_inst c = i.
Proof.
  intros I i Hi. destruct (i_certs _ _ _ I i Hi) as [c [A [B _]]]. exists c. unfold get. rewrite A. auto.
Qed.

Theorem range_exact toks s tabs : inv toks s tabs -> forall a b, s_first s <= a -> a <= b -> b < nxt s ->
  exists cs, store_range s a b = (cs, None) /\ map c_inst cs = zseq a (Z.to_nat (b - a + 1)).
Proof.
  intros I a b H1 H2 H3. destruct (range_all toks s tabs I a b H1 H2 H3) as [cs [m' [G1 [G2 _]]]].
  exists cs. auto.
Qed.

(* ---------- reopening ---------- *)
Lemma continue_delete_id d : d_tomb d = false -> d_rawtomb d = false -> continue_delete d = d.
Proof. intros H1 H2. unfold continue_delete. rewrite H1, H2. reflexivity. Qed.

Theorem reopen_identity toks s tabs : inv toks s tabs -> open_store (s_freq s) (s_ds s) = inr s.
Proof.
  intros I. unfold open_store, open_raw. destruct (i_notomb _ _ _ I) as [T1 T2].
  rewrite (continue_delete_id _ T1 T2). pose proof (i_latest _ _ _ I) as L.
  assert (G := gpt_derivable toks s tabs I [] (or_introl eq_refl) (nxt s) ltac:(pose proof (nxt_ge _ _ _ I); lia)).
  rewrite <- (i_pt _ _ _ I) in G. unfold nxt in G.
  destruct (s_latest s) as [c|] eqn:El.
  - destruct L as [L1 [L2 L3]]. rewrite L1, L2, (i_firstkey _ _ _ I). rewrite G. f_equal.
    destruct s; cbn in *; subst; reflexivity.
  - rewrite L, (i_firstkey _ _ _ I). rewrite G. f_equal. destruct s; cbn in *; subst; reflexivity.
Qed.

(* ---------- invariant only looks at the part of the datastore below the next instance ---------- *)
Lemma inv_ext toks s tabs d' : inv toks s tabs ->
  (forall j, s_first s <= j < nxt s -> d_cert d' j = d_cert (s_ds s) j) ->
  (forall j, s_first s <= j <= nxt s -> d_power d' j = d_power (s_ds s) j) ->
  d_latest d' = d_latest (s_ds s) -> d_first d' = d_first (s_ds s) ->
  d_tomb d' = d_tomb (s_ds s) -> d_rawtomb d' = d_rawtomb (s_ds s) ->
  inv toks (mkS d' (s_first s) (s_freq s) (s_latest s) (s_pt s)) tabs.
Proof.
  intros I Hc Hp Hl Hf Ht Hr. pose proof (nxt_ge _ _ _ I) as Hge.
  assert (Hn : nxt (mkS d' (s_first s) (s_freq s) (s_latest s) (s_pt s)) = nxt s) by reflexivity.
  constructor; cbn [s_ds s_first s_freq s_latest s_pt]; try rewrite Hn.
  - apply (i_freq _ _ _ I).
  - apply (i_first _ _ _ I).
  - rewrite Ht, Hr. apply (i_notomb _ _ _ I).
  - rewrite Hf. apply (i_firstkey _ _ _ I).
  - pose proof (i_latest _ _ _ I) as L. destruct (s_latest s) as [c|] eqn:E.
    + destruct L as [L1 [L2 L3]]. rewrite Hl. repeat split; auto. rewrite Hc; auto.
      unfold nxt, next_of. rewrite E. lia.
    + rewrite Hl. exact L.
  - intros j Hj. rewrite Hc by auto. apply (i_certs _ _ _ I j Hj).
  - rewrite Hp by lia. apply (i_init _ _ _ I).
  - intros k Hk Hrm. rewrite Hp by lia. apply (i_ckpt _ _ _ I); auto.
  - apply (i_pt _ _ _ I).
  - apply (i_tabs _ _ _ I).
Qed.

(* ---------- C10: crash between any two datastore writes of Put ---------- *)
Theorem put_crash_atomic toks s tabs c ws npt :
  inv toks s tabs -> put_plan toks s c = PutOk ws npt ->
  forall k, (k <= length ws)%nat ->
  let d' := apply_writes (s_ds s) (firstn k ws) in
  (* the latest certificate is loadable and the reopened store is EITHER the store before ... *)
  ((k < length ws)%nat ->
     let s' := mkS d' (s_first s) (s_freq s) (s_latest s) (s_pt s) in
     open_store (s_freq s) d' = inr s' /\ inv toks s' tabs /\
     (* ... in which case the interrupted operation can be repeated successfully *)
     put_plan toks s' c = PutOk ws npt) /\
  (* ... OR the store after the operation *)
  (k = length ws -> open_store (s_freq s) d' = inr (fst (put toks s c))).
Proof.
  intros I P k Hk d'. pose proof (put_plan_ok _ _ _ _ _ P) as (Hi & _ & _ & Hst & Hcid & Hne & Hws).
  pose proof (nxt_ge _ _ _ I) as Hge. split.
  - intros Hlt s'.
    assert (I' : inv toks s' tabs).
    { subst s' d'. apply inv_ext; auto.
      - intros j Hj. subst ws. rewrite Hi in *.
        destruct (Z.rem (nxt s + 1) (s_freq s) =? 0); cbn in Hlt;
          destruct k as [|[|[|k]]]; try lia; cbn; unfold upd; try reflexivity;
          assert (j =? nxt s = false) as -> by (apply Z.eqb_neq; lia); reflexivity.
      - intros j Hj. subst ws. rewrite Hi in *.
        destruct (Z.rem (nxt s + 1) (s_freq s) =? 0); cbn in Hlt;
          destruct k as [|[|[|k]]]; try lia; cbn; unfold upd; try reflexivity.
        assert (j =? nxt s + 1 = false) as -> by (apply Z.eqb_neq; lia). reflexivity.
      - subst ws. destruct (Z.rem (c_inst c + 1) (s_freq s) =? 0); cbn in Hlt; destruct k as [|[|[|k]]]; try lia; reflexivity.
      - subst ws. destruct (Z.rem (c_inst c + 1) (s_freq s) =? 0); cbn in Hlt; destruct k as [|[|[|k]]]; try lia; reflexivity.
      - subst ws. destruct (Z.rem (c_inst c + 1) (s_freq s) =? 0); cbn in Hlt; destruct k as [|[|[|k]]]; try lia; reflexivity.
      - subst ws. destruct (Z.rem (c_inst c + 1) (s_freq s) =? 0); cbn in Hlt; destruct k as [|[|[|k]]]; try lia; reflexivity. }
    split; [|split; auto].
    apply (reopen_identity toks s' tabs I').
  - intros ->. subst d'. rewrite firstn_all.
    destruct (put_preserves_inv toks s tabs c ws npt I P) as [I2 _].
    pose proof (reopen_identity _ _ _ I2) as R. unfold put in *. rewrite P in *. cbn [fst s_ds s_freq] in *. exact R.
Qed.

(* ---------- create ---------- *)
Definition fresh (d : dstore) : Prop :=
  d_first d = None /\ d_latest d = None /\ d_tomb d = false /\ d_rawtomb d = false.

Theorem create_inv toks freq d first pt : fresh d -> 0 < freq -> 0 <= first ->
  pt <> [] -> NoDup (ids pt) -> canon pt = pt ->
  exists s, create_store freq d first pt = inr s /\ inv toks s (fun _ => pt) /\ nxt s = first.
Proof.
  intros (F1 & F2 & F3 & F4) Hf H0 Hne Hn Hc. unfold create_store, open_raw.
  destruct pt as [|e0 pt'] eqn:Ep; [contradiction|]. cbn [length Nat.eqb]. rewrite <- Ep in *.
  rewrite (continue_delete_id _ F3 F4), F2, F1.
  eexists. split; [reflexivity|]. split; [|reflexivity].
  constructor; cbn; unfold upd; auto; try (rewrite Z.eqb_refl; reflexivity); try lia.
Qed.

Theorem create_crash_atomic freq d first pt : fresh d -> pt <> [] ->
  forall k, (k < 2)%nat ->
  let d' := apply_writes d (firstn k (create_writes first pt)) in
  (* before the pointer is written the store still reads as "not initialised" ... *)
  open_store freq d' = inl ENotInitialized /\
  (* ... and the interrupted create can be repeated, producing exactly the datastore a clean create produces *)
  exists s, create_store freq d' first pt = inr s /\
            (forall j, d_power (s_ds s) j = d_power (apply_writes d (create_writes first pt)) j) /\
            d_first (s_ds s) = Some first /\ s_latest s = None /\ s_pt s = pt.
Proof.
  intros (F1 & F2 & F3 & F4) Hne k Hk d'.
  assert (Hd : fresh d').
  { subst d'. destruct k as [|[|k]]; try lia; cbn; repeat split; auto. }
  destruct Hd as (G1 & G2 & G3 & G4). split.
  - unfold open_store, open_raw. rewrite (continue_delete_id _ G3 G4), G2, G1. reflexivity.
  - unfold create_store, open_raw. destruct pt as [|e0 pt']; [contradiction|]. cbn [length Nat.eqb].
    rewrite (continue_delete_id _ G3 G4), G2, G1. eexists. split; [reflexivity|]. cbn [s_ds s_latest s_pt].
    split; [|split; [|split]]; try reflexivity.
    intros j. subst d'. destruct k as [|[|k]]; try lia; cbn; unfold upd; auto. destruct (j =? first); auto.
Qed.

(* ---------- wipe ---------- *)
Theorem wipe_resumed freq d : d_tomb d = true \/ d_rawtomb d = true ->
  continue_delete d = ds_empty /\ open_store freq d = inl ENotInitialized /\
  forall first pt, pt <> [] -> exists s, create_store freq d first pt = inr s /\
       s_ds s = apply_writes ds_empty (create_writes first pt).
Proof.
  intros H.
  assert (E : continue_delete d = ds_empty).
  { unfold continue_delete. destruct (d_rawtomb d); auto. destruct H as [->|H]; [reflexivity|discriminate]. }
  split; auto. split.
  - unfold open_store, open_raw. rewrite E. reflexivity.
  - intros first pt Hne. unfold create_store, open_raw. destruct pt as [|e0 pt']; [contradiction|]. cbn [length Nat.eqb].
    rewrite E. cbn. eexists. split; reflexivity.
Qed.

(* once the tombstone is written, whatever part of the deletion happened, recovery is the same *)
Theorem wipe_any_partial_deletion freq d (dels : list write) :
  (forall w, In w dels -> match w with WDelCert _ | WDelPower _ | WDelLatest | WDelFirst => True | _ => False end) ->
  open_store freq (apply_writes (apply_write d WTomb) dels) = inl ENotInitialized.
Proof.
  intros Hd. apply wipe_resumed. left.
  assert (forall d0, d_tomb d0 = true -> d_tomb (apply_writes d0 dels) = true) as K.
  { induction dels as [|w r IH]; intros d0 H0; cbn; auto. apply IH.
    - intros w' Hw'. apply Hd. right; auto.
    - specialize (Hd w (or_introl eq_refl)). destruct w; try contradiction; cbn; auto. }
  apply K. reflexivity.
Qed.

(* ---------- C17: snapshots ---------- *)
Lemma range_certs_all toks s tabs (I : inv toks s tabs) : forall n start,
  s_first s <= start -> start + Z.of_nat n <= nxt s ->
  length (range_certs (s_ds s) start n) = n.
Proof.
  intros n start H1 H2.
  destruct (apply_range toks s tabs I n start (tabs start) H1 H2 (meq_refl _)
              (proj1 (i_tabs _ _ _ I start ltac:(pose proof (nxt_ge _ _ _ I); lia)))) as [cs [m' [R1 [R2 _]]]].
  rewrite R1. exact R2.
Qed.

Theorem export_ok toks s tabs : inv toks s tabs -> forall upto, s_first s <= upto < nxt s ->
  export s upto = inr (mkSnap (s_first s) upto (tabs (s_first s))
                         (range_certs (s_ds s) (s_first s) (Z.to_nat (upto - s_first s + 1)))).
Proof.
  intros I upto Hu. unfold export.
  rewrite (gpt_derivable toks s tabs I (s_pt s) (or_intror (i_pt _ _ _ I)) (s_first s)) by (pose proof (nxt_ge _ _ _ I); lia).
  rewrite (range_certs_all toks s tabs I) by lia. rewrite Nat.ltb_irrefl. reflexivity.
Qed.

Lemma import_loop_ok toks s tabs (I : inv toks s tabs) upto (Hup : upto < nxt s) : forall n i d m prev last,
  s_first s <= i -> i + Z.of_nat n = upto + 1 ->
  meq m (tabs i) -> NoDup (ids m) ->
  (prev = None \/ prev = Some (cid_token toks (tabs i))) ->
  exists d' m' last',
    import_loop toks (s_freq s) d i upto m prev (range_certs (s_ds s) i n) last = inr (d', m', last') /\
    meq m' (tabs (upto + 1)) /\ NoDup (ids m') /\
    (last' = if Nat.eqb n 0 then last else d_cert (s_ds s) upto) /\
    (forall j, d_cert d' j = if (i <=? j) && (j <=? upto) then d_cert (s_ds s) j else d_cert d j) /\
    (forall k, d_power d' k = if (i <? k) && (k <=? upto + 1) && (Z.rem k (s_freq s) =? 0) then Some (tabs k) else d_power d k) /\
    d_latest d' = d_latest d /\ d_first d' = d_first d /\ d_tomb d' = d_tomb d /\ d_rawtomb d' = d_rawtomb d.
Proof.
  induction n as [|n IH]; intros i d m prev last Hi He Hm Hn Hp.
  - exists d, m, last. cbn [range_certs import_loop Nat.eqb]. replace (upto + 1) with i by lia.
    repeat split; auto.
    + intros j. assert ((i <=? j) && (j <=? upto) = false) as ->; auto.
      destruct (i <=? j) eqn:A; auto. apply Z.leb_le in A. apply Z.leb_gt. lia.
    + intros k. assert ((i <? k) && (k <=? i) = false) as ->; auto.
      destruct (i <? k) eqn:A; auto. apply Z.ltb_lt in A. apply Z.leb_gt. lia.
  - destruct (i_certs _ _ _ I i ltac:(lia)) as [c [C1 [C2 [C3 C4]]]].
    cbn [range_certs]. rewrite C1. cbn [import_loop]. rewrite C2, Z.eqb_refl. cbn [negb].
    assert (upto <? i = false) as -> by (apply Z.ltb_ge; lia).
    assert (Hstep : exists m1, apply_deltas m None (c_delta c) = inr m1 /\ meq m1 (tabs (i + 1)) /\ NoDup (ids m1)).
    { unfold step_table in C3. destruct (c_delta c) as [|d0 dr] eqn:Ed.
      - inversion C3 as [C3']. exists m. cbn [apply_deltas]. repeat split; auto.
      - unfold apply_diff in C3. destruct (apply_deltas (tabs i) None (d0 :: dr)) as [e|mt] eqn:A; [discriminate|].
        inversion C3 as [C3'].
        pose proof (apply_deltas_meq (d0 :: dr) m (tabs i) None Hm) as Q. rewrite A in Q.
        destruct (apply_deltas m None (d0 :: dr)) as [e|m1] eqn:B; [contradiction|].
        exists m1. split; auto. split.
        + eapply meq_trans; [exact Q|]. apply meq_sym, canon_meq.
          eapply apply_deltas_nodup; [|exact A]. apply (i_tabs _ _ _ I i). lia.
        + eapply apply_deltas_nodup; eauto. }
    destruct Hstep as [m1 [S1 [S2 S3]]]. rewrite S1.
    assert (Hcan : canon m1 = tabs (i + 1)).
    { rewrite <- (proj2 (proj2 (i_tabs _ _ _ I (i + 1) ltac:(lia)))). apply canon_ext; auto. apply (i_tabs _ _ _ I (i + 1)). lia. }
    rewrite Hcan, C4, Z.eqb_refl. cbn [negb]. rewrite andb_false_r.
    (* the non-recomputing branch: empty delta, same committed table as the predecessor *)
    assert (Hnr : negb ((Z.rem (i + 1) (s_freq s) =? 0) || negb (Nat.eqb (length (c_delta c)) 0) ||
                        match prev with None => true | Some _ => false end) &&
                  negb (match prev with Some p => p =? c_pt c | None => true end) = false).
    { destruct prev as [p|]; [|rewrite orb_true_r; reflexivity].
      destruct Hp as [Hp|Hp]; [discriminate|]. inversion Hp; subst p.
      destruct (Nat.eqb (length (c_delta c)) 0) eqn:L0; [|rewrite orb_true_r; reflexivity].
      assert (c_delta c = []) as Ed. { destruct (c_delta c); [reflexivity|discriminate]. }
      unfold step_table in C3. rewrite Ed in C3. inversion C3 as [C3']. rewrite C3', C4, Z.eqb_refl.
      rewrite andb_false_r. reflexivity. }
    rewrite Hnr.
    set (d1 := if Z.rem (i + 1) (s_freq s) =? 0 then apply_write (apply_write d (WCert i c)) (WPower (i + 1) (tabs (i + 1)))
               else apply_write d (WCert i c)).
    destruct (IH (i + 1) d1 m1 (Some (c_pt c)) (Some c) ltac:(lia) ltac:(lia) S2 S3 (or_intror (f_equal Some (eq_sym C4))))
      as [d' [m' [last' [L1 [L2 [L3 [L4 [L5 [L6 [L7 [L8 [L9 L10]]]]]]]]]]]].
    exists d', m', last'. split; [exact L1|]. split; auto. split; auto.
    split.
    { cbn [Nat.eqb]. rewrite L4. destruct (Nat.eqb n 0) eqn:N0; auto. apply Nat.eqb_eq in N0. subst n.
      assert (Eu : i = upto) by lia. rewrite <- Eu. symmetry. exact C1. }
    assert (Dc1 : forall j, d_cert d1 j = if j =? i then Some c else d_cert d j).
    { intros j. subst d1. destruct (Z.rem (i + 1) (s_freq s) =? 0); cbn; unfold upd; reflexivity. }
    assert (Dp1 : forall k, d_power d1 k = if (k =? i + 1) && (Z.rem (i + 1) (s_freq s) =? 0) then Some (tabs (i + 1)) else d_power d k).
    { intros k. subst d1. destruct (Z.rem (i + 1) (s_freq s) =? 0); cbn; unfold upd.
      - rewrite andb_true_r; reflexivity. - rewrite andb_false_r; reflexivity. }
    split.
    { intros j. rewrite L5, Dc1. destruct (Z.eq_dec j i) as [->|Ne].
      - rewrite Z.eqb_refl, Z.leb_refl. assert (i + 1 <=? i = false) as -> by (apply Z.leb_gt; lia).
        assert (i <=? upto = true) as -> by (apply Z.leb_le; lia). cbn [andb]. symmetry; exact C1.
      - assert (j =? i = false) as -> by (apply Z.eqb_neq; auto).
        destruct (i + 1 <=? j) eqn:A, (i <=? j) eqn:B; auto.
        + apply Z.leb_le in A. apply Z.leb_gt in B. lia.
        + apply Z.leb_gt in A. apply Z.leb_le in B. lia. }
    split.
    { intros k. rewrite L6, Dp1. destruct (Z.eq_dec k (i + 1)) as [->|Ne].
      - rewrite Z.eqb_refl. assert (i + 1 <? i + 1 = false) as -> by (apply Z.ltb_irrefl).
        assert (i <? i + 1 = true) as -> by (apply Z.ltb_lt; lia).
        assert (i + 1 <=? upto + 1 = true) as -> by (apply Z.leb_le; lia). cbn [andb]. reflexivity.
      - assert (k =? i + 1 = false) as -> by (apply Z.eqb_neq; auto). cbn [andb].
        destruct (i + 1 <? k) eqn:A, (i <? k) eqn:B; auto.
        + apply Z.ltb_lt in A. apply Z.ltb_ge in B. lia.
        + apply Z.ltb_ge in A. apply Z.ltb_lt in B. lia. }
    subst d1. destruct (Z.rem (i + 1) (s_freq s) =? 0); cbn in *; auto.
Qed.

(* importing an exported snapshot into an empty datastore reproduces the store up to `upto` *)
Theorem import_export_id toks s tabs : inv toks s tabs -> forall upto, s_first s <= upto < nxt s ->
  exists sn d' s',
    export s upto = inr sn /\
    import_snapshot toks (s_freq s) ds_empty None sn = inr d' /\
    open_store (s_freq s) d' = inr s' /\ inv toks s' tabs /\
    s_first s' = s_first s /\ nxt s' = upto + 1 /\
    (forall i, s_first s <= i <= upto -> get s' i = get s i) /\
    (forall i, s_first s <= i <= upto + 1 -> store_power s' i = store_power s i).
Proof.
  intros I upto Hu. pose proof (nxt_ge _ _ _ I) as Hge.
  rewrite (export_ok toks s tabs I upto Hu).
  set (n := Z.to_nat (upto - s_first s + 1)).
  destruct (i_tabs _ _ _ I (s_first s) ltac:(lia)) as [T1 [T2 T3]].
  set (d0 := apply_writes ds_empty (create_writes (s_first s) (tabs (s_first s)))).
  destruct (import_loop_ok toks s tabs I upto ltac:(lia) n (s_first s) d0 (tabs (s_first s)) None None
              ltac:(lia) ltac:(subst n; lia) (meq_refl _) T1 (or_introl eq_refl))
    as [d1 [m1 [last1 [L1 [L2 [L3 [L4 [L5 [L6 [L7 [L8 [L9 L10]]]]]]]]]]]].
  destruct (i_certs _ _ _ I upto ltac:(lia)) as [cu [U1 [U2 [U3 U4]]]].
  assert (Hn0 : Nat.eqb n 0 = false). { apply Nat.eqb_neq. subst n. lia. }
  rewrite Hn0, U1 in L4. subst last1.
  assert (Hcan : canon m1 = tabs (upto + 1)).
  { rewrite <- (proj2 (proj2 (i_tabs _ _ _ I (upto + 1) ltac:(lia)))). apply canon_ext; auto. apply (i_tabs _ _ _ I (upto + 1)). lia. }
  set (d' := apply_write d1 (WLatest upto)).
  set (s' := mkS d' (s_first s) (s_freq s) (Some cu) (tabs (upto + 1))).
  assert (I' : inv toks s' tabs).
  { assert (Hn' : nxt s' = upto + 1). { unfold nxt, next_of. cbn. lia. }
    subst s'. constructor; cbn [s_ds s_first s_freq s_latest s_pt]; try rewrite Hn'.
    - apply (i_freq _ _ _ I).
    - apply (i_first _ _ _ I).
    - subst d'. cbn. rewrite L9, L10. subst d0. cbn. auto.
    - subst d'. cbn. rewrite L8. subst d0. reflexivity.
    - subst d'. cbn. rewrite U2. split; auto. split; [|lia]. rewrite L5.
      assert ((s_first s <=? upto) && (upto <=? upto) = true) as ->; auto.
      apply andb_true_iff. split; apply Z.leb_le; lia.
    - intros j Hj. subst d'. cbn. rewrite L5.
      assert ((s_first s <=? j) && (j <=? upto) = true) as ->. { apply andb_true_iff. split; apply Z.leb_le; lia. }
      apply (i_certs _ _ _ I j). lia.
    - subst d'. cbn. rewrite L6. rewrite Z.ltb_irrefl. cbn [andb]. subst d0. cbn. unfold upd. rewrite Z.eqb_refl. reflexivity.
    - intros k Hk Hr. subst d'. cbn. rewrite L6, Hr.
      assert ((s_first s <? k) && (k <=? upto + 1) = true) as ->. { apply andb_true_iff. split; [apply Z.ltb_lt|apply Z.leb_le]; lia. }
      reflexivity.
    - reflexivity.
    - intros j Hj. apply (i_tabs _ _ _ I). lia. }
  exists (mkSnap (s_first s) upto (tabs (s_first s)) (range_certs (s_ds s) (s_first s) n)), d', s'.
  split; [reflexivity|]. split.
  { unfold import_snapshot. cbn [sn_first sn_latest sn_init sn_certs].
    assert (Hl : Nat.eqb (length (tabs (s_first s))) 0 = false). { destruct (tabs (s_first s)); [contradiction|reflexivity]. }
    unfold open_or_create, open_raw. rewrite Hl. cbn [continue_delete ds_empty d_rawtomb d_tomb d_latest d_first s_ds].
    fold d0. rewrite L1. rewrite U2, Z.eqb_refl. cbn [negb]. rewrite Hcan, U4, Z.eqb_refl. reflexivity. }
  split. { apply (reopen_identity toks s' tabs I'). }
  split; auto. split; [reflexivity|]. split. { unfold nxt, next_of. cbn. lia. }
  split.
  - intros i Hi. unfold get. cbn [s_ds]. subst d'. cbn. rewrite L5.
    assert ((s_first s <=? i) && (i <=? upto) = true) as ->; auto. apply andb_true_iff. split; apply Z.leb_le; lia.
  - intros i Hi. rewrite (power_table_derivable toks s' tabs I') by (cbn [s_first]; unfold nxt, next_of; cbn; lia).
    rewrite (power_table_derivable toks s tabs I) by lia. reflexivity.
Qed.

(* whatever is in a snapshot that the importer ACCEPTS: consecutive instances from the header's first one,
   every delta applies, and the final table is the one the last certificate commits to *)
Lemma import_loop_sound toks freq cs : forall d i latest m prev last d' m' last',
  import_loop toks freq d i latest m prev cs last = inr (d', m', last') ->
  map c_inst cs = zseq i (length cs) /\ (cs <> [] -> i + Z.of_nat (length cs) - 1 <= latest) /\
  apply_many m (map c_delta cs) = inr m' /\
  last' = match cs with [] => last | _ => Some (List.last cs (mkCert 0 [] 0 0 [] None [])) end.
Proof.
  induction cs as [|c rest IH]; intros d i latest m prev last d' m' last' H; cbn [import_loop] in H.
  - inversion H; subst. cbn. repeat split; auto. intros C; contradiction.
  - destruct (i =? c_inst c) eqn:E1; cbn [negb] in H; [|discriminate]. apply Z.eqb_eq in E1.
    destruct (latest <? i) eqn:E2; [discriminate|]. apply Z.ltb_ge in E2.
    destruct (apply_deltas m None (c_delta c)) as [e|m1] eqn:A; [discriminate|].
    match type of H with (if ?x then _ else _) = _ => destruct x; [discriminate|] end.
    match type of H with (if ?x then _ else _) = _ => destruct x; [discriminate|] end.
    apply IH in H. destruct H as [H1 [H2 [H3 H4]]].
    cbn [map length zseq apply_many]. rewrite A, H1, <- E1. split; auto. split.
    + intros _. destruct rest as [|c2 r2]; [cbn; lia|]. specialize (H2 ltac:(discriminate)). cbn [length] in *. lia.
    + split; auto. rewrite H4. destruct rest; auto.
Qed.

Lemma last_inst : forall cs f c0, map c_inst (c0 :: cs) = zseq f (length (c0 :: cs)) ->
  c_inst (last (c0 :: cs) (mkCert 0 [] 0 0 [] None [])) = f + Z.of_nat (length (c0 :: cs)) - 1.
Proof.
  induction cs as [|c1 r IH]; intros f c0 H.
  - cbn in *. inversion H. lia.
  - change (map c_inst (c0 :: c1 :: r)) with (c_inst c0 :: map c_inst (c1 :: r)) in H.
    change (zseq f (length (c0 :: c1 :: r))) with (f :: zseq (f + 1) (length (c1 :: r))) in H.
    assert (B := f_equal (@tl Z) H). cbn [tl] in B.
    change (last (c0 :: c1 :: r) (mkCert 0 [] 0 0 [] None [])) with (last (c1 :: r) (mkCert 0 [] 0 0 [] None [])).
    rewrite (IH (f + 1) c1 B). cbn [length]. lia.
Qed.

Theorem import_rejects_gap_or_reorder toks freq d mf sn :
  map c_inst (sn_certs sn) <> zseq (sn_first sn) (length (sn_certs sn)) ->
  exists e, import_snapshot toks freq d mf sn = inl e.
Proof.
  intros Hbad. unfold import_snapshot.
  destruct (match mf with Some _ => _ | None => None end); [eexists; reflexivity|].
  destruct (open_or_create freq d (sn_first sn) (sn_init sn)) as [e|s0]; [eexists; reflexivity|].
  destruct (import_loop toks freq (s_ds s0) (sn_first sn) (sn_latest sn) (sn_init sn) None (sn_certs sn) None) as [e|[[d1 m1] l1]] eqn:L;
    [eexists; reflexivity|].
  apply import_loop_sound in L. destruct L as [L _]. contradiction.
Qed.

Theorem import_accepts_sound toks freq d mf sn d' :
  import_snapshot toks freq d mf sn = inr d' ->
  sn_certs sn <> [] /\ map c_inst (sn_certs sn) = zseq (sn_first sn) (length (sn_certs sn)) /\
  sn_first sn + Z.of_nat (length (sn_certs sn)) - 1 = sn_latest sn /\
  exists m, apply_many (sn_init sn) (map c_delta (sn_certs sn)) = inr m /\
            cid_token toks (canon m) = c_pt (List.last (sn_certs sn) (mkCert 0 [] 0 0 [] None [])).
Proof.
  unfold import_snapshot.
  destruct (match mf with Some _ => _ | None => None end); [discriminate|].
  destruct (open_or_create freq d (sn_first sn) (sn_init sn)) as [e|s0]; [discriminate|].
  destruct (import_loop toks freq (s_ds s0) (sn_first sn) (sn_latest sn) (sn_init sn) None (sn_certs sn) None) as [e|[[d1 m1] l1]] eqn:L;
    [discriminate|].
  apply import_loop_sound in L. destruct L as [L1 [L2 [L3 L4]]].
  destruct l1 as [lc|]; [|discriminate].
  destruct (c_inst lc =? sn_latest sn) eqn:E1; cbn [negb]; [|discriminate]. apply Z.eqb_eq in E1.
  destruct (cid_token toks (canon m1) =? c_pt lc) eqn:E2; cbn [negb]; [|discriminate]. apply Z.eqb_eq in E2.
  intros _. destruct (sn_certs sn) as [|c0 r] eqn:Ec; [discriminate|].
  inversion L4; subst lc. split; [discriminate|]. split; auto. split.
  - specialize (L2 ltac:(discriminate)).
    pose proof (last_inst r (sn_first sn) c0 L1) as Hl. rewrite <- Hl. exact E1.
  - exists m1. split; auto.
Qed.

(* non-vacuity: a concrete store satisfying the invariant, with a check-point crossed *)
Example inv_example :
  let pt := [mkE 1 10 7; mkE 2 5 8] in
  exists s, create_store 2 ds_empty 0 pt = inr s /\ inv [] s (fun _ => pt).
Proof.
  cbn zeta. destruct (create_inv [] 2 ds_empty 0 [mkE 1 10 7; mkE 2 5 8]) as [s [A [B _]]]; try (cbn; repeat split; auto; lia).
  - discriminate.
  - repeat constructor; cbn; intuition discriminate.
  - exists s. auto.
Qed.

(* every certificate of an ACCEPTED snapshot commits to exactly the table obtained by applying all
   deltas up to and including its own — no wrong intermediate delta survives (not even a compensated pair) *)
Lemma import_loop_cids toks freq cs : forall d i latest m prev last d' m' last',
  (prev = None \/ prev = Some (cid_token toks (canon m))) ->
  import_loop toks freq d i latest m prev cs last = inr (d', m', last') ->
  forall k c, nth_error cs k = Some c ->
    exists mk, apply_many m (map c_delta (firstn (S k) cs)) = inr mk /\ cid_token toks (canon mk) = c_pt c.
Proof.
  induction cs as [|c0 rest IH]; intros d i latest m prev last d' m' last' Hp H k c Hk.
  - destruct k; discriminate.
  - cbn [import_loop] in H.
    destruct (i =? c_inst c0); cbn [negb] in H; [|discriminate].
    destruct (latest <? i); [discriminate|].
    destruct (apply_deltas m None (c_delta c0)) as [e|m1] eqn:A; [discriminate|].
    set (recompute := (Z.rem (c_inst c0 + 1) freq =? 0) || negb (Nat.eqb (length (c_delta c0)) 0) ||
                      match prev with None => true | Some _ => false end) in *.
    match type of H with (if ?x then _ else _) = _ => destruct x eqn:R1; [discriminate|] end.
    match type of H with (if ?x then _ else _) = _ => destruct x eqn:R2; [discriminate|] end.
    assert (Hc0 : cid_token toks (canon m1) = c_pt c0).
    { assert (Rc : recompute = (Z.rem (c_inst c0 + 1) freq =? 0) || negb (Nat.eqb (length (c_delta c0)) 0) ||
                      match prev with None => true | Some _ => false end) by reflexivity.
      clearbody recompute. destruct recompute.
      - cbn [andb] in R1. apply negb_false_iff in R1. apply Z.eqb_eq in R1. exact R1.
      - cbn [negb andb] in R2. apply negb_false_iff in R2.
        symmetry in Rc. apply orb_false_iff in Rc. destruct Rc as [Rc Rp]. apply orb_false_iff in Rc. destruct Rc as [_ Rl].
        apply negb_false_iff in Rl. destruct prev as [p|]; [|discriminate].
        apply Z.eqb_eq in R2. destruct Hp as [Hp|Hp]; [discriminate|]. injection Hp as Hp'.
        assert (c_delta c0 = []) as Ed. { destruct (c_delta c0); [reflexivity|discriminate]. }
        rewrite Ed in A. cbn in A. injection A as A'. rewrite <- A', <- Hp'. exact R2. }
    destruct k as [|k].
    + cbn in Hk. inversion Hk; subst c. exists m1. cbn [firstn map apply_many]. rewrite A. auto.
    + cbn [nth_error] in Hk.
      destruct (IH _ _ _ _ _ _ _ _ _ (or_intror (f_equal Some (eq_sym Hc0))) H k c Hk) as [mk [M1 M2]].
      exists mk. cbn [firstn map apply_many] in *. rewrite A. auto.
Qed.

Theorem import_accepts_only_reproducing_deltas toks freq d mf sn d' :
  import_snapshot toks freq d mf sn = inr d' ->
  forall k c, nth_error (sn_certs sn) k = Some c ->
    exists mk, apply_many (sn_init sn) (map c_delta (firstn (S k) (sn_certs sn))) = inr mk /\
               cid_token toks (canon mk) = c_pt c.
Proof.
  unfold import_snapshot.
  destruct (match mf with Some _ => _ | None => None end); [discriminate|].
  destruct (open_or_create freq d (sn_first sn) (sn_init sn)) as [e|s0]; [discriminate|].
  destruct (import_loop toks freq (s_ds s0) (sn_first sn) (sn_latest sn) (sn_init sn) None (sn_certs sn) None) as [e|[[d1 m1] l1]] eqn:L;
    [discriminate|].
  intros _ k c Hk. eapply import_loop_cids; [left; reflexivity | exact L | exact Hk].
Qed.
