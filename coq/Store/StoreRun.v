(* executable history checker for the C09/C10/C17 correspondence (no proofs) *)
From Coq Require Import ZArith List Bool.
From F3 Require Import GoInt Table Validate CertStore.
Import ListNotations.
Open Scope Z_scope.

Inductive op :=
| OCreate (first : Z) (pt : table) (exp : Z)
| OOpen (exp : Z)
| OOpenOrCreate (first : Z) (pt : table) (exp : Z)
| OPut (c : cert) (exp : Z)
| OGet (i : Z) (exp : option (Z * Z))             (* (instance, commitment token) *)
| ORange (a b : Z) (exp : list Z) (experr : Z)
| OPower (i : Z) (exp : option table)
| OLatest (exp : option Z)
| ODeleteAll
| OCrashPut (c : cert) (k : nat)                   (* only the first k datastore writes happen, process dies *)
| OCrashCreate (first : Z) (pt : table) (k : nat)
| OCrashWipe (k : nat)                             (* k >= 1 : tombstone written, arbitrary part of the deletion done *)
| OImport (upto : Z) (mf : option (Z * option Z)) (exp : Z)   (* export current store up to `upto`, import into an empty datastore, switch to it *)
| OImportSnap (sn : snapshot) (mf : option (Z * option Z)) (exp : Z).

Definition code_of {A} (r : serr + A) : Z := match r with inl e => serr_code e | inr _ => 0 end.
Definition opt_eqb {A} (f : A -> A -> bool) (a b : option A) : bool :=
  match a, b with Some x, Some y => f x y | None, None => true | _, _ => false end.
Fixpoint zlist_eqb (a b : list Z) : bool :=
  match a, b with [], [] => true | x :: a', y :: b' => (x =? y) && zlist_eqb a' b' | _, _ => false end.

Definition with_freq (f : Z) (s : store) : store := mkS (s_ds s) (s_first s) f (s_latest s) (s_pt s).

(* state: datastore + optional handle.  Handles are opened with the production check-point frequency
   (1440) and then switched to the test frequency, exactly as the harness does through its accessor. *)
Definition step (toks : list (table * Z)) (freq : Z) (st : dstore * option store) (o : op) : (dstore * option store) * bool :=
  let '(d, h) := st in
  let cur := match h with Some s => s_ds s | None => d end in
  match o with
  | OCreate first pt exp =>
      match create_store default_freq cur first pt with
      | inl e => ((cur, None), serr_code e =? exp)
      | inr s => ((s_ds s, Some (with_freq freq s)), exp =? 0)
      end
  | OOpen exp =>
      match open_store default_freq cur with
      | inl e => ((continue_delete cur, None), serr_code e =? exp)
      | inr s => ((s_ds s, Some (with_freq freq s)), exp =? 0)
      end
  | OOpenOrCreate first pt exp =>
      match open_or_create default_freq cur first pt with
      | inl e => ((continue_delete cur, None), serr_code e =? exp)
      | inr s => ((s_ds s, Some (with_freq freq s)), exp =? 0)
      end
  | OPut c exp =>
      match h with
      | None => (st, false)
      | Some s => let '(s', e) := put toks s c in
                  ((s_ds s', Some s'), (match e with Some x => serr_code x | None => 0 end) =? exp)
      end
  | OGet i exp =>
      match h with
      | None => (st, false)
      | Some s => (st, opt_eqb (fun a b => (fst a =? fst b) && (snd a =? snd b))
                         (match get s i with inr c => Some (c_inst c, c_commit c) | inl _ => None end) exp)
      end
  | ORange a b exp experr =>
      match h with
      | None => (st, false)
      | Some s => let '(cs, e) := store_range s a b in
                  (st, zlist_eqb (map c_inst cs) exp && ((match e with Some x => serr_code x | None => 0 end) =? experr))
      end
  | OPower i exp =>
      match h with
      | None => (st, false)
      | Some s => (st, opt_eqb table_eqb (match store_power s i with inr t => Some t | inl _ => None end) exp)
      end
  | OLatest exp =>
      match h with
      | None => (st, false)
      | Some s => (st, opt_eqb Z.eqb (match s_latest s with Some c => Some (c_inst c) | None => None end) exp)
      end
  | ODeleteAll => ((delete_all cur, None), true)
  | OCrashPut c k =>
      match h with
      | None => (st, false)
      | Some s => match put_plan toks s c with
                  | PutOk ws _ => ((apply_writes (s_ds s) (firstn k ws), None), true)
                  | _ => ((s_ds s, None), true)
                  end
      end
  | OCrashCreate first pt k =>
      match create_store default_freq cur first pt with
      | inl _ => ((cur, None), true)
      | inr _ => ((apply_writes (continue_delete cur) (firstn k (create_writes first pt)), None), true)
      end
  | OCrashWipe k => ((apply_write cur WTomb, None), true)
  | OImport upto mf exp =>
      match h with
      | None => (st, false)
      | Some s => match export s upto with
                  | inl e => (st, 100 + serr_code e =? exp)
                  | inr sn => match import_snapshot toks freq ds_empty mf sn with
                              | inl e => (st, ierr_code e =? exp)
                              | inr d' => ((d', None), exp =? 0)
                              end
                  end
      end
  | OImportSnap sn mf exp =>
      match import_snapshot toks freq ds_empty mf sn with
      | inl e => (st, ierr_code e =? exp)
      | inr d' => ((d', None), exp =? 0)
      end
  end.

(* returns the index of the first step whose observable differs, or -1 *)
Fixpoint run_history toks freq (st : dstore * option store) (ops : list op) (idx : Z) : Z :=
  match ops with
  | [] => -1
  | o :: rest => let '(st', ok) := step toks freq st o in
                 if ok then run_history toks freq st' rest (idx + 1) else idx
  end.
Definition history_ok toks freq ops : bool := run_history toks freq (ds_empty, None) ops 0 =? -1.
