(* Certificate-store subscribers (certstore.Store.Subscribe / the notification loop at the end of Put), C09:
   "subscribers eventually observe the latest certificate without ever blocking writers".
   A subscription is a channel with ONE buffer slot.  Subscribe puts the latest certificate (if any) into the fresh
   buffer; an accepted Put, under the store's write lock, for every live subscriber first DRAINS the slot (non-blocking
   receive) and then SENDS the new certificate; a reader takes whatever is in the slot.  Certificates are represented by
   their instance numbers.  No proofs here (SubscribersProofs.v). *)
From Coq Require Import ZArith List Bool.
Import ListNotations.
Open Scope Z_scope.

Definition slot := option Z.
(* `select { case <-ch: default: }` *)
Definition drain (b : slot) : slot := match b with Some _ => None | None => None end.
(* `ch <- c` on a one-slot channel: blocks when the slot is taken *)
Definition send (b : slot) (c : Z) : slot * bool := match b with None => (Some c, false) | Some _ => (b, true) end.
Definition notify (b : slot) (c : Z) : slot * bool := send (drain b) c.

(* a subscriber: None once closed; otherwise its slot and (ghost) the last certificate its reader took *)
Record sub := mkSub { sb_slot : slot; sb_seen : option Z }.
Record sstate := mkSS { ss_latest : option Z; ss_subs : list (option sub); ss_blocked : bool }.
Definition ss0 (latest : option Z) : sstate := mkSS latest [] false.

Inductive sev :=
| SSub                      (* Subscribe: the new subscriber gets the next index *)
| SPut (inst : Z)           (* a Put was accepted and made `inst` the latest certificate *)
| SRead (k : nat) (got : Z) (* non-blocking read by subscriber k; got = instance, or -1 when the slot was empty *)
| SClose (k : nat)
| SReset.                   (* the store handle was re-opened: no subscriber of the old handle is served any more *)

Definition notify_all (subs : list (option sub)) (c : Z) : list (option sub) * bool :=
  fold_right (fun s acc =>
                match s with
                | None => (None :: fst acc, snd acc)
                | Some x => let '(b, blk) := notify (sb_slot x) c in (Some (mkSub b (sb_seen x)) :: fst acc, blk || snd acc)
                end) ([], false) subs.

Fixpoint upd_nth {A} (l : list A) (k : nat) (x : A) : list A :=
  match l, k with [], _ => [] | _ :: t, O => x :: t | h :: t, S k' => h :: upd_nth t k' x end.

(* one event; the boolean says whether an observation (the value a reader got) agrees with the model *)
Definition sstep (st : sstate) (e : sev) : sstate * bool :=
  match e with
  | SSub => (mkSS (ss_latest st) (ss_subs st ++ [Some (mkSub (ss_latest st) None)]) (ss_blocked st), true)
  | SPut c => let '(subs, blk) := notify_all (ss_subs st) c in (mkSS (Some c) subs (ss_blocked st || blk), true)
  | SRead k got =>
      match nth k (ss_subs st) None with
      | None => (st, false)
      | Some x =>
          match sb_slot x with
          | None => (st, got =? -1)
          | Some c => (mkSS (ss_latest st) (upd_nth (ss_subs st) k (Some (mkSub None (Some c)))) (ss_blocked st), got =? c)
          end
      end
  | SClose k => (mkSS (ss_latest st) (upd_nth (ss_subs st) k None) (ss_blocked st), true)
  | SReset => (mkSS (ss_latest st) (map (fun _ => None) (ss_subs st)) (ss_blocked st), true)
  end.

Fixpoint srun (st : sstate) (evs : list sev) : sstate * bool :=
  match evs with
  | [] => (st, true)
  | e :: rest => let '(st', ok) := sstep st e in let '(st'', ok') := srun st' rest in (st'', ok && ok')
  end.

(* what the harness asks: every read of the real channels returned what the model's slot held, and no Put would block *)
Definition sub_trace_ok (latest0 : option Z) (evs : list sev) : bool :=
  let '(st, ok) := srun (ss0 latest0) evs in ok && negb (ss_blocked st).
