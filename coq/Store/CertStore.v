(* C09 / C10 / C17 model (no proofs): the certificate store over an abstract key-value datastore,
   mirroring certstore/certstore.go and certstore/snapshot.go operation by operation, with every
   mutating operation also available as its list of low-level datastore writes (for crash points). *)
From Coq Require Import ZArith List Bool.
From F3 Require Import GoInt Table Validate.
Import ListNotations.
Open Scope Z_scope.

(* ---- datastore: total functions (executable closures); keys of the /certstore namespace ---- *)
Record dstore := mkDS {
  d_cert : Z -> option cert;       (* /certstore/certs/<i>  *)
  d_power : Z -> option table;     (* /certstore/power/<i>  *)
  d_latest : option Z;             (* /certstore/latestCert *)
  d_first : option Z;              (* /certstore/firstInstance *)
  d_tomb : bool;                   (* /certstore/tombstone  *)
  d_rawtomb : bool;                (* /tombstone (raw datastore) *)
}.
Definition ds_empty : dstore := mkDS (fun _ => None) (fun _ => None) None None false false.

Inductive write :=
| WCert (i : Z) (c : cert) | WPower (i : Z) (t : table) | WLatest (i : Z) | WFirst (i : Z)
| WTomb | WDelCert (i : Z) | WDelPower (i : Z) | WDelLatest | WDelFirst | WDelTomb | WDelRawTomb.

Definition upd {A} (f : Z -> option A) (k : Z) (v : option A) : Z -> option A := fun i => if i =? k then v else f i.

Definition apply_write (d : dstore) (w : write) : dstore :=
  match w with
  | WCert i c => mkDS (upd (d_cert d) i (Some c)) (d_power d) (d_latest d) (d_first d) (d_tomb d) (d_rawtomb d)
  | WPower i t => mkDS (d_cert d) (upd (d_power d) i (Some t)) (d_latest d) (d_first d) (d_tomb d) (d_rawtomb d)
  | WLatest i => mkDS (d_cert d) (d_power d) (Some i) (d_first d) (d_tomb d) (d_rawtomb d)
  | WFirst i => mkDS (d_cert d) (d_power d) (d_latest d) (Some i) (d_tomb d) (d_rawtomb d)
  | WTomb => mkDS (d_cert d) (d_power d) (d_latest d) (d_first d) true (d_rawtomb d)
  | WDelCert i => mkDS (upd (d_cert d) i None) (d_power d) (d_latest d) (d_first d) (d_tomb d) (d_rawtomb d)
  | WDelPower i => mkDS (d_cert d) (upd (d_power d) i None) (d_latest d) (d_first d) (d_tomb d) (d_rawtomb d)
  | WDelLatest => mkDS (d_cert d) (d_power d) None (d_first d) (d_tomb d) (d_rawtomb d)
  | WDelFirst => mkDS (d_cert d) (d_power d) (d_latest d) None (d_tomb d) (d_rawtomb d)
  | WDelTomb => mkDS (d_cert d) (d_power d) (d_latest d) (d_first d) false (d_rawtomb d)
  | WDelRawTomb => mkDS (d_cert d) (d_power d) (d_latest d) (d_first d) (d_tomb d) false
  end.
Definition apply_writes (d : dstore) (ws : list write) : dstore := fold_left apply_write ws d.

(* completing an interrupted wipe: everything in the affected scope is deleted, then the tombstone.
   A raw-datastore tombstone wipes the whole datastore (certstore namespace included). *)
Definition continue_delete (d : dstore) : dstore :=
  if d_rawtomb d then ds_empty
  else if d_tomb d then mkDS (fun _ => None) (fun _ => None) None None false false
  else d.

(* ---- store handle ---- *)
Record store := mkS { s_ds : dstore; s_first : Z; s_freq : Z; s_latest : option cert; s_pt : table }.

Inductive serr := ELatestCertMissing | ENotInitialized | EWrongFirst | EWrongTable | EAlreadyInit | EEmptyInitial
                | EBeforeFirst | EBottom | EChainInvalid | EGap | EDelta (e : derr) | ECid | EEmptyTable
                | ENotFound | ERangeOrder | EFuture | EPowerMissing.

Definition next_of (first : Z) (latest : option cert) : Z :=
  match latest with Some c => c_inst c + 1 | None => first end.

(* certstore.GetRange over the datastore: inclusive, stops at the first missing instance *)
Fixpoint range_certs (d : dstore) (start : Z) (n : nat) : list cert :=
  match n with
  | O => []
  | S k => match d_cert d start with Some c => c :: range_certs d (start + 1) k | None => [] end
  end.
Definition get_range (d : dstore) (start end_ : Z) : list cert * option serr :=
  if end_ <? start then ([], Some ERangeOrder) else
  let n := Z.to_nat (end_ - start + 1) in
  let cs := range_certs d start n in
  if (length cs <? n)%nat then (cs, Some ENotFound) else (cs, None).

(* certs.ApplyPowerTableDiffs(table, diffs...) : all diffs on the map, one canonical sort at the end *)
Fixpoint apply_many (m : table) (dss : list (list delta)) : derr + table :=
  match dss with
  | [] => inr m
  | ds :: rest => match apply_deltas m None ds with inl e => inl e | inr m' => apply_many m' rest end
  end.
Definition apply_diffs (t : table) (dss : list (list delta)) : derr + table :=
  match apply_many t dss with inl e => inl e | inr m => inr (canon m) end.

(* Store.GetPowerTable; `pt` = in-memory latest table (may be [] while opening) *)
Definition get_power_table (d : dstore) (first freq : Z) (latest : option cert) (pt : table) (i : Z) : serr + table :=
  if i <? first then inl EBeforeFirst else
  let nxt := next_of first latest in
  if nxt <? i then inl EFuture else
  if (i =? nxt) && negb (Nat.eqb (length pt) 0) then inr pt else
  let start := Z.max (i - Z.rem i freq) first in
  match d_power d start with
  | None => inl EPowerMissing
  | Some t0 =>
      if start =? i then inr t0 else
      match get_range d start (i - 1) with
      | (_, Some e) => inl e
      | (cs, None) => match apply_diffs t0 (map c_delta cs) with inl e => inl (EDelta e) | inr t => inr t end
      end
  end.

(* open(): continue an interrupted wipe, then load the latest certificate *)
Definition open_raw (d : dstore) : serr + (dstore * option cert) :=
  let d := continue_delete d in
  match d_latest d with
  | None => inr (d, None)
  | Some l => match d_cert d l with None => inl ELatestCertMissing | Some c => inr (d, Some c) end
  end.

Definition default_freq : Z := 1440.

Definition open_store (freq : Z) (d : dstore) : serr + store :=
  match open_raw d with
  | inl e => inl e
  | inr (d, latest) =>
      match d_first d with
      | None => inl ENotInitialized
      | Some f =>
          match get_power_table d f freq latest [] (next_of f latest) with
          | inl e => inl e
          | inr pt => inr (mkS d f freq latest pt)
          end
      end
  end.

Definition create_writes (first : Z) (pt : table) : list write := [WPower first pt; WFirst first].

Definition create_store (freq : Z) (d : dstore) (first : Z) (pt : table) : serr + store :=
  if Nat.eqb (length pt) 0 then inl EEmptyInitial else
  match open_raw d with
  | inl e => inl e
  | inr (d, latest) =>
      match d_first d with
      | Some _ => inl EAlreadyInit
      | None => inr (mkS (apply_writes d (create_writes first pt)) first freq latest pt)
      end
  end.

Definition open_or_create (freq : Z) (d : dstore) (first : Z) (pt : table) : serr + store :=
  if Nat.eqb (length pt) 0 then inl EEmptyInitial else
  match open_raw d with
  | inl e => inl e
  | inr (d, latest) =>
      match d_first d with
      | Some f =>
          if negb (f =? first) then inl EWrongFirst else
          match d_power d first with
          | None => inl EPowerMissing
          | Some t => if negb (table_eqb t pt) then inl EWrongTable else
              match latest with
              | Some c => match get_power_table d first freq latest [] (c_inst c + 1) with
                          | inl e => inl e | inr lp => inr (mkS d first freq latest lp) end
              | None => inr (mkS d first freq latest pt)
              end
          end
      | None => inr (mkS (apply_writes d (create_writes first pt)) first freq latest pt)
      end
  end.

(* Store.Put: verdict, and the low-level writes of an accepted successor *)
Inductive put_res := PutErr (e : serr) | PutStale | PutOk (ws : list write) (npt : table).

Definition put_plan (toks : list (table * Z)) (s : store) (c : cert) : put_res :=
  if c_inst c <? s_first s then PutErr EBeforeFirst else
  match c_chain c with
  | [] => PutErr EBottom
  | _ =>
    if negb (chain_valid (c_chain c)) then PutErr EChainInvalid else
    let nxt := next_of (s_first s) (s_latest s) in
    if nxt <? c_inst c then PutErr EGap else
    if c_inst c <? nxt then PutStale else
    match (match c_delta c with [] => inr (s_pt s) | _ => apply_diff (s_pt s) (c_delta c) end) with
    | inl e => PutErr (EDelta e)
    | inr npt =>
        if negb (cid_token toks npt =? c_pt c) then PutErr ECid else
        if Nat.eqb (length npt) 0 then PutErr EEmptyTable else
        PutOk ([WCert (c_inst c) c] ++
               (if Z.rem (c_inst c + 1) (s_freq s) =? 0 then [WPower (c_inst c + 1) npt] else []) ++
               [WLatest (c_inst c)]) npt
    end
  end.

Definition put (toks : list (table * Z)) (s : store) (c : cert) : store * option serr :=
  match put_plan toks s c with
  | PutErr e => (s, Some e)
  | PutStale => (s, None)
  | PutOk ws npt => (mkS (apply_writes (s_ds s) ws) (s_first s) (s_freq s) (Some c) npt, None)
  end.

Definition get (s : store) (i : Z) : serr + cert :=
  match d_cert (s_ds s) i with Some c => inr c | None => inl ENotFound end.
Definition store_range (s : store) (a b : Z) := get_range (s_ds s) a b.
Definition store_power (s : store) (i : Z) := get_power_table (s_ds s) (s_first s) (s_freq s) (s_latest s) (s_pt s) i.

(* DeleteAll: tombstone first, then everything (in datastore query order), then the tombstone *)
Definition delete_all_first_write : write := WTomb.
Definition delete_all (d : dstore) : dstore := continue_delete (apply_write d WTomb).

(* subscribers: Store/Subscribers.v *)

(* ---- snapshots (certstore/snapshot.go) at block granularity ---- *)
Record snapshot := mkSnap { sn_first : Z; sn_latest : Z; sn_init : table; sn_certs : list cert }.

Definition export (s : store) (upto : Z) : serr + snapshot :=
  match get_power_table (s_ds s) (s_first s) (s_freq s) (s_latest s) (s_pt s) (s_first s) with
  | inl e => inl e
  | inr init =>
      let n := Z.to_nat (upto - s_first s + 1) in
      let cs := range_certs (s_ds s) (s_first s) n in
      if (length cs <? n)%nat then inl ENotFound else inr (mkSnap (s_first s) upto init cs)
  end.

Inductive ierr := IManifestFirst | IManifestTable | IStore (e : serr) | IMissing | ISurplus | IDelta (e : derr)
                | IPowerCid | INoCert | ILatestMismatch.

(* manifest = (initial instance, optional initial power table cid token) *)
Fixpoint import_loop (toks : list (table * Z)) (freq : Z) (d : dstore) (i latest : Z) (m : table) (prev_cid : option Z)
   (cs : list cert) (last : option cert) : ierr + (dstore * table * option cert) :=
  match cs with
  | [] => inr (d, m, last)
  | c :: rest =>
      if negb (i =? c_inst c) then inl IMissing else
      if latest <? i then inl ISurplus else
      let d := apply_write d (WCert (c_inst c) c) in
      match apply_deltas m None (c_delta c) with
      | inl e => inl (IDelta e)
      | inr m' =>
          (* every certificate's committed table is checked: recomputed when the delta is non-empty or at a
             checkpoint, otherwise it must equal the previously committed one *)
          let checkpoint := Z.rem (c_inst c + 1) freq =? 0 in
          let recompute := checkpoint || negb (Nat.eqb (length (c_delta c)) 0) || (match prev_cid with None => true | Some _ => false end) in
          if recompute && negb (cid_token toks (canon m') =? c_pt c) then inl IPowerCid else
          if negb recompute && negb (match prev_cid with Some p => p =? c_pt c | None => true end) then inl IPowerCid else
          let d := if checkpoint then apply_write d (WPower (c_inst c + 1) (canon m')) else d in
          import_loop toks freq d (i + 1) latest m' (Some (c_pt c)) rest (Some c)
      end
  end.

Definition import_snapshot (toks : list (table * Z)) (freq : Z) (d : dstore) (mf : option (Z * option Z)) (sn : snapshot)
  : ierr + dstore :=
  match (match mf with
         | Some (mfirst, mpt) =>
             if negb (mfirst =? sn_first sn) then Some IManifestFirst else
             match mpt with Some p => if negb (cid_token toks (sn_init sn) =? p) then Some IManifestTable else None | None => None end
         | None => None end) with
  | Some e => inl e
  | None =>
      match open_or_create freq d (sn_first sn) (sn_init sn) with
      | inl e => inl (IStore e)
      | inr s =>
          match import_loop toks freq (s_ds s) (sn_first sn) (sn_latest sn) (sn_init sn) None (sn_certs sn) None with
          | inl e => inl e
          | inr (d', m, last) =>
              match last with
              | None => inl INoCert
              | Some lc =>
                  if negb (c_inst lc =? sn_latest sn) then inl ILatestMismatch else
                  if negb (cid_token toks (canon m) =? c_pt lc) then inl IPowerCid else
                  inr (apply_write d' (WLatest (sn_latest sn)))
              end
          end
      end
  end.

Definition serr_code (e : serr) : Z :=
  match e with ELatestCertMissing => 1 | ENotInitialized => 2 | EWrongFirst => 3 | EWrongTable => 4 | EAlreadyInit => 5
  | EEmptyInitial => 6 | EBeforeFirst => 7 | EBottom => 8 | EChainInvalid => 9 | EGap => 10 | EDelta d => 20 + derr_code d
  | ECid => 11 | EEmptyTable => 12 | ENotFound => 13 | ERangeOrder => 14 | EFuture => 15 | EPowerMissing => 16 end.
Definition ierr_code (e : ierr) : Z :=
  match e with IManifestFirst => 1 | IManifestTable => 2 | IStore s => 100 + serr_code s | IMissing => 3 | ISurplus => 4
  | IDelta d => 20 + derr_code d | IPowerCid => 5 | INoCert => 6 | ILatestMismatch => 7 end.
