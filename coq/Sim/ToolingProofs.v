From Coq Require Import ZArith List Bool Lia.
From F3 Require Import GoInt QuorumGen QuorumProofs ToolingGen Table Validate Tooling.
Import ListNotations.
Open Scope Z_scope.

(* ---- the certificate-chain generator derives committees by the node's rule ---- *)
Theorem certchain_lookback_eq_node instance lookback initial :
  0 <= initial -> 0 <= lookback -> initial + lookback <= instance < two64 ->
  certchain_uses_cert instance lookback initial = true /\
  node_bootstrap instance lookback initial = false /\
  (* certificates are stored from the initial instance on, so index k holds instance initial + k *)
  initial + certchain_lookback_index instance lookback initial = node_lookback_instance instance lookback initial.
Proof.
  intros Hi Hl Hr. unfold certchain_uses_cert, node_bootstrap, certchain_lookback_index, node_lookback_instance.
  unfold add_u64, sub_u64, two64 in *.
  rewrite (wrap_u64_id (initial + lookback)) by (unfold in_u64, two64; lia).
  rewrite (wrap_u64_id (instance - lookback)) by (unfold in_u64, two64; lia).
  rewrite (wrap_u64_id (instance - lookback - initial)) by (unfold in_u64, two64; lia).
  assert (Z.ltb instance (initial + lookback) = false) as -> by (apply Z.ltb_ge; lia).
  cbn. repeat split; auto. lia.
Qed.

Theorem certchain_bootstrap_eq_node instance lookback initial :
  0 <= initial -> 0 <= lookback -> initial + lookback < two64 -> 0 <= instance < initial + lookback ->
  certchain_uses_cert instance lookback initial = false /\ node_bootstrap instance lookback initial = true.
Proof.
  intros Hi Hl Hr Hb. unfold certchain_uses_cert, node_bootstrap, add_u64.
  rewrite (wrap_u64_id (initial + lookback)) by (unfold in_u64, two64 in *; lia).
  assert (Z.ltb instance (initial + lookback) = true) as -> by (apply Z.ltb_lt; lia). cbn. auto.
Qed.

(* ---- the simulator's oracle: a decision it does not flag is a genuine strong-quorum DECIDE ---- *)
Lemma sum_scaled_spec scaled : forall signers acc pw, sum_scaled scaled signers acc = Some pw ->
  Forall (fun i => i < Z.of_nat (length scaled)) signers /\
  pw = acc + sumZ (map (fun i => nth (Z.to_nat i) scaled 0) signers).
Proof.
  induction signers as [|i r IH]; intros acc pw H; cbn [sum_scaled] in H.
  - inversion H; subst. split; [constructor|]. cbn. lia.
  - destruct (Z.of_nat (length scaled) <=? i) eqn:E; [discriminate|]. apply Z.leb_gt in E.
    apply IH in H. destruct H as [F P]. split; [constructor; auto|]. cbn [map]. unfold sumZ in *. cbn [fold_right]. lia.
Qed.

Theorem oracle_sound inst base_head scaled total keys net d : 0 <= total < two62 ->
  validate_decision inst base_head scaled total keys net d = None ->
  j_inst d = inst /\ j_phase d = 5 /\ j_round d = 0 /\
  (exists b rest, j_chain d = b :: rest /\ tipset_eqb base_head b = true) /\
  Forall (fun i => i < Z.of_nat (length scaled)) (j_signers d) /\
  3 * sumZ (map (fun i => nth (Z.to_nat i) scaled 0) (j_signers d)) >= 2 * total /\
  agg_ok keys net d = true.
Proof.
  intros Ht. unfold validate_decision.
  destruct (inst =? j_inst d) eqn:E1; cbn [negb]; [|discriminate]. apply Z.eqb_eq in E1.
  destruct (j_phase d =? 5) eqn:E2; cbn [negb]; [|discriminate]. apply Z.eqb_eq in E2.
  destruct (j_round d =? 0) eqn:E3; cbn [negb]; [|discriminate]. apply Z.eqb_eq in E3.
  destruct (j_chain d) as [|b rest] eqn:E4; [discriminate|].
  destruct (tipset_eqb base_head b) eqn:E5; cbn [negb]; [|discriminate].
  destruct (sum_scaled scaled (j_signers d) 0) as [pw|] eqn:E6; [|discriminate].
  apply sum_scaled_spec in E6. destruct E6 as [F P].
  unfold sim_lacks_quorum. destruct (isStrongQuorum pw total) eqn:Q; cbn [negb]; [|discriminate].
  destruct (agg_ok keys net d) eqn:A; [|discriminate]. intros _.
  apply strong_iff in Q; auto. subst pw.
  repeat split; auto. exists b, rest. auto.
Qed.

(* the negative form used by the property: anything wrong is reported *)
Theorem oracle_rejects_bad inst base_head scaled total keys net d : 0 <= total < two62 ->
  (j_inst d <> inst \/ j_phase d <> 5 \/ j_round d <> 0 \/ j_chain d = [] \/
   (exists b rest, j_chain d = b :: rest /\ tipset_eqb base_head b = false) \/
   (exists pw, sum_scaled scaled (j_signers d) 0 = Some pw /\ 3 * pw < 2 * total) \/
   agg_ok keys net d = false) ->
  validate_decision inst base_head scaled total keys net d <> None.
Proof.
  intros Ht Hbad Hnone. pose proof (oracle_sound _ _ _ _ _ _ _ Ht Hnone) as (A & B & C & (b & rest & D1 & D2) & E & F & G).
  destruct Hbad as [H|[H|[H|[H|[H|[H|H]]]]]].
  - congruence.
  - congruence.
  - congruence.
  - congruence.
  - destruct H as (b' & r' & H1 & H2). rewrite H1 in D1. inversion D1; subst. congruence.
  - destruct H as (pw & H1 & H2). apply sum_scaled_spec in H1. destruct H1 as [_ H1]. lia.
  - congruence.
Qed.

Lemma rc_some dec : forall l st res, reached_consensus l dec (Some st) = Some res ->
  res = Some st /\ forall p, In p l -> exists c, dec p = Some c /\ chain_eqb c st = true.
Proof.
  induction l as [|x l IH]; intros st res H; cbn [reached_consensus] in H.
  - inversion H; subst. split; auto. intros p [].
  - destruct (dec x) as [c|] eqn:Dx; [|discriminate]. destruct (chain_eqb c st) eqn:E; [|discriminate].
    apply IH in H. destruct H as [H1 H2]. split; auto. intros p [<-|Hp]; [exists c; auto | auto].
Qed.

(* agreement oracle: success means every (non-excluded) member decided and all decisions equal the first *)
Theorem reached_consensus_sound members dec res : members <> [] ->
  reached_consensus members dec None = Some res ->
  exists c0, res = Some c0 /\ forall p, In p members -> exists c, dec p = Some c /\ chain_eqb c c0 = true.
Proof.
  destruct members as [|q r]; [contradiction|]. intros _ H. cbn [reached_consensus] in H.
  destruct (dec q) as [c|] eqn:Dq; [|discriminate]. destruct (chain_eqb c c) eqn:E; [|discriminate].
  apply rc_some in H. destruct H as [H1 H2]. exists c. split; auto.
  intros p [<-|Hp]; [exists c; auto | auto].
Qed.

(* a missing or differing decision makes the oracle fail *)
Theorem reached_consensus_detects members dec p : In p members ->
  (dec p = None \/ exists q c1 c2, In q members /\ dec p = Some c1 /\ dec q = Some c2 /\ chain_eqb c1 c2 = false /\ chain_eqb c2 c1 = false) ->
  (forall c, chain_eqb c c = true) -> (forall a b c, chain_eqb a c = true -> chain_eqb b c = true -> chain_eqb a b = true) ->
  reached_consensus members dec None = None.
Proof.
  intros Hp Hbad Hrefl Htr. destruct (reached_consensus members dec None) as [res|] eqn:R; auto. exfalso.
  assert (Hne : members <> []) by (intros ->; destruct Hp).
  destruct (reached_consensus_sound members dec res Hne R) as [c0 [_ Hall]].
  destruct Hbad as [Hn|[q [c1 [c2 [Hq [D1 [D2 [N1 N2]]]]]]]].
  - destruct (Hall p Hp) as [c [Hc _]]. congruence.
  - destruct (Hall p Hp) as [a [Ha Ea]]. destruct (Hall q Hq) as [b [Hb Eb]].
    rewrite D1 in Ha. rewrite D2 in Hb. inversion Ha; inversion Hb; subst. rewrite (Htr _ _ _ Ea Eb) in N1. discriminate.
Qed.
