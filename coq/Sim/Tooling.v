(* C19 model: the simulator's decision oracle (sim/ec.go validateDecision / HasReachedConsensus) and the
   certchain generator's committee look-back.  The look-back arithmetic and the oracle's quorum test are
   GENERATED (Gen/ToolingGen.v); the rest mirrors the code by hand.  No proofs here. *)
From Coq Require Import ZArith List Bool.
From F3 Require Import GoInt QuorumGen ToolingGen Table Validate.
Import ListNotations.
Open Scope Z_scope.

Record decision := mkDec { j_inst : Z; j_round : Z; j_phase : Z; j_chain : chain; j_commit : Z; j_pt : Z;
                           j_signers : list Z; j_sig : option sigdesc }.

Inductive oerr := OInstance | OPhase | ORound | OEmpty | OBase | OSignerRange | OQuorum | OSig.

Fixpoint sum_scaled (scaled : list Z) (signers : list Z) (acc : Z) : option Z :=
  match signers with
  | [] => Some acc
  | i :: r => if Z.of_nat (length scaled) <=? i then None else sum_scaled scaled r (acc + nth (Z.to_nat i) scaled 0)
  end.

(* the aggregate verifies iff it was produced by exactly these signer indices/keys over exactly this payload *)
Definition agg_ok (keys : list Z) (net : Z) (d : decision) : bool :=
  match j_sig d with
  | None => false
  | Some s =>
      list_eqbZ (s_keys s) (map (fun i => nth (Z.to_nat i) keys 0) (j_signers d)) &&
      list_eqbZ (s_signers s) (j_signers d) && (s_net s =? net) && (s_inst s =? j_inst d) &&
      (s_round s =? j_round d) && (s_phase s =? j_phase d) && (s_commit s =? j_commit d) && (s_pt s =? j_pt d) &&
      chain_eqb (s_chain s) (j_chain d)
  end.

(* ECInstance.validateDecision; base_head = head of the instance's base chain; scaled/total/keys = its power table *)
Definition validate_decision (inst : Z) (base_head : tipset) (scaled : list Z) (total : Z) (keys : list Z) (net : Z)
  (d : decision) : option oerr :=
  if negb (inst =? j_inst d) then Some OInstance else
  if negb (j_phase d =? 5) then Some OPhase else
  if negb (j_round d =? 0) then Some ORound else
  match j_chain d with
  | [] => Some OEmpty
  | b :: _ =>
      if negb (tipset_eqb base_head b) then Some OBase else
      match sum_scaled scaled (j_signers d) 0 with
      | None => Some OSignerRange
      | Some pw =>
          if sim_lacks_quorum pw total then Some OQuorum else
          if agg_ok keys net d then None else Some OSig
      end
  end.

(* HasReachedConsensus over the (non-excluded) members, in power-table order *)
Fixpoint reached_consensus (members : list Z) (dec : Z -> option chain) (cur : option chain) : option (option chain) :=
  match members with
  | [] => Some cur
  | p :: r =>
      match dec p with
      | None => None
      | Some c =>
          let cur' := match cur with None => Some c | Some _ => cur end in
          match cur' with
          | Some c0 => if chain_eqb c c0 then reached_consensus r dec cur' else None
          | None => None
          end
      end
  end.

Definition oerr_code (e : oerr) : Z :=
  match e with OInstance => 1 | OPhase => 2 | ORound => 3 | OEmpty => 4 | OBase => 5 | OSignerRange => 6 | OQuorum => 7 | OSig => 8 end.
