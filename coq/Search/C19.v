(* model-side failing-input search for C19 (only run when an obligation broke) *)
From Coq Require Import ZArith List Bool.
From F3 Require Import GoInt QuorumGen ToolingGen.
Import ListNotations.
Open Scope Z_scope.
Definition triples := flat_map (fun i => flat_map (fun l => map (fun init => (i, l, init)) [0; 3; 10]) [0; 1; 2; 5]) [0; 1; 2; 5; 9; 12; 17; 30].
Definition witness_lookback := Eval vm_compute in
  filter (fun '(i, l, init) => andb (init + l <=? i)
     (negb (Z.eqb (init + certchain_lookback_index i l init) (node_lookback_instance i l init)))) triples.
Definition witness_guard := Eval vm_compute in
  filter (fun '(i, l, init) => Bool.eqb (certchain_uses_cert i l init) (node_bootstrap i l init)) triples.
Definition pw := flat_map (fun t => map (fun p => (p, t)) [0; 1; t / 3; (2 * t) / 3; (2 * t + 2) / 3; t]) [3; 10; 65535].
Definition witness_quorum := Eval vm_compute in
  filter (fun '(p, t) => negb (Bool.eqb (sim_lacks_quorum p t) (3 * p <? 2 * t))) pw.
Print witness_lookback. Print witness_guard. Print witness_quorum.
