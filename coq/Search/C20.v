(* Model-side failing-input search for C20 (run by bin/check only when an obligation broke).
   Evaluates the property's closed forms on the GENERATED definitions over a grid. *)
From Coq Require Import ZArith List Bool.
From F3 Require Import GoInt PredictorGen.
Import ListNotations.
Open Scope Z_scope.

Definition zs : list Z := [-5; 0; 1; 7; 1000; 1000000; 30000000000; 120000000000].
Definition pairs := flat_map (fun a => map (fun b => (a, b)) zs) zs.

Definition witness_delay := Eval vm_compute in
  filter (fun '(u, o) => andb (0 <=? o) (negb (Z.eqb (subscriber_delay u o) (Z.max u 0 + Z.min o (Z.max u 0 / 2))))) pairs.
Definition witness_progress := Eval vm_compute in
  filter (fun '(s, n) => andb (andb (0 <=? s) (s <=? n))
     (negb (andb (Z.eqb (subscriber_progress_1 s n) (n - s)) (Z.eqb (subscriber_progress_2 s n) (n - s))))) pairs.
Definition witness_catchup := Eval vm_compute in
  filter (fun '(l, n) => andb (andb (0 <=? n) (n <=? l + 1)) (negb (Z.eqb (catchup_progress l n) (l + 1 - n)))) pairs.

Definition preds := flat_map (fun mn => flat_map (fun k => map (fun pr => (newPredictor mn (mn * k) (mn * 100), pr)) [0; 1; 2; 3; 50]) [1; 7; 100]) [1000; 1000000000].
Definition iter (p : predictor) (pr : Z) (n : nat) := fst (fold_left (fun '(p, _) _ => predictor_update p pr) (repeat tt n) (p, 0)).
Definition witness_steady := Eval vm_compute in
  filter (fun '(p, _) => negb (Z.eqb (predictor_interval (iter p 1 5)) (predictor_interval p))) preds.
Definition witness_clamp := Eval vm_compute in
  filter (fun '(p, pr) => let q := iter p pr 8 in
     negb (andb (predictor_minInterval p <=? predictor_interval q) (predictor_interval q <=? predictor_maxInterval p))) preds.
Print witness_delay. Print witness_progress. Print witness_catchup. Print witness_steady. Print witness_clamp.
