(* C03: Every reported decision is a self-contained, verifiable finality proof.
   Models: Gpbft/Instance.v (Layer N) for the participant, Certs/Validate.v + Power/Table.v (the C04 models) for
   certificate validation; both tied to the code by correspondence (harness c03.go / c07.go / c04.go). *)
From Coq Require Import ZArith List Bool.
From F3 Require Import GoInt QuorumGen QuorumProofs Table DiffProofs Validate Instance InstanceOrder InstanceDecide DecisionCert.
Import ListNotations.
Open Scope Z_scope.

(* whenever the instance reports a decision (after ANY sequence of deliveries and timers whose DECIDE messages come from
   members with non-zero scaled power and carry round 0): round 0 of DECIDE, distinct signers with non-zero power that
   each sent a DECIDE for exactly that value, together a strong quorum *)
Theorem C03_decision_is_proof : forall c input now evs j,
  Forall (wfd c) evs ->
  let f := snd (run_hist c (new_instance input now) evs) in
  i_term f = Some j ->
  j_round j = 0 /\ j_phase j = DECIDE /\ NoDup (j_signers j) /\
  (forall x, In x (j_signers j) -> 0 < power_of c x) /\
  isStrongQuorum (sum_power c (j_signers j)) (c_total c) = true /\
  exists s, sup_find (q_support (i_decision f)) (j_value j) = Some s /\ incl (j_signers j) (s_signers s).
Proof. exact decision_is_proof. Qed.
Print Assumptions C03_decision_is_proof.

(* turned into a certificate with the correct power-table delta (make_diff), it is accepted by certificate validation
   on any node holding the same power table t *)
Theorem C03_decision_cert_accepted : forall cfg t,
  c_powers cfg = scaled_list (map e_power t) -> c_total cfg = sumZ (scaled_list (map e_power t)) ->
  forall toks net s b suffix commit j t',
  v_prev s = t -> wf t -> wf t' ->
  (forall x, In x (j_signers j) -> 0 < power_of cfg x) ->
  isStrongQuorum (sum_power cfg (j_signers j)) (c_total cfg) = true ->
  chain_valid (b :: suffix) = true ->
  (match v_base s with Some bs => tipset_eqb bs b = true | None => True end) ->
  let c := cert_of t (v_next s) net (b :: suffix) commit (cid_token toks (canon t')) j (make_diff t t') in
  validate_one toks net s c =
    inr (mkV (v_next s + 1) (v_chain s ++ suffix) (canon t') (Some (canon t')) (Some (last (b :: suffix) b))).
Proof. exact decision_cert_accepted. Qed.
Print Assumptions C03_decision_cert_accepted.

(* the aggregate of such a certificate verifies: the signature part on its own *)
Theorem C03_decision_sig_verifies : forall cfg t,
  c_powers cfg = scaled_list (map e_power t) -> c_total cfg = sumZ (scaled_list (map e_power t)) ->
  forall inst net ch commit pt j dl,
  (forall x, In x (j_signers j) -> 0 < power_of cfg x) ->
  isStrongQuorum (sum_power cfg (j_signers j)) (c_total cfg) = true ->
  verify_sig t net (cert_of t inst net ch commit pt j dl) = None.
Proof. exact decision_sig_verifies. Qed.
Print Assumptions C03_decision_sig_verifies.

(* non-vacuity: the concrete deciding run of C07 reports a decision satisfying the hypotheses *)
Definition ex_cfg := mkCfg [10; 30; 30] 70 4 2 2000 [2000; 3000; 4500] [700; 900; 1100].
Definition ex_events : list event :=
  [ EvStart 0;
    EvDeliver 10 (mkM 1 0 QUALITY [1; 2; 3] 0 None) None; EvDeliver 11 (mkM 2 0 QUALITY [1; 2] 0 None) None;
    EvAlarm 2000 None;
    EvDeliver 2010 (mkM 1 0 PREPARE [1; 2] 0 None) None; EvDeliver 2011 (mkM 2 0 PREPARE [1; 2] 0 None) None;
    EvDeliver 2020 (mkM 1 0 COMMIT [1; 2] 0 (Some (mkJ 0 PREPARE [1; 2] [1; 2]))) None;
    EvDeliver 2021 (mkM 2 0 COMMIT [1; 2] 0 (Some (mkJ 0 PREPARE [1; 2] [1; 2]))) None;
    EvDeliver 2030 (mkM 1 0 DECIDE [1; 2] 0 (Some (mkJ 0 COMMIT [1; 2] [1; 2]))) None;
    EvDeliver 2031 (mkM 2 0 DECIDE [1; 2] 0 (Some (mkJ 0 COMMIT [1; 2] [1; 2]))) None ].
Example C03_nonvacuous :
  Forall (wfd ex_cfg) ex_events /\
  i_term (snd (run_hist ex_cfg (new_instance [1; 2; 3] 0) ex_events)) = Some (mkJ 0 DECIDE [1; 2] [1; 2]).
Proof.
  split; [|vm_compute; reflexivity].
  repeat constructor; cbn; try congruence; intros _; split; reflexivity.
Qed.

(* on networks of the instance model (RefineNet.v): whatever an honest member reports as decided is a non-bottom value for which a
   strong quorum exists whose honest members really cast DECIDE for it (Spec.decides on the global vote history) -- the reported
   justification is not just well-formed, it is backed by votes *)
From F3 Require InstanceNoPanic Refine RefineNet.
From F3 Require Spec.
Theorem C03_network_decision_backed : forall (c : Instance.config) (honest : nat -> bool) (input : nat -> Instance.chain),
  InstanceNoPanic.committee_wf c -> Instance.c_total c <= 65535 -> (forall k, honest k = true -> input k <> []) ->
  3 * Spec.byz_power (Refine.power c) (Refine.committee c) honest < Spec.total (Refine.power c) (Refine.committee c) ->
  forall acts k j, RefineNet.all_ok c honest (RefineNet.net0 input) acts -> RefineNet.member c honest k ->
    Instance.i_term (RefineNet.n_inst (RefineNet.nrun c (RefineNet.net0 input) acts) k) = Some j ->
    Instance.j_value j <> [] /\
    Spec.decides (Refine.power c) (Refine.committee c) honest (RefineNet.n_votes (RefineNet.nrun c (RefineNet.net0 input) acts)) (Instance.j_value j).
Proof. exact RefineNet.decided_value. Qed.
Print Assumptions C03_network_decision_backed.
