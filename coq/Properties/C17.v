(* C17 — Snapshot export/import reproduces the store; malformed snapshots are rejected. *)
From Coq Require Import ZArith List Bool.
From F3 Require Import GoInt ListX Table Validate CertStore StoreProofs.
Import ListNotations.
Open Scope Z_scope.

Theorem c17_export_ok : forall toks s tabs, inv toks s tabs -> forall upto, s_first s <= upto < nxt s ->
  export s upto = inr (mkSnap (s_first s) upto (tabs (s_first s))
                         (range_certs (s_ds s) (s_first s) (Z.to_nat (upto - s_first s + 1)))).
Proof. exact export_ok. Qed.
Print Assumptions c17_export_ok.

Theorem c17_import_export_id : forall toks s tabs, inv toks s tabs -> forall upto, s_first s <= upto < nxt s ->
  exists sn d' s',
    export s upto = inr sn /\
    import_snapshot toks (s_freq s) ds_empty None sn = inr d' /\
    open_store (s_freq s) d' = inr s' /\ inv toks s' tabs /\
    s_first s' = s_first s /\ nxt s' = upto + 1 /\
    (forall i, s_first s <= i <= upto -> get s' i = get s i) /\
    (forall i, s_first s <= i <= upto + 1 -> store_power s' i = store_power s i).
Proof. exact import_export_id. Qed.
Print Assumptions c17_import_export_id.

Theorem c17_import_rejects_gap_or_reorder : forall toks freq d mf sn,
  map c_inst (sn_certs sn) <> zseq (sn_first sn) (length (sn_certs sn)) ->
  exists e, import_snapshot toks freq d mf sn = inl e.
Proof. exact import_rejects_gap_or_reorder. Qed.
Print Assumptions c17_import_rejects_gap_or_reorder.

Theorem c17_import_accepts_sound : forall toks freq d mf sn d',
  import_snapshot toks freq d mf sn = inr d' ->
  sn_certs sn <> [] /\ map c_inst (sn_certs sn) = zseq (sn_first sn) (length (sn_certs sn)) /\
  sn_first sn + Z.of_nat (length (sn_certs sn)) - 1 = sn_latest sn /\
  exists m, apply_many (sn_init sn) (map c_delta (sn_certs sn)) = inr m /\
            cid_token toks (canon m) = c_pt (List.last (sn_certs sn) (mkCert 0 [] 0 0 [] None [])).
Proof. exact import_accepts_sound. Qed.
Print Assumptions c17_import_accepts_sound.

Theorem c17_import_accepts_only_reproducing_deltas : forall toks freq d mf sn d',
  import_snapshot toks freq d mf sn = inr d' ->
  forall k c, nth_error (sn_certs sn) k = Some c ->
    exists mk, apply_many (sn_init sn) (map c_delta (firstn (S k) (sn_certs sn))) = inr mk /\
               cid_token toks (canon mk) = c_pt c.
Proof. exact import_accepts_only_reproducing_deltas. Qed.
Print Assumptions c17_import_accepts_only_reproducing_deltas.
