(* C06: Termination once the network is timely.  PARTIAL by nature: the global statement (all honest participants decide
   within a bounded number of rounds after stabilisation) quantifies over timed multi-node executions and is monitored
   on real participants (harness c06.go); what is proved here is the node-level part on Layer N (Gpbft/Instance.v):
   no dead phase, the discipline of the single alarm slot, and monotone progress. *)
From Coq Require Import ZArith List Bool.
From F3 Require Import GoInt QuorumGen Instance InstanceOrder InstanceVotes InstanceTimers.
From F3 Require InstanceDecide InstanceNoPanic Refine RefineNet HappyNet HappyLive HappyTimed.
Import ListNotations.
Open Scope Z_scope.

(* no dead phase: once the phase timeout has elapsed and the step's votes of a strong quorum are in, the step is left *)
Theorem C06_quality_progress : forall c i, phase_timeout_elapsed i = true -> i_phase (try_quality c i) = PREPARE.
Proof. exact quality_progress. Qed.
Print Assumptions C06_quality_progress.
Theorem C06_converge_progress : forall c i w,
  phase_timeout_elapsed i = true ->
  c_find_best (r_conv (get_round i (i_round i))) (fun _ => true) = Some w -> is_candidate i (cv_chain w) = true ->
  i_phase (try_converge c i) = PREPARE.
Proof. exact converge_progress. Qed.
Print Assumptions C06_converge_progress.
Theorem C06_prepare_progress : forall c i,
  phase_timeout_elapsed i = true -> q_from_strong c (r_prep (get_round i (i_round i))) = true ->
  i_phase (try_prepare c i) = COMMIT.
Proof. exact prepare_progress. Qed.
Print Assumptions C06_prepare_progress.
Theorem C06_commit_progress : forall c i sway,
  i_phase i = COMMIT -> i_err i = None ->
  phase_timeout_elapsed i = true -> q_from_strong c (r_comm (get_round i (i_round i))) = true ->
  let i' := try_commit c i (i_round i) sway in
  i_err i' <> None \/ i_phase i' = DECIDE \/ (i_round i' = i_round i + 1 /\ i_phase i' = CONVERGE).
Proof. exact commit_progress. Qed.
Print Assumptions C06_commit_progress.
Theorem C06_decide_progress : forall c i v,
  i_err i = None -> q_find_sq_value (i_decision i) = FsvSome v ->
  let i' := try_decide c i in i_err i' <> None \/ i_phase i' = TERMINATED.
Proof. exact decide_progress. Qed.
Print Assumptions C06_decide_progress.

(* the alarm slot after tryRebroadcast: an alarm; or a deadline in the future and no alarm; or nothing (phase alarm pending) *)
Theorem C06_rebroadcast_alarm : forall c i,
  let i' := try_rebroadcast c i in
  (exists t, hd_error (i_out i') = Some (OAlarm t)) \/
  (i' = i /\ exists rt, i_rtimeout i = Some rt /\ i_now i < rt) \/
  (i_out i' = i_out i /\ i_rtimeout i' = None /\ phase_timeout_elapsed i = false) \/
  (i' = i /\ i_rtimeout i = None /\ i_rattempts i <> 0).
Proof. exact try_rebroadcast_cases. Qed.
Print Assumptions C06_rebroadcast_alarm.

(* "an alarm is always pending for an undecided participant" does NOT hold: a reachable state with no alarm set *)
Theorem C06_alarm_pending_refuted :
  let f := snd (run_hist lw_cfg (new_instance [1; 2] 0) lw_events) in
  i_phase f = PREPARE /\ i_round f = 1 /\ i_err f = None /\ i_out f = [] /\ i_rtimeout f = Some 6100 /\ i_ptimeout f = 6011 /\
  alarms (fst (run_hist lw_cfg (new_instance [1; 2] 0) lw_events)) = [2000; 3011; 6011; 5200; 6011].
Proof. exact alarm_pending_refuted. Qed.
Print Assumptions C06_alarm_pending_refuted.

(* progress is monotone along every run (shared with C07) *)
Theorem C06_progress_monotone : forall c i e, Inv i -> wfe e -> progress_le i (step c i e).
Proof. exact progress_monotone. Qed.
Print Assumptions C06_progress_monotone.

(* the synchronous, fault-free corner of the global statement, over the NETWORK of instance models (RefineNet.v), proved
   for every committee and every schedule: honest members hold a strong quorum and propose the same chain, no faulty vote,
   every delivery within the receiver's phase timeout (so no timer is needed).  Once every vote cast has reached every
   honest member, every honest member has terminated -- in round 0 (C02: c02_happy_network_round0), with that chain. *)
Theorem C06_timely_faultfree_terminates : forall c honest input v,
  InstanceNoPanic.committee_wf c -> c_total c <= 65535 -> 0 <= c_rebro_round c -> (2 <= length v)%nat ->
  (forall k, honest k = true -> input k = v) ->
  forall hs, (forall k, RefineNet.member c honest k <-> In k hs) -> NoDup hs ->
  isStrongQuorum (InstanceDecide.sum_power c hs) (c_total c) = true ->
  forall acts, RefineNet.all_ok c honest (RefineNet.net0 input) acts -> HappyNet.all_happy c (RefineNet.net0 input) acts ->
  let n := RefineNet.nrun c (RefineNet.net0 input) acts in
  (forall k, RefineNet.member c honest k -> i_phase (RefineNet.n_inst n k) <> INITIAL) ->
  (forall k s p, RefineNet.member c honest k -> RefineNet.member c honest s -> HappyLive.four p ->
     In (Refine.voteS s 0 p v) (RefineNet.n_votes n) -> HappyLive.delivered acts k s p) ->
  forall k, RefineNet.member c honest k ->
    i_phase (RefineNet.n_inst n k) = TERMINATED /\ exists j, i_term (RefineNet.n_inst n k) = Some j /\ j_value j = v.
Proof. exact HappyLive.happy_all_decide. Qed.
Print Assumptions C06_timely_faultfree_terminates.

(* the same with synchrony as a time bound: member k starts at st k and every delivery to k happens at a clock reading in
   [st k, st k + B), B = min(QUALITY timeout, round-0 phase timeout) *)
Theorem C06_timely_faultfree_terminates_timed : forall c honest input v,
  InstanceNoPanic.committee_wf c -> c_total c <= 65535 -> 0 <= c_rebro_round c -> (2 <= length v)%nat ->
  (forall k, honest k = true -> input k = v) ->
  forall (st : Z -> Z) hs, (forall k, RefineNet.member c honest k <-> In k hs) -> NoDup hs ->
  isStrongQuorum (InstanceDecide.sum_power c hs) (c_total c) = true ->
  forall acts, RefineNet.all_ok c honest (RefineNet.net0 input) acts -> HappyTimed.all_timed c st acts ->
  let n := RefineNet.nrun c (RefineNet.net0 input) acts in
  (forall k, RefineNet.member c honest k -> i_phase (RefineNet.n_inst n k) <> INITIAL) ->
  (forall k s p, RefineNet.member c honest k -> RefineNet.member c honest s -> HappyLive.four p ->
     In (Refine.voteS s 0 p v) (RefineNet.n_votes n) -> HappyLive.delivered acts k s p) ->
  forall k, RefineNet.member c honest k ->
    i_phase (RefineNet.n_inst n k) = TERMINATED /\ exists j, i_term (RefineNet.n_inst n k) = Some j /\ j_value j = v.
Proof. exact HappyTimed.timed_all_decide. Qed.
Print Assumptions C06_timely_faultfree_terminates_timed.
