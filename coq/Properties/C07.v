From Coq Require Import ZArith List Bool.
From F3 Require Import GoInt QuorumGen Instance.
Theorem placeholder_C07 : True. Proof. exact I. Qed.
Print Assumptions placeholder_C07.
