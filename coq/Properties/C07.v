(* C07: Honest participants follow protocol discipline in everything they emit.
   Model: Gpbft/Instance.v (Layer N), tied to gpbft.Participant by the event-trace correspondence (harness c07.go). *)
From Coq Require Import ZArith List Bool Lia.
From F3 Require Import GoInt QuorumGen Instance InstanceRun InstanceOrder InstanceVotes InstanceConverge InstanceDecide InstanceQuorum InstanceNoPanic InstanceJust QuorumProofs.
From F3 Require Validator ValidatorProofs ValidatorBridge Refine RefineNode RefineNet.
From F3 Require Spec.
Import ListNotations.
Open Scope Z_scope.

(* at most one message per (round, step), over every sequence of deliveries and timers *)
Theorem C07_one_message_per_slot : forall c input now evs,
  Forall wfe evs -> NoDup (slots (fst (run_hist c (new_instance input now) evs))).
Proof. exact one_message_per_slot. Qed.
Print Assumptions C07_one_message_per_slot.

(* (round, step) progress never moves backwards, in every reachable state *)
Theorem C07_progress_monotone : forall c i e, Inv i -> wfe e -> progress_le i (step c i e).
Proof. exact progress_monotone. Qed.
Print Assumptions C07_progress_monotone.
Theorem C07_reachable_Inv : forall c input now evs, Forall wfe evs -> Inv (snd (run_hist c (new_instance input now) evs)).
Proof. exact reachable_Inv. Qed.
Print Assumptions C07_reachable_Inv.

(* the candidate ("EC compatible") set only grows; the input is never replaced *)
Theorem C07_candidates_monotone : forall c i e, Inv i -> wfe e -> Fc i (step c i e).
Proof. exact candidates_monotone. Qed.
Print Assumptions C07_candidates_monotone.

(* round-0 PREPARE value = longest prefix of the input with a strong QUALITY quorum, else the base *)
Theorem C07_longest_prefix : forall q v,
  let p := q_longest_prefix q v in
  is_prefix p v /\
  ((2 <= length p)%nat -> q_has_sq q p = true) /\
  (forall p', is_prefix p' v -> (length p < length p')%nat -> (2 <= length p')%nat -> q_has_sq q p' = false) /\
  (v <> [] -> (1 <= length p)%nat).
Proof. exact q_longest_prefix_spec. Qed.
Print Assumptions C07_longest_prefix.
Theorem C07_try_quality : forall c i,
  let p := q_longest_prefix (i_quality i) (i_input i) in
  let i' := try_quality c i in
  if q_has_sq (i_quality i) (i_proposal i) || phase_timeout_elapsed i then
    i_out i' = OBroadcast (i_round i) PREPARE p None false :: OAlarm (i_now i + nthZ (c_timeouts c) (i_round i)) :: i_out i /\
    i_proposal i' = p /\ i_value i' = p /\ i_phase i' = PREPARE /\ i_round i' = i_round i /\
    (forall p', In p' (all_prefixes p) -> is_candidate i' p' = true)
  else i' = i.
Proof. exact try_quality_spec. Qed.
Print Assumptions C07_try_quality.
Theorem C07_skip_from_quality : forall c i round v j,
  i_phase i = QUALITY -> j_phase j = COMMIT -> In (firstn 1 (i_input i)) (i_cands i) ->
  let p := q_longest_prefix (i_quality i) (i_input i) in
  let i' := skip_to_round c i round v j in
  (i_proposal i' = p /\ is_candidate i' p = true) \/ i_err i' <> None.
Proof. exact skip_from_quality_spec. Qed.
Print Assumptions C07_skip_from_quality.

(* later rounds: the best-ticket CONVERGE value is adopted whenever it is a candidate *)
Theorem C07_converge_adopts_best : forall c i w,
  phase_timeout_elapsed i = true ->
  c_find_best (r_conv (get_round i (i_round i))) (fun _ => true) = Some w ->
  is_candidate i (cv_chain w) = true ->
  let i' := try_converge c i in
  i_proposal i' = cv_chain w /\ i_value i' = cv_chain w /\ i_phase i' = PREPARE /\
  i_out i' = OBroadcast (i_round i) PREPARE (cv_chain w) (Some (cv_just w)) false :: OAlarm (i_now i + nthZ (c_timeouts c) (i_round i)) :: i_out i.
Proof. exact try_converge_adopts_best. Qed.
Print Assumptions C07_converge_adopts_best.

(* COMMIT bottom only without a strong PREPARE quorum (or proof of one), and only once it is impossible or timed out *)
Theorem C07_commit_bottom : forall c i,
  i_phase i = PREPARE -> i_proposal i <> [] ->
  let i' := try_prepare c i in
  let prep := r_prep (get_round i (i_round i)) in
  i_phase i' = COMMIT -> i_value i' = [] ->
  q_has_sq prep (i_proposal i) = false /\
  (q_could_reach c prep (i_proposal i) false = false \/ (phase_timeout_elapsed i = true /\ q_from_strong c prep = true)).
Proof. exact try_prepare_commit_bottom. Qed.
Print Assumptions C07_commit_bottom.
Theorem C07_commit_justified : forall c i v0 v,
  i_value i = v0 :: v ->
  let i' := begin_commit c i in
  (exists j, hd_error (i_out i') = Some (OBroadcast (i_round i) COMMIT (v0 :: v) (Some j) false) /\ j_phase j = PREPARE) \/
  (i_out i' = OAlarm (i_now i + nthZ (c_timeouts c) (i_round i)) :: i_out i /\ i_err i' <> None).
Proof. exact begin_commit_justified. Qed.
Print Assumptions C07_commit_justified.

(* tryConverge never fails with "no values at CONVERGE", over EVERY sequence of deliveries and timers after the start: the
   participant's own CONVERGE value is always acceptable to itself (run-level invariant PInv; this is the invariant the
   repaired skipToRound-from-QUALITY defect violated) *)
Theorem C07_converge_never_fails : forall c input now evs,
  input <> [] -> Forall wfe evs ->
  i_err (snd (run_hist c (started c input now) evs)) <> Some ENoConvergeValue.
Proof. exact converge_never_fails. Qed.
Print Assumptions C07_converge_never_fails.

(* the explicit panics around quorum bookkeeping are unreachable: every PREPARE/COMMIT/DECIDE quorum state is built from
   q_empty by q_receive (one vote per sender), which maintains QS; on QS states no two values hold a strong quorum, a set
   hasStrongQuorum flag always yields signers, and tryDecide / beginDecide / tryPrepare->beginCommit do not panic.
   Hypotheses on the committee: 0 < total < 2^62, non-negative powers, distinct members' powers add up to at most the total *)
Definition committee_ok (c : config) : Prop :=
  0 < c_total c < two62 /\ (forall s, 0 <= power_of c s) /\ (forall l, NoDup l -> sum_power c l <= c_total c).
Theorem C07_QS_maintained : forall c, committee_ok c ->
  QS c q_empty /\ (forall q sender v, QS c q -> QS c (q_receive c q sender v)) /\ (forall q v j, QS c q -> QS c (q_receive_just q v j)).
Proof.
  intros c (H1 & H2 & H3). split; [apply QS_empty|split]; [intros; apply QS_receive; assumption|intros; apply QS_receive_just; assumption].
Qed.
Print Assumptions C07_QS_maintained.
Theorem C07_no_multiple_quorums : forall c, committee_ok c -> forall q, QS c q -> q_find_sq_value q <> FsvPanic.
Proof. intros c (H1 & H2 & H3) q. apply find_sq_value_no_panic; assumption. Qed.
Print Assumptions C07_no_multiple_quorums.
Theorem C07_quorum_always_found : forall c, committee_ok c -> forall q k, QS c q -> q_find_sq_for c q k <> FsqPanic.
Proof. intros c (H1 & H2 & H3) q k. apply find_sq_for_no_panic; assumption. Qed.
Print Assumptions C07_quorum_always_found.
Theorem C07_try_decide_no_panic : forall c, committee_ok c -> forall i,
  QS c (i_decision i) -> i_err i = None -> i_err (try_decide c i) = None.
Proof. intros c (H1 & H2 & H3) i. apply try_decide_no_panic; assumption. Qed.
Print Assumptions C07_try_decide_no_panic.
Theorem C07_begin_decide_no_panic : forall c, committee_ok c -> forall i round x v,
  QS c (r_comm (get_round i round)) -> q_find_sq_value (r_comm (get_round i round)) = FsvSome (x :: v) -> i_err i = None ->
  i_err (begin_decide c (set_pv i (i_proposal i) (x :: v)) round) = None.
Proof. intros c (H1 & H2 & H3) i round x v. apply begin_decide_no_panic; assumption. Qed.
Print Assumptions C07_begin_decide_no_panic.
Theorem C07_try_prepare_no_panic : forall c, committee_ok c -> forall i,
  QS c (r_prep (get_round i (i_round i))) -> i_err i = None ->
  i_err (try_prepare c i) <> Some PBeginCommit /\ i_err (try_prepare c i) <> Some PFindQuorum.
Proof. intros c (H1 & H2 & H3) i. apply try_prepare_no_panic; assumption. Qed.
Print Assumptions C07_try_prepare_no_panic.

(* run level: over EVERY event sequence (arbitrary deliveries, alarms, interleavings) of an instance whose committee is a
   real power table (non-negative scaled powers, ScaledTotal their sum, below 2^62), the instance never reports
   "multiple chains with strong quorum", "strong quorum exists but could not be found", a tryDecide / beginDecide without
   quorum, or a beginCommit without justification *)
Theorem C07_quorum_panics_unreachable : forall c input now evs e,
  committee_wf c -> Forall wfe evs ->
  i_err (snd (run_hist c (started c input now) evs)) = Some e ->
  e <> PMultiQuorum /\ e <> PFindQuorum /\ e <> PTryDecide /\ e <> PBeginDecide /\ e <> PBeginCommit.
Proof.
  intros c input now evs e Hwf Hw He. pose proof (quorum_panics_unreachable_wf c input now evs e Hwf Hw He) as H.
  repeat split; intros ->; apply H; exact I.
Qed.
Print Assumptions C07_quorum_panics_unreachable.
Theorem C07_committee_wf_ok : forall c, committee_wf c -> committee_ok c.
Proof. intros c H. apply committee_wf_ok. exact H. Qed.
Print Assumptions C07_committee_wf_ok.
(* the correspondence check evaluates cfg_wfb on the committee of every trace the real participant ran with *)
Theorem C07_checked_committee_wf : forall c, cfg_wfb c = true -> committee_wf c.
Proof. exact cfg_wfb_spec. Qed.
Print Assumptions C07_checked_committee_wf.
Example C07_committee_wf_nonvacuous : committee_wf (mkCfg [21845; 21845; 21844] 65534 5 3 2 [1; 2] [1]).
Proof. unfold committee_wf, two62; cbn. repeat split; try lia. repeat constructor; lia. Qed.

(* THE no-internal-error clause, at full strength on the model: for every committee that is a real power table, every
   input, every sequence of alarms and deliveries of messages that satisfy what validation guarantees (wfmb: round of the
   carried justification, CONVERGE never bottom, DECIDE at round 0; arbitrary senders, values, ranks, orders,
   duplicates and interleavings), the instance never records ANY internal error or panic *)
Theorem C07_no_internal_error : forall c input now evs,
  committee_wf c -> Forall (fun e => ev_okb e = true) evs ->
  i_err (snd (run_hist c (started c input now) evs)) = None.
Proof. exact no_internal_error_wf. Qed.
Print Assumptions C07_no_internal_error.
(* the example run below (after its EvStart) satisfies the hypotheses *)
Example C07_no_internal_error_nonvacuous :
  forallb ev_okb [ EvDeliver 10 (mkM 1 0 QUALITY [1; 2; 3] 0 None) None; EvAlarm 2000 None;
                   EvDeliver 2020 (mkM 1 0 COMMIT [1; 2] 0 (Some (mkJ 0 PREPARE [1; 2] [1; 2]))) None;
                   EvDeliver 2025 (mkM 2 1 CONVERGE [1] 7 (Some (mkJ 0 COMMIT [] [1; 2]))) None;
                   EvDeliver 2030 (mkM 1 0 DECIDE [1; 2] 0 (Some (mkJ 0 COMMIT [1; 2] [1; 2]))) None ] = true.
Proof. reflexivity. Qed.

(* "validated": a message the validator model (C05, Gpbft/Validator.v -- itself tied to gpbft/validator.go by correspondence)
   accepts on the one-shot path has the shape wfmb assumed above, whatever chains stand behind its value keys *)
Theorem C07_validated_is_wfmb : forall net cmt m sender rank v jv,
  ValidatorProofs.accepts net cmt None m = true ->
  0 <= Validator.v_round (Validator.g_vote m) < GoInt.two64 ->
  is_zero v = Validator.ch_is_zero (Validator.v_value (Validator.g_vote m)) ->
  wfmb (ValidatorBridge.to_inst m sender rank v jv) = true.
Proof. exact ValidatorBridge.accepts_wfmb. Qed.
Print Assumptions C07_validated_is_wfmb.

(* "every message it emits is valid under the protocol rules and acceptable to its peers" and "it only ever votes for a
   value that is a prefix of its own input or for which it has received proof of a strong quorum", on networks of the
   instance model (RefineNet): after ANY admissible schedule, every broadcast of an honest member is admissible for every
   peer (its vote is recorded, its justification has the shape validation enforces and is backed by a strong quorum whose
   honest members cast that vote), and a non-bottom value it votes for is a prefix of its input or has a strong quorum *)
Theorem C07_emitted_messages_acceptable : forall (c : config) (honest : nat -> bool) (input : nat -> chain),
  committee_wf c -> c_total c <= 65535 -> (forall k, honest k = true -> input k <> []) ->
  forall acts a k e, RefineNet.all_ok c honest (RefineNet.net0 input) acts ->
    RefineNet.aok c honest (RefineNet.nrun c (RefineNet.net0 input) acts) a -> RefineNet.act_event a = Some (k, e) ->
    forall r p v j t rank, In (OBroadcast r p v j t) (i_out (RefineNet.n_inst (RefineNet.nstep c (RefineNet.nrun c (RefineNet.net0 input) acts) a) k)) ->
      RefineNode.adm c honest (RefineNet.n_votes (RefineNet.nstep c (RefineNet.nrun c (RefineNet.net0 input) acts) a)) (mkM k r p v rank j) /\
      (v <> [] -> RefineNode.evid c honest input k (RefineNet.n_votes (RefineNet.nstep c (RefineNet.nrun c (RefineNet.net0 input) acts) a)) v).
Proof. exact RefineNet.network_emissions. Qed.
Print Assumptions C07_emitted_messages_acceptable.

(* at most one vote per (round, step) over the whole NETWORK history: an honest member's votes in the global set never
   conflict, whatever the schedule and whatever Byzantine members do *)
Theorem C07_network_one_vote_per_slot : forall (c : config) (honest : nat -> bool) (input : nat -> chain),
  committee_wf c -> c_total c <= 65535 -> (forall k, honest k = true -> input k <> []) ->
  forall acts s r p x y, RefineNet.all_ok c honest (RefineNet.net0 input) acts -> honest s = true ->
    In (Spec.V s r p x) (RefineNet.n_votes (RefineNet.nrun c (RefineNet.net0 input) acts)) ->
    In (Spec.V s r p y) (RefineNet.n_votes (RefineNet.nrun c (RefineNet.net0 input) acts)) -> x = y.
Proof. exact RefineNet.network_one_vote_per_slot. Qed.
Print Assumptions C07_network_one_vote_per_slot.

(* non-vacuity: a concrete run (3 members, subject 0 with input [1;2;3]) passes QUALITY, PREPARE, COMMIT and decides *)
Definition ex_cfg := mkCfg [10; 30; 30] 70 4 2 2000 [2000; 3000; 4500] [700; 900; 1100].
Definition ex_events : list event :=
  [ EvStart 0;
    EvDeliver 10 (mkM 1 0 QUALITY [1; 2; 3] 0 None) None; EvDeliver 11 (mkM 2 0 QUALITY [1; 2] 0 None) None;
    EvAlarm 2000 None;
    EvDeliver 2010 (mkM 1 0 PREPARE [1; 2] 0 None) None; EvDeliver 2011 (mkM 2 0 PREPARE [1; 2] 0 None) None;
    EvDeliver 2020 (mkM 1 0 COMMIT [1; 2] 0 (Some (mkJ 0 PREPARE [1; 2] [1; 2]))) None;
    EvDeliver 2021 (mkM 2 0 COMMIT [1; 2] 0 (Some (mkJ 0 PREPARE [1; 2] [1; 2]))) None;
    EvDeliver 2030 (mkM 1 0 DECIDE [1; 2] 0 (Some (mkJ 0 COMMIT [1; 2] [1; 2]))) None;
    EvDeliver 2031 (mkM 2 0 DECIDE [1; 2] 0 (Some (mkJ 0 COMMIT [1; 2] [1; 2]))) None ].
Example C07_nonvacuous :
  Forall wfe ex_events /\
  slots (fst (run_hist ex_cfg (new_instance [1; 2; 3] 0) ex_events)) = [(0, 1); (0, 3); (0, 4); (0, 5)] /\
  i_phase (snd (run_hist ex_cfg (new_instance [1; 2; 3] 0) ex_events)) = TERMINATED /\
  i_err (snd (run_hist ex_cfg (new_instance [1; 2; 3] 0) ex_events)) = None.
Proof. split; [repeat constructor; cbn; congruence|vm_compute; repeat split]. Qed.

(* ---------- the participant around the instance (gpbft/participant.go) ---------- *)
From F3 Require MsgQueue MsgQueueProofs Lifecycle LifecycleProofs.
(* life cycle (Gpbft/Lifecycle.v: which instance exists when, the host's alarm slot, the hand-over of decisions; every
   combination of "this event terminates the instance", "the instance re-arms its alarm", "the host accepts the decision",
   "the host can provide a proposal" is allowed).  Between two StartInstanceAt calls of the host every instance is begun at
   most once and its decision handed over at most once -- so the instance model's "one message per (round, step)" is "one
   message per (instance, round, step)" of the participant; the instance number never decreases; after a failed hand-over
   nothing runs until the host starts an instance again. *)
Theorem C07_one_execution_per_instance : forall s i evs,
  LifecycleProofs.fresh_start s i -> LifecycleProofs.no_start evs = true ->
  let f := Lifecycle.lrun (Lifecycle.lstep s (Lifecycle.LStartAt i)) evs in NoDup (Lifecycle.l_execs f) /\ NoDup (Lifecycle.l_reported f).
Proof. exact LifecycleProofs.one_execution_per_instance. Qed.
Print Assumptions C07_one_execution_per_instance.
Theorem C07_instance_number_monotone : forall evs s, LifecycleProofs.no_start evs = true -> Lifecycle.l_id s <= Lifecycle.l_id (Lifecycle.lrun s evs).
Proof. exact LifecycleProofs.instance_number_monotone. Qed.
Print Assumptions C07_instance_number_monotone.
Theorem C07_idle_after_failed_handover : forall evs s, LifecycleProofs.idle s -> LifecycleProofs.no_start evs = true -> Lifecycle.lrun s evs = s.
Proof. exact LifecycleProofs.idle_until_started. Qed.
Print Assumptions C07_idle_after_failed_handover.
Theorem C07_failed_handover_is_idle : forall s (r : bool), Lifecycle.l_running s = true ->
  LifecycleProofs.idle (Lifecycle.handle s true r false) /\ Lifecycle.l_id (Lifecycle.handle s true r false) = Lifecycle.l_id s.
Proof. exact LifecycleProofs.failed_handover_is_idle. Qed.
Print Assumptions C07_failed_handover_is_idle.
(* the queue of messages for instances that have not started (Gpbft/MsgQueue.v): it holds exactly the first arrival of every
   (instance, sender, round, step) among the arrivals that are justified or within the look-ahead, one message per slot,
   nothing else; Drain hands over exactly the queued messages of the instance *)
Theorem C07_queue_keeps_every_slot : forall mr ms m, In m ms -> MsgQueueProofs.admissible mr m = true ->
  exists x, In x (MsgQueue.q_run mr ms) /\ MsgQueue.same_slot m x = true.
Proof. exact MsgQueueProofs.queue_keeps_every_slot. Qed.
Print Assumptions C07_queue_keeps_every_slot.
Theorem C07_queue_only_arrivals : forall mr ms x, In x (MsgQueue.q_run mr ms) -> In x ms /\ MsgQueueProofs.admissible mr x = true.
Proof. exact MsgQueueProofs.queue_only_arrivals. Qed.
Print Assumptions C07_queue_only_arrivals.
Theorem C07_queue_one_per_slot : forall mr ms, MsgQueueProofs.slots_unique (MsgQueue.q_run mr ms).
Proof. exact MsgQueueProofs.queue_one_per_slot. Qed.
Print Assumptions C07_queue_one_per_slot.
Theorem C07_queued_messages_delivered_at_start : forall mr ms i m,
  In m ms -> MsgQueue.qm_inst m = i -> MsgQueueProofs.admissible mr m = true ->
  exists x, In x (fst (MsgQueue.q_drain (MsgQueue.q_run mr ms) i)) /\ MsgQueue.same_slot m x = true.
Proof. exact MsgQueueProofs.queued_messages_delivered_at_start. Qed.
Print Assumptions C07_queued_messages_delivered_at_start.

(* beginInstance with queued messages (Start, then ReceiveMany of what messageQueue.Drain returns): for every power-table
   committee, input, start time and queue of validated messages ordered by round, the instance records no internal error
   and all instance invariants hold afterwards (Gpbft/InstanceMany.v; the executable definitions are the ones replayed
   against the real participant by traceq_ok, which evaluates the two hypotheses on every drained queue) *)
From F3 Require InstanceMany.
Theorem C07_begin_with_queue_no_internal_error : forall c, InstanceNoPanic.committee_wf c -> forall input now ms,
  InstanceMany.queue_ok ms ->
  let i := InstanceRun.start_with_queue c (Instance.new_instance input 0) now ms in
  Instance.i_err i = None /\ InstanceOrder.Inv i /\ InstanceConverge.PI i /\ InstanceNoPanic.AllQ c i /\ InstanceJust.JI i.
Proof. exact InstanceMany.start_with_queue_no_internal_error. Qed.
Print Assumptions C07_begin_with_queue_no_internal_error.
