(* C02 — Validity: decisions extend the instance base and stem from an honest input. *)
From Coq Require Import ZArith List Bool.
From F3 Require Import Spec SpecProofs.
From F3 Require Instance InstanceNoPanic Refine RefineNet RefineRun InstanceQuorum HappyPath HappyInst HappyStep HappyNet QuorumProofs.
Import ListNotations.
Open Scope Z_scope.

Theorem c02_validity : forall (power : nat -> Z) (committee : list nat) (honest : nat -> bool) (input : nat -> chain),
  (forall n, 0 <= power n) -> NoDup committee ->
  3 * byz_power power committee honest < total power committee ->
  forall vs v, reachable power committee honest input vs -> decides power committee honest vs v ->
    v <> [] /\ exists q, honest q = true /\ is_prefix v (input q).
Proof. intros power committee honest input Hp _ Hb. exact (validity power Hp committee honest input Hb). Qed.
Print Assumptions c02_validity.

Theorem c02_validity_base : forall (power : nat -> Z) (committee : list nat) (honest : nat -> bool) (input : nat -> chain),
  (forall n, 0 <= power n) -> NoDup committee ->
  3 * byz_power power committee honest < total power committee ->
  forall vs v base, reachable power committee honest input vs ->
    (forall q, honest q = true -> exists rest, input q = base :: rest) ->
    decides power committee honest vs v -> exists rest, v = base :: rest.
Proof. intros power committee honest input Hp _ Hb. exact (validity_base power Hp committee honest input Hb). Qed.
Print Assumptions c02_validity_base.

Theorem c02_conforms_reachable : forall (power : nat -> Z) (committee : list nat) (honest : nat -> bool) (input : nat -> chain),
  NoDup committee -> forall future past, reachable power committee honest input past ->
    conforms power committee honest input past future = true ->
    reachable power committee honest input (rev future ++ past).
Proof. intros power committee honest input Hn. exact (conforms_reachable power committee Hn honest input). Qed.
Print Assumptions c02_conforms_reachable.

(* validity for networks of the EXECUTABLE instance model (Layer N refines Layer S, RefineNet.v): whatever an honest member
   reports as decided is a non-empty prefix of the input chain of some honest member *)
Theorem c02_network_validity : forall (c : Instance.config) (honest : nat -> bool) (input : nat -> Instance.chain),
  InstanceNoPanic.committee_wf c -> Instance.c_total c <= 65535 -> (forall k, honest k = true -> input k <> []) ->
  3 * byz_power (Refine.power c) (Refine.committee c) honest < total (Refine.power c) (Refine.committee c) ->
  forall acts k j, RefineNet.all_ok c honest (RefineNet.net0 input) acts -> RefineNet.member c honest k ->
    Instance.i_term (RefineNet.n_inst (RefineNet.nrun c (RefineNet.net0 input) acts) k) = Some j ->
    Instance.j_value j <> [] /\ exists q, honest q = true /\ is_prefix (Instance.j_value j) (input q).
Proof. exact RefineNet.network_validity. Qed.
Print Assumptions c02_network_validity.

(* second sentence (happy path), step by step on the instance model: with a strong quorum for the value at hand the participant
   moves on FOR THAT VALUE at once (no timeout): QUALITY quorum for its input => PREPARE input; PREPARE quorum for the proposal
   => COMMIT it with that quorum as justification; COMMIT quorum => DECIDE; DECIDE quorum => the decision is reported.
   (QS: the invariant of quorum states built by one vote per sender, InstanceQuorum.v.)  The composition over a network under
   timing assumptions is not proved: it is monitored on timely runs of real participants. *)
Definition hp_committee (c : Instance.config) : Prop :=
  0 < Instance.c_total c < QuorumProofs.two62 /\ (forall s, 0 <= Instance.power_of c s) /\
  (forall l, NoDup l -> InstanceDecide.sum_power c l <= Instance.c_total c).
Theorem c02_happy_quality : forall c, hp_committee c -> forall i, Instance.i_input i <> [] -> Instance.i_proposal i = Instance.i_input i ->
  Instance.q_has_sq (Instance.i_quality i) (Instance.i_input i) = true ->
  exists rest, Instance.i_out (Instance.try_quality c i) =
                 Instance.OBroadcast (Instance.i_round i) Instance.PREPARE (Instance.i_input i) None false :: rest /\
               Instance.i_proposal (Instance.try_quality c i) = Instance.i_input i /\ Instance.i_phase (Instance.try_quality c i) = Instance.PREPARE.
Proof. intros c (H1 & H2 & H3). apply HappyPath.happy_quality; assumption. Qed.
Print Assumptions c02_happy_quality.
Theorem c02_happy_prepare : forall c, hp_committee c -> forall i,
  InstanceQuorum.QS c (Instance.r_prep (Instance.get_round i (Instance.i_round i))) -> Instance.i_proposal i <> [] ->
  Instance.q_has_sq (Instance.r_prep (Instance.get_round i (Instance.i_round i))) (Instance.i_proposal i) = true ->
  exists sg rest, Instance.i_out (Instance.try_prepare c i) =
      Instance.OBroadcast (Instance.i_round i) Instance.COMMIT (Instance.i_proposal i)
        (Some (Instance.build_just (Instance.i_round i) Instance.PREPARE (Instance.i_proposal i) sg)) false :: rest /\
    Instance.i_phase (Instance.try_prepare c i) = Instance.COMMIT.
Proof. intros c (H1 & H2 & H3). apply HappyPath.happy_prepare; assumption. Qed.
Print Assumptions c02_happy_prepare.
Theorem c02_happy_commit : forall c, hp_committee c -> forall i round sway x v,
  InstanceQuorum.QS c (Instance.r_comm (Instance.get_round i round)) ->
  Instance.q_find_sq_value (Instance.r_comm (Instance.get_round i round)) = Instance.FsvSome (x :: v) ->
  exists sg rest, Instance.i_out (Instance.try_commit c i round sway) =
      Instance.OBroadcast 0 Instance.DECIDE (x :: v) (Some (Instance.build_just round Instance.COMMIT (x :: v) sg)) false :: rest /\
    Instance.i_phase (Instance.try_commit c i round sway) = Instance.DECIDE.
Proof. intros c (H1 & H2 & H3). apply HappyPath.happy_commit; assumption. Qed.
Print Assumptions c02_happy_commit.
Theorem c02_happy_decide : forall c, hp_committee c -> forall i v,
  InstanceQuorum.QS c (Instance.i_decision i) -> Instance.q_find_sq_value (Instance.i_decision i) = Instance.FsvSome v ->
  exists sg, Instance.i_term (Instance.try_decide c i) = Some (Instance.build_just 0 Instance.DECIDE v sg) /\
             Instance.i_phase (Instance.try_decide c i) = Instance.TERMINATED.
Proof. intros c (H1 & H2 & H3). apply HappyPath.happy_decide; assumption. Qed.
Print Assumptions c02_happy_decide.

(* ---- the happy path over the NETWORK of instance models (second sentence of C02) ----
   every honest member proposes v (at least one tipset above the base); no faulty member casts any vote; no timer fires
   and every delivery reaches its receiver before the receiver's phase timer expires.  Then, for every committee and
   every such schedule (any order of starts and deliveries, duplicates, omissions):
   every vote ever cast is a round-0 vote for v itself -- nobody votes bottom, a prefix or another chain, nobody leaves
   round 0 -- and whoever decides, decides v. *)
Theorem c02_happy_network_votes : forall c honest input v,
  InstanceNoPanic.committee_wf c -> Instance.c_total c <= 65535 -> 0 <= Instance.c_rebro_round c -> (2 <= length v)%nat ->
  (forall k, honest k = true -> input k = v) ->
  forall acts x, RefineNet.all_ok c honest (RefineNet.net0 input) acts -> HappyNet.all_happy c (RefineNet.net0 input) acts ->
  In x (RefineNet.n_votes (RefineNet.nrun c (RefineNet.net0 input) acts)) ->
  round x = 0%nat /\ vl x = Some v /\ ph x <> CONVERGE.
Proof. exact HappyNet.happy_votes. Qed.
Print Assumptions c02_happy_network_votes.
Theorem c02_happy_network_decision : forall c honest input v,
  InstanceNoPanic.committee_wf c -> Instance.c_total c <= 65535 -> 0 <= Instance.c_rebro_round c -> (2 <= length v)%nat ->
  (forall k, honest k = true -> input k = v) ->
  forall acts k j, RefineNet.all_ok c honest (RefineNet.net0 input) acts -> HappyNet.all_happy c (RefineNet.net0 input) acts ->
  RefineNet.member c honest k ->
  Instance.i_term (RefineNet.n_inst (RefineNet.nrun c (RefineNet.net0 input) acts) k) = Some j -> Instance.j_value j = v.
Proof. exact HappyNet.happy_decision. Qed.
Print Assumptions c02_happy_network_decision.
Theorem c02_happy_network_round0 : forall c honest input v,
  InstanceNoPanic.committee_wf c -> Instance.c_total c <= 65535 -> 0 <= Instance.c_rebro_round c -> (2 <= length v)%nat ->
  (forall k, honest k = true -> input k = v) ->
  forall acts k, RefineNet.all_ok c honest (RefineNet.net0 input) acts -> HappyNet.all_happy c (RefineNet.net0 input) acts ->
  RefineNet.member c honest k ->
  Instance.i_round (RefineNet.n_inst (RefineNet.nrun c (RefineNet.net0 input) acts) k) = 0.
Proof. exact HappyNet.happy_round0. Qed.
Print Assumptions c02_happy_network_round0.

(* non-vacuity: four members with skewed powers, unanimous input, every broadcast delivered to every member (own messages
   included) in first-in-first-out order and nothing else: the schedule satisfies both hypotheses and all four decide v *)
Definition hx_cfg := Instance.mkCfg [20000; 16384; 16384; 12767] 65535 5 3 2000 [2000; 3000; 4500] [700; 900; 1100].
Definition hx_honest := fun _ : nat => true.
Definition hx_input := fun _ : nat => [1; 2; 3].
Definition hx_acts := RefineRun.auto_actions hx_cfg hx_input [0; 1; 2; 3] 16.
Example c02_happy_network_example :
  InstanceRun.cfg_wfb hx_cfg = true /\
  RefineRun.all_okb hx_cfg hx_honest (RefineNet.net0 hx_input) hx_acts = true /\
  HappyNet.all_happyb hx_cfg (RefineNet.net0 hx_input) hx_acts = true /\
  length hx_acts = 68%nat /\
  map (fun k => option_map Instance.j_value (Instance.i_term (RefineNet.n_inst (RefineNet.nrun hx_cfg (RefineNet.net0 hx_input) hx_acts) k))) [0; 1; 2; 3]
    = [Some [1; 2; 3]; Some [1; 2; 3]; Some [1; 2; 3]; Some [1; 2; 3]].
Proof. vm_compute. repeat split. Qed.
