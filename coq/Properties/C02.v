(* C02 — Validity: decisions extend the instance base and stem from an honest input. *)
From Coq Require Import ZArith List Bool Lia.
From F3 Require Import Spec SpecProofs.
From F3 Require Instance InstanceNoPanic Refine RefineNet RefineRun InstanceQuorum HappyPath HappyInst HappyStep HappyNet HappyLive HappyTimed QuorumProofs.
Import ListNotations.
Open Scope Z_scope.

Theorem c02_validity : forall (power : nat -> Z) (committee : list nat) (honest : nat -> bool) (input : nat -> chain),
  (forall n, 0 <= power n) -> NoDup committee ->
  3 * byz_power power committee honest < total power committee ->
  forall vs v, reachable power committee honest input vs -> decides power committee honest vs v ->
    v <> [] /\ exists q, honest q = true /\ is_prefix v (input q).
Proof. intros power committee honest input Hp _ Hb. exact (validity power Hp committee honest input Hb). Qed.
Print Assumptions c02_validity.

Theorem c02_validity_base : forall (power : nat -> Z) (committee : list nat) (honest : nat -> bool) (input : nat -> chain),
  (forall n, 0 <= power n) -> NoDup committee ->
  3 * byz_power power committee honest < total power committee ->
  forall vs v base, reachable power committee honest input vs ->
    (forall q, honest q = true -> exists rest, input q = base :: rest) ->
    decides power committee honest vs v -> exists rest, v = base :: rest.
Proof. intros power committee honest input Hp _ Hb. exact (validity_base power Hp committee honest input Hb). Qed.
Print Assumptions c02_validity_base.

Theorem c02_conforms_reachable : forall (power : nat -> Z) (committee : list nat) (honest : nat -> bool) (input : nat -> chain),
  NoDup committee -> forall future past, reachable power committee honest input past ->
    conforms power committee honest input past future = true ->
    reachable power committee honest input (rev future ++ past).
Proof. intros power committee honest input Hn. exact (conforms_reachable power committee Hn honest input). Qed.
Print Assumptions c02_conforms_reachable.

(* validity for networks of the EXECUTABLE instance model (Layer N refines Layer S, RefineNet.v): whatever an honest member
   reports as decided is a non-empty prefix of the input chain of some honest member *)
Theorem c02_network_validity : forall (c : Instance.config) (honest : nat -> bool) (input : nat -> Instance.chain),
  InstanceNoPanic.committee_wf c -> Instance.c_total c <= 65535 -> (forall k, honest k = true -> input k <> []) ->
  3 * byz_power (Refine.power c) (Refine.committee c) honest < total (Refine.power c) (Refine.committee c) ->
  forall acts k j, RefineNet.all_ok c honest (RefineNet.net0 input) acts -> RefineNet.member c honest k ->
    Instance.i_term (RefineNet.n_inst (RefineNet.nrun c (RefineNet.net0 input) acts) k) = Some j ->
    Instance.j_value j <> [] /\ exists q, honest q = true /\ is_prefix (Instance.j_value j) (input q).
Proof. exact RefineNet.network_validity. Qed.
Print Assumptions c02_network_validity.

(* second sentence (happy path), step by step on the instance model: with a strong quorum for the value at hand the participant
   moves on FOR THAT VALUE at once (no timeout): QUALITY quorum for its input => PREPARE input; PREPARE quorum for the proposal
   => COMMIT it with that quorum as justification; COMMIT quorum => DECIDE; DECIDE quorum => the decision is reported.
   (QS: the invariant of quorum states built by one vote per sender, InstanceQuorum.v.)  The composition over a network under
   timing assumptions is not proved: it is monitored on timely runs of real participants. *)
Definition hp_committee (c : Instance.config) : Prop :=
  0 < Instance.c_total c < QuorumProofs.two62 /\ (forall s, 0 <= Instance.power_of c s) /\
  (forall l, NoDup l -> InstanceDecide.sum_power c l <= Instance.c_total c).
Theorem c02_happy_quality : forall c, hp_committee c -> forall i, Instance.i_input i <> [] -> Instance.i_proposal i = Instance.i_input i ->
  Instance.q_has_sq (Instance.i_quality i) (Instance.i_input i) = true ->
  exists rest, Instance.i_out (Instance.try_quality c i) =
                 Instance.OBroadcast (Instance.i_round i) Instance.PREPARE (Instance.i_input i) None false :: rest /\
               Instance.i_proposal (Instance.try_quality c i) = Instance.i_input i /\ Instance.i_phase (Instance.try_quality c i) = Instance.PREPARE.
Proof. intros c (H1 & H2 & H3). apply HappyPath.happy_quality; assumption. Qed.
Print Assumptions c02_happy_quality.
Theorem c02_happy_prepare : forall c, hp_committee c -> forall i,
  InstanceQuorum.QS c (Instance.r_prep (Instance.get_round i (Instance.i_round i))) -> Instance.i_proposal i <> [] ->
  Instance.q_has_sq (Instance.r_prep (Instance.get_round i (Instance.i_round i))) (Instance.i_proposal i) = true ->
  exists sg rest, Instance.i_out (Instance.try_prepare c i) =
      Instance.OBroadcast (Instance.i_round i) Instance.COMMIT (Instance.i_proposal i)
        (Some (Instance.build_just (Instance.i_round i) Instance.PREPARE (Instance.i_proposal i) sg)) false :: rest /\
    Instance.i_phase (Instance.try_prepare c i) = Instance.COMMIT.
Proof. intros c (H1 & H2 & H3). apply HappyPath.happy_prepare; assumption. Qed.
Print Assumptions c02_happy_prepare.
Theorem c02_happy_commit : forall c, hp_committee c -> forall i round sway x v,
  InstanceQuorum.QS c (Instance.r_comm (Instance.get_round i round)) ->
  Instance.q_find_sq_value (Instance.r_comm (Instance.get_round i round)) = Instance.FsvSome (x :: v) ->
  exists sg rest, Instance.i_out (Instance.try_commit c i round sway) =
      Instance.OBroadcast 0 Instance.DECIDE (x :: v) (Some (Instance.build_just round Instance.COMMIT (x :: v) sg)) false :: rest /\
    Instance.i_phase (Instance.try_commit c i round sway) = Instance.DECIDE.
Proof. intros c (H1 & H2 & H3). apply HappyPath.happy_commit; assumption. Qed.
Print Assumptions c02_happy_commit.
Theorem c02_happy_decide : forall c, hp_committee c -> forall i v,
  InstanceQuorum.QS c (Instance.i_decision i) -> Instance.q_find_sq_value (Instance.i_decision i) = Instance.FsvSome v ->
  exists sg, Instance.i_term (Instance.try_decide c i) = Some (Instance.build_just 0 Instance.DECIDE v sg) /\
             Instance.i_phase (Instance.try_decide c i) = Instance.TERMINATED.
Proof. intros c (H1 & H2 & H3). apply HappyPath.happy_decide; assumption. Qed.
Print Assumptions c02_happy_decide.

(* ---- the happy path over the NETWORK of instance models (second sentence of C02) ----
   every honest member proposes v (at least one tipset above the base); no faulty member casts any vote; no timer fires
   and every delivery reaches its receiver before the receiver's phase timer expires.  Then, for every committee and
   every such schedule (any order of starts and deliveries, duplicates, omissions):
   every vote ever cast is a round-0 vote for v itself -- nobody votes bottom, a prefix or another chain, nobody leaves
   round 0 -- and whoever decides, decides v. *)
Theorem c02_happy_network_votes : forall c honest input v,
  InstanceNoPanic.committee_wf c -> Instance.c_total c <= 65535 -> 0 <= Instance.c_rebro_round c -> (2 <= length v)%nat ->
  (forall k, honest k = true -> input k = v) ->
  forall acts x, RefineNet.all_ok c honest (RefineNet.net0 input) acts -> HappyNet.all_happy c (RefineNet.net0 input) acts ->
  In x (RefineNet.n_votes (RefineNet.nrun c (RefineNet.net0 input) acts)) ->
  round x = 0%nat /\ vl x = Some v /\ ph x <> CONVERGE.
Proof. exact HappyNet.happy_votes. Qed.
Print Assumptions c02_happy_network_votes.
Theorem c02_happy_network_decision : forall c honest input v,
  InstanceNoPanic.committee_wf c -> Instance.c_total c <= 65535 -> 0 <= Instance.c_rebro_round c -> (2 <= length v)%nat ->
  (forall k, honest k = true -> input k = v) ->
  forall acts k j, RefineNet.all_ok c honest (RefineNet.net0 input) acts -> HappyNet.all_happy c (RefineNet.net0 input) acts ->
  RefineNet.member c honest k ->
  Instance.i_term (RefineNet.n_inst (RefineNet.nrun c (RefineNet.net0 input) acts) k) = Some j -> Instance.j_value j = v.
Proof. exact HappyNet.happy_decision. Qed.
Print Assumptions c02_happy_network_decision.
Theorem c02_happy_network_round0 : forall c honest input v,
  InstanceNoPanic.committee_wf c -> Instance.c_total c <= 65535 -> 0 <= Instance.c_rebro_round c -> (2 <= length v)%nat ->
  (forall k, honest k = true -> input k = v) ->
  forall acts k, RefineNet.all_ok c honest (RefineNet.net0 input) acts -> HappyNet.all_happy c (RefineNet.net0 input) acts ->
  RefineNet.member c honest k ->
  Instance.i_round (RefineNet.n_inst (RefineNet.nrun c (RefineNet.net0 input) acts) k) = 0.
Proof. exact HappyNet.happy_round0. Qed.
Print Assumptions c02_happy_network_round0.

(* non-vacuity: four members with skewed powers, unanimous input, every broadcast delivered to every member (own messages
   included) in first-in-first-out order and nothing else: the schedule satisfies both hypotheses and all four decide v *)
Definition hx_cfg := Instance.mkCfg [20000; 16384; 16384; 12767] 65535 5 3 2000 [2000; 3000; 4500] [700; 900; 1100].
Definition hx_honest := fun _ : nat => true.
Definition hx_input := fun _ : nat => [1; 2; 3].
Definition hx_acts := RefineRun.auto_actions hx_cfg hx_input [0; 1; 2; 3] 16.
Example c02_happy_network_example :
  InstanceRun.cfg_wfb hx_cfg = true /\
  RefineRun.all_okb hx_cfg hx_honest (RefineNet.net0 hx_input) hx_acts = true /\
  HappyNet.all_happyb hx_cfg (RefineNet.net0 hx_input) hx_acts = true /\
  length hx_acts = 68%nat /\
  map (fun k => option_map Instance.j_value (Instance.i_term (RefineNet.n_inst (RefineNet.nrun hx_cfg (RefineNet.net0 hx_input) hx_acts) k))) [0; 1; 2; 3]
    = [Some [1; 2; 3]; Some [1; 2; 3]; Some [1; 2; 3]; Some [1; 2; 3]].
Proof. vm_compute. repeat split. Qed.

(* ---- progress on the happy path: "that chain itself IS decided" ----
   in addition to the hypotheses above: hs lists the honest members and together they hold a strong quorum; every honest
   member has started; every vote that was cast has been delivered to every honest member (in whatever order, interleaved
   in whatever way with the starts, duplicates allowed).  Then every honest member has terminated with a decision for v.
   No timer is involved: the participant re-examines the tally of its current step after every delivery. *)
Theorem c02_happy_network_all_decide : forall c honest input v,
  InstanceNoPanic.committee_wf c -> Instance.c_total c <= 65535 -> 0 <= Instance.c_rebro_round c -> (2 <= length v)%nat ->
  (forall k, honest k = true -> input k = v) ->
  forall hs, (forall k, RefineNet.member c honest k <-> In k hs) -> NoDup hs ->
  QuorumGen.isStrongQuorum (InstanceDecide.sum_power c hs) (Instance.c_total c) = true ->
  forall acts, RefineNet.all_ok c honest (RefineNet.net0 input) acts -> HappyNet.all_happy c (RefineNet.net0 input) acts ->
  let n := RefineNet.nrun c (RefineNet.net0 input) acts in
  (forall k, RefineNet.member c honest k -> Instance.i_phase (RefineNet.n_inst n k) <> Instance.INITIAL) ->
  (forall k s p, RefineNet.member c honest k -> RefineNet.member c honest s -> HappyLive.four p ->
     In (Refine.voteS s 0 p v) (RefineNet.n_votes n) -> HappyLive.delivered acts k s p) ->
  forall k, RefineNet.member c honest k ->
    Instance.i_phase (RefineNet.n_inst n k) = Instance.TERMINATED /\
    exists j, Instance.i_term (RefineNet.n_inst n k) = Some j /\ Instance.j_value j = v.
Proof. exact HappyLive.happy_all_decide. Qed.
Print Assumptions c02_happy_network_all_decide.

(* the same in terms of states: in ANY state reached by a happy schedule in which every honest member has started and has
   recorded (or no longer needs) every vote cast so far, every honest member has decided v -- there is no state in which
   the happy path is stuck short of the decision *)
Theorem c02_happy_network_saturated_decided : forall c honest input v,
  InstanceNoPanic.committee_wf c -> Instance.c_total c <= 65535 -> 0 <= Instance.c_rebro_round c -> (2 <= length v)%nat ->
  (forall k, honest k = true -> input k = v) ->
  forall hs, (forall k, RefineNet.member c honest k <-> In k hs) -> NoDup hs ->
  QuorumGen.isStrongQuorum (InstanceDecide.sum_power c hs) (Instance.c_total c) = true ->
  forall acts, RefineNet.all_ok c honest (RefineNet.net0 input) acts -> HappyNet.all_happy c (RefineNet.net0 input) acts ->
  let n := RefineNet.nrun c (RefineNet.net0 input) acts in
  (forall k, RefineNet.member c honest k -> Instance.i_phase (RefineNet.n_inst n k) <> Instance.INITIAL) ->
  HappyLive.saturated c honest v n ->
  forall k, RefineNet.member c honest k ->
    Instance.i_phase (RefineNet.n_inst n k) = Instance.TERMINATED /\
    exists j, Instance.i_term (RefineNet.n_inst n k) = Some j /\ Instance.j_value j = v.
Proof.
  intros c honest input v Hwf Hsc Hrr Hv Hun hs Hhs Hnd Hst acts Hok Hh n Hstarted Hsat.
  assert (X : RefineNet.NI c honest input n /\ HappyNet.HN c honest v n /\ HappyLive.HL c honest v n).
  { eapply HappyLive.live_run; try eassumption; [apply RefineNet.NI_net0|apply HappyNet.HN_net0|apply HappyLive.HL_net0]. }
  destruct X as (A & B & C). eapply HappyLive.saturated_decided; eassumption.
Qed.
Print Assumptions c02_happy_network_saturated_decided.

(* non-vacuity THROUGH the theorem: the 68-action schedule above meets every hypothesis of c02_happy_network_all_decide
   (four honest members 0..3 holding the whole power; all started; each of the 16 votes delivered to each member) *)
Lemma hx_members : forall k, RefineNet.member hx_cfg hx_honest k <-> In k [0; 1; 2; 3].
Proof.
  intros k. unfold RefineNet.member, hx_honest, Refine.nmem. cbn. split.
  - intros ((H1 & H2) & _). assert (k = 0 \/ k = 1 \/ k = 2 \/ k = 3) as [-> | [-> | [-> | ->]]] by lia; auto.
  - intros [<-|[<-|[<-|[<-|[]]]]]; (split; [lia|reflexivity]).
Qed.
Print Assumptions hx_members.
Example c02_happy_network_all_decide_example : forall k, RefineNet.member hx_cfg hx_honest k ->
  exists j, Instance.i_term (RefineNet.n_inst (RefineNet.nrun hx_cfg (RefineNet.net0 hx_input) hx_acts) k) = Some j /\
            Instance.j_value j = [1; 2; 3].
Proof.
  assert (Hc : InstanceRun.cfg_wfb hx_cfg = true /\
               RefineRun.all_okb hx_cfg hx_honest (RefineNet.net0 hx_input) hx_acts = true /\
               HappyNet.all_happyb hx_cfg (RefineNet.net0 hx_input) hx_acts = true /\
               forallb (fun k => negb (Instance.phase_eqb (Instance.i_phase (RefineNet.n_inst (RefineNet.nrun hx_cfg (RefineNet.net0 hx_input) hx_acts) k)) Instance.INITIAL) &&
                                 forallb (fun s => forallb (fun p => HappyLive.deliveredb hx_acts k s p)
                                                     [Instance.QUALITY; Instance.PREPARE; Instance.COMMIT; Instance.DECIDE]) [0; 1; 2; 3]) [0; 1; 2; 3] = true /\
               QuorumGen.isStrongQuorum (InstanceDecide.sum_power hx_cfg [0; 1; 2; 3]) (Instance.c_total hx_cfg) = true)
    by (vm_compute; repeat split).
  destruct Hc as (Hwfb & Hokb & Hhb & Hall & Hstrong).
  (* from here on nothing must be computed by unification: the schedule and the run stay folded *)
  Opaque hx_acts RefineNet.nrun HappyLive.deliveredb.
  pose proof (proj1 (forallb_forall _ _) Hall) as Hall'. cbv beta in Hall'. clear Hall.
  intros k Hk.
  assert (Hwf : InstanceNoPanic.committee_wf hx_cfg) by (apply InstanceNoPanic.cfg_wfb_spec; exact Hwfb).
  assert (Hnd : NoDup [0; 1; 2; 3]) by (repeat constructor; cbn; intuition lia).
  pose proof (c02_happy_network_all_decide hx_cfg hx_honest hx_input [1; 2; 3] Hwf ltac:(cbn; lia) ltac:(cbn; lia) ltac:(cbn; lia)
              (fun _ _ => eq_refl) [0; 1; 2; 3] hx_members Hnd Hstrong hx_acts) as T.
  assert (Hok : RefineNet.all_ok hx_cfg hx_honest (RefineNet.net0 hx_input) hx_acts) by (apply (RefineRun.all_okb_sound hx_cfg hx_honest hx_input); exact Hokb).
  assert (Hh : HappyNet.all_happy hx_cfg (RefineNet.net0 hx_input) hx_acts) by (eapply HappyNet.all_happyb_sound; exact Hhb).
  specialize (T Hok Hh). cbv zeta in T.
  assert (H1 : forall k', RefineNet.member hx_cfg hx_honest k' ->
            Instance.i_phase (RefineNet.n_inst (RefineNet.nrun hx_cfg (RefineNet.net0 hx_input) hx_acts) k') <> Instance.INITIAL).
  { intros k' Hk'. apply hx_members in Hk'. pose proof (Hall' k' Hk') as Hx.
    apply andb_true_iff in Hx. destruct Hx as (Hp & _). apply negb_true_iff in Hp. intros E. rewrite E in Hp. discriminate Hp. }
  assert (H2 : forall k' s p, RefineNet.member hx_cfg hx_honest k' -> RefineNet.member hx_cfg hx_honest s -> HappyLive.four p ->
            In (Refine.voteS s 0 p [1; 2; 3]) (RefineNet.n_votes (RefineNet.nrun hx_cfg (RefineNet.net0 hx_input) hx_acts)) ->
            HappyLive.delivered hx_acts k' s p).
  { intros k' s p Hk' Hs Hp _. apply hx_members in Hk'. apply hx_members in Hs. pose proof (Hall' k' Hk') as Hx.
    apply andb_true_iff in Hx. destruct Hx as (_ & Hd). pose proof (proj1 (forallb_forall _ _) Hd s Hs) as Hd2. cbv beta in Hd2.
    apply HappyLive.deliveredb_sound. apply (proj1 (forallb_forall _ _) Hd2 p).
    destruct Hp as [-> | [-> | [-> | ->]]]; cbn [In]; auto. }
  destruct (T H1 H2 k Hk) as (_ & j & Ej & Ev). exists j. split; assumption.
Qed.
Transparent hx_acts RefineNet.nrun HappyLive.deliveredb.

(* ---- the same with synchrony stated as a TIME BOUND (Gpbft/HappyTimed.v) ----
   st k = the clock reading at which member k starts; B = min(QUALITY timeout, round-0 phase timeout).  The schedule
   consists of starts (member k at st k) and deliveries only, and every delivery to k happens at a clock reading in
   [st k, st k + B) -- e.g. all members start within sigma, every message takes at most delta, sigma + 3 delta < B.
   Then no phase timer of a receiver has expired when a message reaches it (every round-0 phase timer is armed at the time
   of the event that began the phase plus its timeout, hence at or beyond st k + B), so all of the above applies: only
   round-0 votes for v are cast and, once everything cast has been delivered, every honest member has decided v. *)
Theorem c02_happy_network_all_decide_timed : forall c honest input v,
  InstanceNoPanic.committee_wf c -> Instance.c_total c <= 65535 -> 0 <= Instance.c_rebro_round c -> (2 <= length v)%nat ->
  (forall k, honest k = true -> input k = v) ->
  forall (st : Z -> Z) hs, (forall k, RefineNet.member c honest k <-> In k hs) -> NoDup hs ->
  QuorumGen.isStrongQuorum (InstanceDecide.sum_power c hs) (Instance.c_total c) = true ->
  forall acts, RefineNet.all_ok c honest (RefineNet.net0 input) acts -> HappyTimed.all_timed c st acts ->
  let n := RefineNet.nrun c (RefineNet.net0 input) acts in
  (forall k, RefineNet.member c honest k -> Instance.i_phase (RefineNet.n_inst n k) <> Instance.INITIAL) ->
  (forall k s p, RefineNet.member c honest k -> RefineNet.member c honest s -> HappyLive.four p ->
     In (Refine.voteS s 0 p v) (RefineNet.n_votes n) -> HappyLive.delivered acts k s p) ->
  forall k, RefineNet.member c honest k ->
    Instance.i_phase (RefineNet.n_inst n k) = Instance.TERMINATED /\
    exists j, Instance.i_term (RefineNet.n_inst n k) = Some j /\ Instance.j_value j = v.
Proof. exact HappyTimed.timed_all_decide. Qed.
Print Assumptions c02_happy_network_all_decide_timed.
Theorem c02_timed_schedule_is_happy : forall c honest input v,
  InstanceNoPanic.committee_wf c -> Instance.c_total c <= 65535 -> 0 <= Instance.c_rebro_round c -> (2 <= length v)%nat ->
  (forall k, honest k = true -> input k = v) ->
  forall (st : Z -> Z) acts, RefineNet.all_ok c honest (RefineNet.net0 input) acts -> HappyTimed.all_timed c st acts ->
  HappyNet.all_happy c (RefineNet.net0 input) acts.
Proof.
  intros c honest input v Hwf Hsc Hrr Hv Hun st acts Hok Ht.
  apply (HappyTimed.timed_is_happy c honest input v Hwf Hsc Hrr Hv Hun st acts (RefineNet.net0 input)
           (RefineNet.NI_net0 c honest input) (HappyNet.HN_net0 c honest input v) (HappyTimed.TI_net0 c honest input st) Hok Ht).
Qed.
Print Assumptions c02_timed_schedule_is_happy.
(* non-vacuity: the 68-action schedule keeps the time bound (all four members start at 0, B = 2000, deliveries at 1..16) *)
Example c02_timed_example : forallb (HappyTimed.timed_actb hx_cfg (fun _ => 0)) hx_acts = true /\ HappyTimed.Bnd hx_cfg = 2000.
Proof. vm_compute. split; reflexivity. Qed.
