(* C02 — Validity: decisions extend the instance base and stem from an honest input. *)
From Coq Require Import ZArith List Bool.
From F3 Require Import Spec SpecProofs.
From F3 Require Instance InstanceNoPanic Refine RefineNet.
Import ListNotations.
Open Scope Z_scope.

Theorem c02_validity : forall (power : nat -> Z) (committee : list nat) (honest : nat -> bool) (input : nat -> chain),
  (forall n, 0 <= power n) -> NoDup committee ->
  3 * byz_power power committee honest < total power committee ->
  forall vs v, reachable power committee honest input vs -> decides power committee honest vs v ->
    v <> [] /\ exists q, honest q = true /\ is_prefix v (input q).
Proof. intros power committee honest input Hp _ Hb. exact (validity power Hp committee honest input Hb). Qed.
Print Assumptions c02_validity.

Theorem c02_validity_base : forall (power : nat -> Z) (committee : list nat) (honest : nat -> bool) (input : nat -> chain),
  (forall n, 0 <= power n) -> NoDup committee ->
  3 * byz_power power committee honest < total power committee ->
  forall vs v base, reachable power committee honest input vs ->
    (forall q, honest q = true -> exists rest, input q = base :: rest) ->
    decides power committee honest vs v -> exists rest, v = base :: rest.
Proof. intros power committee honest input Hp _ Hb. exact (validity_base power Hp committee honest input Hb). Qed.
Print Assumptions c02_validity_base.

Theorem c02_conforms_reachable : forall (power : nat -> Z) (committee : list nat) (honest : nat -> bool) (input : nat -> chain),
  NoDup committee -> forall future past, reachable power committee honest input past ->
    conforms power committee honest input past future = true ->
    reachable power committee honest input (rev future ++ past).
Proof. intros power committee honest input Hn. exact (conforms_reachable power committee Hn honest input). Qed.
Print Assumptions c02_conforms_reachable.

(* validity for networks of the EXECUTABLE instance model (Layer N refines Layer S, RefineNet.v): whatever an honest member
   reports as decided is a non-empty prefix of the input chain of some honest member *)
Theorem c02_network_validity : forall (c : Instance.config) (honest : nat -> bool) (input : nat -> Instance.chain),
  InstanceNoPanic.committee_wf c -> Instance.c_total c <= 65535 -> (forall k, honest k = true -> input k <> []) ->
  3 * byz_power (Refine.power c) (Refine.committee c) honest < total (Refine.power c) (Refine.committee c) ->
  forall acts k j, RefineNet.all_ok c honest (RefineNet.net0 input) acts -> RefineNet.member c honest k ->
    Instance.i_term (RefineNet.n_inst (RefineNet.nrun c (RefineNet.net0 input) acts) k) = Some j ->
    Instance.j_value j <> [] /\ exists q, honest q = true /\ is_prefix (Instance.j_value j) (input q).
Proof. exact RefineNet.network_validity. Qed.
Print Assumptions c02_network_validity.
