(* C16 — Cert exchange serves exact store slices; pollers store only verified certs.
   server_limit / server_guard / server_end are GENERATED from certexchange/server.go. *)
From Coq Require Import ZArith List Bool.
From F3 Require Import GoInt ListX ServerGen Exchange ExchangeProofs PollLocal PollLocalBridge.
Import ListNotations.
Open Scope Z_scope.

Theorem c16_serve_exact : forall sfirst pending first l,
  0 <= sfirst <= pending -> pending < two64 -> 0 <= first < two64 -> 0 <= l < two64 ->
  serve sfirst pending first l =
    if (sfirst <=? first) && (first <? pending) && (0 <? l)
    then zseq first (Z.to_nat (Z.min (Z.min l 256) (pending - first))) else [].
Proof. exact serve_exact. Qed.
Print Assumptions c16_serve_exact.

Theorem c16_serve_len_le_limit : forall sfirst pending first l,
  0 <= sfirst <= pending -> pending < two64 -> 0 <= first < two64 -> 0 <= l < two64 ->
  Z.of_nat (length (serve sfirst pending first l)) <= Z.min l 256.
Proof. exact serve_len_le_limit. Qed.
Print Assumptions c16_serve_len_le_limit.

Theorem c16_serve_below_pending : forall sfirst pending first l x,
  0 <= sfirst <= pending -> pending < two64 -> 0 <= first < two64 -> 0 <= l < two64 ->
  In x (serve sfirst pending first l) -> sfirst <= x /\ first <= x < pending.
Proof. exact serve_below_pending. Qed.
Print Assumptions c16_serve_below_pending.

Theorem c16_serve_complete : forall sfirst pending first l,
  0 <= sfirst <= pending -> pending < two64 -> 0 <= l < two64 -> sfirst <= first < pending ->
  Z.of_nat (length (serve sfirst pending first l)) = Z.min (Z.min l 256) (pending - first).
Proof. exact serve_complete. Qed.
Print Assumptions c16_serve_complete.

Theorem c16_client_sequential : forall (A : Type) (inst : A -> Z) first limit (stream : list A) idx,
  exists n, (n <= limit)%nat /\
    map inst (client_recv inst first limit idx stream) = zseq (first + idx) n /\
    client_recv inst first limit idx stream = firstn n stream.
Proof. exact client_sequential. Qed.
Print Assumptions c16_client_sequential.

Theorem c16_poller_stores_valid_prefix :
  forall (cert tbl : Type) (validate : tbl -> Z -> cert -> option tbl) responses s st rc s' st' rc',
  poll cert tbl validate s responses st rc = (s', st', rc') ->
  exists added, p_store _ _ s' = p_store _ _ s ++ added /\
      p_next _ _ s' = p_next _ _ s + Z.of_nat (length added) /\
      valid_run cert tbl validate (p_tbl _ _ s) (p_next _ _ s) added = Some (p_tbl _ _ s').
Proof. exact poller_stores_valid_prefix. Qed.
Print Assumptions c16_poller_stores_valid_prefix.

Theorem c16_poller_illegal_on_invalid :
  forall (cert tbl : Type) (validate : tbl -> Z -> cert -> option tbl) s pending cs rest st rc,
    (exists taken c more, cs = taken ++ c :: more /\
        valid_run cert tbl validate (p_tbl _ _ s) (p_next _ _ s) taken <> None /\
        (forall t, valid_run cert tbl validate (p_tbl _ _ s) (p_next _ _ s) taken = Some t ->
                   validate t (p_next _ _ s + Z.of_nat (length taken)) c = None)) ->
    snd (fst (poll cert tbl validate s (Some (pending, cs) :: rest) st rc)) = PollIllegal.
Proof. exact poller_illegal_on_invalid. Qed.
Print Assumptions c16_poller_illegal_on_invalid.

(* The per-certificate loop next to the node's own progress: certificates stored locally (by GPBFT) while the request is
   in flight or between two certificates of the response.  Whatever happens locally, an honest response is never
   classified as illegal, the cursor advances exactly by the number of certificates in it, all of them count as received,
   and the store ends at or beyond the end of that prefix. *)
Theorem c16_poll_with_local_progress : forall its s, ls_illegal s = false -> honest_from (ls_next s) its ->
  let s' := PollLocal.lrun s its in
  ls_illegal s' = false /\ ls_next s' = ls_next s + ncerts its /\ ls_received s' = ls_received s + ncerts its /\
  ls_latest s <= ls_latest s' /\ (0 < ncerts its -> ls_next s' - 1 <= ls_latest s').
Proof. exact honest_response_advances. Qed.
Print Assumptions c16_poll_with_local_progress.

Theorem c16_poll_illegal_is_final : forall its s, ls_illegal s = true -> PollLocal.lrun s its = s.
Proof. exact illegal_is_final. Qed.
Print Assumptions c16_poll_illegal_is_final.

(* ARBITRARY responses next to arbitrary local progress: the cursor advances exactly by the longest sequential valid
   prefix; the verdict is illegal exactly when some certificate lies beyond that prefix. *)
Theorem c16_poll_any_response_valid_prefix : forall its s, ls_illegal s = false ->
  ls_next (PollLocal.lrun s its) = ls_next s + valid_prefix (ls_next s) its /\
  ls_received (PollLocal.lrun s its) = ls_received s + valid_prefix (ls_next s) its /\
  ls_illegal (PollLocal.lrun s its) = negb (all_valid (ls_next s) its) /\
  ls_latest s <= ls_latest (PollLocal.lrun s its).
Proof. exact any_response_advances_by_valid_prefix. Qed.
Print Assumptions c16_poll_any_response_valid_prefix.

(* non-vacuity: two valid certificates around a local put, then a forged one *)
Example c16_poll_local_example :
  let s := PollLocal.lrun (mkLS 3 2 0 0 false) [PCert 3 true; PLocal; PCert 4 true; PCert 5 false; PCert 6 true] in
  (ls_next s, ls_latest s, ls_received s, ls_new s, ls_illegal s) = (5, 4, 2, 1, true).
Proof. vm_compute. reflexivity. Qed.

(* Without local events the loop with local progress IS the consume loop of the multi-request poller model (the one the
   scripted-responder correspondence runs through): same cursor, same received count, same verdict. *)
Theorem c16_poll_local_refines_consume : forall cs next st rc latest nw,
  let '(s', rc', ill) := consume dcert unit dvalidate {| p_next := next; p_tbl := tt; p_store := st |} cs rc in
  let l := PollLocal.lrun (mkLS next latest (Z.of_nat rc) nw false) (map as_item cs) in
  ls_next l = p_next _ _ s' /\ ls_received l = Z.of_nat rc' /\ ls_illegal l = ill.
Proof. exact consume_is_lrun. Qed.
Print Assumptions c16_poll_local_refines_consume.

(* NewCertificates counts a subset of ReceivedCertificates and the cursor never moves back, for ANY response and ANY local
   progress (also after an illegal verdict). *)
Theorem c16_poll_counters : forall its s,
  ls_next s <= ls_next (PollLocal.lrun s its) /\
  0 <= ls_new (PollLocal.lrun s its) - ls_new s <= ls_received (PollLocal.lrun s its) - ls_received s.
Proof. exact new_counts_subset_of_received. Qed.
Print Assumptions c16_poll_counters.
