(* C08 — Quorum arithmetic is exact and quorums intersect on the whole power domain.
   Only statements + `exact`; the definitions of isStrongQuorum / hasWeakQuorum / divCeil /
   scalePower / couldReachStrongQuorumFor are GENERATED from /repo (Gen/QuorumGen.v). *)
From Coq Require Import ZArith List Bool.
From F3 Require Import GoInt QuorumGen QuorumProofs Sets.
Import ListNotations.
Open Scope Z_scope.

Theorem c08_strong_iff : forall part whole, 0 <= whole < two62 ->
  isStrongQuorum part whole = true <-> 3 * part >= 2 * whole.
Proof. exact strong_iff. Qed.
Print Assumptions c08_strong_iff.

Theorem c08_strong_overflow_refuted_outside_domain :
  exists part whole, 0 <= whole /\ isStrongQuorum part whole = true /\ ~ (3 * part >= 2 * whole).
Proof. exact strong_overflow_refuted. Qed.
Print Assumptions c08_strong_overflow_refuted_outside_domain.

Theorem c08_strong_intersect : forall a b whole, 0 <= whole < two62 -> a <= whole -> b <= whole ->
  isStrongQuorum a whole = true -> isStrongQuorum b whole = true -> 3 * (a + b - whole) >= whole.
Proof. exact strong_intersect. Qed.
Print Assumptions c08_strong_intersect.

Theorem c08_strong_intersect_exceeds_faulty : forall a b whole f, 0 <= whole < two62 -> a <= whole -> b <= whole ->
  3 * f < whole -> isStrongQuorum a whole = true -> isStrongQuorum b whole = true -> a + b - whole > f.
Proof. exact strong_intersect_exceeds_faulty. Qed.
Print Assumptions c08_strong_intersect_exceeds_faulty.

Theorem c08_weak_gt_third : forall part whole, 0 <= whole < two63 - 1 ->
  hasWeakQuorum part whole = true -> 3 * part > whole.
Proof. exact weak_gt_third. Qed.
Print Assumptions c08_weak_gt_third.

Theorem c08_weak_blocks_strong : forall p whole, 0 <= whole < two62 -> 0 <= p <= whole ->
  hasWeakQuorum p whole = true -> isStrongQuorum (whole - p) whole = false.
Proof. exact weak_blocks_strong. Qed.
Print Assumptions c08_weak_blocks_strong.

Theorem c08_could_reach_sound : forall support found senders total,
  0 <= total <= 65535 -> 0 <= support <= senders -> senders <= total ->
  couldReachStrongQuorumFor false support found senders total = false ->
  forall extra, 0 <= extra <= total - senders ->
    isStrongQuorum ((if found then support else 0) + extra) total = false.
Proof. exact could_reach_sound. Qed.
Print Assumptions c08_could_reach_sound.

Theorem c08_could_reach_sound_adv : forall support found senders total,
  0 <= total <= 65535 -> 0 <= support <= senders -> senders <= total ->
  couldReachStrongQuorumFor true support found senders total = false ->
  forall extra adv, 0 <= extra <= total - senders -> 0 <= 3 * adv <= total ->
    isStrongQuorum (Z.min ((if found then support else 0) + extra + adv) total) total = false.
Proof. exact could_reach_sound_adv. Qed.
Print Assumptions c08_could_reach_sound_adv.

Theorem c08_scaled_bounds : forall ps s, (forall y, In y ps -> 0 < y) -> In s (scaled_list ps) -> 0 <= s <= 65535.
Proof. exact scaled_bounds. Qed.
Print Assumptions c08_scaled_bounds.

Theorem c08_scaled_sum_le : forall ps, (forall y, In y ps -> 0 < y) -> sumZ (scaled_list ps) <= 65535.
Proof. exact scaled_sum_le. Qed.
Print Assumptions c08_scaled_sum_le.

Theorem c08_scaled_monotone : forall ps p q, (forall y, In y ps -> 0 < y) -> In p ps -> In q ps -> p <= q ->
  scaled_of (sumZ ps) p <= scaled_of (sumZ ps) q.
Proof. exact scaled_monotone. Qed.
Print Assumptions c08_scaled_monotone.

Theorem c08_no_overflow : forall part whole, 0 <= whole <= 65535 -> 0 <= part <= whole ->
  mul_i64 2 whole = 2 * whole /\ divCeil (2 * whole) 3 = (2 * whole + 2) / 3 /\ divCeil whole 3 = (whole + 2) / 3.
Proof. exact no_overflow. Qed.
Print Assumptions c08_no_overflow.

(* list form: two duplicate-free signer sets, each a strong quorum of the same table, share
   members whose weight is at least a third of the total — the lemma agreement (C01) rests on *)
Theorem c08_signer_sets_intersect : forall (pw : nat -> Z) (committee A B : list nat),
  (forall n, 0 <= pw n) -> NoDup committee -> NoDup A -> NoDup B -> incl A committee -> incl B committee ->
  0 <= wsum pw committee < two62 ->
  isStrongQuorum (wsum pw A) (wsum pw committee) = true ->
  isStrongQuorum (wsum pw B) (wsum pw committee) = true ->
  3 * wsum pw (filter (fun x => existsb (Nat.eqb x) B) A) >= wsum pw committee.
Proof. exact signer_sets_intersect. Qed.
Print Assumptions c08_signer_sets_intersect.
