(* C01 — Agreement: honest participants never decide different values in an instance.
   Layer S (Gpbft/Spec.v): the protocol over the monotone set of votes; Byzantine senders are arbitrary.
   The tie to the code is the conformance monitor: vote traces of real participants are replayed against
   `conforms`, which is proved to imply reachability in this transition system. *)
From Coq Require Import ZArith List Bool.
From F3 Require Import GoInt QuorumGen QuorumProofs Spec SpecProofs.
From F3 Require Instance InstanceRun InstanceNoPanic Refine RefineNode RefineNet RefineRun.
Import ListNotations.
Open Scope Z_scope.

Theorem c01_agreement : forall (power : nat -> Z) (committee : list nat) (honest : nat -> bool) (input : nat -> chain),
  (forall n, 0 <= power n) -> NoDup committee ->
  3 * byz_power power committee honest < total power committee ->
  forall vs v w, reachable power committee honest input vs ->
    decides power committee honest vs v -> decides power committee honest vs w -> v = w.
Proof. intros power committee honest input Hp _ Hb vs v w. exact (agreement power Hp committee honest input Hb vs v w). Qed.
Print Assumptions c01_agreement.

Theorem c01_reachable_inv : forall (power : nat -> Z) (committee : list nat) (honest : nat -> bool) (input : nat -> chain) vs,
  reachable power committee honest input vs -> Inv power committee honest input vs.
Proof. exact reachable_inv. Qed.
Print Assumptions c01_reachable_inv.

(* soundness of the executable monitor that ties real executions to this transition system *)
Theorem c01_guardb_sound : forall (power : nat -> Z) (committee : list nat) (honest : nat -> bool) (input : nat -> chain),
  NoDup committee -> forall vs v, guardb power committee honest input vs v = true -> guard power committee honest input vs v.
Proof. intros power committee honest input Hn. exact (guardb_sound power committee Hn honest input). Qed.
Print Assumptions c01_guardb_sound.

Theorem c01_conforming_trace_safe : forall (power : nat -> Z) (committee : list nat) (honest : nat -> bool) (input : nat -> chain),
  (forall n, 0 <= power n) -> NoDup committee ->
  3 * byz_power power committee honest < total power committee ->
  forall trace v w, conforms power committee honest input [] trace = true ->
    decides power committee honest (rev trace) v -> decides power committee honest (rev trace) w -> v = w.
Proof. intros power committee honest input Hp Hn Hb. exact (conforming_trace_safe power Hp committee Hn honest input Hb). Qed.
Print Assumptions c01_conforming_trace_safe.

(* the quorum predicate of Layer S (3 * power >= 2 * total) IS the code's IsStrongQuorum: the GENERATED predicate (re-translated
   from gpbft/gpbft.go on every run) is proved equal to it over the whole scaled-power domain *)
Theorem c01_quorum_predicate_is_the_code : forall part whole, 0 <= whole < QuorumProofs.two62 ->
  QuorumGen.isStrongQuorum part whole = true <-> 3 * part >= 2 * whole.
Proof. exact QuorumProofs.strong_iff. Qed.
Print Assumptions c01_quorum_predicate_is_the_code.

(* ---------- Layer N refines Layer S: agreement for networks of the EXECUTABLE instance model ----------
   RefineNet: any number of Layer-N instances (Gpbft/Instance.v, the model that the trace correspondence ties to
   gpbft.instance), started and scheduled arbitrarily, fed with admissible messages (the delivered vote was cast, the
   carried justification has the shape validation enforces and is backed by a strong quorum whose honest members cast
   that vote), plus Byzantine members casting arbitrary votes: the global vote history is reachable in Layer S ... *)
Theorem c01_network_refines_spec : forall (c : Instance.config) (honest : nat -> bool) (input : nat -> Instance.chain),
  InstanceNoPanic.committee_wf c -> Instance.c_total c <= 65535 -> (forall k, honest k = true -> input k <> []) ->
  forall acts, RefineNet.all_ok c honest (RefineNet.net0 input) acts ->
    reachable (Refine.power c) (Refine.committee c) honest input (RefineNet.n_votes (RefineNet.nrun c (RefineNet.net0 input) acts)).
Proof. exact RefineNet.network_refines_spec. Qed.
Print Assumptions c01_network_refines_spec.

(* ... hence no two honest members ever report different decisions *)
Theorem c01_network_agreement : forall (c : Instance.config) (honest : nat -> bool) (input : nat -> Instance.chain),
  InstanceNoPanic.committee_wf c -> Instance.c_total c <= 65535 -> (forall k, honest k = true -> input k <> []) ->
  3 * byz_power (Refine.power c) (Refine.committee c) honest < total (Refine.power c) (Refine.committee c) ->
  forall acts k1 k2 j1 j2, RefineNet.all_ok c honest (RefineNet.net0 input) acts ->
    RefineNet.member c honest k1 -> RefineNet.member c honest k2 ->
    Instance.i_term (RefineNet.n_inst (RefineNet.nrun c (RefineNet.net0 input) acts) k1) = Some j1 ->
    Instance.i_term (RefineNet.n_inst (RefineNet.nrun c (RefineNet.net0 input) acts) k2) = Some j2 ->
    Instance.j_value j1 = Instance.j_value j2.
Proof. exact RefineNet.network_agreement. Qed.
Print Assumptions c01_network_agreement.

(* the COMMIT lock on networks of the instance model: once a strong quorum has committed v0 in round r0, v0 is the only value that
   can gather a strong PREPARE quorum in any later round and bottom can never gather a strong COMMIT quorum *)
Theorem c01_network_commit_lock : forall (c : Instance.config) (honest : nat -> bool) (input : nat -> Instance.chain),
  InstanceNoPanic.committee_wf c -> Instance.c_total c <= 65535 -> (forall k, honest k = true -> input k <> []) ->
  3 * byz_power (Refine.power c) (Refine.committee c) honest < total (Refine.power c) (Refine.committee c) ->
  forall acts r0 v0 r, RefineNet.all_ok c honest (RefineNet.net0 input) acts ->
    SQ (Refine.power c) (Refine.committee c) honest (RefineNet.n_votes (RefineNet.nrun c (RefineNet.net0 input) acts)) r0 COMMIT (Some v0) -> (r0 <= r)%nat ->
    (forall x, SQ (Refine.power c) (Refine.committee c) honest (RefineNet.n_votes (RefineNet.nrun c (RefineNet.net0 input) acts)) r PREPARE x -> x = Some v0) /\
    ~ SQ (Refine.power c) (Refine.committee c) honest (RefineNet.n_votes (RefineNet.nrun c (RefineNet.net0 input) acts)) r COMMIT None.
Proof. exact RefineNet.network_commit_lock. Qed.
Print Assumptions c01_network_commit_lock.

(* the executable schedule checker (used for the example below and for replaying real multi-node runs) is sound *)
Theorem c01_schedule_checker_sound : forall (c : Instance.config) (honest : nat -> bool) (input : nat -> Instance.chain) acts n,
  RefineRun.all_okb c honest n acts = true -> RefineNet.all_ok c honest n acts.
Proof. intros c honest input acts n. apply RefineRun.all_okb_sound. exact input. Qed.
Print Assumptions c01_schedule_checker_sound.

(* non-vacuity: 3 honest members (inputs [1;2;3], [1;2;3], [1;2]) and a Byzantine one (just under a third) that votes for a
   foreign chain and for bottom; every broadcast is delivered to everybody, alarms fire when nothing is in flight; the
   schedule (186 actions) satisfies all hypotheses and every honest member decides [1;2] in round 1 *)
Definition nx_cfg := Instance.mkCfg [16384; 16384; 16384; 16383] 65535 5 3 2000 [2000; 3000; 4500] [700; 900; 1100].
Definition nx_honest := fun n : nat => negb (Nat.eqb n 3).
Definition nx_input := fun n : nat => match n with 0%nat => [1;2;3] | 1%nat => [1;2;3] | _ => [1;2] end.
Definition nx_byz := [RefineNet.AByz (V 3 0 QUALITY (Some [1;9])); RefineNet.AByz (V 3 0 PREPARE (Some [1;9])); RefineNet.AByz (V 3 0 COMMIT None)].
Definition nx_msgs := [Instance.mkM 3 0 Instance.QUALITY [1;9] 0 None; Instance.mkM 3 0 Instance.PREPARE [1;9] 0 None; Instance.mkM 3 0 Instance.COMMIT [] 0 None].
Definition nx_acts := RefineRun.auto_actions_from nx_cfg nx_input nx_byz nx_msgs [0;1;2] 60.
Example c01_network_example :
  InstanceRun.cfg_wfb nx_cfg = true /\
  RefineRun.all_okb nx_cfg nx_honest (RefineNet.net0 nx_input) nx_acts = true /\
  (3 * byz_power (Refine.power nx_cfg) (Refine.committee nx_cfg) nx_honest <? total (Refine.power nx_cfg) (Refine.committee nx_cfg)) = true /\
  map (fun k => option_map Instance.j_value (Instance.i_term (RefineNet.n_inst (RefineNet.nrun nx_cfg (RefineNet.net0 nx_input) nx_acts) k))) [0;1;2]
    = [Some [1;2]; Some [1;2]; Some [1;2]].
Proof. vm_compute. repeat split. Qed.

(* non-vacuity: a reachable execution with an equivocating Byzantine participant and a decision *)
Example c01_example :
  let power := fun _ : nat => 1 in let committee := [0; 1; 2; 3]%nat in
  let honest := fun n => negb (Nat.eqb n 3) in let input := fun _ : nat => [1; 2] in
  let tr := [V 0 0 QUALITY (Some [1;2]); V 1 0 QUALITY (Some [1;2]); V 2 0 QUALITY (Some [1;2]); V 3 0 QUALITY (Some [1;9]); V 3 0 QUALITY (Some [1]);
             V 0 0 PREPARE (Some [1;2]); V 1 0 PREPARE (Some [1;2]); V 2 0 PREPARE (Some [1;2]); V 3 0 PREPARE (Some [1]);
             V 0 0 COMMIT (Some [1;2]); V 1 0 COMMIT (Some [1;2]); V 2 0 COMMIT (Some [1;2]); V 3 0 COMMIT None;
             V 0 0 DECIDE (Some [1;2]); V 1 0 DECIDE (Some [1;2]); V 2 0 DECIDE (Some [1;2])] in
  conforms power committee honest input [] tr = true /\ sqb power committee honest (rev tr) 0 DECIDE (Some [1;2]) = true.
Proof. split; vm_compute; reflexivity. Qed.
