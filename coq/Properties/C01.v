(* C01 — Agreement: honest participants never decide different values in an instance.
   Layer S (Gpbft/Spec.v): the protocol over the monotone set of votes; Byzantine senders are arbitrary.
   The tie to the code is the conformance monitor: vote traces of real participants are replayed against
   `conforms`, which is proved to imply reachability in this transition system. *)
From Coq Require Import ZArith List Bool.
From F3 Require Import GoInt QuorumGen QuorumProofs Spec SpecProofs.
Import ListNotations.
Open Scope Z_scope.

Theorem c01_agreement : forall (power : nat -> Z) (committee : list nat) (honest : nat -> bool) (input : nat -> chain),
  (forall n, 0 <= power n) -> NoDup committee ->
  3 * byz_power power committee honest < total power committee ->
  forall vs v w, reachable power committee honest input vs ->
    decides power committee honest vs v -> decides power committee honest vs w -> v = w.
Proof. intros power committee honest input Hp _ Hb vs v w. exact (agreement power Hp committee honest input Hb vs v w). Qed.
Print Assumptions c01_agreement.

Theorem c01_reachable_inv : forall (power : nat -> Z) (committee : list nat) (honest : nat -> bool) (input : nat -> chain) vs,
  reachable power committee honest input vs -> Inv power committee honest input vs.
Proof. exact reachable_inv. Qed.
Print Assumptions c01_reachable_inv.

(* soundness of the executable monitor that ties real executions to this transition system *)
Theorem c01_guardb_sound : forall (power : nat -> Z) (committee : list nat) (honest : nat -> bool) (input : nat -> chain),
  NoDup committee -> forall vs v, guardb power committee honest input vs v = true -> guard power committee honest input vs v.
Proof. intros power committee honest input Hn. exact (guardb_sound power committee Hn honest input). Qed.
Print Assumptions c01_guardb_sound.

Theorem c01_conforming_trace_safe : forall (power : nat -> Z) (committee : list nat) (honest : nat -> bool) (input : nat -> chain),
  (forall n, 0 <= power n) -> NoDup committee ->
  3 * byz_power power committee honest < total power committee ->
  forall trace v w, conforms power committee honest input [] trace = true ->
    decides power committee honest (rev trace) v -> decides power committee honest (rev trace) w -> v = w.
Proof. intros power committee honest input Hp Hn Hb. exact (conforming_trace_safe power Hp committee Hn honest input Hb). Qed.
Print Assumptions c01_conforming_trace_safe.

(* the quorum predicate of Layer S (3 * power >= 2 * total) IS the code's IsStrongQuorum: the GENERATED predicate (re-translated
   from gpbft/gpbft.go on every run) is proved equal to it over the whole scaled-power domain *)
Theorem c01_quorum_predicate_is_the_code : forall part whole, 0 <= whole < QuorumProofs.two62 ->
  QuorumGen.isStrongQuorum part whole = true <-> 3 * part >= 2 * whole.
Proof. exact QuorumProofs.strong_iff. Qed.
Print Assumptions c01_quorum_predicate_is_the_code.

(* non-vacuity: a reachable execution with an equivocating Byzantine participant and a decision *)
Example c01_example :
  let power := fun _ : nat => 1 in let committee := [0; 1; 2; 3]%nat in
  let honest := fun n => negb (Nat.eqb n 3) in let input := fun _ : nat => [1; 2] in
  let tr := [V 0 0 QUALITY (Some [1;2]); V 1 0 QUALITY (Some [1;2]); V 2 0 QUALITY (Some [1;2]); V 3 0 QUALITY (Some [1;9]); V 3 0 QUALITY (Some [1]);
             V 0 0 PREPARE (Some [1;2]); V 1 0 PREPARE (Some [1;2]); V 2 0 PREPARE (Some [1;2]); V 3 0 PREPARE (Some [1]);
             V 0 0 COMMIT (Some [1;2]); V 1 0 COMMIT (Some [1;2]); V 2 0 COMMIT (Some [1;2]); V 3 0 COMMIT None;
             V 0 0 DECIDE (Some [1;2]); V 1 0 DECIDE (Some [1;2]); V 2 0 DECIDE (Some [1;2])] in
  conforms power committee honest input [] tr = true /\ sqb power committee honest (rev tr) 0 DECIDE (Some [1;2]) = true.
Proof. split; vm_compute; reflexivity. Qed.
