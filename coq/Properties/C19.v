(* C19 — Test tooling is faithful: sound simulator oracle, certchain uses node rules.
   certchain_lookback_index / certchain_uses_cert (certchain/certchain.go), node_lookback_instance /
   node_bootstrap (consensus_inputs.go) and sim_lacks_quorum (sim/ec.go) are GENERATED from /repo. *)
From Coq Require Import ZArith List Bool.
From F3 Require Import GoInt QuorumGen QuorumProofs ToolingGen Table Validate Tooling ToolingProofs.
Import ListNotations.
Open Scope Z_scope.

Theorem c19_certchain_lookback_eq_node : forall instance lookback initial,
  0 <= initial -> 0 <= lookback -> initial + lookback <= instance < two64 ->
  certchain_uses_cert instance lookback initial = true /\
  node_bootstrap instance lookback initial = false /\
  initial + certchain_lookback_index instance lookback initial = node_lookback_instance instance lookback initial.
Proof. exact certchain_lookback_eq_node. Qed.
Print Assumptions c19_certchain_lookback_eq_node.

Theorem c19_certchain_bootstrap_eq_node : forall instance lookback initial,
  0 <= initial -> 0 <= lookback -> initial + lookback < two64 -> 0 <= instance < initial + lookback ->
  certchain_uses_cert instance lookback initial = false /\ node_bootstrap instance lookback initial = true.
Proof. exact certchain_bootstrap_eq_node. Qed.
Print Assumptions c19_certchain_bootstrap_eq_node.

Theorem c19_oracle_sound : forall inst base_head scaled total keys net d, 0 <= total < two62 ->
  validate_decision inst base_head scaled total keys net d = None ->
  j_inst d = inst /\ j_phase d = 5 /\ j_round d = 0 /\
  (exists b rest, j_chain d = b :: rest /\ tipset_eqb base_head b = true) /\
  Forall (fun i => i < Z.of_nat (length scaled)) (j_signers d) /\
  3 * sumZ (map (fun i => nth (Z.to_nat i) scaled 0) (j_signers d)) >= 2 * total /\
  agg_ok keys net d = true.
Proof. exact oracle_sound. Qed.
Print Assumptions c19_oracle_sound.

Theorem c19_oracle_rejects_bad : forall inst base_head scaled total keys net d, 0 <= total < two62 ->
  (j_inst d <> inst \/ j_phase d <> 5 \/ j_round d <> 0 \/ j_chain d = [] \/
   (exists b rest, j_chain d = b :: rest /\ tipset_eqb base_head b = false) \/
   (exists pw, sum_scaled scaled (j_signers d) 0 = Some pw /\ 3 * pw < 2 * total) \/
   agg_ok keys net d = false) ->
  validate_decision inst base_head scaled total keys net d <> None.
Proof. exact oracle_rejects_bad. Qed.
Print Assumptions c19_oracle_rejects_bad.

Theorem c19_reached_consensus_sound : forall members dec res, members <> [] ->
  reached_consensus members dec None = Some res ->
  exists c0, res = Some c0 /\ forall p, In p members -> exists c, dec p = Some c /\ chain_eqb c c0 = true.
Proof. exact reached_consensus_sound. Qed.
Print Assumptions c19_reached_consensus_sound.

Theorem c19_reached_consensus_detects : forall members dec p, In p members ->
  (dec p = None \/ exists q c1 c2, In q members /\ dec p = Some c1 /\ dec q = Some c2 /\ chain_eqb c1 c2 = false /\ chain_eqb c2 c1 = false) ->
  (forall c, chain_eqb c c = true) -> (forall a b c, chain_eqb a c = true -> chain_eqb b c = true -> chain_eqb a b = true) ->
  reached_consensus members dec None = None.
Proof. exact reached_consensus_detects. Qed.
Print Assumptions c19_reached_consensus_detects.
