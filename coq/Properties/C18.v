(* C18 — Chain exchange: admitted chains are retrievable by key, wanted chains are kept.
   Model: ChainEx/Cache.v (hashicorp LRU semantics + the caches and validator of chainexchange/pubsub.go). *)
From Coq Require Import ZArith List Bool.
From F3 Require Import Cache CacheProofs.
Import ListNotations.
Open Scope Z_scope.

Theorem c18_lookup_key_matches : forall capw capd s i k s' c, KInv s -> lookup capw capd s i k = (s', Some c) -> c = k /\ KInv s'.
Proof. exact lookup_key_matches. Qed.
Print Assumptions c18_lookup_key_matches.

Theorem c18_KInv_lookup : forall capw capd s i k, KInv s -> KInv (fst (lookup capw capd s i k)).
Proof. exact lookup_preserves_KInv. Qed.
Print Assumptions c18_KInv_lookup.
Theorem c18_KInv_wanted : forall capw s i c, KInv s -> KInv (cache_as_wanted capw s i c).
Proof. exact wanted_preserves_KInv. Qed.
Print Assumptions c18_KInv_wanted.
Theorem c18_KInv_discovered : forall capw capd s i c, KInv s -> KInv (cache_as_discovered capw capd s i c).
Proof. exact discovered_preserves_KInv. Qed.
Print Assumptions c18_KInv_discovered.
Theorem c18_KInv_prune : forall s n, KInv s -> KInv (prune s n).
Proof. exact prune_preserves_KInv. Qed.
Print Assumptions c18_KInv_prune.

Theorem c18_admitted_retrievable : forall capw capd s i c, KInv s ->
  (forall p, In p (all_prefixes c) -> lru_find (inst_get (wanted s) i) p = None) ->
  (forall k, lru_find (inst_get (discovered s) i) k <> Some Placeholder) ->
  (length (inst_get (discovered s) i) + length (all_prefixes c) <= capd)%nat ->
  forall p, In p (all_prefixes c) -> p <> [] ->
    snd (lookup capw capd (cache_as_discovered capw capd s i c) i p) = Some p.
Proof. exact admitted_retrievable. Qed.
Print Assumptions c18_admitted_retrievable.

Theorem c18_unsolicited_keeps_wanted : forall capw capd s i c,
  (forall p, In p (all_prefixes c) -> lru_find (inst_get (wanted s) i) p = None) ->
  forall j, inst_get (wanted (cache_as_discovered capw capd s i c)) j = inst_get (wanted s) j.
Proof. exact unsolicited_keeps_wanted. Qed.
Print Assumptions c18_unsolicited_keeps_wanted.

Theorem c18_asked_then_admitted_is_wanted : forall capw capd s i k, (1 <= capw)%nat -> k <> [] ->
  lru_find (inst_get (wanted s) i) k = Some Placeholder ->
  exists w', inst_get (wanted (cache_as_discovered capw capd s i k)) i = w' /\
    (lru_find w' k = Some (Chain k) \/ (length (all_prefixes k) > capw)%nat).
Proof. exact asked_then_admitted_is_wanted. Qed.
Print Assumptions c18_asked_then_admitted_is_wanted.

Theorem c18_wanted_retained : forall capw capd s i k (floods : list chain),
  k <> [] -> lru_find (inst_get (wanted s) i) k = Some (Chain k) ->
  (forall u p, In u floods -> In p (all_prefixes u) -> lru_find (inst_get (wanted s) i) p = None) ->
  snd (lookup capw capd (fold_left (fun s u => cache_as_discovered capw capd s i u) floods s) i k) = Some k.
Proof. exact wanted_retained. Qed.
Print Assumptions c18_wanted_retained.

Theorem c18_prune_exact : forall s n i,
  inst_get (wanted (prune s n)) i = (if i <? n then [] else inst_get (wanted s) i) /\
  inst_get (discovered (prune s n)) i = (if i <? n then [] else inst_get (discovered s) i).
Proof. exact prune_exact. Qed.
Print Assumptions c18_prune_exact.

Theorem c18_admission_spec : forall cur lookahead input_base now age m,
  validator_verdict cur lookahead input_base now age m = Accept <->
  b_decodes m = true /\ b_chain_valid m = true /\
  (exists base rest, b_chain m = base :: rest /\ (forall ib, input_base = Some ib -> b_inst m = cur -> ib = base)) /\
  cur <= b_inst m <= cur + lookahead /\ now - age <= b_ts m <= now.
Proof. exact admission_spec. Qed.
Print Assumptions c18_admission_spec.

(* non-vacuity: ask, receive, flood with more unsolicited chains than the discovered cache holds, ask again *)
Example c18_flood :
  let s1 := fst (lookup 4 2 cx_empty 7 [1; 2; 3]) in
  let s2 := cache_as_discovered 4 2 s1 7 [1; 2; 3] in
  let s3 := fold_left (fun s u => cache_as_discovered 4 2 s 7 u) [[9; 8]; [9; 7]; [9; 6]; [9; 5]] s2 in
  snd (lookup 4 2 s3 7 [1; 2; 3]) = Some [1; 2; 3].
Proof. vm_compute. reflexivity. Qed.
