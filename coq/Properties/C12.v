(* C12 — A node never self-equivocates on the wire, across requests and restarts.
   Model: Equiv/Filter.v (equivocation.go's filter, exact; host.go's broadcast / rebroadcast / restart path). *)
From Coq Require Import ZArith List Bool.
From F3 Require Import Filter FilterProofs.
Import ListNotations.
Open Scope Z_scope.

Theorem c12_wire_no_equivocation : forall local ours h, reachable local ours h -> conflict_free (h_wire h).
Proof. exact wire_no_equivocation. Qed.
Print Assumptions c12_wire_no_equivocation.

Theorem c12_wire_no_older_instance : forall local ours h, reachable local ours h -> nondecreasing (h_wire h).
Proof. exact wire_no_older_instance. Qed.
Print Assumptions c12_wire_no_older_instance.

Theorem c12_wire_logged_first : forall local ours h, reachable local ours h -> incl (h_wire h) (h_ever h).
Proof. exact wire_logged_first. Qed.
Print Assumptions c12_wire_logged_first.

Theorem c12_hstep_inv : forall local ours h o, HInv local ours h -> op_ok ours h o -> HInv local ours (hstep local h o).
Proof. exact hstep_inv. Qed.
Print Assumptions c12_hstep_inv.

Theorem c12_replay_coherent : forall local l, conflict_free l -> Forall (fun m => 0 <= m_inst m) l ->
  coherent local 0 (replay local l) l.
Proof. exact replay_coherent. Qed.
Print Assumptions c12_replay_coherent.

Theorem c12_replay_perm_invariant : forall local l1 l2, conflict_free l1 -> Forall (fun m => 0 <= m_inst m) l1 ->
  (forall m, In m l1 <-> In m l2) -> Forall (fun m => 0 <= m_inst m) l2 ->
  f_cur (replay local l1) = f_cur (replay local l2) /\ forall k, sg (replay local l1) k = sg (replay local l2) k.
Proof. exact replay_perm_invariant. Qed.
Print Assumptions c12_replay_perm_invariant.

(* non-vacuity: a history with a conflicting request, a crash, a restart and a purge *)
Example c12_history :
  let a := mkMsg 3 7 0 2 11 in let a' := mkMsg 3 7 0 2 12 in let b := mkMsg 4 7 0 1 13 in let c := mkMsg 9 7 0 1 14 in
  h_wire (hrun 1 [HBroadcast a; HBroadcast a'; HCrashAfterWal b; HBroadcast (mkMsg 4 7 0 1 99); HBroadcast b; HRestart;
                  HBroadcast a'; HPurge 5 [true; true]; HRestart; HBroadcast c; HRebroadcast c])
  = [a; b; c; c].
Proof. vm_compute. reflexivity. Qed.
