(* C05: Message validation is sound, complete when relevant, and history-independent.
   Model: Gpbft/Validator.v (hand-written mirror of gpbft/validator.go; validateByProgress is GENERATED from the
   source), tied to the real cachingValidator by the history correspondence (harness c05.go). *)
From Coq Require Import ZArith List Bool.
From F3 Require Import GoInt QuorumGen ProgressGen Validator ValidatorProofs ValidatorTablesGen ValidatorTables.
Import ListNotations.
Open Scope Z_scope.

(* the verdict never depends on what was validated before: a warm validator (any cache whose entries were validated
   against the committee of their own instance, which the validator maintains) answers like a fresh one *)
Theorem C05_history_independent : forall net cmts cm c partial m,
  CacheOK net cmts c -> cmts (v_inst (g_vote m)) = Some cm ->
  fst (validate_with_key net (Some cm) c partial m) = fst (validate_with_key net (Some cm) cache_empty partial m).
Proof. exact history_independent. Qed.
Print Assumptions C05_history_independent.
Theorem C05_cache_invariant : forall net cmts cm c partial m,
  CacheOK net cmts c -> cmts (v_inst (g_vote m)) = Some cm ->
  CacheOK net cmts (snd (validate_with_key net (Some cm) c partial m)).
Proof. exact validate_with_key_cache. Qed.
Print Assumptions C05_cache_invariant.
Theorem C05_cache_empty : forall net cmts, CacheOK net cmts cache_empty.
Proof. exact CacheOK_empty. Qed.
Print Assumptions C05_cache_empty.

(* the verdict is exactly the rule set `accepts`: accepted <-> rules hold; a rule-abiding message is never branded invalid *)
Theorem C05_verdict : forall net cmts cm c partial m,
  CacheOK net cmts c -> cmts (v_inst (g_vote m)) = Some cm ->
  fst (validate_with_key net (Some cm) c partial m) = (if accepts net cm partial m then VOk else VInvalid).
Proof. exact validate_with_key_verdict. Qed.
Print Assumptions C05_verdict.

(* soundness: the rule set implies every clause of the property (sender, value, step constraints, signature over the
   exact payload, justification exactly when required with the prescribed shape and a verifying strong-quorum aggregate) *)
Theorem C05_sound : forall net cmt m, accepts net cmt None m = true -> ValidMsg net cmt m.
Proof. exact accepts_sound. Qed.
Print Assumptions C05_sound.

(* completeness when relevant: ValidateMessage consults nothing but the generated relevance test and the rule set *)
Theorem C05_complete_when_relevant : forall net cmts cm c p lb m,
  CacheOK net cmts c -> cmts (v_inst (g_vote m)) = Some cm ->
  by_progress p lb m = None -> accepts net cm None m = true ->
  fst (validate_message net (Some cm) c p lb m) = VOk.
Proof.
  intros net cmts cm c p lb m HC Hcm Hp Ha. unfold validate_message. rewrite Hp.
  rewrite (validate_with_key_verdict net cmts cm c None m HC Hcm), Ha. reflexivity.
Qed.
Print Assumptions C05_complete_when_relevant.

(* non-vacuity: a concrete QUALITY message and a justified COMMIT are accepted; a forged twin is not *)
Definition ex_cmt := mkCmt [mkMem 1 30000 11; mkMem 2 20000 12; mkMem 3 15535 13] 65535.
Definition ex_q := mkG 1 (mkVote 10 0 1 7 (mkCh 5 true)) (Some (11, mkPd 1 10 0 1 7 5)) None None.
Definition ex_j := mkJust (mkVote 10 2 3 7 (mkCh 5 true)) [0; 1] (Some ([11; 12], mkPd 1 10 2 3 7 5)).
Definition ex_c := mkG 2 (mkVote 10 2 4 7 (mkCh 5 true)) (Some (12, mkPd 1 10 2 4 7 5)) None (Some ex_j).
Definition ex_c_forged := mkG 2 (mkVote 10 2 4 7 (mkCh 6 true)) (Some (12, mkPd 1 10 2 4 7 6)) None (Some ex_j).
Example C05_nonvacuous :
  accepts 1 ex_cmt None ex_q = true /\ accepts 1 ex_cmt None ex_c = true /\ accepts 1 ex_cmt None ex_c_forged = false /\
  by_progress (mkProg 10 2 3) 2 ex_c = None.
Proof. vm_compute. repeat split. Qed.

(* the justification-expectation table the model consults IS the table of gpbft/validator.go, regenerated from the source
   on every run (message step -> admissible justification steps -> demanded round and value) *)
Theorem C05_expectation_table_is_the_code : forall mp mr jp key,
  expectation mp mr jp key = expectation_gen mp mr jp key.
Proof. exact expectation_is_the_generated_table. Qed.
Print Assumptions C05_expectation_table_is_the_code.

(* the REAL cache (internal/caching.GroupedSet: two generations per Set, least-recently-used group eviction, pooled Sets),
   modelled exactly in Gpbft/CacheModel.v and replayed against the implementation: after ANY history of Add / Contains /
   RemoveGroupsLessThan, with any capacities, a positive Contains(g, k) -- and an Add(g, k) reporting "already there" --
   was preceded by an Add(g, k).  Eviction can only forget.  Together with C05_history_independent (the verdict is the same
   for ANY cache all of whose entries were validated) no eviction policy can make a verdict depend on the history. *)
From F3 Require CacheModel CacheModelProofs.
Theorem C05_cache_contains_only_what_was_added : forall mg ms ops g k,
  snd (CacheModel.g_contains (CacheModelProofs.crun mg ms CacheModel.g_empty ops) g k) = true -> In (CacheModel.CAdd g k) ops.
Proof. exact CacheModelProofs.contains_only_what_was_added. Qed.
Print Assumptions C05_cache_contains_only_what_was_added.
Theorem C05_cache_add_reports_old_only_if_added : forall mg ms ops g k,
  snd (CacheModel.g_add mg ms (CacheModelProofs.crun mg ms CacheModel.g_empty ops) g k) = false -> In (CacheModel.CAdd g k) ops.
Proof. exact CacheModelProofs.add_reports_old_only_if_added. Qed.
Print Assumptions C05_cache_add_reports_old_only_if_added.
Theorem C05_cache_added_is_contained : forall mg ms c g k,
  snd (CacheModel.g_contains (fst (CacheModel.g_add mg ms c g k)) g k) = true.
Proof. exact CacheModelProofs.added_is_contained. Qed.
Print Assumptions C05_cache_added_is_contained.
