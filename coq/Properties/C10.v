(* C10 — Certificate store operations are crash-atomic at datastore-write granularity. *)
From Coq Require Import ZArith List Bool.
From F3 Require Import GoInt ListX Table Validate CertStore StoreProofs.
Import ListNotations.
Open Scope Z_scope.

Theorem c10_put_crash_atomic : forall toks s tabs c ws npt,
  inv toks s tabs -> put_plan toks s c = PutOk ws npt ->
  forall k, (k <= length ws)%nat ->
  let d' := apply_writes (s_ds s) (firstn k ws) in
  ((k < length ws)%nat ->
     let s' := mkS d' (s_first s) (s_freq s) (s_latest s) (s_pt s) in
     open_store (s_freq s) d' = inr s' /\ inv toks s' tabs /\ put_plan toks s' c = PutOk ws npt) /\
  (k = length ws -> open_store (s_freq s) d' = inr (fst (put toks s c))).
Proof. exact put_crash_atomic. Qed.
Print Assumptions c10_put_crash_atomic.

Theorem c10_create_crash_atomic : forall freq d first pt, fresh d -> pt <> [] ->
  forall k, (k < 2)%nat ->
  let d' := apply_writes d (firstn k (create_writes first pt)) in
  open_store freq d' = inl ENotInitialized /\
  exists s, create_store freq d' first pt = inr s /\
            (forall j, d_power (s_ds s) j = d_power (apply_writes d (create_writes first pt)) j) /\
            d_first (s_ds s) = Some first /\ s_latest s = None /\ s_pt s = pt.
Proof. exact create_crash_atomic. Qed.
Print Assumptions c10_create_crash_atomic.

Theorem c10_wipe_resumed : forall freq d, d_tomb d = true \/ d_rawtomb d = true ->
  continue_delete d = ds_empty /\ open_store freq d = inl ENotInitialized /\
  forall first pt, pt <> [] -> exists s, create_store freq d first pt = inr s /\
       s_ds s = apply_writes ds_empty (create_writes first pt).
Proof. exact wipe_resumed. Qed.
Print Assumptions c10_wipe_resumed.

Theorem c10_wipe_any_partial_deletion : forall freq d (dels : list write),
  (forall w, In w dels -> match w with WDelCert _ | WDelPower _ | WDelLatest | WDelFirst => True | _ => False end) ->
  open_store freq (apply_writes (apply_write d WTomb) dels) = inl ENotInitialized.
Proof. exact wipe_any_partial_deletion. Qed.
Print Assumptions c10_wipe_any_partial_deletion.

Theorem c10_reopen_identity : forall toks s tabs, inv toks s tabs -> open_store (s_freq s) (s_ds s) = inr s.
Proof. exact reopen_identity. Qed.
Print Assumptions c10_reopen_identity.
