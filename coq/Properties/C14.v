(* C14: Encodings: signed bytes bind every field, chain keys agree, codecs are robust.
   Models: Enc/Payload.v (byte-level signing encodings), Enc/Merkle.v (Tree / BatchTree over an abstract collision-free
   hash), Enc/Cbor.v (cbor-gen item headers); tied to the code by byte-for-byte / digest-for-digest correspondence. *)
From Coq Require Import ZArith List Bool.
From F3 Require Import Payload PayloadProofs Merkle MerkleProofs Cbor CborProofs Codec CodecProofs CodecSound CidModel SchemasGen.
Import ListNotations.

(* the signed bytes determine every field (same network; and across networks when CIDs have equal length) *)
Theorem C14_payload_inj : forall tag nn p r i c k cid p' r' i' c' k' cid',
  (0 <= r < 2 ^ 64 -> 0 <= r' < 2 ^ 64 -> 0 <= i < 2 ^ 64 -> 0 <= i' < 2 ^ 64 ->
  length c = length c' -> length k = length k' ->
  marshal_payload tag nn p r i c k cid = marshal_payload tag nn p' r' i' c' k' cid' ->
  p = p' /\ r = r' /\ i = i' /\ c = c' /\ k = k' /\ cid = cid')%Z.
Proof. exact marshal_payload_inj. Qed.
Print Assumptions C14_payload_inj.
Theorem C14_payload_inj_net : forall tag nn p r i c k cid nn' p' r' i' c' k' cid',
  (0 <= r < 2 ^ 64 -> 0 <= r' < 2 ^ 64 -> 0 <= i < 2 ^ 64 -> 0 <= i' < 2 ^ 64 ->
  length c = length c' -> length k = length k' -> length cid = length cid' ->
  marshal_payload tag nn p r i c k cid = marshal_payload tag nn' p' r' i' c' k' cid' ->
  nn = nn' /\ p = p' /\ r = r' /\ i = i' /\ c = c' /\ k = k' /\ cid = cid')%Z.
Proof. exact marshal_payload_inj_net. Qed.
Print Assumptions C14_payload_inj_net.
Theorem C14_tipset_inj : forall e c t p e' c' t' p',
  (- 2 ^ 63 <= e < 2 ^ 63 -> - 2 ^ 63 <= e' < 2 ^ 63 -> length c = length c' -> length t = length t' ->
  marshal_tipset e c t p = marshal_tipset e' c' t' p' -> e = e' /\ c = c' /\ t = t' /\ p = p')%Z.
Proof. exact marshal_tipset_inj. Qed.
Print Assumptions C14_tipset_inj.
Theorem C14_vrf_inj : forall tag nn b i r b' i' r',
  (0 <= r < 2 ^ 64 -> 0 <= r' < 2 ^ 64 -> 0 <= i < 2 ^ 64 -> 0 <= i' < 2 ^ 64 -> length b = length b' ->
  marshal_vrf tag nn b i r = marshal_vrf tag nn b' i' r' -> b = b' /\ i = i' /\ r = r')%Z.
Proof. exact marshal_vrf_inj. Qed.
Print Assumptions C14_vrf_inj.

(* the chain key (merkle root over the tipset encodings) determines the whole chain: content, length and order *)
Theorem C14_chain_key_inj : forall vs ws, tree vs = tree ws -> vs = ws.
Proof. exact tree_inj. Qed.
Print Assumptions C14_chain_key_inj.
(* the key computed in batch for every prefix is the key computed directly *)
Theorem C14_batch_is_direct : forall vs i, (1 <= i <= length vs)%nat -> nth (i - 1)%nat (batch_tree vs) DZ = tree (firstn i vs).
Proof. exact batch_tree_prefix. Qed.
Print Assumptions C14_batch_is_direct.
Theorem C14_batch_length : forall vs, length (batch_tree vs) = length vs.
Proof. exact batch_tree_length. Qed.
Print Assumptions C14_batch_length.

(* CBOR item headers: what is written is read back, whatever follows *)
Theorem C14_cbor_header_roundtrip : forall mt n rest,
  (0 <= mt < 8 -> 0 <= n < 2 ^ 64 -> decode_header (encode_header mt n ++ rest) = Some (mt, n, rest))%Z.
Proof. exact header_roundtrip. Qed.
Print Assumptions C14_cbor_header_roundtrip.

(* ---- the generated codecs (Enc/Codec.v over the schemas REGENERATED from /repo's cbor_gen.go files, Gen/SchemasGen.v) ----
   for EVERY schema built from the cbor-gen templates and every value within the limits of the Go types (wfv):
   what is written is read back whatever follows; no strict prefix of an encoding decodes (torn / truncated input is an
   error); encoding is injective; and on EVERY input -- valid or hostile -- each allocation the reader requests is
   below the largest limit of the schema (the length guard precedes the allocation). *)
Theorem C14_codec_roundtrip : forall cid_ok s v, wf_schema s -> wfv cid_ok s v ->
  exists b, encode cid_ok s v = Some b /\ forall rest, fst (decode cid_ok s (b ++ rest)) = Some (v, rest).
Proof. exact codec_roundtrip. Qed.
Print Assumptions C14_codec_roundtrip.
Theorem C14_codec_truncated_is_error : forall cid_ok s v b p q, wf_schema s -> wfv cid_ok s v -> encode cid_ok s v = Some b ->
  q <> [] -> b = p ++ q -> fst (decode cid_ok s p) = None.
Proof. exact codec_truncated. Qed.
Print Assumptions C14_codec_truncated_is_error.
Theorem C14_codec_encoding_injective : forall cid_ok s v1 v2 b, wf_schema s -> wfv cid_ok s v1 -> wfv cid_ok s v2 ->
  encode cid_ok s v1 = Some b -> encode cid_ok s v2 = Some b -> v1 = v2.
Proof. exact codec_encode_inj. Qed.
Print Assumptions C14_codec_encoding_injective.
Theorem C14_codec_alloc_bounded : forall cid_ok s bs, Forall (fun a => a <= alloc_limit s)%Z (snd (decode cid_ok s bs)).
Proof. exact codec_alloc_bounded. Qed.
Print Assumptions C14_codec_alloc_bounded.
(* and whatever bytes come in -- valid, truncated, oversized, hostile -- a value the reader returns is within the limits of
   the Go type: integers in range, byte strings and lists no longer than their documented limits, fixed arrays of exactly
   their size, castable CIDs, big integers of at most 128 encoded bytes *)
Theorem C14_codec_decoded_values_within_limits : forall cid_ok s bs v rest, wf_schema s -> bytes_ok bs ->
  fst (decode cid_ok s bs) = Some (v, rest) -> wfv cid_ok s v /\ bytes_ok rest.
Proof. intros cid_ok s bs v rest Hw Hb H. exact (decode_sound cid_ok s Hw bs v rest Hb H). Qed.
Print Assumptions C14_codec_decoded_values_within_limits.
(* the schemas extracted from the current source satisfy the hypothesis of these theorems, and no reader of a wire or
   storage type ever requests more than 2 MiB at once (the signature limit of a finality certificate) *)
Theorem C14_generated_schemas_wf : Forall wf_schema all_schemas.
Proof.
  apply Forall_forall. intros s Hs. apply wf_schemab_sound.
  assert (A : forallb wf_schemab all_schemas = true) by (vm_compute; reflexivity).
  exact (proj1 (forallb_forall _ _) A s Hs).
Qed.
Print Assumptions C14_generated_schemas_wf.
Theorem C14_generated_alloc_limits : Forall (fun s => alloc_limit s <= 2097152)%Z all_schemas.
Proof.
  apply Forall_forall. intros s Hs. apply Z.leb_le.
  assert (A : forallb (fun s => alloc_limit s <=? 2097152)%Z all_schemas = true) by (vm_compute; reflexivity).
  exact (proj1 (forallb_forall _ _) A s Hs).
Qed.
Print Assumptions C14_generated_alloc_limits.

Example C14_codec_nonvacuous :
  let cidb := [1;113;160;228;2;32;1;2;3;4;5;6;7;8;9;10;11;12;13;14;15;16;17;18;19;20;21;22;23;24;25;26;27;28;29;30;31;32]%Z in
  let supp := VList [VBytes (repeat 7%Z 32); VBytes cidb] in
  let ts := VList [VZ (-5); VBytes [1;2;3]%Z; VBytes cidb; VBytes (repeat 9%Z 32)] in
  let vote := VList [VZ 3; VZ 1; VZ 2; supp; VList [ts; ts]] in
  let just := VList [vote; VBytes [4; 1]%Z; VBytes (repeat 1%Z 96)] in
  let msg := VList [VZ 7; vote; VBytes (repeat 2%Z 96); VBytes []; VSome just] in
  wfv cid_cast_ok s_GMessage msg /\
  match encode cid_cast_ok s_GMessage msg with
  | Some b => fst (decode cid_cast_ok s_GMessage (b ++ [255]%Z)) = Some (msg, [255]%Z) /\
              fst (decode cid_cast_ok s_GMessage (firstn 100 b)) = None /\ length b = 701%nat
  | None => False
  end.
Proof. vm_compute. repeat split; try discriminate; try (intros; discriminate). Qed.

Example C14_nonvacuous :
  tree [10; 20; 30]%Z = DN (DN (DL 10%Z) (DL 20%Z)) (DN (DL 30%Z) DZ) /\
  batch_tree [10; 20; 30]%Z = [DL 10%Z; DN (DL 10%Z) (DL 20%Z); DN (DN (DL 10%Z) (DL 20%Z)) (DN (DL 30%Z) DZ)] /\
  encode_header 2 300 = [89; 1; 44]%Z /\ decode_header [24; 5]%Z = None.
Proof. vm_compute. repeat split. Qed.
