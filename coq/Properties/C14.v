(* C14: Encodings: signed bytes bind every field, chain keys agree, codecs are robust.
   Models: Enc/Payload.v (byte-level signing encodings), Enc/Merkle.v (Tree / BatchTree over an abstract collision-free
   hash), Enc/Cbor.v (cbor-gen item headers); tied to the code by byte-for-byte / digest-for-digest correspondence. *)
From Coq Require Import ZArith List Bool.
From F3 Require Import Payload PayloadProofs Merkle MerkleProofs Cbor CborProofs.
Import ListNotations.

(* the signed bytes determine every field (same network; and across networks when CIDs have equal length) *)
Theorem C14_payload_inj : forall tag nn p r i c k cid p' r' i' c' k' cid',
  (0 <= r < 2 ^ 64 -> 0 <= r' < 2 ^ 64 -> 0 <= i < 2 ^ 64 -> 0 <= i' < 2 ^ 64 ->
  length c = length c' -> length k = length k' ->
  marshal_payload tag nn p r i c k cid = marshal_payload tag nn p' r' i' c' k' cid' ->
  p = p' /\ r = r' /\ i = i' /\ c = c' /\ k = k' /\ cid = cid')%Z.
Proof. exact marshal_payload_inj. Qed.
Print Assumptions C14_payload_inj.
Theorem C14_payload_inj_net : forall tag nn p r i c k cid nn' p' r' i' c' k' cid',
  (0 <= r < 2 ^ 64 -> 0 <= r' < 2 ^ 64 -> 0 <= i < 2 ^ 64 -> 0 <= i' < 2 ^ 64 ->
  length c = length c' -> length k = length k' -> length cid = length cid' ->
  marshal_payload tag nn p r i c k cid = marshal_payload tag nn' p' r' i' c' k' cid' ->
  nn = nn' /\ p = p' /\ r = r' /\ i = i' /\ c = c' /\ k = k' /\ cid = cid')%Z.
Proof. exact marshal_payload_inj_net. Qed.
Print Assumptions C14_payload_inj_net.
Theorem C14_tipset_inj : forall e c t p e' c' t' p',
  (- 2 ^ 63 <= e < 2 ^ 63 -> - 2 ^ 63 <= e' < 2 ^ 63 -> length c = length c' -> length t = length t' ->
  marshal_tipset e c t p = marshal_tipset e' c' t' p' -> e = e' /\ c = c' /\ t = t' /\ p = p')%Z.
Proof. exact marshal_tipset_inj. Qed.
Print Assumptions C14_tipset_inj.
Theorem C14_vrf_inj : forall tag nn b i r b' i' r',
  (0 <= r < 2 ^ 64 -> 0 <= r' < 2 ^ 64 -> 0 <= i < 2 ^ 64 -> 0 <= i' < 2 ^ 64 -> length b = length b' ->
  marshal_vrf tag nn b i r = marshal_vrf tag nn b' i' r' -> b = b' /\ i = i' /\ r = r')%Z.
Proof. exact marshal_vrf_inj. Qed.
Print Assumptions C14_vrf_inj.

(* the chain key (merkle root over the tipset encodings) determines the whole chain: content, length and order *)
Theorem C14_chain_key_inj : forall vs ws, tree vs = tree ws -> vs = ws.
Proof. exact tree_inj. Qed.
Print Assumptions C14_chain_key_inj.
(* the key computed in batch for every prefix is the key computed directly *)
Theorem C14_batch_is_direct : forall vs i, (1 <= i <= length vs)%nat -> nth (i - 1)%nat (batch_tree vs) DZ = tree (firstn i vs).
Proof. exact batch_tree_prefix. Qed.
Print Assumptions C14_batch_is_direct.
Theorem C14_batch_length : forall vs, length (batch_tree vs) = length vs.
Proof. exact batch_tree_length. Qed.
Print Assumptions C14_batch_length.

(* CBOR item headers: what is written is read back, whatever follows *)
Theorem C14_cbor_header_roundtrip : forall mt n rest,
  (0 <= mt < 8 -> 0 <= n < 2 ^ 64 -> decode_header (encode_header mt n ++ rest) = Some (mt, n, rest))%Z.
Proof. exact header_roundtrip. Qed.
Print Assumptions C14_cbor_header_roundtrip.

Example C14_nonvacuous :
  tree [10; 20; 30]%Z = DN (DN (DL 10%Z) (DL 20%Z)) (DN (DL 30%Z) DZ) /\
  batch_tree [10; 20; 30]%Z = [DL 10%Z; DN (DL 10%Z) (DL 20%Z); DN (DN (DL 10%Z) (DL 20%Z)) (DN (DL 30%Z) DZ)] /\
  encode_header 2 300 = [89; 1; 44]%Z /\ decode_header [24; 5]%Z = None.
Proof. vm_compute. repeat split. Qed.
