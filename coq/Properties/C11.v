(* C11 — WAL: acknowledged entries survive crashes and torn writes; purge is conservative.
   Model: Wal/Wal.v (hand-written mirror of internal/writeaheadlog/wal.go: directory of files, handle with
   closed files + active file), byte layer over an abstract self-delimiting codec. *)
From Coq Require Import ZArith List Bool Sorting.Permutation.
From F3 Require Import Wal WalProofs Codec CodecProofs SchemasGen.
Import ListNotations.
Open Scope Z_scope.

(* byte level: a torn tail (any proper prefix of one more record) never hides an acknowledged record and never
   decodes into a phantom one *)
Theorem c11_torn_tail_read : forall (entry : Type) (enc : entry -> list Z) (dec : list Z -> option (entry * list Z)),
  (forall e rest, dec (enc e ++ rest) = Some (e, rest)) -> (forall e, enc e <> []) ->
  (forall e p q, enc e = p ++ q -> q <> [] -> dec p = None) ->
  forall es e p q, enc e = p ++ q -> q <> [] -> read_file entry dec (concat (map enc es) ++ p) = es.
Proof. exact torn_tail_read. Qed.
Print Assumptions c11_torn_tail_read.

Theorem c11_clean_read : forall (entry : Type) (enc : entry -> list Z) (dec : list Z -> option (entry * list Z)),
  (forall e rest, dec (enc e ++ rest) = Some (e, rest)) -> (forall e, enc e <> []) ->
  (forall e p q, enc e = p ++ q -> q <> [] -> dec p = None) ->
  forall es, read_file entry dec (concat (map enc es)) = es.
Proof. exact clean_read. Qed.
Print Assumptions c11_clean_read.

(* the contract is not an assumption for the real log: the WAL entry of the node is a GMessage (wal.go), whose codec
   schema s_walEntry is REGENERATED from /repo's cbor_gen.go on every run (Gen/SchemasGen.v); for every list of entries
   within the limits of the Go types, and any torn tail of one more entry, the file reads back exactly the complete
   entries -- no acknowledged entry hidden, no phantom entry *)
Theorem c11_wal_entry_schema_wf : wf_schema s_walEntry.
Proof. apply wf_schemab_sound. vm_compute. reflexivity. Qed.
Print Assumptions c11_wal_entry_schema_wf.
Theorem c11_wal_entry_torn_tail : forall cid_ok es e p q,
  Forall (wfv cid_ok s_walEntry) es -> wfv cid_ok s_walEntry e -> enc_of cid_ok s_walEntry e = p ++ q -> q <> [] ->
  read_file value (dec_of cid_ok s_walEntry) (concat (map (enc_of cid_ok s_walEntry) es) ++ p) = es.
Proof.
  intros cid_ok es e p q Hes He. destruct (codec_contract cid_ok s_walEntry c11_wal_entry_schema_wf) as [A [B C]].
  apply (torn_tail_read_good value _ _ (wfv cid_ok s_walEntry) A B C es e p q Hes He).
Qed.
Print Assumptions c11_wal_entry_torn_tail.
Theorem c11_wal_entry_clean_read : forall cid_ok es, Forall (wfv cid_ok s_walEntry) es ->
  read_file value (dec_of cid_ok s_walEntry) (concat (map (enc_of cid_ok s_walEntry) es)) = es.
Proof.
  intros cid_ok es Hes. destruct (codec_contract cid_ok s_walEntry c11_wal_entry_schema_wf) as [A [B C]].
  apply (clean_read_good value _ _ (wfv cid_ok s_walEntry) A B C es (decode_nil cid_ok s_walEntry) Hes).
Qed.
Print Assumptions c11_wal_entry_clean_read.

Theorem c11_append_all : forall w r fresh w', wfw w -> append w r fresh = inr w' -> all w' = all w ++ [r] /\ wfw w'.
Proof. exact append_all. Qed.
Print Assumptions c11_append_all.

Theorem c11_flush_all : forall w, all (flush w) = all w.
Proof. exact all_flush. Qed.
Print Assumptions c11_flush_all.

Theorem c11_acked_survive : forall w r fresh cut x, wfw w -> In x (all w) ->
  In x (all (open_wal (crash_append w r fresh cut))).
Proof. exact acked_survive. Qed.
Print Assumptions c11_acked_survive.

Theorem c11_crash_files_grow_in_order : forall w r fresh cut, wfw w ->
  exists d1, (d1 = w_dir w \/ d1 = w_dir w ++ [mkFile fresh [] false]) /\
     Forall2 (grows r) d1 (crash_append w r fresh cut) /\ NoDup (map f_name (crash_append w r fresh cut)).
Proof. exact crash_files. Qed.
Print Assumptions c11_crash_files_grow_in_order.

Theorem c11_no_phantom : forall w r fresh cut (log : list rec),
  wfw w -> (forall f, In f (w_dir w) -> incl (f_recs f) log) ->
  incl (all (open_wal (crash_append w r fresh cut))) (log ++ [r]).
Proof. exact no_phantom. Qed.
Print Assumptions c11_no_phantom.

Theorem c11_open_all : forall d, NoDup (map f_name d) ->
  wfw (open_wal d) /\ w_active (open_wal d) = None /\
  all (open_wal d) = flat_map f_recs (sort_files d) /\ Permutation (sort_files d) d.
Proof. exact open_all. Qed.
Print Assumptions c11_open_all.

Theorem c11_restart_fresh_file : forall d r fresh w', NoDup (map f_name d) ->
  append (open_wal d) r fresh = inr w' -> find_file d fresh = None /\ recs_of (w_dir w') fresh = [r].
Proof. exact restart_fresh_file. Qed.
Print Assumptions c11_restart_fresh_file.

Theorem c11_purge_spec : forall w keep, wfw w ->
  (forall s, In s (w_closed w) -> st_max s < keep -> find_file (w_dir (purge w keep)) (st_name s) = None) /\
  (forall n, In n (handle_names w) ->
     (forall s, In s (w_closed w) -> st_name s = n -> keep <= st_max s) ->
     recs_of (w_dir (purge w keep)) n = recs_of (w_dir w) n) /\
  w_active (purge w keep) = w_active w /\
  w_closed (purge w keep) = filter (fun s => negb (st_max s <? keep)) (w_closed w).
Proof. exact purge_spec. Qed.
Print Assumptions c11_purge_spec.

Theorem c11_purge_conservative : forall w keep r, wfw w -> In r (all w) -> keep <= r_epoch r -> In r (all (purge w keep)).
Proof. exact purge_conservative. Qed.
Print Assumptions c11_purge_conservative.
