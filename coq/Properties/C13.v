(* C13: Two-stage (partial, then full) validation equals one-shot validation.
   Model: Gpbft/Validator.v (PartiallyValidateMessage, FullyValidateMessage, pmsg strip / complete / infer). *)
From Coq Require Import ZArith List Bool.
From F3 Require Import GoInt QuorumGen ProgressGen Validator ValidatorProofs ValidatorTablesGen ValidatorTables.
Import ListNotations.
Open Scope Z_scope.

(* whatever the two-stage path admits (any wire form, any announced key, any completing chain, any cache history), one-shot
   validation of the completed message admits too, and the announced key is the key of the completing chain *)
Theorem C13_two_stage_sound : forall net cmts cm c p lb pm k x,
  CacheOK net cmts c -> cmts (v_inst (g_vote pm)) = Some cm ->
  fst (two_stage net (Some cm) c p lb pm k x) = VOk ->
  let m' := complete pm k x in
  k = ck (v_value (g_vote m')) /\ fst (validate_message net (Some cm) cache_empty p lb m') = VOk.
Proof. exact two_stage_sound. Qed.
Print Assumptions C13_two_stage_sound.

(* the step from the two stages to the one-shot rule set *)
Theorem C13_transfer : forall net cm p lb pm k x,
  accepts net cm (Some k) pm = true -> fully_validate p lb (complete pm k x) k = VOk ->
  accepts net cm None (complete pm k x) = true.
Proof. exact accepts_transfer. Qed.
Print Assumptions C13_transfer.

(* ... and conversely: every message that one-shot validation accepts passes the two-stage path when presented in its
   honest wire form (stripped by ToPartialGMessage, announced key = key of its chain, completed with its own chain) *)
Theorem C13_two_stage_complete : forall net cmts cm c p lb m,
  CacheOK net cmts c -> cmts (v_inst (g_vote m)) = Some cm ->
  accepts net cm None m = true -> by_progress p lb m = None ->
  wf_chain (v_value (g_vote m)) -> (forall j, g_just m = Some j -> wf_chain (v_value (j_vote j))) ->
  fst (two_stage net (Some cm) c p lb (fst (strip m)) (snd (strip m)) (v_value (g_vote m))) = VOk.
Proof. exact two_stage_complete. Qed.
Print Assumptions C13_two_stage_complete.

(* stripping an accepted message and completing it with its own chain reproduces it *)
Theorem C13_strip_complete : forall net cm m,
  accepts net cm None m = true ->
  wf_chain (v_value (g_vote m)) -> (forall j, g_just m = Some j -> wf_chain (v_value (j_vote j))) ->
  complete (fst (strip m)) (snd (strip m)) (v_value (g_vote m)) = m.
Proof. exact strip_complete_id. Qed.
Print Assumptions C13_strip_complete.

(* non-vacuity + the converse direction on a concrete justified COMMIT: its honest wire form passes both stages *)
Definition ex_cmt := mkCmt [mkMem 1 30000 11; mkMem 2 20000 12; mkMem 3 15535 13] 65535.
Definition ex_j := mkJust (mkVote 10 2 3 7 (mkCh 5 true)) [0; 1] (Some ([11; 12], mkPd 1 10 2 3 7 5)).
Definition ex_c := mkG 2 (mkVote 10 2 4 7 (mkCh 5 true)) (Some (12, mkPd 1 10 2 4 7 5)) None (Some ex_j).
Example C13_nonvacuous :
  accepts 1 ex_cmt None ex_c = true /\
  fst (two_stage 1 (Some ex_cmt) cache_empty (mkProg 10 2 3) 2 (fst (strip ex_c)) (snd (strip ex_c)) (mkCh 5 true)) = VOk /\
  (* a mismatching announced key, or another completing chain, is refused *)
  fst (two_stage 1 (Some ex_cmt) cache_empty (mkProg 10 2 3) 2 (fst (strip ex_c)) 6 (mkCh 5 true)) = VInvalid /\
  fst (two_stage 1 (Some ex_cmt) cache_empty (mkProg 10 2 3) 2 (fst (strip ex_c)) (snd (strip ex_c)) (mkCh 6 true)) = VInvalid.
Proof. vm_compute. repeat split. Qed.

(* both stages consult the tables of gpbft/validator.go as regenerated from the source on every run: the full table
   (validateJustification, used by the partial and the one-shot path) and the abbreviated one of FullyValidateMessage *)
Theorem C13_full_table_is_the_code : forall mp mr jp key,
  expectation mp mr jp key = expectation_gen mp mr jp key.
Proof. exact expectation_is_the_generated_table. Qed.
Print Assumptions C13_full_table_is_the_code.
Theorem C13_abbreviated_table_is_the_code : forall p lb m k, fully_validate p lb m k = fully_validate_gen p lb m k.
Proof. exact fully_validate_is_the_generated_table. Qed.
Print Assumptions C13_abbreviated_table_is_the_code.
