(* C04 — Certificate chains verify only if quorum-signed and linked; deltas are exact.
   Models: Power/Table.v (MakePowerTableDiff / ApplyPowerTableDiffs) and Certs/Validate.v
   (ValidateFinalityCertificates), hand-written mirrors of certs/certs.go tied by correspondence;
   the quorum predicate inside verify_sig is the GENERATED isStrongQuorum. *)
From Coq Require Import ZArith List Bool.
From F3 Require Import GoInt QuorumGen QuorumProofs Table DiffProofs Validate ValidateProofs.
Import ListNotations.
Open Scope Z_scope.

Theorem c04_apply_make : forall a b, wf a -> wf b -> apply_diff a (make_diff a b) = inr (canon b).
Proof. exact apply_make. Qed.
Print Assumptions c04_apply_make.

Theorem c04_apply_unique : forall a d m, wf a -> apply_deltas a None d = inr m -> d = make_diff a m.
Proof. exact apply_unique. Qed.
Print Assumptions c04_apply_unique.

Theorem c04_apply_diff_unique : forall a d t, wf a -> apply_diff a d = inr t ->
  exists m, t = canon m /\ d = make_diff a m.
Proof. exact apply_diff_unique. Qed.
Print Assumptions c04_apply_diff_unique.

Theorem c04_canon_ext : forall m1 m2, NoDup (ids m1) -> NoDup (ids m2) ->
  (forall id, lookup m1 id = lookup m2 id) -> canon m1 = canon m2.
Proof. exact canon_ext. Qed.
Print Assumptions c04_canon_ext.

(* acceptance of a certificate sequence <-> every certificate satisfies the declarative rule *)
Theorem c04_validate_sound : forall toks net cs s s',
  validate_loop toks net s cs = (None, s') -> accepted toks net s cs s'.
Proof. exact validate_sound. Qed.
Print Assumptions c04_validate_sound.

Theorem c04_validate_complete : forall toks net cs s s',
  accepted toks net s cs s' -> validate_loop toks net s cs = (None, s').
Proof. exact validate_complete. Qed.
Print Assumptions c04_validate_complete.

Theorem c04_accepted_instances : forall toks net s cs s', accepted toks net s cs s' ->
  v_next s' = v_next s + Z.of_nat (length cs) /\
  map c_inst cs = map (fun k => v_next s + Z.of_nat k) (seq 0 (length cs)).
Proof. exact accepted_instances. Qed.
Print Assumptions c04_accepted_instances.

Theorem c04_accepted_linked : forall toks net s c1 c2 cs s',
  accepted toks net s (c1 :: c2 :: cs) s' ->
  exists b1 r1 b2 r2, c_chain c1 = b1 :: r1 /\ c_chain c2 = b2 :: r2 /\ tipset_eqb (last (c_chain c1) b1) b2 = true.
Proof. exact accepted_linked. Qed.
Print Assumptions c04_accepted_linked.

Theorem c04_verify_sig_sound : forall t net c, verify_sig t net c = None ->
  let scaled := scaled_list (map e_power t) in
  Forall (fun i => i < Z.of_nat (length t) /\ nth (Z.to_nat i) scaled 0 <> 0) (c_signers c) /\
  isStrongQuorum (sumZ (map (fun i => nth (Z.to_nat i) scaled 0) (c_signers c))) (sumZ scaled) = true /\
  exists s, c_sig c = Some s /\ s_inst s = c_inst c /\ s_round s = 0 /\ s_phase s = 5 /\ s_net s = net /\
            s_commit s = c_commit c /\ s_pt s = c_pt c /\ chain_eqb (s_chain s) (c_chain c) = true /\
            list_eqbZ (s_signers s) (c_signers c) = true.
Proof. exact verify_sig_sound. Qed.
Print Assumptions c04_verify_sig_sound.

Theorem c04_validate_prefix_report : forall toks net cs s e s',
  validate_loop toks net s cs = (Some e, s') ->
  exists k c, nth_error cs k = Some c /\
    validate_loop toks net s (firstn k cs) = (None, s') /\ validate_one toks net s' c = inl e.
Proof. exact validate_prefix_report. Qed.
Print Assumptions c04_validate_prefix_report.

Theorem c04_validate_certs_prefix : forall toks net prev next base cs n ch tb e,
  validate_certs toks net prev next base cs = (n, ch, tb, Some e) ->
  exists k, (k < length cs)%nat /\
    fst (fst (fst (validate_certs toks net prev next base (firstn k cs)))) = n /\
    snd (fst (fst (validate_certs toks net prev next base (firstn k cs)))) = ch /\
    n = next + Z.of_nat k.
Proof. exact validate_certs_prefix. Qed.
Print Assumptions c04_validate_certs_prefix.
