(* C15: Proposals extend the finalized head along EC; committees derive from finality.
   Model: Inputs/Proposal.v (hand-written mirror of consensus_inputs.go over an explicit EC block tree and a view of the
   certificate store), tied to the real gpbftInputs by correspondence (harness c15.go). *)
From Coq Require Import ZArith List Bool.
From F3 Require Import Proposal ProposalProofs.
Import ListNotations.
Open Scope Z_scope.

(* for every EC tree, certificate view, configuration, clock position and instance: whatever GetProposal returns starts
   at the finalized base, continues with a prefix of the parent-linked chain from the base towards the EC head (or is the
   base alone when the head does not descend from it), has strictly increasing epochs, respects min(128, configured
   length), carries EC's power-table CID per tipset (by construction of the map) and commits to the next committee *)
Theorem C15_proposal_shape : forall c e head cs now inst tbl chain,
  proposal c e head cs now inst = Some (tbl, chain) ->
  exists b h suffix collected,
    Some (t_key b) = (if inst =? c_initial c
                      then option_map t_key (by_epoch e (get_ts e head) (c_bootstrap c - c_finality c) (S (length e)))
                      else option_map fst (cs_cert cs (inst - 1))) /\
    get_ts e head = Some h /\
    chain = map (fun t => (t_key t, t_epoch t, t_pt t)) (b :: suffix) /\
    ((collect e b h = COk collected /\ is_prefix suffix collected /\ linked (t_key b) collected) \/
     (collect e b h = CCollapse /\ suffix = [])) /\
    (1 <= c_proposed_len c -> Z.of_nat (length chain) <= Z.min 128 (c_proposed_len c)) /\
    epochs_inc (-1) (b :: suffix) = true /\
    exists bc, committee c e head cs (inst + 1) = Some (tbl, bc).
Proof. exact proposal_shape. Qed.
Print Assumptions C15_proposal_shape.

(* collectChain: a parent-linked path hanging off the base and ending at the head *)
Theorem C15_collect_linked : forall e base head l, collect e base head = COk l -> linked (t_key base) l.
Proof. exact collect_linked. Qed.
Print Assumptions C15_collect_linked.
Theorem C15_collect_ends_at_head : forall e base head l,
  collect e base head = COk l -> (l = [] /\ t_key head = t_key base) \/ exists q, l = q ++ [head].
Proof. exact collect_ends_at_head. Qed.
Print Assumptions C15_collect_ends_at_head.

(* the committee consults EC only at tipsets named by certificates (and, before the first certificate, at the bootstrap
   tipset): two nodes holding the same certificates derive the same committee whatever their EC heads and unfinalized forks *)
Theorem C15_committee_finalized_only : forall c e1 h1 e2 h2 cs inst,
  (forall i hk bk, cs_cert cs i = Some (hk, bk) -> get_ts e1 hk = get_ts e2 hk /\ get_ts e1 bk = get_ts e2 bk) ->
  (cs_has_latest cs = false ->
     by_epoch e1 (get_ts e1 h1) (c_bootstrap c - c_finality c) (S (length e1)) = by_epoch e2 (get_ts e2 h2) (c_bootstrap c - c_finality c) (S (length e2)) /\
     forall t, by_epoch e1 (get_ts e1 h1) (c_bootstrap c - c_finality c) (S (length e1)) = Some t -> get_ts e1 (t_key t) = get_ts e2 (t_key t)) ->
  committee c e1 h1 cs inst = committee c e2 h2 cs inst.
Proof. exact committee_finalized_only. Qed.
Print Assumptions C15_committee_finalized_only.

(* non-vacuity: base m1, head m4 on the line: proposal [m1; m2; m3] with head-lookback 1; from the head f5 of a fork off m2
   the proposal follows the fork's own parent chain; from a head whose ancestry passes below the base's epoch without
   meeting the base it collapses to the base *)
Definition ex_ec : ec := [ mkT 1 10 0 0 91 81 91; mkT 2 11 1 30 92 82 92; mkT 3 13 2 90 93 83 93; mkT 4 14 3 120 94 84 94;
                           mkT 5 12 2 60 95 85 95; mkT 7 12 8 0 97 87 97; mkT 8 9 0 0 98 88 98 ].
Definition ex_cfg := mkCfg 0 20 10 2 1 30 10.
Definition ex_cs := mkCerts (fun i => if i =? 0 then Some (1, 1) else None) (fun i => if i =? 0 then Some 77 else if i =? 1 then Some 78 else None) true.
Example C15_nonvacuous :
  proposal ex_cfg ex_ec 4 ex_cs 1000 1 = Some (91, [(1, 10, 91); (2, 11, 92); (3, 13, 93)]) /\
  proposal ex_cfg ex_ec 5 ex_cs 1000 1 = Some (91, [(1, 10, 91); (2, 11, 92)]) /\
  proposal ex_cfg ex_ec 7 ex_cs 1000 1 = Some (91, [(1, 10, 91)]) /\
  collect ex_ec (mkT 1 10 0 0 91 81 91) (mkT 7 12 8 0 97 87 97) = CCollapse.
Proof. vm_compute. repeat split. Qed.
