(* C20 — Certificate polling adapts its cadence to certificate production.
   predictor_update / newPredictor / subscriber_delay / subscriber_progress_k / catchup_progress are
   GENERATED from certexchange/polling/{predictor,subscriber,poller}.go (Gen/PredictorGen.v). *)
From Coq Require Import ZArith Bool.
From F3 Require Import GoInt PredictorGen PredictorProofs.
Open Scope Z_scope.

(* progress = number of instances the store advanced, at every return site of Subscriber.poll *)
Theorem c20_progress_eq_advance_1 : forall start next, 0 <= start <= next -> next < two64 ->
  subscriber_progress_1 start next = next - start.
Proof. exact progress_eq_advance_1. Qed.
Print Assumptions c20_progress_eq_advance_1.

Theorem c20_progress_eq_advance_2 : forall start next, 0 <= start <= next -> next < two64 ->
  subscriber_progress_2 start next = next - start.
Proof. exact progress_eq_advance_2. Qed.
Print Assumptions c20_progress_eq_advance_2.

Theorem c20_progress_sites_covered : subscriber_progress_sites = 2%nat.
Proof. exact progress_sites_covered. Qed.
Print Assumptions c20_progress_sites_covered.

Theorem c20_catchup_progress_eq : forall latest next, 0 <= next <= latest + 1 -> latest + 1 < two64 ->
  catchup_progress latest next = (latest + 1) - next.
Proof. exact catchup_progress_eq. Qed.
Print Assumptions c20_catchup_progress_eq.

(* wait = remaining predicted interval + min(request time, half of it) *)
Theorem c20_delay_bound : forall unt offset, - bound <= unt <= bound -> 0 <= offset <= bound ->
  let d0 := Z.max unt 0 in
  d0 <= subscriber_delay unt offset <= d0 + Z.min offset (d0 / 2) /\
  subscriber_delay unt offset = d0 + Z.min offset (d0 / 2).
Proof. exact delay_bound. Qed.
Print Assumptions c20_delay_bound.

Theorem c20_delay_no_offset : forall unt, - bound <= unt <= bound -> subscriber_delay unt 0 = Z.max unt 0.
Proof. exact delay_no_offset. Qed.
Print Assumptions c20_delay_no_offset.

(* the polling loop configures its predictor with the subscriber's (minimum, initial, maximum) intervals, in that order:
   the estimate starts at the configured initial interval and is clamped to [minimum, maximum] *)
Theorem c20_run_predictor_config : forall mn init mx, subscriber_predictor mn init mx = newPredictor mn init mx.
Proof. reflexivity. Qed.
Print Assumptions c20_run_predictor_config.

Theorem c20_new_predictor_wf : forall mn df mx, 100 <= mn -> mn <= df <= mx -> mx <= bound -> wf (newPredictor mn df mx).
Proof. exact new_predictor_wf. Qed.
Print Assumptions c20_new_predictor_wf.

Theorem c20_update_preserves_wf : forall p progress, wf p -> 0 <= progress < two63 ->
  wf (fst (predictor_update p progress)).
Proof. exact update_preserves_wf. Qed.
Print Assumptions c20_update_preserves_wf.

Theorem c20_interval_clamped : forall p progress, wf p -> 0 <= progress < two63 ->
  let p' := fst (predictor_update p progress) in
  predictor_minInterval p' = predictor_minInterval p /\ predictor_maxInterval p' = predictor_maxInterval p /\
  predictor_minInterval p <= predictor_interval p' <= predictor_maxInterval p.
Proof. exact interval_clamped. Qed.
Print Assumptions c20_interval_clamped.

Theorem c20_steady_fixed_point : forall p, wf p -> predictor_backoff p = 0 ->
  predictor_update p 1 = (p, predictor_interval p).
Proof. exact steady_fixed_point. Qed.
Print Assumptions c20_steady_fixed_point.

Theorem c20_shortens : forall p progress, wf p -> predictor_backoff p = 0 -> 2 <= progress < two63 ->
  let p' := fst (predictor_update p progress) in
  predictor_interval p' <= predictor_interval p /\
  (predictor_minInterval p < predictor_interval p -> predictor_interval p' < predictor_interval p) /\
  snd (predictor_update p progress) = predictor_interval p'.
Proof. exact shortens. Qed.
Print Assumptions c20_shortens.

Theorem c20_backs_off_enter : forall p, wf p -> predictor_backoff p = 0 ->
  let '(p', wait) := predictor_update p 0 in
  wait = predictor_interval p /\ predictor_interval p <= predictor_interval p' /\
  predictor_backoff p' = Z.min (2 * predictor_interval p) (10 * predictor_maxInterval p).
Proof. exact backs_off_enter. Qed.
Print Assumptions c20_backs_off_enter.

Theorem c20_backs_off_continue : forall p, wf p -> 0 < predictor_backoff p ->
  let '(p', wait) := predictor_update p 0 in
  wait = predictor_backoff p /\ predictor_interval p' = predictor_interval p /\
  predictor_backoff p' = Z.min (2 * predictor_backoff p) (10 * predictor_maxInterval p) /\
  predictor_backoff p <= predictor_backoff p'.
Proof. exact backs_off_continue. Qed.
Print Assumptions c20_backs_off_continue.

Theorem c20_backoff_restored : forall p progress, wf p -> 0 < predictor_backoff p -> 1 <= progress < two63 ->
  let '(p', wait) := predictor_update p progress in
  wait = predictor_interval p /\ predictor_backoff p' = 0 /\ predictor_interval p' = predictor_interval p.
Proof. exact backoff_restored. Qed.
Print Assumptions c20_backoff_restored.

Theorem c20_wait_bounded : forall p progress, wf p -> 0 <= progress < two63 ->
  predictor_minInterval p <= snd (predictor_update p progress) <= 10 * predictor_maxInterval p.
Proof. exact wait_bounded. Qed.
Print Assumptions c20_wait_bounded.
