(* C09 — Certificate store: gap-free immutable history with derivable power tables.
   Model: Store/CertStore.v (hand-written mirror of certstore/certstore.go over an abstract datastore). *)
From Coq Require Import ZArith List Bool.
From F3 Require Import GoInt ListX Table Validate CertStore StoreProofs.
From F3 Require Subscribers SubscribersProofs.
Import ListNotations.
Open Scope Z_scope.

Theorem c09_put_preserves_inv : forall toks s tabs c ws npt,
  inv toks s tabs -> put_plan toks s c = PutOk ws npt ->
  inv toks (fst (put toks s c)) (tabs_upd tabs (nxt s + 1) npt) /\ nxt (fst (put toks s c)) = nxt s + 1.
Proof. exact put_preserves_inv. Qed.
Print Assumptions c09_put_preserves_inv.

Theorem c09_put_accepted_is_successor : forall toks s c, fst (put toks s c) <> s ->
  c_inst c = nxt s /\ exists npt, step_table (s_pt s) c = inr npt /\ cid_token toks npt = c_pt c /\ npt <> [].
Proof. exact put_accepted_is_successor. Qed.
Print Assumptions c09_put_accepted_is_successor.

Theorem c09_put_rejects_gap : forall toks s c, nxt s < c_inst c -> s_first s <= c_inst c -> c_chain c <> [] ->
  chain_valid (c_chain c) = true -> put toks s c = (s, Some EGap).
Proof. exact put_rejects_gap. Qed.
Print Assumptions c09_put_rejects_gap.

Theorem c09_put_stale_noop : forall toks s c, s_first s <= c_inst c < nxt s -> c_chain c <> [] ->
  chain_valid (c_chain c) = true -> put toks s c = (s, None).
Proof. exact put_stale_noop. Qed.
Print Assumptions c09_put_stale_noop.

Theorem c09_put_error_unchanged : forall toks s c e, snd (put toks s c) = Some e -> fst (put toks s c) = s.
Proof. exact put_error_unchanged. Qed.
Print Assumptions c09_put_error_unchanged.

Theorem c09_latest_monotone : forall toks s c, nxt s <= nxt (fst (put toks s c)).
Proof. exact latest_monotone. Qed.
Print Assumptions c09_latest_monotone.

Theorem c09_power_table_derivable : forall toks s tabs, inv toks s tabs ->
  forall i, s_first s <= i <= nxt s -> store_power s i = inr (tabs i).
Proof. exact power_table_derivable. Qed.
Print Assumptions c09_power_table_derivable.

Theorem c09_get_stored : forall toks s tabs, inv toks s tabs -> forall i, s_first s <= i < nxt s ->
  exists c, get s i = inr c /\ c_inst c = i.
Proof. exact get_stored. Qed.
Print Assumptions c09_get_stored.

Theorem c09_range_exact : forall toks s tabs, inv toks s tabs -> forall a b, s_first s <= a -> a <= b -> b < nxt s ->
  exists cs, store_range s a b = (cs, None) /\ map c_inst cs = zseq a (Z.to_nat (b - a + 1)).
Proof. exact range_exact. Qed.
Print Assumptions c09_range_exact.

Theorem c09_reopen_identity : forall toks s tabs, inv toks s tabs -> open_store (s_freq s) (s_ds s) = inr s.
Proof. exact reopen_identity. Qed.
Print Assumptions c09_reopen_identity.

Theorem c09_create_inv : forall toks freq d first pt, fresh d -> 0 < freq -> 0 <= first ->
  pt <> [] -> NoDup (ids pt) -> canon pt = pt ->
  exists s, create_store freq d first pt = inr s /\ inv toks s (fun _ => pt) /\ nxt s = first.
Proof. exact create_inv. Qed.
Print Assumptions c09_create_inv.

(* subscribers (Store/Subscribers.v: one-slot channels, Subscribe pre-loads the latest certificate, an accepted Put drains
   and then sends under the write lock): for EVERY sequence of subscriptions, accepted puts, reads by any subscriber at
   any time, closes and re-opens, no send ever blocks the writer, and every live subscriber has the latest certificate
   pending or has already taken it *)
Theorem c09_writers_never_blocked : forall latest evs,
  Subscribers.ss_blocked (fst (Subscribers.srun (Subscribers.ss0 latest) evs)) = false.
Proof. exact SubscribersProofs.writers_never_blocked. Qed.
Print Assumptions c09_writers_never_blocked.
Theorem c09_subscriber_observes_latest : forall latest evs k x,
  let st := fst (Subscribers.srun (Subscribers.ss0 latest) evs) in
  nth k (Subscribers.ss_subs st) None = Some x ->
  match Subscribers.sb_slot x with
  | Some c => Subscribers.ss_latest st = Some c
  | None => Subscribers.sb_seen x = Subscribers.ss_latest st end.
Proof. exact SubscribersProofs.subscriber_observes_latest. Qed.
Print Assumptions c09_subscriber_observes_latest.
Theorem c09_next_read_is_latest : forall latest evs k x got,
  let st := fst (Subscribers.srun (Subscribers.ss0 latest) evs) in
  nth k (Subscribers.ss_subs st) None = Some x -> snd (Subscribers.sstep st (Subscribers.SRead k got)) = true ->
  (got = -1 /\ Subscribers.sb_seen x = Subscribers.ss_latest st) \/ Subscribers.ss_latest st = Some got.
Proof. exact SubscribersProofs.next_read_is_latest. Qed.
Print Assumptions c09_next_read_is_latest.
