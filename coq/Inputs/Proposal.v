(* Executable mirror of consensus_inputs.go (gpbftInputs.GetProposal / collectChain / GetCommittee) over an explicit EC
   block tree and a view of the certificate store.  Tipset keys, power-table CIDs, beacons and tables are tokens. *)
From Coq Require Import ZArith List Bool.
Import ListNotations.
Open Scope Z_scope.

Record tipset := mkT { t_key : Z; t_epoch : Z; t_parent : Z; t_time : Z; t_pt : Z; t_beacon : Z; t_table : Z }.
Definition ec := list tipset.
Fixpoint get_ts (e : ec) (k : Z) : option tipset :=
  match e with [] => None | t :: r => if t_key t =? k then Some t else get_ts r k end.
Definition parent_of (e : ec) (t : tipset) : option tipset := get_ts e (t_parent t).

(* GetTipsetByEpoch of the backend: the tipset at that epoch on the head's ancestry, or the latest one before it *)
Fixpoint by_epoch (e : ec) (cur : option tipset) (epoch : Z) (fuel : nat) : option tipset :=
  match fuel, cur with
  | S f, Some t => if t_epoch t <=? epoch then Some t else by_epoch e (parent_of e t) epoch f
  | _, _ => None
  end.

Inductive cres := CErr | CCollapse | COk (l : list tipset).
(* collectChain: walk back from the head to the base; acc holds the tipsets strictly after the base, oldest first *)
Fixpoint walk (e : ec) (base cur : tipset) (fuel : nat) (acc : list tipset) : cres :=
  match fuel with
  | O => CErr
  | S f =>
      if t_key cur =? t_key base then COk acc
      else if t_epoch cur <? t_epoch base then CCollapse
      else match parent_of e cur with None => CErr | Some p => walk e base p f (cur :: acc) end
  end.
Definition collect (e : ec) (base head : tipset) : cres :=
  if t_epoch head <? t_epoch base then CCollapse else walk e base head (S (length e)) [].

Record cfg := mkCfg { c_initial : Z; c_bootstrap : Z; c_finality : Z; c_lookback : Z;
                      c_head_lookback : Z; c_period : Z; c_proposed_len : Z }.
(* what the node knows from its certificate store: per instance (head key, base key) of the certificate's chain,
   per instance the power table token, and whether any certificate is stored *)
Record certs := mkCerts { cs_cert : Z -> option (Z * Z); cs_table : Z -> option Z; cs_has_latest : bool }.

Definition lenZ {A} (l : list A) : Z := Z.of_nat (length l).
Definition firstnZ {A} (n : Z) (l : list A) : list A := firstn (Z.to_nat (Z.max 0 n)) l.

(* GetCommittee: (power table token, beacon token) *)
Definition committee (c : cfg) (e : ec) (head : Z) (cs : certs) (inst : Z) : option (Z * Z) :=
  if inst <? c_initial c + c_lookback c then
    match cs_table cs (c_initial c) with
    | None => None
    | Some tbl =>
        let key := if negb (cs_has_latest cs)
                   then option_map t_key (by_epoch e (get_ts e head) (c_bootstrap c - c_finality c) (S (length e)))
                   else option_map snd (cs_cert cs (c_initial c)) in
        match key with
        | None => None
        | Some k => match get_ts e k with Some t => Some (tbl, t_beacon t) | None => None end
        end
    end
  else
    match cs_cert cs (inst - c_lookback c) with
    | None => None
    | Some (hk, _) =>
        let tbl := match cs_table cs inst with
                   | Some t => Some t
                   | None => option_map t_table (get_ts e hk) end in       (* EC fallback *)
        match tbl, get_ts e hk with
        | Some tb, Some t => Some (tb, t_beacon t)
        | _, _ => None
        end
    end.

Fixpoint epochs_inc (last : Z) (l : list tipset) : bool :=
  match l with [] => true | t :: r => (last <? t_epoch t) && epochs_inc (t_epoch t) r end.

(* GetProposal: (supplemental power-table token, chain as (key, epoch, ptcid) list) *)
Definition proposal (c : cfg) (e : ec) (head : Z) (cs : certs) (now : Z) (inst : Z) : option (Z * list (Z * Z * Z)) :=
  let basek := if inst =? c_initial c
               then option_map t_key (by_epoch e (get_ts e head) (c_bootstrap c - c_finality c) (S (length e)))
               else option_map fst (cs_cert cs (inst - 1)) in
  match basek with
  | None => None
  | Some bk =>
      match get_ts e bk, get_ts e head with
      | Some b, Some h =>
          match collect e b h with
          | CErr => None
          | r =>
              let l0 := match r with COk l => l | _ => [] end in
              let l1 := if 0 <? c_head_lookback c then firstnZ (lenZ l0 - c_head_lookback c) l0 else l0 in
              let l2 := match rev l1 with
                        | last :: _ => if now - t_time last <? c_period c then firstn (length l1 - 1) l1 else l1
                        | [] => l1 end in
              let suffix := firstnZ (Z.min (Z.min 128 (c_proposed_len c) - 1) (lenZ l2)) l2 in
              if negb (epochs_inc (-1) (b :: suffix)) then None else
              match committee c e head cs (inst + 1) with
              | None => None
              | Some (tbl, _) => Some (tbl, map (fun t => (t_key t, t_epoch t, t_pt t)) (b :: suffix))
              end
          end
      | _, _ => None
      end
  end.
