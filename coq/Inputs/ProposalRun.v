(* comparison helpers for the C15 correspondence *)
From Coq Require Import ZArith List Bool.
From F3 Require Import Proposal.
Import ListNotations.
Open Scope Z_scope.

Definition opt_pair_eqb (a b : option (Z * Z)) : bool :=
  match a, b with Some (x, y), Some (u, v) => (x =? u) && (y =? v) | None, None => true | _, _ => false end.
Fixpoint tl_eqb (a b : list (Z * Z * Z)) : bool :=
  match a, b with
  | [], [] => true
  | (x, y, z) :: a', (u, v, w) :: b' => (x =? u) && (y =? v) && (z =? w) && tl_eqb a' b'
  | _, _ => false end.
Definition opt_prop_eqb (a b : option (Z * list (Z * Z * Z))) : bool :=
  match a, b with Some (s, l), Some (s', l') => (s =? s') && tl_eqb l l' | None, None => true | _, _ => false end.
