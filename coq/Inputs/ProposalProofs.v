(* C15 on the consensus-inputs model: the proposal is base :: a prefix of the parent chain from the base towards the EC
   head, bounded by the protocol and configured maxima, collapsing to the base when the head does not descend from it;
   the committee is a function of the certificate view and of EC only at finalized tipsets. *)
From Coq Require Import ZArith List Bool Lia.
From F3 Require Import Proposal.
Import ListNotations.
Open Scope Z_scope.

(* a parent-linked path: every element's parent key is the key of its predecessor, the first one hangs off k *)
Fixpoint linked (k : Z) (p : list tipset) : Prop :=
  match p with [] => True | x :: r => t_parent x = k /\ linked (t_key x) r end.
Definition last_key (k : Z) (p : list tipset) : Z := t_key (last p (mkT k 0 0 0 0 0 0)).

Lemma get_ts_key e k t : get_ts e k = Some t -> t_key t = k.
Proof.
  induction e as [|x e IH]; cbn; [discriminate|].
  destruct (t_key x =? k) eqn:E; [intros H; injection H as <-; apply Z.eqb_eq; exact E|exact IH].
Qed.

(* generalised: acc is already a linked path hanging off cur *)
Lemma walk_linked e base : forall fuel cur acc l,
  linked (t_key cur) acc ->
  walk e base cur fuel acc = COk l ->
  linked (t_key base) l /\ exists q, l = q ++ acc.
Proof.
  intros fuel; induction fuel as [|f IH]; intros cur acc l Hacc H; cbn in H; [discriminate|].
  destruct (t_key cur =? t_key base) eqn:E.
  - injection H as <-. apply Z.eqb_eq in E. rewrite <- E. split; [exact Hacc|exists []; reflexivity].
  - destruct (t_epoch cur <? t_epoch base); [discriminate|].
    destruct (parent_of e cur) as [p|] eqn:Ep; [|discriminate].
    assert (Hk : t_key p = t_parent cur) by (apply (get_ts_key e); exact Ep).
    destruct (IH p (cur :: acc) l) as [H1 (q & H2)]; [cbn; split; [symmetry; exact Hk|exact Hacc]|exact H|].
    split; [exact H1|]. exists (q ++ [cur]). rewrite <- app_assoc. exact H2.
Qed.

Theorem collect_linked e base head l :
  collect e base head = COk l -> linked (t_key base) l.
Proof.
  unfold collect. destruct (t_epoch head <? t_epoch base); [discriminate|].
  intros H. apply (walk_linked e base _ head [] l I H).
Qed.

(* the walk ends at the head: the last collected tipset is the head (or nothing is collected and head = base) *)
Lemma walk_last e base : forall fuel cur acc l,
  walk e base cur fuel acc = COk l ->
  (acc = [] -> match rev l with [] => t_key cur = t_key base \/ exists q, l = q | x :: _ => True end) /\
  (forall a acc', acc = acc' ++ [a] -> exists q, l = q ++ [a]).
Proof.
  intros fuel; induction fuel as [|f IH]; intros cur acc l H; cbn in H; [discriminate|].
  destruct (t_key cur =? t_key base) eqn:E.
  - injection H as <-. split.
    + intros ->. cbn. left. apply Z.eqb_eq. exact E.
    + intros a acc' ->. exists acc'. reflexivity.
  - destruct (t_epoch cur <? t_epoch base); [discriminate|].
    destruct (parent_of e cur) as [p|]; [|discriminate].
    destruct (IH p (cur :: acc) l H) as [_ H2]. split.
    + intros ->. destruct (H2 cur [] eq_refl) as (q & ->). rewrite rev_app_distr. cbn. exact I.
    + intros a acc' ->. apply (H2 a (cur :: acc')). reflexivity.
Qed.

Theorem collect_ends_at_head e base head l :
  collect e base head = COk l -> (l = [] /\ t_key head = t_key base) \/ exists q, l = q ++ [head].
Proof.
  unfold collect. destruct (t_epoch head <? t_epoch base); [discriminate|].
  intros H. cbn in H.
  destruct (t_key head =? t_key base) eqn:E.
  - injection H as <-. left. split; [reflexivity|apply Z.eqb_eq; exact E].
  - destruct (t_epoch head <? t_epoch base); [discriminate|].
    destruct (parent_of e head) as [p|]; [|discriminate].
    destruct (walk_last e base _ p [head] l H) as [_ H2]. right. apply (H2 head [] eq_refl).
Qed.

(* ---------- shape of the proposal ---------- *)
Definition is_prefix {A} (a b : list A) : Prop := exists t, b = a ++ t.
Lemma firstn_prefix {A} n (l : list A) : is_prefix (firstn n l) l.
Proof. exists (skipn n l). symmetry. apply firstn_skipn. Qed.
Lemma prefix_trans {A} (a b c : list A) : is_prefix a b -> is_prefix b c -> is_prefix a c.
Proof. intros [t ->] [u ->]. exists (t ++ u). rewrite app_assoc. reflexivity. Qed.

Theorem proposal_shape c e head cs now inst tbl chain :
  proposal c e head cs now inst = Some (tbl, chain) ->
  exists b h suffix collected,
    (* starts at the finalized base ... *)
    Some (t_key b) = (if inst =? c_initial c
                      then option_map t_key (by_epoch e (get_ts e head) (c_bootstrap c - c_finality c) (S (length e)))
                      else option_map fst (cs_cert cs (inst - 1))) /\
    get_ts e head = Some h /\
    chain = map (fun t => (t_key t, t_epoch t, t_pt t)) (b :: suffix) /\
    (* ... continues only along the parent chain towards the head, or collapses to the base ... *)
    ((collect e b h = COk collected /\ is_prefix suffix collected /\ linked (t_key b) collected) \/
     (collect e b h = CCollapse /\ suffix = [])) /\
    (* ... within the protocol and configured maxima, with increasing epochs *)
    (1 <= c_proposed_len c -> Z.of_nat (length chain) <= Z.min 128 (c_proposed_len c)) /\
    epochs_inc (-1) (b :: suffix) = true /\
    (* and the supplemental data commits to the next instance's committee *)
    exists bc, committee c e head cs (inst + 1) = Some (tbl, bc).
Proof.
  unfold proposal.
  set (bk := if inst =? c_initial c then _ else _).
  destruct bk as [k|] eqn:Ebk; [|discriminate].
  destruct (get_ts e k) as [b|] eqn:Eb; [|discriminate].
  destruct (get_ts e head) as [h|] eqn:Eh; [|discriminate].
  assert (Hkb : t_key b = k) by (apply (get_ts_key e); exact Eb).
  destruct (collect e b h) as [| |l] eqn:Ec; [discriminate| |].
  - (* collapse *)
    cbn [rev length firstn]. unfold firstnZ, lenZ. cbn [length firstn].
    replace (if 0 <? c_head_lookback c then firstn (Z.to_nat (Z.max 0 (Z.of_nat 0 - c_head_lookback c))) [] else []) with (@nil tipset)
      by (destruct (0 <? c_head_lookback c); [destruct (Z.to_nat _); reflexivity|reflexivity]).
    cbn [rev]. rewrite firstn_nil.
    destruct (negb (epochs_inc (-1) [b])) eqn:Ee; [discriminate|].
    destruct (committee c e head cs (inst + 1)) as [[tb bc]|] eqn:Ecm; [|discriminate].
    intros H. injection H as <- <-.
    exists b, h, [], []. repeat split; try (rewrite Hkb; reflexivity); auto.
    + intros Hp. cbn. lia.
    + apply negb_false_iff in Ee. exact Ee.
    + exists bc. reflexivity.
  - set (l1 := if 0 <? c_head_lookback c then firstnZ (lenZ l - c_head_lookback c) l else l).
    set (l2 := match rev l1 with last :: _ => if now - t_time last <? c_period c then firstn (length l1 - 1) l1 else l1 | [] => l1 end).
    set (suffix := firstnZ (Z.min (Z.min 128 (c_proposed_len c) - 1) (lenZ l2)) l2).
    destruct (negb (epochs_inc (-1) (b :: suffix))) eqn:Ee; [discriminate|].
    destruct (committee c e head cs (inst + 1)) as [[tb bc]|] eqn:Ecm; [|discriminate].
    intros H. injection H as <- <-.
    assert (P1 : is_prefix l1 l) by (unfold l1; destruct (0 <? c_head_lookback c); [apply firstn_prefix|exists []; symmetry; apply app_nil_r]).
    assert (P2 : is_prefix l2 l1).
    { unfold l2. destruct (rev l1) as [|x r]; [exists []; symmetry; apply app_nil_r|].
      destruct (now - t_time x <? c_period c); [apply firstn_prefix|exists []; symmetry; apply app_nil_r]. }
    assert (P3 : is_prefix suffix l2) by apply firstn_prefix.
    exists b, h, suffix, l. repeat split; try (rewrite Hkb; reflexivity); auto.
    + left. repeat split; auto.
      * eapply prefix_trans; [exact P3|]. eapply prefix_trans; eauto.
      * apply (collect_linked e b h l Ec).
    + intros Hp. cbn [map length]. rewrite map_length. unfold suffix, firstnZ. rewrite firstn_length. unfold lenZ. lia.
    + apply negb_false_iff in Ee. exact Ee.
    + exists bc. reflexivity.
Qed.

(* ---------- the committee depends on EC only at finalized tipsets ---------- *)
Theorem committee_finalized_only c e1 h1 e2 h2 cs inst :
  (* the two views of EC agree on the tipsets named by the certificates ... *)
  (forall i hk bk, cs_cert cs i = Some (hk, bk) -> get_ts e1 hk = get_ts e2 hk /\ get_ts e1 bk = get_ts e2 bk) ->
  (* ... and, before the first certificate, on the bootstrap tipset *)
  (cs_has_latest cs = false ->
     by_epoch e1 (get_ts e1 h1) (c_bootstrap c - c_finality c) (S (length e1)) = by_epoch e2 (get_ts e2 h2) (c_bootstrap c - c_finality c) (S (length e2)) /\
     forall t, by_epoch e1 (get_ts e1 h1) (c_bootstrap c - c_finality c) (S (length e1)) = Some t -> get_ts e1 (t_key t) = get_ts e2 (t_key t)) ->
  committee c e1 h1 cs inst = committee c e2 h2 cs inst.
Proof.
  intros Hc Hb. unfold committee.
  destruct (inst <? c_initial c + c_lookback c).
  - destruct (cs_table cs (c_initial c)) as [tbl|]; [|reflexivity].
    destruct (cs_has_latest cs) eqn:El; cbn [negb].
    + destruct (cs_cert cs (c_initial c)) as [[hk bk]|] eqn:Ece; cbn; [|reflexivity].
      destruct (Hc _ _ _ Ece) as [_ H]. rewrite H. reflexivity.
    + destruct (Hb eq_refl) as [H1 H2]. rewrite <- H1.
      destruct (by_epoch e1 (get_ts e1 h1) (c_bootstrap c - c_finality c) (S (length e1))) as [t|] eqn:Et; cbn; [|reflexivity].
      rewrite (H2 t eq_refl). reflexivity.
  - destruct (cs_cert cs (inst - c_lookback c)) as [[hk bk]|] eqn:Ece; [|reflexivity].
    destruct (Hc _ _ _ Ece) as [H _]. rewrite H. reflexivity.
Qed.
