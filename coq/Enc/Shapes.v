(* model -> harness: the value-independent shapes of Tree and BatchTree over n leaves, printed for the C14 harness,
   which evaluates them with the real keccak256 and compares with merkle.Tree / merkle.BatchTree.
   Serialisation (prefix): DZ = [0]; DL i = [1; i]; DN l r = 2 :: l ++ r.  Not part of the proof development. *)
From Coq Require Import ZArith List.
From F3 Require Import Merkle.
Import ListNotations.
Open Scope Z_scope.
Definition seqZ (n : nat) : list Z := map Z.of_nat (seq 0 n).
Fixpoint ser (t : dg) : list Z := match t with DZ => [0] | DL v => [1; v] | DN l r => 2 :: ser l ++ ser r end.
Definition tree_shapes := map (fun n => ser (tree (seqZ n))) (seq 1 134).
Definition batch_ns : list nat := [1; 2; 3; 4; 5; 7; 8; 9; 16; 17; 33; 64; 65; 129]%nat.
Definition batch_shapes := map (fun n => map ser (batch_tree (seqZ n))) batch_ns.
Eval vm_compute in tree_shapes.
Eval vm_compute in (map Z.of_nat batch_ns).
Eval vm_compute in batch_shapes.
