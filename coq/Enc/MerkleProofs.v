(* C14, chain keys: the batch computation agrees with the direct one for every prefix; the root determines the whole
   list of leaves (content, length and order) as long as the hash is collision-free *)
From Coq Require Import ZArith List Arith Lia.
From F3 Require Import Merkle.
Import ListNotations.

Lemma pow2_pos d : 1 <= 2 ^ d. Proof. induction d; cbn; lia. Qed.

(* ---------- the root binds every leaf ---------- *)
(* well-sizedness: what the code asserts by panicking otherwise *)
Lemma build_inj d : forall vs ws, length vs <= 2 ^ d -> length ws <= 2 ^ d -> build d vs = build d ws -> vs = ws.
Proof.
  induction d as [|d IH]; intros vs ws Hv Hw H.
  - cbn in Hv, Hw. destruct vs as [|v [|? ?]], ws as [|w [|? ?]]; cbn in *; try lia; try discriminate H; [reflexivity|].
    injection H as ->. reflexivity.
  - destruct vs as [|v vs'] eqn:Ev, ws as [|w ws'] eqn:Ew; cbn [build] in H; try discriminate H; [reflexivity|].
    rewrite <- Ev, <- Ew in *. injection H as H1 H2.
    set (s1 := Nat.min (2 ^ d) (length vs)) in *. set (s2 := Nat.min (2 ^ d) (length ws)) in *.
    cbn [Nat.pow] in Hv, Hw.
    apply IH in H1; [|rewrite firstn_length; unfold s1; lia|rewrite firstn_length; unfold s2; lia].
    apply IH in H2; [|rewrite skipn_length; unfold s1; lia|rewrite skipn_length; unfold s2; lia].
    rewrite <- (firstn_skipn s1 vs), <- (firstn_skipn s2 ws). congruence.
Qed.

(* the left spine of a tree built at depth d over a non-empty list has exactly d internal nodes *)
Fixpoint spine (t : dg) : nat := match t with DN l _ => S (spine l) | _ => 0 end.
Lemma build_spine d : forall vs, vs <> [] -> spine (build d vs) = d.
Proof.
  induction d as [|d IH]; intros vs Hne; destruct vs as [|v vs']; try congruence; [reflexivity|].
  cbn [build spine]. f_equal. apply IH.
  pose proof (pow2_pos d). destruct (Nat.min (2 ^ d) (length (v :: vs'))) eqn:E; [cbn in E; lia|cbn; discriminate].
Qed.

Lemma depth_bound n : 1 <= n -> n <= 2 ^ depth n.
Proof. intros H. unfold depth. destruct (Nat.eq_dec n 1) as [->|]; [cbn; lia|]. apply Nat.log2_up_spec. lia. Qed.

(* C14: two chains with the same key are the same chain (every tipset encoding, the length and the order) *)
Theorem tree_inj vs ws : tree vs = tree ws -> vs = ws.
Proof.
  unfold tree. intros H.
  destruct vs as [|v vs'] eqn:Ev, ws as [|w ws'] eqn:Ew; try reflexivity.
  - destruct (depth (length (w :: ws'))); cbn in H; discriminate H.
  - destruct (depth (length (v :: vs'))); cbn in H; discriminate H.
  - rewrite <- Ev, <- Ew in *.
    assert (Hd : depth (length vs) = depth (length ws)).
    { rewrite <- (build_spine (depth (length vs)) vs), <- (build_spine (depth (length ws)) ws); [congruence|subst; discriminate|subst; discriminate]. }
    rewrite Hd in H. apply build_inj in H; [exact H| |].
    + rewrite <- Hd. apply depth_bound. subst; cbn; lia.
    + apply depth_bound. subst; cbn; lia.
Qed.

(* ---------- batch = direct, for every prefix ---------- *)
Lemma depth_pow2 d : depth (2 ^ d) = d. Proof. apply Nat.log2_up_pow2. lia. Qed.
Lemma depth_split k : 2 <= k -> 2 ^ (depth k - 1) < k /\ k <= 2 ^ depth k.
Proof. intros H. unfold depth. pose proof (Nat.log2_up_spec k ltac:(lia)) as S. rewrite Nat.sub_1_r. exact S. Qed.

Lemma build_S d l : l <> [] ->
  build (S d) l = DN (build d (firstn (Nat.min (2 ^ d) (length l)) l)) (build d (skipn (Nat.min (2 ^ d) (length l)) l)).
Proof. destruct l; [congruence|reflexivity]. Qed.

Lemma tree_prefix_unfold vs k : 2 <= k -> k <= length vs ->
  tree (firstn k vs) = DN (tree (firstn (2 ^ (depth k - 1)) vs)) (build (depth k - 1) (slice vs (2 ^ (depth k - 1)) k)).
Proof.
  intros Hk Hl. unfold tree.
  destruct (depth_split k Hk) as [H1 H2].
  assert (Hlen : length (firstn k vs) = k) by (rewrite firstn_length; lia).
  assert (Hlen2 : length (firstn (2 ^ (depth k - 1)) vs) = 2 ^ (depth k - 1)) by (rewrite firstn_length; lia).
  rewrite Hlen, Hlen2.
  destruct (depth k) as [|d] eqn:Ed; [cbn in H2; lia|].
  replace (S d - 1) with d in * by lia. rewrite depth_pow2.
  rewrite build_S by (intros E; rewrite E in Hlen; cbn in Hlen; lia).
  rewrite Hlen, Nat.min_l by lia.
  f_equal.
  - rewrite firstn_firstn, Nat.min_l by lia. reflexivity.
  - unfold slice. rewrite skipn_firstn_comm. reflexivity.
Qed.

Lemma batch_roots_spec vs : forall fuel k roots,
  1 <= k -> k + fuel = S (length vs) ->
  length roots = k - 1 -> (forall i, 1 <= i < k -> nth (i - 1) roots DZ = tree (firstn i vs)) ->
  let out := batch_roots vs fuel k roots in
  length out = length vs /\ forall i, 1 <= i <= length vs -> nth (i - 1) out DZ = tree (firstn i vs).
Proof.
  intros fuel; induction fuel as [|f IH]; intros k roots Hk Hf Hl Hr; cbn [batch_roots].
  - cbv zeta. split; [lia|]. intros i Hi. apply Hr. lia.
  - apply IH; try lia.
    + rewrite app_length. cbn. lia.
    + intros i Hi. destruct (Nat.eq_dec i k) as [->|Hne].
      * rewrite app_nth2 by lia. rewrite Hl, Nat.sub_diag. cbn [nth].
        destruct (Nat.eqb k 1) eqn:E1.
        -- apply Nat.eqb_eq in E1. subst k. destruct vs as [|v r]; [cbn in Hf; lia|reflexivity].
        -- apply Nat.eqb_neq in E1. assert (H2 : 2 <= k) by lia.
           rewrite (tree_prefix_unfold vs k H2) by lia. f_equal.
           destruct (depth_split k H2) as [Hs _]. apply Hr. pose proof (pow2_pos (depth k - 1)). lia.
      * rewrite app_nth1 by lia. apply Hr. lia.
Qed.

(* C14: the key computed in batch for the prefix of length i (KeysForPrefixes / AllPrefixes) is the key computed directly *)
Theorem batch_tree_prefix vs i : 1 <= i <= length vs -> nth (i - 1) (batch_tree vs) DZ = tree (firstn i vs).
Proof.
  intros Hi. unfold batch_tree.
  assert (H := batch_roots_spec vs (length vs) 1 [] (le_n 1) eq_refl eq_refl ltac:(intros; lia)).
  apply H. exact Hi.
Qed.
Theorem batch_tree_length vs : length (batch_tree vs) = length vs.
Proof.
  unfold batch_tree.
  assert (H := batch_roots_spec vs (length vs) 1 [] (le_n 1) eq_refl eq_refl ltac:(intros; lia)).
  apply H.
Qed.
