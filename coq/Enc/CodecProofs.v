(* C14: the generic codec model -- round trip, truncation detection, allocation bound (for EVERY schema / value / input). *)
From Coq Require Import ZArith List Bool Lia.
From F3 Require Import Payload PayloadProofs Cbor CborProofs Codec.
Import ListNotations.
Open Scope Z_scope.

(* ---------- lists ---------- *)
Lemma app_split {A} (a b p q : list A) :
  p ++ q = a ++ b -> (exists t, a = p ++ t /\ q = t ++ b) \/ (exists t, p = a ++ t /\ b = t ++ q).
Proof.
  revert a; induction p as [|x p IH]; intros a H; cbn in *.
  - left. exists a. split; [reflexivity|exact H].
  - destruct a as [|y a]; cbn in *.
    + right. exists (x :: p). split; [reflexivity|]. symmetry; exact H.
    + injection H as -> H. destruct (IH _ H) as [[t [-> ->]]|[t [-> ->]]]; [left|right]; exists t; split; reflexivity.
Qed.

Definition sprefix (p bs : list Z) : Prop := exists q, q <> [] /\ bs = p ++ q.

Lemma take_app (b rest : list Z) : take (Z.of_nat (length b)) (b ++ rest) = Some (b, rest).
Proof.
  unfold take. rewrite app_length, Nat2Z.inj_add.
  replace (Z.of_nat (length b) + Z.of_nat (length rest) <? Z.of_nat (length b)) with false by (symmetry; apply Z.ltb_ge; lia).
  rewrite Nat2Z.id, firstn_app, Nat.sub_diag, firstn_O, app_nil_r, firstn_all2, skipn_app, Nat.sub_diag, skipn_all2 by lia.
  reflexivity.
Qed.
Lemma take_short (b t q : list Z) : q <> [] -> b = t ++ q -> take (Z.of_nat (length b)) t = None.
Proof.
  intros Hq ->. unfold take. rewrite app_length, Nat2Z.inj_add.
  destruct q; [congruence|]. cbn [length]. rewrite Nat2Z.inj_succ.
  replace (Z.of_nat (length t) <? Z.of_nat (length t) + Z.succ (Z.of_nat (length q))) with true by (symmetry; apply Z.ltb_lt; lia).
  reflexivity.
Qed.

(* ---------- headers ---------- *)
Lemma dec_arg_short k minv mt r : (length r < k)%nat -> dec_arg k minv mt r = None.
Proof. intros H. unfold dec_arg. replace (Nat.ltb (length r) k) with true by (symmetry; apply Nat.ltb_lt; exact H). reflexivity. Qed.

Lemma hdr_trunc mt n p : 0 <= mt < 8 -> 0 <= n < 2 ^ 64 -> sprefix p (encode_header mt n) -> decode_header p = None.
Proof.
  intros Hm Hn [q [Hq E]].
  assert (D : forall a, 0 <= a < 32 -> (mt * 32 + a) / 32 = mt /\ (mt * 32 + a) mod 32 = a).
  { intros a Ha. split; [rewrite Z.div_add_l by lia; rewrite Z.div_small; lia|rewrite Z.add_comm, Z.mod_add, Z.mod_small; lia]. }
  destruct p as [|b p]; [reflexivity|].
  assert (L : (length (b :: p) < length (encode_header mt n))%nat).
  { rewrite E, app_length. destruct q; [congruence|cbn; lia]. }
  unfold encode_header in E, L.
  destruct (n <? 24); [cbn in L; lia|].
  destruct (n <? 256).
  { cbn [app] in E. symmetry in E. injection E as -> E. cbn [decode_header]. destruct (D 24 ltac:(lia)) as [-> ->].
    change (24 <? 24) with false. change (24 =? 24) with true. cbv iota. apply dec_arg_short. cbn [length] in L. rewrite be_length in L. lia. }
  destruct (n <? 65536).
  { cbn [app] in E. symmetry in E. injection E as -> E. cbn [decode_header]. destruct (D 25 ltac:(lia)) as [-> ->].
    change (25 <? 24) with false. change (25 =? 24) with false. change (25 =? 25) with true. cbv iota.
    apply dec_arg_short. cbn [length] in L. rewrite be_length in L. lia. }
  destruct (n <? 4294967296).
  { cbn [app] in E. symmetry in E. injection E as -> E. cbn [decode_header]. destruct (D 26 ltac:(lia)) as [-> ->].
    change (26 <? 24) with false. change (26 =? 24) with false. change (26 =? 25) with false. change (26 =? 26) with true. cbv iota.
    apply dec_arg_short. cbn [length] in L. rewrite be_length in L. lia. }
  cbn [app] in E. symmetry in E. injection E as -> E. cbn [decode_header]. destruct (D 27 ltac:(lia)) as [-> ->].
  change (27 <? 24) with false. change (27 =? 24) with false. change (27 =? 25) with false. change (27 =? 26) with false.
  change (27 =? 27) with true. cbv iota. apply dec_arg_short. cbn [length] in L. rewrite be_length in L. lia.
Qed.

(* a prefix-comparable input: either the header itself is cut, or the header is complete *)
Lemma hdr_split mt n b p q : 0 <= mt < 8 -> 0 <= n < 2 ^ 64 -> p ++ q = encode_header mt n ++ b ->
  decode_header p = None \/ exists t, p = encode_header mt n ++ t /\ b = t ++ q.
Proof.
  intros Hm Hn E. destruct (app_split _ _ _ _ E) as [[t [E1 E2]]|[t [E1 E2]]].
  - destruct t as [|x t].
    + right. exists []. rewrite app_nil_r in E1. rewrite app_nil_r. split; [symmetry; exact E1|cbn in E2; cbn; symmetry; exact E2].
    + left. apply (hdr_trunc mt n); try assumption. exists (x :: t). split; [discriminate|exact E1].
  - right. exists t. split; assumption.
Qed.

Lemma hdr_first mt n : 0 <= mt < 8 -> 0 <= n -> exists low r, encode_header mt n = (mt * 32 + low) :: r /\ 0 <= low < 28.
Proof.
  intros Hm Hn. unfold encode_header.
  destruct (n <? 24) eqn:E; [apply Z.ltb_lt in E; exists n, []; split; [reflexivity|lia]|].
  destruct (n <? 256); [eexists 24, _; split; [reflexivity|lia]|].
  destruct (n <? 65536); [eexists 25, _; split; [reflexivity|lia]|].
  destruct (n <? 4294967296); [eexists 26, _; split; [reflexivity|lia]|].
  eexists 27, _; split; [reflexivity|lia].
Qed.

Lemma p64 : 2 ^ 64 = 18446744073709551616. Proof. reflexivity. Qed.
Lemma p63 : 2 ^ 63 = 9223372036854775808. Proof. reflexivity. Qed.
Lemma gtb_false a b : a <= b -> (a >? b) = false.
Proof. intros H. rewrite Z.gtb_ltb. apply Z.ltb_ge. exact H. Qed.
Lemma gtb_true a b : b < a -> (a >? b) = true.
Proof. intros H. rewrite Z.gtb_ltb. apply Z.ltb_lt. exact H. Qed.

Lemma unbe_be_min_fuel f : forall x acc, 0 <= x < 256 ^ Z.of_nat f -> unbe (be_min_fuel f x acc) 0 = unbe acc x.
Proof.
  induction f as [|f IH]; intros x acc Hx.
  - cbn in Hx. cbn [be_min_fuel]. replace x with 0 by lia. reflexivity.
  - cbn [be_min_fuel]. destruct (x <=? 0) eqn:E0.
    + apply Z.leb_le in E0. replace x with 0 by lia. reflexivity.
    + apply Z.leb_gt in E0. rewrite Nat2Z.inj_succ, Z.pow_succ_r in Hx by lia.
      rewrite IH by (split; [apply Z.div_pos; lia|apply Z.div_lt_upper_bound; lia]).
      cbn [unbe]. f_equal. pose proof (Z.div_mod x 256 ltac:(lia)). lia.
Qed.
Lemma unbe_be_min x : 0 <= x < 256 ^ 136 -> unbe (be_min x) 0 = x.
Proof. intros H. unfold be_min. rewrite unbe_be_min_fuel; [reflexivity|exact H]. Qed.

(* ---------- sequences of readers ---------- *)
Lemma fst_seqd_cons d ds bs :
  fst (seqd (d :: ds) bs) =
  match fst (d bs) with
  | None => None
  | Some (v, r1) => match fst (seqd ds r1) with None => None | Some (vs, r2) => Some (v :: vs, r2) end
  end.
Proof.
  cbn [seqd]. destruct (d bs) as [[[v r1]|] a]; cbn [fst]; [|reflexivity].
  destruct (seqd ds r1) as [[[vs r2]|] a2]; reflexivity.
Qed.
Lemma rep_seqd d k : forall bs, rep d k bs = seqd (repeat d k) bs.
Proof.
  induction k as [|k IH]; intros bs; cbn [rep repeat seqd]; [reflexivity|].
  destruct (d bs) as [[[v r1]|] a]; [rewrite IH|]; reflexivity.
Qed.
Lemma fst_wrap_list x r :
  fst (wrap_list x r) = match fst r with None => None | Some (vs, rest) => Some (VList vs, rest) end.
Proof. destruct r as [[[vs rest]|] a]; reflexivity. Qed.

Definition Good (d : list Z -> dret) (bs : list Z) (v : value) : Prop :=
  (forall rest, fst (d (bs ++ rest)) = Some (v, rest)) /\ (forall p, sprefix p bs -> fst (d p) = None).

Inductive GoodSeq : list (list Z -> dret) -> list value -> list (list Z) -> Prop :=
| GS_nil : GoodSeq [] [] []
| GS_cons d ds v vs b bs : Good d b v -> GoodSeq ds vs bs -> GoodSeq (d :: ds) (v :: vs) (b :: bs).

Lemma seqd_rt ds vs bss : GoodSeq ds vs bss -> forall rest, fst (seqd ds (concat bss ++ rest)) = Some (vs, rest).
Proof.
  induction 1 as [|d ds v vs b bs [Hrt _] _ IH]; intros rest; [reflexivity|].
  rewrite fst_seqd_cons. cbn [concat]. rewrite <- app_assoc, Hrt, IH. reflexivity.
Qed.
Lemma seqd_trunc ds vs bss : GoodSeq ds vs bss -> forall p q, q <> [] -> p ++ q = concat bss -> fst (seqd ds p) = None.
Proof.
  induction 1 as [|d ds v vs b bs [Hrt Htr] _ IH]; intros p q Hq E.
  - cbn in E. destruct p; cbn in E; [congruence|discriminate].
  - cbn [concat] in E. rewrite fst_seqd_cons.
    destruct (app_split _ _ _ _ E) as [[t [E1 E2]]|[t [E1 E2]]].
    + destruct t as [|x t].
      * rewrite app_nil_r in E1. subst b. pose proof (Hrt []) as R. rewrite app_nil_r in R. rewrite R.
        cbn in E2. rewrite (IH [] q Hq); [reflexivity|cbn; exact E2].
      * rewrite (Htr p); [reflexivity|]. exists (x :: t). split; [discriminate|exact E1].
    + subst p. rewrite Hrt. rewrite (IH t q Hq); [reflexivity|symmetry; exact E2].
Qed.

Section Proofs.
Variable cid_ok : list Z -> bool.
Notation E := (encode cid_ok).
Notation D := (decode cid_ok).

Ltac hdr_cut p Hp :=
  let q := fresh "q" in let Hq := fresh "Hq" in let Eq := fresh "Eq" in
  destruct Hp as [q [Hq Eq]]; symmetry in Eq.

Lemma good_uint64 z : 0 <= z < 2 ^ 64 -> Good d_uint64 (encode_header 0 z) (VZ z).
Proof.
  intros H. split.
  - intros rest. unfold d_uint64. rewrite header_roundtrip by lia. reflexivity.
  - intros p Hp. unfold d_uint64. rewrite (hdr_trunc 0 z) by (try lia; exact Hp). reflexivity.
Qed.
Lemma good_uint8 z : 0 <= z < 256 -> Good d_uint8 (encode_header 0 z) (VZ z).
Proof.
  intros H. pose proof p64. split.
  - intros rest. unfold d_uint8. rewrite header_roundtrip by lia. cbn [Z.eqb]. rewrite gtb_false by lia. reflexivity.
  - intros p Hp. unfold d_uint8. rewrite (hdr_trunc 0 z) by (try lia; exact Hp). reflexivity.
Qed.
Lemma good_int64 z : - 2 ^ 63 <= z < 2 ^ 63 ->
  Good d_int64 (if 0 <=? z then encode_header 0 z else encode_header 1 (- z - 1)) (VZ z).
Proof.
  intros H. pose proof p64. pose proof p63. destruct (0 <=? z) eqn:Ez; [apply Z.leb_le in Ez|apply Z.leb_gt in Ez]; split.
  - intros rest. unfold d_int64. rewrite header_roundtrip by lia. cbn [Z.eqb].
    replace (z >=? 2 ^ 63) with false by (symmetry; rewrite Z.geb_leb; apply Z.leb_gt; lia). reflexivity.
  - intros p Hp. unfold d_int64. rewrite (hdr_trunc 0 z) by (try lia; exact Hp). reflexivity.
  - intros rest. unfold d_int64. rewrite header_roundtrip by lia. cbn [Z.eqb].
    replace (- z - 1 >=? 2 ^ 63) with false by (symmetry; rewrite Z.geb_leb; apply Z.leb_gt; lia).
    replace (- 1 - (- z - 1)) with z by lia. reflexivity.
  - intros p Hp. unfold d_int64. rewrite (hdr_trunc 1 (- z - 1)) by (try lia; exact Hp). reflexivity.
Qed.
Lemma good_bool (b : bool) : Good d_bool [if b then 245 else 244] (VB b).
Proof.
  split.
  - intros rest. destruct b; reflexivity.
  - intros p [q [Hq Eq]]. destruct p as [|x p]; [reflexivity|].
    destruct p; cbn in Eq; [destruct q; [congruence|discriminate]|discriminate].
Qed.

Lemma good_bytes max b : Z.of_nat (length b) <= max -> max < 2 ^ 64 -> Good (d_bytes max) (enc_bytes 2 b) (VBytes b).
Proof.
  intros H1 H2. unfold enc_bytes. split.
  - intros rest. unfold d_bytes. rewrite <- app_assoc, header_roundtrip by lia.
    rewrite gtb_false by lia. cbn [Z.eqb negb]. rewrite take_app. reflexivity.
  - intros p Hp. hdr_cut p Hp. apply hdr_split in Eq; try lia. destruct Eq as [Eq|[t [-> Eb]]]; unfold d_bytes.
    + rewrite Eq. reflexivity.
    + rewrite header_roundtrip by lia. rewrite gtb_false by lia. cbn [Z.eqb negb]. rewrite (take_short b t q Hq Eb). reflexivity.
Qed.
Lemma good_fixed n b : Z.of_nat (length b) = n -> n < 2 ^ 64 -> Good (d_fixed n) (enc_bytes 2 b) (VBytes b).
Proof.
  intros H1 H2. unfold enc_bytes. split.
  - intros rest. unfold d_fixed. rewrite <- app_assoc, header_roundtrip by lia.
    rewrite gtb_false by lia. cbn [Z.eqb negb]. rewrite H1, Z.eqb_refl. cbn [negb]. rewrite <- H1, take_app. reflexivity.
  - intros p Hp. hdr_cut p Hp. apply hdr_split in Eq; try lia. destruct Eq as [Eq|[t [-> Eb]]]; unfold d_fixed.
    + rewrite Eq. reflexivity.
    + rewrite header_roundtrip by lia. rewrite gtb_false by lia. cbn [Z.eqb negb]. rewrite H1, Z.eqb_refl. cbn [negb].
      rewrite <- H1, (take_short b t q Hq Eb). reflexivity.
Qed.
Lemma good_bits b : Z.of_nat (length b) <= bits_max -> bits_ok b = true -> Good d_bits (enc_bytes 2 b) (VBytes b).
Proof.
  intros H1 H2. unfold enc_bytes. pose proof p64. assert (bits_max < 2 ^ 64) by (unfold bits_max; lia). split.
  - intros rest. unfold d_bits. rewrite <- app_assoc, header_roundtrip by lia.
    rewrite gtb_false by lia. cbn [Z.eqb negb]. rewrite take_app, H2. reflexivity.
  - intros p Hp. hdr_cut p Hp. apply hdr_split in Eq; try lia. destruct Eq as [Eq|[t [-> Eb]]]; unfold d_bits.
    + rewrite Eq. reflexivity.
    + rewrite header_roundtrip by lia. rewrite gtb_false by lia. cbn [Z.eqb negb]. rewrite (take_short b t q Hq Eb). reflexivity.
Qed.
Lemma good_cid c : cid_ok c = true -> c <> [] -> Z.of_nat (length c) + 1 <= cid_max ->
  Good (d_cid cid_ok) (encode_header 6 42 ++ encode_header 2 (Z.of_nat (length c) + 1) ++ 0 :: c) (VBytes c).
Proof.
  intros H1 Hne H2. pose proof p64. assert (cid_max < 2 ^ 64) by (unfold cid_max; lia).
  assert (L : Z.of_nat (length (0 :: c)) = Z.of_nat (length c) + 1) by (cbn [length]; lia). split.
  - intros rest. unfold d_cid. rewrite <- !app_assoc, header_roundtrip by lia. cbn [Z.eqb negb].
    rewrite header_roundtrip by lia. cbn [Z.eqb negb]. rewrite gtb_false by lia.
    rewrite <- L. rewrite <- app_comm_cons, (app_comm_cons c rest 0), take_app.
    destruct c as [|x c]; [congruence|]. cbn [Z.eqb negb]. rewrite H1. reflexivity.
  - intros p Hp. hdr_cut p Hp. apply hdr_split in Eq; try lia. destruct Eq as [Eq|[t [-> Eb]]]; unfold d_cid.
    + rewrite Eq. reflexivity.
    + rewrite header_roundtrip by lia. cbn [Z.eqb negb]. symmetry in Eb. apply hdr_split in Eb; try lia.
      destruct Eb as [Eb|[t' [-> Eb]]].
      * rewrite Eb. reflexivity.
      * rewrite header_roundtrip by lia. cbn [Z.eqb negb]. rewrite gtb_false by lia. rewrite <- L, (take_short (0 :: c) t' q Hq Eb). reflexivity.
Qed.

Lemma good_big z : Z.of_nat (length (big_bytes z)) <= big_max -> Z.abs z < 256 ^ 136 ->
  Good d_big (enc_bytes 2 (big_bytes z)) (VBig z).
Proof.
  intros H1 H2. pose proof p64. assert (big_max < 2 ^ 64) by (unfold big_max; lia). unfold enc_bytes.
  destruct (Z.eq_dec z 0) as [->|Hz].
  - cbn [big_bytes Z.eqb length Z.of_nat app]. split.
    + intros rest. reflexivity.
    + intros p [q [Hq Eq]]. destruct p as [|x p]; [reflexivity|].
      destruct p; cbn in Eq; [destruct q; [congruence|discriminate]|discriminate].
  - assert (Hb : big_bytes z = (if z <? 0 then 1 else 0) :: be_min (Z.abs z)).
    { unfold big_bytes. replace (z =? 0) with false by (symmetry; apply Z.eqb_neq; exact Hz). reflexivity. }
    assert (Hl : Z.of_nat (length (big_bytes z)) <> 0) by (rewrite Hb; cbn [length]; lia).
    split.
    + intros rest. unfold d_big. rewrite <- app_assoc, header_roundtrip by lia. cbn [Z.eqb negb].
      replace (Z.of_nat (length (big_bytes z)) =? 0) with false by (symmetry; apply Z.eqb_neq; exact Hl).
      rewrite gtb_false by lia. rewrite take_app. rewrite Hb.
      destruct (z <? 0) eqn:Ez; cbn [Z.eqb]; rewrite unbe_be_min by lia.
      * apply Z.ltb_lt in Ez. replace (- Z.abs z) with z by lia. reflexivity.
      * apply Z.ltb_ge in Ez. replace (Z.abs z) with z by lia. reflexivity.
    + intros p Hp. hdr_cut p Hp. apply hdr_split in Eq; try lia. destruct Eq as [Eq|[t [-> Eb]]]; unfold d_big.
      * rewrite Eq. reflexivity.
      * rewrite header_roundtrip by lia. cbn [Z.eqb negb].
        replace (Z.of_nat (length (big_bytes z)) =? 0) with false by (symmetry; apply Z.eqb_neq; exact Hl).
        rewrite gtb_false by lia. rewrite (take_short _ t q Hq Eb). reflexivity.
Qed.

(* ---------- composite schemas ---------- *)
Definition Rt (s : schema) : Prop := forall v, wfv cid_ok s v -> exists b, E s v = Some b /\ Good (D s) b v.

Lemma array_first s v b : array_headed s -> wf_schema s -> E s v = Some b -> exists low r, b = (128 + low) :: r /\ 0 <= low < 28.
Proof.
  intros Ha Hw He. destruct s; try contradiction; destruct v; try discriminate; cbn [encode] in He.
  - destruct (Z.of_nat (length l) >? max); [discriminate|]. destruct (enc_all (encode cid_ok s) l); [|discriminate].
    injection He as <-. destruct (hdr_first 4 (Z.of_nat (length l)) ltac:(lia) ltac:(lia)) as [low [r [-> Hl]]].
    exists low, (r ++ l0). split; [reflexivity|exact Hl].
  - destruct (enc_seq (map (encode cid_ok) fs) l); [|discriminate].
    injection He as <-. destruct (hdr_first 4 (Z.of_nat (length fs)) ltac:(lia) ltac:(lia)) as [low [r [-> Hl]]].
    exists low, (r ++ l0). split; [reflexivity|exact Hl].
Qed.

Lemma rt_list max e : 0 <= max < 2 ^ 64 -> Rt e -> Rt (SList max e).
Proof.
  intros Hm IH v Hv. destruct v as [| | | |vs| |]; try contradiction. cbn [wfv] in Hv. destruct Hv as [Hlen Hall].
  assert (B : exists bss, enc_all (E e) vs = Some (concat bss) /\ GoodSeq (repeat (D e) (length vs)) vs bss).
  { clear Hlen. induction vs as [|v vs IHv].
    - exists []. split; [reflexivity|constructor].
    - destruct Hall as [Hv Hall]. destruct (IH v Hv) as [b [Eb Gb]]. destruct (IHv Hall) as [bss [Ebs Gs]].
      exists (b :: bss). split; [cbn [enc_all concat]; rewrite Eb, Ebs; reflexivity|cbn [length repeat]; constructor; assumption]. }
  destruct B as [bss [Eb Gs]]. cbn [encode]. rewrite gtb_false by lia. rewrite Eb. eexists. split; [reflexivity|]. split.
  - intros rest. cbn [decode]. rewrite <- app_assoc, header_roundtrip by lia. rewrite gtb_false by lia. rewrite Z.eqb_refl. cbn [negb].
    rewrite fst_wrap_list, Nat2Z.id, rep_seqd, (seqd_rt _ _ _ Gs). reflexivity.
  - intros p Hp. hdr_cut p Hp. apply hdr_split in Eq; try lia. destruct Eq as [Eq|[t [-> Eb']]]; cbn [decode].
    + rewrite Eq. reflexivity.
    + rewrite header_roundtrip by lia. rewrite gtb_false by lia. rewrite Z.eqb_refl. cbn [negb].
      rewrite fst_wrap_list, Nat2Z.id, rep_seqd, (seqd_trunc _ _ _ Gs t q Hq (eq_sym Eb')). reflexivity.
Qed.

Lemma rt_tuple fs : Z.of_nat (length fs) < 2 ^ 64 -> Forall Rt fs -> Rt (STuple fs).
Proof.
  intros Hn IH v Hv. destruct v as [| | | |vs| |]; try contradiction. cbn [wfv] in Hv.
  assert (B : exists bss, enc_seq (map E fs) vs = Some (concat bss) /\ GoodSeq (map D fs) vs bss).
  { clear Hn. revert vs Hv. induction IH as [|f fs Hf _ IHf]; intros vs Hv.
    - destruct vs; [|contradiction]. exists []. split; [reflexivity|constructor].
    - destruct vs as [|v vs]; [contradiction|]. destruct Hv as [Hv Hall]. destruct (Hf v Hv) as [b [Eb Gb]].
      destruct (IHf vs Hall) as [bss [Ebs Gs]].
      exists (b :: bss). split; [cbn [map enc_seq concat]; rewrite Eb, Ebs; reflexivity|cbn [map]; constructor; assumption]. }
  destruct B as [bss [Eb Gs]]. cbn [encode]. rewrite Eb. eexists. split; [reflexivity|]. split.
  - intros rest. cbn [decode]. rewrite <- app_assoc, header_roundtrip by lia. rewrite !Z.eqb_refl. cbn [negb].
    rewrite fst_wrap_list, (seqd_rt _ _ _ Gs). reflexivity.
  - intros p Hp. hdr_cut p Hp. apply hdr_split in Eq; try lia. destruct Eq as [Eq|[t [-> Eb']]]; cbn [decode].
    + rewrite Eq. reflexivity.
    + rewrite header_roundtrip by lia. rewrite !Z.eqb_refl. cbn [negb].
      rewrite fst_wrap_list, (seqd_trunc _ _ _ Gs t q Hq (eq_sym Eb')). reflexivity.
Qed.

Lemma first_not_null low : 0 <= low < 28 -> (128 + low =? 246) = false.
Proof. intros H. apply Z.eqb_neq. lia. Qed.

Lemma rt_null e : array_headed e -> wf_schema e -> Rt e -> Rt (SNull e).
Proof.
  intros Ha Hw IH v Hv. destruct v as [| | | | | |v]; try contradiction.
  - exists [246]. split; [reflexivity|]. split.
    + intros rest. reflexivity.
    + intros p [q [Hq Eq]]. destruct p as [|x p]; [reflexivity|].
      destruct p; cbn in Eq; [destruct q; [congruence|discriminate]|discriminate].
  - cbn [wfv] in Hv. destruct (IH v Hv) as [b [Eb [Hrt Htr]]]. exists b. split; [exact Eb|].
    destruct (array_first _ _ _ Ha Hw Eb) as [low [r [-> Hl]]]. split.
    + intros rest. pose proof (Hrt rest) as R. cbn [decode app]. rewrite first_not_null by exact Hl.
      cbn [app] in R. destruct (D e ((128 + low) :: r ++ rest)) as [[[v' r']|] a]; cbn [fst] in *; [injection R as -> ->; reflexivity|discriminate].
    + intros p Hp. pose proof (Htr p Hp) as R. destruct Hp as [q [Hq Eq]]. destruct p as [|x p]; [reflexivity|].
      assert (Hx : x = 128 + low) by (cbn [app] in Eq; congruence). subst x. cbn [decode]. rewrite first_not_null by exact Hl.
      destruct (D e ((128 + low) :: p)) as [[[v' r']|] a]; cbn [fst] in *; [discriminate|reflexivity].
Qed.

Lemma rt_nulldef e : array_headed e -> wf_schema e -> Rt e -> Rt (SNullDef e).
Proof.
  intros Ha Hw IH v Hv. cbn [wfv] in Hv.
  assert (Hv' : wfv cid_ok e v) by (destruct e; exact Hv).
  destruct (IH v Hv') as [b [Eb [Hrt Htr]]]. exists b.
  split; [destruct e, v; exact Eb|].
  destruct (array_first _ _ _ Ha Hw Eb) as [low [r [-> Hl]]]. split.
  - intros rest. pose proof (Hrt rest) as R. cbn [decode app]. rewrite first_not_null by exact Hl. exact R.
  - intros p Hp. pose proof (Htr p Hp) as R. destruct Hp as [q [Hq Eq]]. destruct p as [|x p]; [reflexivity|].
    assert (Hx : x = 128 + low) by (cbn [app] in Eq; congruence). subst x. cbn [decode]. rewrite first_not_null by exact Hl. exact R.
Qed.

(* ---------- induction over schemas (nested lists of field schemas) ---------- *)
Section SchemaInd.
  Variable P : schema -> Prop.
  Hypothesis H1 : P SUint64. Hypothesis H2 : P SUint8. Hypothesis H3 : P SInt64. Hypothesis H4 : P SBool.
  Hypothesis H5 : forall m, P (SBytes m). Hypothesis H6 : forall n, P (SFixed n).
  Hypothesis H7 : P SCid. Hypothesis H8 : P SBigInt. Hypothesis H9 : P SBits.
  Hypothesis H10 : forall m e, P e -> P (SList m e).
  Hypothesis H11 : forall fs, Forall P fs -> P (STuple fs).
  Hypothesis H12 : forall e, P e -> P (SNull e).
  Hypothesis H13 : forall e, P e -> P (SNullDef e).
  Fixpoint schema_ind' (s : schema) : P s :=
    match s with
    | SUint64 => H1 | SUint8 => H2 | SInt64 => H3 | SBool => H4
    | SBytes m => H5 m | SFixed n => H6 n | SCid => H7 | SBigInt => H8 | SBits => H9
    | SList m e => H10 m e (schema_ind' e)
    | STuple fs => H11 fs ((fix go (l : list schema) : Forall P l :=
                              match l with [] => Forall_nil P | f :: r => Forall_cons f (schema_ind' f) (go r) end) fs)
    | SNull e => H12 e (schema_ind' e)
    | SNullDef e => H13 e (schema_ind' e)
    end.
End SchemaInd.

Lemma wf_tuple_forall fs :
  (fix all (l : list schema) : Prop := match l with [] => True | f :: r => wf_schema f /\ all r end) fs -> Forall wf_schema fs.
Proof. induction fs as [|f fs IH]; intros H; [constructor|destruct H as [Hf Hr]; constructor; [exact Hf|exact (IH Hr)]]. Qed.

Theorem roundtrip_all : forall s, wf_schema s -> Rt s.
Proof.
  pose proof p64 as P64. pose proof p63 as P63.
  induction s as [| | | |m|n| | | |m e IH|fs IH|e IH|e IH] using schema_ind'; intros Hw v Hv.
  - destruct v; try contradiction. cbn [wfv] in Hv. exists (encode_header 0 z). split; [|apply good_uint64; exact Hv].
    cbn [encode]. replace (0 <=? z) with true by (symmetry; apply Z.leb_le; lia).
    replace (z <? 2 ^ 64) with true by (symmetry; apply Z.ltb_lt; lia). reflexivity.
  - destruct v; try contradiction. cbn [wfv] in Hv. exists (encode_header 0 z). split; [|apply good_uint8; exact Hv].
    cbn [encode]. replace (0 <=? z) with true by (symmetry; apply Z.leb_le; lia).
    replace (z <? 256) with true by (symmetry; apply Z.ltb_lt; lia). reflexivity.
  - destruct v; try contradiction. cbn [wfv] in Hv. eexists. split; [|apply good_int64; exact Hv].
    cbn [encode]. replace (- 2 ^ 63 <=? z) with true by (symmetry; apply Z.leb_le; lia).
    replace (z <? 2 ^ 63) with true by (symmetry; apply Z.ltb_lt; lia). reflexivity.
  - destruct v; try contradiction. eexists. split; [reflexivity|apply good_bool].
  - destruct v; try contradiction. cbn [wfv] in Hv. cbn [wf_schema] in Hw. eexists. split; [|apply good_bytes; [exact Hv|lia]].
    cbn [encode]. rewrite gtb_false by exact Hv. reflexivity.
  - destruct v; try contradiction. cbn [wfv] in Hv. cbn [wf_schema] in Hw. eexists. split; [|apply good_fixed; [exact Hv|lia]].
    cbn [encode]. rewrite Hv, Z.eqb_refl. reflexivity.
  - destruct v; try contradiction. cbn [wfv] in Hv. destruct Hv as [Hc [Hne Hl]]. eexists. split; [|apply good_cid; assumption].
    cbn [encode]. rewrite Hc. reflexivity.
  - destruct v; try contradiction. cbn [wfv] in Hv. destruct Hv as [Hl Ha]. eexists. split; [|apply good_big; assumption].
    cbn [encode]. rewrite gtb_false by exact Hl. reflexivity.
  - destruct v; try contradiction. cbn [wfv] in Hv. destruct Hv as [Hl Hb]. eexists. split; [|apply good_bits; assumption].
    cbn [encode]. rewrite gtb_false by exact Hl. reflexivity.
  - cbn [wf_schema] in Hw. destruct Hw as [Hm He]. exact (rt_list m e Hm (IH He) v Hv).
  - cbn [wf_schema] in Hw. destruct Hw as [Hn Hall]. apply wf_tuple_forall in Hall.
    refine (rt_tuple fs Hn _ v Hv). clear -IH Hall. induction IH as [|f fs Hf _ IHf]; [constructor|].
    inversion Hall as [|? ? Hwf Hwr]; subst. constructor; [exact (Hf Hwf)|exact (IHf Hwr)].
  - cbn [wf_schema] in Hw. destruct Hw as [Ha He]. exact (rt_null e Ha He (IH He) v Hv).
  - cbn [wf_schema] in Hw. destruct Hw as [[m [e' ->]] He]. exact (rt_nulldef (SList m e') I He (IH He) v Hv).
Qed.

(* ---------- the theorems ---------- *)
Theorem codec_roundtrip s v : wf_schema s -> wfv cid_ok s v ->
  exists b, E s v = Some b /\ forall rest, fst (D s (b ++ rest)) = Some (v, rest).
Proof. intros Hw Hv. destruct (roundtrip_all s Hw v Hv) as [b [Eb [Hrt _]]]. exists b. split; assumption. Qed.

Theorem codec_truncated s v b p q : wf_schema s -> wfv cid_ok s v -> E s v = Some b -> q <> [] -> b = p ++ q ->
  fst (D s p) = None.
Proof.
  intros Hw Hv Eb Hq Hb. destruct (roundtrip_all s Hw v Hv) as [b' [Eb' [_ Htr]]]. rewrite Eb in Eb'. injection Eb' as <-.
  apply Htr. exists q. split; assumption.
Qed.

Theorem codec_encode_inj s v1 v2 b : wf_schema s -> wfv cid_ok s v1 -> wfv cid_ok s v2 ->
  E s v1 = Some b -> E s v2 = Some b -> v1 = v2.
Proof.
  intros Hw H1 H2 E1 E2.
  destruct (codec_roundtrip s v1 Hw H1) as [b1 [Eb1 R1]]. destruct (codec_roundtrip s v2 Hw H2) as [b2 [Eb2 R2]].
  rewrite E1 in Eb1. rewrite E2 in Eb2. injection Eb1 as <-. injection Eb2 as <-.
  pose proof (R1 []) as A. pose proof (R2 []) as B. rewrite A in B. congruence.
Qed.

(* ---------- allocation requests: every one is below the limit of the schema, on EVERY input ---------- *)
Definition Bounded (L : Z) (l : list Z) : Prop := Forall (fun a => a <= L) l.
Lemma bounded_mono L L' l : L <= L' -> Bounded L l -> Bounded L' l.
Proof. intros H B. eapply Forall_impl; [|exact B]. cbn. intros. lia. Qed.
Lemma bounded_app L a b : Bounded L a -> Bounded L b -> Bounded L (a ++ b).
Proof. intros. apply Forall_app. split; assumption. Qed.

Lemma seqd_allocs L ds : Forall (fun d => forall bs, Bounded L (snd (d bs))) ds -> forall bs, Bounded L (snd (seqd ds bs)).
Proof.
  induction 1 as [|d ds Hd _ IH]; intros bs; cbn [seqd]; [constructor|].
  pose proof (Hd bs) as B. destruct (d bs) as [[[v r1]|] a]; cbn [snd] in *; [|exact B].
  pose proof (IH r1) as B2. destruct (seqd ds r1) as [[[vs r2]|] a2]; cbn [snd] in *; apply bounded_app; assumption.
Qed.
Lemma gtb_le a b : (a >? b) = false -> a <= b.
Proof. rewrite Z.gtb_ltb. apply Z.ltb_ge. Qed.

Ltac alloc_prim :=
  repeat match goal with
         | |- context [match ?x with _ => _ end] => let Hx := fresh "Hx" in destruct x eqn:Hx
         end;
  cbn [snd derr]; repeat constructor;
  repeat match goal with H : (_ >? _) = false |- _ => apply gtb_le in H end;
  try (unfold cid_max, big_max, bits_max in *; lia).

Theorem codec_alloc_bounded : forall s bs, Bounded (alloc_limit s) (snd (D s bs)).
Proof.
  induction s as [| | | |m|n| | | |m e IH|fs IH|e IH|e IH] using schema_ind'; intros bs; cbn [decode alloc_limit].
  - unfold d_uint64. alloc_prim.
  - unfold d_uint8. alloc_prim.
  - unfold d_int64. alloc_prim.
  - unfold d_bool. alloc_prim.
  - unfold d_bytes. alloc_prim.
  - unfold d_fixed. alloc_prim.
  - unfold d_cid. alloc_prim.
  - unfold d_big. alloc_prim.
  - unfold d_bits. alloc_prim.
  - destruct (decode_header bs) as [[[mt n] r]|]; [|constructor].
    destruct (n >? m) eqn:Hg; [constructor|]. apply gtb_le in Hg. destruct (negb (mt =? 4)); [constructor|].
    assert (B : Bounded (Z.max m (alloc_limit e)) (snd (rep (D e) (Z.to_nat n) r))).
    { rewrite rep_seqd. apply seqd_allocs. apply Forall_forall. intros d Hd. apply repeat_spec in Hd. subst d.
      intros bs'. eapply bounded_mono; [|apply IH]. lia. }
    destruct (rep (D e) (Z.to_nat n) r) as [[[vs rest]|] a]; cbn [wrap_list snd app] in *; (constructor; [lia|exact B]).
  - destruct (decode_header bs) as [[[mt n] r]|]; [|constructor].
    destruct (negb (mt =? 4)); [constructor|]. destruct (negb (n =? Z.of_nat (length fs))); [constructor|].
    assert (B : Bounded (fold_right (fun f acc => Z.max (alloc_limit f) acc) 0 fs) (snd (seqd (map D fs) r))).
    { apply seqd_allocs. clear -IH. induction IH as [|f fs Hf _ IHf]; cbn [map fold_right]; constructor.
      - intros bs. eapply bounded_mono; [|apply Hf]. lia.
      - eapply Forall_impl; [|exact IHf]. cbn. intros d Hd bs. eapply bounded_mono; [|apply Hd]. lia. }
    destruct (seqd (map D fs) r) as [[[vs rest]|] a]; cbn [wrap_list snd app] in *; exact B.
  - destruct bs as [|b r]; [constructor|]. destruct (b =? 246); [constructor|].
    pose proof (IH (b :: r)) as B. destruct (D e (b :: r)) as [[[v r']|] a]; exact B.
  - destruct bs as [|b r]; [constructor|]. destruct (b =? 246); [constructor|]. apply IH.
Qed.

End Proofs.

(* ---------- a checker for the hypothesis on schemas (run on the regenerated schemas by Properties/C14.v) ---------- *)
Definition array_headedb (s : schema) : bool :=
  match s with SList _ _ => true | STuple fs => Z.of_nat (length fs) <? 24 | _ => false end.
Fixpoint wf_schemab (s : schema) : bool :=
  match s with
  | SBytes m => (0 <=? m) && (m <? 2 ^ 64)
  | SFixed n => (0 <=? n) && (n <? 2 ^ 64)
  | SList m e => (0 <=? m) && (m <? 2 ^ 64) && wf_schemab e
  | STuple fs => (Z.of_nat (length fs) <? 2 ^ 64) && forallb wf_schemab fs
  | SNull e => array_headedb e && wf_schemab e
  | SNullDef e => match e with SList _ _ => true | _ => false end && wf_schemab e
  | _ => true
  end.
Lemma wf_schemab_sound : forall s, wf_schemab s = true -> wf_schema s.
Proof.
  induction s as [| | | |m|n| | | |m e IH|fs IH|e IH|e IH] using schema_ind'; cbn [wf_schemab wf_schema]; intros H; try exact I.
  - apply andb_true_iff in H. destruct H as [A B]. apply Z.leb_le in A. apply Z.ltb_lt in B. lia.
  - apply andb_true_iff in H. destruct H as [A B]. apply Z.leb_le in A. apply Z.ltb_lt in B. lia.
  - apply andb_true_iff in H. destruct H as [H C]. apply andb_true_iff in H. destruct H as [A B].
    apply Z.leb_le in A. apply Z.ltb_lt in B. split; [lia|exact (IH C)].
  - apply andb_true_iff in H. destruct H as [A B]. apply Z.ltb_lt in A. split; [exact A|].
    clear A. induction IH as [|f fs Hf _ IHf]; [exact I|]. cbn [forallb] in B. apply andb_true_iff in B. destruct B as [B1 B2].
    split; [exact (Hf B1)|exact (IHf B2)].
  - apply andb_true_iff in H. destruct H as [A B]. split; [|exact (IH B)].
    destruct e; try discriminate; cbn [array_headedb array_headed] in *; [exact I|apply Z.ltb_lt in A; exact A].
  - apply andb_true_iff in H. destruct H as [A B]. split; [|exact (IH B)].
    destruct e; try discriminate. eexists _, _. reflexivity.
Qed.

(* ---------- the codec contract the write-ahead log relies on (Wal/WalProofs.v), for ANY schema ---------- *)
Definition enc_of (cid_ok : list Z -> bool) (s : schema) (v : value) : list Z :=
  match encode cid_ok s v with Some b => b | None => [] end.
Definition dec_of (cid_ok : list Z -> bool) (s : schema) (bs : list Z) : option (value * list Z) := fst (decode cid_ok s bs).

Lemma decode_nil cid_ok s : dec_of cid_ok s [] = None.
Proof. destruct s; reflexivity. Qed.

Theorem codec_contract cid_ok s : wf_schema s ->
  (forall v rest, wfv cid_ok s v -> dec_of cid_ok s (enc_of cid_ok s v ++ rest) = Some (v, rest)) /\
  (forall v, wfv cid_ok s v -> enc_of cid_ok s v <> []) /\
  (forall v p q, wfv cid_ok s v -> enc_of cid_ok s v = p ++ q -> q <> [] -> dec_of cid_ok s p = None).
Proof.
  intros Hw. split; [|split].
  - intros v rest Hv. destruct (codec_roundtrip cid_ok s v Hw Hv) as [b [Eb R]]. unfold enc_of, dec_of. rewrite Eb. apply R.
  - intros v Hv Hn. destruct (codec_roundtrip cid_ok s v Hw Hv) as [b [Eb R]]. unfold enc_of in Hn. rewrite Eb in Hn. subst b.
    pose proof (R []) as R0. cbn [app] in R0. pose proof (decode_nil cid_ok s) as N. unfold dec_of in N. rewrite N in R0. discriminate.
  - intros v p q Hv Ee Hq. destruct (codec_roundtrip cid_ok s v Hw Hv) as [b [Eb R]]. unfold enc_of in Ee. rewrite Eb in Ee.
    unfold dec_of. eapply codec_truncated; eassumption.
Qed.
