(* Generic model of the cbor-gen codecs of go-f3 (C14, "every wire and storage type decodes to an equal value after
   encoding ... decoding arbitrary, truncated, oversized input returns an error without ... allocating beyond the documented
   limits").

   A [schema] describes one generated MarshalCBOR / UnmarshalCBOR pair; the schemas of all wire and storage types are
   REGENERATED FROM /repo ON EVERY RUN by the schema extractor of go2coq (Gen/SchemasGen.v), which insists that every field
   block of the generated Go code is, token for token, one of the templates whose meaning is written down here:

     SUint64   WriteMajorTypeHeader(MajUnsignedInt, v)            / ReadHeader, maj must be 0
     SUint8    same writer                                         / additionally extra <= 255
     SInt64    major 0 for v >= 0, major 1 carrying -v-1           / either major, extra must fit an int64
     SBool     WriteBool (0xf4 / 0xf5)                             / major 7 with extra 20 or 21
     SBytes m  len <= m, header(2, len), bytes                     / extra > m rejected BEFORE make([]uint8, extra)
     SFixed n  header(2, n), n bytes                               / extra must be exactly n
     SCid      tag 42, header(2, len+1), 0x00, cid bytes           / ReadTaggedByteArray(42, 512), 0x00 prefix, cid.Cast
     SBigInt   go-state-types big.Int: sign byte + magnitude, <= 128 bytes, empty for zero
     SBits     go-bitfield: RLE+ bytes (opaque), <= 32 KiB, version bits of the first byte checked
     SList m e len <= m, header(4, len), elements                  / extra > m rejected BEFORE make([]T, extra)
     STuple fs header(4, #fields), fields                          / major 4 and exactly #fields
     SNull e   pointer: 0xf6 for nil, else the value               / ReadByte, 0xf6 => nil, else UnreadByte + value
     SNullDef e  pointer to gpbft.ECChain: the hand-written MarshalCBOR writes a nil chain as the EMPTY list; a null
                 read leaves the pointer nil, which the ECChain API treats as the empty chain

   Bytes are Z in [0,256).  The decoder returns its result AND the list of allocation sizes it requested, in order, so
   that "no allocation beyond the limit, whatever the input" is a statement about the model.  [cid_ok] (what cid.Cast
   accepts) is a parameter: third-party code, instantiated by Enc/CidModel.v for the correspondence. *)
From Coq Require Import ZArith List Bool Lia.
From F3 Require Import Payload Cbor.
Import ListNotations.
Open Scope Z_scope.

Inductive schema :=
| SUint64 | SUint8 | SInt64 | SBool
| SBytes (max : Z) | SFixed (n : Z) | SCid | SBigInt | SBits
| SList (max : Z) (e : schema)
| STuple (fs : list schema)
| SNull (e : schema)
| SNullDef (e : schema).

Inductive value :=
| VZ (z : Z)              (* uint64 / uint8 / int64 *)
| VB (b : bool)
| VBytes (l : list Z)     (* byte slice, fixed array, cid bytes, RLE+ bytes *)
| VBig (z : Z)
| VList (l : list value)  (* list elements / tuple fields *)
| VNone | VSome (v : value).

Definition dret := (option (value * list Z) * list Z)%type.   (* (result, allocation requests) *)
Definition derr (allocs : list Z) : dret := (None, allocs).

Definition take (n : Z) (bs : list Z) : option (list Z * list Z) :=
  if Z.of_nat (length bs) <? n then None else Some (firstn (Z.to_nat n) bs, skipn (Z.to_nat n) bs).

(* minimal big-endian magnitude (math/big Bytes) *)
Fixpoint be_min_fuel (fuel : nat) (x : Z) (acc : list Z) : list Z :=
  match fuel with
  | O => acc
  | S f => if x <=? 0 then acc else be_min_fuel f (x / 256) ((x mod 256) :: acc)
  end.
(* 136 bytes are more than the 128 the codec allows; larger magnitudes are rejected by the length check anyway *)
Definition be_min (x : Z) : list Z := be_min_fuel 136 x [].

Definition big_bytes (z : Z) : list Z :=
  if z =? 0 then [] else (if z <? 0 then 1 else 0) :: be_min (Z.abs z).
Definition bits_ok (b : list Z) : bool := match b with [] => true | x :: _ => x mod 4 =? 0 end.

Definition cid_max : Z := 512.
Definition big_max : Z := 128.
Definition bits_max : Z := 32768.

Section Codec.
Variable cid_ok : list Z -> bool.

(* ---- writers ---- *)
Definition enc_bytes (maj : Z) (b : list Z) : list Z := encode_header maj (Z.of_nat (length b)) ++ b.

Fixpoint enc_all (f : value -> option (list Z)) (vs : list value) : option (list Z) :=
  match vs with
  | [] => Some []
  | v :: r => match f v, enc_all f r with Some a, Some b => Some (a ++ b) | _, _ => None end
  end.
Fixpoint enc_seq (fs : list (value -> option (list Z))) (vs : list value) : option (list Z) :=
  match fs, vs with
  | [], [] => Some []
  | f :: fr, v :: vr => match f v, enc_seq fr vr with Some a, Some b => Some (a ++ b) | _, _ => None end
  | _, _ => None
  end.

Fixpoint encode (s : schema) (v : value) {struct s} : option (list Z) :=
  match s, v with
  | SUint64, VZ z => if (0 <=? z) && (z <? 2 ^ 64) then Some (encode_header 0 z) else None
  | SUint8, VZ z => if (0 <=? z) && (z <? 256) then Some (encode_header 0 z) else None
  | SInt64, VZ z =>
      if (- 2 ^ 63 <=? z) && (z <? 2 ^ 63) then
        Some (if 0 <=? z then encode_header 0 z else encode_header 1 (- z - 1)) else None
  | SBool, VB b => Some [if b then 245 else 244]
  | SBytes max, VBytes b => if Z.of_nat (length b) >? max then None else Some (enc_bytes 2 b)
  | SFixed n, VBytes b => if Z.of_nat (length b) =? n then Some (enc_bytes 2 b) else None
  | SCid, VBytes c =>
      (* WriteCid: an undefined cid is refused; a Cid value always holds castable bytes *)
      if cid_ok c then Some (encode_header 6 42 ++ encode_header 2 (Z.of_nat (length c) + 1) ++ 0 :: c) else None
  | SBigInt, VBig z => let b := big_bytes z in if Z.of_nat (length b) >? big_max then None else Some (enc_bytes 2 b)
  | SBits, VBytes b => if Z.of_nat (length b) >? bits_max then None else Some (enc_bytes 2 b)
  | SList max e, VList vs =>
      if Z.of_nat (length vs) >? max then None else
      match enc_all (encode e) vs with
      | Some body => Some (encode_header 4 (Z.of_nat (length vs)) ++ body)
      | None => None
      end
  | STuple fs, VList vs =>
      match enc_seq (map encode fs) vs with
      | Some body => Some (encode_header 4 (Z.of_nat (length fs)) ++ body)
      | None => None
      end
  | SNull e, VNone => Some [246]
  | SNull e, VSome v => encode e v
  | SNullDef e, v => encode e v
  | _, _ => None
  end.

(* ---- readers ---- *)
Definition d_uint64 (bs : list Z) : dret :=
  match decode_header bs with
  | None => derr []
  | Some (mt, n, r) => if mt =? 0 then (Some (VZ n, r), []) else derr []
  end.
Definition d_uint8 (bs : list Z) : dret :=
  match decode_header bs with
  | None => derr []
  | Some (mt, n, r) => if mt =? 0 then (if n >? 255 then derr [] else (Some (VZ n, r), [])) else derr []
  end.
Definition d_int64 (bs : list Z) : dret :=
  match decode_header bs with
  | None => derr []
  | Some (mt, n, r) =>
      if mt =? 0 then (if n >=? 2 ^ 63 then derr [] else (Some (VZ n, r), []))
      else if mt =? 1 then (if n >=? 2 ^ 63 then derr [] else (Some (VZ (- 1 - n), r), []))
      else derr []
  end.
Definition d_bool (bs : list Z) : dret :=
  match decode_header bs with
  | None => derr []
  | Some (mt, n, r) =>
      if mt =? 7 then (if n =? 20 then (Some (VB false, r), []) else if n =? 21 then (Some (VB true, r), []) else derr [])
      else derr []
  end.
Definition d_bytes (max : Z) (bs : list Z) : dret :=
  match decode_header bs with
  | None => derr []
  | Some (mt, n, r) =>
      if n >? max then derr [] else if negb (mt =? 2) then derr [] else
      match take n r with                      (* make([]uint8, extra) precedes io.ReadFull *)
      | None => derr [n]
      | Some (b, r') => (Some (VBytes b, r'), [n])
      end
  end.
Definition d_fixed (len : Z) (bs : list Z) : dret :=
  match decode_header bs with
  | None => derr []
  | Some (mt, n, r) =>
      if n >? len then derr [] else if negb (mt =? 2) then derr [] else if negb (n =? len) then derr [] else
      match take n r with                      (* the array lives in the struct: no allocation *)
      | None => derr []
      | Some (b, r') => (Some (VBytes b, r'), [])
      end
  end.
Definition d_cid (bs : list Z) : dret :=
  match decode_header bs with
  | None => derr []
  | Some (mt, tag, r) =>
      if negb (mt =? 6) then derr [] else if negb (tag =? 42) then derr [] else
      match decode_header r with
      | None => derr []
      | Some (mt2, n, r2) =>
          if negb (mt2 =? 2) then derr [] else if n >? cid_max then derr [] else
          match take n r2 with
          | None => derr [n]
          | Some (b, r3) =>
              match b with
              | [] => derr [n]                         (* "undefined cid" *)
              | [_] => derr [n]                        (* "at least two bytes" *)
              | p :: c => if negb (p =? 0) then derr [n] else if cid_ok c then (Some (VBytes c, r3), [n]) else derr [n]
              end
          end
      end
  end.
Definition d_big (bs : list Z) : dret :=
  match decode_header bs with
  | None => derr []
  | Some (mt, n, r) =>
      if negb (mt =? 2) then derr [] else
      if n =? 0 then (Some (VBig 0, r), []) else
      if n >? big_max then derr [] else
      match take n r with
      | None => derr [n]
      | Some (b, r') =>
          match b with
          | [] => derr [n]
          | sg :: mag => if sg =? 0 then (Some (VBig (unbe mag 0), r'), [n])
                         else if sg =? 1 then (Some (VBig (- unbe mag 0), r'), [n]) else derr [n]
          end
      end
  end.
Definition d_bits (bs : list Z) : dret :=
  match decode_header bs with
  | None => derr []
  | Some (mt, n, r) =>
      if n >? bits_max then derr [] else if negb (mt =? 2) then derr [] else
      match take n r with
      | None => derr [n]
      | Some (b, r') => if bits_ok b then (Some (VBytes b, r'), [n]) else derr [n]
      end
  end.

Definition lret := (option (list value * list Z) * list Z)%type.
(* k times the same element reader *)
Fixpoint rep (d : list Z -> dret) (k : nat) (bs : list Z) : lret :=
  match k with
  | O => (Some ([], bs), [])
  | S k' =>
      match d bs with
      | (None, a) => (None, a)
      | (Some (v, r1), a) =>
          match rep d k' r1 with
          | (None, a2) => (None, a ++ a2)
          | (Some (vs, r2), a2) => (Some (v :: vs, r2), a ++ a2)
          end
      end
  end.
(* the field readers one after the other *)
Fixpoint seqd (ds : list (list Z -> dret)) (bs : list Z) : lret :=
  match ds with
  | [] => (Some ([], bs), [])
  | d :: dr =>
      match d bs with
      | (None, a) => (None, a)
      | (Some (v, r1), a) =>
          match seqd dr r1 with
          | (None, a2) => (None, a ++ a2)
          | (Some (vs, r2), a2) => (Some (v :: vs, r2), a ++ a2)
          end
      end
  end.
Definition wrap_list (extra : list Z) (r : lret) : dret :=
  match r with
  | (None, a) => (None, extra ++ a)
  | (Some (vs, rest), a) => (Some (VList vs, rest), extra ++ a)
  end.

Fixpoint decode (s : schema) (bs : list Z) {struct s} : dret :=
  match s with
  | SUint64 => d_uint64 bs
  | SUint8 => d_uint8 bs
  | SInt64 => d_int64 bs
  | SBool => d_bool bs
  | SBytes max => d_bytes max bs
  | SFixed n => d_fixed n bs
  | SCid => d_cid bs
  | SBigInt => d_big bs
  | SBits => d_bits bs
  | SList max e =>
      match decode_header bs with
      | None => derr []
      | Some (mt, n, r) =>
          if n >? max then derr [] else if negb (mt =? 4) then derr [] else
          wrap_list [n] (rep (decode e) (Z.to_nat n) r)       (* make([]T, extra) after the two checks *)
      end
  | STuple fs =>
      match decode_header bs with
      | None => derr []
      | Some (mt, n, r) =>
          if negb (mt =? 4) then derr [] else if negb (n =? Z.of_nat (length fs)) then derr [] else
          wrap_list [] (seqd (map decode fs) r)
      end
  | SNull e =>
      match bs with
      | [] => derr []
      | b :: r => if b =? 246 then (Some (VNone, r), [])
                  else match decode e bs with
                       | (Some (v, r'), a) => (Some (VSome v, r'), a)
                       | (None, a) => (None, a)
                       end
      end
  | SNullDef e =>
      match bs with
      | [] => derr []
      | b :: r => if b =? 246 then (Some (VList [], r), []) else decode e bs
      end
  end.

(* ---- which values a Go value of the described type can be (in-range integers, in-limit lengths) ---- *)
Definition array_headed (s : schema) : Prop :=
  match s with SList _ _ => True | STuple fs => Z.of_nat (length fs) < 24 | _ => False end.

Fixpoint wf_schema (s : schema) : Prop :=
  match s with
  | SBytes max => 0 <= max < 2 ^ 64
  | SFixed n => 0 <= n < 2 ^ 64
  | SList max e => 0 <= max < 2 ^ 64 /\ wf_schema e
  | STuple fs => Z.of_nat (length fs) < 2 ^ 64 /\ (fix all (l : list schema) : Prop := match l with [] => True | f :: r => wf_schema f /\ all r end) fs
  | SNull e => array_headed e /\ wf_schema e
  | SNullDef e => (exists max e', e = SList max e') /\ wf_schema e
  | _ => True
  end.

Fixpoint wfv (s : schema) (v : value) {struct s} : Prop :=
  match s, v with
  | SUint64, VZ z => 0 <= z < 2 ^ 64
  | SUint8, VZ z => 0 <= z < 256
  | SInt64, VZ z => - 2 ^ 63 <= z < 2 ^ 63
  | SBool, VB _ => True
  | SBytes max, VBytes b => Z.of_nat (length b) <= max
  | SFixed n, VBytes b => Z.of_nat (length b) = n
  | SCid, VBytes c => cid_ok c = true /\ c <> [] /\ Z.of_nat (length c) + 1 <= cid_max
  | SBigInt, VBig z => Z.of_nat (length (big_bytes z)) <= big_max /\ Z.abs z < 256 ^ 136
  | SBits, VBytes b => Z.of_nat (length b) <= bits_max /\ bits_ok b = true
  | SList max e, VList vs =>
      Z.of_nat (length vs) <= max /\
      (fix all (l : list value) : Prop := match l with [] => True | x :: r => wfv e x /\ all r end) vs
  | STuple fs, VList vs =>
      (fix all (fs : list schema) (l : list value) : Prop :=
         match fs, l with [], [] => True | f :: fr, x :: r => wfv f x /\ all fr r | _, _ => False end) fs vs
  | SNull e, VNone => True
  | SNull e, VSome v => wfv e v
  | SNullDef e, v => wfv e v
  | _, _ => False
  end.

(* the largest single allocation a reader of this schema may request *)
Fixpoint alloc_limit (s : schema) : Z :=
  match s with
  | SBytes max => max
  | SCid => cid_max
  | SBigInt => big_max
  | SBits => bits_max
  | SList max e => Z.max max (alloc_limit e)
  | STuple fs => fold_right (fun f acc => Z.max (alloc_limit f) acc) 0 fs
  | SNull e => alloc_limit e
  | SNullDef e => alloc_limit e
  | _ => 0
  end.

End Codec.
