(* What cid.Cast (go-cid v0.6.0, go-multihash, go-varint) accepts -- THIRD-PARTY code, modelled (not verified) so that the
   codec model can be run against the implementation on hostile CID bytes.  The theorems of CodecProofs.v hold for
   every [cid_ok]; this instance only serves the correspondence check.
     CIDv0: exactly 34 bytes starting 0x12 0x20.
     CIDv1: uvarint 1, uvarint codec, multihash = uvarint code, uvarint length <= 2^31-1, exactly `length` digest bytes,
            nothing after it.  Uvarints are at most 9 bytes, minimally encoded. *)
From Coq Require Import ZArith List Bool Lia.
Import ListNotations.
Open Scope Z_scope.

(* varint.FromUvarint *)
Fixpoint uvarint_go (bs : list Z) (i : nat) (s x : Z) : option (Z * list Z) :=
  match bs with
  | [] => None
  | b :: r =>
      if ((Nat.eqb i 8) && (b >=? 128)) || (Nat.leb 9 i) then None
      else if b <? 128 then (if (b =? 0) && (s >? 0) then None else Some (x + b * 2 ^ s, r))
      else uvarint_go r (S i) (s + 7) (x + (b - 128) * 2 ^ s)
  end.
Definition uvarint (bs : list Z) : option (Z * list Z) := uvarint_go bs 0 0 0.

Definition cid_cast_ok (d : list Z) : bool :=
  match d with
  | 18 :: 32 :: _ :: _ => Z.of_nat (length d) =? 34
  | _ =>
      match uvarint d with
      | None => false
      | Some (vers, r1) =>
          if negb (vers =? 1) then false else
          match uvarint r1 with
          | None => false
          | Some (_, r2) =>
              if Z.of_nat (length r2) <? 2 then false else
              match uvarint r2 with
              | None => false
              | Some (_, r3) =>
                  match uvarint r3 with
                  | None => false
                  | Some (len, r4) => (len <=? 2147483647) && (Z.of_nat (length r4) =? len)
                  end
              end
          end
      end
  end.
