(* CBOR item headers as written / read by cbor-gen (WriteMajorTypeHeader / CborReadHeader), which all generated codecs
   of go-f3 are built from: (major type, argument) <-> 1, 2, 3, 5 or 9 bytes; the reader accepts ONLY the shortest form. *)
From Coq Require Import ZArith List Lia.
From F3 Require Import Payload.
Import ListNotations.
Open Scope Z_scope.

Definition encode_header (mt n : Z) : list Z :=
  if n <? 24 then [mt * 32 + n]
  else if n <? 256 then (mt * 32 + 24) :: be 1 n
  else if n <? 65536 then (mt * 32 + 25) :: be 2 n
  else if n <? 4294967296 then (mt * 32 + 26) :: be 4 n
  else (mt * 32 + 27) :: be 8 n.

Fixpoint unbe (l : list Z) (acc : Z) : Z := match l with [] => acc | b :: r => unbe r (acc * 256 + b) end.

(* a k-byte argument that must be at least minv (else the encoding was not the shortest one) *)
Definition dec_arg (k : nat) (minv mt : Z) (r : list Z) : option (Z * Z * list Z) :=
  if Nat.ltb (length r) k then None else
  let v := unbe (firstn k r) 0 in if v <? minv then None else Some (mt, v, skipn k r).

(* None = error (short input, reserved/indefinite additional info, non-canonical argument) *)
Definition decode_header (bs : list Z) : option (Z * Z * list Z) :=
  match bs with
  | [] => None
  | b :: r =>
      let mt := b / 32 in let low := b mod 32 in
      if low <? 24 then Some (mt, low, r)
      else if low =? 24 then dec_arg 1 24 mt r
      else if low =? 25 then dec_arg 2 256 mt r
      else if low =? 26 then dec_arg 4 65536 mt r
      else if low =? 27 then dec_arg 8 4294967296 mt r
      else None
  end.
