(* C14, signed bytes: the encodings are injective -- any change of a field changes the bytes -- under the stated
   framing conditions (fixed-width commitments and keys; for different network names additionally equal CID length) *)
From Coq Require Import ZArith List Lia.
From F3 Require Import Payload.
Import ListNotations.
Open Scope Z_scope.

Lemma be_length k x : length (be k x) = k.
Proof. revert x; induction k as [|k IH]; intros x; cbn; [reflexivity|]. rewrite app_length, IH. cbn. lia. Qed.

Lemma be_inj k : forall x y, 0 <= x < 256 ^ Z.of_nat k -> 0 <= y < 256 ^ Z.of_nat k -> be k x = be k y -> x = y.
Proof.
  induction k as [|k IH]; intros x y Hx Hy H.
  - cbn in Hx, Hy. lia.
  - cbn [be] in H. apply app_inj_tail in H. destruct H as [H1 H2].
    rewrite Nat2Z.inj_succ, Z.pow_succ_r in Hx, Hy by lia.
    assert (E : x / 256 = y / 256).
    { apply IH; [| |exact H1]; split; try (apply Z.div_pos; lia); apply Z.div_lt_upper_bound; lia. }
    rewrite (Z.div_mod x 256), (Z.div_mod y 256) by lia. congruence.
Qed.

Lemma app_inv_len {A} (a b c d : list A) : length a = length c -> a ++ b = c ++ d -> a = c /\ b = d.
Proof.
  revert c; induction a as [|x a IH]; intros [|y c] Hl H; cbn in *; try lia; [auto|].
  injection H as -> H. destruct (IH c ltac:(lia) H) as [-> ->]. auto.
Qed.

(* same network: every other field is determined by the bytes *)
Theorem marshal_payload_inj tag nn p r i c k cid p' r' i' c' k' cid' :
  0 <= r < 2 ^ 64 -> 0 <= r' < 2 ^ 64 -> 0 <= i < 2 ^ 64 -> 0 <= i' < 2 ^ 64 ->
  length c = length c' -> length k = length k' ->
  marshal_payload tag nn p r i c k cid = marshal_payload tag nn p' r' i' c' k' cid' ->
  p = p' /\ r = r' /\ i = i' /\ c = c' /\ k = k' /\ cid = cid'.
Proof.
  intros Hr Hr' Hi Hi' Hc Hk H. unfold marshal_payload in H.
  apply app_inv_head in H. apply app_inv_head in H. apply app_inv_head in H. apply app_inv_head in H.
  apply app_inv_len in H; [|reflexivity]. destruct H as [Hp H]. injection Hp as Hp.
  apply app_inv_len in H; [|unfold be64; rewrite !be_length; reflexivity]. destruct H as [H1 H].
  apply app_inv_len in H; [|unfold be64; rewrite !be_length; reflexivity]. destruct H as [H2 H].
  apply app_inv_len in H; [|exact Hc]. destruct H as [H3 H].
  apply app_inv_len in H; [|exact Hk]. destruct H as [H4 H5].
  repeat split; auto; apply (be_inj 8); auto; change (256 ^ Z.of_nat 8) with (2 ^ 64); assumption.
Qed.

(* different network names cannot collide either when the power-table CIDs have the same length (all power-table CIDs
   are CIDv1 / dag-cbor / blake2b-256: 38 bytes) *)
Theorem marshal_payload_inj_net tag nn p r i c k cid nn' p' r' i' c' k' cid' :
  0 <= r < 2 ^ 64 -> 0 <= r' < 2 ^ 64 -> 0 <= i < 2 ^ 64 -> 0 <= i' < 2 ^ 64 ->
  length c = length c' -> length k = length k' -> length cid = length cid' ->
  marshal_payload tag nn p r i c k cid = marshal_payload tag nn' p' r' i' c' k' cid' ->
  nn = nn' /\ p = p' /\ r = r' /\ i = i' /\ c = c' /\ k = k' /\ cid = cid'.
Proof.
  intros Hr Hr' Hi Hi' Hc Hk Hcid H.
  assert (Hn : length nn = length nn').
  { apply (f_equal (@length Z)) in H. unfold marshal_payload, be64 in H. rewrite !app_length, !be_length in H. cbn in H. lia. }
  assert (E : nn = nn').
  { unfold marshal_payload in H. apply app_inv_head in H. apply app_inv_head in H.
    apply app_inv_len in H; [apply H|exact Hn]. }
  subst nn'. split; [reflexivity|]. eapply marshal_payload_inj; eauto.
Qed.

Theorem marshal_tipset_inj e c t p e' c' t' p' :
  - 2 ^ 63 <= e < 2 ^ 63 -> - 2 ^ 63 <= e' < 2 ^ 63 -> length c = length c' -> length t = length t' ->
  marshal_tipset e c t p = marshal_tipset e' c' t' p' -> e = e' /\ c = c' /\ t = t' /\ p = p'.
Proof.
  intros He He' Hc Ht H. unfold marshal_tipset in H.
  apply app_inv_len in H; [|unfold be64; rewrite !be_length; reflexivity]. destruct H as [H1 H].
  apply app_inv_len in H; [|exact Hc]. destruct H as [H2 H].
  apply app_inv_len in H; [|exact Ht]. destruct H as [H3 H4].
  repeat split; auto.
  apply (be_inj 8) in H1; try (change (256 ^ Z.of_nat 8) with (2 ^ 64); apply Z.mod_pos_bound; lia).
  (* two's complement is injective on int64 *)
  assert (A : forall z, - 2 ^ 63 <= z < 2 ^ 63 -> z = (z mod 2 ^ 64) - (if z <? 0 then 2 ^ 64 else 0)).
  { intros z Hz. destruct (z <? 0) eqn:E.
    - apply Z.ltb_lt in E. rewrite <- (Z.mod_unique z (2 ^ 64) (-1) (z + 2 ^ 64)); lia.
    - apply Z.ltb_ge in E. rewrite Z.mod_small; lia. }
  assert (B : forall z, - 2 ^ 63 <= z < 2 ^ 63 -> (z <? 0) = (2 ^ 63 <=? z mod 2 ^ 64)).
  { intros z Hz. destruct (z <? 0) eqn:E.
    - apply Z.ltb_lt in E. rewrite <- (Z.mod_unique z (2 ^ 64) (-1) (z + 2 ^ 64)) by lia. symmetry. apply Z.leb_le. lia.
    - apply Z.ltb_ge in E. rewrite Z.mod_small by lia. symmetry. apply Z.leb_gt. lia. }
  rewrite (A e He), (A e' He'), (B e He), (B e' He'), H1. reflexivity.
Qed.

(* VRF ticket input: same network and beacon length (beacons are fixed-size randomness) *)
Theorem marshal_vrf_inj tag nn b i r b' i' r' :
  0 <= r < 2 ^ 64 -> 0 <= r' < 2 ^ 64 -> 0 <= i < 2 ^ 64 -> 0 <= i' < 2 ^ 64 -> length b = length b' ->
  marshal_vrf tag nn b i r = marshal_vrf tag nn b' i' r' -> b = b' /\ i = i' /\ r = r'.
Proof.
  intros Hr Hr' Hi Hi' Hb H. unfold marshal_vrf in H.
  apply app_inv_head in H. apply app_inv_head in H. apply app_inv_head in H. apply app_inv_head in H.
  apply app_inv_len in H; [|exact Hb]. destruct H as [H1 H]. apply app_inv_head in H.
  apply app_inv_len in H; [|unfold be64; rewrite !be_length; reflexivity]. destruct H as [H2 H3].
  repeat split; auto; apply (be_inj 8); auto; change (256 ^ Z.of_nat 8) with (2 ^ 64); assumption.
Qed.
