(* comparison helpers for the codec correspondence of C14 (model = Enc/Codec.v over the regenerated Gen/SchemasGen.v) *)
From Coq Require Import ZArith List Bool.
From F3 Require Import Payload Cbor EncRun Codec CidModel.
Import ListNotations.
Open Scope Z_scope.

(* the model writes exactly the bytes the implementation wrote *)
Definition enc_ok (s : schema) (v : value) (b : list Z) : bool :=
  match encode cid_cast_ok s v with Some b' => bytes_eqb b' b | None => false end.
(* the model reader agrees with the implementation: verdict, number of unread bytes, decoded value (through its
   canonical re-encoding, which is what the implementation reports) *)
Definition dec_ok (s : schema) (d : list Z) (go_err : bool) (reenc : list Z) (remaining : Z) : bool :=
  match fst (decode cid_cast_ok s d) with
  | None => go_err
  | Some (v, rest) => negb go_err && (Z.of_nat (length rest) =? remaining) && enc_ok s v reenc
  end.
