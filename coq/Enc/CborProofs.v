(* C14, codecs: header round trip (what is written is read back, whatever follows) *)
From Coq Require Import ZArith List Lia.
From F3 Require Import Payload PayloadProofs Cbor.
Import ListNotations.
Open Scope Z_scope.

Lemma unbe_app a b acc : unbe (a ++ b) acc = unbe b (unbe a acc).
Proof. revert acc; induction a as [|x a IH]; intros acc; cbn; [reflexivity|apply IH]. Qed.
Lemma unbe_be k : forall x acc, 0 <= x < 256 ^ Z.of_nat k -> unbe (be k x) acc = acc * 256 ^ Z.of_nat k + x.
Proof.
  induction k as [|k IH]; intros x acc Hx; cbn [be unbe].
  - cbn in Hx. cbn. lia.
  - rewrite unbe_app. cbn [unbe]. rewrite Nat2Z.inj_succ, Z.pow_succ_r in * by lia.
    rewrite IH by (split; [apply Z.div_pos; lia|apply Z.div_lt_upper_bound; lia]).
    pose proof (Z.div_mod x 256 ltac:(lia)). lia.
Qed.

Lemma dec_arg_be k minv mt n rest :
  0 <= n < 256 ^ Z.of_nat k -> minv <= n -> dec_arg k minv mt (be k n ++ rest) = Some (mt, n, rest).
Proof.
  intros Hn Hm. unfold dec_arg. rewrite app_length, be_length.
  replace (Nat.ltb (k + length rest) k) with false by (symmetry; apply Nat.ltb_ge; lia).
  rewrite firstn_app, be_length, Nat.sub_diag, firstn_O, app_nil_r, firstn_all2 by (rewrite be_length; lia).
  rewrite unbe_be by exact Hn. rewrite Z.mul_0_l, Z.add_0_l.
  replace (n <? minv) with false by (symmetry; apply Z.ltb_ge; lia).
  rewrite skipn_app, be_length, Nat.sub_diag, skipn_all2 by (rewrite be_length; lia). reflexivity.
Qed.

Theorem header_roundtrip mt n rest :
  0 <= mt < 8 -> 0 <= n < 2 ^ 64 -> decode_header (encode_header mt n ++ rest) = Some (mt, n, rest).
Proof.
  intros Hm Hn. unfold encode_header.
  assert (D : forall a, 0 <= a < 32 -> (mt * 32 + a) / 32 = mt /\ (mt * 32 + a) mod 32 = a).
  { intros a Ha. split; [rewrite Z.div_add_l by lia; rewrite Z.div_small; lia|rewrite Z.add_comm, Z.mod_add, Z.mod_small; lia]. }
  destruct (n <? 24) eqn:E1.
  - cbn [app decode_header]. apply Z.ltb_lt in E1. destruct (D n ltac:(lia)) as [-> ->].
    rewrite (proj2 (Z.ltb_lt n 24) E1). reflexivity.
  - apply Z.ltb_ge in E1. destruct (n <? 256) eqn:E2.
    + apply Z.ltb_lt in E2. cbn [app decode_header]. destruct (D 24 ltac:(lia)) as [-> ->].
      change (24 <? 24) with false. change (24 =? 24) with true. cbv iota. apply dec_arg_be; cbn; lia.
    + apply Z.ltb_ge in E2. destruct (n <? 65536) eqn:E3.
      * apply Z.ltb_lt in E3. cbn [app decode_header]. destruct (D 25 ltac:(lia)) as [-> ->].
        change (25 <? 24) with false. change (25 =? 24) with false. change (25 =? 25) with true. cbv iota. apply dec_arg_be; cbn; lia.
      * apply Z.ltb_ge in E3. destruct (n <? 4294967296) eqn:E4.
        -- apply Z.ltb_lt in E4. cbn [app decode_header]. destruct (D 26 ltac:(lia)) as [-> ->].
           change (26 <? 24) with false. change (26 =? 24) with false. change (26 =? 25) with false. change (26 =? 26) with true.
           cbv iota. apply dec_arg_be; cbn; lia.
        -- apply Z.ltb_ge in E4. cbn [app decode_header]. destruct (D 27 ltac:(lia)) as [-> ->].
           change (27 <? 24) with false. change (27 =? 24) with false. change (27 =? 25) with false. change (27 =? 26) with false.
           change (27 =? 27) with true. cbv iota. apply dec_arg_be; cbn; lia.
Qed.
