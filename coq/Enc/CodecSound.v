(* C14: what the reader of a generated codec returns is ALWAYS within the limits of the Go type -- on every input made of
   bytes, valid or hostile: integers in range, byte strings and lists no longer than the documented limits, fixed arrays of
   exactly their size, CIDs that cid.Cast accepts, big integers of at most 128 encoded bytes.  (The converse direction --
   in-limit values round-trip -- is CodecProofs.v.) *)
From Coq Require Import ZArith List Bool Lia.
From F3 Require Import Payload PayloadProofs Cbor CborProofs Codec CodecProofs.
Import ListNotations.
Open Scope Z_scope.

Definition bytes_ok (l : list Z) : Prop := Forall (fun b => 0 <= b < 256) l.

Lemma bytes_ok_firstn n l : bytes_ok l -> bytes_ok (firstn n l).
Proof. revert l; induction n as [|n IH]; intros [|x l] H; cbn; try constructor; inversion H; subst; auto. apply IH; assumption. Qed.
Lemma bytes_ok_skipn n l : bytes_ok l -> bytes_ok (skipn n l).
Proof. revert l; induction n as [|n IH]; intros [|x l] H; cbn; try assumption. inversion H; subst. apply IH; assumption. Qed.

Lemma unbe_bound l : bytes_ok l -> forall acc, 0 <= acc -> 0 <= unbe l acc < (acc + 1) * 256 ^ Z.of_nat (length l).
Proof.
  induction 1 as [|b l Hb _ IH]; intros acc Ha; cbn [unbe length].
  - cbn. lia.
  - rewrite Nat2Z.inj_succ, Z.pow_succ_r by lia. specialize (IH (acc * 256 + b) ltac:(lia)).
    assert (0 < 256 ^ Z.of_nat (length l)) by (apply Z.pow_pos_nonneg; lia). nia.
Qed.
Lemma unbe0_bound l : bytes_ok l -> 0 <= unbe l 0 < 256 ^ Z.of_nat (length l).
Proof. intros H. pose proof (unbe_bound l H 0 ltac:(lia)). lia. Qed.

Lemma dec_arg_ok k minv mt r m n r' : (k <= 8)%nat -> bytes_ok r -> dec_arg k minv mt r = Some (m, n, r') ->
  m = mt /\ 0 <= n < 2 ^ 64 /\ bytes_ok r'.
Proof.
  intros Hk Hr H. unfold dec_arg in H. destruct (Nat.ltb (length r) k) eqn:El; [discriminate|]. apply Nat.ltb_ge in El.
  destruct (unbe (firstn k r) 0 <? minv); [discriminate|]. injection H as <- <- <-.
  split; [reflexivity|]. split; [|apply bytes_ok_skipn; exact Hr].
  pose proof (unbe0_bound (firstn k r) (bytes_ok_firstn k r Hr)) as B. rewrite firstn_length_le in B by lia.
  assert (256 ^ Z.of_nat k <= 256 ^ 8) by (apply Z.pow_le_mono_r; lia).
  change (256 ^ 8) with (2 ^ 64) in *. lia.
Qed.

Lemma decode_header_ok bs mt n r : bytes_ok bs -> decode_header bs = Some (mt, n, r) ->
  0 <= mt < 8 /\ 0 <= n < 2 ^ 64 /\ bytes_ok r.
Proof.
  intros Hb H. destruct bs as [|b r0]; [discriminate|]. inversion Hb as [|? ? Hb0 Hr0]; subst. cbn [decode_header] in H.
  assert (Hmt : 0 <= b / 32 < 8) by (split; [apply Z.div_pos; lia|apply Z.div_lt_upper_bound; lia]).
  assert (Hlow : 0 <= b mod 32 < 32) by (apply Z.mod_pos_bound; lia).
  pose proof p64.
  destruct (b mod 32 <? 24) eqn:E1.
  { injection H as <- <- <-. apply Z.ltb_lt in E1. repeat split; try lia; assumption. }
  destruct (b mod 32 =? 24); [destruct (dec_arg_ok 1 _ _ _ _ _ _ ltac:(lia) Hr0 H) as (-> & A & B); auto|].
  destruct (b mod 32 =? 25); [destruct (dec_arg_ok 2 _ _ _ _ _ _ ltac:(lia) Hr0 H) as (-> & A & B); auto|].
  destruct (b mod 32 =? 26); [destruct (dec_arg_ok 4 _ _ _ _ _ _ ltac:(lia) Hr0 H) as (-> & A & B); auto|].
  destruct (b mod 32 =? 27); [destruct (dec_arg_ok 8 _ _ _ _ _ _ ltac:(lia) Hr0 H) as (-> & A & B); auto|].
  discriminate.
Qed.

Lemma take_ok n r b r' : 0 <= n -> bytes_ok r -> take n r = Some (b, r') ->
  Z.of_nat (length b) = n /\ bytes_ok b /\ bytes_ok r'.
Proof.
  intros Hn Hr H. unfold take in H. destruct (Z.of_nat (length r) <? n) eqn:El; [discriminate|]. apply Z.ltb_ge in El.
  injection H as <- <-. split; [rewrite firstn_length_le by lia; lia|]. split; [apply bytes_ok_firstn|apply bytes_ok_skipn]; exact Hr.
Qed.

Lemma be_min_fuel_len f : forall x acc k, 0 <= x < 256 ^ Z.of_nat k -> (k <= f)%nat ->
  (length (be_min_fuel f x acc) <= k + length acc)%nat.
Proof.
  induction f as [|f IH]; intros x acc k Hx Hk; cbn [be_min_fuel]; [lia|].
  destruct (x <=? 0) eqn:E0; [lia|]. apply Z.leb_gt in E0.
  destruct k as [|k]; [cbn in Hx; lia|]. rewrite Nat2Z.inj_succ, Z.pow_succ_r in Hx by lia.
  specialize (IH (x / 256) ((x mod 256) :: acc) k).
  assert (0 <= x / 256 < 256 ^ Z.of_nat k) by (split; [apply Z.div_pos; lia|apply Z.div_lt_upper_bound; lia]).
  specialize (IH ltac:(assumption) ltac:(lia)). cbn [length] in IH. lia.
Qed.

Lemma big_wf mag (sg : bool) : bytes_ok mag -> Z.of_nat (length mag) + 1 <= big_max ->
  let z := if sg then - unbe mag 0 else unbe mag 0 in
  Z.of_nat (length (big_bytes z)) <= big_max /\ Z.abs z < 256 ^ 136.
Proof.
  intros Hm Hl z. pose proof (unbe0_bound mag Hm) as B. unfold big_max in *.
  assert (Ha : Z.abs z = unbe mag 0) by (subst z; destruct sg; lia).
  assert (Hp : 256 ^ Z.of_nat (length mag) <= 256 ^ 136) by (apply Z.pow_le_mono_r; lia).
  split; [|lia]. unfold big_bytes. destruct (z =? 0); [cbn; lia|]. cbn [length]. rewrite Ha. unfold be_min.
  pose proof (be_min_fuel_len 136 (unbe mag 0) [] (length mag) B ltac:(lia)) as L. cbn [length] in L. lia.
Qed.

Section Sound.
Variable cid_ok : list Z -> bool.
Notation D := (decode cid_ok).
Notation W := (wfv cid_ok).

Definition Snd (s : schema) : Prop := forall bs v rest, bytes_ok bs -> fst (D s bs) = Some (v, rest) -> W s v /\ bytes_ok rest.

(* a sequence of readers, each sound for its schema, returns a list matching the schemas *)
Lemma seqd_sound fs : Forall Snd fs -> forall bs vs rest, bytes_ok bs -> fst (seqd (map D fs) bs) = Some (vs, rest) ->
  (fix all (fs : list schema) (l : list value) : Prop :=
     match fs, l with [], [] => True | f :: fr, x :: r => W f x /\ all fr r | _, _ => False end) fs vs /\ bytes_ok rest.
Proof.
  induction 1 as [|f fs Hf _ IH]; intros bs vs rest Hb H.
  - cbn in H. injection H as <- <-. split; [exact I|exact Hb].
  - cbn [map] in H. rewrite fst_seqd_cons in H. destruct (fst (D f bs)) as [[v r1]|] eqn:E1; [|discriminate].
    destruct (Hf bs v r1 Hb E1) as [Wv Hr1].
    destruct (fst (seqd (map D fs) r1)) as [[vs' r2]|] eqn:E2; [|discriminate]. injection H as <- <-.
    destruct (IH r1 vs' r2 Hr1 E2) as [A B]. split; [split; assumption|exact B].
Qed.
Lemma rep_sound e : Snd e -> forall k bs vs rest, bytes_ok bs -> fst (rep (D e) k bs) = Some (vs, rest) ->
  length vs = k /\ (fix all (l : list value) : Prop := match l with [] => True | x :: r => W e x /\ all r end) vs /\ bytes_ok rest.
Proof.
  intros He. induction k as [|k IH]; intros bs vs rest Hb H.
  - cbn in H. injection H as <- <-. repeat split. exact Hb.
  - rewrite rep_seqd in H. cbn [repeat] in H. rewrite fst_seqd_cons in H.
    destruct (fst (D e bs)) as [[v r1]|] eqn:E1; [|discriminate]. destruct (He bs v r1 Hb E1) as [Wv Hr1].
    rewrite <- rep_seqd in H. destruct (fst (rep (D e) k r1)) as [[vs' r2]|] eqn:E2; [|discriminate]. injection H as <- <-.
    destruct (IH r1 vs' r2 Hr1 E2) as (A & B & C). cbn [length]. repeat split; [lia|exact Wv|exact B|exact C].
Qed.

Ltac inj2 H :=
  cbn [fst] in H;
  match type of H with Some (?a, ?b) = Some (?c, ?d) =>
    let A := fresh in let B := fresh in assert (A : c = a) by congruence; assert (B : d = b) by congruence; subst c d end.
Ltac hdr H Hb :=
  match type of H with context [decode_header ?bs] =>
    let E := fresh "Eh" in destruct (decode_header bs) as [[[?mt ?n] ?r]|] eqn:E; [|discriminate H];
    let A := fresh "Hmt" in let B := fresh "Hn" in let C := fresh "Hr" in
    destruct (decode_header_ok _ _ _ _ Hb E) as (A & B & C)
  end.

Theorem decode_sound : forall s, wf_schema s -> Snd s.
Proof.
  pose proof p64 as P64. pose proof p63 as P63.
  induction s as [| | | |m|n| | | |m e IH|fs IH|e IH|e IH] using schema_ind'; intros Hw bs v rest Hb H; cbn [decode] in H.
  - unfold d_uint64 in H. hdr H Hb. destruct (mt =? 0); [|discriminate]. inj2 H. split; [exact Hn|exact Hr].
  - unfold d_uint8 in H. hdr H Hb. destruct (mt =? 0); [|discriminate]. destruct (n >? 255) eqn:Eg; [discriminate|].
    apply gtb_le in Eg. inj2 H. split; [cbn [wfv]; lia|exact Hr].
  - unfold d_int64 in H. hdr H Hb. destruct (mt =? 0).
    + destruct (n >=? 2 ^ 63) eqn:Eg; [discriminate|]. rewrite Z.geb_leb in Eg. apply Z.leb_gt in Eg.
      inj2 H. split; [cbn [wfv]; lia|exact Hr].
    + destruct (mt =? 1); [|discriminate]. destruct (n >=? 2 ^ 63) eqn:Eg; [discriminate|]. rewrite Z.geb_leb in Eg. apply Z.leb_gt in Eg.
      inj2 H. split; [cbn [wfv]; lia|exact Hr].
  - unfold d_bool in H. hdr H Hb. destruct (mt =? 7); [|discriminate].
    destruct (n =? 20); [inj2 H; split; [exact I|exact Hr]|].
    destruct (n =? 21); [inj2 H; split; [exact I|exact Hr]|discriminate].
  - unfold d_bytes in H. hdr H Hb. destruct (n >? m) eqn:Eg; [discriminate|]. apply gtb_le in Eg.
    destruct (negb (mt =? 2)); [discriminate|]. destruct (take n r) as [[b r']|] eqn:Et; [|discriminate].
    destruct (take_ok _ _ _ _ (proj1 Hn) Hr Et) as (L & _ & R). inj2 H. split; [cbn [wfv]; lia|exact R].
  - unfold d_fixed in H. hdr H Hb. destruct (n0 >? n); [discriminate|]. destruct (negb (mt =? 2)); [discriminate|].
    destruct (negb (n0 =? n)) eqn:En; [discriminate|]. apply negb_false_iff, Z.eqb_eq in En. subst n0.
    destruct (take n r) as [[b r']|] eqn:Et; [|discriminate].
    destruct (take_ok _ _ _ _ (proj1 Hn) Hr Et) as (L & _ & R). inj2 H. split; [exact L|exact R].
  - unfold d_cid in H. hdr H Hb. destruct (negb (mt =? 6)); [discriminate|]. destruct (negb (n =? 42)); [discriminate|].
    destruct (decode_header r) as [[[mt2 n2] r2]|] eqn:E2; [|discriminate].
    destruct (decode_header_ok _ _ _ _ Hr E2) as (_ & Hn2 & Hr2).
    destruct (negb (mt2 =? 2)); [discriminate|]. destruct (n2 >? cid_max) eqn:Eg; [discriminate|]. apply gtb_le in Eg.
    destruct (take n2 r2) as [[b r3]|] eqn:Et; [|discriminate].
    destruct (take_ok _ _ _ _ (proj1 Hn2) Hr2 Et) as (L & _ & R).
    destruct b as [|p [|x c]]; try discriminate. destruct (negb (p =? 0)); [discriminate|].
    destruct (cid_ok (x :: c)) eqn:Ec; [|discriminate]. inj2 H.
    split; [|exact R]. cbn [wfv]. split; [exact Ec|]. split; [discriminate|]. cbn [length] in *. lia.
  - unfold d_big in H. hdr H Hb. destruct (negb (mt =? 2)); [discriminate|].
    destruct (n =? 0).
    + inj2 H. split; [|exact Hr]. cbn [wfv]. split; [unfold big_max; cbn; lia|]. change (Z.abs 0) with 0. apply Z.pow_pos_nonneg; lia.
    + destruct (n >? big_max) eqn:Eg; [discriminate|]. apply gtb_le in Eg.
      destruct (take n r) as [[b r']|] eqn:Et; [|discriminate].
      destruct (take_ok _ _ _ _ (proj1 Hn) Hr Et) as (L & Bb & R).
      destruct b as [|sg mag]; [discriminate|]. assert (Bm : bytes_ok mag) by (inversion Bb; assumption). cbn [length] in L.
      destruct (sg =? 0).
      * inj2 H. split; [|exact R]. apply (big_wf mag false Bm). lia.
      * destruct (sg =? 1); [|discriminate]. inj2 H. split; [|exact R]. apply (big_wf mag true Bm). lia.
  - unfold d_bits in H. hdr H Hb. destruct (n >? bits_max) eqn:Eg; [discriminate|]. apply gtb_le in Eg.
    destruct (negb (mt =? 2)); [discriminate|]. destruct (take n r) as [[b r']|] eqn:Et; [|discriminate].
    destruct (take_ok _ _ _ _ (proj1 Hn) Hr Et) as (L & _ & R). destruct (bits_ok b) eqn:Eb; [|discriminate].
    inj2 H. split; [cbn [wfv]; split; [lia|exact Eb]|exact R].
  - cbn [wf_schema] in Hw. destruct Hw as [Hm He]. hdr H Hb. destruct (n >? m) eqn:Eg; [discriminate|]. apply gtb_le in Eg.
    destruct (negb (mt =? 4)); [discriminate|]. rewrite fst_wrap_list in H.
    destruct (fst (rep (D e) (Z.to_nat n) r)) as [[vs r']|] eqn:Er; [|discriminate]. inj2 H.
    destruct (rep_sound e (IH He) _ _ _ _ Hr Er) as (L & A & R). split; [|exact R]. cbn [wfv]. split; [rewrite L; lia|exact A].
  - cbn [wf_schema] in Hw. destruct Hw as [Hn Hall]. apply wf_tuple_forall in Hall. hdr H Hb.
    destruct (negb (mt =? 4)); [discriminate|]. destruct (negb (n =? Z.of_nat (length fs))); [discriminate|].
    rewrite fst_wrap_list in H. destruct (fst (seqd (map D fs) r)) as [[vs r']|] eqn:Er; [|discriminate]. inj2 H.
    assert (HS : Forall Snd fs).
    { clear -IH Hall. induction IH as [|f fs Hf _ IHf]; [constructor|]. inversion Hall; subst. constructor; auto. }
    destruct (seqd_sound fs HS _ _ _ Hr Er) as [A R]. split; [exact A|exact R].
  - cbn [wf_schema] in Hw. destruct Hw as [_ He]. destruct bs as [|b r]; [discriminate|]. inversion Hb as [|? ? _ Hr]; subst.
    destruct (b =? 246); [inj2 H; split; [exact I|exact Hr]|].
    destruct (D e (b :: r)) as [[[v' r']|] a] eqn:Ed; cbn [fst] in H; [|discriminate]. inj2 H.
    apply (IH He (b :: r) v' r' Hb). rewrite Ed. reflexivity.
  - cbn [wf_schema] in Hw. destruct Hw as [[m [e' ->]] He]. destruct bs as [|b r]; [discriminate|]. inversion Hb as [|? ? _ Hr]; subst.
    destruct (b =? 246).
    + inj2 H. split; [|exact Hr]. cbn [wfv]. cbn [wf_schema] in He. split; [cbn; lia|exact I].
    + destruct (IH He (b :: r) v rest Hb H) as [A B]. split; [exact A|exact B].
Qed.

End Sound.
