(* Byte-level mirrors of the signing encodings: Payload.MarshalForSigningWithValueKey (gpbft/types.go),
   TipSet.MarshalForSigning (gpbft/chain.go) and vrfSerializeSigInput (gpbft/vrf.go).  Bytes are Z in [0, 256). *)
From Coq Require Import ZArith List Lia.
Import ListNotations.
Open Scope Z_scope.

(* big-endian fixed width *)
Fixpoint be (k : nat) (x : Z) : list Z :=
  match k with O => [] | S k' => be k' (x / 256) ++ [x mod 256] end.
Definition be64 (x : Z) : list Z := be 8 x.
Definition sep : Z := 58.   (* ':' *)

(* tag:nn:phase(1) round(8) instance(8) commitments(32) key(32) powertable-cid *)
Definition marshal_payload (tag nn : list Z) (phase round inst : Z) (commit key cid : list Z) : list Z :=
  tag ++ [sep] ++ nn ++ [sep] ++ [phase] ++ be64 round ++ be64 inst ++ commit ++ key ++ cid.
(* epoch(8, two's complement) commitments(32) cid-of-key power-table-cid *)
Definition marshal_tipset (epoch : Z) (commit tscid ptcid : list Z) : list Z :=
  be64 (epoch mod 2 ^ 64) ++ commit ++ tscid ++ ptcid.
(* tag:nn:beacon:instance(8) round(8) *)
Definition marshal_vrf (tag nn beacon : list Z) (inst round : Z) : list Z :=
  tag ++ [sep] ++ nn ++ [sep] ++ beacon ++ [sep] ++ be64 inst ++ be64 round.
