(* merkle/merkle.go: Tree (buildTree) and BatchTree over an ABSTRACT hash: digests are terms of the free algebra
   (Zero | Leaf value | Node left right), i.e. keccak256 with the leaf/internal markers is assumed collision-free and
   never zero.  Values are abstract (here: Z tokens of the tipset encodings).  The memo table of BatchTree is not
   modelled: it is keyed by all arguments of the memoised function. *)
From Coq Require Import ZArith List Arith Lia.
Import ListNotations.

Inductive dg := DZ | DL (v : Z) | DN (l r : dg).

(* depth(length) = bits.Len(uint(length) - 1) *)
Definition depth (n : nat) : nat := Nat.log2_up n.

Fixpoint build (d : nat) (vs : list Z) : dg :=
  match vs with
  | [] => DZ
  | v :: _ =>
      match d with
      | O => DL v                       (* the code panics unless exactly one value is left; see build_leaf_ok *)
      | S d' => let split := Nat.min (2 ^ d') (length vs) in
                DN (build d' (firstn split vs)) (build d' (skipn split vs))
      end
  end.
Definition tree (vs : list Z) : dg := build (depth (length vs)) vs.

(* BatchTree: roots.(k) for k = 1..n, each reusing the root of the full left subtree computed earlier *)
Definition slice (vs : list Z) (a b : nat) : list Z := firstn (b - a) (skipn a vs).
Fixpoint batch_roots (vs : list Z) (fuel k : nat) (roots : list dg) : list dg :=
  (* roots holds roots.(1) .. roots.(k-1) *)
  match fuel with
  | O => roots
  | S f =>
      let r := if Nat.eqb k 1 then match vs with v :: _ => DL v | [] => DZ end
               else let split := 2 ^ (depth k - 1) in
                    DN (nth (split - 1) roots DZ) (build (depth k - 1) (slice vs split k)) in
      batch_roots vs f (S k) (roots ++ [r])
  end.
Definition batch_tree (vs : list Z) : list dg := batch_roots vs (length vs) 1 [].
