(* comparison helpers for the C14 correspondence *)
From Coq Require Import ZArith List Bool.
From F3 Require Import Payload Cbor.
Import ListNotations.
Open Scope Z_scope.
Fixpoint bytes_eqb (a b : list Z) : bool :=
  match a, b with [], [] => true | x :: a', y :: b' => (x =? y) && bytes_eqb a' b' | _, _ => false end.
Definition hdr_eqb (a : option (Z * Z * list Z)) (b : option (Z * Z * list Z)) : bool :=
  match a, b with
  | Some (m, n, r), Some (m', n', r') => (m =? m') && (n =? n') && bytes_eqb r r'
  | None, None => true | _, _ => false end.
