(* Go fixed-width integer semantics over Z.  Used by the generated (go2coq) models.
   int64 values are represented by Z in [-2^63, 2^63); uint64 by Z in [0, 2^64).
   Every arithmetic operator wraps exactly like Go; / and % truncate toward zero
   (Z.quot / Z.rem); division by zero is a run-time panic in Go and is modelled by
   the result 0 together with a separate "no division by zero" side condition proved
   where relevant (the generated code never hides it: callers prove divisor <> 0). *)
From Coq Require Import ZArith Lia Bool.
Open Scope Z_scope.

Definition two63 : Z := 9223372036854775808.
Definition two64 : Z := 18446744073709551616.

Definition wrap_u64 (x : Z) : Z := x mod two64.
Definition wrap_i64 (x : Z) : Z := (x + two63) mod two64 - two63.

Definition in_i64 (x : Z) : Prop := - two63 <= x < two63.
Definition in_u64 (x : Z) : Prop := 0 <= x < two64.

Definition add_i64 x y := wrap_i64 (x + y).
Definition sub_i64 x y := wrap_i64 (x - y).
Definition mul_i64 x y := wrap_i64 (x * y).
Definition quo_i64 x y := wrap_i64 (Z.quot x y).
Definition rem_i64 x y := Z.rem x y.

Definition add_u64 x y := wrap_u64 (x + y).
Definition sub_u64 x y := wrap_u64 (x - y).
Definition mul_u64 x y := wrap_u64 (x * y).
Definition quo_u64 x y := Z.quot x y.
Definition rem_u64 x y := Z.rem x y.

(* conversions (Go reinterprets the bit pattern) *)
Definition u64_to_i64 (x : Z) : Z := wrap_i64 x.
Definition i64_to_u64 (x : Z) : Z := wrap_u64 x.

(* math/big through go-state-types/big: unbounded, Div truncates like big.Int.Quo?
   go-state-types big.Div uses big.Int.Div = Euclidean division; for non-negative
   operands all coincide.  We model Euclidean division (Z.div with positive divisor). *)
Definition big_div (x y : Z) : Z := x / y.
(* big.Int.Int64 : low 64 bits reinterpreted *)
Definition big_int64 (x : Z) : Z := wrap_i64 x.

Lemma wrap_i64_id x : in_i64 x -> wrap_i64 x = x.
Proof.
  unfold in_i64, wrap_i64, two63, two64. intros H.
  rewrite Z.mod_small; lia.
Qed.

Lemma wrap_u64_id x : in_u64 x -> wrap_u64 x = x.
Proof. unfold in_u64, wrap_u64, two64. intros H. rewrite Z.mod_small; lia. Qed.

Lemma wrap_i64_range x : in_i64 (wrap_i64 x).
Proof.
  unfold in_i64, wrap_i64, two63, two64.
  pose proof (Z.mod_pos_bound (x + 9223372036854775808) 18446744073709551616 ltac:(lia)). lia.
Qed.

Lemma wrap_u64_range x : in_u64 (wrap_u64 x).
Proof. unfold in_u64, wrap_u64, two64. apply Z.mod_pos_bound. lia. Qed.
