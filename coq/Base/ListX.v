From Coq Require Import ZArith List Lia.
Import ListNotations.
Open Scope Z_scope.

(* consecutive integers a, a+1, ..., a+n-1 *)
Fixpoint zseq (a : Z) (n : nat) : list Z :=
  match n with O => [] | S k => a :: zseq (a + 1) k end.

Lemma zseq_length a n : length (zseq a n) = n.
Proof. revert a; induction n; simpl; intros; auto. Qed.

Lemma zseq_in a n x : In x (zseq a n) <-> a <= x < a + Z.of_nat n.
Proof.
  revert a; induction n as [|n IH]; intros a; cbn [zseq In].
  - lia.
  - rewrite IH. lia.
Qed.
