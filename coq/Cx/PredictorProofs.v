(* C20: facts about the GENERATED predictor / subscriber arithmetic (Gen/PredictorGen.v,
   regenerated from certexchange/polling/{predictor,subscriber,poller}.go on every run). *)
From Coq Require Import ZArith Lia Bool.
From F3 Require Import GoInt PredictorGen.
Open Scope Z_scope.

Ltac Zify.zify_post_hook ::= Z.to_euclidean_division_equations.

(* intervals are nanosecond durations; the configuration domain we state the theorems on *)
Definition bound : Z := 2 ^ 50.   (* ~13 days *)

Definition wf (p : predictor) : Prop :=
  100 <= predictor_minInterval p /\ predictor_minInterval p <= predictor_maxInterval p /\
  predictor_maxInterval p <= bound /\
  predictor_minInterval p <= predictor_interval p <= predictor_maxInterval p /\
  0 <= predictor_exploreDistance p <= predictor_maxInterval p /\
  0 <= predictor_backoff p <= 10 * predictor_maxInterval p /\
  (predictor_backoff p = 0 \/ predictor_minInterval p <= predictor_backoff p).

Lemma w_id x : - 2 ^ 62 <= x < 2 ^ 62 -> wrap_i64 x = x.
Proof. intros H. apply wrap_i64_id. unfold in_i64, two63. lia. Qed.

Ltac unwrap_all :=
  unfold add_i64, sub_i64, mul_i64, quo_i64, u64_to_i64 in *;
  repeat match goal with
  | |- context [wrap_i64 ?x] => rewrite (w_id x) by (unfold bound in *; lia)
  | H : context [wrap_i64 ?x] |- _ => rewrite (w_id x) in H by (unfold bound in *; lia)
  end.

Ltac projs := cbn [predictor_minInterval predictor_maxInterval predictor_interval
    predictor_wasIncreasing predictor_exploreDistance predictor_backoff fst snd] in *.

Ltac split_ifs :=
  repeat match goal with
  | |- context [if ?c then _ else _] => let E := fresh "E" in destruct c eqn:E
  end.

Ltac bools :=
  repeat match goal with
  | H : Z.gtb _ _ = true |- _ => apply Z.gtb_lt in H
  | H : Z.gtb _ _ = false |- _ => rewrite Z.gtb_ltb in H; apply Z.ltb_ge in H
  | H : Z.ltb _ _ = true |- _ => apply Z.ltb_lt in H
  | H : Z.ltb _ _ = false |- _ => apply Z.ltb_ge in H
  | H : Z.leb _ _ = true |- _ => apply Z.leb_le in H
  | H : Z.leb _ _ = false |- _ => apply Z.leb_gt in H
  | H : Z.eqb _ _ = true |- _ => apply Z.eqb_eq in H
  | H : Z.eqb _ _ = false |- _ => apply Z.eqb_neq in H
  | H : negb _ = true |- _ => apply negb_true_iff in H
  | H : negb _ = false |- _ => apply negb_false_iff in H
  end.

(* --- subscriber: progress handed to the predictor = instances the store advanced --- *)
Theorem progress_eq_advance_1 start next : 0 <= start <= next -> next < two64 ->
  subscriber_progress_1 start next = next - start.
Proof. intros H H2. unfold subscriber_progress_1, sub_u64. apply wrap_u64_id. unfold in_u64. lia. Qed.

Theorem progress_eq_advance_2 start next : 0 <= start <= next -> next < two64 ->
  subscriber_progress_2 start next = next - start.
Proof. intros H H2. unfold subscriber_progress_2, sub_u64. apply wrap_u64_id. unfold in_u64. lia. Qed.

Theorem progress_sites_covered : subscriber_progress_sites = 2%nat.
Proof. reflexivity. Qed.

Theorem catchup_progress_eq latest next : 0 <= next <= latest + 1 -> latest + 1 < two64 ->
  catchup_progress latest next = (latest + 1) - next.
Proof.
  intros H H2. unfold catchup_progress, sub_u64, add_u64.
  rewrite (wrap_u64_id (latest + 1)) by (unfold in_u64; lia).
  apply wrap_u64_id. unfold in_u64. lia.
Qed.

(* --- subscriber: the wait is the remaining predicted interval, extended only by the
       request time and by at most half of the interval --- *)
Theorem delay_bound unt offset : - bound <= unt <= bound -> 0 <= offset <= bound ->
  let d0 := Z.max unt 0 in
  d0 <= subscriber_delay unt offset <= d0 + Z.min offset (d0 / 2) /\
  subscriber_delay unt offset = d0 + Z.min offset (d0 / 2).
Proof.
  intros Hu Ho d0. unfold subscriber_delay. cbv zeta. subst d0. unfold add_i64, quo_i64. unfold bound in *.
  rewrite (w_id (Z.quot (Z.max unt 0) 2)) by lia.
  rewrite w_id by lia. lia.
Qed.

Theorem delay_no_offset unt : - bound <= unt <= bound ->
  subscriber_delay unt 0 = Z.max unt 0.
Proof. intros Hu. unfold subscriber_delay. cbv zeta. unfold add_i64, quo_i64. unfold bound in *.
  rewrite (w_id (Z.quot (Z.max unt 0) 2)) by lia.
  rewrite w_id by lia. lia. Qed.

(* --- predictor --- *)
(* from here on lia must not generate division equations itself: quotients are abstracted
   one by one with their bounds (keeps every branch a small linear problem) *)
Ltac Zify.zify_post_hook ::= idtac.

Lemma quot_bounds x c : 0 <= x -> 0 < c -> 0 <= Z.quot x c /\ c * Z.quot x c <= x < c * Z.quot x c + c.
Proof.
  intros Hx Hc. rewrite Z.quot_div_nonneg by lia.
  pose proof (Z.div_pos x c Hx Hc). pose proof (Z.mul_div_le x c Hc). pose proof (Z.mul_succ_div_gt x c Hc). lia.
Qed.

Ltac norm_step :=
  match goal with
  | |- context [wrap_i64 ?x] => rewrite (w_id x) by (unfold bound in *; lia)
  | H : context [wrap_i64 ?x] |- _ => rewrite (w_id x) in H by (unfold bound in *; lia)
  | |- context [Z.quot ?x ?c] =>
      let H := fresh "Hq" in
      pose proof (quot_bounds x c ltac:(unfold bound in *; lia) ltac:(unfold bound in *; lia)) as H;
      let q := fresh "q" in set (q := Z.quot x c) in *; clearbody q
  | H0 : context [Z.quot ?x ?c] |- _ =>
      let H := fresh "Hq" in
      pose proof (quot_bounds x c ltac:(unfold bound in *; lia) ltac:(unfold bound in *; lia)) as H;
      let q := fresh "q" in set (q := Z.quot x c) in *; clearbody q
  end.

Ltac open_pred p :=
  unfold predictor_update; cbv zeta;
  destruct p as [mn mx iv inc ed bo]; cbn [predictor_minInterval predictor_maxInterval predictor_interval
    predictor_wasIncreasing predictor_exploreDistance predictor_backoff] in *;
  unfold add_i64, sub_i64, mul_i64, quo_i64, u64_to_i64 in *.

Ltac solve_pred :=
  split_ifs; cbv beta iota zeta; projs; bools; repeat norm_step; bools; unfold bound in *; try lia.

Theorem new_predictor_wf mn df mx : 100 <= mn -> mn <= df <= mx -> mx <= bound -> wf (newPredictor mn df mx).
Proof. intros. unfold wf, newPredictor; projs. unfold quo_i64. repeat norm_step. unfold bound in *. lia. Qed.

(* invariant: min <= interval <= max, explore distance and back-off stay bounded *)
Theorem update_preserves_wf p progress : wf p -> 0 <= progress < two63 ->
  wf (fst (predictor_update p progress)).
Proof.
  intros (H1 & H2 & H3 & H4 & H5 & H6 & H7) Hp. open_pred p.
  rewrite (wrap_i64_id progress) by (unfold in_i64, two63 in *; lia).
  unfold wf. solve_pred.
Qed.

Theorem interval_clamped p progress : wf p -> 0 <= progress < two63 ->
  let p' := fst (predictor_update p progress) in
  predictor_minInterval p' = predictor_minInterval p /\ predictor_maxInterval p' = predictor_maxInterval p /\
  predictor_minInterval p <= predictor_interval p' <= predictor_maxInterval p.
Proof.
  intros Hw Hp p'. pose proof (update_preserves_wf p progress Hw Hp) as (A & B & C & D & E & F & G).
  fold p' in A, B, C, D, E, F, G.
  assert (predictor_minInterval p' = predictor_minInterval p /\ predictor_maxInterval p' = predictor_maxInterval p) as [M1 M2].
  { subst p'. unfold predictor_update. cbv zeta. destruct p; projs. split_ifs; projs; auto. }
  rewrite <- M1, <- M2. auto.
Qed.

(* steady production: exactly one certificate per poll and not backing off => nothing changes,
   the next wait is the current interval (a fixed point: no collapse, no drift) *)
Theorem steady_fixed_point p : wf p -> predictor_backoff p = 0 ->
  predictor_update p 1 = (p, predictor_interval p).
Proof.
  intros Hw Hb. unfold predictor_update. cbv zeta. destruct p as [mn mx iv inc ed bo]; projs. subst bo.
  cbn. reflexivity.
Qed.

(* several certificates per poll => the interval never grows, and strictly shrinks above the minimum *)
Theorem shortens p progress : wf p -> predictor_backoff p = 0 -> 2 <= progress < two63 ->
  let p' := fst (predictor_update p progress) in
  predictor_interval p' <= predictor_interval p /\
  (predictor_minInterval p < predictor_interval p -> predictor_interval p' < predictor_interval p) /\
  snd (predictor_update p progress) = predictor_interval p'.
Proof.
  intros (H1 & H2 & H3 & H4 & H5 & H6 & H7) Hb Hp. open_pred p. subst bo.
  rewrite (wrap_i64_id progress) by (unfold in_i64, two63 in *; lia).
  assert (Hq : 0 <= Z.quot iv progress <= iv / 2).
  { rewrite Z.quot_div_nonneg by lia. split; [apply Z.div_pos; lia|]. apply Z.div_le_compat_l; lia. }
  assert (Hh : 2 * (iv / 2) <= iv) by (apply Z.mul_div_le; lia).
  set (q0 := Z.quot iv progress) in *. set (h := iv / 2) in *. clearbody q0 h.
  solve_pred.
Qed.

(* no certificate => back off: the wait returned is at least the interval held before, the
   back-off doubles up to 10 x max, and one certificate ends it *)
Theorem backs_off_enter p : wf p -> predictor_backoff p = 0 ->
  let '(p', wait) := predictor_update p 0 in
  wait = predictor_interval p /\ predictor_interval p <= predictor_interval p' /\
  predictor_backoff p' = Z.min (2 * predictor_interval p) (10 * predictor_maxInterval p).
Proof.
  intros (H1 & H2 & H3 & H4 & H5 & H6 & H7) Hb. open_pred p. subst bo. solve_pred.
Qed.

Theorem backs_off_continue p : wf p -> 0 < predictor_backoff p ->
  let '(p', wait) := predictor_update p 0 in
  wait = predictor_backoff p /\ predictor_interval p' = predictor_interval p /\
  predictor_backoff p' = Z.min (2 * predictor_backoff p) (10 * predictor_maxInterval p) /\
  predictor_backoff p <= predictor_backoff p'.
Proof.
  intros (H1 & H2 & H3 & H4 & H5 & H6 & H7) Hb. open_pred p. solve_pred.
Qed.

Theorem backoff_restored p progress : wf p -> 0 < predictor_backoff p -> 1 <= progress < two63 ->
  let '(p', wait) := predictor_update p progress in
  wait = predictor_interval p /\ predictor_backoff p' = 0 /\ predictor_interval p' = predictor_interval p.
Proof.
  intros (H1 & H2 & H3 & H4 & H5 & H6 & H7) Hb Hp. open_pred p. solve_pred.
Qed.

(* the returned wait is always within [min, 10*max] *)
Theorem wait_bounded p progress : wf p -> 0 <= progress < two63 ->
  predictor_minInterval p <= snd (predictor_update p progress) <= 10 * predictor_maxInterval p.
Proof.
  intros (H1 & H2 & H3 & H4 & H5 & H6 & H7) Hp. open_pred p.
  rewrite (wrap_i64_id progress) by (unfold in_i64, two63 in *; lia).
  solve_pred.
Qed.

(* the hazard the subscriber's operand order used to create: a "progress" of 2^64-k reinterpreted
   as a negative duration divides the interval to (about) zero, i.e. collapses to the minimum *)
Example underflow_collapses :
  let p := newPredictor 1000 30000000000 120000000000 in
  predictor_interval (fst (predictor_update p (two64 - 5))) = 1000.
Proof. vm_compute. reflexivity. Qed.

Example wf_example : wf (newPredictor 1000000000 30000000000 120000000000).
Proof. apply new_predictor_wf; unfold bound; lia. Qed.
