(* C16 model: certificate-exchange server (range arithmetic GENERATED in Gen/ServerGen.v),
   client sequencing, and the poller loop over arbitrary responder behaviour.  No proofs here. *)
From Coq Require Import ZArith List Bool.
From F3 Require Import GoInt ListX ServerGen.
Import ListNotations.
Open Scope Z_scope.


(* certstore.GetRange(start, end) over a store holding exactly [sfirst, pending): inclusive
   range, stops at the first missing instance *)
Definition get_range (sfirst pending start end_ : Z) : list Z :=
  if (start <? sfirst) || (pending <=? start) then []
  else zseq start (Z.to_nat (Z.min end_ (pending - 1) - start + 1)).

(* instances written to the wire by Server.handleRequest for a store holding [sfirst, pending) *)
Definition serve (sfirst pending first limit_req : Z) : list Z :=
  let limit := server_limit limit_req in
  if server_guard first limit pending
  then get_range sfirst pending first (server_end first limit_req pending)
  else [].

(* whether the header carries a power table *)
Definition serves_power_table (pending first : Z) (want : bool) : bool := (pending >=? first) && want.

(* Client.Request: reads at most `limit` certificates, forwards them while they are in sequence *)
Fixpoint client_recv {A : Type} (inst : A -> Z) (first : Z) (limit : nat) (idx : Z) (stream : list A) : list A :=
  match limit, stream with
  | O, _ => []
  | _, [] => []
  | S l, c :: rest => if inst c =? first + idx then c :: client_recv inst first l (idx + 1) rest else []
  end.

(* ---- poller ---- *)
Inductive pstatus := PollMiss | PollHit | PollFailed | PollIllegal.

Section Poller.
  Variable cert : Type.
  Variable tbl : Type.
  Variable inst : cert -> Z.
  (* certs.ValidateFinalityCertificates on ONE certificate against the poller's own table *)
  Variable validate : tbl -> Z -> cert -> option tbl.

  Record pstate := { p_next : Z; p_tbl : tbl; p_store : list cert }.

  (* the `for cert := range ch` loop; returns new state, number received, illegal? *)
  Fixpoint consume (s : pstate) (cs : list cert) (received : nat) : pstate * nat * bool :=
    match cs with
    | [] => (s, received, false)
    | c :: rest =>
        match validate (p_tbl s) (p_next s) c with
        | None => (s, received, true)
        | Some t' =>
            consume {| p_next := p_next s + 1; p_tbl := t'; p_store := p_store s ++ [c] |} rest (S received)
        end
    end.

  (* one response = (pending advertised, certificates the client forwards) ; None = request error.
     `responses` scripts the peer; running out of script = request error. *)
  Fixpoint poll (s : pstate) (responses : list (option (Z * list cert))) (status : pstatus) (received : nat)
    : pstate * pstatus * nat :=
    match responses with
    | [] => (s, PollFailed, received)
    | None :: _ => (s, PollFailed, received)
    | Some (pending, cs) :: rest =>
        let status := if pending >=? p_next s then PollHit else status in
        let '(s', received', illegal) := consume s cs received in
        if illegal then (s', PollIllegal, received')
        else if pending <=? p_next s' then (s', status, received')
        else if Nat.eqb received' 0 then (s', PollFailed, received')
        else poll s' rest status received'
    end.
End Poller.

(* instantiation used by the correspondence: a certificate is (instance, honest?) *)
Definition dcert := (Z * bool)%type.
Definition dvalidate (t : unit) (next : Z) (c : dcert) : option unit :=
  if (fst c =? next) && snd c then Some tt else None.
Definition dpoll (next : Z) (responses : list (option (Z * list dcert))) :=
  let '(s, st, rc) := poll dcert unit dvalidate {| p_next := next; p_tbl := tt; p_store := [] |} responses PollMiss 0 in
  (p_next _ _ s, st, rc, map fst (p_store _ _ s)).
(* poller behind the real client: every scripted response passes through client_recv with the
   poller's request (first = NextInstance at request time, limit = 256) *)
Fixpoint dpoll_c (fuel : nat) (next : Z) (responses : list (option (Z * list dcert))) (status : pstatus) (received : nat)
    (stored : list Z) : Z * pstatus * nat * list Z :=
  match responses with
  | [] => (next, PollFailed, received, stored)
  | None :: _ => (next, PollFailed, received, stored)
  | Some (pending, raw) :: rest =>
      let cs := client_recv fst next 256 0 raw in
      let status := if pending >=? next then PollHit else status in
      let '(s', received', illegal) := consume dcert unit dvalidate {| p_next := next; p_tbl := tt; p_store := [] |} cs received in
      let next' := p_next _ _ s' in
      let stored' := stored ++ map fst (p_store _ _ s') in
      if illegal then (next', PollIllegal, received', stored')
      else if pending <=? next' then (next', status, received', stored')
      else if Nat.eqb received' 0 then (next', PollFailed, received', stored')
      else match fuel with O => (next', PollFailed, received', stored') | S f => dpoll_c f next' rest status received' stored' end
  end.
Definition pstatus_code (s : pstatus) : Z := match s with PollMiss => 0 | PollHit => 1 | PollFailed => 2 | PollIllegal => 3 end.
