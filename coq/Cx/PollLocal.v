(* The poller's per-certificate loop (certexchange/polling/poller.go, Poller.Poll) next to the node's OWN progress: while a
   request is in flight and while its response is being processed, the node's GPBFT instance may store certificates itself.
   State: the poller's cursor NextInstance and the store's latest instance (-1 = none).  A certificate from the peer is
   represented by its instance number and whether it validates against the poller's current table; a local event stores
   the honest successor of the store's latest certificate.  C16: whatever happens locally, the cursor advances exactly by
   the valid prefix of the response and an honest response is never classified as illegal. *)
From Coq Require Import ZArith List Bool Lia.
Import ListNotations.
Open Scope Z_scope.

Inductive pitem := PCert (inst : Z) (valid : bool) | PLocal.
Record lstate := mkLS { ls_next : Z; ls_latest : Z; ls_received : Z; ls_new : Z; ls_illegal : bool }.

Definition lstep (s : lstate) (it : pitem) : lstate :=
  if ls_illegal s then s else
  match it with
  | PLocal => mkLS (ls_next s) (ls_latest s + 1) (ls_received s) (ls_new s) false
  | PCert n valid =>
      if negb ((n =? ls_next s) && valid) then mkLS (ls_next s) (ls_latest s) (ls_received s) (ls_new s) true
      else
        (* received; stored only if the store does not have it yet; the cursor moves in either case *)
        if ls_latest s <? n then mkLS (n + 1) n (ls_received s + 1) (ls_new s + 1) false
        else mkLS (n + 1) (ls_latest s) (ls_received s + 1) (ls_new s) false
  end.
Definition lrun (s : lstate) (its : list pitem) : lstate := fold_left lstep its s.

(* the certificates of an honest response for a request issued at cursor `from`: from, from+1, ... all valid *)
Fixpoint honest_from (from : Z) (its : list pitem) : Prop :=
  match its with
  | [] => True
  | PLocal :: r => honest_from from r
  | PCert n valid :: r => n = from /\ valid = true /\ honest_from (from + 1) r
  end.
Fixpoint ncerts (its : list pitem) : Z := match its with [] => 0 | PLocal :: r => ncerts r | PCert _ _ :: r => 1 + ncerts r end.

Lemma ncerts_nonneg its : 0 <= ncerts its.
Proof. induction its as [|[n v|] r IH]; cbn [ncerts]; lia. Qed.

Theorem honest_response_advances its : forall s, ls_illegal s = false -> honest_from (ls_next s) its ->
  let s' := lrun s its in
  ls_illegal s' = false /\ ls_next s' = ls_next s + ncerts its /\ ls_received s' = ls_received s + ncerts its /\
  ls_latest s <= ls_latest s' /\ (0 < ncerts its -> ls_next s' - 1 <= ls_latest s').
Proof.
  induction its as [|it r IH]; intros s Hi Hh; cbv zeta; cbn [lrun fold_left ncerts] in *; [repeat split; try lia; exact Hi|].
  destruct it as [n v|].
  - destruct Hh as (-> & -> & Hh). pose proof (ncerts_nonneg r) as Hn.
    assert (E : lstep s (PCert (ls_next s) true) =
                if ls_latest s <? ls_next s then mkLS (ls_next s + 1) (ls_next s) (ls_received s + 1) (ls_new s + 1) false
                else mkLS (ls_next s + 1) (ls_latest s) (ls_received s + 1) (ls_new s) false).
    { unfold lstep. rewrite Hi, Z.eqb_refl. reflexivity. }
    rewrite E. destruct (ls_latest s <? ls_next s) eqn:El.
    + apply Z.ltb_lt in El. specialize (IH (mkLS (ls_next s + 1) (ls_next s) (ls_received s + 1) (ls_new s + 1) false) eq_refl Hh).
      cbn [ls_next ls_latest ls_received ls_illegal] in IH. destruct IH as (A & B & C & D & F). fold (lrun (mkLS (ls_next s + 1) (ls_next s) (ls_received s + 1) (ls_new s + 1) false) r).
      repeat split; try lia; try exact A; try (intros _; destruct (Z.eq_dec (ncerts r) 0) as [Z0|Z0]; [lia|apply F; lia]).
    + apply Z.ltb_ge in El. specialize (IH (mkLS (ls_next s + 1) (ls_latest s) (ls_received s + 1) (ls_new s) false) eq_refl Hh).
      cbn [ls_next ls_latest ls_received ls_illegal] in IH. destruct IH as (A & B & C & D & F). fold (lrun (mkLS (ls_next s + 1) (ls_latest s) (ls_received s + 1) (ls_new s) false) r).
      repeat split; try lia; try exact A; try (intros _; destruct (Z.eq_dec (ncerts r) 0) as [Z0|Z0]; [lia|apply F; lia]).
  - assert (E : lstep s PLocal = mkLS (ls_next s) (ls_latest s + 1) (ls_received s) (ls_new s) false) by (unfold lstep; rewrite Hi; reflexivity).
    rewrite E. specialize (IH (mkLS (ls_next s) (ls_latest s + 1) (ls_received s) (ls_new s) false) eq_refl Hh).
    cbn [ls_next ls_latest ls_received ls_illegal] in IH. destruct IH as (A & B & C & D & F).
    fold (lrun (mkLS (ls_next s) (ls_latest s + 1) (ls_received s) (ls_new s) false) r). repeat split; try lia; try exact A; try exact F.
Qed.

(* an invalid or out-of-sequence certificate stops the loop with the verdict "illegal"; nothing after it is looked at *)
Theorem illegal_is_final its : forall s, ls_illegal s = true -> lrun s its = s.
Proof. induction its as [|it r IH]; intros s H; cbn [lrun fold_left]; [reflexivity|]. unfold lstep at 2. rewrite H. apply IH. exact H. Qed.

(* correspondence: what the real poller reported after an honest response with local puts interleaved *)
Definition local_poll_ok (next latest : Z) (its : list pitem) (obs_next obs_latest obs_received obs_new : Z) (obs_illegal : bool) : bool :=
  let s := lrun (mkLS next latest 0 0 false) its in
  (ls_next s =? obs_next) && (ls_latest s =? obs_latest) && (ls_received s =? obs_received) && (ls_new s =? obs_new) && Bool.eqb (ls_illegal s) obs_illegal.

(* ARBITRARY responses: the cursor advances exactly by the longest prefix of certificates that are sequential and valid
   (local events in between do not matter), and the verdict is "illegal" exactly when some certificate lies beyond it. *)
Fixpoint valid_prefix (from : Z) (its : list pitem) : Z :=
  match its with
  | [] => 0
  | PLocal :: r => valid_prefix from r
  | PCert n v :: r => if (n =? from) && v then 1 + valid_prefix (from + 1) r else 0
  end.
Fixpoint all_valid (from : Z) (its : list pitem) : bool :=
  match its with
  | [] => true
  | PLocal :: r => all_valid from r
  | PCert n v :: r => if (n =? from) && v then all_valid (from + 1) r else false
  end.

Theorem any_response_advances_by_valid_prefix its : forall s, ls_illegal s = false ->
  ls_next (lrun s its) = ls_next s + valid_prefix (ls_next s) its /\
  ls_received (lrun s its) = ls_received s + valid_prefix (ls_next s) its /\
  ls_illegal (lrun s its) = negb (all_valid (ls_next s) its) /\
  ls_latest s <= ls_latest (lrun s its).
Proof.
  induction its as [|it r IH]; intros s Hi; unfold lrun; cbn [fold_left valid_prefix all_valid]; [rewrite Hi; repeat split; lia|].
  fold (lrun (lstep s it) r). remember (lstep s it) as s1 eqn:E1. unfold lstep in E1. rewrite Hi in E1.
  destruct it as [n v|].
  - destruct ((n =? ls_next s) && v) eqn:E; cbn [negb] in E1.
    + apply andb_true_iff in E. destruct E as [En _]. apply Z.eqb_eq in En. subst n.
      destruct (ls_latest s <? ls_next s) eqn:El; subst s1.
      * specialize (IH _ (eq_refl : ls_illegal (mkLS (ls_next s + 1) (ls_next s) (ls_received s + 1) (ls_new s + 1) false) = false)).
        cbn [ls_next ls_latest ls_received ls_illegal] in IH. destruct IH as (A & B & C & D).
        apply Z.ltb_lt in El. repeat split; try lia. exact C.
      * specialize (IH _ (eq_refl : ls_illegal (mkLS (ls_next s + 1) (ls_latest s) (ls_received s + 1) (ls_new s) false) = false)).
        cbn [ls_next ls_latest ls_received ls_illegal] in IH. destruct IH as (A & B & C & D).
        repeat split; try lia. exact C.
    + subst s1. rewrite illegal_is_final by reflexivity. cbn [ls_next ls_latest ls_received ls_illegal negb]. repeat split; lia.
  - subst s1. specialize (IH _ (eq_refl : ls_illegal (mkLS (ls_next s) (ls_latest s + 1) (ls_received s) (ls_new s) false) = false)).
    cbn [ls_next ls_latest ls_received ls_illegal] in IH. destruct IH as (A & B & C & D).
    repeat split; try lia; assumption.
Qed.

(* accounting: NewCertificates counts a subset of the received ones, and the cursor/received/new counters never go back *)
Lemma lstep_counters s it :
  ls_next s <= ls_next (lstep s it) /\ 0 <= ls_new (lstep s it) - ls_new s <= ls_received (lstep s it) - ls_received s.
Proof.
  unfold lstep. destruct (ls_illegal s); [lia|]. destruct it as [n v|]; cbn [ls_next ls_new ls_received]; [|lia].
  destruct ((n =? ls_next s) && v) eqn:E; cbn [negb ls_next ls_new ls_received]; [|lia].
  apply andb_true_iff in E. destruct E as [En _]. apply Z.eqb_eq in En.
  destruct (ls_latest s <? n); cbn [ls_next ls_new ls_received]; lia.
Qed.
Theorem new_counts_subset_of_received its : forall s,
  ls_next s <= ls_next (lrun s its) /\ 0 <= ls_new (lrun s its) - ls_new s <= ls_received (lrun s its) - ls_received s.
Proof.
  induction its as [|it r IH]; intros s; unfold lrun; cbn [fold_left]; [lia|].
  fold (lrun (lstep s it) r). pose proof (lstep_counters s it). specialize (IH (lstep s it)). lia.
Qed.
