(* Without local events the loop of PollLocal.v is the `consume` loop of Exchange.v (the model the multi-request poller
   correspondence runs through), instantiated as in that correspondence: same cursor, same count, same verdict. *)
From Coq Require Import ZArith List Bool Lia.
From F3 Require Import Exchange PollLocal.
Import ListNotations.
Open Scope Z_scope.

Definition as_item (c : dcert) : pitem := PCert (fst c) (snd c).

Lemma consume_is_lrun cs : forall next st rc latest nw,
  let '(s', rc', ill) := consume dcert unit dvalidate {| p_next := next; p_tbl := tt; p_store := st |} cs rc in
  let l := lrun (mkLS next latest (Z.of_nat rc) nw false) (map as_item cs) in
  ls_next l = p_next _ _ s' /\ ls_received l = Z.of_nat rc' /\ ls_illegal l = ill.
Proof.
  induction cs as [|c r IH]; intros next st rc latest nw; cbn [consume map lrun fold_left].
  - cbn. repeat split.
  - destruct c as [n v]. cbn [p_tbl p_next p_store]. unfold dvalidate. cbn [fst snd].
    remember (lstep (mkLS next latest (Z.of_nat rc) nw false) (as_item (n, v))) as s1 eqn:E1.
    unfold lstep, as_item in E1. cbn [ls_illegal ls_next ls_latest ls_received ls_new fst snd] in E1.
    fold (lrun s1 (map as_item r)).
    destruct ((n =? next) && v) eqn:E; cbn [negb] in E1.
    + apply andb_true_iff in E. destruct E as [En _]. apply Z.eqb_eq in En. subst n.
      destruct (latest <? next) eqn:El; subst s1.
      * specialize (IH (next + 1) (st ++ [(next, v)]) (S rc) next (nw + 1)).
        replace (Z.of_nat (S rc)) with (Z.of_nat rc + 1) in IH by lia. exact IH.
      * specialize (IH (next + 1) (st ++ [(next, v)]) (S rc) latest nw).
        replace (Z.of_nat (S rc)) with (Z.of_nat rc + 1) in IH by lia. exact IH.
    + subst s1. rewrite illegal_is_final by reflexivity. cbn. repeat split.
Qed.
