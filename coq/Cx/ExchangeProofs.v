From Coq Require Import ZArith List Bool Lia.
From F3 Require Import GoInt ListX ServerGen Exchange.
Import ListNotations.
Open Scope Z_scope.

Lemma wu x : 0 <= x < two64 -> wrap_u64 x = x.
Proof. intros. apply wrap_u64_id. exact H. Qed.

Lemma server_limit_spec l : 0 <= l -> server_limit l = Z.min l 256.
Proof.
  intros H. unfold server_limit. cbv zeta. destruct (Z.gtb l 256) eqn:E.
  - apply Z.gtb_lt in E. lia.
  - rewrite Z.gtb_ltb in E. apply Z.ltb_ge in E. lia.
Qed.

(* the last instance served, for a request that is served at all *)
Lemma server_end_spec first l pending :
  0 <= first < pending -> pending < two64 -> 0 < l < two64 ->
  server_end first l pending = Z.min (first + Z.min l 256 - 1) (pending - 1).
Proof.
  intros Hf Hp Hl. unfold server_end. cbv zeta. unfold two64 in *.
  assert (El : (if Z.gtb l 256 then 256 else l) = Z.min l 256).
  { destruct (Z.gtb l 256) eqn:E. apply Z.gtb_lt in E; lia. rewrite Z.gtb_ltb in E; apply Z.ltb_ge in E; lia. }
  rewrite El. set (m := Z.min l 256) in *. assert (1 <= m <= 256) by (subst m; lia).
  unfold add_u64, sub_u64.
  destruct (Z_lt_dec (first + m) 18446744073709551616) as [Hs|Hs].
  - rewrite (wu (first + m)) by (unfold two64; lia).
    rewrite (wu (first + m - 1)) by (unfold two64; lia).
    assert (Z.ltb (first + m - 1) first = false) as -> by (apply Z.ltb_ge; lia).
    rewrite (wu (pending - 1)) by (unfold two64; lia).
    destruct (Z.geb (first + m - 1) pending) eqn:E.
    + apply Z.geb_le in E. lia.
    + rewrite Z.geb_leb in E. apply Z.leb_gt in E. lia.
  - (* first + m wraps: end < first, so end := pending - 1 *)
    assert (Ew : wrap_u64 (first + m) = first + m - 18446744073709551616).
    { unfold wrap_u64, two64. symmetry. apply Z.mod_unique with (q := 1); lia. }
    rewrite Ew.
    destruct (Z.eq_dec (first + m) 18446744073709551616) as [Eq|Ne].
    + (* first + m = 2^64 : (0 - 1) wraps to 2^64-1 = first + m - 1 *)
      assert (Ew2 : wrap_u64 (first + m - 18446744073709551616 - 1) = first + m - 1).
      { unfold wrap_u64, two64. symmetry. apply Z.mod_unique with (q := -1); lia. }
      rewrite Ew2.
      assert (Z.ltb (first + m - 1) first = false) as -> by (apply Z.ltb_ge; lia).
      rewrite (wu (pending - 1)) by (unfold two64; lia).
      destruct (Z.geb (first + m - 1) pending) eqn:E.
      * lia.
      * rewrite Z.geb_leb in E. apply Z.leb_gt in E. lia.
    + rewrite (wu (first + m - 18446744073709551616 - 1)) by (unfold two64; lia).
      assert (Z.ltb (first + m - 18446744073709551616 - 1) first = true) as -> by (apply Z.ltb_lt; lia).
      rewrite (wu (pending - 1)) by (unfold two64; lia).
      assert (Z.geb (pending - 1) pending = false) as ->.
      { rewrite Z.geb_leb. apply Z.leb_gt. lia. }
      lia.
Qed.

Lemma server_guard_spec first l pending :
  server_guard first (server_limit l) pending = (pending >? first) && (server_limit l >? 0).
Proof. unfold server_guard. reflexivity. Qed.

(* what the server writes: exactly the stored instances from `first`, consecutive, at most
   min(limit,256) of them and never at or beyond the pending instance *)
Theorem serve_exact sfirst pending first l :
  0 <= sfirst <= pending -> pending < two64 -> 0 <= first < two64 -> 0 <= l < two64 ->
  serve sfirst pending first l =
    if (sfirst <=? first) && (first <? pending) && (0 <? l)
    then zseq first (Z.to_nat (Z.min (Z.min l 256) (pending - first)))
    else [].
Proof.
  intros Hs Hp Hf Hl. unfold serve. cbv zeta. rewrite server_guard_spec, server_limit_spec by lia.
  destruct (Z.gtb pending first) eqn:G1; cbn [andb].
  2:{ rewrite Z.gtb_ltb in G1. apply Z.ltb_ge in G1.
      assert (first <? pending = false) as -> by (apply Z.ltb_ge; lia). rewrite andb_false_r. reflexivity. }
  apply Z.gtb_lt in G1.
  destruct (Z.gtb (Z.min l 256) 0) eqn:G2.
  2:{ rewrite Z.gtb_ltb in G2. apply Z.ltb_ge in G2.
      assert (0 <? l = false) as -> by (apply Z.ltb_ge; lia). rewrite andb_false_r. reflexivity. }
  apply Z.gtb_lt in G2.
  assert (first <? pending = true) as -> by (apply Z.ltb_lt; lia).
  assert (0 <? l = true) as -> by (apply Z.ltb_lt; lia).
  rewrite server_end_spec by lia. unfold get_range.
  assert (pending <=? first = false) as -> by (apply Z.leb_gt; lia). rewrite orb_false_r.
  destruct (Z.ltb first sfirst) eqn:G3.
  - apply Z.ltb_lt in G3. assert (sfirst <=? first = false) as -> by (apply Z.leb_gt; lia). reflexivity.
  - apply Z.ltb_ge in G3. assert (sfirst <=? first = true) as -> by (apply Z.leb_le; lia). cbn [andb].
    f_equal. f_equal. lia.
Qed.

Theorem serve_len_le_limit sfirst pending first l :
  0 <= sfirst <= pending -> pending < two64 -> 0 <= first < two64 -> 0 <= l < two64 ->
  Z.of_nat (length (serve sfirst pending first l)) <= Z.min l 256.
Proof.
  intros. rewrite serve_exact by assumption.
  destruct ((sfirst <=? first) && (first <? pending) && (0 <? l)); cbn [length]; [|lia].
  rewrite zseq_length. lia.
Qed.

Theorem serve_below_pending sfirst pending first l x :
  0 <= sfirst <= pending -> pending < two64 -> 0 <= first < two64 -> 0 <= l < two64 ->
  In x (serve sfirst pending first l) -> sfirst <= x /\ first <= x < pending.
Proof.
  intros Hs Hp Hf Hl. rewrite serve_exact by assumption.
  destruct ((sfirst <=? first) && (first <? pending) && (0 <? l)) eqn:E; cbn [In]; [|tauto].
  apply andb_true_iff in E. destruct E as [E E3]. apply andb_true_iff in E. destruct E as [E1 E2].
  apply Z.leb_le in E1. apply Z.ltb_lt in E2. apply Z.ltb_lt in E3.
  rewrite zseq_in. lia.
Qed.

Theorem serve_complete sfirst pending first l :
  0 <= sfirst <= pending -> pending < two64 -> 0 <= l < two64 ->
  sfirst <= first < pending ->
  Z.of_nat (length (serve sfirst pending first l)) = Z.min (Z.min l 256) (pending - first).
Proof.
  intros Hs Hp Hl Hf. rewrite serve_exact by lia.
  assert (sfirst <=? first = true) as -> by (apply Z.leb_le; lia).
  assert (first <? pending = true) as -> by (apply Z.ltb_lt; lia). cbn [andb].
  destruct (0 <? l) eqn:E.
  - rewrite zseq_length. apply Z.ltb_lt in E. lia.
  - apply Z.ltb_ge in E. cbn [length]. lia.
Qed.

(* ---- client ---- *)
Theorem client_sequential (A : Type) (inst : A -> Z) first limit (stream : list A) :
  forall idx, exists n, (n <= limit)%nat /\
    map inst (client_recv inst first limit idx stream) = zseq (first + idx) n /\
    client_recv inst first limit idx stream = firstn n stream.
Proof.
  revert stream. induction limit as [|l IH]; intros stream idx.
  - exists 0%nat. cbn. destruct stream; auto.
  - destruct stream as [|c rest]; cbn [client_recv].
    + exists 0%nat. cbn. split; [lia|auto].
    + destruct (inst c =? first + idx) eqn:E.
      * apply Z.eqb_eq in E. destruct (IH rest (idx + 1)) as [n [Hn [H1 H2]]].
        exists (S n). split; [lia|]. cbn [zseq firstn map]. split.
        -- rewrite H1, E. replace (first + (idx + 1)) with (first + idx + 1) by lia. reflexivity.
        -- rewrite H2. reflexivity.
      * exists 0%nat. cbn. split; [lia|auto].
Qed.

(* ---- poller: whatever the peer sends, the store grows by exactly the longest prefix that
        validates against the poller's own table, and NextInstance advances by its length ---- *)
Section PollerProofs.
  Variable cert tbl : Type.
  Variable inst : cert -> Z.
  Variable validate : tbl -> Z -> cert -> option tbl.

  (* sequential validity of a list of certificates from (next, table) *)
  Fixpoint valid_run (t : tbl) (next : Z) (cs : list cert) : option tbl :=
    match cs with
    | [] => Some t
    | c :: rest => match validate t next c with None => None | Some t' => valid_run t' (next + 1) rest end
    end.

  Lemma valid_run_app t next a b :
    valid_run t next (a ++ b) =
    match valid_run t next a with None => None | Some t' => valid_run t' (next + Z.of_nat (length a)) b end.
  Proof.
    revert t next. induction a as [|c a IH]; intros t next; cbn [app valid_run length].
    - replace (next + Z.of_nat 0) with next by lia. reflexivity.
    - destruct (validate t next c); auto. rewrite IH. destruct (valid_run t0 (next + 1) a); auto.
      f_equal. lia.
  Qed.

  Definition good (s0 s : pstate cert tbl) : Prop :=
    exists added, p_store _ _ s = p_store _ _ s0 ++ added /\
      p_next _ _ s = p_next _ _ s0 + Z.of_nat (length added) /\
      valid_run (p_tbl _ _ s0) (p_next _ _ s0) added = Some (p_tbl _ _ s).

  Lemma good_refl s : good s s.
  Proof. exists []. rewrite app_nil_r. cbn. split; auto. split; [lia|auto]. Qed.

  Lemma consume_good s0 cs : forall s rc s' rc' ill,
    good s0 s -> consume cert tbl validate s cs rc = (s', rc', ill) ->
    good s0 s' /\ (exists taken, cs = taken ++ skipn (length taken) cs /\
        p_store _ _ s' = p_store _ _ s ++ taken /\ rc' = (rc + length taken)%nat /\
        (ill = true -> exists c rest, skipn (length taken) cs = c :: rest /\ validate (p_tbl _ _ s') (p_next _ _ s') c = None) /\
        (ill = false -> taken = cs)).
  Proof.
    induction cs as [|c rest IH]; intros s rc s' rc' ill Hg Hc; cbn [consume] in Hc.
    - inversion Hc; subst. split; auto. exists []. cbn. rewrite app_nil_r.
      repeat split; auto; try lia; try discriminate.
    - destruct (validate (p_tbl _ _ s) (p_next _ _ s) c) as [t'|] eqn:V.
      + apply IH in Hc.
        * destruct Hc as [Hg' [taken [H1 [H2 [H3 [H4 H5]]]]]]. split; auto.
          exists (c :: taken). cbn [length skipn app]. cbn [p_store] in H2. rewrite <- app_assoc in H2.
          split; [f_equal; exact H1|]. split; [exact H2|]. split; [lia|]. split; [exact H4|].
          intros Hi. rewrite (H5 Hi). reflexivity.
        * destruct Hg as [added [A1 [A2 A3]]]. exists (added ++ [c]). cbn [p_store p_next p_tbl].
          rewrite A1, app_assoc. split; auto. split.
          -- rewrite app_length. cbn. lia.
          -- rewrite valid_run_app, A3. cbn [valid_run]. rewrite <- A2, V. reflexivity.
      + inversion Hc; subst. split; auto. exists []. cbn. rewrite app_nil_r.
        split; [reflexivity|]. split; [reflexivity|]. split; [lia|]. split.
        * intros _. exists c, rest. auto.
        * discriminate.
  Qed.

  Theorem poller_stores_valid_prefix responses : forall s st rc s' st' rc',
    poll cert tbl validate s responses st rc = (s', st', rc') -> good s s'.
  Proof.
    induction responses as [|r rest IH]; intros s st rc s' st' rc' H; cbn [poll] in H.
    - inversion H; subst. apply good_refl.
    - destruct r as [[pending cs]|].
      2:{ inversion H; subst. apply good_refl. }
      destruct (consume cert tbl validate s cs rc) as [[s1 rc1] ill] eqn:C.
      pose proof (consume_good s cs s rc s1 rc1 ill (good_refl s) C) as [G _].
      destruct ill. { inversion H; subst. exact G. }
      destruct (pending <=? p_next _ _ s1). { inversion H; subst. exact G. }
      destruct (Nat.eqb rc1 0). { inversion H; subst. exact G. }
      apply IH in H. destruct G as [a1 [A1 [A2 A3]]]. destruct H as [a2 [B1 [B2 B3]]].
      exists (a1 ++ a2). rewrite B1, A1, app_assoc. split; auto. split.
      + rewrite app_length. lia.
      + rewrite valid_run_app, A3. rewrite <- A2. exact B3.
  Qed.

  (* an invalid certificate is never stored and classifies the peer as illegal *)
  Theorem poller_illegal_on_invalid s pending cs rest st rc :
    (exists taken c more, cs = taken ++ c :: more /\
        valid_run (p_tbl _ _ s) (p_next _ _ s) taken <> None /\
        (forall t, valid_run (p_tbl _ _ s) (p_next _ _ s) taken = Some t ->
                   validate t (p_next _ _ s + Z.of_nat (length taken)) c = None)) ->
    snd (fst (poll cert tbl validate s (Some (pending, cs) :: rest) st rc)) = PollIllegal.
  Proof.
    intros [taken [c [more [E [Hv Hn]]]]]. cbn [poll].
    destruct (consume cert tbl validate s cs rc) as [[s1 rc1] ill] eqn:C.
    assert (ill = true).
    { clear st pending rest. subst cs. revert s rc s1 rc1 ill C Hv Hn.
      induction taken as [|x taken IH]; intros s rc s1 rc1 ill C Hv Hn; cbn [app consume] in C.
      - cbn in Hn. specialize (Hn _ eq_refl). replace (p_next _ _ s + 0) with (p_next _ _ s) in Hn by lia.
        rewrite Hn in C. inversion C; auto.
      - cbn [valid_run] in Hv, Hn. destruct (validate (p_tbl _ _ s) (p_next _ _ s) x) as [t'|] eqn:V; [|congruence].
        apply IH in C; auto.
        cbn [p_tbl p_next]. intros t Ht. specialize (Hn t Ht). cbn [length] in Hn.
        replace (p_next _ _ s + 1 + Z.of_nat (length taken)) with (p_next _ _ s + Z.of_nat (S (length taken))) by lia.
        exact Hn. }
    subst ill. reflexivity.
  Qed.
End PollerProofs.

Example serve_examples :
  serve 0 10 3 2 = [3; 4] /\ serve 0 10 3 0 = [] /\ serve 0 10 8 100 = [8; 9] /\ serve 5 10 3 4 = [] /\
  serve 0 10 10 4 = [] /\ length (serve 0 1000 0 18446744073709551615) = 256%nat.
Proof. repeat split; vm_compute; reflexivity. Qed.
