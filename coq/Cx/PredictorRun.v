(* executable helpers used by the C20 correspondence (no proofs here) *)
From Coq Require Import ZArith List Bool.
From F3 Require Import GoInt PredictorGen.
Import ListNotations.
Open Scope Z_scope.

Definition pred_eqb (a b : predictor) : bool :=
  Z.eqb (predictor_minInterval a) (predictor_minInterval b) &&
  Z.eqb (predictor_maxInterval a) (predictor_maxInterval b) &&
  Z.eqb (predictor_interval a) (predictor_interval b) &&
  Bool.eqb (predictor_wasIncreasing a) (predictor_wasIncreasing b) &&
  Z.eqb (predictor_exploreDistance a) (predictor_exploreDistance b) &&
  Z.eqb (predictor_backoff a) (predictor_backoff b).

(* run the model over (progress, observed wait) pairs; None as soon as a wait differs *)
Fixpoint run_pred (p : predictor) (steps : list (Z * Z)) : option predictor :=
  match steps with
  | [] => Some p
  | (progress, wait) :: rest =>
      let '(p', w) := predictor_update p progress in
      if Z.eqb w wait then run_pred p' rest else None
  end.

Definition check_pred (p0 : predictor) (steps : list (Z * Z)) (final : predictor) : bool :=
  match run_pred p0 steps with Some p => pred_eqb p final | None => false end.
