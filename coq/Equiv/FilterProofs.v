From Coq Require Import ZArith List Bool Lia.
From F3 Require Import Filter.
Import ListNotations.
Open Scope Z_scope.

Lemma key_eqb_eq a b : key_eqb a b = true <-> a = b.
Proof.
  destruct a as [[a1 a2] a3], b as [[b1 b2] b3]. unfold key_eqb. rewrite !andb_true_iff, !Z.eqb_eq.
  split; [intros [[-> ->] ->]; auto | intros H; inversion H; auto].
Qed.
Lemma key_eqb_refl a : key_eqb a a = true. Proof. apply key_eqb_eq; auto. Qed.
Lemma key_eqb_neq a b : a <> b -> key_eqb a b = false.
Proof. intros H. destruct (key_eqb a b) eqn:E; auto. apply key_eqb_eq in E. contradiction. Qed.

Lemma act_get_set l s v s' : act_get (act_set l s v) s' = if s =? s' then Some v else act_get l s'.
Proof.
  induction l as [|[t w] r IH]; cbn.
  - destruct (s =? s'); auto.
  - destruct (t =? s) eqn:E; cbn.
    + apply Z.eqb_eq in E. subst t. destruct (s =? s'); auto.
    + rewrite IH. destruct (t =? s') eqn:E2; auto. destruct (s =? s') eqn:E3; auto.
      apply Z.eqb_eq in E2, E3. subst. rewrite Z.eqb_refl in E. discriminate.
Qed.

Section WithLocal.
Variable local : Z.

(* the property's standing assumption: no other node uses our identity, i.e. the filter only ever holds
   entries that originate from this node *)
Definition FInv (f : filt) : Prop :=
  (forall k sg org, seen_get (f_seen f) k = Some (sg, org) -> org = local) /\
  (forall s v, act_get (f_active f) s = Some v -> equivocation v = false /\ origins v = [local]).

Definition sg (f : filt) (k : key) : option Z := option_map fst (seen_get (f_seen f) k).

Lemma FInv_empty c : FInv (mkF c [] []).
Proof. split; cbn; intros; discriminate. Qed.

Lemma add_sender_local v : equivocation v = false /\ origins v = [local] \/ v = mkSenders [] false ->
  add_sender v local false = mkSenders [local] false.
Proof.
  intros [[E O]|E]; [|subst v]; unfold add_sender; cbn.
  - rewrite O, E. cbn. rewrite Z.eqb_refl. reflexivity.
  - reflexivity.
Qed.

(* outcome of ProcessBroadcast, as a function of the abstract view (current instance, slot -> signature) *)
Lemma pb_spec f m : FInv f ->
  let '(f', ok) := process_broadcast local f m in
  FInv f' /\
  ( (m_inst m < f_cur f /\ ok = false /\ f' = f) \/
    (f_cur f < m_inst m /\ ok = true /\ f_cur f' = m_inst m /\
       forall k, sg f' k = if key_eqb (key_of m) k then Some (m_sig m) else None) \/
    (m_inst m = f_cur f /\ sg f (key_of m) = None /\ ok = true /\ f_cur f' = f_cur f /\
       forall k, sg f' k = if key_eqb (key_of m) k then Some (m_sig m) else sg f k) \/
    (m_inst m = f_cur f /\ sg f (key_of m) = Some (m_sig m) /\ ok = true /\ f_cur f' = f_cur f /\ forall k, sg f' k = sg f k) \/
    (m_inst m = f_cur f /\ (exists s, sg f (key_of m) = Some s /\ s <> m_sig m) /\ ok = false /\ f' = f) ).
Proof.
  intros [I1 I2]. unfold process_broadcast.
  destruct (m_inst m <? f_cur f) eqn:E1.
  { apply Z.ltb_lt in E1. split; [split; auto|]. left. auto. }
  apply Z.ltb_ge in E1.
  destruct (f_cur f <? m_inst m) eqn:E2.
  - (* new instance: reset *)
    apply Z.ltb_lt in E2. cbn [f_seen f_active f_cur seen_get act_get].
    rewrite add_sender_local by (right; reflexivity). cbn [equivocation].
    split.
    + split; cbn [f_seen f_active].
      * intros k s o. cbn [seen_get]. destruct (key_eqb (key_of m) k); [intros H; inversion H; auto|discriminate].
      * intros s v. cbn [act_get act_set]. destruct (m_sender m =? s); [intros H; inversion H; auto|discriminate].
    + right; left. split; auto. split; auto. split; auto. intros k. unfold sg. cbn [seen_get f_seen].
      destruct (key_eqb (key_of m) k); reflexivity.
  - apply Z.ltb_ge in E2. assert (Ei : m_inst m = f_cur f) by lia.
    assert (Hact : add_sender (match act_get (f_active f) (m_sender m) with Some s => s | None => mkSenders [] false end) local false
                   = mkSenders [local] false).
    { apply add_sender_local. destruct (act_get (f_active f) (m_sender m)) eqn:A; [left; eapply I2; eauto | right; auto]. }
    destruct (seen_get (f_seen f) (key_of m)) as [[s o]|] eqn:S.
    + pose proof (I1 _ _ _ S) as Ho. subst o. rewrite Z.eqb_refl, andb_true_r.
      destruct (s =? m_sig m) eqn:Es; cbn [negb].
      * apply Z.eqb_eq in Es. subst s. rewrite Hact. cbn [equivocation].
        split.
        -- split; cbn [f_seen f_active]; auto. intros s v. rewrite act_get_set.
           destruct (m_sender m =? s); [intros H; inversion H; auto | apply I2].
        -- right; right; right; left. unfold sg. rewrite S. cbn [option_map fst f_seen f_cur]. auto.
      * apply Z.eqb_neq in Es. split; [split; auto|]. right; right; right; right.
        split; auto. split; [|auto]. exists s. unfold sg. rewrite S. auto.
    + rewrite Hact. cbn [equivocation]. split.
      * split; cbn [f_seen f_active].
        -- intros k s o. cbn [seen_get]. destruct (key_eqb (key_of m) k); [intros H; inversion H; auto | apply I1].
        -- intros s v. rewrite act_get_set. destruct (m_sender m =? s); [intros H; inversion H; auto | apply I2].
      * right; right; left. unfold sg. rewrite S. cbn [option_map f_seen f_cur seen_get]. split; auto. split; auto. split; auto. split; auto.
        intros k. destruct (key_eqb (key_of m) k); reflexivity.
Qed.

(* under the assumption, ProcessReceive of a message whose sender is not one of ours does not touch the filter *)
Lemma pr_foreign f peer m : act_get (f_active f) (m_sender m) = None -> process_receive f peer m = f.
Proof. intros H. unfold process_receive. destruct (negb (m_inst m =? f_cur f)); auto. rewrite H. reflexivity. Qed.

(* ---------- coherence between a filter and a list of logged messages ---------- *)
Definition slot_conflict (a b : msg) : Prop :=
  m_inst a = m_inst b /\ key_of a = key_of b /\ m_sig a <> m_sig b.
Definition conflict_free (l : list msg) : Prop := forall a b, In a l -> In b l -> ~ slot_conflict a b.

(* coherence of a filter with a log, relative to a purge point K: log entries below K may have vanished *)
Definition coherent (K : Z) (f : filt) (l : list msg) : Prop :=
  FInv f /\
  (forall e, In e l -> K <= m_inst e -> m_inst e <= f_cur f) /\
  (forall e, In e l -> K <= m_inst e -> m_inst e = f_cur f -> sg f (key_of e) = Some (m_sig e)) /\
  (K <= f_cur f -> forall k s, sg f k = Some s -> exists e, In e l /\ m_inst e = f_cur f /\ key_of e = k /\ m_sig e = s).

Lemma coherent_empty K : coherent K filt_empty [].
Proof. split; [apply FInv_empty|]. repeat split; cbn; try tauto. intros _ k s H. discriminate. Qed.

(* feeding a logged message x (consistent with what is already logged, not below the purge point) keeps coherence *)
Lemma coherent_step K f l x : coherent K f l -> conflict_free (l ++ [x]) -> K <= m_inst x ->
  coherent K (fst (process_broadcast local f x)) (l ++ [x]).
Proof.
  intros (F & C1 & C2 & C3) CF Hx. pose proof (pb_spec f x F) as S.
  destruct (process_broadcast local f x) as [f' ok]. cbn [fst]. destruct S as [F' S]. split; auto.
  destruct S as [(A & _ & ->)|[(A & _ & B & D)|[(A & N & _ & B & D)|[(A & N & _ & B & D)|(A & (s & N & Ns) & _ & ->)]]]].
  - (* older instance: ignored *)
    repeat split.
    + intros e He Hk. apply in_app_or in He. destruct He as [He|[<-|[]]]; [auto|lia].
    + intros e He Hk Ee. apply in_app_or in He. destruct He as [He|[<-|[]]]; [auto|lia].
    + intros Hc k s Hs. destruct (C3 Hc k s Hs) as [e [He Hr]]. exists e. split; [apply in_or_app; auto|auto].
  - (* newer instance: reset *)
    repeat split.
    + intros e He Hk. rewrite B. apply in_app_or in He. destruct He as [He|[<-|[]]]; [specialize (C1 e He Hk); lia|lia].
    + intros e He Hk Ee. rewrite B in Ee. apply in_app_or in He. destruct He as [He|[<-|[]]].
      * specialize (C1 e He Hk). lia.
      * rewrite D, key_eqb_refl. reflexivity.
    + intros _ k s Hs. rewrite D in Hs. destruct (key_eqb (key_of x) k) eqn:E; [|discriminate]. apply key_eqb_eq in E.
      inversion Hs; subst. exists x. split; [apply in_or_app; right; left; auto|auto].
  - (* same instance, new slot *)
    repeat split.
    + intros e He Hk. rewrite B. apply in_app_or in He. destruct He as [He|[<-|[]]]; [auto|lia].
    + intros e He Hk Ee. rewrite B in Ee. rewrite D. apply in_app_or in He. destruct He as [He|[<-|[]]].
      * destruct (key_eqb (key_of x) (key_of e)) eqn:E; [|auto].
        apply key_eqb_eq in E. specialize (C2 e He Hk Ee). rewrite <- E in C2. congruence.
      * rewrite key_eqb_refl. reflexivity.
    + intros Hc k s Hs. rewrite B in Hc. rewrite D in Hs. destruct (key_eqb (key_of x) k) eqn:E.
      * apply key_eqb_eq in E. inversion Hs; subst. exists x. split; [apply in_or_app; right; left; auto|]. rewrite B. auto.
      * destruct (C3 Hc k s Hs) as [e [He Hr]]. exists e. rewrite B. split; [apply in_or_app; auto|auto].
  - (* same instance, same signature already known *)
    repeat split.
    + intros e He Hk. rewrite B. apply in_app_or in He. destruct He as [He|[<-|[]]]; [auto|lia].
    + intros e He Hk Ee. rewrite B in Ee. rewrite D. apply in_app_or in He. destruct He as [He|[<-|[]]]; auto.
    + intros Hc k s Hs. rewrite B in Hc. rewrite D in Hs. destruct (C3 Hc k s Hs) as [e [He Hr]]. exists e. rewrite B. split; [apply in_or_app; auto|auto].
  - (* conflicting signature for a known slot: impossible for a consistent log *)
    exfalso. destruct (C3 ltac:(lia) _ _ N) as [e [He [E1 [E2 E3]]]].
    apply (CF e x); [apply in_or_app; auto | apply in_or_app; right; left; auto|].
    split; [lia|]. split; auto. congruence.
Qed.

Lemma conflict_free_app_l l x : conflict_free (l ++ [x]) -> conflict_free l.
Proof. intros H a b Ha Hb. apply H; apply in_or_app; auto. Qed.

(* re-arming: replaying ANY consistent log yields a filter coherent with it *)
Lemma replay_coherent_gen l : forall f l0, coherent 0 f l0 -> conflict_free (l0 ++ l) -> Forall (fun m => 0 <= m_inst m) l ->
  coherent 0 (fold_left (fun f m => fst (process_broadcast local f m)) l f) (l0 ++ l).
Proof.
  induction l as [|x l IH]; intros f l0 C CF Hp.
  - rewrite app_nil_r. exact C.
  - cbn [fold_left]. replace (l0 ++ x :: l) with ((l0 ++ [x]) ++ l) by (rewrite <- app_assoc; reflexivity).
    inversion Hp; subst. apply IH; auto.
    + apply coherent_step; auto. intros a b Ha Hb.
      apply CF; apply in_app_or in Ha; apply in_app_or in Hb; apply in_or_app; cbn in *; tauto.
    + rewrite <- app_assoc. exact CF.
Qed.

Theorem replay_coherent l : conflict_free l -> Forall (fun m => 0 <= m_inst m) l -> coherent 0 (replay local l) l.
Proof. intros CF Hp. apply (replay_coherent_gen l filt_empty [] (coherent_empty 0)); auto. Qed.

Lemma pb_cur f m : FInv f -> 0 <= m_inst m ->
  f_cur (fst (process_broadcast local f m)) = Z.max (f_cur f) (m_inst m) /\ FInv (fst (process_broadcast local f m)).
Proof.
  intros F Hm. pose proof (pb_spec f m F) as S. destruct (process_broadcast local f m) as [f' ok]. cbn [fst].
  destruct S as [F' S]. split; auto.
  destruct S as [(A & _ & ->)|[(A & _ & B & D)|[(A & N & _ & B & D)|[(A & N & _ & B & D)|(A & _ & _ & ->)]]]]; lia.
Qed.

Definition maxinst (l : list msg) : Z := fold_left (fun a m => Z.max a (m_inst m)) l 0.

Lemma replay_cur_gen l : forall f, FInv f -> Forall (fun m => 0 <= m_inst m) l ->
  f_cur (fold_left (fun f m => fst (process_broadcast local f m)) l f) = fold_left (fun a m => Z.max a (m_inst m)) l (f_cur f).
Proof.
  induction l as [|x l IH]; intros f F Hp; cbn [fold_left]; auto. inversion Hp; subst.
  destruct (pb_cur f x F H1) as [E F']. rewrite IH; auto. rewrite E. reflexivity.
Qed.
Lemma replay_cur l : Forall (fun m => 0 <= m_inst m) l -> f_cur (replay local l) = maxinst l.
Proof. intros Hp. unfold replay, maxinst. rewrite replay_cur_gen; auto. apply FInv_empty. Qed.

Lemma fold_max_spec l : forall a, a <= fold_left (fun a m => Z.max a (m_inst m)) l a /\
  (forall e, In e l -> m_inst e <= fold_left (fun a m => Z.max a (m_inst m)) l a) /\
  (fold_left (fun a m => Z.max a (m_inst m)) l a = a \/ exists e, In e l /\ m_inst e = fold_left (fun a m => Z.max a (m_inst m)) l a).
Proof.
  induction l as [|x l IH]; intros a; cbn [fold_left].
  - split; [lia|]. split; [intros e []|auto].
  - destruct (IH (Z.max a (m_inst x))) as [I1 [I2 I3]]. split; [lia|]. split.
    + intros e [<-|He]; [lia|auto].
    + destruct I3 as [I3|[e [He Ee]]].
      * destruct (Z_le_gt_dec (m_inst x) a); [left; lia | right; exists x; split; [left; auto|lia]].
      * right. exists e. split; [right; auto|auto].
Qed.

Lemma maxinst_ext l1 l2 : (forall m, In m l1 <-> In m l2) -> maxinst l1 = maxinst l2.
Proof.
  intros H. unfold maxinst. destruct (fold_max_spec l1 0) as [A1 [A2 A3]]. destruct (fold_max_spec l2 0) as [B1 [B2 B3]].
  destruct A3 as [A3|[e [He Ee]]], B3 as [B3|[e' [He' Ee']]]; try lia.
  - specialize (A2 e' (proj2 (H e') He')). lia.
  - specialize (B2 e (proj1 (H e) He)). lia.
  - specialize (A2 e' (proj2 (H e') He')). specialize (B2 e (proj1 (H e) He)). lia.
Qed.

(* the re-armed filter depends only on WHICH messages are logged, not on their order (so mis-ordered
   file names are harmless) *)
Theorem replay_perm_invariant l1 l2 : conflict_free l1 -> Forall (fun m => 0 <= m_inst m) l1 ->
  (forall m, In m l1 <-> In m l2) -> Forall (fun m => 0 <= m_inst m) l2 ->
  f_cur (replay local l1) = f_cur (replay local l2) /\ forall k, sg (replay local l1) k = sg (replay local l2) k.
Proof.
  intros CF1 P1 Hiff P2.
  assert (CF2 : conflict_free l2). { intros a b Ha Hb. apply CF1; apply Hiff; auto. }
  destruct (replay_coherent l1 CF1 P1) as (_ & A1 & A2 & A3).
  destruct (replay_coherent l2 CF2 P2) as (_ & B1 & B2 & B3).
  assert (Ec : f_cur (replay local l1) = f_cur (replay local l2)).
  { rewrite !replay_cur by auto. apply maxinst_ext; auto. }
  split; auto. intros k.
  assert (Hpos1 : forall e, In e l1 -> 0 <= m_inst e) by (apply Forall_forall; auto).
  assert (Hpos2 : forall e, In e l2 -> 0 <= m_inst e) by (apply Forall_forall; auto).
  assert (Hc1 : 0 <= f_cur (replay local l1)). { rewrite replay_cur by auto. apply (fold_max_spec l1 0). }
  assert (Hc2 : 0 <= f_cur (replay local l2)). { rewrite replay_cur by auto. apply (fold_max_spec l2 0). }
  destruct (sg (replay local l1) k) as [s1|] eqn:S1, (sg (replay local l2) k) as [s2|] eqn:S2; auto.
  - destruct (A3 Hc1 k s1 S1) as [e [He [E1 [E2 E3]]]]. rewrite Ec in E1.
    pose proof (B2 e (proj1 (Hiff e) He) (Hpos2 e (proj1 (Hiff e) He)) E1) as Q. rewrite E2, S2 in Q. congruence.
  - destruct (A3 Hc1 k s1 S1) as [e [He [E1 [E2 E3]]]]. rewrite Ec in E1.
    pose proof (B2 e (proj1 (Hiff e) He) (Hpos2 e (proj1 (Hiff e) He)) E1) as Q. rewrite E2, S2 in Q. discriminate.
  - destruct (B3 Hc2 k s2 S2) as [e [He [E1 [E2 E3]]]]. rewrite <- Ec in E1.
    pose proof (A2 e (proj2 (Hiff e) He) (Hpos1 e (proj2 (Hiff e) He)) E1) as Q. rewrite E2, S1 in Q. discriminate.
Qed.

(* ---------- host: every history of requests, rebroadcasts, crashes, restarts and purges ---------- *)
Definition nondecreasing (l : list msg) : Prop :=
  forall i j a b, (i <= j)%nat -> nth_error l i = Some a -> nth_error l j = Some b -> m_inst a <= m_inst b.

(* ops allowed by the property's assumptions: our own messages (non-negative instance), never a request for an
   instance below a purge point (the node only purges instances it has left behind: host.go purges cert-5),
   received messages carry a foreign sender *)
Definition op_ok (ours : Z -> bool) (h : host) (o : hop) : Prop :=
  match o with
  | HBroadcast m | HCrashAfterFilter m | HCrashAfterWal m | HRebroadcast m => ours (m_sender m) = true /\ h_keep h <= m_inst m /\ 0 <= m_inst m
  | HReceive _ m => ours (m_sender m) = false
  | HPurge k _ => 0 <= k
  | HRestart => True
  end.

Record HInv (ours : Z -> bool) (h : host) : Prop := {
  hi_coh : coherent (h_keep h) (h_f h) (h_ever h);
  hi_sender : forall e, In e (h_ever h) -> ours (m_sender e) = true;
  hi_pos : Forall (fun m => 0 <= m_inst m) (h_ever h);
  hi_ours : (forall s v, act_get (f_active (h_f h)) s = Some v -> ours s = true);
  hi_walever : incl (h_wal h) (h_ever h);
  hi_kept : forall e, In e (h_ever h) -> h_keep h <= m_inst e -> In e (h_wal h);
  hi_cf : conflict_free (h_ever h);
  hi_wire : incl (h_wire h) (h_ever h);
  hi_mono : nondecreasing (h_wire h);
  hi_bound : forall w, In w (h_wire h) -> m_inst w <= Z.max (f_cur (h_f h)) (h_keep h - 1);
  hi_keep : 0 <= h_keep h;
}.

Lemma msg_eqb_eq a b : msg_eqb a b = true -> a = b.
Proof.
  unfold msg_eqb. rewrite !andb_true_iff, !Z.eqb_eq, key_eqb_eq. intros [[A B] C].
  destruct a, b; cbn in *. unfold key_of in B; cbn in B. inversion B; subst. reflexivity.
Qed.

Lemma pb_active f m s v : act_get (f_active (fst (process_broadcast local f m))) s = Some v ->
  s = m_sender m \/ exists v', act_get (f_active f) s = Some v'.
Proof.
  unfold process_broadcast. destruct (m_inst m <? f_cur f); cbn [fst]; [eauto|].
  destruct (f_cur f <? m_inst m); cbn [f_seen f_active f_cur seen_get act_get].
  - cbn [fst f_active]. rewrite act_get_set. destruct (m_sender m =? s) eqn:E; [apply Z.eqb_eq in E; auto|discriminate].
  - destruct (seen_get (f_seen f) (key_of m)) as [[sg0 org]|].
    + destruct (negb (sg0 =? m_sig m) && (org =? local)); cbn [fst f_active]; [eauto|].
      rewrite act_get_set. destruct (m_sender m =? s) eqn:E; [apply Z.eqb_eq in E; auto|eauto].
    + cbn [fst f_active]. rewrite act_get_set. destruct (m_sender m =? s) eqn:E; [apply Z.eqb_eq in E; auto|eauto].
Qed.

Lemma replay_active_gen l : forall f s v,
  act_get (f_active (fold_left (fun f m => fst (process_broadcast local f m)) l f)) s = Some v ->
  (exists e, In e l /\ m_sender e = s) \/ exists v', act_get (f_active f) s = Some v'.
Proof.
  induction l as [|x l IH]; intros f s v H; cbn [fold_left] in H; [eauto|].
  apply IH in H. destruct H as [[e [He Es]]|[v' Hv]].
  - left. exists e. split; [right; auto|auto].
  - apply pb_active in Hv. destruct Hv as [->|Hv]; [left; exists x; split; [left|]; auto | right; auto].
Qed.

Lemma purge_wal_incl k l : forall d, incl (purge_wal k l d) l.
Proof.
  induction l as [|m r IH]; intros d x Hx; cbn in Hx; [destruct Hx|].
  destruct d as [|b ds]; cbn in Hx.
  - destruct Hx as [<-|Hx]; [left; auto | right; eapply IH; eauto].
  - destruct (b && (m_inst m <? k)); [right; eapply IH; eauto|]. destruct Hx as [<-|Hx]; [left; auto | right; eapply IH; eauto].
Qed.
Lemma purge_wal_keeps k l : forall d e, In e l -> k <= m_inst e -> In e (purge_wal k l d).
Proof.
  induction l as [|m r IH]; intros d e He Hk; [destruct He|]. cbn.
  destruct d as [|b ds]; cbn.
  - destruct He as [->|He]; [left; auto | right; apply IH; auto].
  - destruct He as [->|He].
    + assert (m_inst e <? k = false) as -> by (apply Z.ltb_ge; lia). rewrite andb_false_r. left; auto.
    + destruct (b && (m_inst m <? k)); [|right]; apply IH; auto.
Qed.

Lemma coherent_weaken K K' f l : K <= K' -> coherent K f l -> coherent K' f l.
Proof.
  intros HK (F & C1 & C2 & C3). split; auto. repeat split.
  - intros e He Hk. apply C1; auto; lia.
  - intros e He Hk. apply C2; auto; lia.
  - intros Hc. apply C3. lia.
Qed.

Lemma coherent_lift K f wal ever : 0 <= K -> incl wal ever -> (forall e, In e ever -> K <= m_inst e -> In e wal) ->
  coherent 0 f wal -> coherent K f ever.
Proof.
  intros HK Hi Hk (F & C1 & C2 & C3). split; auto. repeat split.
  - intros e He Hke. apply C1; auto. lia.
  - intros e He Hke. apply C2; auto. lia.
  - intros Hc k s Hs. destruct (C3 ltac:(lia) k s Hs) as [e [He Hr]]. exists e. split; auto.
Qed.

Lemma nondecreasing_snoc l m : nondecreasing l -> (forall w, In w l -> m_inst w <= m_inst m) -> nondecreasing (l ++ [m]).
Proof.
  intros Hn Hb i j a b Hij Ha Hb'.
  destruct (Nat.lt_ge_cases j (length l)) as [Hj|Hj].
  - rewrite nth_error_app1 in Ha by lia. rewrite nth_error_app1 in Hb' by lia. exact (Hn i j a b Hij Ha Hb').
  - rewrite nth_error_app2 in Hb' by lia. destruct (j - length l)%nat as [|n] eqn:En; cbn in Hb'; [|destruct n; discriminate].
    inversion Hb'; subst b.
    destruct (Nat.lt_ge_cases i (length l)) as [Hi|Hi].
    + rewrite nth_error_app1 in Ha by lia. apply Hb. eapply nth_error_In; eauto.
    + rewrite nth_error_app2 in Ha by lia. destruct (i - length l)%nat as [|n'] eqn:En'; cbn in Ha; [|destruct n'; discriminate].
      inversion Ha; subst. lia.
Qed.

Lemma conflict_free_incl l l' : incl l l' -> conflict_free l' -> conflict_free l.
Proof. intros Hi H a b Ha Hb. apply H; auto. Qed.

Variable ours : Z -> bool.

Lemma HInv_init : HInv ours host_init.
Proof.
  constructor; cbn.
  - apply coherent_empty.
  - intros e [].
  - constructor.
  - intros s v H; discriminate.
  - intros x [].
  - intros e [].
  - intros a b [].
  - intros x [].
  - intros i j a b _ Ha; destruct i; discriminate.
  - intros w [].
  - lia.
Qed.

(* accepting m (not below the purge point) keeps the ghost log consistent *)
Lemma accept_conflict_free h m f' : HInv ours h -> h_keep h <= m_inst m ->
  process_broadcast local (h_f h) m = (f', true) -> conflict_free (h_ever h ++ [m]).
Proof.
  intros I Hk Hp. destruct (hi_coh _ _ I) as (F & C1 & C2 & C3).
  pose proof (pb_spec (h_f h) m F) as S. rewrite Hp in S. destruct S as [_ S].
  assert (Hone : forall e, In e (h_ever h) -> ~ slot_conflict e m /\ ~ slot_conflict m e).
  { intros e He. assert (G : m_inst e = m_inst m -> key_of e = key_of m -> m_sig e = m_sig m).
    { intros Ei Ek. assert (Hke : h_keep h <= m_inst e) by lia.
      destruct S as [(A & B & _)|[(A & _)|[(A & N & _)|[(A & N & _)|(_ & _ & B & _)]]]]; try discriminate.
      - specialize (C1 e He Hke). lia.
      - specialize (C2 e He Hke ltac:(lia)). rewrite Ek, N in C2. discriminate.
      - specialize (C2 e He Hke ltac:(lia)). rewrite Ek, N in C2. congruence. }
    split; intros (A & B & C); apply C; [|symmetry]; apply G; auto. }
  intros a b Ha Hb. apply in_app_or in Ha. apply in_app_or in Hb.
  destruct Ha as [Ha|[<-|[]]], Hb as [Hb|[<-|[]]].
  - apply (hi_cf _ _ I); auto.
  - apply Hone; auto.
  - apply Hone; auto.
  - intros (_ & _ & C). congruence.
Qed.

Lemma restart_inv h wal ever : HInv ours h -> incl wal ever -> (forall e, In e ever -> h_keep h <= m_inst e -> In e wal) ->
  conflict_free ever -> Forall (fun m => 0 <= m_inst m) ever -> (forall e, In e ever -> ours (m_sender e) = true) ->
  incl (h_wire h) ever ->
  HInv ours (mkH (replay local wal) wal (h_wire h) ever (h_keep h)).
Proof.
  intros I Hi Hk CF Hp Hs Hw.
  assert (Hpw : Forall (fun m => 0 <= m_inst m) wal). { rewrite Forall_forall in *. intros x Hx. apply Hp, Hi, Hx. }
  pose proof (replay_coherent wal (conflict_free_incl _ _ Hi CF) Hpw) as RC.
  constructor; cbn [h_f h_wal h_wire h_ever h_keep]; auto.
  - apply (coherent_lift _ _ wal ever); auto. apply (hi_keep _ _ I).
  - intros s v Hv. apply replay_active_gen in Hv. destruct Hv as [[e [He <-]]|[v' Hv']]; [apply Hs, Hi, He | discriminate].
  - apply (hi_mono _ _ I).
  - intros w Hwi. destruct (Z_le_gt_dec (h_keep h) (m_inst w)) as [Hge|Hlt]; [|lia].
    destruct RC as (_ & C1 & _). specialize (C1 w (Hk w (Hw w Hwi) Hge) ltac:(rewrite Forall_forall in Hp; apply Hp, Hw, Hwi)). lia.
  - apply (hi_keep _ _ I).
Qed.

(* THE invariant step: every operation allowed by the property's assumptions preserves HInv *)
Theorem hstep_inv h o : HInv ours h -> op_ok ours h o -> HInv ours (hstep local h o).
Proof.
  intros I Hok. destruct o as [m|m|m|m| |k dropped|peer m]; cbn [hstep op_ok] in *.
  - (* broadcast *)
    destruct Hok as (Ho & Hk & Hp).
    destruct (process_broadcast local (h_f h) m) as [f' ok] eqn:P. destruct ok.
    + pose proof (accept_conflict_free h m f' I Hk P) as CF.
      assert (Ef : f' = fst (process_broadcast local (h_f h) m)) by (rewrite P; reflexivity).
      destruct (hi_coh _ _ I) as (F & C1 & C2 & C3).
      pose proof (pb_spec (h_f h) m F) as S. rewrite P in S. destruct S as [F' S].
      assert (Hcur : f_cur f' = Z.max (f_cur (h_f h)) (m_inst m) /\ f_cur (h_f h) <= m_inst m).
      { destruct S as [(A & B & _)|[(A & _ & B & _)|[(A & _ & _ & B & _)|[(A & _ & _ & B & _)|(_ & _ & B & _)]]]]; try discriminate; lia. }
      constructor; cbn [h_f h_wal h_wire h_ever h_keep].
      * rewrite Ef. apply coherent_step; auto. apply (hi_coh _ _ I).
      * intros e He. apply in_app_or in He. destruct He as [He|[<-|[]]]; [apply (hi_sender _ _ I); auto|auto].
      * apply Forall_app. split; [apply (hi_pos _ _ I)|constructor; auto].
      * intros s v Hv. rewrite Ef in Hv. apply pb_active in Hv. destruct Hv as [->|[v' Hv]]; auto. eapply (hi_ours _ _ I); eauto.
      * intros e He. apply in_app_or in He. apply in_or_app. destruct He as [He|He]; [left; apply (hi_walever _ _ I); auto|auto].
      * intros e He Hke. apply in_app_or in He. apply in_or_app. destruct He as [He|He]; [left; apply (hi_kept _ _ I); auto|auto].
      * exact CF.
      * intros e He. apply in_app_or in He. apply in_or_app. destruct He as [He|He]; [left; apply (hi_wire _ _ I); auto|auto].
      * apply nondecreasing_snoc; [apply (hi_mono _ _ I)|]. intros w Hw. pose proof (hi_bound _ _ I w Hw). lia.
      * intros w Hw. apply in_app_or in Hw. destruct Hw as [Hw|[<-|[]]]; [pose proof (hi_bound _ _ I w Hw); lia | lia].
      * apply (hi_keep _ _ I).
    + (* rejected: the filter is unchanged *)
      destruct (hi_coh _ _ I) as (F & _). pose proof (pb_spec (h_f h) m F) as S. rewrite P in S. destruct S as [_ S].
      assert (f' = h_f h) as ->.
      { destruct S as [(_ & _ & E)|[(_ & B & _)|[(_ & _ & B & _)|[(_ & _ & B & _)|(_ & _ & _ & E)]]]]; try discriminate; auto. }
      destruct h; exact I.
  - (* crash after the filter accepted, before the WAL append: nothing durable happened *)
    destruct h as [f wal wire ever keep]. apply (restart_inv _ wal ever I); try apply I.
  - (* crash after the WAL append, before publishing *)
    destruct Hok as (Ho & Hk & Hp).
    destruct (process_broadcast local (h_f h) m) as [f' ok] eqn:P. destruct ok.
    + pose proof (accept_conflict_free h m f' I Hk P) as CF.
      apply (restart_inv h (h_wal h ++ [m]) (h_ever h ++ [m]) I).
      * intros e He. apply in_app_or in He. apply in_or_app. destruct He as [He|He]; [left; apply (hi_walever _ _ I); auto|auto].
      * intros e He Hke. apply in_app_or in He. apply in_or_app. destruct He as [He|He]; [left; apply (hi_kept _ _ I); auto|auto].
      * exact CF.
      * apply Forall_app. split; [apply (hi_pos _ _ I)|constructor; auto].
      * intros e He. apply in_app_or in He. destruct He as [He|[<-|[]]]; [apply (hi_sender _ _ I); auto|auto].
      * intros e He. apply in_or_app. left. apply (hi_wire _ _ I); auto.
    + apply (restart_inv h (h_wal h) (h_ever h) I); apply I.
  - (* rebroadcast of a logged message *)
    destruct Hok as (Ho & Hk & Hp).
    destruct (existsb (msg_eqb m) (h_wal h)) eqn:Ex; [|exact I].
    apply existsb_exists in Ex. destruct Ex as [e [He Ee]]. apply msg_eqb_eq in Ee. subst e.
    pose proof (hi_walever _ _ I m He) as Hev.
    destruct (process_broadcast local (h_f h) m) as [f' ok] eqn:P.
    destruct (hi_coh _ _ I) as (F & C1 & C2 & C3).
    pose proof (pb_spec (h_f h) m F) as S. rewrite P in S. destruct S as [F' S].
    pose proof (C1 m Hev Hk) as Hle.
    destruct S as [(A & B & E)|[(A & _)|[(A & N & _)|[(A & N & B & Bc & D)|(A & (s & N & Ns) & B & E)]]]]; try lia.
    + subst ok f'. destruct h; exact I.
    + pose proof (C2 m Hev Hk A) as Q. rewrite N in Q. discriminate.
    + subst ok. constructor; cbn [h_f h_wal h_wire h_ever h_keep]; try apply I.
      * split; auto. repeat split.
        -- intros e He' Hke. rewrite Bc. apply C1; auto.
        -- intros e He' Hke Ee. rewrite Bc in Ee. rewrite D. apply C2; auto.
        -- intros Hc k s Hs. rewrite Bc in *. rewrite D in Hs. apply C3; auto.
      * intros s v Hv. assert (Ef : f' = fst (process_broadcast local (h_f h) m)) by (rewrite P; reflexivity).
        rewrite Ef in Hv. apply pb_active in Hv. destruct Hv as [->|[v' Hv]]; auto. eapply (hi_ours _ _ I); eauto.
      * intros e He'. apply in_app_or in He'. destruct He' as [He'|[<-|[]]]; [apply (hi_wire _ _ I); auto|auto].
      * apply nondecreasing_snoc; [apply (hi_mono _ _ I)|]. intros w Hw. pose proof (hi_bound _ _ I w Hw). lia.
      * intros w Hw. apply in_app_or in Hw. destruct Hw as [Hw|[<-|[]]]; [pose proof (hi_bound _ _ I w Hw); lia | lia].
    + pose proof (C2 m Hev Hk A) as Q. rewrite N in Q. congruence.
  - (* restart *)
    destruct h as [f wal wire ever keep]. apply (restart_inv _ wal ever I); try apply I.
  - (* purge *)
    constructor; cbn [h_f h_wal h_wire h_ever h_keep]; try apply I.
    + eapply coherent_weaken; [|apply (hi_coh _ _ I)]. lia.
    + intros e He. apply (hi_walever _ _ I). eapply purge_wal_incl; eauto.
    + intros e He Hke. apply purge_wal_keeps; [|lia]. apply (hi_kept _ _ I); auto. lia.
    + intros w Hw. pose proof (hi_bound _ _ I w Hw). lia.
    + pose proof (hi_keep _ _ I). lia.
  - (* receive from a foreign identity: the filter ignores it *)
    rewrite pr_foreign. { destruct h; exact I. }
    destruct (act_get (f_active (h_f h)) (m_sender m)) eqn:A; auto. pose proof (hi_ours _ _ I _ _ A). congruence.
Qed.

(* all histories *)
Inductive reachable : host -> Prop :=
| reach_init : reachable host_init
| reach_step h o : reachable h -> op_ok ours h o -> reachable (hstep local h o).

Theorem reachable_inv h : reachable h -> HInv ours h.
Proof. induction 1; [apply HInv_init | apply hstep_inv; auto]. Qed.

(* never two differently signed messages for one (instance, sender, round, step) on the wire *)
Theorem wire_no_equivocation h : reachable h -> conflict_free (h_wire h).
Proof. intros R. pose proof (reachable_inv h R) as I. eapply conflict_free_incl; [apply (hi_wire _ _ I) | apply (hi_cf _ _ I)]. Qed.

(* never a message for an instance older than one already broadcast for *)
Theorem wire_no_older_instance h : reachable h -> nondecreasing (h_wire h).
Proof. intros R. apply (hi_mono _ _ (reachable_inv h R)). Qed.

(* everything on the wire was logged before it was published *)
Theorem wire_logged_first h : reachable h -> incl (h_wire h) (h_ever h).
Proof. intros R. apply (hi_wire _ _ (reachable_inv h R)). Qed.
End WithLocal.
