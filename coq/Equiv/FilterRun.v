(* executable checkers for the C12 correspondence *)
From Coq Require Import ZArith List Bool.
From F3 Require Import Filter.
Import ListNotations.
Open Scope Z_scope.

Inductive fop := FB (m : msg) | FR (peer : Z) (m : msg).

(* run the filter, returning the verdict of every broadcast (receives yield true) *)
Fixpoint frun (local : Z) (f : filt) (ops : list fop) : list bool :=
  match ops with
  | [] => []
  | FB m :: r => let '(f', ok) := process_broadcast local f m in ok :: frun local f' r
  | FR p m :: r => true :: frun local (process_receive f p m) r
  end.
Fixpoint bl_eqb (a b : list bool) : bool :=
  match a, b with [] , [] => true | x :: a', y :: b' => Bool.eqb x y && bl_eqb a' b' | _, _ => false end.
Definition filter_ok (local : Z) (ops : list fop) (exp : list bool) : bool := bl_eqb (frun local filt_empty ops) exp.

Fixpoint ml_eqb (a b : list msg) : bool :=
  match a, b with [], [] => true | x :: a', y :: b' => msg_eqb x y && ml_eqb a' b' | _, _ => false end.
(* host: compare the wire and the WAL contents *)
Definition host_ok (local : Z) (ops : list hop) (wire wal : list msg) : bool :=
  let h := hrun local ops in ml_eqb (h_wire h) wire && ml_eqb (h_wal h) wal.

(* per-operation number of messages reaching the wire, for the correspondence with the REAL runner *)
Fixpoint hcounts (local : Z) (h : host) (ops : list hop) : list Z :=
  match ops with
  | [] => []
  | o :: r => let h' := hstep local h o in
              (Z.of_nat (length (h_wire h')) - Z.of_nat (length (h_wire h))) :: hcounts local h' r
  end.
Fixpoint zlist_eqb (a b : list Z) : bool :=
  match a, b with [] , [] => true | x :: a', y :: b' => (x =? y) && zlist_eqb a' b' | _, _ => false end.
Definition hostrun_ok (local : Z) (ops : list hop) (counts : list Z) (wal : list msg) : bool :=
  zlist_eqb (hcounts local host_init ops) counts && ml_eqb (h_wal (hrun local ops)) wal.
