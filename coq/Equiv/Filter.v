(* C12 model (no proofs): the equivocation filter (equivocation.go) and the host's broadcast path
   (host.go: filter -> WAL append -> publish; rebroadcast: filter -> publish; restart: replay the WAL). *)
From Coq Require Import ZArith List Bool.
Import ListNotations.
Open Scope Z_scope.

Record msg := mkMsg { m_inst : Z; m_sender : Z; m_round : Z; m_phase : Z; m_sig : Z }.
Definition key := (Z * Z * Z)%type.                        (* sender, round, phase *)
Definition key_of (m : msg) : key := (m_sender m, m_round m, m_phase m).
Definition key_eqb (a b : key) : bool :=
  let '(a1, a2, a3) := a in let '(b1, b2, b3) := b in (a1 =? b1) && (a2 =? b2) && (a3 =? b3).
Definition msg_eqb (a b : msg) : bool :=
  (m_inst a =? m_inst b) && key_eqb (key_of a) (key_of b) && (m_sig a =? m_sig b).

Record senders := mkSenders { origins : list Z; equivocation : bool }.
Record filt := mkF {
  f_cur : Z;
  f_seen : list (key * (Z * Z));      (* slot -> (signature, origin peer) *)
  f_active : list (Z * senders);      (* sender -> peers seen sending for it *)
}.
Definition filt_empty : filt := mkF 0 [] [].

Fixpoint seen_get (l : list (key * (Z * Z))) (k : key) : option (Z * Z) :=
  match l with [] => None | (k', v) :: r => if key_eqb k' k then Some v else seen_get r k end.
Fixpoint act_get (l : list (Z * senders)) (s : Z) : option senders :=
  match l with [] => None | (s', v) :: r => if s' =? s then Some v else act_get r s end.
Fixpoint act_set (l : list (Z * senders)) (s : Z) (v : senders) : list (Z * senders) :=
  match l with [] => [(s, v)] | (s', v') :: r => if s' =? s then (s, v) :: r else (s', v') :: act_set r s v end.

Fixpoint insert_sorted (x : Z) (l : list Z) : list Z :=
  match l with [] => [x] | y :: r => if x <? y then x :: l else y :: insert_sorted x r end.
Definition memz (x : Z) (l : list Z) : bool := existsb (Z.eqb x) l.
(* equivSenders.addSender: append, truncate to 10, sort *)
Definition add_sender (es : senders) (id : Z) (eq : bool) : senders :=
  let o := if memz id (origins es) then origins es
           else fold_right insert_sorted [] (firstn 10 (origins es ++ [id])) in
  mkSenders o (equivocation es || eq).

(* ProcessBroadcast *)
Definition process_broadcast (local : Z) (f : filt) (m : msg) : filt * bool :=
  if m_inst m <? f_cur f then (f, false) else
  let f := if f_cur f <? m_inst m then mkF (m_inst m) [] [] else f in
  let k := key_of m in
  match seen_get (f_seen f) k with
  | Some (sg, org) =>
      if negb (sg =? m_sig m) && (org =? local) then (f, false) else
      let detected := negb (sg =? m_sig m) in
      let s := add_sender (match act_get (f_active f) (m_sender m) with Some s => s | None => mkSenders [] false end) local detected in
      let f' := mkF (f_cur f) (f_seen f) (act_set (f_active f) (m_sender m) s) in
      (f', if equivocation s then (match origins s with o :: _ => o =? local | [] => false end) else true)
  | None =>
      let s := add_sender (match act_get (f_active f) (m_sender m) with Some s => s | None => mkSenders [] false end) local false in
      let f' := mkF (f_cur f) ((k, (m_sig m, local)) :: f_seen f) (act_set (f_active f) (m_sender m) s) in
      (f', if equivocation s then (match origins s with o :: _ => o =? local | [] => false end) else true)
  end.

(* ProcessReceive *)
Definition process_receive (f : filt) (peer : Z) (m : msg) : filt :=
  if negb (m_inst m =? f_cur f) then f else
  match act_get (f_active f) (m_sender m) with
  | None => f
  | Some s =>
      let k := key_of m in
      match seen_get (f_seen f) k with
      | Some (sg, _) =>
          if negb (sg =? m_sig m) then mkF (f_cur f) (f_seen f) (act_set (f_active f) (m_sender m) (add_sender s peer true)) else f
      | None => mkF (f_cur f) ((k, (m_sig m, peer)) :: f_seen f) (f_active f)
      end
  end.

(* ---------- host ---------- *)
Record host := mkH { h_f : filt; h_wal : list msg; h_wire : list msg; h_ever : list msg (* ghost: everything ever logged *) ;
                     h_keep : Z (* ghost: highest purge point so far *) }.
Definition host_init : host := mkH filt_empty [] [] [] 0.

Inductive hop :=
| HBroadcast (m : msg)                 (* filter, WAL append, publish *)
| HCrashAfterFilter (m : msg)          (* process dies after the filter said yes, before the WAL append *)
| HCrashAfterWal (m : msg)             (* ... after the WAL append, before publish *)
| HRebroadcast (m : msg)               (* of a message held in the self-message table: filter, publish *)
| HRestart                             (* fresh filter re-armed by replaying the WAL *)
| HPurge (keep : Z) (dropped : list bool)   (* WAL purge: entries below keep MAY disappear (per-entry flags) *)
| HReceive (peer : Z) (m : msg).

Definition replay (local : Z) (l : list msg) : filt :=
  fold_left (fun f m => fst (process_broadcast local f m)) l filt_empty.

Fixpoint purge_wal (keep : Z) (l : list msg) (dropped : list bool) : list msg :=
  match l with
  | [] => []
  | m :: r =>
      let '(d, ds) := match dropped with [] => (false, []) | d :: ds => (d, ds) end in
      if d && (m_inst m <? keep) then purge_wal keep r ds else m :: purge_wal keep r ds
  end.

Definition hstep (local : Z) (h : host) (o : hop) : host :=
  match o with
  | HBroadcast m =>
      let '(f, ok) := process_broadcast local (h_f h) m in
      if ok then mkH f (h_wal h ++ [m]) (h_wire h ++ [m]) (h_ever h ++ [m]) (h_keep h)
      else mkH f (h_wal h) (h_wire h) (h_ever h) (h_keep h)
  | HCrashAfterFilter m => mkH (replay local (h_wal h)) (h_wal h) (h_wire h) (h_ever h) (h_keep h)
  | HCrashAfterWal m =>
      let '(f, ok) := process_broadcast local (h_f h) m in
      let wal := if ok then h_wal h ++ [m] else h_wal h in
      mkH (replay local wal) wal (h_wire h) (if ok then h_ever h ++ [m] else h_ever h) (h_keep h)
  | HRebroadcast m =>
      if existsb (msg_eqb m) (h_wal h) then
        let '(f, ok) := process_broadcast local (h_f h) m in
        mkH f (h_wal h) (if ok then h_wire h ++ [m] else h_wire h) (h_ever h) (h_keep h)
      else h
  | HRestart => mkH (replay local (h_wal h)) (h_wal h) (h_wire h) (h_ever h) (h_keep h)
  | HPurge keep dropped => mkH (h_f h) (purge_wal keep (h_wal h) dropped) (h_wire h) (h_ever h) (Z.max (h_keep h) keep)
  | HReceive peer m => mkH (process_receive (h_f h) peer m) (h_wal h) (h_wire h) (h_ever h) (h_keep h)
  end.
Definition hrun (local : Z) (ops : list hop) : host := fold_left (hstep local) ops host_init.
