From Coq Require Import ZArith List Bool Lia.
From F3 Require Import GoInt QuorumGen QuorumProofs Table Validate.
Import ListNotations.
Open Scope Z_scope.

(* what acceptance of ONE certificate means, stated independently of the order of checks *)
Definition cert_ok toks net (s : vstate) (c : cert) (s' : vstate) : Prop :=
  c_inst c = v_next s /\
  chain_valid (c_chain c) = true /\
  (exists b suffix, c_chain c = b :: suffix /\
      (forall bs, v_base s = Some bs -> tipset_eqb bs b = true) /\
      verify_sig (v_prev s) net c = None /\
      exists nt, apply_diff (v_prev s) (c_delta c) = inr nt /\ cid_token toks nt = c_pt c /\
        s' = mkV (v_next s + 1) (v_chain s ++ suffix) nt (Some nt) (Some (last (c_chain c) b))).

Lemma validate_one_ok toks net s c s' :
  validate_one toks net s c = inr s' <-> cert_ok toks net s c s'.
Proof.
  unfold validate_one, cert_ok. split.
  - intros H.
    destruct (c_inst c =? v_next s) eqn:E1; cbn [negb] in H; [|discriminate]. apply Z.eqb_eq in E1.
    destruct (chain_valid (c_chain c)) eqn:E2; cbn [negb] in H; [|discriminate].
    destruct (c_chain c) as [|b suffix] eqn:E3; [discriminate|].
    destruct (v_base s) as [bs|] eqn:E4.
    + destruct (tipset_eqb bs b) eqn:E5; cbn [negb] in H; [|discriminate].
      destruct (verify_sig (v_prev s) net c) eqn:E6; [discriminate|].
      destruct (apply_diff (v_prev s) (c_delta c)) as [e|nt] eqn:E7; [discriminate|].
      destruct (cid_token toks nt =? c_pt c) eqn:E8; cbn [negb] in H; [|discriminate]. apply Z.eqb_eq in E8.
      inversion H; subst s'. split; auto. split; auto. exists b, suffix. split; auto. split.
      { intros bs' Hb. inversion Hb; subst; auto. }
      split; auto. exists nt. auto.
    + destruct (verify_sig (v_prev s) net c) eqn:E6; [discriminate|].
      destruct (apply_diff (v_prev s) (c_delta c)) as [e|nt] eqn:E7; [discriminate|].
      destruct (cid_token toks nt =? c_pt c) eqn:E8; cbn [negb] in H; [|discriminate]. apply Z.eqb_eq in E8.
      inversion H; subst s'. split; auto. split; auto. exists b, suffix. split; auto. split.
      { intros bs' Hb. discriminate. }
      split; auto. exists nt. auto.
  - intros (H1 & H2 & b & suffix & H3 & H4 & H5 & nt & H6 & H7 & H8).
    rewrite H1, Z.eqb_refl, H2, H3. cbn [negb].
    destruct (v_base s) as [bs|] eqn:E4.
    + rewrite (H4 bs eq_refl). cbn [negb]. rewrite <- H3, H5, H6, H7, Z.eqb_refl. cbn [negb]. rewrite H3 in H8. subst s'. rewrite H3. reflexivity.
    + rewrite <- H3, H5, H6, H7, Z.eqb_refl. cbn [negb]. rewrite H3 in H8. subst s'. rewrite H3. reflexivity.
Qed.

(* a run of accepted certificates *)
Inductive accepted toks net : vstate -> list cert -> vstate -> Prop :=
| acc_nil s : accepted toks net s [] s
| acc_cons s c s1 cs s2 : cert_ok toks net s c s1 -> accepted toks net s1 cs s2 -> accepted toks net s (c :: cs) s2.

Theorem validate_sound toks net cs : forall s s',
  validate_loop toks net s cs = (None, s') -> accepted toks net s cs s'.
Proof.
  induction cs as [|c cs IH]; intros s s' H; cbn [validate_loop] in H.
  - inversion H; subst. constructor.
  - destruct (validate_one toks net s c) as [e|s1] eqn:E; [discriminate|].
    apply validate_one_ok in E. econstructor; eauto.
Qed.

Theorem validate_complete toks net cs : forall s s',
  accepted toks net s cs s' -> validate_loop toks net s cs = (None, s').
Proof.
  intros s s' H. induction H; cbn [validate_loop]; auto.
  apply validate_one_ok in H. rewrite H. exact IHaccepted.
Qed.

(* consequences of acceptance: consecutive instances, linked chains, accumulated suffixes *)
Theorem accepted_instances toks net s cs s' : accepted toks net s cs s' ->
  v_next s' = v_next s + Z.of_nat (length cs) /\
  map c_inst cs = map (fun k => v_next s + Z.of_nat k) (seq 0 (length cs)).
Proof.
  intros H. induction H.
  - cbn. split; [lia|auto].
  - destruct H as (H1 & _ & b & suffix & _ & _ & _ & nt & _ & _ & H8). subst s1. cbn [v_next length] in *.
    destruct IHaccepted as [I1 I2]. split; [lia|].
    cbn [map seq]. rewrite H1. replace (v_next s + Z.of_nat 0) with (v_next s) by lia. f_equal.
    rewrite I2, <- seq_shift, map_map. apply map_ext. intros k. lia.
Qed.

Theorem accepted_linked toks net s c1 c2 cs s' :
  accepted toks net s (c1 :: c2 :: cs) s' ->
  exists b1 r1 b2 r2, c_chain c1 = b1 :: r1 /\ c_chain c2 = b2 :: r2 /\ tipset_eqb (last (c_chain c1) b1) b2 = true.
Proof.
  intros H. inversion H as [|? ? s1 ? ? Hc1 Hr]; subst.
  inversion Hr as [|? ? s2 ? ? Hc2 _]; subst.
  destruct Hc1 as (_ & _ & b1 & r1 & E1 & _ & _ & nt & _ & _ & S1).
  destruct Hc2 as (_ & _ & b2 & r2 & E2 & L2 & _).
  exists b1, r1, b2, r2. split; auto. split; auto. apply L2. subst s1. reflexivity.
Qed.

(* the signature check: in-range distinct-by-construction signers, each with non-zero scaled
   power, together a strong quorum of the table in force, aggregate over exactly the DECIDE payload *)
Lemma signer_power_spec scaled : forall signers acc pw,
  signer_power scaled signers acc = inr pw ->
  Forall (fun i => i < Z.of_nat (length scaled) /\ nth (Z.to_nat i) scaled 0 <> 0) signers /\
  pw = acc + sumZ (map (fun i => nth (Z.to_nat i) scaled 0) signers).
Proof.
  induction signers as [|i r IH]; intros acc pw H; cbn [signer_power] in H.
  - inversion H; subst. split; [constructor|]. cbn. lia.
  - destruct (Z.of_nat (length scaled) <=? i) eqn:E1; [discriminate|]. apply Z.leb_gt in E1.
    destruct (nth (Z.to_nat i) scaled 0 =? 0) eqn:E2; [discriminate|]. apply Z.eqb_neq in E2.
    apply IH in H. destruct H as [F P]. split; [constructor; auto|].
    cbn [map sumZ fold_right]. unfold sumZ in *. lia.
Qed.

Theorem verify_sig_sound t net c : verify_sig t net c = None ->
  let scaled := scaled_list (map e_power t) in
  Forall (fun i => i < Z.of_nat (length t) /\ nth (Z.to_nat i) scaled 0 <> 0) (c_signers c) /\
  isStrongQuorum (sumZ (map (fun i => nth (Z.to_nat i) scaled 0) (c_signers c))) (sumZ scaled) = true /\
  exists s, c_sig c = Some s /\ s_inst s = c_inst c /\ s_round s = 0 /\ s_phase s = 5 /\ s_net s = net /\
            s_commit s = c_commit c /\ s_pt s = c_pt c /\ chain_eqb (s_chain s) (c_chain c) = true /\
            list_eqbZ (s_signers s) (c_signers c) = true.
Proof.
  intros H. cbv zeta. unfold verify_sig in H. cbv zeta in H. set (scaled := scaled_list (map e_power t)) in *.
  destruct (signer_power scaled (c_signers c) 0) as [e|pw] eqn:E; [discriminate|].
  apply signer_power_spec in E. destruct E as [F P].
  destruct (isStrongQuorum pw (sumZ scaled)) eqn:Q; cbn [negb] in H; [|discriminate].
  destruct (sig_matches t net c) eqn:M; [|discriminate].
  split.
  { eapply Forall_impl; [|exact F]. intros i [A B]. split; auto.
    unfold scaled, scaled_list in A. rewrite !map_length in A. exact A. }
  split. { rewrite P in Q. exact Q. }
  unfold sig_matches in M. destruct (c_sig c) as [s|]; [|discriminate].
  repeat (apply andb_true_iff in M; destruct M as [M ?]).
  exists s. repeat split; auto; try (apply Z.eqb_eq; assumption).
Qed.

(* on rejection, the reported instance / chain / table are exactly those of the valid prefix *)
Theorem validate_prefix_report toks net cs : forall s e s',
  validate_loop toks net s cs = (Some e, s') ->
  exists k c, nth_error cs k = Some c /\
    validate_loop toks net s (firstn k cs) = (None, s') /\ validate_one toks net s' c = inl e.
Proof.
  induction cs as [|c cs IH]; intros s e s' H; cbn [validate_loop] in H; [discriminate|].
  destruct (validate_one toks net s c) as [e1|s1] eqn:E.
  - inversion H; subst. exists 0%nat, c. cbn. auto.
  - apply IH in H. destruct H as [k [c' [N [V O]]]]. exists (S k), c'. cbn [nth_error firstn validate_loop].
    rewrite E. auto.
Qed.

Theorem validate_certs_prefix toks net prev next base cs n ch tb e :
  validate_certs toks net prev next base cs = (n, ch, tb, Some e) ->
  exists k, (k < length cs)%nat /\
    fst (fst (fst (validate_certs toks net prev next base (firstn k cs)))) = n /\
    snd (fst (fst (validate_certs toks net prev next base (firstn k cs)))) = ch /\
    n = next + Z.of_nat k.
Proof.
  unfold validate_certs. intros H.
  destruct (validate_loop toks net (mkV next [] prev None base) cs) as [[e'|] s] eqn:L; [|inversion H].
  inversion H; subst. apply validate_prefix_report in L. destruct L as [k [c [N [V O]]]].
  exists k. split. { apply nth_error_Some. congruence. }
  rewrite V. cbn [fst snd]. split; auto. split; auto.
  apply validate_sound, accepted_instances in V. destruct V as [V _]. cbn [v_next] in V.
  rewrite firstn_length_le in V; auto. apply Nat.lt_le_incl, nth_error_Some. congruence.
Qed.
