(* executable comparison helper for the C04 correspondence *)
From Coq Require Import ZArith List Bool.
From F3 Require Import GoInt Table Validate.
Import ListNotations.
Open Scope Z_scope.

Definition opt_table_eqb (a b : option table) : bool :=
  match a, b with Some x, Some y => table_eqb x y | None, None => true | _, _ => false end.

Definition check_validate toks net prev next base cs (exp_next : Z) (exp_chain : chain) (exp_tbl : option table) (exp_err : option Z) : bool :=
  let '(n, ch, tb, e) := validate_certs toks net prev next base cs in
  (n =? exp_next) && chain_eqb ch exp_chain && opt_table_eqb tb exp_tbl &&
  match e, exp_err with
  | None, None => true
  | Some x, Some y => verr_code x =? y
  | _, _ => false
  end.
