(* C04 model (no proofs): ValidateFinalityCertificates, mirroring certs/certs.go statement by statement.
   Hash/CID values and keys are tokens; the aggregate signature is a structural description of what was
   signed (scripted oracle): verification succeeds iff keys, signer mask and payload all match. *)
From Coq Require Import ZArith List Bool.
From F3 Require Import GoInt QuorumGen QuorumProofs Table.
Import ListNotations.
Open Scope Z_scope.

Record tipset := mkTS { ts_epoch : Z; ts_key : Z; ts_keylen : Z; ts_cid : Z; ts_cidlen : Z; ts_commit : Z }.
Definition chain := list tipset.
Definition tipset_eqb (a b : tipset) : bool :=
  (ts_epoch a =? ts_epoch b) && (ts_key a =? ts_key b) && (ts_cid a =? ts_cid b) && (ts_commit a =? ts_commit b).
Fixpoint chain_eqb (a b : chain) : bool :=
  match a, b with [], [] => true | x :: a', y :: b' => tipset_eqb x y && chain_eqb a' b' | _, _ => false end.

(* TipSet.Validate *)
Definition tipset_valid (t : tipset) : bool :=
  negb (ts_keylen t =? 0) && (ts_keylen t <=? 760) && negb (ts_cid t =? 0) && (ts_cidlen t <=? 38).
Fixpoint epochs_increasing (last : Z) (c : chain) : bool :=
  match c with [] => true | t :: r => tipset_valid t && (last <? ts_epoch t) && epochs_increasing (ts_epoch t) r end.
(* ECChain.Validate: the zero chain is valid *)
Definition chain_valid (c : chain) : bool :=
  match c with [] => true | _ => (Z.of_nat (length c) <=? 128) && epochs_increasing (-1) c end.

Record sigdesc := mkSig { s_keys : list Z; s_signers : list Z; s_net : Z; s_inst : Z; s_round : Z; s_phase : Z;
                          s_commit : Z; s_pt : Z; s_chain : chain }.
Record cert := mkCert { c_inst : Z; c_chain : chain; c_commit : Z; c_pt : Z; c_signers : list Z;
                        c_sig : option sigdesc; c_delta : list delta }.

Fixpoint list_eqbZ (a b : list Z) : bool :=
  match a, b with [], [] => true | x :: a', y :: b' => (x =? y) && list_eqbZ a' b' | _, _ => false end.

Inductive verr := VInstance | VChain | VEmpty | VBase | VSignerRange | VSignerZero | VQuorum | VSig
                | VDelta (e : derr) | VPowerCid.

(* verifyFinalityCertificateSignature *)
Fixpoint signer_power (scaled : list Z) (signers : list Z) (acc : Z) : verr + Z :=
  match signers with
  | [] => inr acc
  | i :: r =>
      if Z.of_nat (length scaled) <=? i then inl VSignerRange else
      let p := nth (Z.to_nat i) scaled 0 in
      if p =? 0 then inl VSignerZero else signer_power scaled r (acc + p)
  end.

Definition sig_matches (t : table) (net : Z) (c : cert) : bool :=
  match c_sig c with
  | None => false
  | Some s =>
      list_eqbZ (s_keys s) (map (fun i => e_key (nth (Z.to_nat i) t (mkE 0 0 0))) (c_signers c)) &&
      list_eqbZ (s_signers s) (c_signers c) && (s_net s =? net) && (s_inst s =? c_inst c) &&
      (s_round s =? 0) && (s_phase s =? 5) && (s_commit s =? c_commit c) && (s_pt s =? c_pt c) &&
      chain_eqb (s_chain s) (c_chain c)
  end.

Definition verify_sig (t : table) (net : Z) (c : cert) : option verr :=
  let scaled := scaled_list (map e_power t) in
  let total := sumZ scaled in
  match signer_power scaled (c_signers c) 0 with
  | inl e => Some e
  | inr pw =>
      if negb (isStrongQuorum pw total) then Some VQuorum
      else if sig_matches t net c then None else Some VSig
  end.

Fixpoint cid_token (toks : list (table * Z)) (t : table) : Z :=
  match toks with [] => -1 | (t', k) :: r => if table_eqb t' t then k else cid_token r t end.

Record vstate := mkV { v_next : Z; v_chain : chain; v_prev : table; v_new : option table; v_base : option tipset }.

(* one iteration of the loop; inl = (error, state to report) *)
Definition validate_one (toks : list (table * Z)) (net : Z) (s : vstate) (c : cert) : verr + vstate :=
  if negb (c_inst c =? v_next s) then inl VInstance else
  if negb (chain_valid (c_chain c)) then inl VChain else
  match c_chain c with
  | [] => inl VEmpty
  | b :: suffix =>
      if (match v_base s with Some bs => negb (tipset_eqb bs b) | None => false end) then inl VBase else
      match verify_sig (v_prev s) net c with
      | Some e => inl e
      | None =>
          match apply_diff (v_prev s) (c_delta c) with
          | inl e => inl (VDelta e)
          | inr nt =>
              if negb (cid_token toks nt =? c_pt c) then inl VPowerCid else
              inr (mkV (v_next s + 1) (v_chain s ++ suffix) nt (Some nt) (Some (last (c_chain c) b)))
          end
      end
  end.

Fixpoint validate_loop (toks : list (table * Z)) (net : Z) (s : vstate) (cs : list cert) : option verr * vstate :=
  match cs with
  | [] => (None, s)
  | c :: r => match validate_one toks net s c with
              | inl e => (Some e, s)
              | inr s' => validate_loop toks net s' r
              end
  end.

(* ValidateFinalityCertificates: (nextInstance, chain, newPowerTable, err).  On error the table returned is
   prevPowerTable; on success it is newPowerTable, which is nil (None) when no certificate was given. *)
Definition validate_certs toks net (prev : table) (next : Z) (base : option tipset) (cs : list cert)
  : Z * chain * option table * option verr :=
  let '(e, s) := validate_loop toks net (mkV next [] prev None base) cs in
  match e with
  | Some _ => (v_next s, v_chain s, Some (v_prev s), e)
  | None => (v_next s, v_chain s, v_new s, None)
  end.

Definition verr_code (e : verr) : Z :=
  match e with VInstance => 1 | VChain => 2 | VEmpty => 3 | VBase => 4 | VSignerRange => 5 | VSignerZero => 6
             | VQuorum => 7 | VSig => 8 | VDelta d => 10 + derr_code d | VPowerCid => 9 end.
