(* C03, second sentence: a decision reported by the instance (Layer N), turned into a finality certificate with the
   correct power-table delta, is accepted by certificate validation (Certs/Validate.v, the C04 model) on any node that
   holds the same power table. *)
From Coq Require Import ZArith List Bool Lia.
From F3 Require Import GoInt QuorumGen QuorumProofs Table DiffProofs Validate Instance InstanceDecide.
Import ListNotations.
Open Scope Z_scope.

Lemma list_eqbZ_refl l : list_eqbZ l l = true.
Proof. induction l as [|x l IH]; cbn; [reflexivity|rewrite Z.eqb_refl; exact IH]. Qed.
Lemma tipset_eqb_refl t : tipset_eqb t t = true.
Proof. unfold tipset_eqb. rewrite !Z.eqb_refl. reflexivity. Qed.
Lemma vchain_eqb_refl c : Validate.chain_eqb c c = true.
Proof. induction c as [|t c IH]; cbn; [reflexivity|rewrite tipset_eqb_refl; exact IH]. Qed.

Section Bridge.
Variable cfg : config.
Variable t : table.
Hypothesis Hpowers : c_powers cfg = scaled_list (map e_power t).
Hypothesis Htotal : c_total cfg = sumZ (scaled_list (map e_power t)).

Lemma power_of_nth x : 0 < power_of cfg x ->
  (Z.of_nat (length (scaled_list (map e_power t))) <=? x) = false /\ nth (Z.to_nat x) (scaled_list (map e_power t)) 0 = power_of cfg x.
Proof.
  unfold power_of. rewrite Hpowers. destruct ((x <? 0) || _) eqn:E; [lia|].
  apply orb_false_elim in E. destruct E as [_ E]. intros _. split; [exact E|reflexivity].
Qed.

Lemma signer_power_sum ss : forall acc,
  (forall x, In x ss -> 0 < power_of cfg x) ->
  signer_power (scaled_list (map e_power t)) ss acc = inr (acc + sum_power cfg ss).
Proof.
  induction ss as [|x ss IH]; intros acc H; cbn [signer_power sum_power fold_right]; [rewrite Z.add_0_r; reflexivity|].
  assert (Hx : 0 < power_of cfg x) by (apply H; left; reflexivity).
  destruct (power_of_nth x Hx) as [E1 E2]. rewrite E1, E2.
  destruct (power_of cfg x =? 0) eqn:E0; [apply Z.eqb_eq in E0; lia|].
  rewrite IH; [|intros y Hy; apply H; right; exact Hy].
  fold (sum_power cfg ss). f_equal. lia.
Qed.

(* the certificate built from a decision justification j *)
Definition cert_of (inst : Z) (net : Z) (ch : Validate.chain) (commit pt : Z) (j : just) (dl : list delta) : cert :=
  mkCert inst ch commit pt (j_signers j)
         (Some (mkSig (map (fun i => e_key (nth (Z.to_nat i) t (mkE 0 0 0))) (j_signers j)) (j_signers j) net inst 0 5 commit pt ch)) dl.

Lemma decision_sig_verifies inst net ch commit pt j dl :
  (forall x, In x (j_signers j) -> 0 < power_of cfg x) ->
  isStrongQuorum (sum_power cfg (j_signers j)) (c_total cfg) = true ->
  verify_sig t net (cert_of inst net ch commit pt j dl) = None.
Proof.
  intros Hp Hq. unfold verify_sig, cert_of. cbn [c_signers].
  rewrite signer_power_sum by exact Hp. rewrite Z.add_0_l. rewrite <- Htotal, Hq. cbn [negb].
  unfold sig_matches. cbn. rewrite !list_eqbZ_refl, !Z.eqb_refl, vchain_eqb_refl. reflexivity.
Qed.

Theorem decision_cert_accepted toks net s b suffix commit j t' :
  v_prev s = t -> wf t -> wf t' ->
  (forall x, In x (j_signers j) -> 0 < power_of cfg x) ->
  isStrongQuorum (sum_power cfg (j_signers j)) (c_total cfg) = true ->
  chain_valid (b :: suffix) = true ->
  (match v_base s with Some bs => tipset_eqb bs b = true | None => True end) ->
  let c := cert_of (v_next s) net (b :: suffix) commit (cid_token toks (canon t')) j (make_diff t t') in
  validate_one toks net s c =
    inr (mkV (v_next s + 1) (v_chain s ++ suffix) (canon t') (Some (canon t')) (Some (last (b :: suffix) b))).
Proof.
  intros Hprev Hwt Hwt' Hp Hq Hcv Hbase. cbv zeta. unfold validate_one, cert_of. cbn [c_inst c_chain c_delta c_pt].
  rewrite Z.eqb_refl. cbn [negb]. rewrite Hcv. cbn [negb].
  assert (Hb : (match v_base s with Some bs => negb (tipset_eqb bs b) | None => false end) = false).
  { destruct (v_base s); [rewrite Hbase; reflexivity|reflexivity]. }
  rewrite Hb. rewrite Hprev.
  change (mkCert (v_next s) (b :: suffix) commit (cid_token toks (canon t')) (j_signers j) _ (make_diff t t'))
    with (cert_of (v_next s) net (b :: suffix) commit (cid_token toks (canon t')) j (make_diff t t')).
  rewrite (decision_sig_verifies _ _ _ _ _ _ _ Hp Hq).
  rewrite (apply_make t t' Hwt Hwt'). rewrite Z.eqb_refl. reflexivity.
Qed.
End Bridge.
