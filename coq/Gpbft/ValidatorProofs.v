(* C05 / C13 on the validator model: verdicts are independent of the cache history; an accepted message satisfies
   every validity rule (and conversely); the two-stage path admits nothing that one-shot validation of the completed
   message rejects and nothing under a key other than the completing chain's; strip/complete is the identity on
   well-shaped messages. *)
From Coq Require Import ZArith List Bool Lia.
From F3 Require Import GoInt QuorumGen ProgressGen Validator.
Import ListNotations.
Open Scope Z_scope.

(* ---------- boolean equalities are sound ---------- *)
Lemma ch_eqb_eq a b : ch_eqb a b = true -> a = b.
Proof.
  destruct a, b; unfold ch_eqb; cbn. intros H. apply andb_prop in H. destruct H as [H1 H2].
  apply Z.eqb_eq in H1. apply eqb_prop in H2. congruence.
Qed.
Lemma pd_eqb_eq a b : pd_eqb a b = true -> a = b.
Proof.
  destruct a, b; unfold pd_eqb; cbn. intros H.
  repeat (apply andb_prop in H; destruct H as [H ?]). repeat match goal with E : (_ =? _) = true |- _ => apply Z.eqb_eq in E end. congruence.
Qed.
Lemma zl_eqb_eq a : forall b, zl_eqb a b = true -> a = b.
Proof.
  induction a as [|x a IH]; intros [|y b] H; cbn in H; try discriminate H; [reflexivity|].
  apply andb_prop in H. destruct H as [H1 H2]. apply Z.eqb_eq in H1. f_equal; auto.
Qed.
Lemma vote_eqb_eq a b : vote_eqb a b = true -> a = b.
Proof.
  destruct a as [a1 a2 a3 a4 a5], b as [b1 b2 b3 b4 b5]; unfold vote_eqb; cbn [v_inst v_round v_phase v_supp v_value]. intros H.
  repeat (apply andb_prop in H; destruct H as [H ?]).
  repeat match goal with E : (_ =? _) = true |- _ => apply Z.eqb_eq in E end.
  match goal with E : ch_eqb _ _ = true |- _ => apply ch_eqb_eq in E end. congruence.
Qed.
Lemma osig_eqb_eq {A} (f : A -> A -> bool) (Hf : forall x y, f x y = true -> x = y) a b : osig_eqb f a b = true -> a = b.
Proof.
  destruct a as [[x p]|], b as [[y q]|]; cbn; intros H; try discriminate H; [|reflexivity].
  apply andb_prop in H. destruct H as [H1 H2]. apply Hf in H1. apply pd_eqb_eq in H2. congruence.
Qed.
Lemma just_eqb_eq a b : just_eqb a b = true -> a = b.
Proof.
  destruct a as [a1 a2 a3], b as [b1 b2 b3]; unfold just_eqb; cbn [j_vote j_signers j_sig]. intros H.
  apply andb_prop in H. destruct H as [H H3]. apply andb_prop in H. destruct H as [H1 H2].
  apply vote_eqb_eq in H1. apply zl_eqb_eq in H2. apply (osig_eqb_eq zl_eqb zl_eqb_eq) in H3. congruence.
Qed.
Lemma tk_eqb_eq a b : tk_eqb a b = true -> a = b.
Proof.
  destruct a as [[]|], b as [[]|]; cbn; intros H; try discriminate H; [|reflexivity].
  repeat (apply andb_prop in H; destruct H as [H ?]). repeat match goal with E : (_ =? _) = true |- _ => apply Z.eqb_eq in E end. congruence.
Qed.
Lemma ojust_eqb_eq a b : ojust_eqb a b = true -> a = b.
Proof. destruct a, b; cbn; intros H; try discriminate H; [apply just_eqb_eq in H; congruence|reflexivity]. Qed.
Lemma gmsg_eqb_eq a b : gmsg_eqb a b = true -> a = b.
Proof.
  destruct a as [a1 a2 a3 a4 a5], b as [b1 b2 b3 b4 b5]; unfold gmsg_eqb; cbn [g_sender g_vote g_sig g_ticket g_just]. intros H.
  apply andb_prop in H. destruct H as [H H5]. apply andb_prop in H. destruct H as [H H4].
  apply andb_prop in H. destruct H as [H H3]. apply andb_prop in H. destruct H as [H1 H2].
  apply Z.eqb_eq in H1. apply vote_eqb_eq in H2.
  apply (osig_eqb_eq Z.eqb (fun x y => proj1 (Z.eqb_eq x y))) in H3. apply tk_eqb_eq in H4. apply ojust_eqb_eq in H5. congruence.
Qed.

(* ---------- the validity rules, cache-free ---------- *)
Definition just_accepts (net : Z) (cmt : committee) (partial : option Z) (m : gmsg) : bool :=
  match g_just m with
  | None => false
  | Some j =>
      let jv := j_vote j in
      (v_inst (g_vote m) =? v_inst jv) && (v_supp (g_vote m) =? v_supp jv) && cvalid (v_value jv) &&
      let msgkey := match partial with Some k => k | None => ck (v_value (g_vote m)) end in
      match expectation (v_phase (g_vote m)) (v_round (g_vote m)) (v_phase jv) msgkey with
      | None => false
      | Some (rd, ekey) =>
          (match rd with Some r => v_round jv =? r | None => true end) &&
          (match partial with None => ck (v_value jv) =? ekey | Some _ => true end) &&
          just_sig_ok net cmt j ekey
      end
  end.

Definition accepts (net : Z) (cmt : committee) (partial : option Z) (m : gmsg) : bool :=
  match lookup_member (cm_members cmt) (g_sender m) with
  | None => false
  | Some mem =>
      let v := g_vote m in
      let bottom := match partial with Some k => k =? 0 | None => ch_is_zero (v_value v) end in
      let key := match partial with Some k => k | None => ck (v_value v) end in
      negb (m_power mem =? 0) && cvalid (v_value v) &&
      (if v_phase v =? 1 then (v_round v =? 0) && negb bottom
       else if v_phase v =? 2 then
         negb (v_round v =? 0) && negb bottom &&
         match g_ticket m with
         | Some t => (t_key t =? m_key mem) && (t_net t =? net) && (t_inst t =? v_inst v) && (t_round t =? v_round v)
         | None => false end
       else if v_phase v =? 5 then (v_round v =? 0) && negb bottom
       else (v_phase v =? 3) || (v_phase v =? 4)) &&
      match g_sig m with
      | Some (k, pd) => (k =? m_key mem) && pd_eqb pd (mkPd net (v_inst v) (v_round v) (v_phase v) (v_supp v) key)
      | None => false end &&
      (if negb ((v_phase v =? 1) || ((v_phase v =? 3) && (v_round v =? 0)) || ((v_phase v =? 4) && bottom))
       then just_accepts net cmt partial m
       else match g_just m with None => true | Some _ => false end)
  end.

(* ---------- history independence ---------- *)
Section Hist.
Variable net : Z.
Variable cmts : Z -> option committee.      (* the committee of each instance: fixed once known *)

Definition ok_msg (partial : option Z) (m : gmsg) : Prop :=
  exists cm, cmts (v_inst (g_vote m)) = Some cm /\ accepts net cm partial m = true.
Definition ok_just (j : just) (k : Z) : Prop :=
  exists cm, cmts (v_inst (j_vote j)) = Some cm /\ just_sig_ok net cm j k = true.

(* everything in the cache was validated against the committee of its own instance *)
Definition CacheOK (c : cache) : Prop :=
  (forall m, In m (c_msg c) -> ok_msg None m) /\
  (forall m k, In (m, k) (c_pmsg c) -> ok_msg (Some k) m) /\
  (forall j k, In (j, k) (c_just c) -> ok_just j k) /\
  (forall j k, In (j, k) (c_pjust c) -> ok_just j k).

Lemma CacheOK_empty : CacheOK cache_empty.
Proof. repeat split; intros; contradiction. Qed.

Lemma jk_mem_In l j k : jk_mem l j k = true -> In (j, k) l.
Proof.
  unfold jk_mem. rewrite existsb_exists. intros ([j' k'] & Hin & H). cbn in H.
  apply andb_prop in H. destruct H as [H1 H2]. apply just_eqb_eq in H1. apply Z.eqb_eq in H2. subst. exact Hin.
Qed.

Lemma validate_just_spec cm c partial m :
  CacheOK c -> cmts (v_inst (g_vote m)) = Some cm ->
  fst (validate_just net cm c partial m) = just_accepts net cm partial m /\
  CacheOK (snd (validate_just net cm c partial m)).
Proof.
  intros HC Hcm. unfold validate_just, just_accepts.
  destruct (g_just m) as [j|]; [|split; [reflexivity|exact HC]].
  destruct (v_inst (g_vote m) =? v_inst (j_vote j)) eqn:Ei; cbn [negb andb]; [|split; [reflexivity|exact HC]].
  apply Z.eqb_eq in Ei.
  destruct (v_supp (g_vote m) =? v_supp (j_vote j)); cbn [negb andb]; [|split; [reflexivity|exact HC]].
  destruct (cvalid (v_value (j_vote j))); cbn [negb andb]; [|split; [reflexivity|exact HC]].
  destruct (expectation _ _ _ _) as [[rd ekey]|]; [|split; [reflexivity|exact HC]].
  destruct rd as [r|].
  - destruct (v_round (j_vote j) =? r); cbn [negb andb]; [|split; [reflexivity|exact HC]].
    destruct partial as [k|].
    + destruct HC as (H1 & H2 & H3 & H4).
      destruct (jk_mem (c_pjust c) j ekey) eqn:Ec.
      * apply jk_mem_In in Ec. destruct (H4 _ _ Ec) as (cm' & Hc' & Hs). rewrite <- Ei, Hcm in Hc'. injection Hc' as <-. rewrite Hs.
        split; [reflexivity|repeat split; assumption].
      * destruct (just_sig_ok net cm j ekey) eqn:Es; (split; [reflexivity|]); repeat split; cbn; try assumption.
        intros j' k' [E|Hin]; auto. injection E as <- <-. exists cm. split; [rewrite <- Ei; exact Hcm|exact Es].
    + destruct (ck (v_value (j_vote j)) =? ekey); cbn [negb andb]; [|split; [reflexivity|exact HC]].
      destruct HC as (H1 & H2 & H3 & H4).
      destruct (jk_mem (c_just c) j ekey) eqn:Ec.
      * apply jk_mem_In in Ec. destruct (H3 _ _ Ec) as (cm' & Hc' & Hs). rewrite <- Ei, Hcm in Hc'. injection Hc' as <-. rewrite Hs.
        split; [reflexivity|repeat split; assumption].
      * destruct (just_sig_ok net cm j ekey) eqn:Es; (split; [reflexivity|]); repeat split; cbn; try assumption.
        intros j' k' [E|Hin]; auto. injection E as <- <-. exists cm. split; [rewrite <- Ei; exact Hcm|exact Es].
  - cbn [andb].
    destruct partial as [k|].
    + destruct HC as (H1 & H2 & H3 & H4).
      destruct (jk_mem (c_pjust c) j ekey) eqn:Ec.
      * apply jk_mem_In in Ec. destruct (H4 _ _ Ec) as (cm' & Hc' & Hs). rewrite <- Ei, Hcm in Hc'. injection Hc' as <-. rewrite Hs.
        split; [reflexivity|repeat split; assumption].
      * destruct (just_sig_ok net cm j ekey) eqn:Es; (split; [reflexivity|]); repeat split; cbn; try assumption.
        intros j' k' [E|Hin]; auto. injection E as <- <-. exists cm. split; [rewrite <- Ei; exact Hcm|exact Es].
    + destruct (ck (v_value (j_vote j)) =? ekey); cbn [negb andb]; [|split; [reflexivity|exact HC]].
      destruct HC as (H1 & H2 & H3 & H4).
      destruct (jk_mem (c_just c) j ekey) eqn:Ec.
      * apply jk_mem_In in Ec. destruct (H3 _ _ Ec) as (cm' & Hc' & Hs). rewrite <- Ei, Hcm in Hc'. injection Hc' as <-. rewrite Hs.
        split; [reflexivity|repeat split; assumption].
      * destruct (just_sig_ok net cm j ekey) eqn:Es; (split; [reflexivity|]); repeat split; cbn; try assumption.
        intros j' k' [E|Hin]; auto. injection E as <- <-. exists cm. split; [rewrite <- Ei; exact Hcm|exact Es].
Qed.

(* the verdict is a function of the message and the committee alone, whatever was validated before *)
Lemma validate_with_key_verdict cm c partial m :
  CacheOK c -> cmts (v_inst (g_vote m)) = Some cm ->
  fst (validate_with_key net (Some cm) c partial m) = (if accepts net cm partial m then VOk else VInvalid).
Proof.
  intros HC Hcm. unfold validate_with_key.
  destruct (match partial with
            | Some k => existsb (fun e => gmsg_eqb (fst e) m && (snd e =? k)) (c_pmsg c)
            | None => existsb (gmsg_eqb m) (c_msg c) end) eqn:Ehit.
  - cbn [fst snd]. destruct HC as (H1 & H2 & _).
    destruct partial as [k|].
    + apply existsb_exists in Ehit. destruct Ehit as ([m' k'] & Hin & H). cbn in H.
      apply andb_prop in H. destruct H as [Hm Hk]. apply gmsg_eqb_eq in Hm. apply Z.eqb_eq in Hk. subst.
      destruct (H2 _ _ Hin) as (cm' & Hc' & Hv). rewrite Hcm in Hc'. injection Hc' as <-. rewrite Hv. reflexivity.
    + apply existsb_exists in Ehit. destruct Ehit as (m' & Hin & H). apply gmsg_eqb_eq in H. subst m'.
      destruct (H1 _ Hin) as (cm' & Hc' & Hv). rewrite Hcm in Hc'. injection Hc' as <-. rewrite Hv. reflexivity.
  - unfold accepts.
    destruct (lookup_member (cm_members cm) (g_sender m)) as [mem|]; [|reflexivity].
    destruct (m_power mem =? 0); cbn [negb andb]; [reflexivity|].
    destruct (cvalid (v_value (g_vote m))); cbn [negb andb]; [|reflexivity].
    match goal with |- context [if negb ?b then (VInvalid, c) else _] => destruct b end; cbn [negb andb]; [|reflexivity].
    match goal with |- context [if negb ?b then (VInvalid, c) else _] => destruct b end; cbn [negb andb]; [|reflexivity].
    match goal with |- context [if ?b then validate_just net cm c partial m else _] => destruct b end.
    + destruct (validate_just_spec cm c partial m HC Hcm) as [Hj1 _].
      destruct (validate_just net cm c partial m) as [jok c1]. cbn [fst] in Hj1. rewrite <- Hj1.
      destruct jok; reflexivity.
    + destruct (g_just m); reflexivity.
Qed.

Lemma validate_with_key_cache cm c partial m :
  CacheOK c -> cmts (v_inst (g_vote m)) = Some cm ->
  CacheOK (snd (validate_with_key net (Some cm) c partial m)).
Proof.
  intros HC Hcm. pose proof (validate_with_key_verdict cm c partial m HC Hcm) as HA. revert HA.
  unfold validate_with_key.
  destruct (match partial with
            | Some k => existsb (fun e => gmsg_eqb (fst e) m && (snd e =? k)) (c_pmsg c)
            | None => existsb (gmsg_eqb m) (c_msg c) end); [intros _; exact HC|].
  destruct (lookup_member (cm_members cm) (g_sender m)) as [mem|]; [|intros _; exact HC].
  destruct (m_power mem =? 0); [intros _; exact HC|].
  destruct (negb (cvalid (v_value (g_vote m)))); [intros _; exact HC|].
  match goal with |- context [if negb ?b then (VInvalid, c) else _] => destruct (negb b) end; [intros _; exact HC|].
  match goal with |- context [if negb ?b then (VInvalid, c) else _] => destruct (negb b) end; [intros _; exact HC|].
  assert (Hadd : forall c1, CacheOK c1 -> accepts net cm partial m = true ->
          CacheOK (match partial with
                   | Some k => mkCache (c_msg c1) ((m, k) :: c_pmsg c1) (c_just c1) (c_pjust c1)
                   | None => mkCache (m :: c_msg c1) (c_pmsg c1) (c_just c1) (c_pjust c1) end)).
  { intros c1 (H1 & H2 & H3 & H4) Hacc. destruct partial as [k|]; repeat split; cbn; try assumption.
    - intros m' k' [E|Hin]; auto. injection E as <- <-. exists cm. split; assumption.
    - intros m' [<-|Hin]; auto. exists cm. split; assumption. }
  match goal with |- context [if ?b then validate_just net cm c partial m else _] => destruct b end.
  - destruct (validate_just_spec cm c partial m HC Hcm) as [_ Hj2].
    destruct (validate_just net cm c partial m) as [jok c1]. cbn [snd] in Hj2.
    destruct jok; cbn [negb fst snd]; [|intros _; exact Hj2].
    intros HA. apply Hadd; [exact Hj2|]. destruct (accepts net cm partial m); [reflexivity|discriminate HA].
  - destruct (g_just m); cbn [negb fst snd]; [intros _; exact HC|].
    intros HA. apply Hadd; [exact HC|]. destruct (accepts net cm partial m); [reflexivity|discriminate HA].
Qed.

(* C05: history independence -- a warm validator and a fresh one give the same verdict *)
Theorem history_independent cm c partial m :
  CacheOK c -> cmts (v_inst (g_vote m)) = Some cm ->
  fst (validate_with_key net (Some cm) c partial m) = fst (validate_with_key net (Some cm) cache_empty partial m).
Proof.
  intros HC Hcm. rewrite (validate_with_key_verdict cm c partial m HC Hcm).
  rewrite (validate_with_key_verdict cm cache_empty partial m CacheOK_empty Hcm). reflexivity.
Qed.
End Hist.

(* ---------- C05: what "accepted" means (the validity rules, declaratively) ---------- *)
Definition needs_just (v : vote) : bool :=
  negb ((v_phase v =? 1) || ((v_phase v =? 3) && (v_round v =? 0)) || ((v_phase v =? 4) && ch_is_zero (v_value v))).

Record ValidJust (net : Z) (cmt : committee) (v : vote) (j : just) : Prop := {
  vj_inst : v_inst (j_vote j) = v_inst v;
  vj_supp : v_supp (j_vote j) = v_supp v;
  vj_wellformed : cvalid (v_value (j_vote j)) = true;
  (* the prescribed step, round and value *)
  vj_shape :
    ((v_phase v = 2 \/ v_phase v = 3) /\ v_round (j_vote j) = sub_u64 (v_round v) 1 /\
       ((v_phase (j_vote j) = 4 /\ ck (v_value (j_vote j)) = 0) \/ (v_phase (j_vote j) = 3 /\ ck (v_value (j_vote j)) = ck (v_value v)))) \/
    (v_phase v = 4 /\ v_round (j_vote j) = v_round v /\ v_phase (j_vote j) = 3 /\ ck (v_value (j_vote j)) = ck (v_value v)) \/
    (v_phase v = 5 /\ v_phase (j_vote j) = 4 /\ ck (v_value (j_vote j)) = ck (v_value v));
  (* a verifying strong-quorum aggregate over exactly that payload *)
  vj_quorum : exists pw keys,
    signers_power (cm_members cmt) (j_signers j) 0 [] = Some (pw, keys) /\ isStrongQuorum pw (cm_total cmt) = true /\
    j_sig j = Some (keys, mkPd net (v_inst (j_vote j)) (v_round (j_vote j)) (v_phase (j_vote j)) (v_supp (j_vote j)) (ck (v_value (j_vote j))))
}.

Record ValidMsg (net : Z) (cmt : committee) (m : gmsg) : Prop := {
  vm_sender : exists mem, lookup_member (cm_members cmt) (g_sender m) = Some mem /\ m_power mem <> 0 /\
      (* the sender's signature verifies over the exact payload *)
      g_sig m = Some (m_key mem, mkPd net (v_inst (g_vote m)) (v_round (g_vote m)) (v_phase (g_vote m)) (v_supp (g_vote m)) (ck (v_value (g_vote m)))) /\
      (v_phase (g_vote m) = 2 -> g_ticket m = Some (mkTk (m_key mem) net (v_inst (g_vote m)) (v_round (g_vote m))));
  vm_wellformed : cvalid (v_value (g_vote m)) = true;
  vm_step : 1 <= v_phase (g_vote m) <= 5 /\
            (v_phase (g_vote m) = 1 -> v_round (g_vote m) = 0 /\ ck (v_value (g_vote m)) <> 0) /\
            (v_phase (g_vote m) = 2 -> v_round (g_vote m) <> 0 /\ ck (v_value (g_vote m)) <> 0) /\
            (v_phase (g_vote m) = 5 -> v_round (g_vote m) = 0 /\ ck (v_value (g_vote m)) <> 0);
  (* a justification is present exactly when required, and then it is a valid one *)
  vm_just : if needs_just (g_vote m) then exists j, g_just m = Some j /\ ValidJust net cmt (g_vote m) j else g_just m = None
}.

Ltac bsplit :=
  repeat match goal with
         | H : _ && _ = true |- _ => apply andb_prop in H; destruct H
         | H : negb _ = true |- _ => apply negb_true_iff in H
         | H : (_ =? _) = true |- _ => apply Z.eqb_eq in H
         | H : (_ =? _) = false |- _ => apply Z.eqb_neq in H
         end.

Lemma expectation_shape mp mr jp key rd ekey :
  expectation mp mr jp key = Some (rd, ekey) ->
  ((mp = 2 \/ mp = 3) /\ rd = Some (sub_u64 mr 1) /\ ((jp = 4 /\ ekey = 0) \/ (jp = 3 /\ ekey = key))) \/
  (mp = 4 /\ rd = Some mr /\ jp = 3 /\ ekey = key) \/
  (mp = 5 /\ rd = None /\ jp = 4 /\ ekey = key).
Proof.
  unfold expectation.
  destruct (mp =? 2) eqn:E2; [apply Z.eqb_eq in E2|]; cbn [orb].
  { destruct (jp =? 4) eqn:J4; [apply Z.eqb_eq in J4; intros H; injection H as <- <-; left; auto|].
    destruct (jp =? 3) eqn:J3; [apply Z.eqb_eq in J3; intros H; injection H as <- <-; left; auto|discriminate]. }
  destruct (mp =? 3) eqn:E3; [apply Z.eqb_eq in E3|].
  { destruct (jp =? 4) eqn:J4; [apply Z.eqb_eq in J4; intros H; injection H as <- <-; left; auto|].
    destruct (jp =? 3) eqn:J3; [apply Z.eqb_eq in J3; intros H; injection H as <- <-; left; auto|discriminate]. }
  destruct (mp =? 4) eqn:E4; [apply Z.eqb_eq in E4|].
  { destruct (jp =? 3) eqn:J3; [apply Z.eqb_eq in J3; intros H; injection H as <- <-; right; left; auto|discriminate]. }
  destruct (mp =? 5) eqn:E5; [apply Z.eqb_eq in E5|discriminate].
  destruct (jp =? 4) eqn:J4; [apply Z.eqb_eq in J4; intros H; injection H as <- <-; right; right; auto|discriminate].
Qed.

Lemma just_accepts_sound net cmt m j :
  g_just m = Some j -> just_accepts net cmt None m = true -> ValidJust net cmt (g_vote m) j.
Proof.
  intros Hj H. unfold just_accepts in H. rewrite Hj in H.
  destruct (expectation _ _ _ _) as [[rd ekey]|] eqn:Ex; [|bsplit; discriminate].
  bsplit. apply expectation_shape in Ex.
  unfold just_sig_ok in *.
  destruct (signers_power (cm_members cmt) (j_signers j) 0 []) as [[pw keys]|] eqn:Es; [|discriminate].
  bsplit. destruct (j_sig j) as [[ks pd]|] eqn:Esig; [|discriminate]. bsplit.
  match goal with H : zl_eqb _ _ = true |- _ => apply zl_eqb_eq in H end.
  match goal with H : pd_eqb _ _ = true |- _ => apply pd_eqb_eq in H end.
  match goal with H : ck (v_value (j_vote j)) = ekey |- _ => rename H into Hk end.
  assert (Hq : exists pw keys,
    signers_power (cm_members cmt) (j_signers j) 0 [] = Some (pw, keys) /\ isStrongQuorum pw (cm_total cmt) = true /\
    j_sig j = Some (keys, mkPd net (v_inst (j_vote j)) (v_round (j_vote j)) (v_phase (j_vote j)) (v_supp (j_vote j)) (ck (v_value (j_vote j))))).
  { exists pw, keys. repeat split; auto. rewrite Hk. congruence. }
  constructor; try (symmetry; assumption); try assumption.
  destruct Ex as [(Hp & Hrd & Hs)|[(Hp & Hrd & Hjp & Hek)|(Hp & Hrd & Hjp & Hek)]]; subst rd; bsplit.
  - left. repeat split; auto. destruct Hs as [[A B]|[A B]]; [left|right]; split; congruence.
  - right; left. repeat split; auto; congruence.
  - right; right. repeat split; auto; congruence.
Qed.

(* C05, soundness: whatever the validator accepts satisfies every validity rule *)
Theorem accepts_sound net cmt m : accepts net cmt None m = true -> ValidMsg net cmt m.
Proof.
  intros H. unfold accepts in H.
  destruct (lookup_member (cm_members cmt) (g_sender m)) as [mem|] eqn:El; [|discriminate].
  bsplit.
  match goal with H : match g_sig m with _ => _ end = true |- _ => rename H into Hsig end.
  destruct (g_sig m) as [[k pd]|] eqn:Es; [|discriminate]. bsplit.
  match goal with H : pd_eqb _ _ = true |- _ => apply pd_eqb_eq in H; subst pd end.
  match goal with H : (if negb _ then _ else _) = true |- _ => rename H into Hj end.
  match goal with H : (if v_phase (g_vote m) =? 1 then _ else _) = true |- _ => rename H into Hph end.
  assert (Hstep : 1 <= v_phase (g_vote m) <= 5 /\
            (v_phase (g_vote m) = 1 -> v_round (g_vote m) = 0 /\ ck (v_value (g_vote m)) <> 0) /\
            (v_phase (g_vote m) = 2 -> v_round (g_vote m) <> 0 /\ ck (v_value (g_vote m)) <> 0 /\
                                      g_ticket m = Some (mkTk (m_key mem) net (v_inst (g_vote m)) (v_round (g_vote m)))) /\
            (v_phase (g_vote m) = 5 -> v_round (g_vote m) = 0 /\ ck (v_value (g_vote m)) <> 0)).
  { unfold ch_is_zero in Hph.
    destruct (v_phase (g_vote m) =? 1) eqn:P1; [apply Z.eqb_eq in P1; bsplit; repeat split; intros; try lia; auto|apply Z.eqb_neq in P1].
    destruct (v_phase (g_vote m) =? 2) eqn:P2; [apply Z.eqb_eq in P2|apply Z.eqb_neq in P2].
    { bsplit. destruct (g_ticket m) as [[tk tn ti tr]|]; [|discriminate]. bsplit. cbn in *. subst.
      repeat split; intros; try lia; auto. }
    destruct (v_phase (g_vote m) =? 5) eqn:P5; [apply Z.eqb_eq in P5; bsplit; repeat split; intros; try lia; auto|apply Z.eqb_neq in P5].
    apply orb_prop in Hph. destruct Hph as [Hph|Hph]; apply Z.eqb_eq in Hph; repeat split; intros; lia. }
  destruct Hstep as (S1 & S2 & S3 & S4).
  constructor.
  - exists mem. split; [exact El|]. split; [assumption|]. split; [congruence|]. intros P2. apply S3; exact P2.
  - assumption.
  - split; [exact S1|]. split; [exact S2|]. split; [intros P; destruct (S3 P) as (A & B & _); split; assumption|exact S4].
  - fold (needs_just (g_vote m)) in Hj.
    destruct (needs_just (g_vote m)).
    + destruct (g_just m) as [j|] eqn:Ej; [|unfold just_accepts in Hj; rewrite Ej in Hj; discriminate].
      exists j. split; [reflexivity|apply just_accepts_sound; assumption].
    + destruct (g_just m); [discriminate|reflexivity].
Qed.

(* ---------- C13: the two-stage path ---------- *)
Lemma just_sig_ok_set_value net cm j y k : just_sig_ok net cm (set_just_value j y) k = just_sig_ok net cm j k.
Proof. reflexivity. Qed.

(* what FullyValidateMessage establishes *)
Lemma fully_validate_ok p lb m k :
  fully_validate p lb m k = VOk ->
  cvalid (v_value (g_vote m)) = true /\ k = ck (v_value (g_vote m)) /\ by_progress p lb m = None /\
  (k = 0 -> match g_just m with Some j => ck (v_value (j_vote j)) = 0 | None => True end) /\
  match g_just m with
  | None => True
  | Some j =>
      let v := g_vote m in let jp := v_phase (j_vote j) in
      (((v_phase v = 2 \/ v_phase v = 3) /\ ((jp = 4 /\ ck (v_value (j_vote j)) = 0) \/ (jp = 3 /\ ck (v_value (j_vote j)) = ck (v_value v)))) \/
       (v_phase v = 4 /\ jp = 3 /\ ck (v_value (j_vote j)) = ck (v_value v)) \/
       (v_phase v = 5 /\ jp = 4 /\ ck (v_value (j_vote j)) = ck (v_value v)))
  end.
Proof.
  unfold fully_validate.
  destruct (cvalid (v_value (g_vote m))); cbn [negb]; [|discriminate].
  destruct (k =? ck (v_value (g_vote m))) eqn:Ek; cbn [negb]; [|discriminate]. apply Z.eqb_eq in Ek.
  unfold by_progress. destruct (validateByProgress _ _ _ _ _ _ _) as [e|]; cbn [option_map]; [destruct e; discriminate|].
  match goal with |- context [if ?b then VInvalid else _] => destruct b eqn:Ez end; [discriminate|].
  intros H. repeat split; auto.
  - intros K0. destruct (g_just m) as [j|]; [|exact I].
    apply Z.eqb_eq in K0. rewrite K0 in Ez. cbn [andb] in Ez. apply orb_false_elim in Ez. destruct Ez as [_ Ez].
    apply negb_false_iff in Ez. unfold ch_is_zero in Ez. apply Z.eqb_eq in Ez. exact Ez.
  - destruct (g_just m) as [j|]; [|exact I]. cbv zeta.
    destruct ((v_phase (g_vote m) =? 2) || (v_phase (g_vote m) =? 3)) eqn:E23.
    + left. split; [apply orb_prop in E23; destruct E23 as [E|E]; apply Z.eqb_eq in E; auto|].
      destruct (v_phase (j_vote j) =? 4) eqn:J4; [apply Z.eqb_eq in J4|].
      * left. split; [exact J4|]. destruct (ck (v_value (j_vote j)) =? ck zero_chain) eqn:E; [apply Z.eqb_eq in E; exact E|discriminate H].
      * destruct (v_phase (j_vote j) =? 3) eqn:J3; [apply Z.eqb_eq in J3|discriminate H].
        right. split; [exact J3|]. destruct (ck (v_value (j_vote j)) =? ck (v_value (g_vote m))) eqn:E; [apply Z.eqb_eq in E; exact E|discriminate H].
    + destruct (v_phase (g_vote m) =? 4) eqn:E4; [apply Z.eqb_eq in E4|].
      * right; left. destruct (v_phase (j_vote j) =? 3) eqn:J3; [apply Z.eqb_eq in J3|discriminate H].
        repeat split; auto. destruct (ck (v_value (j_vote j)) =? ck (v_value (g_vote m))) eqn:E; [apply Z.eqb_eq in E; exact E|discriminate H].
      * destruct (v_phase (g_vote m) =? 5) eqn:E5; [apply Z.eqb_eq in E5|discriminate H].
        right; right. destruct (v_phase (j_vote j) =? 4) eqn:J4; [apply Z.eqb_eq in J4|discriminate H].
        repeat split; auto. destruct (ck (v_value (j_vote j)) =? ck (v_value (g_vote m))) eqn:E; [apply Z.eqb_eq in E; exact E|discriminate H].
Qed.

(* transfer of the justification check from the partial stage to the completed message *)
Lemma just_accepts_transfer net cm pm k m' j j' :
  g_just pm = Some j -> g_just m' = Some j' ->
  j_signers j' = j_signers j -> j_sig j' = j_sig j ->
  v_inst (j_vote j') = v_inst (j_vote j) -> v_round (j_vote j') = v_round (j_vote j) ->
  v_phase (j_vote j') = v_phase (j_vote j) -> v_supp (j_vote j') = v_supp (j_vote j) ->
  v_inst (g_vote m') = v_inst (g_vote pm) -> v_round (g_vote m') = v_round (g_vote pm) ->
  v_phase (g_vote m') = v_phase (g_vote pm) -> v_supp (g_vote m') = v_supp (g_vote pm) ->
  ck (v_value (g_vote m')) = k -> cvalid (v_value (j_vote j')) = true ->
  (forall rd ekey, expectation (v_phase (g_vote pm)) (v_round (g_vote pm)) (v_phase (j_vote j)) k = Some (rd, ekey) -> ck (v_value (j_vote j')) = ekey) ->
  just_accepts net cm (Some k) pm = true -> just_accepts net cm None m' = true.
Proof.
  intros Hj Hj' Es Eg Ei Er Ep Esu Mi Mr Mp Msu Hk Hv Hex H.
  unfold just_accepts in *. rewrite Hj in H. rewrite Hj'.
  rewrite Mi, Msu, Mp, Mr, Ei, Esu, Ep, Er, Hk, Hv.
  destruct (expectation _ _ _ _) as [[rd ekey]|] eqn:Ex; [|bsplit; discriminate].
  specialize (Hex rd ekey eq_refl).
  assert (Hs : just_sig_ok net cm j' ekey = just_sig_ok net cm j ekey).
  { unfold just_sig_ok. rewrite Es, Eg, Ei, Er, Ep, Esu. reflexivity. }
  rewrite Hs, Hex, Z.eqb_refl.
  destruct (v_inst (g_vote pm) =? v_inst (j_vote j)); [|discriminate H].
  destruct (v_supp (g_vote pm) =? v_supp (j_vote j)); [|discriminate H].
  destruct (cvalid (v_value (j_vote j))); [|discriminate H]. cbn [andb] in *.
  destruct (match rd with Some r => v_round (j_vote j) =? r | None => true end); [|discriminate H].
  cbn [andb] in *. exact H.
Qed.

Lemma expectation_key mp mr jp key rd ekey :
  expectation mp mr jp key = Some (rd, ekey) -> (jp = 4 /\ (mp = 2 \/ mp = 3) /\ ekey = 0) \/ ekey = key.
Proof.
  intros H. apply expectation_shape in H.
  destruct H as [(Hp & _ & [[A B]|[A B]])|[(Hp & _ & A & B)|(Hp & _ & A & B)]]; auto.
Qed.

(* the core of C13: what passed the partial stage and the full stage passes one-shot validation once completed *)
Lemma accepts_transfer net cm p lb pm k x :
  accepts net cm (Some k) pm = true ->
  fully_validate p lb (complete pm k x) k = VOk ->
  accepts net cm None (complete pm k x) = true.
Proof.
  intros Ha Hf. apply fully_validate_ok in Hf. destruct Hf as (Hcv & Hk & _ & Hz & Hjv).
  set (m' := complete pm k x) in *.
  assert (Hsame : g_sender m' = g_sender pm /\ g_sig m' = g_sig pm /\ g_ticket m' = g_ticket pm /\
                  v_inst (g_vote m') = v_inst (g_vote pm) /\ v_round (g_vote m') = v_round (g_vote pm) /\
                  v_phase (g_vote m') = v_phase (g_vote pm) /\ v_supp (g_vote m') = v_supp (g_vote pm)).
  { unfold m', complete. destruct (k =? 0); repeat split. }
  destruct Hsame as (S1 & S2 & S3 & S4 & S5 & S6 & S7).
  assert (Hbot : ch_is_zero (v_value (g_vote m')) = (k =? 0)) by (unfold ch_is_zero; rewrite <- Hk; reflexivity).
  unfold accepts in *. rewrite S1, S2, S3, S4, S5, S6, S7, Hbot, <- Hk, Hcv.
  destruct (lookup_member (cm_members cm) (g_sender pm)) as [mem|]; [|discriminate Ha].
  destruct (negb (m_power mem =? 0)); [|discriminate Ha].
  destruct (cvalid (v_value (g_vote pm))); [|discriminate Ha]. cbn [andb] in *.
  match type of Ha with (?a && ?b && ?c) = true => destruct a; [|discriminate Ha]; destruct b; [|discriminate Ha] end.
  cbn [andb] in *.
  match goal with |- (if ?b then _ else _) = true => destruct b eqn:En end.
  - (* a justification is required *)
    destruct (g_just pm) as [j|] eqn:Ej; [|unfold just_accepts in Ha; rewrite Ej in Ha; discriminate Ha].
    assert (Ej' : exists j', g_just m' = Some j' /\ j_signers j' = j_signers j /\ j_sig j' = j_sig j /\
                  v_inst (j_vote j') = v_inst (j_vote j) /\ v_round (j_vote j') = v_round (j_vote j) /\
                  v_phase (j_vote j') = v_phase (j_vote j) /\ v_supp (j_vote j') = v_supp (j_vote j) /\
                  (v_value (j_vote j') = v_value (j_vote j) \/ v_value (j_vote j') = v_value (g_vote m'))).
    { unfold m', complete. destruct (k =? 0); [exists j; rewrite Ej; repeat split; left; reflexivity|].
      cbn [g_just g_vote]. rewrite Ej.
      match goal with |- context [if ?b then Some (set_just_value j x) else Some j] => destruct b end;
        eexists; (split; [reflexivity|]); repeat split; [right|left]; reflexivity. }
    destruct Ej' as (j' & Ej' & E1 & E2 & E3 & E4 & E5 & E6 & E7).
    rewrite Ej' in Hjv, Hz. cbv zeta in Hjv.
    eapply (just_accepts_transfer net cm pm k m' j j'); eauto.
    + destruct E7 as [E7|E7]; rewrite E7; [|exact Hcv].
      unfold just_accepts in Ha. rewrite Ej in Ha. destruct (cvalid (v_value (j_vote j))); [reflexivity|].
      rewrite !andb_false_r in Ha. discriminate Ha.
    + intros rd ekey Hex. apply expectation_shape in Hex. rewrite S6, E5 in Hjv. rewrite <- Hk in Hjv.
      destruct Hex as [(Hp & _ & [[A B]|[A B]])|[(Hp & _ & A & B)|(Hp & _ & A & B)]]; subst ekey;
      destruct Hjv as [(Hq & [[C D]|[C D]])|[(Hq & C & D)|(Hq & C & D)]]; try lia; try exact D.
  - destruct (g_just pm) eqn:Ej; [discriminate Ha|].
    assert (Ej' : g_just m' = None). { unfold m', complete. destruct (k =? 0); [exact Ej|cbn; rewrite Ej; reflexivity]. }
    rewrite Ej'. reflexivity.
Qed.

(* C13: the two-stage path never admits a message that one-shot validation of the completed message rejects, nor a
   chain whose key differs from the announced key *)
Theorem two_stage_sound net cmts cm c p lb pm k x :
  CacheOK net cmts c -> cmts (v_inst (g_vote pm)) = Some cm ->
  fst (two_stage net (Some cm) c p lb pm k x) = VOk ->
  let m' := complete pm k x in
  k = ck (v_value (g_vote m')) /\ fst (validate_message net (Some cm) cache_empty p lb m') = VOk.
Proof.
  intros HC Hcm H. cbv zeta. unfold two_stage, partially_validate in H.
  destruct (by_progress p lb pm) as [e|] eqn:Ep.
  { unfold by_progress in Ep. destruct (validateByProgress _ _ _ _ _ _ _) as [g|]; [|discriminate Ep]. cbn in Ep. injection Ep as <-. destruct g; cbn in H; discriminate H. }
  pose proof (validate_with_key_verdict net cmts cm c (Some k) pm HC Hcm) as Hv.
  destruct (validate_with_key net (Some cm) c (Some k) pm) as [v c1]. cbn [fst] in Hv.
  destruct v; cbn [fst] in H; try discriminate H.
  assert (Ha : accepts net cm (Some k) pm = true) by (destruct (accepts net cm (Some k) pm); [reflexivity|discriminate Hv]).
  pose proof (accepts_transfer net cm p lb pm k x Ha H) as Hacc.
  apply fully_validate_ok in H. destruct H as (_ & Hk & Hbp & _).
  split; [exact Hk|].
  unfold validate_message. rewrite Hbp.
  assert (Hcm' : cmts (v_inst (g_vote (complete pm k x))) = Some cm).
  { unfold complete. destruct (k =? 0); [exact Hcm|exact Hcm]. }
  rewrite (validate_with_key_verdict net cmts cm cache_empty None _ (CacheOK_empty net cmts) Hcm'), Hacc. reflexivity.
Qed.

(* ---------- strip / complete ---------- *)
Definition wf_chain (c : chainv) : Prop := ck c = 0 -> c = zero_chain.

(* C13: stripping an accepted message and completing it with its own chain reproduces it *)
Theorem strip_complete_id net cm m :
  accepts net cm None m = true ->
  wf_chain (v_value (g_vote m)) -> (forall j, g_just m = Some j -> wf_chain (v_value (j_vote j))) ->
  complete (fst (strip m)) (snd (strip m)) (v_value (g_vote m)) = m.
Proof.
  intros Ha Hw Hwj. apply accepts_sound in Ha. destruct Ha as [_ Hwf _ Hj].
  destruct m as [sender v sg tk oj]. cbn [g_vote g_just] in *.
  unfold strip, complete. cbn [g_vote g_just g_sender g_sig g_ticket fst snd].
  unfold ch_is_zero in *.
  destruct (ck (v_value v) =? 0) eqn:Ez.
  - (* a vote for bottom: nothing is stripped; a justification (if any) is for bottom too *)
    cbn [Z.eqb]. replace (0 =? 0) with true by reflexivity. f_equal.
    destruct oj as [j|]; [|reflexivity].
    destruct (ck (v_value (j_vote j)) =? 0) eqn:Ejz; [reflexivity|].
    exfalso. apply Z.eqb_eq in Ez. apply Z.eqb_neq in Ejz.
    destruct (needs_just v); [|discriminate Hj].
    destruct Hj as (j0 & E & [_ _ _ Hs _]). injection E as <-.
    destruct Hs as [(_ & _ & [[_ B]|[_ B]])|[(_ & _ & _ & B)|(_ & _ & B)]]; congruence.
  - apply Z.eqb_neq in Ez. destruct (ck (v_value v) =? 0) eqn:Ez'; [apply Z.eqb_eq in Ez'; contradiction|].
    destruct v as [vi vr vp vs vv]. cbn [v_value v_inst v_round v_phase v_supp set_value] in *. f_equal.
    destruct oj as [j|]; [|reflexivity].
    destruct (needs_just (mkVote vi vr vp vs vv)) eqn:En; [|discriminate Hj].
    destruct Hj as (j0 & E & [_ _ Hjv Hs _]). injection E as <-.
    destruct j as [[ji jr jp js jv] sgn jsig]. cbn [j_vote v_value v_phase set_just_value set_value v_inst v_round v_supp] in *.
    destruct Hs as [(Hp & _ & [[A B]|[A B]])|[(Hp & _ & A & B)|(Hp & A & B)]].
    + (* justified by COMMIT for bottom: the (zero) justification value is not touched *)
      rewrite B. cbn [Z.eqb]. replace (0 =? 0) with true by reflexivity.
      subst jp. replace (4 =? 3) with false by reflexivity. rewrite !andb_false_r. cbn [orb].
      destruct Hp as [->| ->]; reflexivity.
    + (* justified by PREPARE for the value: stripped and inferred back *)
      assert (Hne : (ck jv =? 0) = false) by (apply Z.eqb_neq; congruence). rewrite Hne.
      cbn [j_vote v_phase set_just_value set_value]. subst jp. 
      assert (Ev : jv = vv). { destruct jv, vv; cbn in *. f_equal; congruence. }
      destruct Hp as [->| ->]; cbn; rewrite Ev; reflexivity.
    + assert (Hne : (ck jv =? 0) = false) by (apply Z.eqb_neq; congruence). rewrite Hne.
      cbn [j_vote v_phase set_just_value set_value]. subst jp vp.
      assert (Ev : jv = vv). { destruct jv, vv; cbn in *. f_equal; congruence. }
      cbn; rewrite Ev; reflexivity.
    + assert (Hne : (ck jv =? 0) = false) by (apply Z.eqb_neq; congruence). rewrite Hne.
      cbn [j_vote v_phase set_just_value set_value]. subst jp vp.
      assert (Ev : jv = vv). { destruct jv, vv; cbn in *. f_equal; congruence. }
      cbn; rewrite Ev; reflexivity.
Qed.

(* ---------- C13, converse: an accepted message passes the two-stage path in its honest wire form ---------- *)
Lemma accepts_strip net cm m :
  accepts net cm None m = true -> wf_chain (v_value (g_vote m)) ->
  accepts net cm (Some (snd (strip m))) (fst (strip m)) = true.
Proof.
  intros Ha Hw. unfold strip. cbn [fst snd].
  set (k := if ch_is_zero (v_value (g_vote m)) then 0 else ck (v_value (g_vote m))).
  assert (Hk : k = ck (v_value (g_vote m))).
  { unfold k, ch_is_zero. destruct (ck (v_value (g_vote m)) =? 0) eqn:E; [apply Z.eqb_eq in E; congruence|reflexivity]. }
  unfold accepts in *. cbn [g_sender g_vote g_sig g_ticket g_just].
  destruct (lookup_member (cm_members cm) (g_sender m)) as [mem|]; [|discriminate Ha].
  set (v' := if ch_is_zero (v_value (g_vote m)) then g_vote m else set_value (g_vote m) zero_chain).
  assert (Hv : v_inst v' = v_inst (g_vote m) /\ v_round v' = v_round (g_vote m) /\ v_phase v' = v_phase (g_vote m) /\
               v_supp v' = v_supp (g_vote m) /\ cvalid (v_value v') = true).
  { unfold v'. destruct (ch_is_zero (v_value (g_vote m))) eqn:Ez; [|repeat split].
    repeat split. unfold ch_is_zero in Ez. apply Z.eqb_eq in Ez. rewrite (Hw Ez). reflexivity. }
  destruct Hv as (V1 & V2 & V3 & V4 & V5). rewrite V1, V2, V3, V4, V5.
  assert (Hb : (k =? 0) = ch_is_zero (v_value (g_vote m))) by (rewrite Hk; reflexivity).
  rewrite Hb, Hk.
  destruct (negb (m_power mem =? 0)); [|discriminate Ha].
  destruct (cvalid (v_value (g_vote m))); [|discriminate Ha]. cbn [andb] in *.
  match type of Ha with (?a && ?b && ?c') = true => destruct a; [|discriminate Ha]; destruct b; [|discriminate Ha] end.
  cbn [andb] in *.
  match goal with |- (if ?b then _ else _) = true => destruct b end.
  - (* justification required *)
    unfold just_accepts in *. cbn [g_just g_vote].
    destruct (g_just m) as [j|]; [|discriminate Ha].
    assert (Hcore : forall j', v_inst (j_vote j') = v_inst (j_vote j) -> v_round (j_vote j') = v_round (j_vote j) ->
                 v_phase (j_vote j') = v_phase (j_vote j) -> v_supp (j_vote j') = v_supp (j_vote j) ->
                 (cvalid (v_value (j_vote j)) = true -> cvalid (v_value (j_vote j')) = true) ->
                 (forall e, just_sig_ok net cm j' e = just_sig_ok net cm j e) ->
                 (v_inst (g_vote m) =? v_inst (j_vote j')) && (v_supp (g_vote m) =? v_supp (j_vote j')) && cvalid (v_value (j_vote j')) &&
                 match expectation (v_phase (g_vote m)) (v_round (g_vote m)) (v_phase (j_vote j')) (ck (v_value (g_vote m))) with
                 | Some (rd, ekey) => (match rd with Some r => v_round (j_vote j') =? r | None => true end) && true && just_sig_ok net cm j' ekey
                 | None => false end = true).
    { intros j' J1 J2 J3 J4 J5 J6. rewrite J1, J2, J3, J4.
      destruct (v_inst (g_vote m) =? v_inst (j_vote j)); [|discriminate Ha].
      destruct (v_supp (g_vote m) =? v_supp (j_vote j)); [|discriminate Ha].
      destruct (cvalid (v_value (j_vote j))) eqn:Ecv; [|discriminate Ha]. rewrite (J5 eq_refl). cbn [andb] in *.
      destruct (expectation _ _ _ _) as [[rd ekey]|]; [|discriminate Ha].
      rewrite J6.
      destruct (match rd with Some r => v_round (j_vote j) =? r | None => true end); [|discriminate Ha].
      cbn [andb] in *. destruct (ck (v_value (j_vote j)) =? ekey); [exact Ha|discriminate Ha]. }
    destruct (ch_is_zero (v_value (j_vote j))); rewrite ?V1, ?V2, ?V3, ?V4.
    + apply (Hcore j); auto.
    + apply (Hcore (set_just_value j zero_chain)); auto.
  - cbn [g_just]. destruct (g_just m); [discriminate Ha|reflexivity].
Qed.

Lemma fully_validate_accepted net cm p lb m :
  accepts net cm None m = true -> by_progress p lb m = None ->
  fully_validate p lb m (ck (v_value (g_vote m))) = VOk.
Proof.
  intros Ha Hp. apply accepts_sound in Ha. destruct Ha as [_ Hwf _ Hj].
  unfold fully_validate. rewrite Hwf, Z.eqb_refl, Hp. cbn [negb].
  destruct (g_just m) as [j|] eqn:Ej.
  - destruct (needs_just (g_vote m)); [|discriminate Hj].
    destruct Hj as (j0 & E & [_ _ _ Hs _]). injection E as <-.
    assert (Hz : ((ck (v_value (g_vote m)) =? 0) && (negb (ch_is_zero (v_value (g_vote m))) || negb (ch_is_zero (v_value (j_vote j))))) = false).
    { unfold ch_is_zero. destruct (ck (v_value (g_vote m)) =? 0) eqn:E0; [|reflexivity]. apply Z.eqb_eq in E0. cbn.
      destruct Hs as [(_ & _ & [[_ B]|[_ B]])|[(_ & _ & _ & B)|(_ & _ & B)]]; rewrite B, ?E0; reflexivity. }
    rewrite Hz.
    destruct Hs as [(Hp' & _ & [[A B]|[A B]])|[(Hp' & _ & A & B)|(Hp' & A & B)]].
    + assert (E23 : ((v_phase (g_vote m) =? 2) || (v_phase (g_vote m) =? 3)) = true) by (destruct Hp' as [->| ->]; reflexivity).
      rewrite E23, A. cbn. rewrite B. reflexivity.
    + assert (E23 : ((v_phase (g_vote m) =? 2) || (v_phase (g_vote m) =? 3)) = true) by (destruct Hp' as [->| ->]; reflexivity).
      rewrite E23, A. cbn. rewrite B, Z.eqb_refl. reflexivity.
    + rewrite Hp', A. cbn. rewrite B, Z.eqb_refl. reflexivity.
    + rewrite Hp', A. cbn. rewrite B, Z.eqb_refl. reflexivity.
  - rewrite andb_false_r || idtac.
    destruct ((ck (v_value (g_vote m)) =? 0) && (negb (ch_is_zero (v_value (g_vote m))) || false)) eqn:Hz; [|reflexivity].
    apply andb_prop in Hz. destruct Hz as [H0 H1]. rewrite orb_false_r in H1. unfold ch_is_zero in H1. rewrite H0 in H1. discriminate H1.
Qed.

(* C13: ... and it accepts every message that one-shot validation accepts, presented in its honest wire form *)
Theorem two_stage_complete net cmts cm c p lb m :
  CacheOK net cmts c -> cmts (v_inst (g_vote m)) = Some cm ->
  accepts net cm None m = true -> by_progress p lb m = None ->
  wf_chain (v_value (g_vote m)) -> (forall j, g_just m = Some j -> wf_chain (v_value (j_vote j))) ->
  fst (two_stage net (Some cm) c p lb (fst (strip m)) (snd (strip m)) (v_value (g_vote m))) = VOk.
Proof.
  intros HC Hcm Ha Hp Hw Hwj.
  pose proof (strip_complete_id net cm m Ha Hw Hwj) as Hid.
  pose proof (accepts_strip net cm m Ha Hw) as Hs.
  assert (Hinst : v_inst (g_vote (fst (strip m))) = v_inst (g_vote m)).
  { unfold strip. cbn. destruct (ch_is_zero (v_value (g_vote m))); reflexivity. }
  assert (Hbp : by_progress p lb (fst (strip m)) = None).
  { unfold by_progress in *. unfold strip. cbn [fst g_vote].
    destruct (ch_is_zero (v_value (g_vote m))); exact Hp. }
  unfold two_stage, partially_validate. rewrite Hbp.
  assert (Hcm' : cmts (v_inst (g_vote (fst (strip m)))) = Some cm) by (rewrite Hinst; exact Hcm).
  pose proof (validate_with_key_verdict net cmts cm c (Some (snd (strip m))) (fst (strip m)) HC Hcm') as Hv.
  destruct (validate_with_key net (Some cm) c (Some (snd (strip m))) (fst (strip m))) as [v c1]. cbn [fst] in Hv.
  rewrite Hs in Hv. subst v. cbn [fst]. rewrite Hid.
  assert (Hk : snd (strip m) = ck (v_value (g_vote m))).
  { unfold strip. cbn [snd]. unfold ch_is_zero. destruct (ck (v_value (g_vote m)) =? 0) eqn:E; [apply Z.eqb_eq in E; congruence|reflexivity]. }
  rewrite Hk. apply (fully_validate_accepted net cm); assumption.
Qed.
