(* Layer N, decisions (C03): whenever the instance reports a decision, the justification is for round 0 of DECIDE,
   lists distinct committee members that each carry non-zero scaled power, each of whom sent a DECIDE for exactly the
   decided value, and together they hold a strong quorum.  Proved for EVERY sequence of deliveries and timers in which
   DECIDE messages come from members with non-zero power and carry round 0 (what validation enforces). *)
From Coq Require Import ZArith List Bool Lia Permutation.
From F3 Require Import GoInt QuorumGen Instance InstanceOrder InstanceVotes.
Import ListNotations.
Open Scope Z_scope.

Section Cfg.
Variable c : config.

Definition sum_power (l : list Z) : Z := fold_right (fun x a => power_of c x + a) 0 l.

(* ---------- sorting helpers ---------- *)
Lemma insert_sorted_perm x l : Permutation (insert_sorted x l) (x :: l).
Proof.
  induction l as [|y l IH]; cbn; [apply Permutation_refl|].
  destruct (x <? y); [apply Permutation_refl|].
  eapply Permutation_trans; [apply perm_skip; exact IH|apply perm_swap].
Qed.
Lemma sortZ_perm l : Permutation (sortZ l) l.
Proof.
  induction l as [|x l IH]; cbn; [apply Permutation_refl|].
  eapply Permutation_trans; [apply insert_sorted_perm|apply perm_skip; exact IH].
Qed.

Lemma NoDup_app_l {A} (l1 l2 : list A) : NoDup (l1 ++ l2) -> NoDup l1.
Proof.
  induction l1 as [|x l1 IH]; cbn; intros H; [constructor|]. inversion H as [|? ? Hn Hr]; subst.
  constructor; [intros Hx; apply Hn; apply in_or_app; left; exact Hx|apply IH; exact Hr].
Qed.

(* ---------- takeQuorum: a prefix of the sorted signers that reaches a strong quorum ---------- *)
Lemma take_quorum_spec l : forall acc pw r,
  take_quorum c l acc pw = Some r ->
  exists l1 l2, l = l1 ++ l2 /\ r = acc ++ l1 /\ isStrongQuorum (pw + sum_power l1) (c_total c) = true.
Proof.
  induction l as [|s l IH]; intros acc pw r H; cbn in H; [discriminate H|].
  destruct (isStrongQuorum (pw + power_of c s) (c_total c)) eqn:E.
  - injection H as <-. exists [s], l. repeat split. cbn. rewrite Z.add_0_r. exact E.
  - destruct (IH _ _ _ H) as (l1 & l2 & -> & -> & Hq). exists (s :: l1), l2. repeat split.
    + rewrite <- app_assoc. reflexivity.
    + cbn. rewrite Z.add_assoc. exact Hq.
Qed.

(* ---------- invariant of a single-vote quorum state ---------- *)
Definition sup_ok (q : qstate) (s : support) : Prop :=
  incl (s_signers s) (q_senders q) /\ NoDup (s_signers s) /\ (forall x, In x (s_signers s) -> 0 < power_of c x).
Definition QInv (q : qstate) : Prop := NoDup (q_senders q) /\ forall s, In s (q_support q) -> sup_ok q s.

Lemma sup_find_In l k s : sup_find l k = Some s -> In s l /\ s_chain s = k.
Proof.
  induction l as [|x l IH]; cbn; [discriminate|]. destruct (chain_eqb (s_chain x) k) eqn:E.
  - intros H; injection H as <-. split; [left; reflexivity|apply chain_eqb_eq; exact E].
  - intros H. destruct (IH H) as [H1 H2]. split; [right; exact H1|exact H2].
Qed.
Lemma sup_set_In l s x : In x (sup_set l s) -> x = s \/ In x l.
Proof.
  induction l as [|y l IH]; cbn; [intros [<-|[]]; left; reflexivity|].
  destruct (chain_eqb (s_chain y) (s_chain s)); cbn; intros [<-|H]; auto.
  destruct (IH H); auto.
Qed.
Lemma memZ_In x l : memZ x l = true <-> In x l.
Proof.
  unfold memZ. rewrite existsb_exists. split.
  - intros (y & Hy & E). apply Z.eqb_eq in E. subst. exact Hy.
  - intros H. exists x. split; [exact H|apply Z.eqb_refl].
Qed.

Lemma QInv_empty : QInv q_empty. Proof. split; [constructor|intros s []]. Qed.

Lemma QInv_receive q sender v : QInv q -> 0 < power_of c sender -> QInv (q_receive c q sender v).
Proof.
  intros [Hnd Hs] Hpw. unfold q_receive. destruct (memZ sender (q_senders q)) eqn:Em; [split; assumption|].
  assert (Hni : ~ In sender (q_senders q)). { intros H. apply memZ_In in H. congruence. }
  unfold q_receive_inner. cbn [q_senders q_spower q_support q_just]. split; cbn [q_senders q_support].
  - apply Permutation_NoDup with (l := sender :: q_senders q); [apply Permutation_cons_append|constructor; assumption].
  - intros s Hin. apply sup_set_In in Hin. destruct Hin as [->|Hin].
    + unfold sup_ok. cbn [s_signers q_senders].
      destruct (sup_find (q_support q) v) as [old|] eqn:Ef.
      * destruct (sup_find_In _ _ _ Ef) as [Hold _]. destruct (Hs old Hold) as (H1 & H2 & H3).
        repeat split.
        -- intros x Hx. apply in_app_or in Hx. destruct Hx as [Hx|[<-|[]]]; apply in_or_app; [left; apply H1; exact Hx|right; left; reflexivity].
        -- apply Permutation_NoDup with (l := sender :: s_signers old); [apply Permutation_cons_append|].
           constructor; [intros Hx; apply Hni, H1; exact Hx|exact H2].
        -- intros x Hx. apply in_app_or in Hx. destruct Hx as [Hx|[<-|[]]]; [apply H3; exact Hx|exact Hpw].
      * cbn. repeat split.
        -- intros x [<-|[]]. apply in_or_app; right; left; reflexivity.
        -- constructor; [intros []|constructor].
        -- intros x [<-|[]]. exact Hpw.
    + destruct (Hs s Hin) as (H1 & H2 & H3). repeat split; try assumption.
      intros x Hx. apply in_or_app; left; apply H1; exact Hx.
Qed.

(* ---------- a good decision report ---------- *)
Definition Good (q : qstate) (j : just) : Prop :=
  j_round j = 0 /\ j_phase j = DECIDE /\ NoDup (j_signers j) /\
  (forall x, In x (j_signers j) -> 0 < power_of c x) /\
  isStrongQuorum (sum_power (j_signers j)) (c_total c) = true /\
  exists s, sup_find (q_support q) (j_value j) = Some s /\ incl (j_signers j) (s_signers s).

Lemma find_sq_for_good q v sg : QInv q -> q_find_sq_for c q v = FsqSome sg -> Good q (build_just 0 DECIDE v sg).
Proof.
  intros [_ Hs] H. unfold q_find_sq_for in H. destruct (sup_find (q_support q) v) as [s|] eqn:Ef; [|discriminate H].
  destruct (s_sq s); [|discriminate H]. destruct (take_quorum c (sortZ (s_signers s)) [] 0) as [r|] eqn:Et; [|discriminate H].
  injection H as <-. destruct (take_quorum_spec _ _ _ _ Et) as (l1 & l2 & El & -> & Hq). cbn [app] in *.
  destruct (sup_find_In _ _ _ Ef) as [Hin _]. destruct (Hs s Hin) as (_ & H2 & H3).
  assert (Hp : Permutation (l1 ++ l2) (s_signers s)) by (rewrite <- El; apply sortZ_perm).
  assert (Hnd : NoDup (l1 ++ l2)) by (eapply Permutation_NoDup; [apply Permutation_sym; exact Hp|exact H2]).
  unfold Good, build_just. cbn [j_round j_phase j_value j_signers]. repeat split.
  - apply NoDup_app_l in Hnd. exact Hnd.
  - intros x Hx. apply H3. eapply Permutation_in; [exact Hp|apply in_or_app; left; exact Hx].
  - exact Hq.
  - exists s. split; [exact Ef|]. intros x Hx. eapply Permutation_in; [exact Hp|apply in_or_app; left; exact Hx].
Qed.

(* more DECIDE votes never invalidate a report *)
Lemma sup_find_set_same l s : sup_find (sup_set l s) (s_chain s) = Some s.
Proof.
  induction l as [|x l IH]; cbn; [rewrite chain_eqb_refl; reflexivity|].
  destruct (chain_eqb (s_chain x) (s_chain s)) eqn:E; cbn; [rewrite chain_eqb_refl; reflexivity|rewrite E; exact IH].
Qed.
Lemma chain_eqb_trans_false a b k : chain_eqb a b = true -> chain_eqb a k = chain_eqb b k.
Proof. intros H. apply chain_eqb_eq in H. subst. reflexivity. Qed.
Lemma sup_find_set_other l s k : chain_eqb (s_chain s) k = false -> sup_find (sup_set l s) k = sup_find l k.
Proof.
  intros Hk. induction l as [|x l IH]; cbn; [rewrite Hk; reflexivity|].
  destruct (chain_eqb (s_chain x) (s_chain s)) eqn:E; cbn.
  - rewrite Hk. rewrite (chain_eqb_trans_false _ _ k E), Hk. reflexivity.
  - destruct (chain_eqb (s_chain x) k); [reflexivity|exact IH].
Qed.
Lemma Good_receive q j sender v : Good q j -> Good (q_receive c q sender v) j.
Proof.
  intros (H1 & H2 & H3 & H4 & H5 & s & Hf & Hi). repeat split; try assumption.
  unfold q_receive. destruct (memZ sender (q_senders q)); [exists s; split; assumption|].
  unfold q_receive_inner. cbn [q_support].
  destruct (chain_eqb v (j_value j)) eqn:E.
  - apply chain_eqb_eq in E. subst v. rewrite Hf.
    set (ns := mkSup (j_value j) _ _ _). exists ns. split.
    + exact (sup_find_set_same (q_support q) ns).
    + cbn. intros x Hx. apply in_or_app; left; apply Hi; exact Hx.
  - exists s. split; [|exact Hi]. rewrite sup_find_set_other; [exact Hf|exact E].
Qed.

(* ---------- runs ---------- *)
(* what validation guarantees about DECIDE messages *)
Definition wfd (e : event) : Prop :=
  match e with EvDeliver _ m _ => m_phase m = DECIDE -> m_round m = 0 /\ 0 < power_of c (m_sender m) | _ => True end.
Lemma wfd_wfe e : wfd e -> wfe e.
Proof. destruct e as [|now m sw|]; cbn; auto. intros H Hm. apply (H Hm). Qed.

Definition DInv (i : inst) : Prop := QInv (i_decision i) /\ forall j, i_term i = Some j -> Good (i_decision i) j.

Lemma DInv_step i e : Inv i -> DInv i -> wfd e -> DInv (step c i e).
Proof.
  intros HI [HQ HT] Hw. destruct (step_ordered c i e HI (wfd_wfe e Hw)) as (_ & _ & _ & _ & [Hd Ht]).
  assert (HQ' : QInv (i_decision (step c i e))).
  { destruct Hd as [->|(now & m & sw & -> & Hm & ->)]; [exact HQ|]. apply QInv_receive; [exact HQ|]. apply (Hw Hm). }
  split; [exact HQ'|]. intros j Hj.
  destruct Ht as [E|(v & sg & E & F1 & F2)].
  - rewrite E in Hj. specialize (HT j Hj).
    destruct Hd as [->|(now & m & sw & _ & _ & ->)]; [exact HT|apply Good_receive; exact HT].
  - rewrite E in Hj. injection Hj as <-. apply find_sq_for_good; assumption.
Qed.

Lemma DInv_new input now : DInv (new_instance input now).
Proof. split; [apply QInv_empty|intros j H; discriminate H]. Qed.

Lemma run_hist_DInv evs : forall i, Inv i -> DInv i -> Forall wfd evs -> DInv (snd (run_hist c i evs)).
Proof.
  induction evs as [|e evs IH]; intros i HI HD Hw; cbn [run_hist]; [exact HD|].
  inversion Hw as [|? ? Hwe Hwr]; subst.
  destruct (step_ordered c (clear_out i) e (Inv_clear_out i HI) (wfd_wfe e Hwe)) as (_ & HI' & _).
  pose proof (DInv_step (clear_out i) e (Inv_clear_out i HI) HD Hwe) as HD'.
  specialize (IH _ HI' HD' Hwr). destruct (run_hist c (step c (clear_out i) e) evs). exact IH.
Qed.

(* C03 (instance part): every reported decision is a verifiable proof *)
Theorem decision_is_proof input now evs j :
  Forall wfd evs ->
  let f := snd (run_hist c (new_instance input now) evs) in
  i_term f = Some j ->
  j_round j = 0 /\ j_phase j = DECIDE /\ NoDup (j_signers j) /\
  (forall x, In x (j_signers j) -> 0 < power_of c x) /\
  isStrongQuorum (sum_power (j_signers j)) (c_total c) = true /\
  exists s, sup_find (q_support (i_decision f)) (j_value j) = Some s /\ incl (j_signers j) (s_signers s).
Proof.
  intros Hw f Hj. destruct (run_hist_DInv evs _ (Inv_new input now) (DInv_new input now) Hw) as [_ HT].
  exact (HT j Hj).
Qed.

End Cfg.
