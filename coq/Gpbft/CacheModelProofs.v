(* The validator's cache only ever answers "already validated" for something that WAS added: for every sequence of Add /
   Contains / RemoveGroupsLessThan on a GroupedSet (any capacities), a positive Contains(g, k) -- and an Add(g, k) that
   reports "already there" -- is preceded by an Add(g, k).  Eviction (generations within a Set, least-recently-used groups,
   pooled Sets) can only forget.  This is what the history-independence theorem of C05 needs from the cache
   (ValidatorProofs: the verdict is the same for ANY cache all of whose entries were validated): with it, no eviction
   policy of the real cache can make a verdict depend on earlier validations. *)
From Coq Require Import ZArith List Bool Lia.
From F3 Require Import CacheModel.
Import ListNotations.
Open Scope Z_scope.

Lemma memZ_In x l : memZ x l = true <-> In x l.
Proof. unfold memZ. rewrite existsb_exists. split; [intros (y & Hy & E); apply Z.eqb_eq in E; subst; exact Hy|intros H; exists x; split; [exact H|apply Z.eqb_refl]]. Qed.

Definition keys (s : cset) : list Z := cs_flip s ++ cs_flop s.
Lemma cs_contains_keys s k : cs_contains s k = true <-> In k (keys s).
Proof. unfold cs_contains, keys. rewrite orb_true_iff, !memZ_In, in_app_iff. reflexivity. Qed.

(* one Set: whatever it holds afterwards was held before or is the key just offered *)
Lemma cs_add_keys ms s k x : In x (keys (fst (cs_contains_or_add ms s k))) -> In x (keys s) \/ x = k.
Proof.
  unfold cs_contains_or_add. destruct (cs_contains s k); cbn [fst]; [left; assumption|].
  destruct (Nat.max 1 ms <=? length (k :: cs_flip s))%nat; unfold keys; cbn [fst cs_flip cs_flop app]; intros H.
  - destruct H as [<-|H]; [right; reflexivity|left; apply in_or_app; left; exact H].
  - destruct H as [<-|H]; [right; reflexivity|left; exact H].
Qed.
(* and the key just offered IS held afterwards: an Add is never forgotten by itself *)
Lemma cs_add_has ms s k : cs_contains (fst (cs_contains_or_add ms s k)) k = true.
Proof.
  unfold cs_contains_or_add. destruct (cs_contains s k) eqn:E; cbn [fst]; [exact E|].
  destruct (Nat.max 1 ms <=? length (k :: cs_flip s))%nat; apply cs_contains_keys; unfold keys; cbn [cs_flip cs_flop app]; left; reflexivity.
Qed.
Lemma cs_add_had ms s k : snd (cs_contains_or_add ms s k) = cs_contains s k.
Proof. unfold cs_contains_or_add. destruct (cs_contains s k); [reflexivity|]. destruct (_ <=? _)%nat; reflexivity. Qed.

(* the invariant: every key of every group was added to THAT group *)
Definition GInv (added : list (Z * Z)) (c : gset) : Prop :=
  forall g s, In (g, s) (g_groups c) -> forall k, In k (keys s) -> In (g, k) added.

Lemma g_find_In l g s : g_find l g = Some s -> In (g, s) l.
Proof.
  induction l as [|[h t] r IH]; cbn; [discriminate|]. destruct (Z.eqb_spec h g) as [->|Hne]; [intros E; injection E as ->; left; reflexivity|intros E; right; exact (IH E)].
Qed.
Lemma g_remove_incl l g : incl (g_remove l g) l.
Proof. induction l as [|[h t] r IH]; cbn; [apply incl_refl|]. destruct (h =? g); [apply incl_tl, incl_refl|]. intros x [<-|Hx]; [left; reflexivity|right; exact (IH x Hx)]. Qed.
Lemma g_update_In l g s' h t : In (h, t) (g_update l g s') -> In (h, t) l \/ (h = g /\ t = s').
Proof.
  induction l as [|[a b] r IH]; cbn; [intros []|]. destruct (Z.eqb_spec a g) as [->|Hne].
  - intros [E|H]; [injection E as <- <-; right; split; reflexivity|left; right; exact H].
  - intros [E|H]; [left; left; exact E|destruct (IH H) as [H1|H1]; [left; right; exact H1|right; exact H1]].
Qed.
Lemma removelast_incl {A} (l : list A) : incl (removelast l) l.
Proof. induction l as [|x [|y r] IH]; cbn; [apply incl_refl|intros z []|]. intros z [<-|Hz]; [left; reflexivity|right; exact (IH z Hz)]. Qed.

Definition added_by (o : cop) : list (Z * Z) := match o with CAdd g k => [(g, k)] | _ => [] end.

Theorem cstep_inv mg ms added c o : GInv added c -> GInv (added_by o ++ added) (fst (cstep mg ms c o)).
Proof.
  intros HI. destruct o as [g k|g k|b]; cbn [cstep added_by app].
  - unfold g_add. destruct (g_find (g_groups c) g) as [s|] eqn:Ef.
    + destruct (cs_contains_or_add ms s k) as [s' had] eqn:Ea. cbn [fst g_groups]. intros h t Hin x Hx.
      destruct (g_update_In _ _ _ _ _ Hin) as [H|(-> & ->) ].
      * right. exact (HI h t H x Hx).
      * pose proof (cs_add_keys ms s k x) as A. rewrite Ea in A. cbn [fst] in A. destruct (A Hx) as [H| ->]; [right; exact (HI g s (g_find_In _ _ _ Ef) x H)|left; reflexivity].
    + destruct (cs_contains_or_add ms cs_empty k) as [s' had] eqn:Ea. cbn [fst g_groups]. intros h t [E|Hin] x Hx.
      * injection E as <- <-. pose proof (cs_add_keys ms cs_empty k x) as A. rewrite Ea in A. cbn [fst] in A.
        destruct (A Hx) as [[]| ->]. left. reflexivity.
      * right. apply (HI h t); [|exact Hx]. destruct (mg <=? length (g_groups c))%nat; [apply removelast_incl; exact Hin|exact Hin].
  - unfold g_contains. destruct (g_find (g_groups c) g) as [s|] eqn:Ef; cbn [fst g_groups]; [|exact HI].
    intros h t [E|Hin] x Hx.
    + injection E as <- <-. exact (HI g s (g_find_In _ _ _ Ef) x Hx).
    + exact (HI h t (g_remove_incl _ _ _ Hin) x Hx).
  - unfold g_remove_lt. cbn [fst g_groups]. intros h t Hin x Hx. apply filter_In in Hin. exact (HI h t (proj1 Hin) x Hx).
Qed.

Fixpoint crun (mg ms : nat) (c : gset) (ops : list cop) : gset :=
  match ops with [] => c | o :: r => crun mg ms (fst (cstep mg ms c o)) r end.
Fixpoint adds (ops : list cop) : list (Z * Z) := match ops with [] => [] | o :: r => adds r ++ added_by o end.

Lemma crun_inv mg ms ops : forall added c, GInv added c -> GInv (adds ops ++ added) (crun mg ms c ops).
Proof.
  induction ops as [|o r IH]; intros added c HI; cbn [crun adds]; [exact HI|].
  rewrite <- app_assoc. apply IH. apply cstep_inv. exact HI.
Qed.
Lemma GInv_empty : GInv [] g_empty.
Proof. intros g s []. Qed.

(* ---------- the statements ---------- *)
(* after ANY history, a positive Contains(g, k) means Add(g, k) occurred in the history *)
Theorem contains_only_what_was_added mg ms ops g k :
  snd (g_contains (crun mg ms g_empty ops) g k) = true -> In (CAdd g k) ops.
Proof.
  intros H. pose proof (crun_inv mg ms ops [] g_empty GInv_empty) as HI. rewrite app_nil_r in HI.
  unfold g_contains in H. destruct (g_find (g_groups (crun mg ms g_empty ops)) g) as [s|] eqn:Ef; cbn [snd] in H; [|discriminate H].
  apply cs_contains_keys in H. specialize (HI g s (g_find_In _ _ _ Ef) k H).
  clear -HI. induction ops as [|o r IH]; cbn [adds] in HI; [destruct HI|]. apply in_app_or in HI. destruct HI as [HI|HI]; [right; exact (IH HI)|].
  destruct o; cbn in HI; try contradiction. destruct HI as [E|[]]. injection E as <- <-. left. reflexivity.
Qed.
(* likewise an Add that reports "already there" *)
Theorem add_reports_old_only_if_added mg ms ops g k :
  snd (g_add mg ms (crun mg ms g_empty ops) g k) = false -> In (CAdd g k) ops.
Proof.
  intros H. apply (contains_only_what_was_added mg ms ops g k). unfold g_add in H. unfold g_contains.
  destruct (g_find (g_groups (crun mg ms g_empty ops)) g) as [s|] eqn:Ef.
  - destruct (cs_contains_or_add ms s k) as [s' had] eqn:Ea. cbn [snd] in *. apply negb_false_iff in H. subst had.
    pose proof (cs_add_had ms s k) as A. rewrite Ea in A. cbn [snd] in A. symmetry. exact A.
  - exfalso. destruct (cs_contains_or_add ms cs_empty k) as [s' had] eqn:Ea. cbn [snd] in H. apply negb_false_iff in H. subst had.
    pose proof (cs_add_had ms cs_empty k) as A. rewrite Ea in A. cbn [snd] in A. discriminate A.
Qed.
(* an Add is remembered at least until something else happens: Contains right after Add *)
Theorem added_is_contained mg ms c g k : snd (g_contains (fst (g_add mg ms c g k)) g k) = true.
Proof.
  unfold g_add. destruct (g_find (g_groups c) g) as [s|] eqn:Ef.
  - destruct (cs_contains_or_add ms s k) as [s' had] eqn:Ea. cbn [fst]. unfold g_contains. cbn [g_groups].
    assert (Hf : g_find (g_update (g_groups c) g s') g = Some s').
    { clear -Ef. induction (g_groups c) as [|[h t] r IH]; cbn in *; [discriminate|]. destruct (Z.eqb_spec h g) as [->|Hne]; cbn; [rewrite Z.eqb_refl; reflexivity|].
      destruct (Z.eqb_spec h g); [contradiction|]. exact (IH Ef). }
    rewrite Hf. cbn [snd]. pose proof (cs_add_has ms s k) as A. rewrite Ea in A. exact A.
  - destruct (cs_contains_or_add ms cs_empty k) as [s' had] eqn:Ea. cbn [fst]. unfold g_contains. cbn [g_groups g_find]. rewrite Z.eqb_refl. cbn [snd].
    pose proof (cs_add_has ms cs_empty k) as A. rewrite Ea in A. exact A.
Qed.

Example cache_example :
  crun_ok 2 2 g_empty [(CAdd 5 1, true); (CAdd 5 1, false); (CContains 5 1, true); (CAdd 5 2, true); (CAdd 5 3, true); (CAdd 5 4, true);
                       (CContains 5 1, false); (CContains 5 4, true); (CAdd 6 1, true); (CAdd 7 1, true); (CContains 5 4, false); (CContains 6 1, true);
                       (CRemoveLt 7, true); (CContains 6 1, false); (CContains 7 1, true)] = true.
Proof. reflexivity. Qed.
