(* Layer N: executable mirror of one GPBFT instance (gpbft/gpbft.go: instance, quorumState, convergeState),
   function by function.  No proofs here.  Chains are lists of tipset tokens, [] = bottom; senders are power-table
   indices; a justification is (round, phase, value, signer indices); ticket ranks are integers (smaller = better;
   the harness passes the order of the real ComputeTicketRank values).  Outputs (broadcast / rebroadcast / alarm /
   decision) and internal errors / panics are recorded in the state.  The quorum predicates are the GENERATED ones. *)
From Coq Require Import ZArith List Bool.
From F3 Require Import GoInt QuorumGen.
Import ListNotations.
Open Scope Z_scope.

Definition chain := list Z.
Inductive phase := INITIAL | QUALITY | CONVERGE | PREPARE | COMMIT | DECIDE | TERMINATED.
Definition phase_code (p : phase) : Z :=
  match p with INITIAL => 0 | QUALITY => 1 | CONVERGE => 2 | PREPARE => 3 | COMMIT => 4 | DECIDE => 5 | TERMINATED => 6 end.
Definition phase_eqb (a b : phase) : bool := phase_code a =? phase_code b.

Fixpoint chain_eqb (a b : chain) : bool :=
  match a, b with [], [] => true | x :: a', y :: b' => (x =? y) && chain_eqb a' b' | _, _ => false end.
Definition is_zero (c : chain) : bool := match c with [] => true | _ => false end.

Record just := mkJ { j_round : Z; j_phase : phase; j_value : chain; j_signers : list Z }.
Record msg := mkM { m_sender : Z; m_round : Z; m_phase : phase; m_value : chain; m_rank : Z; m_just : option just }.

(* ---------- configuration ---------- *)
Record config := mkCfg {
  c_powers : list Z;            (* scaled power by table index *)
  c_total : Z;                  (* ScaledTotal *)
  c_lookahead : Z;              (* maxLookaheadRounds *)
  c_rebro_round : Z;            (* rebroadcastImmediatelyAfterRound *)
  c_quality_timeout : Z;        (* 2 * delta * qualityDeltaMulti at round 0 *)
  c_timeouts : list Z;          (* 2 * delta * exponent^round, by round *)
  c_rebro_after : list Z;       (* rebroadcastAfter(attempt) *)
}.
Definition nthZ (l : list Z) (i : Z) : Z := nth (Z.to_nat i) l (last l 0).
Definition power_of (c : config) (s : Z) : Z := if (s <? 0) || (Z.of_nat (length (c_powers c)) <=? s) then 0 else nth (Z.to_nat s) (c_powers c) 0.

(* ---------- quorum state ---------- *)
Record support := mkSup { s_chain : chain; s_power : Z; s_signers : list Z; s_sq : bool }.
Record qstate := mkQ { q_senders : list Z; q_spower : Z; q_support : list support; q_just : list (chain * just) }.
Definition q_empty : qstate := mkQ [] 0 [] [].
Definition memZ (x : Z) (l : list Z) : bool := existsb (Z.eqb x) l.

Fixpoint sup_find (l : list support) (k : chain) : option support :=
  match l with [] => None | s :: r => if chain_eqb (s_chain s) k then Some s else sup_find r k end.
Fixpoint sup_set (l : list support) (s : support) : list support :=
  match l with [] => [s] | x :: r => if chain_eqb (s_chain x) (s_chain s) then s :: r else x :: sup_set r s end.

(* receiveInner *)
Definition q_receive_inner (c : config) (q : qstate) (sender : Z) (v : chain) (pw : Z) : qstate :=
  let cand := match sup_find (q_support q) v with Some s => s | None => mkSup v 0 [] false end in
  let p := s_power cand + pw in
  mkQ (q_senders q) (q_spower q) (sup_set (q_support q) (mkSup v p (s_signers cand ++ [sender]) (isStrongQuorum p (c_total c)))) (q_just q).
(* receiveSender + Receive *)
Definition q_receive (c : config) (q : qstate) (sender : Z) (v : chain) : qstate :=
  if memZ sender (q_senders q) then q else
  let pw := power_of c sender in
  q_receive_inner c (mkQ (q_senders q ++ [sender]) (q_spower q + pw) (q_support q) (q_just q)) sender v pw.
(* ReceiveEachPrefix (QUALITY): every prefix longer than the base *)
Fixpoint prefixes_from (acc rest : chain) : list chain :=
  match rest with [] => [] | x :: r => (acc ++ [x]) :: prefixes_from (acc ++ [x]) r end.
(* `for j := range values.Suffix() { values.Prefix(j+1) }`: the base-only prefix is NOT recorded *)
Definition all_prefixes (v : chain) : list chain := match v with [] => [] | b :: r => prefixes_from [b] r end.
Definition q_receive_prefixes (c : config) (q : qstate) (sender : Z) (v : chain) : qstate :=
  if memZ sender (q_senders q) then q else
  let pw := power_of c sender in
  fold_left (fun q p => q_receive_inner c q sender p pw) (all_prefixes v)
            (mkQ (q_senders q ++ [sender]) (q_spower q + pw) (q_support q) (q_just q)).
Definition q_receive_just (q : qstate) (v : chain) (j : just) : qstate :=
  if existsb (fun e => chain_eqb (fst e) v) (q_just q) then q else mkQ (q_senders q) (q_spower q) (q_support q) (q_just q ++ [(v, j)]).

Definition q_has_sq (q : qstate) (k : chain) : bool := match sup_find (q_support q) k with Some s => s_sq s | None => false end.
Definition q_from_strong (c : config) (q : qstate) : bool := isStrongQuorum (q_spower q) (c_total c).
Definition q_from_weak (c : config) (q : qstate) : bool := hasWeakQuorum (q_spower q) (c_total c).
Definition q_could_reach (c : config) (q : qstate) (k : chain) (adv : bool) : bool :=
  match sup_find (q_support q) k with
  | Some s => couldReachStrongQuorumFor adv (s_power s) true (q_spower q) (c_total c)
  | None => couldReachStrongQuorumFor adv 0 false (q_spower q) (c_total c)
  end.
(* GetJustificationOf *)
Definition q_get_just (q : qstate) (ph : phase) (k : chain) : option just :=
  match k with
  | [] => match filter (fun e => is_zero (j_value (snd e)) && phase_eqb (j_phase (snd e)) ph) (q_just q) with e :: _ => Some (snd e) | [] => None end
  | _ => match filter (fun e => chain_eqb (fst e) k) (q_just q) with
         | e :: _ => if phase_eqb (j_phase (snd e)) ph then Some (snd e) else None
         | [] => None end
  end.
Definition q_has_just (q : qstate) (ph : phase) (k : chain) : bool := match q_get_just q ph k with Some _ => true | None => false end.

(* FindStrongQuorumFor: signers sorted by table index, minimal prefix reaching a strong quorum *)
Fixpoint insert_sorted (x : Z) (l : list Z) : list Z :=
  match l with [] => [x] | y :: r => if x <? y then x :: l else y :: insert_sorted x r end.
Definition sortZ (l : list Z) : list Z := fold_right insert_sorted [] l.
Fixpoint take_quorum (c : config) (signers : list Z) (acc : list Z) (pw : Z) : option (list Z) :=
  match signers with
  | [] => None
  | s :: r => let pw' := pw + power_of c s in
              if isStrongQuorum pw' (c_total c) then Some (acc ++ [s]) else take_quorum c r (acc ++ [s]) pw'
  end.
Inductive fsq := FsqNone | FsqPanic | FsqSome (signers : list Z).
Definition q_find_sq_for (c : config) (q : qstate) (k : chain) : fsq :=
  match sup_find (q_support q) k with
  | Some s => if s_sq s then match take_quorum c (sortZ (s_signers s)) [] 0 with Some l => FsqSome l | None => FsqPanic end else FsqNone
  | None => FsqNone
  end.
(* FindStrongQuorumValue: panics if several values have a strong quorum *)
Inductive fsv := FsvNone | FsvPanic | FsvSome (v : chain).
Definition q_find_sq_value (q : qstate) : fsv :=
  match filter s_sq (q_support q) with [] => FsvNone | [s] => FsvSome (s_chain s) | _ => FsvPanic end.
Definition q_all_values (q : qstate) : list chain := map s_chain (q_support q).
(* FindStrongQuorumValueForLongestPrefixOf *)
Definition q_longest_prefix (q : qstate) (preferred : chain) : chain :=
  match filter (q_has_sq q) (rev (all_prefixes preferred)) with p :: _ => p | [] => firstn 1 preferred end.

(* ---------- converge state ---------- *)
Record cvalue := mkCV { cv_chain : chain; cv_just : just; cv_rank : option Z (* None = +Inf (self value) *) }.
Record cstate := mkC { cs_senders : list Z; cs_values : list cvalue }.
Definition c_empty : cstate := mkC [] [].
Fixpoint cv_find (l : list cvalue) (k : chain) : option cvalue :=
  match l with [] => None | v :: r => if chain_eqb (cv_chain v) k then Some v else cv_find r k end.
Fixpoint cv_set (l : list cvalue) (v : cvalue) : list cvalue :=
  match l with [] => [v] | x :: r => if chain_eqb (cv_chain x) (cv_chain v) then v :: r else x :: cv_set r v end.
Definition c_set_self (s : cstate) (v : chain) (j : just) : cstate :=
  match cv_find (cs_values s) v with Some _ => s | None => mkC (cs_senders s) (cs_values s ++ [mkCV v j None]) end.
Definition rank_lt (a : Z) (b : option Z) : bool := match b with None => true | Some y => a <? y end.
(* Receive: error on bottom value or nil justification *)
Definition c_receive (s : cstate) (sender : Z) (v : chain) (rank : Z) (j : option just) : option cstate :=
  match v, j with
  | [], _ => None
  | _, None => None
  | _, Some jj =>
      if memZ sender (cs_senders s) then Some s else
      let s1 := mkC (cs_senders s ++ [sender]) (cs_values s) in
      match cv_find (cs_values s) v with
      | None => Some (mkC (cs_senders s1) (cs_values s ++ [mkCV v jj (Some rank)]))
      | Some old => if rank_lt rank (cv_rank old) then Some (mkC (cs_senders s1) (cv_set (cs_values s) (mkCV v (cv_just old) (Some rank)))) else Some s1
      end
  end.
(* FindBestTicketProposal: smallest rank among the values passing the filter; ties -> first *)
Definition better (best : option cvalue) (v : cvalue) : bool :=
  match best with
  | None => true
  | Some b => match cv_rank v, cv_rank b with
              | Some x, Some y => x <? y
              | Some _, None => true
              | None, _ => false
              end
  end.
Definition c_find_best (s : cstate) (f : cvalue -> bool) : option cvalue :=
  fold_left (fun best v => if better best v && f v then Some v else best) (cs_values s) None.
Definition c_get_just (s : cstate) (ph : phase) (k : chain) : option just :=
  match k with
  | [] => match filter (fun v => is_zero (j_value (cv_just v)) && phase_eqb (j_phase (cv_just v)) ph) (cs_values s) with v :: _ => Some (cv_just v) | [] => None end
  | _ => match cv_find (cs_values s) k with Some v => if phase_eqb (j_phase (cv_just v)) ph then Some (cv_just v) else None | None => None end
  end.
Definition c_has_just (s : cstate) (ph : phase) (k : chain) : bool := match c_get_just s ph k with Some _ => true | None => false end.

(* ---------- instance ---------- *)
Record rstate := mkR { r_conv : cstate; r_prep : qstate; r_comm : qstate }.
Definition r_empty : rstate := mkR c_empty q_empty q_empty.

Inductive out :=
| OBroadcast (round : Z) (ph : phase) (v : chain) (j : option just) (ticket : bool)
| ORebroadcast (round : Z) (ph : phase)
| OAlarm (t : Z).

Inductive ierr := EConvergeMsg | ENoConvergeValue | EPhase
                | PBeginConverge | PBeginCommit | PBeginDecide | PTryDecide | PNextRound | PMultiQuorum | PFindQuorum.

Record inst := mkI {
  i_input : chain; i_proposal : chain; i_value : chain; i_cands : list chain;
  i_quality : qstate; i_rounds : list (Z * rstate); i_decision : qstate;
  i_round : Z; i_phase : phase;
  i_ptimeout : Z; i_rtimeout : option Z; i_rattempts : Z;
  i_term : option just;
  i_now : Z; i_out : list out (* newest first *); i_err : option ierr;
}.

Fixpoint rget (l : list (Z * rstate)) (r : Z) : rstate :=
  match l with [] => r_empty | (k, s) :: t => if k =? r then s else rget t r end.
Fixpoint rset (l : list (Z * rstate)) (r : Z) (s : rstate) : list (Z * rstate) :=
  match l with [] => [(r, s)] | (k, x) :: t => if k =? r then (r, s) :: t else (k, x) :: rset t r s end.
Definition get_round (i : inst) (r : Z) : rstate := rget (i_rounds i) r.

(* setters *)
Definition emit (i : inst) (o : out) : inst :=
  mkI (i_input i) (i_proposal i) (i_value i) (i_cands i) (i_quality i) (i_rounds i) (i_decision i) (i_round i) (i_phase i)
      (i_ptimeout i) (i_rtimeout i) (i_rattempts i) (i_term i) (i_now i) (o :: i_out i) (i_err i).
Definition fail (i : inst) (e : ierr) : inst :=
  mkI (i_input i) (i_proposal i) (i_value i) (i_cands i) (i_quality i) (i_rounds i) (i_decision i) (i_round i) (i_phase i)
      (i_ptimeout i) (i_rtimeout i) (i_rattempts i) (i_term i) (i_now i) (i_out i) (match i_err i with Some e0 => Some e0 | None => Some e end).
Definition set_round_state (i : inst) (r : Z) (s : rstate) : inst :=
  mkI (i_input i) (i_proposal i) (i_value i) (i_cands i) (i_quality i) (rset (i_rounds i) r s) (i_decision i) (i_round i) (i_phase i)
      (i_ptimeout i) (i_rtimeout i) (i_rattempts i) (i_term i) (i_now i) (i_out i) (i_err i).
Definition set_pv (i : inst) (p v : chain) : inst :=
  mkI (i_input i) p v (i_cands i) (i_quality i) (i_rounds i) (i_decision i) (i_round i) (i_phase i)
      (i_ptimeout i) (i_rtimeout i) (i_rattempts i) (i_term i) (i_now i) (i_out i) (i_err i).
Definition set_cands (i : inst) (c : list chain) : inst :=
  mkI (i_input i) (i_proposal i) (i_value i) c (i_quality i) (i_rounds i) (i_decision i) (i_round i) (i_phase i)
      (i_ptimeout i) (i_rtimeout i) (i_rattempts i) (i_term i) (i_now i) (i_out i) (i_err i).
Definition set_quality (i : inst) (q : qstate) : inst :=
  mkI (i_input i) (i_proposal i) (i_value i) (i_cands i) q (i_rounds i) (i_decision i) (i_round i) (i_phase i)
      (i_ptimeout i) (i_rtimeout i) (i_rattempts i) (i_term i) (i_now i) (i_out i) (i_err i).
Definition set_decision (i : inst) (q : qstate) : inst :=
  mkI (i_input i) (i_proposal i) (i_value i) (i_cands i) (i_quality i) (i_rounds i) q (i_round i) (i_phase i)
      (i_ptimeout i) (i_rtimeout i) (i_rattempts i) (i_term i) (i_now i) (i_out i) (i_err i).
Definition set_progress (i : inst) (r : Z) (p : phase) : inst :=
  mkI (i_input i) (i_proposal i) (i_value i) (i_cands i) (i_quality i) (i_rounds i) (i_decision i) r p
      (i_ptimeout i) (i_rtimeout i) (i_rattempts i) (i_term i) (i_now i) (i_out i) (i_err i).
Definition set_timers (i : inst) (pt : Z) (rt : option Z) (ra : Z) : inst :=
  mkI (i_input i) (i_proposal i) (i_value i) (i_cands i) (i_quality i) (i_rounds i) (i_decision i) (i_round i) (i_phase i)
      pt rt ra (i_term i) (i_now i) (i_out i) (i_err i).
Definition set_term (i : inst) (j : just) : inst :=
  mkI (i_input i) (i_proposal i) (i_value i) (i_cands i) (i_quality i) (i_rounds i) (i_decision i) (i_round i) (i_phase i)
      (i_ptimeout i) (i_rtimeout i) (i_rattempts i) (Some j) (i_now i) (i_out i) (i_err i).
Definition set_now (i : inst) (t : Z) : inst :=
  mkI (i_input i) (i_proposal i) (i_value i) (i_cands i) (i_quality i) (i_rounds i) (i_decision i) (i_round i) (i_phase i)
      (i_ptimeout i) (i_rtimeout i) (i_rattempts i) (i_term i) t (i_out i) (i_err i).

Definition new_instance (input : chain) (now : Z) : inst :=
  mkI input input [] [firstn 1 input] q_empty [(0, r_empty)] q_empty 0 INITIAL 0 None 0 None now [] None.

Definition reset_rebroadcast (i : inst) : inst := set_timers i (i_ptimeout i) None 0.
Definition phase_timeout_elapsed (i : inst) : bool := i_ptimeout i <=? i_now i.
Definition should_rebroadcast (c : config) (i : inst) : bool := phase_timeout_elapsed i || (c_rebro_round c <? i_round i).
Definition is_candidate (i : inst) (v : chain) : bool := existsb (chain_eqb v) (i_cands i).
Definition add_candidate (i : inst) (v : chain) : inst * bool :=
  if is_candidate i v then (i, false) else (set_cands i (i_cands i ++ [v]), true).
(* addCandidatePrefixes: the chain and every prefix of it (length >= 2; the base is always a candidate), longest first *)
Definition add_candidate_prefixes (i : inst) (v : chain) : inst :=
  fold_left (fun i p => fst (add_candidate i p)) (rev (all_prefixes v)) i.

(* alarmAfterSynchronyWithMulti *)
Definition alarm_after (c : config) (i : inst) (quality : bool) : inst :=
  let d := if quality then c_quality_timeout c else nthZ (c_timeouts c) (i_round i) in
  let t := i_now i + d in
  emit (set_timers i t (i_rtimeout i) (i_rattempts i)) (OAlarm t).

Definition build_just (round : Z) (ph : phase) (v : chain) (signers : list Z) : just := mkJ round ph v signers.

(* rebroadcast *)
Definition do_rebroadcast (i : inst) : inst :=
  match i_phase i with
  | QUALITY | CONVERGE | PREPARE | COMMIT =>
      let i := emit i (ORebroadcast 0 QUALITY) in
      let i := emit (emit (emit i (ORebroadcast (i_round i) COMMIT)) (ORebroadcast (i_round i) PREPARE)) (ORebroadcast (i_round i) CONVERGE) in
      if 0 <? i_round i then emit (emit (emit i (ORebroadcast (i_round i - 1) COMMIT)) (ORebroadcast (i_round i - 1) PREPARE)) (ORebroadcast (i_round i - 1) CONVERGE) else i
  | DECIDE => emit i (ORebroadcast 0 DECIDE)
  | _ => i
  end.

(* tryRebroadcast *)
Definition try_rebroadcast (c : config) (i : inst) : inst :=
  match i_rtimeout i with
  | None =>
      if i_rattempts i =? 0 then
        let offset := if phase_eqb (i_phase i) DECIDE || (c_rebro_round c <? i_round i) then i_now i else i_ptimeout i in
        let rt := offset + nthZ (c_rebro_after c) 0 in
        let i1 := set_timers i (i_ptimeout i) (Some rt) (i_rattempts i) in
        if phase_timeout_elapsed i1 then emit i1 (OAlarm rt)
        else if rt <? i_ptimeout i1 then emit i1 (OAlarm rt)
        else reset_rebroadcast i1
      else (* attempts > 0 with a zero timeout cannot happen: attempts are only incremented together with a timeout *) i
  | Some rt =>
      if rt <=? i_now i then
        let i1 := do_rebroadcast i in
        let a := i_rattempts i1 + 1 in
        let rt' := i_now i1 + nthZ (c_rebro_after c) a in
        let i2 := set_timers i1 (i_ptimeout i1) (Some rt') a in
        if phase_timeout_elapsed i2 then emit i2 (OAlarm rt')
        else if rt' <? i_ptimeout i2 then emit i2 (OAlarm rt')
        else emit i2 (OAlarm (i_ptimeout i2))
      else i
  end.

Definition broadcast (i : inst) (round : Z) (ph : phase) (v : chain) (ticket : bool) (j : option just) : inst :=
  emit i (OBroadcast round ph v j ticket).

(* beginPrepare / beginCommit / beginDecide / beginConverge / beginNextRound / skips *)
Definition begin_prepare (c : config) (i : inst) (j : option just) : inst :=
  let i := set_progress i (i_round i) PREPARE in
  let i := reset_rebroadcast (alarm_after c i false) in
  broadcast i (i_round i) PREPARE (i_value i) false j.

Definition begin_commit (c : config) (i : inst) : inst :=
  let i := set_progress i (i_round i) COMMIT in
  let i := reset_rebroadcast (alarm_after c i false) in
  match i_value i with
  | [] => broadcast i (i_round i) COMMIT [] false None
  | v =>
      let cur := get_round i (i_round i) in
      let nxt := get_round i (i_round i + 1) in
      match q_find_sq_for c (r_prep cur) v with
      | FsqSome signers => broadcast i (i_round i) COMMIT v false (Some (build_just (i_round i) PREPARE v signers))
      | FsqPanic => fail i PFindQuorum
      | FsqNone =>
          match q_get_just (r_comm cur) PREPARE v with
          | Some j => broadcast i (i_round i) COMMIT v false (Some j)
          | None => match q_get_just (r_prep nxt) PREPARE v with
                    | Some j => broadcast i (i_round i) COMMIT v false (Some j)
                    | None => match c_get_just (r_conv nxt) PREPARE v with
                              | Some j => broadcast i (i_round i) COMMIT v false (Some j)
                              | None => fail i PBeginCommit
                              end
                    end
          end
      end
  end.

Definition begin_decide (c : config) (i : inst) (round : Z) : inst :=
  let i := reset_rebroadcast (set_progress i (i_round i) DECIDE) in
  match q_find_sq_for c (r_comm (get_round i round)) (i_value i) with
  | FsqSome signers => broadcast i 0 DECIDE (i_value i) false (Some (build_just round COMMIT (i_value i) signers))
  | _ => fail i PBeginDecide
  end.

Definition skip_to_decide (i : inst) (v : chain) (j : option just) : inst :=
  let i := set_progress i (i_round i) DECIDE in
  let i := reset_rebroadcast (set_pv i v v) in
  broadcast i 0 DECIDE v false j.

Definition begin_converge (c : config) (i : inst) (j : just) : inst :=
  if negb (j_round j =? i_round i - 1) then fail i PBeginConverge else
  let i := set_progress i (i_round i) CONVERGE in
  let i := reset_rebroadcast (alarm_after c i false) in
  let rs := get_round i (i_round i) in
  let i := set_round_state i (i_round i) (mkR (c_set_self (r_conv rs) (i_proposal i) j) (r_prep rs) (r_comm rs)) in
  broadcast i (i_round i) CONVERGE (i_proposal i) true (Some j).

Definition begin_next_round (c : config) (i : inst) : inst :=
  let i := set_progress i (i_round i + 1) (i_phase i) in
  let cur := get_round i (i_round i) in
  let prev := get_round i (i_round i - 1) in
  match q_find_sq_for c (r_comm prev) [] with
  | FsqSome signers => begin_converge c i (build_just (i_round i - 1) COMMIT [] signers)
  | FsqPanic => fail i PFindQuorum
  | FsqNone =>
      match q_get_just (r_prep cur) COMMIT [] with
      | Some j => begin_converge c i j
      | None => match c_get_just (r_conv cur) COMMIT [] with
                | Some j => begin_converge c i j
                | None => match filter (fun e => chain_eqb (fst e) (i_proposal i)) (q_just (r_comm prev)) with
                          | e :: _ => begin_converge c i (snd e)
                          | [] => fail i PNextRound
                          end
                end
      end
  end.

Definition skip_to_round (c : config) (i : inst) (round : Z) (v : chain) (j : just) : inst :=
  let i := set_progress i round (i_phase i) in
  let i := if phase_eqb (i_phase i) QUALITY then
             let p := q_longest_prefix (i_quality i) (i_input i) in
             let i0 := add_candidate_prefixes (set_pv i p (i_value i)) p in set_pv i0 p p
           else i in
  let i := if phase_eqb (j_phase j) PREPARE then let i1 := fst (add_candidate i v) in set_pv i1 v (i_value i1) else i in
  begin_converge c i j.

Definition terminate (i : inst) (j : just) : inst :=
  let i := set_progress i (i_round i) TERMINATED in
  reset_rebroadcast (set_term (set_pv i (i_proposal i) (j_value j)) j).

(* try* *)
Definition try_quality (c : config) (i : inst) : inst :=
  if q_has_sq (i_quality i) (i_proposal i) || phase_timeout_elapsed i then
    let p := q_longest_prefix (i_quality i) (i_input i) in
    let i := add_candidate_prefixes (set_pv i p (i_value i)) p in
    begin_prepare c (set_pv i p p) None
  else i.

Definition update_candidates_from_quality (i : inst) : inst :=
  add_candidate_prefixes i (q_longest_prefix (i_quality i) (i_input i)).

Definition try_converge (c : config) (i : inst) : inst :=
  if negb (phase_timeout_elapsed i) then (if should_rebroadcast c i then try_rebroadcast c i else i) else
  let commit_prev := r_comm (get_round i (i_round i - 1)) in
  let valid := fun cv => is_candidate i (cv_chain cv) ||
                         (phase_eqb (j_phase (cv_just cv)) PREPARE && q_could_reach c commit_prev (cv_chain cv) true) in
  match c_find_best (r_conv (get_round i (i_round i))) valid with
  | None => fail i ENoConvergeValue
  | Some w =>
      let i := fst (add_candidate i (cv_chain w)) in
      begin_prepare c (set_pv i (cv_chain w) (cv_chain w)) (Some (cv_just w))
  end.

Definition try_prepare (c : config) (i : inst) : inst :=
  let cur := get_round i (i_round i) in
  let nxt := get_round i (i_round i + 1) in
  let k := i_proposal i in
  let found := q_has_sq (r_prep cur) k in
  let not_possible := negb (q_could_reach c (r_prep cur) k false) in
  let complete := phase_timeout_elapsed i && q_from_strong c (r_prep cur) in
  let foundj := q_has_just (r_comm cur) PREPARE k || q_has_just (r_prep nxt) PREPARE k || c_has_just (r_conv nxt) PREPARE k in
  let i1 := if found || foundj then set_pv i (i_proposal i) (i_proposal i)
            else if not_possible || complete then set_pv i (i_proposal i) [] else i in
  if found || foundj || not_possible || complete then begin_commit c i1
  else if should_rebroadcast c i1 then try_rebroadcast c i1 else i1.

(* tryCommit: `sway` is the value the implementation adopted when several non-bottom COMMIT values are present
   (Go map iteration order): it must be one of them; with at most one candidate it is ignored *)
Definition try_commit (c : config) (i : inst) (round : Z) (sway : option chain) : inst :=
  let comm := r_comm (get_round i round) in
  let nxt := get_round i (round + 1) in
  let complete := phase_timeout_elapsed i && q_from_strong c comm in
  let bottomj := q_has_just (r_prep nxt) COMMIT [] || c_has_just (r_conv nxt) COMMIT [] in
  match q_find_sq_value comm with
  | FsvPanic => fail i PMultiQuorum
  | fsv =>
      match fsv with
      | FsvSome (x :: v) => begin_decide c (set_pv i (i_proposal i) (x :: v)) round
      | _ =>
          if negb (i_round i =? round) || negb (phase_eqb (i_phase i) COMMIT) then i else
          if (match fsv with FsvSome _ => true | _ => false end) || bottomj then begin_next_round c i else
          if complete then
            let nz := filter (fun v => negb (is_zero v)) (q_all_values comm) in
            let pick := match sway with
                        | Some s => if existsb (chain_eqb s) nz then Some s else hd_error nz
                        | None => hd_error nz end in
            let i1 := match pick with
                      | Some v => let i0 := fst (add_candidate i v) in
                                  if chain_eqb v (i_proposal i0) then i0 else set_pv i0 v (i_value i0)
                      | None => i end in
            begin_next_round c i1
          else if should_rebroadcast c i then try_rebroadcast c i else i
      end
  end.

Definition try_decide (c : config) (i : inst) : inst :=
  match q_find_sq_value (i_decision i) with
  | FsvPanic => fail i PMultiQuorum
  | FsvSome v =>
      match q_find_sq_for c (i_decision i) v with
      | FsqSome signers => terminate i (build_just 0 DECIDE v signers)
      | _ => fail i PTryDecide
      end
  | FsvNone => try_rebroadcast c i
  end.

Definition try_current_phase (c : config) (i : inst) (sway : option chain) : inst :=
  match i_phase i with
  | QUALITY => try_quality c i
  | CONVERGE => try_converge c i
  | PREPARE => try_prepare c i
  | COMMIT => try_commit c i (i_round i) sway
  | DECIDE => try_decide c i
  | TERMINATED => i
  | INITIAL => fail i EPhase
  end.

(* Start = beginQuality *)
Definition begin_quality (c : config) (i : inst) : inst :=
  if negb (phase_eqb (i_phase i) INITIAL) then fail i EPhase else
  let i := set_progress i (i_round i) QUALITY in
  let i := reset_rebroadcast (alarm_after c i true) in
  broadcast i (i_round i) QUALITY (i_proposal i) false None.

Definition is_spammable (m : msg) : bool := (match m_just m with None => true | Some _ => false end) && (0 <? m_round m).

(* shouldSkipToRound / postReceive for one round *)
Definition post_receive (c : config) (i : inst) (round : Z) : inst :=
  if (round <=? i_round i) || phase_eqb (i_phase i) DECIDE then i else
  let st := get_round i round in
  if negb (q_from_weak c (r_prep st)) then i else
  match c_find_best (r_conv st) (fun _ => true) with
  | Some w => skip_to_round c i round (cv_chain w) (cv_just w)
  | None => i
  end.

(* receiveOne: returns the new state and whether the state may have changed *)
Definition receive_one (c : config) (i : inst) (m : msg) (sway : option chain) : inst * bool :=
  if phase_eqb (i_phase i) TERMINATED then (i, false) else
  let prior := m_round m <? i_round i in
  if prior && (phase_eqb (m_phase m) CONVERGE || phase_eqb (m_phase m) PREPARE) then (i, false) else
  if (i_round i + c_lookahead c <? m_round m) && is_spammable m then (i, false) else
  let rs := get_round i (m_round m) in
  match m_phase m with
  | QUALITY =>
      let i1 := set_quality i (q_receive_prefixes c (i_quality i) (m_sender m) (m_value m)) in
      (* getRound has materialised the message's round *)
      let i1 := set_round_state i1 (m_round m) rs in
      if negb (phase_eqb (i_phase i1) QUALITY) then (update_candidates_from_quality i1, true)
      else (try_current_phase c i1 sway, true)
  | CONVERGE =>
      match c_receive (r_conv rs) (m_sender m) (m_value m) (m_rank m) (m_just m) with
      | None => (fail i EConvergeMsg, false)
      | Some cs => (try_current_phase c (set_round_state i (m_round m) (mkR cs (r_prep rs) (r_comm rs))) sway, true)
      end
  | PREPARE =>
      let q := q_receive c (r_prep rs) (m_sender m) (m_value m) in
      let q := match m_just m with Some j => q_receive_just q (m_value m) j | None => q end in
      (try_current_phase c (set_round_state i (m_round m) (mkR (r_conv rs) q (r_comm rs))) sway, true)
  | COMMIT =>
      let q := q_receive c (r_comm rs) (m_sender m) (m_value m) in
      let q := match m_value m, m_just m with
               | _ :: _, Some j => q_receive_just q (m_value m) j
               | _, _ => q end in
      let i1 := set_round_state i (m_round m) (mkR (r_conv rs) (r_prep rs) q) in
      if negb (phase_eqb (i_phase i1) DECIDE) then
        let i2 := try_commit c i1 (m_round m) sway in
        let again := (match i_err i2 with None => true | Some _ => false end) && phase_eqb (i_phase i2) PREPARE &&
                     (i_round i2 =? m_round m) && negb (is_zero (m_value m)) in
        if again then (try_current_phase c i2 sway, true) else (i2, true)
      else (try_current_phase c i1 sway, true)
  | DECIDE =>
      let i1 := set_decision i (q_receive c (i_decision i) (m_sender m) (m_value m)) in
      let i1 := set_round_state i1 (m_round m) rs in
      let i2 := if negb (phase_eqb (i_phase i1) DECIDE) then skip_to_decide i1 (m_value m) (m_just m) else i1 in
      (try_current_phase c i2 sway, true)
  | _ => (fail i EPhase, false)
  end.

(* ---------- events ---------- *)
Inductive event :=
| EvStart (now : Z)
| EvDeliver (now : Z) (m : msg) (sway : option chain)
| EvAlarm (now : Z) (sway : option chain).

Definition step (c : config) (i : inst) (e : event) : inst :=
  match e with
  | EvStart now => begin_quality c (set_now i now)
  | EvDeliver now m sway =>
      let i := set_now i now in
      let '(i1, changed) := receive_one c i m sway in
      if changed && (match i_err i1 with None => true | Some _ => false end) then post_receive c i1 (m_round m) else i1
  | EvAlarm now sway => try_current_phase c (set_now i now) sway
  end.

Definition clear_out (i : inst) : inst :=
  mkI (i_input i) (i_proposal i) (i_value i) (i_cands i) (i_quality i) (i_rounds i) (i_decision i) (i_round i) (i_phase i)
      (i_ptimeout i) (i_rtimeout i) (i_rattempts i) (i_term i) (i_now i) [] (i_err i).
