(* Refinement, the network: any number of Layer-N instances (the executable model of gpbft.instance), scheduled
   arbitrarily, fed with admissible messages, together with Byzantine members that cast arbitrary votes, produce a
   global vote history that is REACHABLE in the Layer-S transition system.  Hence the Layer-S theorems hold for
   networks of Layer-N instances: agreement and validity of the values the instances report as decided. *)
From Coq Require Import ZArith List Bool Lia Permutation.
From F3 Require Import GoInt QuorumGen QuorumProofs Instance InstanceRun InstanceOrder InstanceVotes InstanceConverge InstanceDecide InstanceQuorum InstanceNoPanic InstanceJust Refine RefineNode.
From F3 Require Spec SpecProofs.
Import ListNotations.
Open Scope Z_scope.

Section Net.
Variable c : config.
Variable honest : nat -> bool.
Variable input : nat -> chain.
Hypothesis Hwf : committee_wf c.
Hypothesis Hscaled : c_total c <= 65535.
Hypothesis Hinput : forall k, honest k = true -> input k <> [].

Notation SQz := (SQz c honest).
Notation reachable := (Spec.reachable (power c) (committee c) honest input).

Definition member (k : Z) : Prop := 0 <= k < Z.of_nat (nmem c) /\ honest (Z.to_nat k) = true.

(* ---------- the network ---------- *)
Record net := mkNet { n_inst : Z -> inst; n_votes : list Spec.vote }.
Definition upd (f : Z -> inst) (k : Z) (x : inst) : Z -> inst := fun y => if y =? k then x else f y.
Definition net0 : net := mkNet (fun k => new_instance (input (Z.to_nat k)) 0) [].

Inductive action :=
| AStart (k now : Z)
| ADeliver (k now : Z) (m : msg) (sway : option chain)
| AAlarm (k now : Z) (sway : option chain)
| AByz (v : Spec.vote).

Definition node_step (n : net) (k : Z) (e : event) : net :=
  let i' := step c (clear_out (n_inst n k)) e in
  mkNet (upd (n_inst n) k i') (ovotes k (i_out i') ++ n_votes n).
Definition nstep (n : net) (a : action) : net :=
  match a with
  | AStart k now => node_step n k (EvStart now)
  | ADeliver k now m sway => node_step n k (EvDeliver now m sway)
  | AAlarm k now sway => node_step n k (EvAlarm now sway)
  | AByz v => mkNet (n_inst n) (v :: n_votes n)
  end.
(* what the environment may do: start an honest member once; deliver to a started honest member a message that is
   admissible w.r.t. the votes cast so far; fire its alarm; let a Byzantine member cast any vote *)
Definition aok (n : net) (a : action) : Prop :=
  match a with
  | AStart k _ => member k /\ i_phase (n_inst n k) = INITIAL
  | ADeliver k _ m _ => member k /\ i_phase (n_inst n k) <> INITIAL /\ adm c honest (n_votes n) m
  | AAlarm k _ _ => member k /\ i_phase (n_inst n k) <> INITIAL
  | AByz v => honest (Spec.sender v) = false
  end.
Fixpoint nrun (n : net) (acts : list action) : net :=
  match acts with [] => n | a :: rest => nrun (nstep n a) rest end.
Fixpoint all_ok (n : net) (acts : list action) : Prop :=
  match acts with [] => True | a :: rest => aok n a /\ all_ok (nstep n a) rest end.

(* ---------- the invariant ---------- *)
Definition Full (i : inst) : Prop := Inv i /\ PI i /\ AllQ c i /\ JI i /\ i_err i = None.
(* every vote of member k in the global set is one of its own broadcasts, at or below its current progress point *)
Definition Own (E : list Spec.vote) (k : Z) (p0 : K) : Prop :=
  forall v, In v E -> Spec.sender v = Z.to_nat k ->
    exists r p y K, v = voteS k r p y /\ 0 <= r /\ votable p /\ okey r p K /\ kle K p0.
Definition Below (E : list Spec.vote) (k : Z) (i : inst) : Prop := Own E k (pkey i).
Definition NI (n : net) : Prop :=
  reachable (n_votes n) /\
  forall k, member k ->
    Below (n_votes n) k (n_inst n k) /\
    (i_phase (n_inst n k) = INITIAL -> n_inst n k = new_instance (input (Z.to_nat k)) 0) /\
    (i_phase (n_inst n k) <> INITIAL -> Full (n_inst n k) /\ EvI c honest input k (n_votes n) (n_inst n k)).

(* ---------- votes of different members never collide ---------- *)
Lemma phS_inj p q : votable p -> votable q -> phS p = phS q -> p = q.
Proof. destruct p, q; cbn; intros; try contradiction; try reflexivity; discriminate. Qed.
Lemma voteS_inj k r p y k' r' p' y' : 0 <= k -> 0 <= k' -> 0 <= r -> 0 <= r' -> votable p -> votable p' ->
  voteS k r p y = voteS k' r' p' y' -> k = k' /\ r = r' /\ p = p'.
Proof.
  intros H1 H2 H3 H4 H5 H6 H. unfold voteS in H. injection H as E1 E2 E3 _.
  split; [lia|split; [lia|apply phS_inj; assumption]].
Qed.
Lemma ovotes_sender k outs v : In v (ovotes k outs) -> Spec.sender v = Z.to_nat k.
Proof.
  unfold ovotes. intros H. apply in_flat_map in H. destruct H as (o & _ & Ho). destruct o; cbn in Ho; try contradiction.
  destruct Ho as [<-|[]]. reflexivity.
Qed.

(* ---------- appending the broadcasts of one step ---------- *)
Lemma chain_ok_snoc p0 l o p1 : chain_ok p0 (l ++ [o]) p1 ->
  exists pm, chain_ok p0 l pm /\
    match o with
    | OBroadcast r p _ _ _ => exists K, klt pm K /\ okey r p K /\ kle K p1
    | _ => kle pm p1
    end.
Proof.
  revert p0. induction l as [|x l IH]; intros p0 H; cbn in H.
  - exists p0. split; [apply kle_refl|]. destruct o; [|exact H|exact H].
    destruct H as (K & A & B & C). exists K. split; [exact A|split; [exact B|exact C]].
  - destruct x as [r p v j t|r p|t].
    + destruct H as (K & A & B & C). destruct (IH K C) as (pm & D & F). exists pm. split; [|exact F].
      cbn. exists K. split; [exact A|split; [exact B|exact D]].
    + destruct (IH p0 H) as (pm & D & F). exists pm. split; [exact D|exact F].
    + destruct (IH p0 H) as (pm & D & F). exists pm. split; [exact D|exact F].
Qed.

Lemma okey_fresh r p K K' : okey r p K -> okey r p K' -> klt K K' -> False.
Proof.
  intros [(A1 & A2 & A3)|(A1 & A2)] [(B1 & B2 & B3)|(B1 & B2)] Hlt; try congruence.
  - destruct Hlt as [Hlt Hfz]. specialize (Hfz ltac:(lia)). lia.
  - subst. apply (klt_irrefl _ Hlt).
Qed.

(* the broadcasts of one step of member k (newest first), appended one by one, keep the history reachable *)
Lemma append_step k E outs : member k ->
  log_ok c honest input k E outs ->
  forall p0 p1, chain_ok p0 (rev outs) p1 ->
  reachable E -> Own E k p0 ->
  reachable (ovotes k outs ++ E) /\ Own (ovotes k outs ++ E) k p1.
Proof.
  intros [Hk Hh]. induction outs as [|o outs IH]; intros HL p0 p1 Hc HR HB.
  - cbn in *. split; [exact HR|]. intros v Hv Hs. destruct (HB v Hv Hs) as (r & p & y & K & A & B & C & D & F).
    exists r, p, y, K. repeat split; try assumption. eapply kle_trans; eauto.
  - cbn [rev] in Hc. destruct (chain_ok_snoc _ _ _ _ Hc) as (pm & Hcm & Ho).
    assert (Hweak : forall E', Own E' k pm -> kle pm p1 -> Own E' k p1).
    { intros E' H Hle v Hv Hs. destruct (H v Hv Hs) as (r & p & y & K & A & B & C & D & F).
      exists r, p, y, K. repeat split; try assumption. eapply kle_trans; eauto. }
    destruct o as [r p v j t|r p|t]; cbn [log_ok] in HL.
    + destruct HL as (Hg & Hr & Hvt & _ & _ & HL'). destruct (IH HL' p0 pm Hcm HR HB) as [R1 B1].
      destruct Ho as (K & HK1 & HK2 & HK3).
      change (ovotes k (OBroadcast r p v j t :: outs) ++ E) with (voteS k r p v :: ovotes k outs ++ E). split.
      * constructor; [exact R1|]. apply Spec.step_honest; [exact Hh|exact Hg|].
        intros y Hin. destruct (B1 _ Hin eq_refl) as (r' & p' & y' & K0 & A & B & C & D & F).
        unfold voteS in A. injection A as A1 A2 _.
        assert (r' = r) by lia. assert (p' = p) by (apply phS_inj; [exact C|exact Hvt|symmetry; exact A2]). subst r' p'.
        eapply okey_fresh; [exact D|exact HK2|]. eapply kle_klt_trans; eauto.
      * intros u [<-|Hu] Hs.
        -- exists r, p, v, K. repeat split; assumption.
        -- destruct (B1 u Hu Hs) as (r' & p' & y' & K0 & A & B & C & D & F). exists r', p', y', K0. repeat split; try assumption.
           eapply kle_trans; [exact F|]. right. eapply klt_kle_trans; eauto.
    + destruct (IH HL p0 pm Hcm HR HB) as [R1 B1]. split; [exact R1|apply Hweak; assumption].
    + destruct (IH HL p0 pm Hcm HR HB) as [R1 B1]. split; [exact R1|apply Hweak; assumption].
Qed.


(* ---------- what honest members emit: acceptable to every peer, and backed by evidence (C07 on the network) ---------- *)
Lemma adm_mono E E' m : incl E E' -> adm c honest E m -> adm c honest E' m.
Proof.
  intros Hi (A & B & C & D). split; [exact A|]. split; [exact B|]. split; [apply Hi; exact C|].
  destruct (m_phase m); try exact D.
  - destruct D as (D1 & D2 & j & D3 & D4). split; [exact D1|]. split; [exact D2|]. exists j. split; [exact D3|eapply jprev_mono; eauto].
  - destruct D as [D|(D1 & j & D3 & D4)]; [left; exact D|right]. split; [exact D1|]. exists j. split; [exact D3|eapply jprev_mono; eauto].
  - destruct D as [D|(D1 & j & D3 & D4)]; [left; exact D|right]. split; [exact D1|]. exists j. split; [exact D3|eapply jsame_mono; eauto].
  - destruct D as (D1 & D2 & j & D3 & D4 & D5). split; [exact D1|]. split; [exact D2|]. exists j. split; [exact D3|]. split; [eapply backed_mono; eauto|exact D5].
Qed.

Lemma log_emissions k E outs : member k -> log_ok c honest input k E outs ->
  forall r p v j t rank, In (OBroadcast r p v j t) outs ->
    adm c honest (ovotes k outs ++ E) (mkM k r p v rank j) /\ (v <> [] -> evid c honest input k (ovotes k outs ++ E) v).
Proof.
  intros [Hk Hh]. induction outs as [|o outs IH]; intros HL r p v j t rank Hin; [destruct Hin|].
  assert (Hinc : incl (ovotes k outs ++ E) (ovotes k (o :: outs) ++ E)).
  { intros x Hx. destruct o; cbn; try exact Hx. right. exact Hx. }
  destruct Hin as [->|Hin].
  - cbn [log_ok] in HL. destruct HL as (_ & Hr & Hvt & Haj & Hev & _).
    change (ovotes k (OBroadcast r p v j t :: outs) ++ E) with (voteS k r p v :: ovotes k outs ++ E).
    split.
    + split; [exact Hk|]. split; [exact Hr|]. split; [left; reflexivity|]. cbn [m_phase m_round m_value m_just].
      unfold admj in Haj. destruct p; try contradiction.
      * destruct Haj as (A & B & C). split; assumption.
      * destruct Haj as (A & B & jj & C & D). split; [exact A|]. split; [exact B|]. exists jj. split; [exact C|]. eapply jprev_mono; [|exact D]. intros x Hx; right; exact Hx.
      * destruct Haj as [(A & B)|(A & jj & C & D)]; [left; split; assumption|right]. split; [exact A|]. exists jj. split; [exact C|]. eapply jprev_mono; [|exact D]. intros x Hx; right; exact Hx.
      * destruct Haj as [(A & B)|(A & jj & C & D)]; [left; split; assumption|right]. split; [exact A|]. exists jj. split; [exact C|]. eapply jsame_mono; [|exact D]. intros x Hx; right; exact Hx.
      * destruct Haj as (A & B & jj & C & D & F). split; [exact A|]. split; [exact B|]. exists jj. split; [exact C|]. split; [|exact F]. eapply backed_mono; [|exact D]. intros x Hx; right; exact Hx.
    + intros Hne. eapply evid_mono; [|exact (Hev Hne)]. intros x Hx; right; exact Hx.
  - assert (HL' : log_ok c honest input k E outs) by (destruct o; cbn [log_ok] in HL; [apply HL|exact HL|exact HL]).
    destruct (IH HL' r p v j t rank Hin) as [A B]. split; [eapply adm_mono; eauto|intros Hne; eapply evid_mono; [exact Hinc|exact (B Hne)]].
Qed.

(* ---------- one instance step keeps the instance-level invariants ---------- *)
Lemma Full_step i e : Full i -> ev_okb e = true -> Full (step c (clear_out i) e).
Proof.
  intros (HI & HP & HA & HJ & He) Hok. destruct (committee_wf_ok c Hwf) as (Ht & Hpow & Hsum).
  set (i0 := clear_out i).
  assert (I0 : Inv i0) by (apply Inv_clear_out; exact HI).
  assert (P0 : PI i0) by (apply (PI_view i); [reflexivity|exact HP]).
  assert (A0 : AllQ c i0) by exact HA. assert (J0 : JI i0) by exact HJ. assert (E0 : i_err i0 = None) by exact He.
  assert (Ph0 : i_phase i0 <> INITIAL) by apply HP.
  destruct (step_ordered c i0 e I0 (ev_okb_wfe e Hok)) as (_ & HI' & _).
  destruct (Good_step c i0 e I0 (ev_okb_wfe e Hok) P0 E0) as [GP GN].
  destruct (GQ_step c Ht Hpow Hsum i0 e A0 E0) as [GA GQ].
  destruct (GJ_step c Ht Hpow Hsum i0 e J0 A0 E0 Ph0 Hok) as [GJ GNJ].
  assert (E' : i_err (step c i0 e) = None).
  { destruct (i_err (step c i0 e)) as [x|] eqn:Ex; [exfalso|reflexivity].
    destruct x; try (apply (GQ _ Ex); exact I); try (apply (GNJ _ Ex); exact I). apply GN. exact Ex. }
  split; [exact HI'|split; [exact (GP E')|split; [exact GA|split; [exact GJ|exact E']]]].
Qed.

Lemma Full_start inp now : Full (step c (new_instance inp 0) (EvStart now)).
Proof.
  destruct (committee_wf_ok c Hwf) as (Ht & Hpow & Hsum).
  destruct (step_ordered c (new_instance inp 0) (EvStart now) (Inv_new inp 0) I) as (_ & HI & _).
  destruct (GQ_step c Ht Hpow Hsum (new_instance inp 0) (EvStart now) (AllQ_new c inp 0) eq_refl) as [A _].
  split; [exact HI|]. split; [|split; [exact A|split; [|reflexivity]]].
  - cbn [step]. unfold begin_quality. cbn [i_phase set_now new_instance].
    replace (negb (phase_eqb INITIAL INITIAL)) with false by reflexivity.
    unfold PI, conv_has. cbn. repeat split; auto; try discriminate; try (intros; lia).
  - intros r. cbn. destruct r; apply RJ_empty.
Qed.

Lemma upd_same f k x : upd f k x k = x. Proof. unfold upd. rewrite Z.eqb_refl. reflexivity. Qed.
Lemma upd_other f k x k' : k' <> k -> upd f k x k' = f k'.
Proof. intros H. unfold upd. destruct (Z.eqb_spec k' k); [congruence|reflexivity]. Qed.

Lemma Own_other E k k' outs p0 : member k -> member k' -> k' <> k -> Own E k' p0 -> Own (ovotes k outs ++ E) k' p0.
Proof.
  intros [Hk _] [Hk' _] Hne H v Hv Hs. apply in_app_or in Hv. destruct Hv as [Hv|Hv]; [|apply H; assumption].
  exfalso. apply ovotes_sender in Hv. rewrite Hv in Hs. apply Hne. lia.
Qed.

(* the common part of the three instance actions *)
Lemma NI_node_step n k e i' :
  NI n -> member k -> i' = step c (clear_out (n_inst n k)) e ->
  Full i' -> Ev c honest input k (n_votes n) i' -> wfe e -> Inv (n_inst n k) ->
  NI (node_step n k e).
Proof.
  intros [HR HN] Hk Ei' HF' HE' Hwfe HInv. unfold node_step. rewrite <- Ei'.
  destruct (HN k Hk) as (HB & _ & _).
  destruct (step_ordered c (clear_out (n_inst n k)) e (Inv_clear_out _ HInv) Hwfe) as (HRc & _).
  rewrite <- Ei' in HRc. destruct HRc as (added & Ea & Hc). cbn [clear_out i_out] in Ea. rewrite app_nil_r in Ea. subst added.
  destruct HE' as [HEI HL].
  destruct (append_step k (n_votes n) (i_out i') Hk HL _ _ Hc HR HB) as [R' B'].
  split; [exact R'|]. intros k' Hk'. cbn [n_inst n_votes].
  destruct (Z.eq_dec k' k) as [->|Hne].
  - rewrite upd_same. split; [exact B'|]. split.
    + intros Hph. exfalso. destruct HF' as (_ & HP & _). apply HP. exact Hph.
    + intros _. split; [exact HF'|exact HEI].
  - rewrite upd_other by exact Hne. destruct (HN k' Hk') as (HB' & HI' & HS'). split; [apply Own_other; assumption|]. split; [exact HI'|].
    intros Hph. destruct (HS' Hph) as [F' E']. split; [exact F'|]. eapply EvI_mono; [|exact E']. apply incl_appr, incl_refl.
Qed.

Theorem NI_step n a : NI n -> aok n a -> NI (nstep n a).
Proof.
  intros HNI Hok. pose proof HNI as [HR HN]. destruct a as [k now|k now m sway|k now sway|v]; cbn [nstep aok] in *.
  - (* start *)
    destruct Hok as [Hk Hph]. destruct (HN k Hk) as (_ & Hinit & _). specialize (Hinit Hph).
    assert (Hkin : input (Z.to_nat k) <> []) by (apply Hinput; apply Hk).
    apply (NI_node_step n k (EvStart now) (step c (new_instance (input (Z.to_nat k)) 0) (EvStart now))); try assumption.
    + rewrite Hinit. reflexivity.
    + apply Full_start.
    + apply (Ev_started c honest input k (n_votes n) now). exact Hkin.
    + exact I.
    + rewrite Hinit. apply Inv_new.
  - (* deliver *)
    destruct Hok as (Hk & Hph & Hadm). destruct (HN k Hk) as (_ & _ & Hs). destruct (Hs Hph) as [HF HEI].
    pose proof (Full_step _ (EvDeliver now m sway) HF (adm_wfmb c honest (n_votes n) m Hadm)) as HF'.
    apply (NI_node_step n k (EvDeliver now m sway) _ HNI Hk eq_refl HF'); [| |apply HF].
    + destruct HF as (HI & HP & HA & HJ & He).
      apply (Ev_step c honest input Hwf Hscaled k (n_votes n)); [|exact HA|exact HJ|exact He|exact Hadm].
      split; [|exact I]. destruct HEI as [A B]. split; [apply (EvC_view c honest input k _ _ (n_inst n k)); [reflexivity|exact A]|apply (EvP_view k _ (n_inst n k)); [reflexivity|exact B]].
    + apply ev_okb_wfe. apply (adm_wfmb c honest (n_votes n) m Hadm).
  - (* alarm *)
    destruct Hok as (Hk & Hph). destruct (HN k Hk) as (_ & _ & Hs). destruct (Hs Hph) as [HF HEI].
    pose proof (Full_step _ (EvAlarm now sway) HF eq_refl) as HF'.
    apply (NI_node_step n k (EvAlarm now sway) _ HNI Hk eq_refl HF'); [|exact I|apply HF].
    destruct HF as (HI & HP & HA & HJ & He).
    apply (Ev_step c honest input Hwf Hscaled k (n_votes n)); [|exact HA|exact HJ|exact He|exact I].
    split; [|exact I]. destruct HEI as [A B]. split; [apply (EvC_view c honest input k _ _ (n_inst n k)); [reflexivity|exact A]|apply (EvP_view k _ (n_inst n k)); [reflexivity|exact B]].
  - (* a Byzantine vote *)
    split; [constructor; [exact HR|apply Spec.step_byz; exact Hok]|].
    intros k Hk. destruct (HN k Hk) as (HB & HI & HS). cbn [n_inst n_votes]. split; [|split; [exact HI|]].
    + intros u [<-|Hu] Hsd; [exfalso; destruct Hk as [_ Hh]; rewrite Hsd in Hok; congruence|apply HB; assumption].
    + intros Hph. destruct (HS Hph) as [F E]. split; [exact F|]. eapply EvI_mono; [|exact E]. intros x Hx. right. exact Hx.
Qed.

Lemma NI_net0 : NI net0.
Proof.
  split; [constructor|]. intros k Hk. cbn. split; [intros v []|]. split; [reflexivity|]. intros H. exfalso. apply H. reflexivity.
Qed.

Theorem NI_run acts : forall n, NI n -> all_ok n acts -> NI (nrun n acts).
Proof.
  induction acts as [|a rest IH]; intros n HN Hok; [exact HN|]. destruct Hok as [Ha Hr]. cbn. apply IH; [apply NI_step; assumption|exact Hr].
Qed.

(* ---------- the theorems ---------- *)
(* C01/C02, refinement: every execution of a network of Layer-N instances is an execution of the Layer-S protocol *)
Theorem network_refines_spec acts : all_ok net0 acts -> reachable (n_votes (nrun net0 acts)).
Proof. intros H. apply (NI_run acts net0 NI_net0 H). Qed.


(* every message an honest member emits is acceptable to its peers (admissible w.r.t. the votes cast so far, hence
   deliverable to anybody at any later time) and is for a value it has evidence for *)
Definition act_event (a : action) : option (Z * event) :=
  match a with
  | AStart k now => Some (k, EvStart now) | ADeliver k now m sway => Some (k, EvDeliver now m sway)
  | AAlarm k now sway => Some (k, EvAlarm now sway) | AByz _ => None
  end.
Lemma node_action_Ev n a k e : NI n -> aok n a -> act_event a = Some (k, e) ->
  member k /\ Ev c honest input k (n_votes n) (step c (clear_out (n_inst n k)) e).
Proof.
  intros [HR HN] Hok Ha. destruct a as [k0 now|k0 now m sway|k0 now sway|v]; cbn in Ha; try discriminate Ha; injection Ha as <- <-; cbn [aok] in Hok.
  - destruct Hok as [Hk Hph]. split; [exact Hk|]. destruct (HN k0 Hk) as (_ & Hinit & _). rewrite (Hinit Hph).
    apply (Ev_started c honest input k0 (n_votes n) now). apply Hinput. apply Hk.
  - destruct Hok as (Hk & Hph & Hadm). split; [exact Hk|]. destruct (HN k0 Hk) as (_ & _ & Hs). destruct (Hs Hph) as [(HI & HP & HA & HJ & He) [A B]].
    apply (Ev_step c honest input Hwf Hscaled k0 (n_votes n)); [|exact HA|exact HJ|exact He|exact Hadm].
    split; [|exact I]. split; [apply (EvC_view c honest input k0 _ _ (n_inst n k0)); [reflexivity|exact A]|apply (EvP_view k0 _ (n_inst n k0)); [reflexivity|exact B]].
  - destruct Hok as (Hk & Hph). split; [exact Hk|]. destruct (HN k0 Hk) as (_ & _ & Hs). destruct (Hs Hph) as [(HI & HP & HA & HJ & He) [A B]].
    apply (Ev_step c honest input Hwf Hscaled k0 (n_votes n)); [|exact HA|exact HJ|exact He|exact I].
    split; [|exact I]. split; [apply (EvC_view c honest input k0 _ _ (n_inst n k0)); [reflexivity|exact A]|apply (EvP_view k0 _ (n_inst n k0)); [reflexivity|exact B]].
Qed.

Theorem network_emissions acts a k e : all_ok net0 acts -> aok (nrun net0 acts) a -> act_event a = Some (k, e) ->
  forall r p v j t rank, In (OBroadcast r p v j t) (i_out (n_inst (nstep (nrun net0 acts) a) k)) ->
    adm c honest (n_votes (nstep (nrun net0 acts) a)) (mkM k r p v rank j) /\
    (v <> [] -> evid c honest input k (n_votes (nstep (nrun net0 acts) a)) v).
Proof.
  intros Hok Ha He r p v j t rank Hin. pose proof (NI_run acts net0 NI_net0 Hok) as HNI.
  destruct (node_action_Ev _ a k e HNI Ha He) as [Hk [_ HL]].
  assert (Hst : nstep (nrun net0 acts) a = node_step (nrun net0 acts) k e).
  { destruct a; cbn in He; try discriminate He; injection He as <- <-; reflexivity. }
  rewrite Hst in *. unfold node_step in *. cbn [n_inst n_votes] in *. rewrite upd_same in Hin.
  apply (log_emissions k (n_votes (nrun net0 acts)) _ Hk HL r p v j t rank Hin).
Qed.

(* ---------- decisions ---------- *)
(* what an instance reports as decided is backed by a strong quorum of DECIDE votes in the global set *)
Definition TI (n : net) : Prop :=
  forall k, member k -> forall j, i_term (n_inst n k) = Some j -> SQz (n_votes n) 0 DECIDE (j_value j).

Lemma TI_node_step n k e : NI n -> NI (node_step n k e) -> TI n -> member k -> wfe e -> Inv (n_inst n k) ->
  i_phase (step c (clear_out (n_inst n k)) e) <> INITIAL -> TI (node_step n k e).
Proof.
  intros HNI HNI' HT Hk Hwfe HInv Hph' k' Hk' j Hj. unfold node_step in *. cbn [n_inst n_votes] in *.
  destruct (Z.eq_dec k' k) as [->|Hne].
  - rewrite upd_same in Hj. set (i' := step c (clear_out (n_inst n k)) e) in *.
    destruct (step_ordered c (clear_out (n_inst n k)) e (Inv_clear_out _ HInv) Hwfe) as (_ & _ & _ & _ & (_ & HTm)). fold i' in HTm.
    destruct HTm as [Eq|(v & sg & Eq & Fv & Ff)].
    + change (i_term (clear_out (n_inst n k))) with (i_term (n_inst n k)) in Eq. rewrite Eq in Hj.
      eapply SQz_mono; [|apply (HT k Hk j Hj)]. apply incl_appr, incl_refl.
    + rewrite Eq in Hj. injection Hj as <-. cbn [j_value build_just].
      destruct HNI' as [_ HN']. destruct (HN' k Hk) as (_ & _ & HS'). cbn [n_inst n_votes] in HS'. rewrite upd_same in HS'.
      destruct (HS' Hph') as [(_ & _ & HA & _) [HC _]].
      destruct (find_sq_for_inv c _ _ _ Ff) as (s0 & Hs0 & Hsq0).
      apply (local_SQ c honest input Hwf _ 0 DECIDE (i_decision i') v s0); [apply HA|apply HC|exact Hs0|exact Hsq0].
  - rewrite upd_other in Hj by exact Hne. eapply SQz_mono; [|apply (HT k' Hk' j Hj)]. apply incl_appr, incl_refl.
Qed.

Theorem TI_step n a : NI n -> TI n -> aok n a -> TI (nstep n a).
Proof.
  intros HNI HT Hok. pose proof (NI_step n a HNI Hok) as HNI'. pose proof HNI as [HR HN].
  destruct a as [k now|k now m sway|k now sway|v]; cbn [nstep aok] in *.
  - destruct Hok as [Hk Hph]. destruct (HN k Hk) as (_ & Hinit & _). specialize (Hinit Hph).
    apply TI_node_step; try assumption; [exact I|rewrite Hinit; apply Inv_new|].
    rewrite Hinit. cbn. discriminate.
  - destruct Hok as (Hk & Hph & Hadm). destruct (HN k Hk) as (_ & _ & Hs). destruct (Hs Hph) as [HF HEI].
    pose proof (Full_step _ (EvDeliver now m sway) HF (adm_wfmb c honest (n_votes n) m Hadm)) as (_ & HP' & _).
    apply TI_node_step; try assumption; [apply ev_okb_wfe; apply (adm_wfmb c honest (n_votes n) m Hadm)|apply HF|apply HP'].
  - destruct Hok as (Hk & Hph). destruct (HN k Hk) as (_ & _ & Hs). destruct (Hs Hph) as [HF HEI].
    pose proof (Full_step _ (EvAlarm now sway) HF eq_refl) as (_ & HP' & _).
    apply TI_node_step; try assumption; [exact I|apply HF|apply HP'].
  - intros k Hk j Hj. cbn [n_inst n_votes] in *. eapply SQz_mono; [|apply (HT k Hk j Hj)]. intros x Hx. right. exact Hx.
Qed.

Lemma TI_net0 : TI net0. Proof. intros k Hk j Hj. cbn in Hj. discriminate Hj. Qed.

Lemma NTI_run acts : forall n, NI n -> TI n -> all_ok n acts -> NI (nrun n acts) /\ TI (nrun n acts).
Proof.
  induction acts as [|a rest IH]; intros n HN HT Hok; [split; assumption|]. destruct Hok as [Ha Hr]. cbn.
  apply IH; [apply NI_step; assumption|apply TI_step; assumption|exact Hr].
Qed.

(* Byzantine members hold less than a third of the power *)
Hypothesis Hbyz : 3 * Spec.byz_power (power c) (committee c) honest < Spec.total (power c) (committee c).

Lemma power_nonneg x : 0 <= power c x.
Proof. destruct (committee_wf_ok c Hwf) as (_ & Hpow & _). apply Hpow. Qed.
Lemma committee_nodup : NoDup (committee c). Proof. apply seq_NoDup. Qed.

Lemma decided_value acts k j : all_ok net0 acts -> member k -> i_term (n_inst (nrun net0 acts) k) = Some j ->
  j_value j <> [] /\ Spec.decides (power c) (committee c) honest (n_votes (nrun net0 acts)) (j_value j).
Proof.
  intros Hok Hk Hj. destruct (NTI_run acts net0 NI_net0 TI_net0 Hok) as [[HR _] HT].
  pose proof (HT k Hk j Hj) as Hsq. unfold Refine.SQz in Hsq. cbn in Hsq.
  destruct (j_value j) as [|x v] eqn:Ev; [exfalso|split; [discriminate|exact Hsq]].
  pose proof (SpecProofs.reachable_inv (power c) (committee c) honest input _ HR) as HInv.
  destruct (SpecProofs.sq_honest_member (power c) power_nonneg (committee c) honest Hbyz _ _ _ _ Hsq) as (s & Hs & Hin).
  destruct HInv as [G _]. specialize (G _ Hin Hs). exact G.
Qed.

(* C01 on networks of Layer-N instances: no two honest members report different decisions *)
Theorem network_agreement acts k1 k2 j1 j2 : all_ok net0 acts -> member k1 -> member k2 ->
  i_term (n_inst (nrun net0 acts) k1) = Some j1 -> i_term (n_inst (nrun net0 acts) k2) = Some j2 ->
  j_value j1 = j_value j2.
Proof.
  intros Hok H1 H2 E1 E2. destruct (decided_value acts k1 j1 Hok H1 E1) as [_ D1]. destruct (decided_value acts k2 j2 Hok H2 E2) as [_ D2].
  exact (SpecProofs.agreement (power c) power_nonneg (committee c) honest input Hbyz _ _ _ (network_refines_spec acts Hok) D1 D2).
Qed.

(* C02 on networks of Layer-N instances: a reported decision is a non-empty prefix of the input of some honest member *)
Theorem network_validity acts k j : all_ok net0 acts -> member k -> i_term (n_inst (nrun net0 acts) k) = Some j ->
  j_value j <> [] /\ exists q, honest q = true /\ Spec.is_prefix (j_value j) (input q).
Proof.
  intros Hok Hk Hj. destruct (decided_value acts k j Hok Hk Hj) as [Hne D]. split; [exact Hne|].
  destruct (SpecProofs.validity (power c) power_nonneg (committee c) honest input Hbyz _ _ (network_refines_spec acts Hok) D) as [_ H]. exact H.
Qed.

(* ---------- further consequences of the refinement, stated on the network ---------- *)
(* an honest member never casts two different votes in the same (round, step) -- over the WHOLE network history *)
Theorem network_one_vote_per_slot acts s r p x y : all_ok net0 acts -> honest s = true ->
  In (Spec.V s r p x) (n_votes (nrun net0 acts)) -> In (Spec.V s r p y) (n_votes (nrun net0 acts)) -> x = y.
Proof.
  intros Hok Hs Hx Hy. destruct (SpecProofs.reachable_inv _ _ _ _ _ (network_refines_spec acts Hok)) as [_ Hu].
  exact (Hu s r p x y Hs Hx Hy).
Qed.

(* the COMMIT lock, the heart of GossiPBFT's safety: once a strong quorum has committed v0 in round r0, in every later round
   the only value that can gather a strong PREPARE quorum is v0, and bottom can never gather a strong COMMIT quorum *)
Theorem network_commit_lock acts r0 v0 r : all_ok net0 acts ->
  Spec.SQ (power c) (committee c) honest (n_votes (nrun net0 acts)) r0 Spec.COMMIT (Some v0) -> (r0 <= r)%nat ->
  (forall x, Spec.SQ (power c) (committee c) honest (n_votes (nrun net0 acts)) r Spec.PREPARE x -> x = Some v0) /\
  ~ Spec.SQ (power c) (committee c) honest (n_votes (nrun net0 acts)) r Spec.COMMIT None.
Proof.
  intros Hok Hc Hr. pose proof (SpecProofs.reachable_inv _ _ _ _ _ (network_refines_spec acts Hok)) as HInv.
  exact (SpecProofs.lock_all (power c) power_nonneg (committee c) honest input Hbyz _ HInv r0 v0 Hc r Hr).
Qed.

End Net.
