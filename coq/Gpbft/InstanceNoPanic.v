(* Layer N, C07 "no internal error or panic", run level: on EVERY event sequence (deliveries of arbitrary messages,
   alarms, any interleaving) an instance never reports one of the quorum-bookkeeping panics
     "multiple chains with strong quorum"            (PMultiQuorum)
     "strong quorum exists but could not be found"   (PFindQuorum)
     tryDecide / beginDecide without a quorum        (PTryDecide, PBeginDecide)
     beginCommit without a justification             (PBeginCommit)
   The invariant carried through the run: every PREPARE / COMMIT / DECIDE quorum state of every round satisfies QS. *)
From Coq Require Import ZArith List Bool Lia.
From F3 Require Import GoInt QuorumGen QuorumProofs Instance InstanceRun InstanceOrder InstanceVotes InstanceConverge InstanceDecide InstanceQuorum.
Import ListNotations.
Open Scope Z_scope.

Section Cfg.
Variable c : config.
Hypothesis Htotal : 0 < c_total c < two62.
Hypothesis Hpow : forall s, 0 <= power_of c s.
Hypothesis Hsum : forall l, NoDup l -> sum_power c l <= c_total c.

Definition rd (i : inst) := (i_rounds i, i_decision i).
Definition AllQ (i : inst) : Prop :=
  QS c (i_decision i) /\ forall r, QS c (r_prep (rget (i_rounds i) r)) /\ QS c (r_comm (rget (i_rounds i) r)).
Definition QP (e : ierr) : Prop :=
  match e with PMultiQuorum | PFindQuorum | PTryDecide | PBeginDecide | PBeginCommit => True | _ => False end.
Definition NQ (i : inst) : Prop := forall e, i_err i = Some e -> ~ QP e.

Lemma AllQ_rd i i' : rd i' = rd i -> AllQ i -> AllQ i'.
Proof. unfold rd, AllQ. intros E. injection E as -> ->. auto. Qed.
Lemma NQ_none i : i_err i = None -> NQ i. Proof. intros H e He. congruence. Qed.
Lemma NQ_err i i' : i_err i' = i_err i -> NQ i -> NQ i'. Proof. unfold NQ. intros ->. auto. Qed.
Lemma NQ_fail i e : ~ QP e -> NQ i -> NQ (fail i e).
Proof. intros Hn H x. cbn. destruct (i_err i) as [y|] eqn:E; intros Hx; injection Hx as <-; [apply H; exact E|exact Hn]. Qed.

Ltac crunch := repeat match goal with
  | |- context [if ?b then _ else _] => destruct b
  | |- context [match ?x with _ => _ end] => destruct x
  end.

(* ---- functions that do not touch any quorum state ---- *)
Lemma rd_try_rebroadcast i : rd (try_rebroadcast c i) = rd i /\ i_err (try_rebroadcast c i) = i_err i.
Proof.
  split; [|apply err_try_rebroadcast].
  pose proof (pview_try_rebroadcast c i) as Hv. destruct (R_try_rebroadcast c i) as [_ (_ & Hd & _)].
  unfold rd, pview in *. injection Hv as _ _ _ _ Hr _. rewrite Hr, Hd. reflexivity.
Qed.
Lemma rd_add_candidate i v : rd (fst (add_candidate i v)) = rd i /\ i_err (fst (add_candidate i v)) = i_err i.
Proof. unfold add_candidate. destruct (is_candidate i v); split; reflexivity. Qed.
Lemma rd_acp i v : rd (add_candidate_prefixes i v) = rd i /\ i_err (add_candidate_prefixes i v) = i_err i.
Proof.
  unfold add_candidate_prefixes. generalize (rev (all_prefixes v)). intros l. revert i.
  induction l as [|p l IH]; intros i; cbn [fold_left]; [split; reflexivity|].
  destruct (IH (fst (add_candidate i p))) as [A B]. destruct (rd_add_candidate i p) as [A' B']. split; congruence.
Qed.
Lemma rd_begin_prepare i j : rd (begin_prepare c i j) = rd i /\ i_err (begin_prepare c i j) = i_err i.
Proof. split; reflexivity. Qed.
Lemma rd_begin_commit i : rd (begin_commit c i) = rd i.
Proof. unfold begin_commit. cbv zeta. crunch; reflexivity. Qed.
Lemma rd_begin_decide i round : rd (begin_decide c i round) = rd i.
Proof. unfold begin_decide. cbv zeta. crunch; reflexivity. Qed.
Lemma rd_try_quality i : rd (try_quality c i) = rd i /\ i_err (try_quality c i) = i_err i.
Proof.
  unfold try_quality. destruct (_ || _); [|split; reflexivity]. cbv zeta.
  set (p := q_longest_prefix _ _). destruct (rd_acp (set_pv i p (i_value i)) p) as [A B].
  split; [exact A|exact B].
Qed.
Lemma rd_try_converge i : rd (try_converge c i) = rd i.
Proof.
  unfold try_converge. destruct (negb _).
  - destruct (should_rebroadcast c i); [apply rd_try_rebroadcast|reflexivity].
  - cbv zeta. destruct (c_find_best _ _) as [w|]; [|reflexivity].
    destruct (rd_add_candidate i (cv_chain w)) as [A _]. exact A.
Qed.
Lemma NQ_try_converge i : i_err i = None -> NQ (try_converge c i).
Proof.
  intros He. unfold try_converge. destruct (negb _).
  - destruct (should_rebroadcast c i); apply NQ_none; [rewrite err_try_rebroadcast|]; exact He.
  - cbv zeta. destruct (c_find_best _ _) as [w|]; [|apply NQ_fail; [intros []|apply NQ_none; exact He]].
    apply NQ_none. destruct (rd_add_candidate i (cv_chain w)) as [_ B]. cbn. rewrite <- He. exact B.
Qed.
Lemma rd_try_prepare i : rd (try_prepare c i) = rd i.
Proof.
  unfold try_prepare. cbv zeta.
  match goal with |- rd (if _ then begin_commit c ?x else _) = _ => set (i1 := x) end.
  assert (E1 : rd i1 = rd i) by (unfold i1; crunch; reflexivity).
  destruct (_ || _ || _ || _); [rewrite rd_begin_commit; exact E1|].
  destruct (should_rebroadcast c i1); [destruct (rd_try_rebroadcast i1) as [A _]; congruence|exact E1].
Qed.
Lemma rd_try_decide i : rd (try_decide c i) = rd i.
Proof.
  unfold try_decide. destruct (q_find_sq_value _); [apply rd_try_rebroadcast|reflexivity|].
  destruct (q_find_sq_for c _ _); reflexivity.
Qed.

(* ---- one round's state replaced ---- *)
Lemma AllQ_set_round_state i r s : AllQ i -> QS c (r_prep s) -> QS c (r_comm s) -> AllQ (set_round_state i r s).
Proof.
  intros [Hd Hr] Hp Hc. split; [exact Hd|]. intros r'. cbn.
  destruct (Z.eq_dec r' r) as [->|Hne]; [rewrite rget_rset_same; split; assumption|rewrite rget_rset_other by exact Hne; apply Hr].
Qed.

(* ---- beginConverge / beginNextRound / skipToRound ---- *)
Lemma GQ_begin_converge i j : AllQ i -> NQ i -> AllQ (begin_converge c i j) /\ NQ (begin_converge c i j).
Proof.
  intros HA HN. unfold begin_converge. destruct (negb _).
  - split; [exact HA|apply NQ_fail; [intros []|exact HN]].
  - cbv zeta. split; [|exact HN].
    match goal with |- AllQ (broadcast (set_round_state ?x ?r ?s) _ _ _ _ _) =>
      apply (AllQ_rd (set_round_state x r s)); [reflexivity|apply AllQ_set_round_state] end.
    + exact HA.
    + cbn. apply HA.
    + cbn. apply HA.
Qed.

Lemma GQ_begin_next_round i : AllQ i -> NQ i -> AllQ (begin_next_round c i) /\ NQ (begin_next_round c i).
Proof.
  intros HA HN. unfold begin_next_round. cbv zeta.
  set (i1 := set_progress i (i_round i + 1) (i_phase i)).
  assert (A1 : AllQ i1) by exact HA. assert (N1 : NQ i1) by exact HN.
  pose proof (find_sq_for_no_panic c Htotal Hpow Hsum (r_comm (get_round i1 (i_round i1 - 1))) []) as Hnp.
  destruct (q_find_sq_for c _ []) eqn:Ef.
  - destruct (q_get_just _ COMMIT []); [apply GQ_begin_converge; assumption|].
    destruct (c_get_just _ COMMIT []); [apply GQ_begin_converge; assumption|].
    destruct (filter _ _); [|apply GQ_begin_converge; assumption].
    split; [exact A1|apply NQ_fail; [intros []|exact N1]].
  - exfalso. apply Hnp; [apply HA|reflexivity].
  - apply GQ_begin_converge; assumption.
Qed.

Lemma GQ_skip_to_round i round v j : AllQ i -> NQ i -> AllQ (skip_to_round c i round v j) /\ NQ (skip_to_round c i round v j).
Proof.
  intros HA HN. unfold skip_to_round. cbv zeta.
  match goal with |- AllQ (begin_converge c ?x j) /\ _ => set (i3 := x) end.
  assert (H3 : rd i3 = rd i /\ i_err i3 = i_err i).
  { unfold i3. set (i1 := set_progress i round (i_phase i)).
    assert (H1 : rd i1 = rd i /\ i_err i1 = i_err i) by (split; reflexivity).
    match goal with |- context [if phase_eqb (j_phase j) PREPARE then _ else ?y] => set (i2 := y) end.
    assert (H2 : rd i2 = rd i /\ i_err i2 = i_err i).
    { unfold i2. destruct (phase_eqb (i_phase i1) QUALITY); [|exact H1]. cbv zeta.
      set (p := q_longest_prefix _ _). destruct (rd_acp (set_pv i1 p (i_value i1)) p) as [A B]. split; [exact A|exact B]. }
    destruct (phase_eqb (j_phase j) PREPARE); [|exact H2]. cbv zeta.
    destruct (rd_add_candidate i2 v) as [A B]. destruct H2 as [A2 B2]. split; [rewrite <- A2; exact A|rewrite <- B2; exact B]. }
  destruct H3 as [A3 B3]. apply GQ_begin_converge; [apply (AllQ_rd i); assumption|apply (NQ_err i); assumption].
Qed.

(* ---- try* ---- *)
Lemma begin_commit_errs i : i_err i = None ->
  i_err (begin_commit c i) = None \/ i_err (begin_commit c i) = Some PFindQuorum \/ i_err (begin_commit c i) = Some PBeginCommit.
Proof.
  intros He. unfold begin_commit. cbv zeta. crunch; cbn; rewrite ?He; auto.
Qed.

Lemma try_prepare_errs i : i_err i = None ->
  i_err (try_prepare c i) = None \/ i_err (try_prepare c i) = Some PFindQuorum \/ i_err (try_prepare c i) = Some PBeginCommit.
Proof.
  intros He. unfold try_prepare. cbv zeta.
  match goal with |- context [if _ then begin_commit c ?x else _] => set (i1 := x) end.
  assert (E1 : i_err i1 = None) by (unfold i1; crunch; exact He).
  destruct (_ || _ || _ || _); [apply begin_commit_errs; exact E1|].
  left. destruct (should_rebroadcast c i1); [rewrite err_try_rebroadcast|]; exact E1.
Qed.
Lemma try_prepare_err_none i : AllQ i -> i_err i = None -> i_err (try_prepare c i) = None.
Proof.
  intros HA He.
  destruct (try_prepare_no_panic c Htotal Hpow Hsum i) as [N1 N2]; [apply HA|exact He|].
  destruct (try_prepare_errs i He) as [H|[H|H]]; [exact H|congruence|congruence].
Qed.
Lemma NQ_try_prepare i : AllQ i -> i_err i = None -> NQ (try_prepare c i).
Proof. intros HA He. apply NQ_none. apply try_prepare_err_none; assumption. Qed.

Lemma GQ_try_commit i round sway : AllQ i -> i_err i = None ->
  AllQ (try_commit c i round sway) /\ NQ (try_commit c i round sway).
Proof.
  intros HA He. pose proof (NQ_none i He) as HN. unfold try_commit.
  pose proof (find_sq_value_no_panic c Htotal Hpow Hsum (r_comm (get_round i round))) as Hnp.
  assert (HQ : QS c (r_comm (get_round i round))) by apply HA.
  assert (Hrest : forall b : bool,
    let x := (if negb (i_round i =? round) || negb (phase_eqb (i_phase i) COMMIT) then i else
         if b then begin_next_round c i else
         if phase_timeout_elapsed i && q_from_strong c (r_comm (get_round i round)) then
           begin_next_round c
             (match (match sway with
                     | Some s => if existsb (chain_eqb s) (filter (fun v => negb (is_zero v)) (q_all_values (r_comm (get_round i round)))) then Some s
                                 else hd_error (filter (fun v => negb (is_zero v)) (q_all_values (r_comm (get_round i round))))
                     | None => hd_error (filter (fun v => negb (is_zero v)) (q_all_values (r_comm (get_round i round)))) end) with
              | Some v => let i0 := fst (add_candidate i v) in if chain_eqb v (i_proposal i0) then i0 else set_pv i0 v (i_value i0)
              | None => i end)
         else if should_rebroadcast c i then try_rebroadcast c i else i) in AllQ x /\ NQ x).
  { intros b. cbv zeta. destruct (_ || _); [split; assumption|].
    destruct b; [apply GQ_begin_next_round; assumption|].
    destruct (_ && _).
    - apply GQ_begin_next_round.
      + match goal with |- AllQ ?x => apply (AllQ_rd i x); [|exact HA] end.
        destruct (match sway with Some _ => _ | None => _ end) as [v|]; [|reflexivity]. cbv zeta.
        destruct (rd_add_candidate i v) as [A _]. destruct (chain_eqb _ _); exact A.
      + match goal with |- NQ ?x => apply (NQ_err i x); [|exact HN] end.
        destruct (match sway with Some _ => _ | None => _ end) as [v|]; [|reflexivity]. cbv zeta.
        destruct (rd_add_candidate i v) as [_ B]. destruct (chain_eqb _ _); exact B.
    - destruct (should_rebroadcast c i); [|split; assumption].
      destruct (rd_try_rebroadcast i) as [A B]. split; [apply (AllQ_rd i); assumption|apply (NQ_err i); assumption]. }
  destruct (q_find_sq_value (r_comm (get_round i round))) as [| |[|x v]] eqn:Ev.
  - apply (Hrest (false || _)).
  - exfalso. apply Hnp; [exact HQ|reflexivity].
  - apply (Hrest (true || _)).
  - split.
    + apply (AllQ_rd i); [|exact HA]. rewrite rd_begin_decide. reflexivity.
    + apply NQ_none. apply (begin_decide_no_panic c Htotal Hpow Hsum); assumption.
Qed.

Lemma GQ_try_current_phase i sway : AllQ i -> i_err i = None ->
  AllQ (try_current_phase c i sway) /\ NQ (try_current_phase c i sway).
Proof.
  intros HA He. unfold try_current_phase. destruct (i_phase i).
  - split; [exact HA|apply NQ_fail; [intros []|apply NQ_none; exact He]].
  - destruct (rd_try_quality i) as [A B]. split; [apply (AllQ_rd i); assumption|apply NQ_none; congruence].
  - split; [apply (AllQ_rd i); [apply rd_try_converge|exact HA]|apply NQ_try_converge; exact He].
  - split; [apply (AllQ_rd i); [apply rd_try_prepare|exact HA]|apply NQ_try_prepare; assumption].
  - apply GQ_try_commit; assumption.
  - split; [apply (AllQ_rd i); [apply rd_try_decide|exact HA]|].
    apply NQ_none. apply (try_decide_no_panic c Htotal Hpow Hsum); [apply HA|exact He].
  - split; [exact HA|apply NQ_none; exact He].
Qed.

(* ---- receiveOne: the only place where quorum states change ---- *)
Lemma GQ_receive_one i m sway : AllQ i -> i_err i = None ->
  AllQ (fst (receive_one c i m sway)) /\ NQ (fst (receive_one c i m sway)).
Proof.
  intros HA He. pose proof (NQ_none i He) as HN. unfold receive_one.
  destruct (phase_eqb (i_phase i) TERMINATED); [split; assumption|].
  destruct (_ && (_ || _)); [split; assumption|]. destruct (_ && is_spammable m); [split; assumption|].
  assert (Hfail : forall e, ~ QP e -> AllQ (fail i e) /\ NQ (fail i e)).
  { intros e Hn. split; [exact HA|apply NQ_fail; assumption]. }
  assert (Hq : forall q sender v, QS c q -> QS c (q_receive c q sender v)) by (intros; apply QS_receive; assumption).
  assert (Hrs : forall s, QS c (r_prep s) -> QS c (r_comm s) ->
                AllQ (set_round_state i (m_round m) s) /\ i_err (set_round_state i (m_round m) s) = None).
  { intros s H1 H2. split; [apply AllQ_set_round_state; assumption|exact He]. }
  assert (Hp0 : QS c (r_prep (get_round i (m_round m)))) by apply HA.
  assert (Hc0 : QS c (r_comm (get_round i (m_round m)))) by apply HA.
  destruct (m_phase m) eqn:Ep; cbn [fst].
  - apply Hfail; intros [].
  - cbv zeta. match goal with |- context [update_candidates_from_quality ?x] => set (i1 := x) end.
    assert (H1 : AllQ i1 /\ i_err i1 = None).
    { unfold i1. split; [|exact He]. apply (AllQ_set_round_state (set_quality i _)); [exact HA|exact Hp0|exact Hc0]. }
    destruct H1 as [A1 E1].
    destruct (negb _); cbn [fst].
    + unfold update_candidates_from_quality. destruct (rd_acp i1 (q_longest_prefix (i_quality i1) (i_input i1))) as [A B].
      split; [apply (AllQ_rd i1); assumption|apply NQ_none; congruence].
    + apply GQ_try_current_phase; assumption.
  - destruct (c_receive _ _ _ _ _) as [cs|]; cbn [fst]; [|apply Hfail; intros []].
    destruct (Hrs (mkR cs (r_prep (get_round i (m_round m))) (r_comm (get_round i (m_round m))))) as [A1 E1]; [exact Hp0|exact Hc0|].
    apply GQ_try_current_phase; assumption.
  - cbv zeta. match goal with |- context [try_current_phase c (set_round_state i (m_round m) ?s) sway] => destruct (Hrs s) as [A1 E1] end.
    + cbn. destruct (m_just m); [apply QS_receive_just|]; apply Hq; exact Hp0.
    + exact Hc0.
    + apply GQ_try_current_phase; assumption.
  - cbv zeta. match goal with |- context [try_commit c (set_round_state i (m_round m) ?s) _ _] => destruct (Hrs s) as [A1 E1]; [| |set (i1 := set_round_state i (m_round m) s) in *] end.
    + exact Hp0.
    + cbn. destruct (m_value m); [apply Hq; exact Hc0|]. destruct (m_just m); [apply QS_receive_just|]; apply Hq; exact Hc0.
    + destruct (negb (phase_eqb (i_phase i1) DECIDE)); cbn [fst]; [|apply GQ_try_current_phase; assumption].
      destruct (GQ_try_commit i1 (m_round m) sway A1 E1) as [A2 N2].
      match goal with |- context [if ?b then _ else _] => destruct b eqn:Hag end; cbn [fst]; [|split; assumption].
      apply andb_prop in Hag. destruct Hag as [Hag _]. apply andb_prop in Hag. destruct Hag as [Hag _]. apply andb_prop in Hag. destruct Hag as [Hag _].
      assert (E2 : i_err (try_commit c i1 (m_round m) sway) = None) by (destruct (i_err (try_commit c i1 (m_round m) sway)); [discriminate Hag|reflexivity]).
      apply GQ_try_current_phase; assumption.
  - cbv zeta.
    match goal with |- context [skip_to_decide ?x _ _] => set (i1 := x) end.
    assert (H1 : AllQ i1 /\ i_err i1 = None).
    { unfold i1. split; [|exact He].
      apply (AllQ_set_round_state (set_decision i _)); [|exact Hp0|exact Hc0].
      split; [cbn; apply Hq; apply HA|apply HA]. }
    destruct H1 as [A1 E1].
    match goal with |- context [try_current_phase c ?x sway] => set (i2 := x) end.
    assert (H2 : AllQ i2 /\ i_err i2 = None).
    { unfold i2. destruct (negb (phase_eqb (i_phase i1) DECIDE)); [|split; assumption]. split; [exact A1|exact E1]. }
    destruct H2 as [A2 E2]. apply GQ_try_current_phase; assumption.
  - apply Hfail; intros [].
Qed.

Lemma GQ_post_receive i round : AllQ i -> i_err i = None -> AllQ (post_receive c i round) /\ NQ (post_receive c i round).
Proof.
  intros HA He. pose proof (NQ_none i He) as HN. unfold post_receive.
  destruct (_ || _); [split; assumption|]. destruct (negb _); [split; assumption|].
  destruct (c_find_best _ _) as [w|]; [|split; assumption]. apply GQ_skip_to_round; assumption.
Qed.

Lemma GQ_step i e : AllQ i -> i_err i = None -> AllQ (step c i e) /\ NQ (step c i e).
Proof.
  intros HA He. destruct e as [now|now m sway|now sway]; cbn [step].
  - unfold begin_quality. destruct (negb _); [split; [exact HA|apply NQ_fail; [intros []|apply NQ_none; exact He]]|].
    split; [exact HA|apply NQ_none; exact He].
  - set (i0 := set_now i now). assert (A0 : AllQ i0) by exact HA. assert (E0 : i_err i0 = None) by exact He.
    pose proof (GQ_receive_one i0 m sway A0 E0) as G1.
    destruct (receive_one c i0 m sway) as [i1 changed]. cbn [fst] in G1.
    destruct (changed && match i_err i1 with None => true | Some _ => false end) eqn:Hc; [|exact G1].
    apply andb_prop in Hc. destruct Hc as [_ Hc].
    assert (E1 : i_err i1 = None) by (destruct (i_err i1); [discriminate Hc|reflexivity]).
    apply GQ_post_receive; [apply G1|exact E1].
  - apply GQ_try_current_phase; [exact HA|exact He].
Qed.

Lemma AllQ_new input now : AllQ (new_instance input now).
Proof.
  split; [apply QS_empty|]. intros r. cbn [new_instance i_rounds rget]. destruct (0 =? r); split; apply QS_empty.
Qed.

(* ---- runs ---- *)
Lemma run_hist_noquorumpanic evs : forall i, Inv i -> (i_err i = None -> AllQ i) -> NQ i -> Forall wfe evs ->
  NQ (snd (run_hist c i evs)).
Proof.
  induction evs as [|e evs IH]; intros i HI HA HN Hw; cbn [run_hist]; [exact HN|].
  inversion Hw as [|? ? Hwe Hwr]; subst.
  destruct (step_ordered c (clear_out i) e (Inv_clear_out i HI) Hwe) as (_ & HI' & Hpers & _).
  assert (H' : (i_err (step c (clear_out i) e) = None -> AllQ (step c (clear_out i) e)) /\ NQ (step c (clear_out i) e)).
  { destruct (i_err i) as [x|] eqn:Ex.
    - specialize (Hpers x Ex). split; [intros H; congruence|]. intros y Hy. apply HN. congruence.
    - destruct (GQ_step (clear_out i) e (HA eq_refl) Ex) as [A B]. split; [intros _; exact A|exact B]. }
  destruct H' as [HA' HN'].
  specialize (IH _ HI' HA' HN' Hwr). destruct (run_hist c (step c (clear_out i) e) evs). exact IH.
Qed.

Theorem quorum_panics_unreachable input now evs e :
  Forall wfe evs -> i_err (snd (run_hist c (started c input now) evs)) = Some e -> ~ QP e.
Proof.
  intros Hw.
  assert (HI : Inv (started c input now)).
  { destruct (step_ordered c (new_instance input now) (EvStart now) (Inv_new input now) I) as (_ & H & _). exact H. }
  destruct (GQ_step (new_instance input now) (EvStart now) (AllQ_new input now) eq_refl) as [A B].
  exact (run_hist_noquorumpanic evs _ HI (fun _ => A) B Hw e).
Qed.

End Cfg.

(* ---------- the committee hypotheses follow from the power table itself ---------- *)
(* what gpbft.PowerTable guarantees: non-negative scaled powers, ScaledTotal is their sum; 2^62 bounds the Go arithmetic *)
Definition committee_wf (c : config) : Prop :=
  Forall (fun p => 0 <= p) (c_powers c) /\ c_total c = fold_right Z.add 0 (c_powers c) /\ 0 < c_total c < two62.

Lemma sum_f_nonneg (f : Z -> Z) (Hf : forall x, 0 <= f x) l : 0 <= fold_right (fun x a => f x + a) 0 l.
Proof. induction l as [|x l IH]; cbn; [lia|]. pose proof (Hf x). lia. Qed.
Lemma sum_f_app (f : Z -> Z) a b :
  fold_right (fun x acc => f x + acc) 0 (a ++ b) = fold_right (fun x acc => f x + acc) 0 a + fold_right (fun x acc => f x + acc) 0 b.
Proof. induction a as [|x a IH]; cbn; [reflexivity|]. rewrite IH. lia. Qed.
Lemma sum_sub (f : Z -> Z) (Hf : forall x, 0 <= f x) : forall l dom, NoDup l -> incl l dom ->
  fold_right (fun x a => f x + a) 0 l <= fold_right (fun x a => f x + a) 0 dom.
Proof.
  induction l as [|a l IH]; intros dom Hnd Hin; [cbn; apply sum_f_nonneg; exact Hf|].
  inversion Hnd as [|? ? Hna Hnd']; subst.
  destruct (in_split a dom (Hin a (or_introl eq_refl))) as (d1 & d2 & ->).
  assert (Hin' : incl l (d1 ++ d2)).
  { intros x Hx. assert (Hx' := Hin x (or_intror Hx)). apply in_app_or in Hx'. apply in_or_app.
    destruct Hx' as [Hx'|[Hx'|Hx']]; [left; exact Hx'|subst; contradiction|right; exact Hx']. }
  specialize (IH (d1 ++ d2) Hnd' Hin'). rewrite sum_f_app in *. cbn. lia.
Qed.

Lemma map_nth_seq (p : list Z) : map (fun k => nth k p 0) (seq 0 (length p)) = p.
Proof.
  induction p as [|a p IH]; [reflexivity|]. cbn [length]. rewrite <- cons_seq, <- seq_shift. cbn [map nth]. rewrite map_map. cbn [nth].
  rewrite IH. reflexivity.
Qed.

Lemma committee_wf_ok c : committee_wf c ->
  0 < c_total c < two62 /\ (forall s, 0 <= power_of c s) /\ (forall l, NoDup l -> sum_power c l <= c_total c).
Proof.
  intros (Hnn & Htot & Hb). split; [exact Hb|].
  assert (Hpow : forall s, 0 <= power_of c s).
  { intros s. unfold power_of. destruct (_ || _) eqn:E; [lia|]. apply orb_false_elim in E. destruct E as [E1 E2].
    apply Z.ltb_ge in E1. apply Z.leb_gt in E2. rewrite Forall_forall in Hnn. apply Hnn. apply nth_In. lia. }
  split; [exact Hpow|]. intros l Hnd.
  set (n := length (c_powers c)).
  set (inr := fun s : Z => negb ((s <? 0) || (Z.of_nat n <=? s))).
  assert (E1 : sum_power c l = sum_power c (filter inr l)).
  { unfold sum_power. clear Hnd. induction l as [|x l IH]; [reflexivity|]. cbn [filter fold_right].
    destruct (inr x) eqn:Ex; cbn [fold_right]; [rewrite IH; reflexivity|].
    rewrite IH. unfold inr in Ex. apply negb_false_iff in Ex. unfold power_of. fold n. rewrite Ex. lia. }
  rewrite E1. unfold sum_power.
  eapply Z.le_trans; [apply (sum_sub (power_of c) Hpow (filter inr l) (map Z.of_nat (seq 0 n)))|].
  - apply NoDup_filter. exact Hnd.
  - intros x Hx. apply filter_In in Hx. destruct Hx as [_ Hx]. unfold inr in Hx. apply negb_true_iff, orb_false_elim in Hx.
    destruct Hx as [H1 H2]. apply Z.ltb_ge in H1. apply Z.leb_gt in H2.
    apply in_map_iff. exists (Z.to_nat x). split; [lia|]. apply in_seq. lia.
  - rewrite Htot. apply Z.eq_le_incl.
    rewrite <- (map_nth_seq (c_powers c)) at 1. fold n.
    assert (Hm : forall (l0 : list nat), (forall k, In k l0 -> (k < n)%nat) ->
              fold_right (fun x a => power_of c x + a) 0 (map Z.of_nat l0) = fold_right Z.add 0 (map (fun k => nth k (c_powers c) 0) l0)).
    { induction l0 as [|k l0 IH]; intros Hk; [reflexivity|]. cbn [map fold_right]. rewrite IH by (intros; apply Hk; right; assumption).
      f_equal. unfold power_of. fold n. assert (Hlt := Hk k (or_introl eq_refl)).
      replace ((Z.of_nat k <? 0) || (Z.of_nat n <=? Z.of_nat k)) with false.
      - rewrite Nat2Z.id. reflexivity.
      - symmetry. apply orb_false_intro; [apply Z.ltb_ge; lia|apply Z.leb_gt; lia]. }
    apply Hm. intros k Hk. apply in_seq in Hk. lia.
Qed.

Lemma cfg_wfb_spec c : cfg_wfb c = true -> committee_wf c.
Proof.
  unfold cfg_wfb, committee_wf, two62. intros H.
  apply andb_prop in H. destruct H as [H H4]. apply andb_prop in H. destruct H as [H H3]. apply andb_prop in H. destruct H as [H1 H2].
  apply Z.ltb_lt in H4, H3. apply Z.eqb_eq in H2. split; [|split; [exact H2|lia]].
  rewrite forallb_forall in H1. apply Forall_forall. intros x Hx. apply Z.leb_le. apply H1. exact Hx.
Qed.

Theorem quorum_panics_unreachable_wf c input now evs e :
  committee_wf c -> Forall wfe evs -> i_err (snd (run_hist c (started c input now) evs)) = Some e -> ~ QP e.
Proof.
  intros Hwf. destruct (committee_wf_ok c Hwf) as (H1 & H2 & H3). apply quorum_panics_unreachable; assumption.
Qed.
