(* executable conformance check of a vote trace of real nodes against the Layer-S transition system *)
From Coq Require Import ZArith List Bool Arith.
From F3 Require Import Spec.
Import ListNotations.
Open Scope Z_scope.

Definition spec_trace_ok (powers : list Z) (honest : list bool) (inputs : list chain) (votes : list vote) : bool :=
  let n := length powers in
  conforms (fun i => nth i powers 0) (seq 0 n) (fun i => nth i honest false) (fun i => nth i inputs []) [] votes.
