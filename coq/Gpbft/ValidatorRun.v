(* executable checker for the C05 / C13 correspondence: a history of validation calls on ONE long-lived validator *)
From Coq Require Import ZArith List Bool.
From F3 Require Import GoInt QuorumGen ProgressGen Validator.
Import ListNotations.
Open Scope Z_scope.

Inductive vop :=
| OFull (m : gmsg)                          (* ValidateMessage *)
| OPartial (m : gmsg) (k : Z)               (* PartiallyValidateMessage *)
| OTwo (m : gmsg) (k : Z) (x : chainv).     (* partial, complete with x, FullyValidateMessage *)

Fixpoint cmt_of (cs : list (Z * committee)) (inst : Z) : option committee :=
  match cs with [] => None | (i, c) :: r => if i =? inst then Some c else cmt_of r inst end.
Definition op_inst (o : vop) : Z := match o with OFull m | OPartial m _ | OTwo m _ _ => v_inst (g_vote m) end.

Definition run_op net cs lookback (c : cache) (p : progress) (o : vop) : verdict * cache :=
  let cmt := cmt_of cs (op_inst o) in
  match o with
  | OFull m => validate_message net cmt c p lookback m
  | OPartial m k => partially_validate net cmt c p lookback m k
  | OTwo m k x => two_stage net cmt c p lookback m k x
  end.

(* index of the first call whose verdict differs, or -1 *)
Fixpoint run_ops net cs lookback (c : cache) (ops : list (progress * vop * Z)) (idx : Z) : Z :=
  match ops with
  | [] => -1
  | (p, o, code) :: r =>
      let '(v, c') := run_op net cs lookback c p o in
      if verdict_code v =? code then run_ops net cs lookback c' r (idx + 1) else idx
  end.
Definition val_history_ok net cs lookback ops : bool := run_ops net cs lookback cache_empty ops 0 =? -1.
Definition val_history_dbg net cs lookback ops : Z := run_ops net cs lookback cache_empty ops 0.
