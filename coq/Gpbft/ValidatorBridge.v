(* Bridge between the validator model (C05, Gpbft/Validator.v) and the hypothesis of the instance theorems (C07 / C01):
   a message the validator model ACCEPTS (one-shot path, what ValidateMessage admits) has the shape `wfmb` that
   no_internal_error and the refinement assume of every delivered message. *)
From Coq Require Import ZArith List Bool Lia.
From F3 Require Import GoInt QuorumGen ProgressGen Validator ValidatorProofs Instance InstanceRun.
Import ListNotations.
Open Scope Z_scope.

Definition phase_of_code (p : Z) : phase :=
  if p =? 1 then QUALITY else if p =? 2 then CONVERGE else if p =? 3 then PREPARE else if p =? 4 then COMMIT
  else if p =? 5 then DECIDE else if p =? 0 then INITIAL else TERMINATED.

(* the instance-level reading of a validated message: `v` / `jv` are the chains behind the value keys (only whether the
   value is bottom matters here), the sender index and ticket rank are irrelevant for the shape *)
Definition to_inst (m : gmsg) (sender rank : Z) (v jv : chain) : msg :=
  mkM sender (v_round (g_vote m)) (phase_of_code (v_phase (g_vote m))) v rank
      (option_map (fun j => mkJ (v_round (Validator.j_vote j)) (phase_of_code (v_phase (Validator.j_vote j))) jv (Validator.j_signers j)) (g_just m)).

Lemma sub_u64_pred r : 1 <= r < two64 -> sub_u64 r 1 = r - 1.
Proof. intros H. unfold sub_u64, wrap_u64. rewrite Z.mod_small; [reflexivity|]. unfold two64 in *. lia. Qed.

Theorem accepts_wfmb net cmt m sender rank v jv :
  accepts net cmt None m = true ->
  0 <= v_round (g_vote m) < two64 ->
  is_zero v = ch_is_zero (v_value (g_vote m)) ->
  wfmb (to_inst m sender rank v jv) = true.
Proof.
  unfold accepts. destruct (lookup_member _ _) as [mem|]; [|discriminate]. cbv zeta.
  intros H Hr Hz. apply andb_prop in H. destruct H as [H Hj]. apply andb_prop in H. destruct H as [H _].
  apply andb_prop in H. destruct H as [_ Hph].
  unfold wfmb, to_inst. cbn [m_phase m_round m_value m_just]. unfold phase_of_code.
  assert (Hjr : forall j, g_just m = Some j -> just_accepts net cmt None m = true ->
                forall want, (forall jp key, expectation (v_phase (g_vote m)) (v_round (g_vote m)) jp key <> None ->
                                exists k', expectation (v_phase (g_vote m)) (v_round (g_vote m)) jp key = Some (Some want, k')) ->
                v_round (Validator.j_vote j) = want).
  { intros j Ej Ha want Hex. unfold just_accepts in Ha. rewrite Ej in Ha.
    apply andb_prop in Ha. destruct Ha as [_ Ha].
    destruct (expectation _ _ _ _) as [[rd ekey]|] eqn:Ee; [|discriminate Ha].
    destruct (Hex _ _ ltac:(rewrite Ee; discriminate)) as (k' & Ek). rewrite Ek in Ee. injection Ee as <- _.
    apply andb_prop in Ha. destruct Ha as [Ha _]. apply andb_prop in Ha. destruct Ha as [Ha _]. apply Z.eqb_eq. exact Ha. }
  remember (v_phase (g_vote m)) as ph eqn:Eph. remember (v_round (g_vote m)) as rd eqn:Erd.
  assert (Hnj : g_just m = None -> just_accepts net cmt None m = true -> False).
  { intros Ej Ha. unfold just_accepts in Ha. rewrite Ej in Ha. discriminate Ha. }
  destruct (Z.eqb_spec ph 1) as [->|N1]; [reflexivity|].
  destruct (Z.eqb_spec ph 2) as [->|N2].
  - (* CONVERGE *)
    cbn in Hph, Hj. apply andb_prop in Hph. destruct Hph as [Hph _]. apply andb_prop in Hph. destruct Hph as [Hr0 Hnb].
    rewrite Hz, Hnb. cbn [andb]. apply negb_true_iff, Z.eqb_neq in Hr0.
    destruct (g_just m) as [j|] eqn:Ej; [|exfalso; apply Hnj; [reflexivity|exact Hj]].
    cbn [option_map j_round]. apply Z.eqb_eq. rewrite <- (sub_u64_pred rd) by lia.
    apply (Hjr j eq_refl Hj). intros jp key Hne. unfold expectation in *. cbn in *.
    destruct (jp =? 4); [eexists; reflexivity|]. destruct (jp =? 3); [eexists; reflexivity|congruence].
  - destruct (Z.eqb_spec ph 3) as [->|N3].
    + (* PREPARE *)
      cbn in Hj. destruct (rd =? 0) eqn:Er0; cbn in Hj.
      * destruct (g_just m); [discriminate Hj|reflexivity].
      * apply Z.eqb_neq in Er0.
        destruct (g_just m) as [j|] eqn:Ej; [|exfalso; apply Hnj; [reflexivity|exact Hj]].
        cbn [option_map j_round]. apply Z.eqb_eq. rewrite <- (sub_u64_pred rd) by lia.
        apply (Hjr j eq_refl Hj). intros jp key Hne. unfold expectation in *. cbn in *.
        destruct (jp =? 4); [eexists; reflexivity|]. destruct (jp =? 3); [eexists; reflexivity|congruence].
    + destruct (Z.eqb_spec ph 4) as [->|N4].
      * (* COMMIT *)
        cbn in Hj. rewrite Hz. destruct (ch_is_zero (v_value (g_vote m))) eqn:Eb; [reflexivity|]. cbn in Hj. cbn [orb].
        destruct (g_just m) as [j|] eqn:Ej; [|exfalso; apply Hnj; [reflexivity|exact Hj]].
        cbn [option_map j_round]. apply Z.eqb_eq.
        apply (Hjr j eq_refl Hj). intros jp key Hne. unfold expectation in *. cbn in *.
        destruct (jp =? 3); [eexists; reflexivity|congruence].
      * destruct (Z.eqb_spec ph 5) as [->|N5].
        -- cbn in Hph. apply andb_prop in Hph. destruct Hph as [Hr0 _]. exact Hr0.
        -- exfalso. revert Hph. repeat match goal with |- context [ph =? ?k] => replace (ph =? k) with false by (symmetry; apply Z.eqb_neq; assumption) end. cbn. discriminate.
Qed.
