(* messageQueue: nothing that Add accepts is lost before Drain.
   For every sequence of arrivals: the queue holds exactly the FIRST message of every (instance, sender, round, step) slot
   among the arrivals that are not "unjustified beyond the look-ahead limit"; Drain returns exactly the queued messages of
   the instance (a permutation, ordered by round and step) and leaves the other instances untouched.  In particular a
   sender's messages are never dropped for being many: DECIDE and late-round justified votes of a peer that has long
   terminated are still there when the participant starts. *)
From Coq Require Import ZArith List Bool Lia Permutation.
From F3 Require Import MsgQueue.
Import ListNotations.
Open Scope Z_scope.

Definition admissible (max_round : Z) (m : qmsg) : bool := negb ((max_round <? qm_round m) && spammable m).

Lemma same_slot_refl m : same_slot m m = true.
Proof. unfold same_slot. rewrite !Z.eqb_refl. reflexivity. Qed.
Lemma same_slot_sym a b : same_slot a b = same_slot b a.
Proof. unfold same_slot. rewrite (Z.eqb_sym (qm_inst a)), (Z.eqb_sym (qm_sender a)), (Z.eqb_sym (qm_round a)), (Z.eqb_sym (qm_phase a)). reflexivity. Qed.
Lemma same_slot_trans a b c : same_slot a b = true -> same_slot b c = true -> same_slot a c = true.
Proof.
  unfold same_slot. intros H1 H2. repeat (apply andb_true_iff in H1; destruct H1 as [H1 ?]). repeat (apply andb_true_iff in H2; destruct H2 as [H2 ?]).
  repeat match goal with H : (_ =? _) = true |- _ => apply Z.eqb_eq in H end.
  repeat (apply andb_true_iff; split); apply Z.eqb_eq; congruence.
Qed.

(* one step of Add *)
Lemma q_add_spec mr q m x :
  In x (q_add mr q m) <-> In x q \/ (x = m /\ admissible mr m = true /\ existsb (same_slot m) q = false).
Proof.
  unfold q_add, admissible. destruct ((mr <? qm_round m) && spammable m); cbn [negb].
  - split; [intros H; left; exact H|intros [H|(_ & H & _)]; [exact H|discriminate H]].
  - destruct (existsb (same_slot m) q) eqn:E.
    + split; [intros H; left; exact H|intros [H|(_ & _ & H)]; [exact H|discriminate H]].
    + rewrite in_app_iff. cbn. split.
      * intros [H|[H|[]]]; [left; exact H|right; repeat split; symmetry; exact H].
      * intros [H|(-> & _ & _)]; [left; exact H|right; left; reflexivity].
Qed.

(* nothing queued is ever dropped by later arrivals *)
Lemma q_add_incl mr q m : incl q (q_add mr q m).
Proof. intros x Hx. apply q_add_spec. left. exact Hx. Qed.
Lemma q_run_from_incl mr ms : forall q, incl q (fold_left (q_add mr) ms q).
Proof.
  induction ms as [|m ms IH]; intros q; cbn [fold_left]; [apply incl_refl|].
  eapply incl_tran; [apply q_add_incl|apply IH].
Qed.

(* one message per slot *)
Definition slots_unique (q : queue) : Prop :=
  forall a b, In a q -> In b q -> same_slot a b = true -> a = b.
Lemma existsb_same_slot_false m q : existsb (same_slot m) q = false -> forall x, In x q -> same_slot m x = false.
Proof.
  intros H x Hx. destruct (same_slot m x) eqn:E; [|reflexivity].
  assert (existsb (same_slot m) q = true) by (apply existsb_exists; exists x; split; assumption). congruence.
Qed.
Lemma q_add_unique mr q m : slots_unique q -> slots_unique (q_add mr q m).
Proof.
  intros U a b Ha Hb Hs. apply q_add_spec in Ha. apply q_add_spec in Hb.
  destruct Ha as [Ha|(-> & _ & Ea)]; destruct Hb as [Hb|(-> & _ & Eb)]; [exact (U a b Ha Hb Hs)| | |reflexivity].
  - rewrite same_slot_sym in Hs. rewrite (existsb_same_slot_false _ _ Eb a Ha) in Hs. discriminate Hs.
  - rewrite (existsb_same_slot_false _ _ Ea b Hb) in Hs. discriminate Hs.
Qed.
Lemma q_run_from_unique mr ms : forall q, slots_unique q -> slots_unique (fold_left (q_add mr) ms q).
Proof. induction ms as [|m ms IH]; intros q U; cbn [fold_left]; [exact U|]. apply IH. apply q_add_unique. exact U. Qed.

(* every admissible arrival is represented: the queue holds a message of its slot (itself, or an earlier one of that slot) *)
Lemma q_add_represented mr q m : admissible mr m = true -> exists x, In x (q_add mr q m) /\ same_slot m x = true.
Proof.
  intros Ha. destruct (existsb (same_slot m) q) eqn:E.
  - apply existsb_exists in E. destruct E as (x & Hx & Hs). exists x. split; [apply q_add_incl; exact Hx|exact Hs].
  - exists m. split; [apply q_add_spec; right; repeat split; assumption|apply same_slot_refl].
Qed.

Theorem queue_keeps_every_slot mr ms m : In m ms -> admissible mr m = true ->
  exists x, In x (q_run mr ms) /\ same_slot m x = true.
Proof.
  unfold q_run. generalize (@nil qmsg) as q. induction ms as [|y ms IH]; intros q Hin Ha; [destruct Hin|]. cbn [fold_left].
  destruct Hin as [->|Hin].
  - destruct (q_add_represented mr q m Ha) as (x & Hx & Hs). exists x. split; [apply (q_run_from_incl mr ms); exact Hx|exact Hs].
  - apply IH; assumption.
Qed.

Theorem queue_only_arrivals mr ms x : In x (q_run mr ms) -> In x ms /\ admissible mr x = true.
Proof.
  unfold q_run. assert (G : forall q, In x (fold_left (q_add mr) ms q) -> In x q \/ (In x ms /\ admissible mr x = true)).
  { induction ms as [|y ms IH]; intros q H; cbn [fold_left] in H; [left; exact H|].
    destruct (IH _ H) as [H1|(H1 & H2)]; [|right; split; [right; exact H1|exact H2]].
    apply q_add_spec in H1. destruct H1 as [H1|(-> & H2 & _)]; [left; exact H1|right; split; [left; reflexivity|exact H2]]. }
  intros H. destruct (G [] H) as [[]|H1]. exact H1.
Qed.
Theorem queue_one_per_slot mr ms : slots_unique (q_run mr ms).
Proof. apply q_run_from_unique. intros a b []. Qed.

(* Drain *)
Lemma insert_by_perm m l : Permutation (insert_by m l) (m :: l).
Proof.
  induction l as [|x l IH]; cbn; [apply Permutation_refl|]. destruct (key_le m x); [apply Permutation_refl|].
  eapply perm_trans; [apply perm_skip; exact IH|apply perm_swap].
Qed.
Lemma sort_msgs_perm l : Permutation (sort_msgs l) l.
Proof. induction l as [|x l IH]; cbn; [constructor|]. eapply perm_trans; [apply insert_by_perm|apply perm_skip; exact IH]. Qed.

Theorem drain_exact q inst x :
  In x (fst (q_drain q inst)) <-> In x q /\ qm_inst x = inst.
Proof.
  unfold q_drain. cbn [fst]. split.
  - intros H. apply (Permutation_in _ (sort_msgs_perm _)) in H. apply filter_In in H. destruct H as [H1 H2]. apply Z.eqb_eq in H2. split; assumption.
  - intros [H1 H2]. apply (Permutation_in _ (Permutation_sym (sort_msgs_perm _))). apply filter_In. split; [exact H1|apply Z.eqb_eq; exact H2].
Qed.
Theorem drain_leaves_others q inst x :
  In x (snd (q_drain q inst)) <-> In x q /\ qm_inst x <> inst.
Proof.
  unfold q_drain. cbn [snd]. rewrite filter_In. split; intros [H1 H2]; split; try exact H1.
  - apply negb_true_iff, Z.eqb_neq in H2. exact H2.
  - apply negb_true_iff, Z.eqb_neq. exact H2.
Qed.
Theorem drain_no_duplication q inst : Permutation (fst (q_drain q inst)) (filter (fun m => qm_inst m =? inst) q).
Proof. apply sort_msgs_perm. Qed.

(* the statement that matters to C06: whatever arrived for instance i before the participant started -- justified, or
   within the look-ahead -- is handed to the instance when it starts (its slot's first arrival), however many messages
   each sender had queued *)
Theorem queued_messages_delivered_at_start mr ms i m :
  In m ms -> qm_inst m = i -> admissible mr m = true ->
  exists x, In x (fst (q_drain (q_run mr ms) i)) /\ same_slot m x = true.
Proof.
  intros Hin Hi Ha. destruct (queue_keeps_every_slot mr ms m Hin Ha) as (x & Hx & Hs). exists x. split; [|exact Hs].
  apply drain_exact. split; [exact Hx|]. unfold same_slot in Hs. repeat (apply andb_true_iff in Hs; destruct Hs as [Hs ?]).
  apply Z.eqb_eq in Hs. congruence.
Qed.

Example queue_example :
  let ms := [mkQM 3 1 0 1 false 10; mkQM 3 1 0 3 false 11; mkQM 3 1 2 3 false 12; mkQM 3 1 2 3 true 13; mkQM 3 2 5 5 true 14;
             mkQM 3 1 0 3 false 15; mkQM 4 1 0 1 false 16] in
  map qm_tag (fst (q_drain (q_run 1 ms) 3)) = [10; 11; 13; 14] /\ map qm_tag (snd (q_drain (q_run 1 ms) 3)) = [16].
Proof. split; reflexivity. Qed.
