(* Layer N, protocol discipline IV (C07): the explicit panics around quorum bookkeeping are unreachable.
   Every PREPARE / COMMIT / DECIDE quorum state of the instance is built from q_empty by q_receive (one vote per sender)
   and q_receive_just; such states satisfy QS below, and on QS states
     - FindStrongQuorumValue never sees two values with a strong quorum   ("multiple chains with strong quorum"),
     - FindStrongQuorumFor finds signers whenever hasStrongQuorum is set   ("strong quorum exists but could not be found"),
   hence tryDecide, tryCommit -> beginDecide and tryPrepare -> beginCommit do not panic. *)
From Coq Require Import ZArith List Bool Lia Permutation.
From F3 Require Import GoInt QuorumGen QuorumProofs Instance InstanceOrder InstanceVotes InstanceDecide.
Import ListNotations.
Open Scope Z_scope.

Section Cfg.
Variable c : config.
(* the committee: scaled powers are non-negative, the total is that of the power table, and the members' powers add up to
   at most the total (ScaledTotal is the sum of ScaledPower) *)
Hypothesis Htotal : 0 < c_total c < two62.
Hypothesis Hpow : forall s, 0 <= power_of c s.
Hypothesis Hsum : forall l, NoDup l -> sum_power c l <= c_total c.

Lemma sum_power_app a b : sum_power c (a ++ b) = sum_power c a + sum_power c b.
Proof. induction a as [|x a IH]; cbn; [reflexivity|]. unfold sum_power in *. cbn. rewrite IH. lia. Qed.
Lemma sum_power_perm a b : Permutation a b -> sum_power c a = sum_power c b.
Proof. unfold sum_power. induction 1; cbn; lia. Qed.
Lemma sum_power_nonneg l : 0 <= sum_power c l.
Proof. induction l as [|x l IH]; unfold sum_power in *; cbn; [lia|]. pose proof (Hpow x). lia. Qed.

Lemma strong_mono p q : p <= q -> isStrongQuorum p (c_total c) = true -> isStrongQuorum q (c_total c) = true.
Proof.
  intros Hle H. apply (strong_iff p (c_total c)) in H; [|lia]. apply (strong_iff q (c_total c)); [lia|]. lia.
Qed.

(* ---------- invariant of a one-vote-per-sender quorum state ---------- *)
Record sup_wf (q : qstate) (s : support) : Prop := {
  sw_nodup : NoDup (s_signers s);
  sw_incl : incl (s_signers s) (q_senders q);
  sw_power : s_power s = sum_power c (s_signers s);
  sw_sq : s_sq s = isStrongQuorum (s_power s) (c_total c) }.
Fixpoint chains_distinct (l : list support) : Prop :=
  match l with [] => True | s :: r => (forall t, In t r -> s_chain t <> s_chain s) /\ chains_distinct r end.
Fixpoint signers_disjoint (l : list support) : Prop :=
  match l with [] => True | s :: r => (forall t x, In t r -> In x (s_signers s) -> ~ In x (s_signers t)) /\ signers_disjoint r end.
Record QS (q : qstate) : Prop := {
  qs_nodup : NoDup (q_senders q);
  qs_sup : forall s, In s (q_support q) -> sup_wf q s;
  qs_chains : chains_distinct (q_support q);
  qs_disj : signers_disjoint (q_support q) }.

Lemma QS_empty : QS q_empty.
Proof. constructor; cbn; auto; [constructor|intros s []]. Qed.

(* ---------- FindStrongQuorumFor never misses ---------- *)
Lemma take_quorum_complete l : forall acc pw,
  isStrongQuorum (pw + sum_power c l) (c_total c) = true -> l <> [] -> take_quorum c l acc pw <> None.
Proof.
  induction l as [|s l IH]; intros acc pw H Hne; [congruence|]. cbn.
  destruct (isStrongQuorum (pw + power_of c s) (c_total c)) eqn:E; [discriminate|].
  destruct l as [|t l'].
  - exfalso. unfold sum_power in H. cbn in H. rewrite Z.add_0_r in H. congruence.
  - apply IH; [|discriminate]. unfold sum_power in *. cbn in *. rewrite <- H. f_equal. lia.
Qed.

Lemma find_sq_for_no_panic q k : QS q -> q_find_sq_for c q k <> FsqPanic.
Proof.
  intros HQ. unfold q_find_sq_for. destruct (sup_find (q_support q) k) as [s|] eqn:Ef; [|discriminate].
  destruct (s_sq s) eqn:Esq; [|discriminate].
  destruct (sup_find_In _ _ _ Ef) as [Hin _]. destruct (qs_sup q HQ s Hin) as [_ _ Hp Hs].
  destruct (take_quorum c (sortZ (s_signers s)) [] 0) eqn:Et; [discriminate|]. exfalso.
  assert (Hperm := sortZ_perm (s_signers s)).
  apply (take_quorum_complete (sortZ (s_signers s)) [] 0); [| |exact Et].
  - rewrite (sum_power_perm _ _ Hperm), Z.add_0_l, <- Hp, <- Hs. exact Esq.
  - intros E. rewrite E in Hperm. apply Permutation_nil in Hperm.
    rewrite Hs, Hp, Hperm in Esq. unfold sum_power in Esq. cbn in Esq.
    apply (strong_iff 0 (c_total c)) in Esq; lia.
Qed.
Lemma find_sq_for_some q k s : QS q -> sup_find (q_support q) k = Some s -> s_sq s = true -> exists sg, q_find_sq_for c q k = FsqSome sg.
Proof.
  intros HQ Ef Esq. pose proof (find_sq_for_no_panic q k HQ) as Hn. unfold q_find_sq_for in *. rewrite Ef, Esq in *.
  destruct (take_quorum c (sortZ (s_signers s)) [] 0) as [sg|]; [exists sg; reflexivity|congruence].
Qed.

(* ---------- FindStrongQuorumValue never sees two quorums ---------- *)
Lemma two_quorums_impossible q s t :
  QS q -> In s (q_support q) -> In t (q_support q) -> s_sq s = true -> s_sq t = true ->
  (forall x, In x (s_signers s) -> ~ In x (s_signers t)) -> False.
Proof.
  intros HQ Hs Ht Es Et Hd.
  destruct (qs_sup q HQ s Hs) as [N1 I1 P1 S1]. destruct (qs_sup q HQ t Ht) as [N2 I2 P2 S2].
  rewrite S1 in Es. rewrite S2 in Et.
  apply (strong_iff _ (c_total c)) in Es; [|lia]. apply (strong_iff _ (c_total c)) in Et; [|lia].
  assert (Hnd : NoDup (s_signers s ++ s_signers t)).
  { clear - N1 N2 Hd. induction (s_signers s) as [|x l IH]; cbn; [exact N2|].
    inversion N1 as [|? ? Hx Hl]; subst. constructor.
    - intros Hin. apply in_app_or in Hin. destruct Hin as [Hin|Hin]; [contradiction|]. apply (Hd x); [left; reflexivity|exact Hin].
    - apply IH; [intros y Hy; apply Hd; right; exact Hy|exact Hl]. }
  pose proof (Hsum _ Hnd) as Hle. rewrite sum_power_app, <- P1, <- P2 in Hle. lia.
Qed.

Lemma disjoint_lookup l : signers_disjoint l -> forall s t, In s l -> In t l -> s <> t ->
  (forall x, In x (s_signers s) -> ~ In x (s_signers t)).
Proof.
  induction l as [|u l IH]; intros Hd s t Hs Ht Hne; [contradiction|]. cbn in Hd. destruct Hd as [Hd1 Hd2].
  destruct Hs as [->|Hs], Ht as [->|Ht]; try congruence.
  - intros x Hx. apply (Hd1 t x Ht Hx).
  - intros x Hx Hx'. apply (Hd1 s x Hs Hx' Hx).
  - apply IH; assumption.
Qed.

Theorem find_sq_value_no_panic q : QS q -> q_find_sq_value q <> FsvPanic.
Proof.
  intros HQ. unfold q_find_sq_value.
  destruct (filter s_sq (q_support q)) as [|s [|t r]] eqn:Ef; try discriminate. exfalso.
  assert (Hs : In s (filter s_sq (q_support q))) by (rewrite Ef; left; reflexivity).
  assert (Ht : In t (filter s_sq (q_support q))) by (rewrite Ef; right; left; reflexivity).
  apply filter_In in Hs. apply filter_In in Ht. destruct Hs as [Hs Es], Ht as [Ht Et].
  (* s and t are different elements of the support list: the filtered list has no duplicates of position *)
  assert (Hne : s <> t).
  { intros E. subst t.
    (* the same support twice in the filter would mean it occurs twice in the support list: its chain would repeat *)
    assert (Hc := qs_chains q HQ). clear - Ef Hc.
    induction (q_support q) as [|u l IH]; cbn in *; [discriminate|].
    destruct Hc as [Hc1 Hc2]. destruct (s_sq u) eqn:Eu.
    - injection Ef as -> Ef. assert (In s (filter s_sq l)) by (rewrite Ef; left; reflexivity).
      apply filter_In in H. destruct H as [H _]. apply (Hc1 s H). reflexivity.
    - apply IH; assumption. }
  apply (two_quorums_impossible q s t HQ Hs Ht Es Et). apply (disjoint_lookup _ (qs_disj q HQ)); assumption.
Qed.

Lemma find_sq_value_support q v : QS q -> q_find_sq_value q = FsvSome v ->
  exists s, sup_find (q_support q) v = Some s /\ s_sq s = true.
Proof.
  intros HQ. unfold q_find_sq_value. destruct (filter s_sq (q_support q)) as [|s [|t r]] eqn:Ef; try discriminate.
  intros H. injection H as <-.
  assert (Hs : In s (filter s_sq (q_support q))) by (rewrite Ef; left; reflexivity).
  apply filter_In in Hs. destruct Hs as [Hs Es]. exists s. split; [|exact Es].
  assert (Hc := qs_chains q HQ). clear - Hs Hc.
  induction (q_support q) as [|u l IH]; [contradiction|]. cbn in *. destruct Hc as [Hc1 Hc2].
  destruct Hs as [->|Hs]; [rewrite chain_eqb_refl; reflexivity|].
  destruct (chain_eqb (s_chain u) (s_chain s)) eqn:E; [apply chain_eqb_eq in E; exfalso; apply (Hc1 s Hs); congruence|apply IH; assumption].
Qed.

(* ---------- the functions do not panic on QS states ---------- *)
Theorem try_decide_no_panic i :
  QS (i_decision i) -> i_err i = None ->
  i_err (try_decide c i) = None.
Proof.
  intros HQ He. unfold try_decide.
  destruct (q_find_sq_value (i_decision i)) as [| |v] eqn:Ev.
  - destruct (R_try_rebroadcast c i) as [_ [Hp _]]. destruct (i_err (try_rebroadcast c i)) eqn:E; [|reflexivity].
    (* tryRebroadcast never records an error *)
    exfalso. clear Hp. revert E. unfold try_rebroadcast.
    destruct (i_rtimeout i); [destruct (_ <=? _)|destruct (_ =? _)];
      repeat match goal with |- context [if ?b then _ else _] => destruct b end; cbn; rewrite ?He;
      try discriminate; unfold do_rebroadcast; destruct (i_phase i); try (destruct (0 <? _)); cbn; rewrite He; discriminate.
  - exfalso. apply (find_sq_value_no_panic _ HQ Ev).
  - destruct (find_sq_value_support _ v HQ Ev) as (s & Ef & Es).
    destruct (find_sq_for_some _ v s HQ Ef Es) as (sg & ->). cbn. exact He.
Qed.

Lemma begin_decide_err i round sg :
  q_find_sq_for c (r_comm (get_round i round)) (i_value i) = FsqSome sg -> i_err (begin_decide c i round) = i_err i.
Proof.
  intros H. unfold begin_decide.
  change (q_find_sq_for c (r_comm (get_round (reset_rebroadcast (set_progress i (i_round i) DECIDE)) round))
            (i_value (reset_rebroadcast (set_progress i (i_round i) DECIDE))))
    with (q_find_sq_for c (r_comm (get_round i round)) (i_value i)).
  rewrite H. reflexivity.
Qed.

Theorem begin_decide_no_panic i round x v :
  QS (r_comm (get_round i round)) -> q_find_sq_value (r_comm (get_round i round)) = FsvSome (x :: v) -> i_err i = None ->
  i_err (begin_decide c (set_pv i (i_proposal i) (x :: v)) round) = None.
Proof.
  intros HQ Ev He.
  destruct (find_sq_value_support _ _ HQ Ev) as (s & Ef & Es).
  destruct (find_sq_for_some _ _ s HQ Ef Es) as (sg & E).
  rewrite (begin_decide_err (set_pv i (i_proposal i) (x :: v)) round sg); [exact He|exact E].
Qed.

(* tryPrepare -> beginCommit: a value is committed only with a justification at hand *)
Theorem try_prepare_no_panic i :
  QS (r_prep (get_round i (i_round i))) -> i_err i = None ->
  i_err (try_prepare c i) <> Some PBeginCommit /\ i_err (try_prepare c i) <> Some PFindQuorum.
Proof.
  intros HQ He. unfold try_prepare. cbv zeta.
  set (found := q_has_sq _ _).
  set (fj1 := q_has_just (r_comm (get_round i (i_round i))) PREPARE (i_proposal i)).
  set (fj2 := q_has_just (r_prep (get_round i (i_round i + 1))) PREPARE (i_proposal i)).
  set (fj3 := c_has_just (r_conv (get_round i (i_round i + 1))) PREPARE (i_proposal i)).
  assert (Hreb : forall x, i_err x = None -> i_err (if should_rebroadcast c x then try_rebroadcast c x else x) = None).
  { intros x Hx. destruct (should_rebroadcast c x); [|exact Hx].
    pose proof (R_try_rebroadcast c x) as [_ [_ _]].
    unfold try_rebroadcast.
    destruct (i_rtimeout x); [destruct (_ <=? _)|destruct (_ =? _)];
      repeat match goal with |- context [if ?b then _ else _] => destruct b end; cbn; rewrite ?Hx;
      try reflexivity; unfold do_rebroadcast; destruct (i_phase x); try (destruct (0 <? _)); cbn; rewrite Hx; reflexivity. }
  (* beginCommit on a state whose value is bottom or justified *)
  assert (Hbc : forall x, i_err x = None -> i_rounds x = i_rounds i -> i_round x = i_round i ->
            (i_value x = [] \/ (i_value x = i_proposal i /\ (found = true \/ fj1 = true \/ fj2 = true \/ fj3 = true))) ->
            i_err (begin_commit c x) = None).
  { intros x Hx Hr Hrd Hv. unfold begin_commit, broadcast.
    cbn [i_value reset_rebroadcast set_timers alarm_after emit set_progress i_round].
    destruct (i_value x) as [|x0 v0] eqn:Evx; [exact Hx|].
    destruct Hv as [Hv|[Hv Hj]]; [discriminate Hv|].
    change (get_round (reset_rebroadcast (alarm_after c (set_progress x (i_round x) COMMIT) false)) (i_round x)) with (rget (i_rounds x) (i_round x)).
    change (get_round (reset_rebroadcast (alarm_after c (set_progress x (i_round x) COMMIT) false)) (i_round x + 1)) with (rget (i_rounds x) (i_round x + 1)).
    rewrite Hr, Hrd. fold (get_round i (i_round i)). fold (get_round i (i_round i + 1)).
    pose proof (find_sq_for_no_panic (r_prep (get_round i (i_round i))) (x0 :: v0) HQ) as Hnp.
    destruct (q_find_sq_for c (r_prep (get_round i (i_round i))) (x0 :: v0)) eqn:Efs; [|congruence|exact Hx].
    (* no quorum of PREPAREs held: then one of the three received justifications exists *)
    assert (Hnf : found = false).
    { unfold found, q_has_sq. rewrite <- Hv. unfold q_find_sq_for in Efs.
      destruct (sup_find (q_support (r_prep (get_round i (i_round i)))) (x0 :: v0)) as [s|] eqn:E1; [|reflexivity].
      destruct (s_sq s) eqn:E2; [|reflexivity].
      destruct (find_sq_for_some _ _ s HQ E1 E2) as (sg & E3). unfold q_find_sq_for in E3. rewrite E1, E2 in E3.
      destruct (take_quorum c (sortZ (s_signers s)) [] 0); discriminate. }
    rewrite Hnf in Hj. destruct Hj as [Hj|Hj]; [discriminate Hj|].
    unfold fj1, fj2, fj3, q_has_just, c_has_just in Hj. rewrite <- Hv in Hj.
    destruct (q_get_just (r_comm (get_round i (i_round i))) PREPARE (x0 :: v0)); [exact Hx|].
    destruct (q_get_just (r_prep (get_round i (i_round i + 1))) PREPARE (x0 :: v0)); [exact Hx|].
    destruct (c_get_just (r_conv (get_round i (i_round i + 1))) PREPARE (x0 :: v0)); [exact Hx|].
    destruct Hj as [Hj|[Hj|Hj]]; discriminate Hj. }
  assert (Hgoal : forall x, i_err x = None -> i_err x <> Some PBeginCommit /\ i_err x <> Some PFindQuorum) by (intros x ->; split; discriminate).
  apply Hgoal.
  destruct (found || (fj1 || fj2 || fj3)) eqn:E1; cbn [orb]; cbv iota.
  - apply Hbc.
    + exact He.
    + reflexivity.
    + reflexivity.
    + right. split; [reflexivity|]. apply orb_prop in E1. destruct E1 as [E1|E1]; [left; exact E1|right].
      apply orb_prop in E1. destruct E1 as [E1|E1]; [apply orb_prop in E1; destruct E1 as [E1|E1]; [left|right; left]; exact E1|right; right; exact E1].
  - match goal with |- context [if ?b then begin_commit c _ else _] => destruct b eqn:E2 end.
    + apply Hbc; [exact He|reflexivity|reflexivity|left; reflexivity].
    + apply Hreb. exact He.
Qed.

(* ---------- QS is what q_receive maintains ---------- *)
Lemma sup_find_none_chain l k : sup_find l k = None -> forall t, In t l -> s_chain t <> k.
Proof.
  induction l as [|x l IH]; intros H t Ht; [contradiction|]. cbn in H.
  destruct (chain_eqb (s_chain x) k) eqn:E; [discriminate|]. destruct Ht as [->|Ht]; [|apply IH; assumption].
  intros Ec. rewrite Ec, chain_eqb_refl in E. discriminate.
Qed.
Lemma sup_set_split l s :
  (exists l1 old l2, l = l1 ++ old :: l2 /\ s_chain old = s_chain s /\ sup_set l s = l1 ++ s :: l2 /\ sup_find l (s_chain s) = Some old) \/
  (sup_find l (s_chain s) = None /\ sup_set l s = l ++ [s]).
Proof.
  induction l as [|x l IH]; cbn; [right; split; reflexivity|].
  destruct (chain_eqb (s_chain x) (s_chain s)) eqn:E.
  - left. exists [], x, l. apply chain_eqb_eq in E. repeat split; auto.
  - destruct IH as [(l1 & old & l2 & -> & Hc & Hs & Hf)|[Hn Hs]].
    + left. exists (x :: l1), old, l2. cbn. rewrite Hs. repeat split; auto.
    + right. rewrite Hs. split; [exact Hn|reflexivity].
Qed.

Lemma chains_distinct_app l s : chains_distinct l -> (forall t, In t l -> s_chain t <> s_chain s) -> chains_distinct (l ++ [s]).
Proof.
  induction l as [|x l IH]; cbn; intros Hd Hn; [split; [intros t []|exact I]|].
  destruct Hd as [H1 H2]. split.
  - intros t Ht. apply in_app_or in Ht. destruct Ht as [Ht|[<-|[]]]; [apply H1; exact Ht|]. intros E. apply (Hn x); [left; reflexivity|congruence].
  - apply IH; [exact H2|]. intros t Ht. apply Hn. right. exact Ht.
Qed.
Lemma chains_distinct_replace l1 old l2 s : s_chain old = s_chain s -> chains_distinct (l1 ++ old :: l2) -> chains_distinct (l1 ++ s :: l2).
Proof.
  intros Hc. induction l1 as [|x l1 IH]; cbn; intros [H1 H2].
  - split; [intros t Ht; rewrite <- Hc; apply H1; exact Ht|exact H2].
  - split; [|apply IH; exact H2].
    intros t Ht. apply in_app_or in Ht. destruct Ht as [Ht|[<-|Ht]].
    + apply H1. apply in_or_app. left. exact Ht.
    + rewrite <- Hc. apply H1. apply in_or_app. right. left. reflexivity.
    + apply H1. apply in_or_app. right. right. exact Ht.
Qed.
Lemma disjoint_app l s : signers_disjoint l -> (forall t x, In t l -> In x (s_signers t) -> ~ In x (s_signers s)) -> signers_disjoint (l ++ [s]).
Proof.
  induction l as [|u l IH]; cbn; intros Hd Hn; [split; [intros t x []|exact I]|].
  destruct Hd as [H1 H2]. split.
  - intros t x Ht Hx. apply in_app_or in Ht. destruct Ht as [Ht|[<-|[]]]; [apply H1; assumption|]. apply (Hn u x); [left; reflexivity|exact Hx].
  - apply IH; [exact H2|]. intros t x Ht. apply Hn. right. exact Ht.
Qed.
Lemma disjoint_replace l1 old l2 s sender :
  s_signers s = s_signers old ++ [sender] ->
  (forall t, In t (l1 ++ old :: l2) -> ~ In sender (s_signers t)) ->
  signers_disjoint (l1 ++ old :: l2) -> signers_disjoint (l1 ++ s :: l2).
Proof.
  intros Hs Hfresh. induction l1 as [|u l1 IH]; cbn in *; intros [H1 H2].
  - split; [|exact H2]. intros t x Ht Hx. rewrite Hs in Hx. apply in_app_or in Hx. destruct Hx as [Hx|[<-|[]]].
    + apply H1; assumption.
    + apply Hfresh. right. exact Ht.
  - split.
    + intros t x Ht Hx. apply in_app_or in Ht. destruct Ht as [Ht|[<-|Ht]].
      * apply H1; [apply in_or_app; left; exact Ht|exact Hx].
      * rewrite Hs. intros Hin. apply in_app_or in Hin. destruct Hin as [Hin|[<-|[]]].
        -- revert Hin. apply H1; [apply in_or_app; right; left; reflexivity|exact Hx].
        -- apply (Hfresh u); [left; reflexivity|exact Hx].
      * apply H1; [apply in_or_app; right; right; exact Ht|exact Hx].
    + apply IH; [|exact H2]. intros t Ht. apply Hfresh. right. exact Ht.
Qed.

Theorem QS_receive q sender v : QS q -> QS (q_receive c q sender v).
Proof.
  intros HQ. unfold q_receive. destruct (memZ sender (q_senders q)) eqn:Em; [exact HQ|].
  assert (Hni : ~ In sender (q_senders q)). { intros H. apply memZ_In in H. congruence. }
  destruct HQ as [Hnd Hsup Hch Hdj].
  assert (Hfresh : forall t, In t (q_support q) -> ~ In sender (s_signers t)).
  { intros t Ht Hin. apply Hni. apply (sw_incl q t (Hsup t Ht)). exact Hin. }
  unfold q_receive_inner. cbn [q_senders q_spower q_support q_just].
  set (cand := match sup_find (q_support q) v with Some s => s | None => mkSup v 0 [] false end).
  set (ns := mkSup v (s_power cand + power_of c sender) (s_signers cand ++ [sender]) (isStrongQuorum (s_power cand + power_of c sender) (c_total c))).
  set (q' := mkQ (q_senders q ++ [sender]) (q_spower q + power_of c sender) (sup_set (q_support q) ns) (q_just q)).
  assert (Hold : forall t, In t (q_support q) -> sup_wf q' t).
  { intros t Ht. destruct (Hsup t Ht) as [A B C D]. constructor; auto. intros x Hx. cbn. apply in_or_app. left. apply B. exact Hx. }
  assert (Hcand : NoDup (s_signers cand) /\ incl (s_signers cand) (q_senders q) /\ s_power cand = sum_power c (s_signers cand)).
  { unfold cand. destruct (sup_find (q_support q) v) as [s|] eqn:Ef.
    - destruct (sup_find_In _ _ _ Ef) as [Hin _]. destruct (Hsup s Hin) as [A B C D]. auto.
    - cbn. repeat split; [constructor|intros x []]. }
  destruct Hcand as (C1 & C2 & C3).
  assert (Hns : sup_wf q' ns).
  { constructor; cbn.
    - apply Permutation_NoDup with (l := sender :: s_signers cand); [apply Permutation_cons_append|].
      constructor; [intros Hx; apply Hni, C2; exact Hx|exact C1].
    - intros x Hx. apply in_app_or in Hx. destruct Hx as [Hx|[<-|[]]]; apply in_or_app; [left; apply C2; exact Hx|right; left; reflexivity].
    - change (s_power cand + power_of c sender = sum_power c (s_signers cand ++ [sender])). rewrite sum_power_app, C3. unfold sum_power. cbn. lia.
    - reflexivity. }
  change (QS q'). constructor; unfold q'; cbn [q_senders q_support].
  - apply Permutation_NoDup with (l := sender :: q_senders q); [apply Permutation_cons_append|constructor; assumption].
  - intros t Ht. apply sup_set_In in Ht. fold q'. destruct Ht as [->|Ht]; [exact Hns|apply Hold; exact Ht].
  - destruct (sup_set_split (q_support q) ns) as [(l1 & old & l2 & El & Hc & Hs & Hf)|[Hn Hs]]; rewrite Hs.
    + rewrite El in Hch. eapply chains_distinct_replace; eauto.
    + apply chains_distinct_app; [exact Hch|]. apply sup_find_none_chain. exact Hn.
  - destruct (sup_set_split (q_support q) ns) as [(l1 & old & l2 & El & Hc & Hs & Hf)|[Hn Hs]]; rewrite Hs.
    + assert (Eo : cand = old). { unfold cand. cbn in Hf. rewrite Hf. reflexivity. }
      rewrite El in Hdj, Hfresh. eapply (disjoint_replace l1 old l2 ns sender); [cbn; rewrite Eo; reflexivity|exact Hfresh|exact Hdj].
    + apply disjoint_app; [exact Hdj|].
      assert (Ec : s_signers cand = []). { unfold cand. cbn in Hn. rewrite Hn. reflexivity. }
      intros t x Ht Hx. cbn. rewrite Ec. cbn. intros [<-|[]]. apply (Hfresh t Ht). exact Hx.
Qed.
Lemma QS_receive_just q v j : QS q -> QS (q_receive_just q v j).
Proof.
  intros [A B C D]. unfold q_receive_just. destruct (existsb _ _); constructor; cbn; auto.
  intros s Hs. destruct (B s Hs) as [E F G H]. constructor; auto.
Qed.

End Cfg.
