(* Layer N, protocol discipline I (C07): progress never moves backwards, and every broadcast is emitted at a strictly
   increasing progress point -- hence at most one message per (round, step).  All statements quantify over EVERY state
   and EVERY event (validated or not): no reachability hypothesis is needed for these two. *)
From Coq Require Import ZArith List Bool Lia.
From F3 Require Import GoInt QuorumGen Instance.
Import ListNotations.
Open Scope Z_scope.

Definition K := (Z * Z)%type.
Definition pkey (i : inst) : K := (i_round i, phase_code (i_phase i)).
(* strict progress order; once in DECIDE (code 5) or later the round is frozen *)
Definition klt (a b : K) : Prop :=
  (fst a < fst b \/ (fst a = fst b /\ snd a < snd b)) /\ (5 <= snd a -> fst b = fst a).
Definition kle (a b : K) : Prop := a = b \/ klt a b.

Lemma klt_trans a b c : klt a b -> klt b c -> klt a c.
Proof. unfold klt; intros [H1 H2] [H3 H4]; split; [|intros H5; specialize (H2 H5)]; lia. Qed.
Lemma kle_refl a : kle a a. Proof. now left. Qed.
Lemma kle_trans a b c : kle a b -> kle b c -> kle a c.
Proof. intros [->|H1] [->|H2]; [now left|now right|now right|right; eapply klt_trans; eauto]. Qed.
Lemma klt_kle_trans a b c : klt a b -> kle b c -> klt a c.
Proof. intros H [->|H2]; [assumption|eapply klt_trans; eauto]. Qed.
Lemma kle_klt_trans a b c : kle a b -> klt b c -> klt a c.
Proof. intros [->|H1] H; [assumption|eapply klt_trans; eauto]. Qed.
Lemma klt_irrefl a : ~ klt a a. Proof. unfold klt; lia. Qed.

(* the key a broadcast is emitted at: DECIDE votes always carry round 0 *)
Definition okey (r : Z) (p : phase) (k : K) : Prop :=
  (p = DECIDE /\ r = 0 /\ snd k = 5) \/ (p <> DECIDE /\ k = (r, phase_code p)).

Fixpoint chain_ok (p0 : K) (l : list out) (p1 : K) : Prop :=
  match l with
  | [] => kle p0 p1
  | OBroadcast r p _ _ _ :: rest => exists k, klt p0 k /\ okey r p k /\ chain_ok k rest p1
  | _ :: rest => chain_ok p0 rest p1
  end.

Lemma chain_ok_kle p0 l p1 : chain_ok p0 l p1 -> kle p0 p1.
Proof.
  revert p0; induction l as [|o l IH]; intros p0 H; [exact H|].
  destruct o; simpl in H; auto.
  destruct H as (k & Hk & _ & Hr). right. eapply klt_kle_trans; eauto.
Qed.
Lemma chain_ok_weaken p0 p0' l p1 : kle p0' p0 -> chain_ok p0 l p1 -> chain_ok p0' l p1.
Proof.
  revert p0 p0'; induction l as [|o l IH]; intros p0 p0' Hle H; simpl in *.
  - eapply kle_trans; eauto.
  - destruct o; [|eapply IH; eauto|eapply IH; eauto].
    destruct H as (k & Hk & Ho & Hr). exists k; split; [eapply kle_klt_trans; eauto|split; assumption].
Qed.
Lemma chain_ok_app p0 l1 p1 l2 p2 : chain_ok p0 l1 p1 -> chain_ok p1 l2 p2 -> chain_ok p0 (l1 ++ l2) p2.
Proof.
  revert p0; induction l1 as [|o l1 IH]; intros p0 H1 H2; simpl in *.
  - eapply chain_ok_weaken; eauto.
  - destruct o; [|eapply IH; eauto|eapply IH; eauto].
    destruct H1 as (k & Hk & Ho & Hr). exists k; split; [assumption|split; [assumption|eapply IH; eauto]].
Qed.

Lemma phase_code_inj a b : phase_code a = phase_code b -> a = b.
Proof. destruct a, b; simpl; intros H; try reflexivity; discriminate H. Qed.
Lemma phase_eqb_true a b : phase_eqb a b = true <-> a = b.
Proof. unfold phase_eqb; rewrite Z.eqb_eq; split; [apply phase_code_inj|now intros ->]. Qed.
Lemma phase_eqb_false a b : phase_eqb a b = false <-> a <> b.
Proof. rewrite <- phase_eqb_true; destruct (phase_eqb a b); split; congruence. Qed.

Section Cfg.
Variable c : config.

(* i' was obtained from i by emitting `added` (newest first) along a well-ordered chain of progress points *)
Definition Rc (i i' : inst) : Prop := exists added, i_out i' = added ++ i_out i /\ chain_ok (pkey i) (rev added) (pkey i').
(* frame: a recorded internal error persists, the DECIDE quorum state is untouched *)
(* the decision report is either untouched or was just produced by tryDecide from the DECIDE quorum state *)
Definition Tm (i i' : inst) : Prop :=
  i_term i' = i_term i \/
  exists v signers, i_term i' = Some (build_just 0 DECIDE v signers) /\
                    q_find_sq_value (i_decision i) = FsvSome v /\ q_find_sq_for c (i_decision i) v = FsqSome signers.
Definition Fr (i i' : inst) : Prop :=
  (forall e, i_err i = Some e -> i_err i' = Some e) /\ i_decision i' = i_decision i /\
  incl (i_cands i) (i_cands i') /\ i_input i' = i_input i /\ Tm i i'.
Definition R (i i' : inst) : Prop := Rc i i' /\ Fr i i'.

Lemma Fr_eq i i' : i_err i' = i_err i -> i_decision i' = i_decision i -> incl (i_cands i) (i_cands i') -> i_input i' = i_input i -> i_term i' = i_term i -> Fr i i'.
Proof. intros E1 E2 E3 E4 E5; split; [intros e H; congruence|split; [exact E2|split; [assumption|split; [assumption|left; assumption]]]]. Qed.
Lemma Fr_refl i : Fr i i. Proof. apply Fr_eq; try reflexivity. apply incl_refl. Qed.
Lemma Fr_trans a b c0 : Fr a b -> Fr b c0 -> Fr a c0.
Proof.
  intros (H1 & H2 & H3 & H4 & H4t) (H5 & H6 & H7 & H8 & H8t); split; [intros e H; auto|split; [congruence|split; [|split; [congruence|]]]].
  - eapply incl_tran; eauto.
  - destruct H8t as [E|(v & sg & E & F1 & F2)].
    + destruct H4t as [E'|(v & sg & E' & F1 & F2)]; [left; congruence|right; exists v, sg; repeat split; congruence].
    + right. exists v, sg. rewrite <- H2. repeat split; assumption.
Qed.
Lemma Fr_fail i e : Fr i (fail i e).
Proof. split; [|split; [reflexivity|split; [apply incl_refl|split; [reflexivity|left; reflexivity]]]]. intros e0 H. cbn. rewrite H. reflexivity. Qed.
Ltac fr_eq := apply Fr_eq; [reflexivity|reflexivity|apply incl_refl|reflexivity|reflexivity].

Lemma Rc_intro added i i' : i_out i' = added ++ i_out i -> chain_ok (pkey i) (rev added) (pkey i') -> Rc i i'.
Proof. intros; exists added; auto. Qed.
Lemma Rc_refl i : Rc i i. Proof. apply (Rc_intro []); simpl; auto using kle_refl. Qed.
Lemma Rc_trans a b c0 : Rc a b -> Rc b c0 -> Rc a c0.
Proof.
  intros (l1 & E1 & C1) (l2 & E2 & C2). apply (Rc_intro (l2 ++ l1)).
  - rewrite E2, E1, app_assoc; reflexivity.
  - rewrite rev_app_distr. eapply chain_ok_app; eauto.
Qed.
Lemma Rc_kle a b : Rc a b -> kle (pkey a) (pkey b).
Proof. intros (l & _ & C). eapply chain_ok_kle; eauto. Qed.

Lemma R_intro added i i' : i_out i' = added ++ i_out i -> chain_ok (pkey i) (rev added) (pkey i') -> Fr i i' -> R i i'.
Proof. intros; split; [eapply Rc_intro; eauto|assumption]. Qed.
Lemma R_refl i : R i i. Proof. split; [apply Rc_refl|apply Fr_refl]. Qed.
Lemma R_trans a b c0 : R a b -> R b c0 -> R a c0.
Proof. intros [H1 H2] [H3 H4]; split; [eapply Rc_trans; eauto|eapply Fr_trans; eauto]. Qed.
Lemma R_kle a b : R a b -> kle (pkey a) (pkey b).
Proof. intros [H _]; apply Rc_kle; exact H. Qed.

(* quiet changes: outputs, progress, error and DECIDE state untouched *)
Definition same (i i' : inst) : Prop :=
  i_out i' = i_out i /\ pkey i' = pkey i /\ i_err i' = i_err i /\ i_decision i' = i_decision i /\
  incl (i_cands i) (i_cands i') /\ i_input i' = i_input i /\ i_term i' = i_term i.
Ltac same_triv := repeat split; try reflexivity; try assumption; apply incl_refl.
Lemma same_refl i : same i i. Proof. same_triv. Qed.
Lemma same_trans a b c0 : same a b -> same b c0 -> same a c0.
Proof. intros (A1 & A2 & A3 & A4 & A5 & A6 & A7) (B1 & B2 & B3 & B4 & B5 & B6 & B7); repeat split; try congruence. eapply incl_tran; eauto. Qed.
Lemma R_same i i' : same i i' -> R i i'.
Proof. intros (E1 & E2 & E3 & E4 & E5 & E6 & E7). apply (R_intro []); simpl; auto; [rewrite E2; apply kle_refl|apply Fr_eq; assumption]. Qed.
Lemma same_phase i i' : same i i' -> i_phase i' = i_phase i.
Proof. intros (_ & E & _). apply phase_code_inj. change (snd (pkey i') = snd (pkey i)). rewrite E; reflexivity. Qed.
Lemma same_round i i' : same i i' -> i_round i' = i_round i.
Proof. intros (_ & E & _). change (fst (pkey i') = fst (pkey i)). rewrite E; reflexivity. Qed.

Ltac r_quiet := apply R_same; same_triv.

Definition not_bcast (o : out) : Prop := match o with OBroadcast _ _ _ _ _ => False | _ => True end.
Lemma R_emit i o : not_bcast o -> R i (emit i o).
Proof. intros H. apply (R_intro [o]); [reflexivity| |fr_eq]. destruct o; simpl in *; try contradiction; apply kle_refl. Qed.
Lemma R_fail i e : R i (fail i e).
Proof. apply (R_intro []); [reflexivity|apply kle_refl|apply Fr_fail]. Qed.

(* ---- building blocks ---- *)
Lemma R_alarm_after i q : R i (alarm_after c i q).
Proof. unfold alarm_after. eapply R_trans; [|apply R_emit; exact I]. r_quiet. Qed.
Lemma R_reset i : R i (reset_rebroadcast i). Proof. r_quiet. Qed.
Lemma R_do_rebroadcast i : R i (do_rebroadcast i).
Proof.
  unfold do_rebroadcast. destruct (i_phase i); try apply R_refl; try (apply R_emit; exact I);
  (destruct (0 <? _); repeat (first [apply R_refl | eapply R_trans; [|apply R_emit; exact I]])).
Qed.
Lemma pkey_do_rebroadcast i : pkey (do_rebroadcast i) = pkey i.
Proof. unfold do_rebroadcast. destruct (i_phase i); try reflexivity; destruct (0 <? _); reflexivity. Qed.

Lemma R_try_rebroadcast i : R i (try_rebroadcast c i).
Proof.
  unfold try_rebroadcast. destruct (i_rtimeout i) as [rt|].
  - destruct (rt <=? i_now i); [|apply R_refl].
    eapply R_trans; [apply R_do_rebroadcast|].
    set (i1 := do_rebroadcast i).
    repeat match goal with |- context [if ?b then _ else _] => destruct b end;
      (eapply R_trans; [|apply R_emit; exact I]); r_quiet.
  - destruct (i_rattempts i =? 0); [|apply R_refl].
    repeat match goal with |- context [if ?b then _ else _] => destruct b end;
      try (eapply R_trans; [|apply R_emit; exact I]); r_quiet.
Qed.
Lemma pkey_try_rebroadcast i : pkey (try_rebroadcast c i) = pkey i.
Proof.
  unfold try_rebroadcast. destruct (i_rtimeout i) as [rt|].
  - destruct (rt <=? i_now i); [|reflexivity].
    repeat match goal with |- context [if ?b then _ else _] => destruct b end; cbn; apply pkey_do_rebroadcast.
  - destruct (i_rattempts i =? 0); [|reflexivity].
    repeat match goal with |- context [if ?b then _ else _] => destruct b end; reflexivity.
Qed.

(* advance progress to k' (strictly) and broadcast in the slot of k' *)
Lemma R_advance_bcast i i' quiet r p v j t :
  i_out i' = OBroadcast r p v j t :: quiet ++ i_out i ->
  Forall not_bcast quiet -> klt (pkey i) (pkey i') -> okey r p (pkey i') ->
  i_err i' = i_err i -> i_decision i' = i_decision i -> incl (i_cands i) (i_cands i') -> i_input i' = i_input i -> i_term i' = i_term i -> R i i'.
Proof.
  intros E Hq Hlt Hk He Hd Hc Hi Hterm. apply (R_intro (OBroadcast r p v j t :: quiet)); [exact E| |apply Fr_eq; assumption].
  simpl. assert (G : forall p0, chain_ok p0 (rev quiet) p0).
  { intros p0. apply Forall_rev in Hq. induction Hq as [|o l Ho _ IH]; simpl; [apply kle_refl|]. destruct o; simpl in Ho; try contradiction; exact IH. }
  eapply chain_ok_app; [apply G|]. simpl. exists (pkey i'); repeat split; auto; apply kle_refl || apply Hlt.
Qed.

Lemma okey_same r p : p <> DECIDE -> okey r p (r, phase_code p). Proof. intros H; right; auto. Qed.

Lemma R_begin_prepare i j : phase_code (i_phase i) < 3 -> R i (begin_prepare c i j).
Proof.
  intros H. unfold begin_prepare, broadcast, reset_rebroadcast, alarm_after.
  eapply (R_advance_bcast _ _ [_]); [reflexivity|repeat constructor| |apply okey_same; discriminate|reflexivity|reflexivity|apply incl_refl|reflexivity|reflexivity].
  unfold klt, pkey; cbn. lia.
Qed.
Lemma pkey_begin_prepare i j : pkey (begin_prepare c i j) = (i_round i, 3).
Proof. reflexivity. Qed.

Lemma R_begin_commit i : phase_code (i_phase i) < 4 -> R i (begin_commit c i).
Proof.
  intros H. unfold begin_commit, broadcast.
  set (i1 := reset_rebroadcast (alarm_after c (set_progress i (i_round i) COMMIT) false)).
  assert (Hq : R i i1). { unfold i1. eapply R_trans; [|apply R_reset]. eapply R_trans; [|apply R_alarm_after]. apply (R_intro []); [reflexivity| |fr_eq]. simpl. right. unfold klt, pkey; cbn; lia. }
  assert (Hb : forall v j, R i (emit i1 (OBroadcast (i_round i1) COMMIT v j false))).
  { intros v j. unfold i1, reset_rebroadcast, alarm_after.
    eapply (R_advance_bcast _ _ [_]); [reflexivity|repeat constructor| |apply okey_same; discriminate|reflexivity|reflexivity|apply incl_refl|reflexivity|reflexivity].
    unfold klt, pkey; cbn; lia. }
  destruct (i_value i1) eqn:Ev; [apply Hb|].
  repeat match goal with
         | |- R i (fail _ _) => eapply R_trans; [exact Hq|apply R_fail]
         | |- R i (emit i1 _) => apply Hb
         | |- R i (match ?x with _ => _ end) => destruct x
         end.
Qed.
Lemma pkey_begin_commit i : pkey (begin_commit c i) = (i_round i, 4).
Proof.
  unfold begin_commit, broadcast.
  set (i1 := reset_rebroadcast (alarm_after c (set_progress i (i_round i) COMMIT) false)).
  destruct (i_value i1); [reflexivity|].
  repeat match goal with |- context [match ?x with _ => _ end] => destruct x end; reflexivity.
Qed.

Lemma R_begin_decide i round : phase_code (i_phase i) < 5 -> R i (begin_decide c i round).
Proof.
  intros H. unfold begin_decide, broadcast.
  set (i1 := reset_rebroadcast (set_progress i (i_round i) DECIDE)).
  assert (Hq : R i i1). { apply (R_intro []); [reflexivity| |fr_eq]. simpl. right. unfold klt, pkey; cbn; lia. }
  destruct (q_find_sq_for c _ _); try (eapply R_trans; [exact Hq|apply R_fail]).
  eapply (R_advance_bcast _ _ []); [reflexivity|constructor| |left; auto|reflexivity|reflexivity|apply incl_refl|reflexivity|reflexivity].
  unfold klt, pkey; cbn; lia.
Qed.
Lemma pkey_begin_decide i round : pkey (begin_decide c i round) = (i_round i, 5).
Proof. unfold begin_decide, broadcast. destruct (q_find_sq_for c _ _); reflexivity. Qed.

Lemma R_skip_to_decide i v j : phase_code (i_phase i) < 5 -> R i (skip_to_decide i v j).
Proof.
  intros H. unfold skip_to_decide, broadcast.
  eapply (R_advance_bcast _ _ []); [reflexivity|constructor| |left; auto|reflexivity|reflexivity|apply incl_refl|reflexivity|reflexivity].
  unfold klt, pkey; cbn; lia.
Qed.

(* beginConverge entered with the round already advanced: the old key lies strictly below (round, CONVERGE) *)
Lemma R_begin_converge i0 i j :
  i_out i = i_out i0 -> i_err i = i_err i0 -> i_decision i = i_decision i0 -> incl (i_cands i0) (i_cands i) -> i_input i = i_input i0 -> i_term i = i_term i0 ->
  klt (pkey i0) (i_round i, 2) -> kle (pkey i0) (pkey i) -> R i0 (begin_converge c i j).
Proof.
  intros Eo Ee Ed Ec Ei Et Hlt Hle. unfold begin_converge.
  destruct (negb _).
  - apply (R_intro []); [exact Eo|exact Hle|]. split; [|split; [exact Ed|split; [exact Ec|split; [exact Ei|left; exact Et]]]]. intros e H. cbn. rewrite Ee, H. reflexivity.
  - unfold broadcast, reset_rebroadcast, alarm_after.
    eapply (R_advance_bcast _ _ [_]); [cbn; rewrite Eo; reflexivity|repeat constructor|exact Hlt|apply okey_same; discriminate|exact Ee|exact Ed|exact Ec|exact Ei|exact Et].
Qed.

Lemma R_begin_next_round i : i_phase i = COMMIT -> R i (begin_next_round c i).
Proof.
  intros Hp. unfold begin_next_round.
  set (i1 := set_progress i (i_round i + 1) (i_phase i)).
  assert (Hlt : klt (pkey i) (i_round i1, 2)). { unfold klt, pkey, i1; cbn; rewrite Hp; cbn; lia. }
  assert (Hle : kle (pkey i) (pkey i1)). { right. unfold klt, pkey, i1; cbn; rewrite Hp; cbn; lia. }
  assert (Hf : forall e, R i (fail i1 e)). { intros e. apply (R_intro []); [reflexivity|exact Hle|apply (Fr_fail i e)]. }
  repeat match goal with
         | |- R i (fail _ _) => apply Hf
         | |- R i (begin_converge _ _ _) => apply R_begin_converge; [reflexivity|reflexivity|reflexivity|apply incl_refl|reflexivity|reflexivity|exact Hlt|exact Hle]
         | |- R i (match ?x with _ => _ end) => destruct x
         end.
Qed.

Lemma same_add_candidate i v : same i (fst (add_candidate i v)).
Proof. unfold add_candidate. destruct (is_candidate i v); [same_triv|]. repeat split; try reflexivity. cbn. apply incl_appl, incl_refl. Qed.
Lemma same_add_candidate_prefixes i v : same i (add_candidate_prefixes i v).
Proof.
  unfold add_candidate_prefixes. generalize (rev (all_prefixes v)) as l. intros l; revert i.
  induction l as [|p l IH]; intros i; simpl; [apply same_refl|].
  eapply same_trans; [apply same_add_candidate|apply IH].
Qed.
Lemma same_set_pv i p v : same i (set_pv i p v). Proof. same_triv. Qed.

Lemma R_skip_to_round i round v j : i_round i < round -> phase_code (i_phase i) < 5 -> R i (skip_to_round c i round v j).
Proof.
  intros Hr Hp. unfold skip_to_round.
  set (i1 := set_progress i round (i_phase i)).
  set (i2 := if phase_eqb (i_phase i1) QUALITY then _ else i1).
  set (i3 := if phase_eqb (j_phase j) PREPARE then _ else i2).
  assert (E2 : same i1 i2).
  { unfold i2. destruct (phase_eqb (i_phase i1) QUALITY); [|apply same_refl].
    set (p := q_longest_prefix (i_quality i1) (i_input i1)).
    eapply same_trans; [apply (same_set_pv i1 p (i_value i1))|].
    eapply same_trans; [apply same_add_candidate_prefixes|apply same_set_pv]. }
  assert (E3 : same i1 i3).
  { unfold i3. destruct (phase_eqb (j_phase j) PREPARE); [|exact E2].
    eapply same_trans; [exact E2|]. eapply same_trans; [apply same_add_candidate|apply same_set_pv]. }
  pose proof (same_round _ _ E3) as Er. destruct E3 as (E3 & E4 & E5 & E6 & E7 & E8 & E9).
  apply R_begin_converge; [exact E3|exact E5|exact E6|exact E7|exact E8|exact E9| |].
  - rewrite Er. unfold klt, pkey, i1; cbn. lia.
  - rewrite E4. right. unfold klt, pkey, i1; cbn. lia.
Qed.

Lemma R_terminate i v signers :
  phase_code (i_phase i) < 6 -> q_find_sq_value (i_decision i) = FsvSome v -> q_find_sq_for c (i_decision i) v = FsqSome signers ->
  R i (terminate i (build_just 0 DECIDE v signers)).
Proof.
  intros H F1 F2. apply (R_intro []); [reflexivity| |].
  - simpl. right. unfold klt, pkey; cbn. lia.
  - split; [intros e He; exact He|split; [reflexivity|split; [apply incl_refl|split; [reflexivity|]]]].
    right. exists v, signers. repeat split; assumption.
Qed.

(* ---- try* ---- *)
Lemma R_try_quality i : i_phase i = QUALITY -> R i (try_quality c i).
Proof.
  intros Hp. unfold try_quality. destruct (_ || _); [|apply R_refl].
  set (p := q_longest_prefix _ _).
  assert (S : same i (set_pv (add_candidate_prefixes (set_pv i p (i_value i)) p) p p)).
  { eapply same_trans; [apply (same_set_pv i p (i_value i))|]. eapply same_trans; [apply same_add_candidate_prefixes|apply same_set_pv]. }
  eapply R_trans; [apply R_same; exact S|].
  apply R_begin_prepare. rewrite (same_phase _ _ S), Hp. cbn. lia.
Qed.

Lemma R_try_converge i : i_phase i = CONVERGE -> R i (try_converge c i).
Proof.
  intros Hp. unfold try_converge. destruct (negb _).
  - destruct (should_rebroadcast c i); [apply R_try_rebroadcast|apply R_refl].
  - destruct (c_find_best _ _) as [w|]; [|apply R_fail].
    assert (S : same i (set_pv (fst (add_candidate i (cv_chain w))) (cv_chain w) (cv_chain w))).
    { eapply same_trans; [apply same_add_candidate|apply same_set_pv]. }
    eapply R_trans; [apply R_same; exact S|].
    apply R_begin_prepare. rewrite (same_phase _ _ S), Hp. cbn. lia.
Qed.

Lemma R_try_prepare i : i_phase i = PREPARE -> R i (try_prepare c i).
Proof.
  intros Hp. unfold try_prepare.
  cbv zeta. match goal with |- R i (if _ then begin_commit c ?x else _) => set (i1 := x) end.
  assert (S : same i i1).
  { unfold i1. repeat match goal with |- context [if ?b then _ else _] => destruct b end; same_triv. }
  destruct (_ || _ || _ || _).
  - eapply R_trans; [apply R_same; exact S|]. apply R_begin_commit. rewrite (same_phase _ _ S), Hp. cbn. lia.
  - eapply R_trans; [apply R_same; exact S|].
    destruct (should_rebroadcast c i1); [apply R_try_rebroadcast|apply R_refl].
Qed.

Lemma R_try_commit i round sway : phase_code (i_phase i) < 5 -> R i (try_commit c i round sway).
Proof.
  intros Hp. unfold try_commit.
  assert (Hd : forall p v, R i (begin_decide c (set_pv i p v) round)).
  { intros p v. eapply R_trans; [apply R_same; apply (same_set_pv i p v)|]. apply R_begin_decide. exact Hp. }
  assert (Hrest : forall b : bool,
    R i (if negb (i_round i =? round) || negb (phase_eqb (i_phase i) COMMIT) then i else
         if b then begin_next_round c i else
         if phase_timeout_elapsed i && q_from_strong c (r_comm (get_round i round)) then
           begin_next_round c
             (match (match sway with
                     | Some s => if existsb (chain_eqb s) (filter (fun v => negb (is_zero v)) (q_all_values (r_comm (get_round i round)))) then Some s
                                 else hd_error (filter (fun v => negb (is_zero v)) (q_all_values (r_comm (get_round i round))))
                     | None => hd_error (filter (fun v => negb (is_zero v)) (q_all_values (r_comm (get_round i round)))) end) with
              | Some v => let i0 := fst (add_candidate i v) in if chain_eqb v (i_proposal i0) then i0 else set_pv i0 v (i_value i0)
              | None => i end)
         else if should_rebroadcast c i then try_rebroadcast c i else i)).
  { intros b. destruct (negb (i_round i =? round) || negb (phase_eqb (i_phase i) COMMIT)) eqn:Hc; [apply R_refl|].
    apply orb_false_elim in Hc. destruct Hc as [_ Hc]. apply negb_false_iff in Hc. apply phase_eqb_true in Hc.
    destruct b; [apply R_begin_next_round; exact Hc|].
    destruct (_ && _).
    - match goal with |- R i (begin_next_round c ?x) => set (i1 := x) end.
      assert (S : same i i1).
      { unfold i1. destruct (match sway with Some _ => _ | None => _ end) as [v|]; [|apply same_refl].
        cbv zeta. destruct (chain_eqb v _); [apply same_add_candidate|].
        eapply same_trans; [apply same_add_candidate|apply same_set_pv]. }
      eapply R_trans; [apply R_same; exact S|]. apply R_begin_next_round. rewrite (same_phase _ _ S). exact Hc.
    - destruct (should_rebroadcast c i); [apply R_try_rebroadcast|apply R_refl]. }
  destruct (q_find_sq_value (r_comm (get_round i round))) as [| |[|x v]].
  - apply (Hrest (false || _)).
  - apply R_fail.
  - apply (Hrest (true || _)).
  - apply Hd.
Qed.

Lemma R_try_decide i : i_phase i = DECIDE -> R i (try_decide c i).
Proof.
  intros Hp. unfold try_decide. destruct (q_find_sq_value _) as [| |v] eqn:F1; [apply R_try_rebroadcast|apply R_fail|].
  destruct (q_find_sq_for c _ _) eqn:F2; try apply R_fail. apply R_terminate; [rewrite Hp; cbn; lia|exact F1|exact F2].
Qed.

Lemma R_try_current_phase i sway : R i (try_current_phase c i sway).
Proof.
  unfold try_current_phase. destruct (i_phase i) eqn:Hp.
  - apply R_fail.
  - apply R_try_quality; assumption.
  - apply R_try_converge; assumption.
  - apply R_try_prepare; assumption.
  - apply R_try_commit; rewrite Hp; cbn; lia.
  - apply R_try_decide; assumption.
  - apply R_refl.
Qed.

Lemma R_begin_quality i : R i (begin_quality c i).
Proof.
  unfold begin_quality. destruct (negb _) eqn:Hc; [apply R_fail|].
  apply negb_false_iff, phase_eqb_true in Hc.
  unfold broadcast, reset_rebroadcast, alarm_after.
  eapply (R_advance_bcast _ _ [_]); [reflexivity|repeat constructor| |apply okey_same; discriminate|reflexivity|reflexivity|apply incl_refl|reflexivity|reflexivity].
  unfold klt, pkey; cbn. rewrite Hc; cbn. lia.
Qed.

Lemma R_post_receive i round : phase_code (i_phase i) < 6 -> R i (post_receive c i round).
Proof.
  intros Hnt. unfold post_receive. destruct (_ || _) eqn:Hc; [apply R_refl|].
  apply orb_false_elim in Hc. destruct Hc as [Hr Hp]. apply Z.leb_gt in Hr. apply phase_eqb_false in Hp.
  destruct (negb _); [apply R_refl|]. destruct (c_find_best _ _) as [w|]; [|apply R_refl].
  apply R_skip_to_round; [exact Hr|]. destruct (i_phase i); cbn in *; try lia; congruence.
Qed.

(* ---- phases reachable without passing through tryDecide ---- *)
Lemma kle_phase5 a b : kle a b -> 5 <= snd a -> 5 <= snd b.
Proof. intros [->|[[H|[H1 H2]] H3]] H5; lia. Qed.
Lemma kle_phase6 a b : kle a b -> 6 <= snd a -> 6 <= snd b.
Proof. intros [->|[[H|[H1 H2]] H3]] H5; lia. Qed.
Lemma kle_round a b : kle a b -> fst a <= fst b.
Proof. intros [->|[[H|[H1 H2]] H3]]; lia. Qed.
Lemma phase_code_range p : 0 <= phase_code p <= 6. Proof. destruct p; cbn; lia. Qed.

Lemma phase_begin_converge i j : i_phase (begin_converge c i j) = i_phase i \/ i_phase (begin_converge c i j) = CONVERGE.
Proof. unfold begin_converge. destruct (negb _); [left|right]; reflexivity. Qed.
Lemma phase_begin_next_round i : i_phase (begin_next_round c i) = i_phase i \/ i_phase (begin_next_round c i) = CONVERGE.
Proof.
  unfold begin_next_round.
  repeat match goal with
         | |- context [begin_converge ?c ?x ?j] => let H := fresh in destruct (phase_begin_converge x j) as [H|H]; rewrite H; clear H
         | |- _ \/ _ => first [left; reflexivity | right; reflexivity]
         | |- context [match ?x with _ => _ end] => destruct x
         end.
Qed.

Lemma phase_try_commit i round sway :
  phase_code (i_phase i) < 5 -> phase_code (i_phase (try_commit c i round sway)) <= 5.
Proof.
  intros Hp. pose proof (R_kle _ _ (R_try_commit i round sway Hp)) as Hk.
  unfold try_commit in *.
  assert (G : forall x, same i x -> phase_code (i_phase (begin_next_round c x)) <= 5).
  { intros x S. destruct (phase_begin_next_round x) as [E|E]; rewrite E; [rewrite (same_phase _ _ S); lia|cbn; lia]. }
  destruct (q_find_sq_value (r_comm (get_round i round))) as [| |[|x v]].
  - destruct (negb _ || negb _); [lia|]. destruct (false || _); [apply G, same_refl|].
    destruct (_ && _).
    + apply G. destruct (match sway with Some _ => _ | None => _ end) as [v|]; [|apply same_refl].
      cbv zeta. destruct (chain_eqb v _); [apply same_add_candidate|]. eapply same_trans; [apply same_add_candidate|apply same_set_pv].
    + destruct (should_rebroadcast c i); [|lia]. change (snd (pkey (try_rebroadcast c i)) <= 5). rewrite pkey_try_rebroadcast. cbn; lia.
  - cbn; lia.
  - destruct (negb _ || negb _); [lia|]. apply G, same_refl.
  - change (snd (pkey (begin_decide c (set_pv i (i_proposal i) (x :: v)) round)) <= 5). rewrite pkey_begin_decide. cbn; lia.
Qed.

Lemma phase_try_current_lt5 i sway :
  phase_code (i_phase i) < 5 -> phase_code (i_phase (try_current_phase c i sway)) <= 5.
Proof.
  intros Hp. unfold try_current_phase. destruct (i_phase i) eqn:E; cbn in Hp; try lia.
  - cbn. rewrite E. cbn; lia.
  - unfold try_quality. destruct (_ || _); [cbn; lia|rewrite E; cbn; lia].
  - unfold try_converge. destruct (negb _).
    + destruct (should_rebroadcast c i); [|rewrite E; cbn; lia]. change (snd (pkey (try_rebroadcast c i)) <= 5). rewrite pkey_try_rebroadcast. cbn. rewrite E; cbn; lia.
    + destruct (c_find_best _ _); [cbn; lia|cbn; rewrite E; cbn; lia].
  - unfold try_prepare. cbv zeta.
    match goal with |- context [begin_commit c ?x] => set (i1 := x) end.
    assert (S : same i i1). { unfold i1. repeat match goal with |- context [if ?b then _ else _] => destruct b end; same_triv. }
    destruct (_ || _ || _ || _).
    + change (snd (pkey (begin_commit c i1)) <= 5). rewrite pkey_begin_commit. cbn; lia.
    + destruct (should_rebroadcast c i1).
      * change (snd (pkey (try_rebroadcast c i1)) <= 5). rewrite pkey_try_rebroadcast. destruct S as (_ & S & _). rewrite S. cbn. rewrite E; cbn; lia.
      * rewrite (same_phase _ _ S), E. cbn; lia.
  - apply phase_try_commit. rewrite E; cbn; lia.
Qed.

Definition dec_clear (i : inst) : Prop := i_phase i = DECIDE -> q_find_sq_value (i_decision i) = FsvNone.
Lemma nt_try_current_phase i sway :
  dec_clear i -> i_phase i <> TERMINATED -> i_phase (try_current_phase c i sway) <> TERMINATED.
Proof.
  intros Hd Hn. destruct (Z.lt_ge_cases (phase_code (i_phase i)) 5) as [Hlt|Hge].
  - pose proof (phase_try_current_lt5 i sway Hlt) as H. intros E. rewrite E in H. cbn in H. lia.
  - assert (Ep : i_phase i = DECIDE). { destruct (i_phase i); cbn in Hge; try lia; congruence. }
    unfold try_current_phase. rewrite Ep. unfold try_decide. rewrite (Hd Ep).
    intros E. assert (H : snd (pkey (try_rebroadcast c i)) = 6) by (cbn; rewrite E; reflexivity).
    rewrite pkey_try_rebroadcast in H. cbn in H. rewrite Ep in H. discriminate H.
Qed.

(* ---- receiveOne ---- *)
Lemma same_set_round_state i r s : same i (set_round_state i r s). Proof. same_triv. Qed.
Lemma same_set_quality i q : same i (set_quality i q). Proof. same_triv. Qed.

Lemma R_receive_one i m sway : m_phase m <> DECIDE -> R i (fst (receive_one c i m sway)).
Proof.
  intros Hm. unfold receive_one.
  destruct (phase_eqb (i_phase i) TERMINATED) eqn:Ht; [apply R_refl|]. apply phase_eqb_false in Ht.
  destruct (_ && (_ || _)); [apply R_refl|]. destruct (_ && is_spammable m); [apply R_refl|].
  destruct (m_phase m) eqn:Ep; try congruence; cbn [fst].
  - apply R_fail.
  - cbv zeta. match goal with |- context [update_candidates_from_quality ?x] => set (i1 := x) end.
    assert (S : same i i1) by (eapply same_trans; [apply same_set_quality|apply same_set_round_state]).
    destruct (negb _); cbn [fst].
    + apply R_same. eapply same_trans; [exact S|apply same_add_candidate_prefixes].
    + eapply R_trans; [apply R_same; exact S|apply R_try_current_phase].
  - destruct (c_receive _ _ _ _ _); cbn [fst]; [|apply R_fail].
    eapply R_trans; [apply R_same; apply same_set_round_state|apply R_try_current_phase].
  - cbv zeta. eapply R_trans; [apply R_same; apply same_set_round_state|apply R_try_current_phase].
  - cbv zeta. match goal with |- context [try_commit c ?x _ _] => set (i1 := x) end.
    assert (S : same i i1) by apply same_set_round_state.
    destruct (negb (phase_eqb (i_phase i1) DECIDE)) eqn:Hd; cbn [fst].
    + apply negb_true_iff, phase_eqb_false in Hd.
      assert (Hlt : phase_code (i_phase i1) < 5).
      { rewrite (same_phase _ _ S) in *. destruct (i_phase i); cbn; try lia; congruence. }
      match goal with |- context [if ?b then _ else _] => destruct b end; cbn [fst].
      * eapply R_trans; [apply R_same; exact S|]. eapply R_trans; [apply R_try_commit; exact Hlt|apply R_try_current_phase].
      * eapply R_trans; [apply R_same; exact S|]. apply R_try_commit; exact Hlt.
    + eapply R_trans; [apply R_same; exact S|apply R_try_current_phase].
  - apply R_fail.
Qed.

Lemma dec_clear_same i x : same i x -> dec_clear i -> dec_clear x.
Proof. intros S Hd E. pose proof (same_phase _ _ S) as Sp. destruct S as (S1 & S2 & S3 & S4 & _). rewrite S4. apply Hd. congruence. Qed.

Lemma nt_receive_one i m sway :
  m_phase m <> DECIDE -> dec_clear i -> i_phase i <> TERMINATED -> i_phase (fst (receive_one c i m sway)) <> TERMINATED.
Proof.
  intros Hm Hd Hn. unfold receive_one.
  destruct (phase_eqb (i_phase i) TERMINATED); [exact Hn|].
  destruct (_ && (_ || _)); [exact Hn|]. destruct (_ && is_spammable m); [exact Hn|].
  assert (G : forall x, same i x -> forall sw, i_phase (try_current_phase c x sw) <> TERMINATED).
  { intros x S sw. apply nt_try_current_phase; [eapply dec_clear_same; eauto|rewrite (same_phase _ _ S); exact Hn]. }
  destruct (m_phase m) eqn:Ep; try congruence; cbn [fst].
  - exact Hn.
  - cbv zeta. match goal with |- context [update_candidates_from_quality ?x] => set (i1 := x) end.
    assert (S : same i i1) by (eapply same_trans; [apply same_set_quality|apply same_set_round_state]).
    destruct (negb _); cbn [fst]; [|apply G; exact S].
    rewrite (same_phase i); [exact Hn|]. eapply same_trans; [exact S|apply same_add_candidate_prefixes].
  - destruct (c_receive _ _ _ _ _); cbn [fst]; [|exact Hn]. apply G, same_set_round_state.
  - cbv zeta. apply G, same_set_round_state.
  - cbv zeta. match goal with |- context [try_commit c ?x _ _] => set (i1 := x) end.
    assert (S : same i i1) by apply same_set_round_state.
    destruct (negb (phase_eqb (i_phase i1) DECIDE)) eqn:Hd1; cbn [fst]; [|apply G; exact S].
    apply negb_true_iff, phase_eqb_false in Hd1.
    assert (Hlt : phase_code (i_phase i1) < 5).
    { rewrite (same_phase _ _ S) in *. destruct (i_phase i); cbn; try lia; congruence. }
    pose proof (phase_try_commit i1 (m_round m) sway Hlt) as Hb.
    match goal with |- context [if ?b then _ else _] => destruct b eqn:Hag end; cbn [fst].
    + apply andb_prop in Hag. destruct Hag as [Hag _]. apply andb_prop in Hag. destruct Hag as [Hag _]. apply andb_prop in Hag. destruct Hag as [_ Hag].
      apply phase_eqb_true in Hag. apply nt_try_current_phase; [intros E; congruence|congruence].
    + intros E. rewrite E in Hb. cbn in Hb. lia.
  - exact Hn.
Qed.

(* candidates only grow, the input never changes *)
Definition Fc (i i' : inst) : Prop := incl (i_cands i) (i_cands i') /\ i_input i' = i_input i.
Lemma Fc_R i i' : R i i' -> Fc i i'. Proof. intros [_ (_ & _ & H1 & H2 & _)]. split; assumption. Qed.
Lemma Fc_trans a b c0 : Fc a b -> Fc b c0 -> Fc a c0.
Proof. intros [H1 H2] [H3 H4]; split; [eapply incl_tran; eauto|congruence]. Qed.

Lemma try_decide_clear i :
  i_phase i = DECIDE -> let i' := try_decide c i in
  i_phase i' = DECIDE -> i_err i' = None -> q_find_sq_value (i_decision i') = FsvNone.
Proof.
  intros Hp. unfold try_decide. destruct (q_find_sq_value (i_decision i)) as [| |v] eqn:E; cbv zeta.
  - intros _ _. destruct (R_try_rebroadcast i) as [_ [_ [Hd _]]]. rewrite Hd. exact E.
  - intros _ H. cbn in H. destruct (i_err i); discriminate H.
  - destruct (q_find_sq_for c _ _).
    + intros _ H. cbn in H. destruct (i_err i); discriminate H.
    + intros _ H. cbn in H. destruct (i_err i); discriminate H.
    + intros H. cbn in H. discriminate H.
Qed.

(* a DECIDE message (round 0 by validation): the DECIDE quorum state changes, the participant enters or stays in
   DECIDE and tryDecide runs immediately *)
Lemma receive_one_decide i m sway :
  m_phase m = DECIDE -> m_round m = 0 -> i_phase i <> TERMINATED ->
  let i' := fst (receive_one c i m sway) in
  Rc i i' /\ (forall e, i_err i = Some e -> i_err i' = Some e) /\ 5 <= phase_code (i_phase i') /\
  (i_phase i' = DECIDE -> i_err i' = None -> q_find_sq_value (i_decision i') = FsvNone) /\ Fc i i' /\
  i_decision i' = q_receive c (i_decision i) (m_sender m) (m_value m) /\
  (i_term i' = i_term i \/
   exists v sg, i_term i' = Some (build_just 0 DECIDE v sg) /\
                q_find_sq_value (i_decision i') = FsvSome v /\ q_find_sq_for c (i_decision i') v = FsqSome sg).
Proof.
  intros Hm Hr Ht. unfold receive_one.
  apply phase_eqb_false in Ht. rewrite Ht.
  rewrite Hm. replace (phase_eqb DECIDE CONVERGE) with false by reflexivity. replace (phase_eqb DECIDE PREPARE) with false by reflexivity.
  rewrite andb_false_r. unfold is_spammable. rewrite Hr. replace (0 <? 0) with false by reflexivity. rewrite !andb_false_r.
  cbv zeta. cbn [fst].
  match goal with |- context [skip_to_decide ?x _ _] => set (i1 := x) end.
  match goal with |- context [try_current_phase c ?x sway] => set (i2 := x) end.
  assert (H1 : Rc i i1 /\ i_err i1 = i_err i /\ i_phase i1 = i_phase i).
  { repeat split. apply (Rc_intro []); [reflexivity|apply kle_refl]. }
  destruct H1 as (H1 & H1e & H1p).
  assert (H2 : R i1 i2 /\ i_phase i2 = DECIDE).
  { unfold i2. destruct (negb (phase_eqb (i_phase i1) DECIDE)) eqn:Hd.
    - split; [|reflexivity]. apply R_skip_to_decide. apply negb_true_iff, phase_eqb_false in Hd. apply phase_eqb_false in Ht.
      rewrite H1p in *. destruct (i_phase i); cbn; try lia; congruence.
    - split; [apply R_refl|]. apply negb_false_iff, phase_eqb_true in Hd. exact Hd. }
  destruct H2 as (H2 & H2p).
  pose proof (R_try_current_phase i2 sway) as H3.
  assert (Hdec : i_decision (try_current_phase c i2 sway) = i_decision i1).
  { destruct H3 as [_ (_ & E3 & _)]. destruct H2 as [_ (_ & E2 & _)]. congruence. }
  split; [|split; [|split; [|split; [|split; [|split]]]]].
  - eapply Rc_trans; [exact H1|]. eapply Rc_trans; [apply H2|apply H3].
  - intros e He. apply H3. apply H2. rewrite H1e. exact He.
  - apply R_kle in H3. eapply kle_phase5 in H3; [exact H3|]. cbn. rewrite H2p. cbn. lia.
  - unfold try_current_phase. rewrite H2p. apply try_decide_clear. exact H2p.
  - apply (Fc_trans i i1); [split; [apply incl_refl|reflexivity]|]. eapply Fc_trans; [apply Fc_R; exact H2|apply Fc_R; exact H3].
  - rewrite Hdec. reflexivity.
  - pose proof (R_trans _ _ _ H2 H3) as H23. destruct H23 as [_ (_ & _ & _ & _ & [E|(v & sg & E & F1 & F2)])].
    + left. rewrite E. reflexivity.
    + right. exists v, sg. rewrite Hdec. repeat split; assumption.
Qed.

(* ---- the per-step theorem ---- *)
Definition wfe (e : event) : Prop :=
  match e with EvDeliver _ m _ => m_phase m = DECIDE -> m_round m = 0 | _ => True end.

(* invariant needed for the order results: DECIDE votes are only recorded once in DECIDE, and tryDecide has run on them *)
Definition Inv (i : inst) : Prop :=
  0 <= i_round i /\ (phase_code (i_phase i) < 5 -> i_decision i = q_empty) /\
  (i_phase i = DECIDE -> i_err i = None -> q_find_sq_value (i_decision i) = FsvNone).

Lemma Inv_R i i' : Inv i -> R i i' -> Inv i'.
Proof.
  intros (I1 & I2 & I3) HR. pose proof (R_kle _ _ HR) as Hk. destruct HR as [_ [He [Hd _]]].
  pose proof (phase_code_range (i_phase i)) as Hrg.
  repeat split.
  - apply kle_round in Hk. cbn in Hk. lia.
  - intros Hlt. rewrite Hd. apply I2. destruct (Z.lt_ge_cases (phase_code (i_phase i)) 5) as [H|H]; [exact H|].
    apply kle_phase5 in Hk; [cbn in Hk; lia|exact H].
  - intros Hp He'. rewrite Hd.
    assert (Hen : i_err i = None). { destruct (i_err i) as [e|]; [|reflexivity]. rewrite (He e eq_refl) in He'. discriminate He'. }
    destruct (Z.lt_ge_cases (phase_code (i_phase i)) 5) as [H|H]; [rewrite (I2 H); reflexivity|].
    destruct (Z.eq_dec (phase_code (i_phase i)) 5) as [H5|H5].
    + apply I3; [apply phase_code_inj; exact H5|exact Hen].
    + apply kle_phase6 in Hk; [|cbn; lia]. cbn in Hk. rewrite Hp in Hk. cbn in Hk. lia.
Qed.

Lemma Inv_new input now : Inv (new_instance input now).
Proof. repeat split; cbn; try lia; congruence. Qed.
Lemma Inv_clear_out i : Inv i -> Inv (clear_out i). Proof. exact (fun H => H). Qed.

(* how the DECIDE quorum state and the decision report evolve in one step *)
Definition StepDec (i : inst) (e : event) (i' : inst) : Prop :=
  (i_decision i' = i_decision i \/
   exists now m sw, e = EvDeliver now m sw /\ m_phase m = DECIDE /\ i_decision i' = q_receive c (i_decision i) (m_sender m) (m_value m)) /\
  (i_term i' = i_term i \/
   exists v sg, i_term i' = Some (build_just 0 DECIDE v sg) /\
                q_find_sq_value (i_decision i') = FsvSome v /\ q_find_sq_for c (i_decision i') v = FsqSome sg).
Lemma StepDec_R i e i' : R i i' -> StepDec i e i'.
Proof.
  intros [_ (_ & Ed & _ & _ & [E|(v & sg & E & F1 & F2)])]; split; [left; exact Ed|left; exact E|left; exact Ed|].
  right. exists v, sg. rewrite Ed. repeat split; assumption.
Qed.

Theorem step_ordered i e :
  Inv i -> wfe e -> Rc i (step c i e) /\ Inv (step c i e) /\ (forall x, i_err i = Some x -> i_err (step c i e) = Some x) /\ Fc i (step c i e) /\
  StepDec i e (step c i e).
Proof.
  intros HI Hw. destruct e as [now|now m sway|now sway].
  - assert (H : R i (step c i (EvStart now))).
    { cbn. eapply R_trans; [apply R_same|apply R_begin_quality]. same_triv. }
    split; [apply H|split; [eapply Inv_R; eauto|split; [apply H|split; [apply Fc_R; exact H|apply StepDec_R; exact H]]]].
  - cbn [step]. set (i0 := set_now i now).
    assert (S0 : same i i0) by same_triv.
    assert (HI0 : Inv i0) by (eapply Inv_R; [exact HI|apply R_same; exact S0]).
    destruct (receive_one c i0 m sway) as [i1 changed] eqn:Ero.
    assert (E1 : i1 = fst (receive_one c i0 m sway)) by (rewrite Ero; reflexivity).
    destruct (phase_eqb (i_phase i0) TERMINATED) eqn:Ht.
    { (* terminated: the message is ignored *)
      unfold receive_one in Ero. rewrite Ht in Ero. inversion Ero; subst i1 changed. cbn [andb].
      split; [apply (R_same _ _ S0)|split; [apply HI0|split; [intros x Hx; exact Hx|split; [apply Fc_R, R_same; exact S0|apply StepDec_R, R_same; exact S0]]]]. }
    apply phase_eqb_false in Ht.
    destruct (phase_eqb (m_phase m) DECIDE) eqn:Hmd.
    + apply phase_eqb_true in Hmd. cbn in Hw. specialize (Hw Hmd).
      destruct (receive_one_decide i0 m sway Hmd Hw Ht) as (HRc & Hfe & H5 & Hcl & Hfc & Hdq & Htm). rewrite <- E1 in *.
      assert (Hr1 : 0 <= i_round i1). { apply Rc_kle, kle_round in HRc. destruct HI0 as (H0 & _). cbn in *. lia. }
      assert (Hpost : (if changed && match i_err i1 with None => true | Some _ => false end then post_receive c i1 (m_round m) else i1) = i1).
      { destruct (changed && _); [|reflexivity]. unfold post_receive. rewrite Hw.
        replace (0 <=? i_round i1) with true by (symmetry; apply Z.leb_le; exact Hr1). reflexivity. }
      rewrite Hpost. repeat split.
      * eapply Rc_trans; [apply (R_same _ _ S0)|exact HRc].
      * exact Hr1.
      * intros Hlt. lia.
      * exact Hcl.
      * exact Hfe.
      * apply Hfc.
      * apply Hfc.
      * right. exists now, m, sway. repeat split; [exact Hmd|exact Hdq].
      * exact Htm.
    + apply phase_eqb_false in Hmd.
      pose proof (R_receive_one i0 m sway Hmd) as HR1. rewrite <- E1 in HR1.
      destruct (changed && match i_err i1 with None => true | Some _ => false end) eqn:Hc.
      * apply andb_prop in Hc. destruct Hc as [_ Hc].
        assert (He1 : i_err i1 = None) by (destruct (i_err i1); [discriminate Hc|reflexivity]).
        assert (He0 : i_err i0 = None). { destruct HR1 as [_ [Hp _]]. destruct (i_err i0) as [x|]; [|reflexivity]. rewrite (Hp x eq_refl) in He1. discriminate He1. }
        assert (Hdc : dec_clear i0). { intros Ep. destruct HI0 as (_ & _ & I3). apply I3; assumption. }
        pose proof (nt_receive_one i0 m sway Hmd Hdc Ht) as Hnt. rewrite <- E1 in Hnt.
        assert (HR2 : R i1 (post_receive c i1 (m_round m))).
        { apply R_post_receive. pose proof (phase_code_range (i_phase i1)). destruct (i_phase i1); cbn; try lia; congruence. }
        assert (HR : R i (post_receive c i1 (m_round m))).
        { eapply R_trans; [apply R_same; exact S0|]. eapply R_trans; eauto. }
        split; [apply HR|split; [eapply Inv_R; eauto|split; [apply HR|split; [apply Fc_R; exact HR|apply StepDec_R; exact HR]]]].
      * assert (HR : R i i1) by (eapply R_trans; [apply R_same; exact S0|exact HR1]).
        split; [apply HR|split; [eapply Inv_R; eauto|split; [apply HR|split; [apply Fc_R; exact HR|apply StepDec_R; exact HR]]]].
  - assert (H : R i (step c i (EvAlarm now sway))).
    { cbn. eapply R_trans; [apply R_same|apply R_try_current_phase]. same_triv. }
    split; [apply H|split; [eapply Inv_R; eauto|split; [apply H|split; [apply Fc_R; exact H|apply StepDec_R; exact H]]]].
Qed.

(* ---- runs ---- *)
(* the outputs of a run, oldest first, exactly as the trace checker (InstanceRun.run_trace) observes them *)
Fixpoint run_hist (i : inst) (evs : list event) : list out * inst :=
  match evs with
  | [] => ([], i)
  | e :: rest => let i' := step c (clear_out i) e in
                 let '(h, f) := run_hist i' rest in (rev (i_out i') ++ h, f)
  end.

Lemma run_hist_chain evs : forall i, Inv i -> Forall wfe evs ->
  chain_ok (pkey i) (fst (run_hist i evs)) (pkey (snd (run_hist i evs))) /\ Inv (snd (run_hist i evs)).
Proof.
  induction evs as [|e evs IH]; intros i HI Hw; cbn [run_hist].
  - split; [apply kle_refl|exact HI].
  - inversion Hw as [|? ? Hwe Hwr]; subst.
    destruct (step_ordered (clear_out i) e (Inv_clear_out i HI) Hwe) as (HRc & HI' & _ & _ & _).
    specialize (IH (step c (clear_out i) e) HI' Hwr).
    destruct (run_hist (step c (clear_out i) e) evs) as [h f]. cbn [fst snd] in *.
    destruct IH as [IH1 IH2]. split; [|exact IH2].
    destruct HRc as (added & Ea & Hc). cbn in Ea. rewrite app_nil_r in Ea. rewrite Ea.
    eapply chain_ok_app; [exact Hc|exact IH1].
Qed.

Definition slots (h : list out) : list (Z * Z) :=
  flat_map (fun o => match o with OBroadcast r p _ _ _ => [(r, phase_code p)] | _ => [] end) h.
Definition skey (s : Z * Z) (k : K) : Prop := (snd s = 5 /\ fst s = 0 /\ snd k = 5) \/ (snd s <> 5 /\ k = s).
Lemma okey_skey r p k : okey r p k -> skey (r, phase_code p) k.
Proof.
  intros [(-> & -> & H)|(Hn & ->)]; [left; cbn; auto|right; split; [|reflexivity]].
  cbn. intros E. apply Hn. apply phase_code_inj. exact E.
Qed.
Lemma chain_ok_slots p0 h p1 s : chain_ok p0 h p1 -> In s (slots h) -> exists k, klt p0 k /\ skey s k.
Proof.
  revert p0; induction h as [|o h IH]; intros p0 Hc Hin; [contradiction|].
  destruct o as [r p v j t|r p|t]; cbn in Hc, Hin; try (eapply IH; eauto; fail).
  destruct Hc as (k & Hk & Ho & Hr). destruct Hin as [<-|Hin].
  - exists k; split; [exact Hk|apply okey_skey; exact Ho].
  - destruct (IH k Hr Hin) as (k' & Hk' & Hs). exists k'; split; [eapply klt_trans; eauto|exact Hs].
Qed.
Lemma chain_ok_nodup p0 h p1 : chain_ok p0 h p1 -> NoDup (slots h).
Proof.
  revert p0; induction h as [|o h IH]; intros p0 Hc; [constructor|].
  destruct o as [r p v j t|r p|t]; cbn in Hc |- *; try (eapply IH; eauto; fail).
  destruct Hc as (k & Hk & Ho & Hr). constructor; [|eapply IH; eauto].
  intros Hin. destruct (chain_ok_slots _ _ _ _ Hr Hin) as (k' & Hk' & Hs).
  apply okey_skey in Ho. destruct Ho as [(A1 & A2 & A3)|(A1 & A2)], Hs as [(B1 & B2 & B3)|(B1 & B2)]; cbn in *; try congruence.
  - destruct Hk' as [Hlt Hfz]. specialize (Hfz ltac:(lia)). lia.
  - subst k k'. apply (klt_irrefl _ Hk').
Qed.

(* C07: at most one message per (round, step) over EVERY event sequence *)
Theorem one_message_per_slot input now evs :
  Forall wfe evs -> NoDup (slots (fst (run_hist (new_instance input now) evs))).
Proof.
  intros Hw. destruct (run_hist_chain evs (new_instance input now) (Inv_new input now) Hw) as [H _].
  eapply chain_ok_nodup; exact H.
Qed.

(* C07: (round, step) progress never moves backwards *)
Definition progress_le (a b : inst) : Prop :=
  i_round a < i_round b \/ (i_round a = i_round b /\ phase_code (i_phase a) <= phase_code (i_phase b)).
Theorem progress_monotone i e : Inv i -> wfe e -> progress_le i (step c i e).
Proof.
  intros HI Hw. destruct (step_ordered i e HI Hw) as (HRc & _ & _ & _ & _). apply Rc_kle in HRc.
  unfold progress_le. destruct HRc as [E|[[H|[H1 H2]] _]]; cbn in *; [|lia|lia].
  injection E as E1 E2. lia.
Qed.
(* ... and the invariant it needs holds in every state reachable from a fresh instance *)
Theorem reachable_Inv input now evs : Forall wfe evs -> Inv (snd (run_hist (new_instance input now) evs)).
Proof. intros Hw. apply (run_hist_chain evs _ (Inv_new input now) Hw). Qed.

(* C07: the candidate set only grows and the input is never replaced, in every step *)
Theorem candidates_monotone i e : Inv i -> wfe e -> Fc i (step c i e).
Proof. intros HI Hw. apply (step_ordered i e HI Hw). Qed.

End Cfg.
