(* Refinement, definitions: how the executable instance model (Layer N, Gpbft/Instance.v) is read as a participant of the
   vote-set protocol (Layer S, Gpbft/Spec.v).  A participant's broadcasts are its S-level votes; what it has received is
   evidence about the global vote set E.  RefineNode.v proves that every broadcast satisfies the S-level guard on E;
   RefineNet.v composes the participants into a network whose vote history is S-reachable, so that agreement and
   validity (SpecProofs) hold for networks of Layer-N instances. *)
From Coq Require Import ZArith List Bool Lia Permutation.
From F3 Require Import GoInt QuorumGen QuorumProofs Instance InstanceRun InstanceOrder InstanceVotes InstanceConverge InstanceDecide InstanceQuorum InstanceNoPanic InstanceJust.
From F3 Require Spec SpecProofs.
Import ListNotations.
Open Scope Z_scope.

Definition phS (p : phase) : Spec.phase :=
  match p with CONVERGE => Spec.CONVERGE | PREPARE => Spec.PREPARE | COMMIT => Spec.COMMIT | DECIDE => Spec.DECIDE | _ => Spec.QUALITY end.
Definition valS (v : chain) : Spec.val := match v with [] => None | _ => Some v end.
Definition voteS (k r : Z) (p : phase) (v : chain) : Spec.vote := Spec.V (Z.to_nat k) (Z.to_nat r) (phS p) (valS v).

Section Cfg.
Variable c : config.
Variable honest : nat -> bool.
Variable input : nat -> chain.

Definition nmem : nat := length (c_powers c).
Definition committee : list nat := seq 0 nmem.
Definition power (x : nat) : Z := power_of c (Z.of_nat x).

Definition SQz (E : list Spec.vote) (r : Z) (p : phase) (v : chain) : Prop :=
  Spec.SQ power committee honest E (Z.to_nat r) (phS p) (valS v).
(* a justification that verifies: non-negative round, and a strong quorum whose honest members cast that vote *)
Definition backed (E : list Spec.vote) (j : just) : Prop := 0 <= j_round j /\ SQz E (j_round j) (j_phase j) (j_value j).
Definition justifiedz (E : list Spec.vote) (r : Z) (v : chain) : Prop :=
  Spec.justified power committee honest E (Z.to_nat r) (valS v).
Definition guardz (E : list Spec.vote) (k r : Z) (p : phase) (v : chain) : Prop :=
  Spec.guard power committee honest input E (voteS k r p v).

(* ---------- committee facts ---------- *)
Hypothesis Hwf : committee_wf c.

Lemma power_to_nat x : 0 <= x -> power (Z.to_nat x) = power_of c x.
Proof. intros H. unfold power. rewrite Z2Nat.id by exact H. reflexivity. Qed.

Lemma psum_map_to_nat l : (forall x, In x l -> 0 <= x) -> Spec.psum power (map Z.to_nat l) = sum_power c l.
Proof.
  induction l as [|x l IH]; intros H; [reflexivity|]. cbn [map Spec.psum]. unfold sum_power in *. cbn [fold_right].
  rewrite power_to_nat by (apply H; left; reflexivity). rewrite IH by (intros y Hy; apply H; right; exact Hy). reflexivity.
Qed.

Lemma total_is_total : Spec.total power committee = c_total c.
Proof.
  destruct Hwf as (_ & Ht & _). rewrite Ht. unfold Spec.total, committee, nmem.
  rewrite <- (map_nth_seq (c_powers c)) at 2.
  assert (Hm : forall (l0 : list nat), (forall k, In k l0 -> (k < length (c_powers c))%nat) ->
            Spec.psum power l0 = fold_right Z.add 0 (map (fun k => nth k (c_powers c) 0) l0)).
  { induction l0 as [|k l0 IH]; intros Hk; [reflexivity|]. cbn [map fold_right Spec.psum]. rewrite IH by (intros; apply Hk; right; assumption).
    f_equal. unfold power, power_of. assert (Hlt := Hk k (or_introl eq_refl)).
    replace ((Z.of_nat k <? 0) || (Z.of_nat (length (c_powers c)) <=? Z.of_nat k)) with false.
    - rewrite Nat2Z.id. reflexivity.
    - symmetry. apply orb_false_intro; [apply Z.ltb_ge; lia|apply Z.leb_gt; lia]. }
  apply Hm. intros k Hk. apply in_seq in Hk. lia.
Qed.

Lemma NoDup_map_to_nat l : NoDup l -> (forall x, In x l -> 0 <= x) -> NoDup (map Z.to_nat l).
Proof.
  induction 1 as [|x l Hx Hnd IH]; intros Hp; cbn; constructor.
  - intros Hin. apply in_map_iff in Hin. destruct Hin as (y & Ey & Hy). apply Hx.
    assert (y = x) by (apply Z2Nat.inj; [apply Hp; right; exact Hy|apply Hp; left; reflexivity|exact Ey]). subst. exact Hy.
  - apply IH. intros y Hy. apply Hp. right. exact Hy.
Qed.

(* a set of distinct members with a strong quorum of power, all of whose votes are in E *)
Lemma signers_SQ E r p v (l : list Z) :
  NoDup l -> (forall x, In x l -> 0 <= x < Z.of_nat nmem) -> isStrongQuorum (sum_power c l) (c_total c) = true ->
  (forall x, In x l -> In (voteS x r p v) E) -> SQz E r p v.
Proof.
  intros Hnd Hr Hs Hv. exists (map Z.to_nat l). split.
  - split; [apply NoDup_map_to_nat; [exact Hnd|intros x Hx; apply Hr; exact Hx]|]. split.
    + intros y Hy. apply in_map_iff in Hy. destruct Hy as (x & <- & Hx). apply in_seq. specialize (Hr x Hx). lia.
    + rewrite psum_map_to_nat by (intros x Hx; apply Hr; exact Hx). rewrite total_is_total.
      destruct Hwf as (_ & _ & Hb). apply (strong_iff _ (c_total c)) in Hs; [lia|lia].
  - intros s Hs' _. apply in_map_iff in Hs'. destruct Hs' as (x & <- & Hx). exact (Hv x Hx).
Qed.

Lemma SQz_mono E E' r p v : incl E E' -> SQz E r p v -> SQz E' r p v.
Proof. intros Hi. apply SpecProofs.SQ_mono. exact Hi. Qed.
Lemma backed_mono E E' j : incl E E' -> backed E j -> backed E' j.
Proof. intros Hi [H1 H2]. split; [exact H1|eapply SQz_mono; eauto]. Qed.
Lemma justifiedz_mono E E' r v : incl E E' -> justifiedz E r v -> justifiedz E' r v.
Proof. intros Hi. apply SpecProofs.justified_mono. exact Hi. Qed.

End Cfg.
