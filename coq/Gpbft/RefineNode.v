(* Refinement, one participant: every broadcast of a Layer-N instance satisfies the Layer-S guard on the global vote set,
   provided what is delivered to it is admissible (the delivered vote is in the global set; the carried justification has
   the shape validation enforces and is backed by a strong quorum whose honest members cast that vote). *)
From Coq Require Import ZArith List Bool Lia Permutation.
From F3 Require Import GoInt QuorumGen QuorumProofs Instance InstanceRun InstanceOrder InstanceVotes InstanceConverge InstanceDecide InstanceQuorum InstanceNoPanic InstanceJust Refine.
From F3 Require Spec SpecProofs.
Import ListNotations.
Open Scope Z_scope.

Section Node.
Variable c : config.
Variable honest : nat -> bool.
Variable input : nat -> chain.
Hypothesis Hwf : committee_wf c.
Hypothesis Hscaled : c_total c <= 65535.
Variable k : Z.                         (* this participant's power-table index *)
Hypothesis Hk : 0 <= k < Z.of_nat (nmem c).
Variable E0 : list Spec.vote.           (* the global vote set when the current step began *)

Notation SQz := (SQz c honest).
Notation backed := (backed c honest).
Notation justifiedz := (justifiedz c honest).
Notation guardz := (guardz c honest input).

Definition kin : chain := input (Z.to_nat k).

(* the votes this participant has cast in the current step (newest first, like i_out) *)
Definition ovotes (outs : list out) : list Spec.vote :=
  flat_map (fun o => match o with OBroadcast r p v _ _ => [voteS k r p v] | _ => [] end) outs.
Definition EV (i : inst) : list Spec.vote := ovotes (i_out i) ++ E0.
Definition votable (p : phase) : Prop := match p with INITIAL | TERMINATED => False | _ => True end.

(* ---------- shapes of justifications ---------- *)
Definition jprev (E : list Spec.vote) (r : Z) (v : chain) (j : just) : Prop :=
  backed E j /\ j_round j = r - 1 /\ ((j_phase j = PREPARE /\ j_value j = v) \/ (j_phase j = COMMIT /\ j_value j = [])).
Definition jsame (E : list Spec.vote) (r : Z) (v : chain) (j : just) : Prop :=
  backed E j /\ j_round j = r /\ j_phase j = PREPARE /\ j_value j = v.

Lemma jprev_mono E E' r v j : incl E E' -> jprev E r v j -> jprev E' r v j.
Proof. intros Hi (A & B & C). split; [eapply backed_mono; eauto|auto]. Qed.
Lemma jsame_mono E E' r v j : incl E E' -> jsame E r v j -> jsame E' r v j.
Proof. intros Hi (A & B & C). split; [eapply backed_mono; eauto|auto]. Qed.


(* evidence for a value: a prefix of the own input, or a strong quorum of votes for it *)
Definition evid (E : list Spec.vote) (v : chain) : Prop :=
  Spec.is_prefix v kin \/ exists r p, 0 <= r /\ SQz E r p v.
(* the justification attached to an own broadcast is what a peer's validation demands (cf. adm below) *)
Definition admj (E : list Spec.vote) (r : Z) (p : phase) (v : chain) (j : option just) : Prop :=
  match p with
  | QUALITY => r = 0 /\ v <> [] /\ j = None
  | CONVERGE => 1 <= r /\ v <> [] /\ exists jj, j = Some jj /\ jprev E r v jj
  | PREPARE => (r = 0 /\ j = None) \/ (1 <= r /\ exists jj, j = Some jj /\ jprev E r v jj)
  | COMMIT => (v = [] /\ j = None) \/ (v <> [] /\ exists jj, j = Some jj /\ jsame E r v jj)
  | DECIDE => r = 0 /\ v <> [] /\ exists jj, j = Some jj /\ backed E jj /\ j_phase jj = COMMIT /\ j_value jj = v
  | _ => False
  end.
(* every broadcast of the current step satisfied its guard on the votes cast before it, carries a justification its peers
   accept, and is for a value the participant has evidence for *)
Fixpoint log_ok (outs : list out) : Prop :=
  match outs with
  | [] => True
  | OBroadcast r p v j _ :: rest =>
      guardz (ovotes rest ++ E0) k r p v /\ 0 <= r /\ votable p /\
      admj (ovotes rest ++ E0) r p v j /\ (v <> [] -> evid (ovotes rest ++ E0) v) /\ log_ok rest
  | _ :: rest => log_ok rest
  end.
Lemma evid_mono E E' v : incl E E' -> evid E v -> evid E' v.
Proof. intros Hi [H|(r & p & H0 & H)]; [left; exact H|right; exists r, p; split; [exact H0|eapply SQz_mono; eauto]]. Qed.

(* ---------- what the participant knows ---------- *)
Record QE (E : list Spec.vote) (r : Z) (p : phase) (q : qstate) : Prop := {
  qe_range : forall x, In x (q_senders q) -> 0 <= x < Z.of_nat (nmem c);
  qe_votes : forall s, In s (q_support q) -> forall x, In x (s_signers s) -> In (voteS x r p (s_chain s)) E;
  qe_spower : q_spower q = sum_power c (q_senders q) }.
Record RE (E : list Spec.vote) (r : Z) (rs : rstate) : Prop := {
  re_prep : QE E r PREPARE (r_prep rs);
  re_pcov : Cov (r_prep rs);
  re_pjust : forall e, In e (q_just (r_prep rs)) -> jprev E r (fst e) (snd e);
  re_pjd : forall s, In s (q_support (r_prep rs)) -> s_signers s <> [] -> justifiedz E r (s_chain s);
  re_comm : QE E r COMMIT (r_comm rs);
  re_cjust : forall e, In e (q_just (r_comm rs)) -> jsame E r (fst e) (snd e) /\ fst e <> [];
  re_conv : forall cv, In cv (cs_values (r_conv rs)) -> jprev E r (cv_chain cv) (cv_just cv) /\ cv_chain cv <> [] }.
Definition Cands (E : list Spec.vote) (rho : Z) (l : list chain) : Prop :=
  forall v, In v l -> v <> [] /\ (Spec.is_prefix v kin \/ exists r1, 0 <= r1 < rho /\ SQz E r1 PREPARE v).
(* the part that does not depend on the participant's progress (rho bounds the rounds of the candidates' evidence) *)
Record EvC (E : list Spec.vote) (rho : Z) (i : inst) : Prop := {
  ec_rounds : forall r, RE E r (rget (i_rounds i) r);
  ec_dec : QE E 0 DECIDE (i_decision i);
  ec_cands : Cands E rho (i_cands i);
  ec_input : i_input i = kin /\ kin <> [];
  ec_prop : i_proposal i <> [];
  ec_pev : evid E (i_proposal i) }.
(* the part that does *)
Definition EvP (E : list Spec.vote) (i : inst) : Prop :=
  (i_phase i = PREPARE -> In (voteS k (i_round i) PREPARE (i_proposal i)) E) /\
  (i_phase i = QUALITY -> i_round i = 0) /\ (i_phase i = CONVERGE -> 1 <= i_round i) /\ 0 <= i_round i.
Definition EvI (E : list Spec.vote) (i : inst) : Prop := EvC E (i_round i) i /\ EvP E i.
Definition Ev (i : inst) : Prop := EvI (EV i) i /\ log_ok (i_out i).

Lemma QE_mono E E' r p q : incl E E' -> QE E r p q -> QE E' r p q.
Proof. intros Hi [A B C]. constructor; auto. Qed.
Lemma RE_mono E E' r rs : incl E E' -> RE E r rs -> RE E' r rs.
Proof.
  intros Hi [A B C D F G H]. constructor; auto.
  - eapply QE_mono; eauto.
  - intros e He. eapply jprev_mono; eauto.
  - intros s Hs Hn. eapply justifiedz_mono; eauto.
  - eapply QE_mono; eauto.
  - intros e He. destruct (G e He). split; [eapply jsame_mono; eauto|assumption].
  - intros cv Hcv. destruct (H cv Hcv). split; [eapply jprev_mono; eauto|assumption].
Qed.
Lemma Cands_mono E E' rho rho' l : incl E E' -> rho <= rho' -> Cands E rho l -> Cands E' rho' l.
Proof.
  intros Hi Hr H v Hv. destruct (H v Hv) as [N [P|(r1 & R1 & S1)]]; split; auto. right. exists r1. split; [lia|eapply SQz_mono; eauto].
Qed.
Lemma EvC_mono E E' rho rho' i : incl E E' -> rho <= rho' -> EvC E rho i -> EvC E' rho' i.
Proof.
  intros Hi Hr [A B C D F G]. constructor; auto.
  - intros r. eapply RE_mono; eauto.
  - eapply QE_mono; eauto.
  - eapply Cands_mono; eauto.
  - eapply evid_mono; eauto.
Qed.
Lemma EvP_mono E E' i : incl E E' -> EvP E i -> EvP E' i.
Proof. intros Hi (A & B). split; auto. Qed.
Lemma EvI_mono E E' i : incl E E' -> EvI E i -> EvI E' i.
Proof. intros Hi [A B]. split; [eapply EvC_mono; eauto; lia|eapply EvP_mono; eauto]. Qed.

Lemma RE_empty E r : RE E r r_empty.
Proof. constructor; cbn; try (intros ? []); try reflexivity; constructor; cbn; try (intros ? []); reflexivity. Qed.

(* ---------- S-level guards from N-level facts ---------- *)
Lemma valS_some w : w <> [] -> valS w = Some w.
Proof. destruct w; [congruence|reflexivity]. Qed.
Lemma to_nat_S r : 1 <= r -> Z.to_nat r = S (Z.to_nat (r - 1)).
Proof. intros H. lia. Qed.

Lemma guardz_quality E w : w <> [] -> w = kin -> guardz E k 0 QUALITY w.
Proof. intros Hne ->. unfold Refine.guardz, Spec.guard, voteS. cbn. rewrite valS_some by exact Hne. split; reflexivity. Qed.

Lemma jprev_cases E r w j : jprev E r w j -> SQz E (r - 1) PREPARE w \/ SQz E (r - 1) COMMIT [].
Proof. intros ((_ & Hb) & Hr & [[Hp Hv]|[Hp Hv]]); rewrite Hr, Hp, Hv in Hb; [left|right]; exact Hb. Qed.

Lemma guardz_converge E r w j : 1 <= r -> w <> [] -> jprev E r w j -> guardz E k r CONVERGE w.
Proof.
  intros Hr Hne Hj. unfold Refine.guardz, Spec.guard, voteS. cbn. rewrite valS_some by exact Hne.
  exists (Z.to_nat (r - 1)). split; [apply to_nat_S; exact Hr|].
  destruct (jprev_cases _ _ _ _ Hj) as [H|H]; [left|right]; unfold Refine.SQz in H; cbn in H; [rewrite valS_some in H by exact Hne|]; exact H.
Qed.

Lemma guardz_prepare0 E w : w <> [] -> Spec.is_prefix w kin -> guardz E k 0 PREPARE w.
Proof. intros Hne Hp. unfold Refine.guardz, Spec.guard, voteS. cbn. rewrite valS_some by exact Hne. exact Hp. Qed.

Lemma guardz_prepareS E r w j : 1 <= r -> w <> [] -> jprev E r w j ->
  (j_phase j = COMMIT -> Spec.is_prefix w kin \/ exists r1, 0 <= r1 < r /\ SQz E r1 PREPARE w) ->
  guardz E k r PREPARE w.
Proof.
  intros Hr Hne Hj Hc. unfold Refine.guardz, Spec.guard, voteS. cbn. rewrite valS_some by exact Hne.
  rewrite (to_nat_S r Hr).
  destruct Hj as ((_ & Hb) & Hjr & [[Hp Hv]|[Hp Hv]]); rewrite Hjr, Hp, Hv in Hb; unfold Refine.SQz in Hb; cbn in Hb.
  - left. rewrite valS_some in Hb by exact Hne. exact Hb.
  - right. split; [exact Hb|]. destruct (Hc Hp) as [H|(r1 & Hr1 & H)]; [left; exact H|right].
    exists (Z.to_nat r1). split; [lia|]. unfold Refine.SQz in H. cbn in H. rewrite valS_some in H by exact Hne. exact H.
Qed.

Lemma guardz_commit E r w : w <> [] -> In (voteS k r PREPARE w) E -> SQz E r PREPARE w -> guardz E k r COMMIT w.
Proof.
  intros Hne Hown Hsq. unfold Refine.guardz, Spec.guard, voteS in *. cbn in *. unfold Refine.SQz in Hsq. cbn in Hsq.
  rewrite valS_some in * by exact Hne. split; assumption.
Qed.

Lemma guardz_commit_bot E r w t x : w <> [] -> In (voteS k r PREPARE w) E -> x <> w ->
  In (voteS t r PREPARE x) E -> justifiedz E r x -> guardz E k r COMMIT [].
Proof.
  intros Hne Hown Hx Hin Hj. unfold Refine.guardz, Spec.guard, voteS in *. cbn in *. rewrite valS_some in Hown by exact Hne.
  exists w. split; [exact Hown|]. exists (Z.to_nat t), (valS x). split; [|split; [exact Hin|exact Hj]].
  destruct x; cbn; [discriminate|intros H; injection H as H; congruence].
Qed.

Lemma guardz_decide E w r : w <> [] -> SQz E r COMMIT w -> guardz E k 0 DECIDE w.
Proof.
  intros Hne Hsq. unfold Refine.guardz, Spec.guard, voteS. cbn. unfold Refine.SQz in Hsq. cbn in Hsq.
  rewrite valS_some in * by exact Hne. split; [reflexivity|]. exists (Z.to_nat r). exact Hsq.
Qed.

(* a strong quorum recorded locally is a strong quorum of votes in E *)
Lemma local_SQ E r p q v s : QS c q -> QE E r p q -> sup_find (q_support q) v = Some s -> s_sq s = true -> SQz E r p v.
Proof.
  intros HQ HE Hf Hs. destruct (sup_find_In _ _ _ Hf) as [Hin Hc]. destruct (qs_sup c q HQ s Hin) as [A B C D].
  apply (signers_SQ c honest input Hwf E r p v (s_signers s)).
  - exact A.
  - intros x Hx. apply (qe_range _ _ _ _ HE). apply B. exact Hx.
  - rewrite <- C, <- D. exact Hs.
  - intros x Hx. rewrite <- Hc. apply (qe_votes _ _ _ _ HE s Hin x Hx).
Qed.

(* ---------- frames ---------- *)
Definition cview (i : inst) := (i_rounds i, i_decision i, i_cands i, i_input i, i_proposal i).
Definition pview' (i : inst) := (i_phase i, i_round i, i_proposal i).
Lemma EvC_view E rho i i' : cview i' = cview i -> EvC E rho i -> EvC E rho i'.
Proof. unfold cview. intros Ev' [A B C D F G]. injection Ev' as E1 E2 E3 E4 E5. constructor; rewrite ?E1, ?E2, ?E3, ?E4, ?E5; assumption. Qed.
Lemma EvP_view E i i' : pview' i' = pview' i -> EvP E i -> EvP E i'.
Proof. unfold pview', EvP. intros Ev'. injection Ev' as -> -> ->. auto. Qed.

(* quiet changes of the output list: no vote added *)
Definition same_votes (i i' : inst) : Prop :=
  ovotes (i_out i') = ovotes (i_out i) /\ (log_ok (i_out i) -> log_ok (i_out i')).
Lemma Ev_quiet i i' : cview i' = cview i -> pview' i' = pview' i -> same_votes i i' -> Ev i -> Ev i'.
Proof.
  intros Hc Hp [Hv Hl] [[A B] L]. assert (HE : EV i' = EV i) by (unfold EV; rewrite Hv; reflexivity).
  split; [|apply Hl; exact L]. rewrite HE. split.
  - assert (Hr : i_round i' = i_round i) by (unfold pview' in Hp; congruence). rewrite Hr. eapply EvC_view; eauto.
  - eapply EvP_view; eauto.
Qed.
Lemma same_votes_refl i : same_votes i i. Proof. split; auto. Qed.

Ltac crunch := repeat match goal with
  | |- context [if ?b then _ else _] => destruct b
  | |- context [match ?x with _ => _ end] => destruct x
  end.

Lemma quiet_try_rebroadcast i :
  cview (try_rebroadcast c i) = cview i /\ pview' (try_rebroadcast c i) = pview' i /\ same_votes i (try_rebroadcast c i).
Proof.
  unfold try_rebroadcast, do_rebroadcast.
  destruct (i_rtimeout i); [destruct (_ <=? _)|destruct (_ =? _)]; crunch; (split; [reflexivity|split; [reflexivity|split; [reflexivity|exact (fun H => H)]]]).
Qed.
Lemma Ev_try_rebroadcast i : Ev i -> Ev (try_rebroadcast c i).
Proof. destruct (quiet_try_rebroadcast i) as (A & B & C). apply Ev_quiet; assumption. Qed.
Lemma Ev_reb i : Ev i -> Ev (if should_rebroadcast c i then try_rebroadcast c i else i).
Proof. intros H. destruct (should_rebroadcast c i); [apply Ev_try_rebroadcast|]; exact H. Qed.
Lemma Ev_fail i e : Ev i -> Ev (fail i e).
Proof. apply Ev_quiet; try reflexivity. split; [reflexivity|exact (fun H => H)]. Qed.

(* the generic step: new progress / proposal / candidates, then one broadcast *)
Lemma Ev_bcast i i' r p v t j :
  log_ok (i_out i) -> same_votes i i' -> 0 <= r -> votable p -> guardz (EV i) k r p v ->
  admj (EV i) r p v j -> (v <> [] -> evid (EV i) v) ->
  (forall E, incl (EV i) E -> In (voteS k r p v) E -> EvI E i') ->
  Ev (broadcast i' r p v t j).
Proof.
  intros L [Ho Hl] Hr Hvt Hg Haj Hev HI.
  assert (HEV : EV (broadcast i' r p v t j) = voteS k r p v :: EV i).
  { unfold EV, broadcast. cbn [emit i_out]. change (ovotes (OBroadcast r p v j t :: i_out i')) with (voteS k r p v :: ovotes (i_out i')).
    rewrite Ho. reflexivity. }
  split.
  - rewrite HEV. assert (HE : EvI (voteS k r p v :: EV i) i').
    { apply HI; [intros x Hx; right; exact Hx|left; reflexivity]. }
    destruct HE as [A B]. split; [eapply EvC_view; [|exact A]; reflexivity|eapply EvP_view; [|exact B]; reflexivity].
  - unfold broadcast. cbn [emit i_out log_ok]. rewrite Ho. split; [exact Hg|split; [exact Hr|split; [exact Hvt|split; [exact Haj|split; [exact Hev|apply Hl; exact L]]]]].
Qed.
(* ... or none *)
Lemma Ev_upd i i' : log_ok (i_out i) -> same_votes i i' -> EvI (EV i) i' -> Ev i'.
Proof.
  intros L [Hv Hl] HI. assert (HE : EV i' = EV i) by (unfold EV; rewrite Hv; reflexivity).
  split; [rewrite HE; exact HI|apply Hl; exact L].
Qed.

(* ---------- candidates ---------- *)
Lemma cview_add_candidate i v :
  i_cands (fst (add_candidate i v)) = (if is_candidate i v then i_cands i else i_cands i ++ [v]) /\
  (i_rounds (fst (add_candidate i v)), i_decision (fst (add_candidate i v)), i_input (fst (add_candidate i v)), i_proposal (fst (add_candidate i v)), i_value (fst (add_candidate i v))) =
  (i_rounds i, i_decision i, i_input i, i_proposal i, i_value i) /\
  pview' (fst (add_candidate i v)) = pview' i /\ i_out (fst (add_candidate i v)) = i_out i /\ i_quality (fst (add_candidate i v)) = i_quality i.
Proof. unfold add_candidate. destruct (is_candidate i v); repeat split; reflexivity. Qed.
Lemma Cands_add E rho l v : Cands E rho l -> (v <> [] /\ (Spec.is_prefix v kin \/ exists r1, 0 <= r1 < rho /\ SQz E r1 PREPARE v)) -> Cands E rho (l ++ [v]).
Proof. intros H Hv x Hx. apply in_app_or in Hx. destruct Hx as [Hx|[<-|[]]]; [apply H; exact Hx|exact Hv]. Qed.

Lemma acp_spec i v :
  (forall x, In x (i_cands (add_candidate_prefixes i v)) -> In x (i_cands i) \/ In x (all_prefixes v)) /\
  (i_rounds (add_candidate_prefixes i v), i_decision (add_candidate_prefixes i v), i_input (add_candidate_prefixes i v), i_proposal (add_candidate_prefixes i v), i_value (add_candidate_prefixes i v)) =
  (i_rounds i, i_decision i, i_input i, i_proposal i, i_value i) /\
  pview' (add_candidate_prefixes i v) = pview' i /\ i_out (add_candidate_prefixes i v) = i_out i /\ i_quality (add_candidate_prefixes i v) = i_quality i.
Proof.
  unfold add_candidate_prefixes.
  assert (H : forall l i0,
    let f := fold_left (fun i p => fst (add_candidate i p)) l i0 in
    (forall x, In x (i_cands f) -> In x (i_cands i0) \/ In x l) /\
    (i_rounds f, i_decision f, i_input f, i_proposal f, i_value f) = (i_rounds i0, i_decision i0, i_input i0, i_proposal i0, i_value i0) /\
    pview' f = pview' i0 /\ i_out f = i_out i0 /\ i_quality f = i_quality i0).
  { induction l as [|p l IH]; intros i0; cbn [fold_left]; cbv zeta; [repeat split; auto|].
    destruct (IH (fst (add_candidate i0 p))) as (A & B & C & D & F). destruct (cview_add_candidate i0 p) as (A' & B' & C' & D' & F').
    split; [|split; [congruence|split; [congruence|split; congruence]]].
    intros x Hx. destruct (A x Hx) as [H1|H1]; [|right; right; exact H1].
    rewrite A' in H1. destruct (is_candidate i0 p); [left; exact H1|].
    apply in_app_or in H1. destruct H1 as [H1|[<-|[]]]; [left; exact H1|right; left; reflexivity]. }
  destruct (H (rev (all_prefixes v)) i) as (A & B). split; [|exact B].
  intros x Hx. destruct (A x Hx) as [H1|H1]; [left; exact H1|right; apply in_rev; exact H1].
Qed.
Lemma prefix_of_input_cand p v : In p (all_prefixes v) -> p <> [] /\ exists rest, v = p ++ rest.
Proof.
  intros H. apply In_all_prefixes in H. destruct H as (n0 & Hn & ->). split.
  - destruct v; cbn in *; [lia|]. destruct n0; [lia|discriminate].
  - exists (skipn n0 v). symmetry. apply firstn_skipn.
Qed.

(* ---------- quorum-state updates ---------- *)
Lemma sum_power_snoc l x : sum_power c (l ++ [x]) = sum_power c l + power_of c x.
Proof. unfold sum_power. induction l as [|y l IH]; cbn; [lia|]. rewrite IH. lia. Qed.
Lemma QE_receive E r p q sender v : QE E r p q -> 0 <= sender < Z.of_nat (nmem c) -> In (voteS sender r p v) E ->
  QE E r p (q_receive c q sender v).
Proof.
  intros [A B C] Hs Hv. unfold q_receive. destruct (memZ sender (q_senders q)); [constructor; assumption|].
  unfold q_receive_inner. constructor; cbn [q_senders q_support q_spower q_just].
  - intros x Hx. apply in_app_or in Hx. destruct Hx as [Hx|[<-|[]]]; [apply A; exact Hx|exact Hs].
  - intros s Hs' x Hx. apply sup_set_In in Hs'. destruct Hs' as [->|Hs']; [|apply (B s Hs' x Hx)].
    cbn [s_signers s_chain] in *. apply in_app_or in Hx. destruct Hx as [Hx|[<-|[]]]; [|exact Hv].
    destruct (sup_find (q_support q) v) as [s0|] eqn:Ef; [|destruct Hx].
    destruct (sup_find_In _ _ _ Ef) as [Hin Hc]. rewrite <- Hc. apply (B s0 Hin x Hx).
  - rewrite sum_power_snoc, C. reflexivity.
Qed.
Lemma QE_receive_just E r p q v j : QE E r p q -> QE E r p (q_receive_just q v j).
Proof. intros [A B C]. unfold q_receive_just. destruct (existsb _ _); constructor; assumption. Qed.
Lemma q_receive_new_support q sender v s :
  In s (q_support (q_receive c q sender v)) -> In s (q_support q) \/ (s_chain s = v /\ s_signers s <> []).
Proof.
  unfold q_receive. destruct (memZ _ _); [left; assumption|]. unfold q_receive_inner. cbn [q_support].
  intros H. apply sup_set_In in H. destruct H as [->|H]; [right|left; exact H]. cbn. split; [reflexivity|].
  destruct (s_signers _); discriminate.
Qed.

(* someone else holds power: a vote for another value was received *)
Lemma sum_pos_exists (l : list support) : (forall s, In s l -> 0 <= s_power s) -> 0 < sup_total l -> exists s, In s l /\ 0 < s_power s.
Proof.
  induction l as [|a l IH]; intros Hn Hp; [cbn in Hp; lia|]. unfold sup_total in *. cbn in Hp.
  destruct (Z_lt_dec 0 (s_power a)) as [H|H]; [exists a; split; [left; reflexivity|exact H]|].
  destruct IH as (s & Hs & Hps); [intros s Hs; apply Hn; right; exact Hs|lia|]. exists s. split; [right; exact Hs|exact Hps].
Qed.
Lemma others_positive l k0 :
  chains_distinct l -> (forall s, In s l -> 0 <= s_power s) ->
  0 < sup_total l - (match sup_find l k0 with Some s => s_power s | None => 0 end) ->
  exists s', In s' l /\ s_chain s' <> k0 /\ 0 < s_power s'.
Proof.
  induction l as [|a l IH]; intros Hd Hn Hp; [cbn in Hp; lia|]. cbn [sup_find] in Hp. destruct Hd as [Hd1 Hd2].
  destruct (chain_eqb (s_chain a) k0) eqn:Ea.
  - apply chain_eqb_eq in Ea. assert (Hl : 0 < sup_total l) by (unfold sup_total in *; cbn in Hp; lia).
    destruct (sum_pos_exists l) as (s & Hs & Hps); [intros s Hs; apply Hn; right; exact Hs|exact Hl|].
    exists s. split; [right; exact Hs|split; [rewrite <- Ea; apply Hd1; exact Hs|exact Hps]].
  - destruct (Z_lt_dec 0 (s_power a)) as [H|H].
    + exists a. split; [left; reflexivity|split; [|exact H]]. intros E. rewrite E in Ea. rewrite (proj2 (chain_eqb_eq k0 k0) eq_refl) in Ea. discriminate.
    + destruct IH as (s & Hs & Hc & Hps); [exact Hd2|intros s Hs; apply Hn; right; exact Hs| |].
      * pose proof (Hn a (or_introl eq_refl)). unfold sup_total in *. cbn in Hp. lia.
      * exists s. split; [right; exact Hs|split; assumption].
Qed.

(* ---------- the begin* functions ---------- *)
Lemma Ev_round_nonneg i : Ev i -> 0 <= i_round i.
Proof. intros [[_ (_ & _ & _ & H)] _]. exact H. Qed.

Lemma Ev_begin_prepare i j : Ev i -> i_value i = i_proposal i -> guardz (EV i) k (i_round i) PREPARE (i_value i) ->
  admj (EV i) (i_round i) PREPARE (i_value i) j -> Ev (begin_prepare c i j).
Proof.
  intros HE Hv Hg Haj. pose proof HE as [[HC HP] _].
  set (i2 := reset_rebroadcast (alarm_after c (set_progress i (i_round i) PREPARE) false)).
  change (Ev (broadcast i2 (i_round i) PREPARE (i_value i) false j)).
  apply (Ev_bcast i i2); [apply HE|split; [reflexivity|exact (fun H => H)]|apply Ev_round_nonneg; exact HE|exact I|exact Hg|exact Haj|intros _; rewrite Hv; apply (ec_pev _ _ _ HC)|].
  intros E Hi Hin. split.
  - apply (EvC_view E (i_round i) i i2); [reflexivity|]. apply (EvC_mono (EV i) E (i_round i) (i_round i) i Hi); [lia|exact HC].
  - split; [intros _; cbn; rewrite <- Hv; exact Hin|]. split; [cbn; discriminate|]. split; [cbn; discriminate|]. apply HP.
Qed.

Lemma find_sq_for_inv q v sg : q_find_sq_for c q v = FsqSome sg -> exists s, sup_find (q_support q) v = Some s /\ s_sq s = true.
Proof.
  unfold q_find_sq_for. destruct (sup_find (q_support q) v) as [s|]; [|discriminate]. destruct (s_sq s) eqn:E; [|discriminate].
  intros _. exists s. split; [reflexivity|exact E].
Qed.
Lemma q_get_just_nz q ph x v j : q_get_just q ph (x :: v) = Some j ->
  exists e, In e (q_just q) /\ fst e = x :: v /\ snd e = j /\ j_phase j = ph.
Proof.
  unfold q_get_just. destruct (filter _ (q_just q)) as [|e l] eqn:Ef; [discriminate|]. destruct (phase_eqb _ _) eqn:Ep; [|discriminate].
  intros H; injection H as <-. assert (Hin : In e (e :: l)) by (left; reflexivity). rewrite <- Ef in Hin. apply filter_In in Hin.
  destruct Hin as [Hin Hc]. exists e. split; [exact Hin|split; [apply chain_eqb_eq; exact Hc|split; [reflexivity|apply phase_eqb_true; exact Ep]]].
Qed.
Lemma c_get_just_nz s ph x v j : c_get_just s ph (x :: v) = Some j ->
  exists cv, In cv (cs_values s) /\ cv_chain cv = x :: v /\ cv_just cv = j /\ j_phase j = ph.
Proof.
  unfold c_get_just. destruct (cv_find (cs_values s) (x :: v)) as [cv|] eqn:Ef; [|discriminate]. destruct (phase_eqb _ _) eqn:Ep; [|discriminate].
  intros H; injection H as <-. destruct (cv_find_In _ _ _ Ef) as [Hin Hc].
  exists cv. split; [exact Hin|split; [exact Hc|split; [reflexivity|apply phase_eqb_true; exact Ep]]].
Qed.
Lemma jprev_prepare_SQ E r v j : jprev E r v j -> j_phase j = PREPARE -> SQz E (r - 1) PREPARE v /\ 0 <= r - 1.
Proof. intros ((H0 & Hb) & Hr & [[Hp Hv]|[Hp Hv]]) Hph; [|congruence]. rewrite Hr, Hp, Hv in Hb. rewrite Hr in H0. split; assumption. Qed.

Lemma jprev_jsame E r v j : jprev E (r + 1) v j -> j_phase j = PREPARE -> jsame E r v j.
Proof.
  intros (Hb & Hr & [[Hp Hv]|[Hp Hv]]) Hph; [|congruence]. split; [exact Hb|]. split; [lia|]. split; assumption.
Qed.

Lemma Ev_begin_commit i : Ev i -> i_phase i = PREPARE -> AllQ c i ->
  (i_value i = i_proposal i \/
   (i_value i = [] /\ exists t x, x <> i_proposal i /\ In (voteS t (i_round i) PREPARE x) (EV i) /\ justifiedz (EV i) (i_round i) x)) ->
  Ev (begin_commit c i).
Proof.
  intros HE Hph HA Hval. pose proof HE as [[HC HP] _]. destruct HP as (Hown & _ & _ & Hr0). specialize (Hown Hph).
  set (i2 := reset_rebroadcast (alarm_after c (set_progress i (i_round i) COMMIT) false)).
  assert (Hfin : forall v j', guardz (EV i) k (i_round i) COMMIT v -> admj (EV i) (i_round i) COMMIT v j' -> (v <> [] -> v = i_proposal i) ->
                 Ev (broadcast i2 (i_round i) COMMIT v false j')).
  { intros v j' Hg Haj Hvp. apply (Ev_bcast i i2); [apply HE|split; [reflexivity|exact (fun H => H)]|exact Hr0|exact I|exact Hg|exact Haj|intros Hne; rewrite (Hvp Hne); apply (ec_pev _ _ _ HC)|].
    intros E Hi Hin. split.
    - apply (EvC_view E (i_round i) i i2); [reflexivity|]. apply (EvC_mono (EV i) E (i_round i) (i_round i) i Hi); [lia|exact HC].
    - split; [cbn; discriminate|]. split; [cbn; discriminate|]. split; [cbn; discriminate|exact Hr0]. }
  assert (Hi2 : Ev i2).
  { apply (Ev_upd i i2); [apply HE|split; [reflexivity|exact (fun H => H)]|]. split.
    - apply (EvC_view (EV i) (i_round i) i i2); [reflexivity|exact HC].
    - split; [cbn; discriminate|]. split; [cbn; discriminate|]. split; [cbn; discriminate|exact Hr0]. }
  unfold begin_commit. cbv zeta. fold i2.
  change (i_value i2) with (i_value i). change (i_round i2) with (i_round i).
  change (get_round i2 (i_round i)) with (get_round i (i_round i)). change (get_round i2 (i_round i + 1)) with (get_round i (i_round i + 1)).
  destruct (i_value i) as [|x v] eqn:Ev'.
  - apply Hfin; [|left; split; reflexivity|intros H; congruence]. destruct Hval as [Hval|(_ & t & y & Hy & Hin & Hj)]; [exfalso; apply (ec_prop _ _ _ HC); symmetry; exact Hval|].
    apply (guardz_commit_bot (EV i) (i_round i) (i_proposal i) t y); [apply (ec_prop _ _ _ HC)|exact Hown|exact Hy|exact Hin|exact Hj].
  - destruct Hval as [Hval|(Hval & _)]; [|discriminate Hval].
    assert (Hcommit : forall jj, jsame (EV i) (i_round i) (x :: v) jj -> Ev (broadcast i2 (i_round i) COMMIT (x :: v) false (Some jj))).
    { intros jj Hjs. apply Hfin; [|right; split; [discriminate|exists jj; split; [reflexivity|exact Hjs]]|intros _; exact Hval].
      destruct Hjs as ((_ & Hb) & Hjr & Hjp & Hjv). rewrite Hjr, Hjp, Hjv in Hb.
      apply guardz_commit; [discriminate|rewrite Hval; exact Hown|exact Hb]. }
    pose proof (ec_rounds _ _ _ HC (i_round i)) as Rcur. pose proof (ec_rounds _ _ _ HC (i_round i + 1)) as Rnxt.
    fold (get_round i (i_round i)) in Rcur. fold (get_round i (i_round i + 1)) in Rnxt.
    destruct (q_find_sq_for c (r_prep (get_round i (i_round i))) (x :: v)) as [| |sg] eqn:Ef.
    + destruct (q_get_just (r_comm (get_round i (i_round i))) PREPARE (x :: v)) as [j|] eqn:E1.
      { apply Hcommit. destruct (q_get_just_nz _ _ _ _ _ E1) as (e & Hin & He & Hs & Hp).
        destruct (re_cjust _ _ _ Rcur e Hin) as [Hjs _]. rewrite He, Hs in Hjs. exact Hjs. }
      destruct (q_get_just (r_prep (get_round i (i_round i + 1))) PREPARE (x :: v)) as [j|] eqn:E2.
      { apply Hcommit. destruct (q_get_just_nz _ _ _ _ _ E2) as (e & Hin & He & Hs & Hp).
        pose proof (re_pjust _ _ _ Rnxt e Hin) as Hj. rewrite He, Hs in Hj. apply (jprev_jsame _ _ _ _ Hj Hp). }
      destruct (c_get_just (r_conv (get_round i (i_round i + 1))) PREPARE (x :: v)) as [j|] eqn:E3.
      { apply Hcommit. destruct (c_get_just_nz _ _ _ _ _ E3) as (cv & Hin & He & Hs & Hp).
        destruct (re_conv _ _ _ Rnxt cv Hin) as [Hj _]. rewrite He, Hs in Hj. apply (jprev_jsame _ _ _ _ Hj Hp). }
      apply Ev_fail. exact Hi2.
    + apply Ev_fail. exact Hi2.
    + apply Hcommit. destruct (find_sq_for_inv _ _ _ Ef) as (s & Hs & Hsq).
      split; [split; [exact Hr0|]|split; [reflexivity|split; reflexivity]]. cbn [build_just j_round j_phase j_value].
      apply (local_SQ (EV i) (i_round i) PREPARE (r_prep (get_round i (i_round i))) (x :: v) s); [apply HA|exact (re_prep _ _ _ Rcur)|exact Hs|exact Hsq].
Qed.

Lemma EvC_upd E rho rho' i i' :
  i_rounds i' = i_rounds i -> i_decision i' = i_decision i -> Cands E rho (i_cands i') -> i_input i' = i_input i -> i_proposal i' <> [] ->
  evid E (i_proposal i') -> EvC E rho' i -> EvC E rho i'.
Proof. intros E1 E2 HC E4 HP HV [A B _ D _ _]. constructor; rewrite ?E1, ?E2, ?E4; assumption. Qed.
Lemma Cands_evid E rho l v : Cands E rho l -> In v l -> evid E v.
Proof. intros H Hv. destruct (H v Hv) as [_ [P|(r1 & R1 & S1)]]; [left; exact P|right; exists r1, PREPARE; split; [lia|exact S1]]. Qed.

Lemma Ev_begin_decide i round : Ev i -> i_value i <> [] -> 0 <= round -> SQz (EV i) round COMMIT (i_value i) -> Ev (begin_decide c i round).
Proof.
  intros HE Hne Hrd Hsq. pose proof HE as [[HC HP] L]. destruct HP as (_ & _ & _ & Hr0).
  set (i2 := reset_rebroadcast (set_progress i (i_round i) DECIDE)).
  assert (HI2 : forall E, incl (EV i) E -> EvI E i2).
  { intros E Hi. split.
    - apply (EvC_view E (i_round i) i i2); [reflexivity|]. apply (EvC_mono (EV i) E (i_round i) (i_round i) i Hi); [lia|exact HC].
    - split; [cbn; discriminate|]. split; [cbn; discriminate|]. split; [cbn; discriminate|exact Hr0]. }
  unfold begin_decide. cbv zeta. fold i2. change (i_value i2) with (i_value i).
  destruct (q_find_sq_for c _ _).
  - apply Ev_fail. apply (Ev_upd i i2); [exact L|split; [reflexivity|exact (fun H => H)]|apply HI2; apply incl_refl].
  - apply Ev_fail. apply (Ev_upd i i2); [exact L|split; [reflexivity|exact (fun H => H)]|apply HI2; apply incl_refl].
  - apply (Ev_bcast i i2); [exact L|split; [reflexivity|exact (fun H => H)]|lia|exact I|apply (guardz_decide _ _ round); assumption| | |].
    + split; [reflexivity|]. split; [exact Hne|]. eexists. split; [reflexivity|]. split; [split; [exact Hrd|exact Hsq]|split; reflexivity].
    + intros _. right. exists round, COMMIT. split; [exact Hrd|exact Hsq].
    + intros E Hi _. apply HI2. exact Hi.
Qed.

Lemma Ev_skip_to_decide i v j : Ev i -> v <> [] -> backed (EV i) j -> j_phase j = COMMIT -> j_value j = v -> Ev (skip_to_decide i v (Some j)).
Proof.
  intros HE Hne Hjb Hjp Hjv. pose proof Hjb as [Hr Hsq]. rewrite Hjp, Hjv in Hsq. set (r := j_round j) in *.
  pose proof HE as [[HC HP] L]. destruct HP as (_ & _ & _ & Hr0).
  unfold skip_to_decide. cbv zeta.
  set (i2 := reset_rebroadcast (set_pv (set_progress i (i_round i) DECIDE) v v)).
  assert (Hev : evid (EV i) v) by (right; exists r, COMMIT; split; [exact Hr|exact Hsq]).
  apply (Ev_bcast i i2); [exact L|split; [reflexivity|exact (fun H => H)]|lia|exact I|apply (guardz_decide _ _ r); assumption| |intros _; exact Hev|].
  { split; [reflexivity|]. split; [exact Hne|]. exists j. split; [reflexivity|]. split; [exact Hjb|split; assumption]. }
  intros E Hi _. split.
  - apply (EvC_upd E (i_round i) (i_round i) i i2); try reflexivity; [|exact Hne|eapply evid_mono; [exact Hi|exact Hev]|apply (EvC_mono (EV i) E (i_round i) (i_round i) i Hi); [lia|exact HC]].
    apply (Cands_mono (EV i) E (i_round i) (i_round i)); [exact Hi|lia|apply HC].
  - split; [cbn; discriminate|]. split; [cbn; discriminate|]. split; [cbn; discriminate|exact Hr0].
Qed.

(* beginConverge: from any progress point, with a justification of the previous round for the proposal *)
Lemma Ev_begin_converge i j : EvC (EV i) (i_round i) i -> log_ok (i_out i) -> 1 <= i_round i ->
  jprev (EV i) (i_round i) (i_proposal i) j -> Ev (begin_converge c i j).
Proof.
  intros HC L Hr Hj. unfold begin_converge. pose proof Hj as (_ & Hjr & _).
  rewrite (proj2 (Z.eqb_eq _ _) Hjr). cbn [negb]. cbv zeta.
  set (i2 := reset_rebroadcast (alarm_after c (set_progress i (i_round i) CONVERGE) false)).
  change (i_round i2) with (i_round i). change (i_proposal i2) with (i_proposal i).
  set (rs := get_round i2 (i_round i)).
  set (i3 := set_round_state i2 (i_round i) (mkR (c_set_self (r_conv rs) (i_proposal i) j) (r_prep rs) (r_comm rs))).
  change (i_proposal i3) with (i_proposal i). change (i_round i3) with (i_round i).
  apply (Ev_bcast i i3); [exact L|split; [reflexivity|exact (fun H => H)]|lia|exact I|apply (guardz_converge _ _ _ j); [exact Hr|apply (ec_prop _ _ _ HC)|exact Hj]|split; [exact Hr|split; [apply (ec_prop _ _ _ HC)|exists j; split; [reflexivity|exact Hj]]]|intros _; apply (ec_pev _ _ _ HC)|].
  intros E Hi _. split.
  - pose proof (EvC_mono (EV i) E (i_round i) (i_round i) i Hi ltac:(lia) HC) as [A B C D F G].
    constructor; try assumption. intros r. change (i_rounds i3) with (rset (i_rounds i) (i_round i) (mkR (c_set_self (r_conv rs) (i_proposal i) j) (r_prep rs) (r_comm rs))).
    destruct (Z.eq_dec r (i_round i)) as [->|Hne]; [rewrite rget_rset_same|rewrite rget_rset_other by exact Hne; apply A].
    pose proof (A (i_round i)) as [R1 R2 R3 R4 R5 R6 R7]. change rs with (rget (i_rounds i) (i_round i)).
    constructor; cbn [r_prep r_comm r_conv]; try assumption.
    intros cv Hcv. unfold c_set_self in Hcv. destruct (cv_find _ _); [apply R7; exact Hcv|]. cbn in Hcv.
    apply in_app_or in Hcv. destruct Hcv as [Hcv|[<-|[]]]; [apply R7; exact Hcv|]. cbn. split; [eapply jprev_mono; eauto|exact F].
  - split; [cbn; discriminate|]. split; [cbn; discriminate|]. split; [intros _; exact Hr|cbn; lia].
Qed.

Lemma Ev_begin_next_round i : EvC (EV i) (i_round i + 1) i -> log_ok (i_out i) -> 0 <= i_round i -> AllQ c i -> i_phase i = COMMIT ->
  Ev (begin_next_round c i).
Proof.
  intros HC L Hr HA Hph. unfold begin_next_round. cbv zeta.
  set (i1 := set_progress i (i_round i + 1) (i_phase i)).
  assert (Hfail : forall e, Ev (fail i1 e)).
  { intros e. apply Ev_fail. apply (Ev_upd i i1); [exact L|split; [reflexivity|exact (fun H => H)]|]. split.
    - apply (EvC_view _ _ i); [reflexivity|exact HC].
    - unfold EvP. change (i_phase i1) with (i_phase i). change (i_round i1) with (i_round i + 1). rewrite Hph. split; [discriminate|]. split; [discriminate|]. split; [discriminate|lia]. }
  assert (C1 : EvC (EV i1) (i_round i1) i1) by (apply (EvC_view _ _ i); [reflexivity|exact HC]).
  assert (L1 : log_ok (i_out i1)) by exact L.
  assert (Hr1 : 1 <= i_round i1) by (cbn; lia).
  change (get_round i1 (i_round i1 - 1)) with (get_round i (i_round i + 1 - 1)).
  change (get_round i1 (i_round i1)) with (get_round i (i_round i + 1)).
  change (i_proposal i1) with (i_proposal i). change (i_round i1 - 1) with (i_round i + 1 - 1).
  replace (i_round i + 1 - 1) with (i_round i) by lia.
  pose proof (ec_rounds _ _ _ HC (i_round i)) as Rprev. pose proof (ec_rounds _ _ _ HC (i_round i + 1)) as Rcur.
  fold (get_round i (i_round i)) in Rprev. fold (get_round i (i_round i + 1)) in Rcur.
  assert (Hbot : forall j, backed (EV i) j -> j_round j = i_round i -> j_phase j = COMMIT -> j_value j = [] ->
                 Ev (begin_converge c i1 j)).
  { intros j Hb H1 H2 H3. apply Ev_begin_converge; [exact C1|exact L1|exact Hr1|].
    split; [exact Hb|split; [cbn; lia|right; split; assumption]]. }
  destruct (q_find_sq_for c (r_comm (get_round i (i_round i))) []) as [| |sg] eqn:Ef.
  - destruct (q_get_just (r_prep (get_round i (i_round i + 1))) COMMIT []) as [j|] eqn:E1.
    { unfold q_get_just in E1. destruct (filter _ _) as [|e l] eqn:Efl; [discriminate|]. injection E1 as <-.
      assert (Hin : In e (e :: l)) by (left; reflexivity). rewrite <- Efl in Hin. apply filter_In in Hin. destruct Hin as [Hin Hc].
      apply andb_prop in Hc. destruct Hc as [Hz Hp]. apply phase_eqb_true in Hp.
      destruct (re_pjust _ _ _ Rcur e Hin) as (Hb & Hjr & Hsh).
      apply Hbot; [exact Hb|lia|exact Hp|destruct (j_value (snd e)); [reflexivity|discriminate Hz]]. }
    destruct (c_get_just (r_conv (get_round i (i_round i + 1))) COMMIT []) as [j|] eqn:E2.
    { unfold c_get_just in E2. destruct (filter _ _) as [|e l] eqn:Efl; [discriminate|]. injection E2 as <-.
      assert (Hin : In e (e :: l)) by (left; reflexivity). rewrite <- Efl in Hin. apply filter_In in Hin. destruct Hin as [Hin Hc].
      apply andb_prop in Hc. destruct Hc as [Hz Hp]. apply phase_eqb_true in Hp.
      destruct (re_conv _ _ _ Rcur e Hin) as [(Hb & Hjr & Hsh) _].
      apply Hbot; [exact Hb|lia|exact Hp|destruct (j_value (cv_just e)); [reflexivity|discriminate Hz]]. }
    destruct (filter _ (q_just (r_comm (get_round i (i_round i))))) as [|e l] eqn:E3.
    + apply Hfail.
    + assert (Hin : In e (e :: l)) by (left; reflexivity). rewrite <- E3 in Hin. apply filter_In in Hin. destruct Hin as [Hin Hc].
      apply chain_eqb_eq in Hc. destruct (re_cjust _ _ _ Rprev e Hin) as [(Hb & Hjr & Hjp & Hjv) _].
      apply Ev_begin_converge; [exact C1|exact L1|exact Hr1|].
      split; [exact Hb|split; [cbn; lia|left; split; [exact Hjp|cbn; congruence]]].
  - apply Hfail.
  - apply Hbot; [|reflexivity|reflexivity|reflexivity].
    split; [cbn; exact Hr|]. destruct (find_sq_for_inv _ _ _ Ef) as (s & Hs & Hsq). cbn [j_round j_phase j_value build_just].
    apply (local_SQ (EV i) (i_round i) COMMIT (r_comm (get_round i (i_round i))) [] s); [apply HA|exact (re_comm _ _ _ Rprev)|exact Hs|exact Hsq].
Qed.

(* prefixes of the QUALITY outcome are prefixes of the input *)
Lemma longest_prefix_facts q : kin <> [] ->
  let p := q_longest_prefix q kin in
  p <> [] /\ Spec.is_prefix p kin /\ forall x, In x (all_prefixes p) -> x <> [] /\ Spec.is_prefix x kin.
Proof.
  intros Hk0. cbv zeta. destruct (q_longest_prefix_spec q kin) as (Hp & _ & _ & Hl). cbv zeta in *. specialize (Hl Hk0).
  set (p := q_longest_prefix q kin) in *. assert (Hpne : p <> []) by (destruct p; [cbn in Hl; lia|discriminate]).
  destruct Hp as (t & Ht). split; [exact Hpne|]. split; [split; [exact Hpne|exists t; exact Ht]|].
  intros x Hx. destruct (prefix_of_input_cand _ _ Hx) as (Hxne & rest & Hr). split; [exact Hxne|]. split; [exact Hxne|].
  exists (rest ++ t). rewrite Ht, Hr, app_assoc. reflexivity.
Qed.

Lemma Ev_skip_to_round i round v j : EvC (EV i) (i_round i) i -> log_ok (i_out i) -> 0 <= i_round i < round -> v <> [] ->
  jprev (EV i) round v j -> Ev (skip_to_round c i round v j).
Proof.
  intros HC L Hr Hv Hj. unfold skip_to_round. cbv zeta.
  match goal with |- Ev (begin_converge c ?x j) => set (i3 := x) end.
  pose proof (ec_input _ _ _ HC) as [Hin Hk0].
  assert (H3 : i_rounds i3 = i_rounds i /\ i_decision i3 = i_decision i /\ i_input i3 = i_input i /\ i_out i3 = i_out i /\ i_round i3 = round /\
               Cands (EV i) round (i_cands i3) /\ i_proposal i3 <> [] /\ (j_phase j = PREPARE -> i_proposal i3 = v) /\ evid (EV i) (i_proposal i3)).
  { unfold i3. set (i1 := set_progress i round (i_phase i)).
    match goal with |- context [if phase_eqb (j_phase j) PREPARE then _ else ?y] => set (i2 := y) end.
    assert (H2 : i_rounds i2 = i_rounds i /\ i_decision i2 = i_decision i /\ i_input i2 = i_input i /\ i_out i2 = i_out i /\ i_round i2 = round /\
                 Cands (EV i) round (i_cands i2) /\ i_proposal i2 <> [] /\ evid (EV i) (i_proposal i2)).
    { unfold i2. destruct (phase_eqb (i_phase i1) QUALITY).
      - cbv zeta. change (i_quality i1) with (i_quality i). change (i_input i1) with (i_input i). rewrite Hin.
        set (p := q_longest_prefix (i_quality i) kin). destruct (longest_prefix_facts (i_quality i) Hk0) as (Hpne & Hpp & Hall). fold p in Hpne, Hpp, Hall.
        destruct (acp_spec (set_pv i1 p (i_value i1)) p) as (A & B & C & D & _). injection B as B1 B2 B3 B4 B5. unfold pview' in C. injection C as C1 C2 C3.
        cbn [set_pv i_rounds i_decision i_input i_out i_round i_cands i_proposal].
        split; [exact B1|split; [exact B2|split; [exact (eq_trans B3 Hin)|split; [exact D|split; [exact C2|split; [|split; [exact Hpne|left; exact Hpp]]]]]]].
        intros x Hx. destruct (A x Hx) as [Hx'|Hx'].
        + apply (Cands_mono (EV i) (EV i) (i_round i) round (i_cands i) (incl_refl _) ltac:(lia) (ec_cands _ _ _ HC) x Hx').
        + destruct (Hall x Hx') as [N P]. split; [exact N|left; exact P].
      - split; [reflexivity|split; [reflexivity|split; [reflexivity|split; [reflexivity|split; [reflexivity|split; [|split; [apply (ec_prop _ _ _ HC)|apply (ec_pev _ _ _ HC)]]]]]]].
        apply (Cands_mono (EV i) (EV i) (i_round i) round); [apply incl_refl|lia|apply HC]. }
    destruct H2 as (A2 & B2 & C2 & D2 & E2 & F2 & G2 & V2).
    destruct (phase_eqb (j_phase j) PREPARE) eqn:Ep.
    - apply phase_eqb_true in Ep. cbv zeta. destruct (cview_add_candidate i2 v) as (Ca & Cb & Cc & Cd & _).
      injection Cb as Cb1 Cb2 Cb3 Cb4 Cb5. unfold pview' in Cc. injection Cc as Cc1 Cc2 Cc3.
      cbn [set_pv i_rounds i_decision i_input i_out i_round i_cands i_proposal].
      destruct (jprev_prepare_SQ _ _ _ _ Hj Ep) as [Hsq H0].
      split; [congruence|split; [congruence|split; [congruence|split; [congruence|split; [congruence|split; [|split; [exact Hv|split; [reflexivity|right; exists (round - 1), PREPARE; split; [exact H0|exact Hsq]]]]]]]]].
      rewrite Ca. destruct (is_candidate i2 v); [exact F2|]. apply Cands_add; [exact F2|]. split; [exact Hv|right].
      exists (round - 1). split; [lia|exact Hsq].
    - apply phase_eqb_false in Ep.
      split; [exact A2|split; [exact B2|split; [exact C2|split; [exact D2|split; [exact E2|split; [exact F2|split; [exact G2|split; [intros H; congruence|exact V2]]]]]]]]. }
  destruct H3 as (A3 & B3 & C3 & D3 & E3 & F3 & G3 & H3 & V3).
  assert (HE3 : EV i3 = EV i) by (unfold EV; rewrite D3; reflexivity).
  apply Ev_begin_converge; rewrite ?HE3, ?E3, ?D3; [|exact L|lia|].
  - apply (EvC_upd (EV i) round (i_round i) i i3); assumption.
  - destruct Hj as (Hb & Hjr & [[Hp Hjv]|[Hp Hjv]]); split; try assumption; split; try assumption; [left|right]; split; try assumption.
    rewrite (H3 Hp). exact Hjv.
Qed.

Lemma Ev_try_quality i : Ev i -> i_phase i = QUALITY -> Ev (try_quality c i).
Proof.
  intros HE Hph. pose proof HE as [[HC HP] L]. destruct HP as (_ & Hq & _ & Hr0). specialize (Hq Hph).
  pose proof (ec_input _ _ _ HC) as [Hin Hk0].
  unfold try_quality. destruct (_ || _); [|exact HE]. cbv zeta. rewrite Hin.
  set (p := q_longest_prefix (i_quality i) kin). destruct (longest_prefix_facts (i_quality i) Hk0) as (Hpne & Hpp & Hall). fold p in Hpne, Hpp, Hall.
  destruct (acp_spec (set_pv i p (i_value i)) p) as (A & B & C & D & _). injection B as B1 B2 B3 B4 B5. unfold pview' in C. injection C as C1 C2 C3.
  set (i' := set_pv (add_candidate_prefixes (set_pv i p (i_value i)) p) p p).
  assert (Hv' : ovotes (i_out i') = ovotes (i_out i)) by (unfold i'; cbn [set_pv i_out]; rewrite D; reflexivity).
  assert (HE' : Ev i').
  { apply (Ev_upd i i'); [exact L|split; [exact Hv'|unfold i'; cbn [set_pv i_out]; rewrite D; exact (fun H => H)]|]. split.
    - assert (Hr' : i_round i' = i_round i) by (unfold i'; cbn [set_pv i_round]; exact C2). rewrite Hr'.
      apply (EvC_upd (EV i) (i_round i) (i_round i) i i'); [exact B1|exact B2| |exact B3|exact Hpne|left; exact Hpp|exact HC].
      intros x Hx. destruct (A x Hx) as [Hx'|Hx']; [apply (ec_cands _ _ _ HC); exact Hx'|]. destruct (Hall x Hx') as [N P]. split; [exact N|left; exact P].
    - unfold EvP. change (i_phase i') with (i_phase (add_candidate_prefixes (set_pv i p (i_value i)) p)).
      change (i_round i') with (i_round (add_candidate_prefixes (set_pv i p (i_value i)) p)). rewrite C1, C2. cbn [set_pv i_phase i_round]. rewrite Hph.
      split; [discriminate|]. split; [intros _; exact Hq|]. split; [discriminate|exact Hr0]. }
  apply Ev_begin_prepare; [exact HE'|reflexivity| |left; split; [unfold i'; cbn [set_pv i_round]; rewrite C2; exact Hq|reflexivity]].
  assert (Hr' : i_round i' = 0) by (unfold i'; cbn [set_pv i_round]; rewrite C2; exact Hq).
  rewrite Hr'. change (i_value i') with p. apply guardz_prepare0; assumption.
Qed.

Lemma find_best_sat (f : cvalue -> bool) l : forall acc w,
  fold_left (fun best v => if better best v && f v then Some v else best) l acc = Some w -> acc = Some w \/ (In w l /\ f w = true).
Proof.
  induction l as [|x l IH]; intros acc w H; cbn in H; [left; exact H|].
  destruct (IH _ _ H) as [E|[Hin Hf]]; [|right; split; [right; exact Hin|exact Hf]].
  destruct (better acc x && f x) eqn:Eb; [injection E as ->; right; split; [left; reflexivity|apply andb_prop in Eb; apply Eb]|left; exact E].
Qed.

Lemma Ev_try_converge i : Ev i -> i_phase i = CONVERGE -> Ev (try_converge c i).
Proof.
  intros HE Hph. pose proof HE as [[HC HP] L]. destruct HP as (_ & _ & Hc1 & Hr0). specialize (Hc1 Hph).
  unfold try_converge. destruct (negb _); [apply Ev_reb; exact HE|]. cbv zeta.
  destruct (c_find_best _ _) as [w|] eqn:Eb; [|apply Ev_fail; exact HE].
  unfold c_find_best in Eb. destruct (find_best_sat _ _ _ _ Eb) as [E|[Hin Hval]]; [discriminate E|].
  pose proof (ec_rounds _ _ _ HC (i_round i)) as Rcur. fold (get_round i (i_round i)) in Rcur.
  destruct (re_conv _ _ _ Rcur w Hin) as [Hj Hne].
  destruct (cview_add_candidate i (cv_chain w)) as (Ca & Cb & Cc & Cd & _).
  injection Cb as Cb1 Cb2 Cb3 Cb4 Cb5. unfold pview' in Cc. injection Cc as Cc1 Cc2 Cc3.
  set (i1 := fst (add_candidate i (cv_chain w))) in *.
  set (i' := set_pv i1 (cv_chain w) (cv_chain w)).
  assert (Hcand : j_phase (cv_just w) = COMMIT -> In (cv_chain w) (i_cands i)).
  { intros Hp. apply orb_prop in Hval. destruct Hval as [Hv|Hv]; [apply is_candidate_In; exact Hv|].
    apply andb_prop in Hv. destruct Hv as [Hv _]. apply phase_eqb_true in Hv. congruence. }
  assert (Hevw : evid (EV i) (cv_chain w)).
  { apply orb_prop in Hval. destruct Hval as [Hv|Hv]; [apply (Cands_evid _ _ _ _ (ec_cands _ _ _ HC)); apply is_candidate_In; exact Hv|].
    apply andb_prop in Hv. destruct Hv as [Hv _]. apply phase_eqb_true in Hv.
    destruct (jprev_prepare_SQ _ _ _ _ Hj Hv) as [Hsq H0]. right. exists (i_round i - 1), PREPARE. split; [exact H0|exact Hsq]. }
  assert (HE' : Ev i').
  { apply (Ev_upd i i'); [exact L|split; [unfold i'; cbn [set_pv i_out]; rewrite Cd; reflexivity|unfold i'; cbn [set_pv i_out]; rewrite Cd; exact (fun H => H)]|]. split.
    - assert (Hr' : i_round i' = i_round i) by (unfold i'; cbn [set_pv i_round]; exact Cc2). rewrite Hr'.
      apply (EvC_upd (EV i) (i_round i) (i_round i) i i'); [exact Cb1|exact Cb2| |exact Cb3|exact Hne|exact Hevw|exact HC].
      change (i_cands i') with (i_cands i1). rewrite Ca. destruct (is_candidate i (cv_chain w)) eqn:Eic; [apply HC|]. apply Cands_add; [apply HC|]. split; [exact Hne|right].
      apply orb_prop in Hval. destruct Hval as [Hv|Hv]; [congruence|]. apply andb_prop in Hv. destruct Hv as [Hv _]. apply phase_eqb_true in Hv.
      destruct (jprev_prepare_SQ _ _ _ _ Hj Hv) as [Hsq H0]. exists (i_round i - 1). split; [lia|exact Hsq].
    - unfold EvP. change (i_phase i') with (i_phase i1). change (i_round i') with (i_round i1). rewrite Cc1, Cc2, Hph.
      split; [discriminate|]. split; [discriminate|]. split; [intros _; exact Hc1|exact Hr0]. }
  assert (Hr' : i_round i' = i_round i) by (unfold i'; cbn [set_pv i_round]; exact Cc2).
  assert (HEV' : EV i' = EV i) by (change (EV i') with (ovotes (i_out i1) ++ E0); rewrite Cd; reflexivity).
  apply Ev_begin_prepare; [exact HE'|reflexivity| |rewrite Hr', HEV'; right; split; [exact Hc1|exists (cv_just w); split; [reflexivity|exact Hj]]].
  rewrite Hr', HEV'. change (i_value i') with (cv_chain w).
  apply (guardz_prepareS _ _ _ (cv_just w)); [exact Hc1|exact Hne|exact Hj|].
  intros Hp. destruct (ec_cands _ _ _ HC _ (Hcand Hp)) as [_ [P|(r1 & R1 & S1)]]; [left; exact P|right; exists r1; split; [lia|exact S1]].
Qed.

(* ---------- tryPrepare: committing bottom needs a justified PREPARE for another value ---------- *)
Lemma member_le (l : list support) s : (forall t, In t l -> 0 <= s_power t) -> In s l -> s_power s <= sup_total l.
Proof.
  induction l as [|a l IH]; intros Hn Hin; [destruct Hin|]. unfold sup_total in *. cbn. destruct Hin as [->|Hin].
  - assert (0 <= fold_right (fun s a => s_power s + a) 0 l).
    { clear IH. induction l as [|b l IHl]; cbn; [lia|]. pose proof (Hn b (or_intror (or_introl eq_refl))).
      assert (0 <= fold_right (fun s0 a => s_power s0 + a) 0 l) by (apply IHl; intros t [<-|Ht]; apply Hn; [left; reflexivity|right; right; exact Ht]). lia. }
    lia.
  - pose proof (Hn a (or_introl eq_refl)). specialize (IH (fun t Ht => Hn t (or_intror Ht)) Hin). lia.
Qed.

Lemma not_strong part : isStrongQuorum part (c_total c) = false -> 3 * part < 2 * c_total c.
Proof.
  intros H. destruct Hwf as (_ & _ & Hb). destruct (Z_lt_dec (3 * part) (2 * c_total c)) as [Hlt|Hge]; [exact Hlt|exfalso].
  assert (Ht : isStrongQuorum part (c_total c) = true) by (apply strong_iff; lia). congruence.
Qed.

Lemma other_prepare E r q k0 :
  QS c q -> Cov q -> QE E r PREPARE q -> (forall s, In s (q_support q) -> s_signers s <> [] -> justifiedz E r (s_chain s)) ->
  q_has_sq q k0 = false -> (q_could_reach c q k0 false = false \/ q_from_strong c q = true) ->
  exists t x, x <> k0 /\ In (voteS t r PREPARE x) E /\ justifiedz E r x.
Proof.
  intros HQ HCov HQE Hjd Hsq Hwhy. destruct (committee_wf_ok c Hwf) as (Ht & Hpow & Hsum).
  assert (Hnn : forall s, In s (q_support q) -> 0 <= s_power s).
  { intros s Hs. rewrite (sw_power c q s (qs_sup c q HQ s Hs)). apply sum_power_nonneg; assumption. }
  assert (Hle : q_spower q <= c_total c).
  { rewrite (qe_spower _ _ _ _ HQE). apply Hsum. apply (qs_nodup c q HQ). }
  unfold Cov in HCov.
  set (sup' := match sup_find (q_support q) k0 with Some s => s_power s | None => 0 end).
  assert (Hsup' : 0 <= sup' <= q_spower q).
  { unfold sup'. destruct (sup_find (q_support q) k0) as [s|] eqn:Ef.
    - destruct (sup_find_In _ _ _ Ef) as [Hin _]. split; [apply Hnn; exact Hin|rewrite HCov; apply member_le; assumption].
    - split; [lia|]. rewrite HCov. clear -Hnn. induction (q_support q) as [|a l IH]; unfold sup_total in *; cbn; [lia|].
      pose proof (Hnn a (or_introl eq_refl)). specialize (IH (fun s Hs => Hnn s (or_intror Hs))). lia. }
  assert (Hpos : 0 < sup_total (q_support q) - sup').
  { rewrite <- HCov. destruct Hwhy as [Hcr|Hfs].
    - unfold q_could_reach in Hcr. unfold sup'. destruct (sup_find (q_support q) k0) as [s|] eqn:Ef.
      + pose proof (could_reach_sound (s_power s) true (q_spower q) (c_total c) ltac:(lia) Hsup' Hle Hcr (c_total c - q_spower q) ltac:(lia)) as H.
        cbv iota in H. apply not_strong in H. lia.
      + pose proof (could_reach_sound 0 false (q_spower q) (c_total c) ltac:(lia) ltac:(lia) Hle Hcr (c_total c - q_spower q) ltac:(lia)) as H.
        cbv iota in H. apply not_strong in H. lia.
    - unfold q_from_strong in Hfs. apply (strong_iff _ (c_total c)) in Hfs; [|lia].
      unfold sup', q_has_sq in *. destruct (sup_find (q_support q) k0) as [s|] eqn:Ef; [|lia].
      destruct (sup_find_In _ _ _ Ef) as [Hin _]. rewrite (sw_sq c q s (qs_sup c q HQ s Hin)) in Hsq. apply not_strong in Hsq. lia. }
  destruct (others_positive (q_support q) k0 (qs_chains c q HQ) Hnn Hpos) as (s' & Hin & Hne & Hp).
  destruct (s_signers s') as [|x l] eqn:Es.
  - exfalso. rewrite (sw_power c q s' (qs_sup c q HQ s' Hin)), Es in Hp. unfold sum_power in Hp. cbn in Hp. lia.
  - exists x, (s_chain s'). split; [exact Hne|]. split.
    + apply (qe_votes _ _ _ _ HQE s' Hin). rewrite Es. left. reflexivity.
    + apply Hjd; [exact Hin|rewrite Es; discriminate].
Qed.

Lemma Ev_set_value i v : Ev i -> Ev (set_pv i (i_proposal i) v).
Proof. apply Ev_quiet; try reflexivity. split; [reflexivity|exact (fun H => H)]. Qed.

Lemma Ev_try_prepare i : Ev i -> i_phase i = PREPARE -> AllQ c i -> Ev (try_prepare c i).
Proof.
  intros HE Hph HA. pose proof HE as [[HC HP] L]. unfold try_prepare. cbv zeta.
  set (found := q_has_sq (r_prep (get_round i (i_round i))) (i_proposal i)).
  set (fj := q_has_just (r_comm (get_round i (i_round i))) PREPARE (i_proposal i) || q_has_just (r_prep (get_round i (i_round i + 1))) PREPARE (i_proposal i)
             || c_has_just (r_conv (get_round i (i_round i + 1))) PREPARE (i_proposal i)).
  set (np := negb (q_could_reach c (r_prep (get_round i (i_round i))) (i_proposal i) false)).
  set (cp := phase_timeout_elapsed i && q_from_strong c (r_prep (get_round i (i_round i)))).
  destruct (found || fj) eqn:E1; cbn [orb]; cbv iota.
  - apply Ev_begin_commit; [apply Ev_set_value; exact HE|exact Hph|exact HA|left; reflexivity].
  - destruct (np || cp) eqn:E2; cbv iota.
    + apply Ev_begin_commit; [apply Ev_set_value; exact HE|exact Hph|exact HA|right; split; [reflexivity|]].
      change (EV (set_pv i (i_proposal i) [])) with (EV i). cbn [set_pv i_round i_proposal].
      pose proof (ec_rounds _ _ _ HC (i_round i)) as Rcur. fold (get_round i (i_round i)) in Rcur.
      apply orb_false_elim in E1. destruct E1 as [Ef _].
      apply (other_prepare (EV i) (i_round i) (r_prep (get_round i (i_round i))) (i_proposal i)); [apply HA|exact (re_pcov _ _ _ Rcur)|exact (re_prep _ _ _ Rcur)|exact (re_pjd _ _ _ Rcur)|exact Ef|].
      apply orb_prop in E2. destruct E2 as [E2|E2]; [left; apply negb_true_iff; exact E2|right; apply andb_prop in E2; apply E2].
    + apply Ev_reb. exact HE.
Qed.

(* ---------- tryCommit / tryDecide / tryCurrentPhase ---------- *)
Lemma Ev_try_commit i round sway : Ev i -> AllQ c i -> JI i -> 0 <= round -> Ev (try_commit c i round sway).
Proof.
  intros HE HA HJ Hr. pose proof HE as [[HC HP] L]. destruct HP as (_ & _ & _ & Hr0). unfold try_commit.
  set (comm := r_comm (get_round i round)).
  assert (HQ : QS c comm) by apply HA.
  pose proof (ec_rounds _ _ _ HC round) as Rr. fold (get_round i round) in Rr.
  assert (Hrest : forall b : bool,
    Ev (if negb (i_round i =? round) || negb (phase_eqb (i_phase i) COMMIT) then i else
         if b then begin_next_round c i else
         if phase_timeout_elapsed i && q_from_strong c comm then
           begin_next_round c
             (match (match sway with
                     | Some s => if existsb (chain_eqb s) (filter (fun v => negb (is_zero v)) (q_all_values comm)) then Some s
                                 else hd_error (filter (fun v => negb (is_zero v)) (q_all_values comm))
                     | None => hd_error (filter (fun v => negb (is_zero v)) (q_all_values comm)) end) with
              | Some v => let i0 := fst (add_candidate i v) in if chain_eqb v (i_proposal i0) then i0 else set_pv i0 v (i_value i0)
              | None => i end)
         else if should_rebroadcast c i then try_rebroadcast c i else i)).
  { intros b. destruct (_ || _) eqn:Hc; [exact HE|].
    apply orb_false_elim in Hc. destruct Hc as [Hc Hc2]. apply negb_false_iff, Z.eqb_eq in Hc. apply negb_false_iff, phase_eqb_true in Hc2.
    assert (Hnext : Ev (begin_next_round c i)).
    { apply Ev_begin_next_round; [apply (EvC_mono (EV i) (EV i) (i_round i) (i_round i + 1)); [apply incl_refl|lia|exact HC]|exact L|exact Hr0|exact HA|exact Hc2]. }
    destruct b; [exact Hnext|].
    destruct (_ && _); [|apply Ev_reb; exact HE].
    set (nz := filter (fun v => negb (is_zero v)) (q_all_values comm)).
    destruct (match sway with Some s => if existsb (chain_eqb s) nz then Some s else hd_error nz | None => hd_error nz end) as [v|] eqn:Ep; [|exact Hnext].
    assert (Hv : In v nz).
    { assert (Hh : forall w, hd_error nz = Some w -> In w nz) by (intros w; destruct nz; cbn; [discriminate|intros H; injection H as ->; left; reflexivity]).
      destruct sway as [s|]; [|apply Hh; exact Ep].
      destruct (existsb (chain_eqb s) nz) eqn:Ex; [|apply Hh; exact Ep].
      injection Ep as <-. apply existsb_exists in Ex. destruct Ex as (y & Hy & Hsy). apply chain_eqb_eq in Hsy. subst y. exact Hy. }
    unfold nz in Hv. apply filter_In in Hv. destruct Hv as [Hv Hnz]. unfold q_all_values in Hv. apply in_map_iff in Hv.
    destruct Hv as (s & Hsc & Hsin).
    assert (Hvne : v <> []) by (destruct v; [discriminate Hnz|discriminate]).
    assert (Hne : s_chain s <> []) by (rewrite Hsc; exact Hvne).
    destruct (rj_cj _ _ (HJ round) s Hsin Hne) as (e & Hein & Hee). fold (get_round i round) in Hein. rewrite Hsc in Hee. apply chain_eqb_eq in Hee.
    destruct (re_cjust _ _ _ Rr e Hein) as [((H0 & Hb) & Hjr & Hjp & Hjv) _]. rewrite Hjr, Hjp, Hjv, Hee in Hb.
    cbv zeta. set (i0 := fst (add_candidate i v)).
    destruct (cview_add_candidate i v) as (Ca & Cb & Cc & Cd & _). fold i0 in Ca, Cb, Cc, Cd.
    injection Cb as Cb1 Cb2 Cb3 Cb4 Cb5. unfold pview' in Cc. injection Cc as Cc1 Cc2 Cc3.
    match goal with |- Ev (begin_next_round c ?x) => set (i1 := x) end.
    assert (H1 : i_rounds i1 = i_rounds i /\ i_decision i1 = i_decision i /\ i_cands i1 = i_cands i0 /\ i_input i1 = i_input i /\ i_out i1 = i_out i /\
                 i_round i1 = i_round i /\ i_phase i1 = i_phase i /\ i_proposal i1 <> [] /\ i_proposal i1 = v).
    { unfold i1. destruct (chain_eqb v (i_proposal i0)) eqn:Ev0.
      - split; [exact Cb1|split; [exact Cb2|split; [reflexivity|split; [exact Cb3|split; [exact Cd|split; [exact Cc2|split; [exact Cc1|split; [|symmetry; apply chain_eqb_eq; exact Ev0]]]]]]]].
        rewrite Cb4. apply (ec_prop _ _ _ HC).
      - split; [exact Cb1|split; [exact Cb2|split; [reflexivity|split; [exact Cb3|split; [exact Cd|split; [exact Cc2|split; [exact Cc1|split; [exact Hvne|reflexivity]]]]]]]]. }
    destruct H1 as (A1 & B1 & C1 & D1 & O1 & R1 & P1 & N1 & V1).
    assert (HE1 : EV i1 = EV i) by (unfold EV; rewrite O1; reflexivity).
    apply Ev_begin_next_round; rewrite ?HE1, ?R1, ?O1, ?P1; [|exact L|exact Hr0| |exact Hc2].
    - apply (EvC_upd (EV i) (i_round i + 1) (i_round i) i i1); [exact A1|exact B1| |exact D1|exact N1|rewrite V1; right; exists round, PREPARE; split; [exact Hr|exact Hb]|exact HC].
      rewrite C1, Ca. pose proof (Cands_mono (EV i) (EV i) (i_round i) (i_round i + 1) (i_cands i) (incl_refl _) ltac:(lia) (ec_cands _ _ _ HC)) as Hcm.
      destruct (is_candidate i v); [exact Hcm|]. apply Cands_add; [exact Hcm|]. split; [exact Hvne|right]. exists round. split; [lia|exact Hb].
    - apply (AllQ_rd c i); [unfold rd; rewrite A1, B1; reflexivity|exact HA]. }
  destruct (q_find_sq_value comm) as [| |[|x v]] eqn:Ev0.
  - apply (Hrest (false || _)).
  - apply Ev_fail. exact HE.
  - apply (Hrest (true || _)).
  - apply Ev_begin_decide; [apply Ev_set_value; exact HE|discriminate|exact Hr|].
    change (EV (set_pv i (i_proposal i) (x :: v))) with (EV i). cbn [set_pv i_value].
    assert (Hx : exists s, sup_find (q_support comm) (x :: v) = Some s /\ s_sq s = true).
    { destruct (committee_wf_ok c Hwf) as (Ht & Hpow & Hsum). eapply find_sq_value_support; eassumption. }
    destruct Hx as (s & Hs & Hsq). apply (local_SQ (EV i) round COMMIT comm (x :: v) s); [exact HQ|exact (re_comm _ _ _ Rr)|exact Hs|exact Hsq].
Qed.

Lemma Ev_try_decide i : Ev i -> Ev (try_decide c i).
Proof.
  intros HE. pose proof HE as [[HC HP] L]. destruct HP as (_ & _ & _ & Hr0). unfold try_decide.
  destruct (q_find_sq_value _); [apply Ev_try_rebroadcast; exact HE|apply Ev_fail; exact HE|].
  destruct (q_find_sq_for c _ _) as [| |sg]; try (apply Ev_fail; exact HE).
  apply (Ev_upd i); [exact L|split; [reflexivity|exact (fun H => H)]|]. split.
  - apply (EvC_view _ _ i); [reflexivity|exact HC].
  - split; [cbn; discriminate|]. split; [cbn; discriminate|]. split; [cbn; discriminate|exact Hr0].
Qed.

Lemma Ev_update_candidates i : Ev i -> Ev (update_candidates_from_quality i).
Proof.
  intros HE. pose proof HE as [[HC HP] L]. pose proof (ec_input _ _ _ HC) as [Hin Hk0].
  unfold update_candidates_from_quality. rewrite Hin.
  set (p := q_longest_prefix (i_quality i) kin). destruct (longest_prefix_facts (i_quality i) Hk0) as (Hpne & Hpp & Hall). fold p in Hpne, Hpp, Hall.
  destruct (acp_spec i p) as (A & B & C & D & _). injection B as B1 B2 B3 B4 B5. unfold pview' in C. injection C as C1 C2 C3.
  apply (Ev_upd i); [exact L|split; [rewrite D; reflexivity|rewrite D; exact (fun H => H)]|]. split.
  - rewrite C2. apply (EvC_upd (EV i) (i_round i) (i_round i) i); [exact B1|exact B2| |exact B3|rewrite B4; apply (ec_prop _ _ _ HC)|rewrite B4; apply (ec_pev _ _ _ HC)|exact HC].
    intros x Hx. destruct (A x Hx) as [Hx'|Hx']; [apply (ec_cands _ _ _ HC); exact Hx'|]. destruct (Hall x Hx') as [N P]. split; [exact N|left; exact P].
  - unfold EvP. rewrite C1, C2, B4. exact HP.
Qed.

Lemma Ev_try_current_phase i sway : Ev i -> AllQ c i -> JI i -> Ev (try_current_phase c i sway).
Proof.
  intros HE HA HJ. unfold try_current_phase. destruct (i_phase i) eqn:Hph.
  - apply Ev_fail. exact HE.
  - apply Ev_try_quality; assumption.
  - apply Ev_try_converge; assumption.
  - apply Ev_try_prepare; assumption.
  - apply Ev_try_commit; [exact HE|exact HA|exact HJ|apply Ev_round_nonneg; exact HE].
  - apply Ev_try_decide. exact HE.
  - exact HE.
Qed.

(* ---------- deliveries ---------- *)
(* what the network guarantees about a delivered message: the vote it carries is in the global set (honest votes were cast
   by their senders, Byzantine ones are recorded when injected), and the justification has the shape validation enforces
   and verifies against the global set *)
Definition adm (m : msg) : Prop :=
  0 <= m_sender m < Z.of_nat (nmem c) /\ 0 <= m_round m /\
  In (voteS (m_sender m) (m_round m) (m_phase m) (m_value m)) E0 /\
  match m_phase m with
  | QUALITY => m_round m = 0 /\ m_value m <> []
  | CONVERGE => 1 <= m_round m /\ m_value m <> [] /\ exists j, m_just m = Some j /\ jprev E0 (m_round m) (m_value m) j
  | PREPARE => (m_round m = 0 /\ m_just m = None) \/ (1 <= m_round m /\ exists j, m_just m = Some j /\ jprev E0 (m_round m) (m_value m) j)
  | COMMIT => (m_value m = [] /\ m_just m = None) \/ (m_value m <> [] /\ exists j, m_just m = Some j /\ jsame E0 (m_round m) (m_value m) j)
  | DECIDE => m_round m = 0 /\ m_value m <> [] /\ exists j, m_just m = Some j /\ backed E0 j /\ j_phase j = COMMIT /\ j_value j = m_value m
  | _ => False
  end.
Definition adm_ev (e : event) : Prop := match e with EvStart _ => False | EvDeliver _ m _ => adm m | EvAlarm _ _ => True end.

Lemma adm_wfmb m : adm m -> wfmb m = true.
Proof.
  intros (_ & _ & _ & H). unfold wfmb. destruct (m_phase m); try contradiction; try reflexivity.
  - destruct H as (H1 & H2 & j & -> & (_ & Hr & _)). destruct (m_value m); [congruence|]. cbn. apply Z.eqb_eq. exact Hr.
  - destruct H as [(H1 & ->)|(H1 & j & -> & (_ & Hr & _))]; [reflexivity|apply Z.eqb_eq; exact Hr].
  - destruct H as [(-> & _)|(H1 & j & -> & (_ & Hr & _))]; [reflexivity|]. destruct (m_value m); [congruence|]. cbn. apply Z.eqb_eq. exact Hr.
  - destruct H as (-> & _). reflexivity.
Qed.
Lemma adm_ev_okb e : adm_ev e -> ev_okb e = true.
Proof. destruct e; cbn; [contradiction|apply adm_wfmb|reflexivity]. Qed.

Lemma E0_incl i : incl E0 (EV i). Proof. unfold EV. apply incl_appr, incl_refl. Qed.

Lemma jprev_justified E r v j : 1 <= r -> jprev E r v j -> justifiedz E r v.
Proof.
  intros Hr Hj. unfold Refine.justifiedz, Spec.justified. right. exists (Z.to_nat (r - 1)). split; [apply to_nat_S; exact Hr|].
  destruct (jprev_cases _ _ _ _ Hj) as [H|H]; [left|right]; exact H.
Qed.

Lemma Ev_set_round_state i r s : Ev i -> RE (EV i) r s -> Ev (set_round_state i r s).
Proof.
  intros [[HC HP] L] Hs. apply (Ev_upd i); [exact L|split; [reflexivity|exact (fun H => H)]|]. split; [|exact HP].
  destruct HC as [A B C D F]. constructor; try assumption. intros r'. cbn [i_rounds set_round_state].
  destruct (Z.eq_dec r' r) as [->|Hne]; [rewrite rget_rset_same; exact Hs|rewrite rget_rset_other by exact Hne; apply A].
Qed.

Lemma q_receive_just_In q v j e : In e (q_just (q_receive_just q v j)) -> In e (q_just q) \/ e = (v, j).
Proof.
  unfold q_receive_just. destruct (existsb _ _); [left; assumption|]. cbn. intros H. apply in_app_or in H. destruct H as [H|[<-|[]]]; [left; exact H|right; reflexivity].
Qed.

Lemma Ev_receive_one i m sway : Ev i -> AllQ c i -> JI i -> i_err i = None -> adm m -> Ev (fst (receive_one c i m sway)).
Proof.
  intros HE HA HJ He Hadm. pose proof HE as [[HC HP] L]. destruct (committee_wf_ok c Hwf) as (Ht & Hpow & Hsum).
  unfold receive_one.
  destruct (phase_eqb (i_phase i) TERMINATED); [exact HE|].
  destruct (_ && (_ || _)); [exact HE|]. destruct (_ && is_spammable m); [exact HE|].
  destruct Hadm as (Hsnd & Hmr & Hvote & Hshape).
  assert (Hvote' : In (voteS (m_sender m) (m_round m) (m_phase m) (m_value m)) (EV i)) by (apply E0_incl; exact Hvote).
  assert (Hq : forall q sender v, QS c q -> QS c (q_receive c q sender v)) by (intros; apply QS_receive; assumption).
  pose proof (ec_rounds _ _ _ HC (m_round m)) as Rm. fold (get_round i (m_round m)) in Rm.
  pose proof (HJ (m_round m)) as Jm. fold (get_round i (m_round m)) in Jm.
  assert (Hp0 : QS c (r_prep (get_round i (m_round m)))) by apply HA.
  assert (Hc0 : QS c (r_comm (get_round i (m_round m)))) by apply HA.
  assert (Hrs : forall s, RE (EV i) (m_round m) s -> RJ (m_round m) s -> QS c (r_prep s) -> QS c (r_comm s) ->
                let x := set_round_state i (m_round m) s in Ev x /\ AllQ c x /\ JI x /\ i_err x = None).
  { intros s H0 H1 H2 H3. cbv zeta. split; [apply Ev_set_round_state; assumption|]. split; [apply AllQ_set_round_state; assumption|].
    split; [apply JI_set_round_state; assumption|exact He]. }
  destruct (m_phase m) eqn:Ep; cbn [fst]; try contradiction.
  - (* QUALITY *)
    cbv zeta. match goal with |- context [update_candidates_from_quality ?x] => set (i1 := x) end.
    assert (H1 : Ev i1 /\ AllQ c i1 /\ JI i1).
    { unfold i1. split; [|split].
      - apply Ev_set_round_state; [|exact Rm]. apply (Ev_quiet i); try reflexivity; [split; [reflexivity|exact (fun H => H)]|exact HE].
      - apply (AllQ_set_round_state c (set_quality i _)); [exact HA|exact Hp0|exact Hc0].
      - apply (JI_set_round_state (set_quality i _)); [exact HJ|exact Jm]. }
    destruct H1 as (E1 & A1 & J1).
    destruct (negb _); cbn [fst]; [apply Ev_update_candidates; exact E1|apply Ev_try_current_phase; assumption].
  - (* CONVERGE *)
    destruct Hshape as (Hr1 & Hvne & j & Ej & Hjp). rewrite Ej.
    destruct (m_value m) as [|x v'] eqn:Emv; [congruence|].
    destruct (c_receive _ _ _ _ _) as [cs|] eqn:Ecr; cbn [fst]; [|apply Ev_fail; exact HE].
    assert (Hjp' : jprev (EV i) (m_round m) (x :: v') j) by (eapply jprev_mono; [apply E0_incl|exact Hjp]).
    assert (Hset : forall l w y, In y (cv_set l w) -> y = w \/ In y l).
    { induction l as [|a l IH]; cbn; intros w y; [intros [<-|[]]; left; reflexivity|].
      destruct (chain_eqb (cv_chain a) (cv_chain w)); cbn; intros [<-|H]; auto. destruct (IH _ _ H); auto. }
    assert (Hcs : (forall cv, In cv (cs_values cs) -> jprev (EV i) (m_round m) (cv_chain cv) (cv_just cv) /\ cv_chain cv <> []) /\ JCv (m_round m - 1) cs).
    { unfold c_receive in Ecr. destruct (memZ _ _); [injection Ecr as <-; split; [exact (re_conv _ _ _ Rm)|exact (rj_conv _ _ Jm)]|].
      destruct (cv_find (cs_values (r_conv (get_round i (m_round m)))) (x :: v')) as [old|] eqn:Ef.
      - destruct (rank_lt _ _); injection Ecr as <-; [|split; [exact (re_conv _ _ _ Rm)|exact (rj_conv _ _ Jm)]].
        destruct (cv_find_In _ _ _ Ef) as [Hoin Hoc]. split; intros cv Hcv; cbn in Hcv; destruct (Hset _ _ _ Hcv) as [->|Hin].
        + cbn. destruct (re_conv _ _ _ Rm old Hoin) as [Hj1 Hj2]. rewrite Hoc in Hj1. split; [exact Hj1|discriminate].
        + apply (re_conv _ _ _ Rm). exact Hin.
        + cbn. apply (rj_conv _ _ Jm). exact Hoin.
        + apply (rj_conv _ _ Jm). exact Hin.
      - injection Ecr as <-. split; intros cv Hcv; cbn in Hcv; apply in_app_or in Hcv; destruct Hcv as [Hcv|[<-|[]]].
        + apply (re_conv _ _ _ Rm). exact Hcv.
        + cbn. split; [exact Hjp'|discriminate].
        + apply (rj_conv _ _ Jm). exact Hcv.
        + cbn. destruct Hjp as (_ & Hjr & _). exact Hjr. }
    destruct Hcs as [Hcs1 Hcs2].
    destruct (Hrs (mkR cs (r_prep (get_round i (m_round m))) (r_comm (get_round i (m_round m))))) as (E1 & A1 & J1 & _).
    + destruct Rm as [R1 R2 R3 R4 R5 R6 R7]. constructor; cbn [r_prep r_comm r_conv]; assumption.
    + destruct Jm as [Q1 Q2 Q3 Q4 Q5]. constructor; cbn [r_prep r_comm r_conv]; assumption.
    + exact Hp0.
    + exact Hc0.
    + apply Ev_try_current_phase; assumption.
  - (* PREPARE *)
    cbv zeta. match goal with |- context [try_current_phase c (set_round_state i (m_round m) ?s) sway] => destruct (Hrs s) as (E1 & A1 & J1 & _) end.
    + destruct Rm as [R1 R2 R3 R4 R5 R6 R7]. constructor; cbn [r_prep r_comm r_conv]; try assumption.
      * destruct (m_just m); [apply QE_receive_just|]; apply QE_receive; assumption.
      * destruct (m_just m); [apply Cov_receive_just|]; apply Cov_receive; assumption.
      * destruct Hshape as [(H0 & ->)|(H1 & j & -> & Hjp)]; [rewrite q_receive_just_keep; exact R3|].
        intros e He'. apply q_receive_just_In in He'. rewrite q_receive_just_keep in He'.
        destruct He' as [He'| ->]; [apply R3; exact He'|]. cbn. eapply jprev_mono; [apply E0_incl|exact Hjp].
      * intros s Hs Hne.
        assert (Hs' : In s (q_support (q_receive c (r_prep (get_round i (m_round m))) (m_sender m) (m_value m)))).
        { destruct (m_just m); [|exact Hs]. unfold q_receive_just in Hs. destruct (existsb _ _); exact Hs. }
        destruct (q_receive_new_support _ _ _ _ Hs') as [Hold|[Hch _]]; [apply R4; assumption|]. rewrite Hch.
        destruct Hshape as [(H0 & _)|(H1 & j & _ & Hjp)].
        -- unfold Refine.justifiedz, Spec.justified. left. rewrite H0. reflexivity.
        -- apply (jprev_justified _ _ _ j); [exact H1|]. eapply jprev_mono; [apply E0_incl|exact Hjp].
    + destruct Jm as [Q1 Q2 Q3 Q4 Q5]. constructor; cbn [r_prep r_comm r_conv]; try assumption.
      destruct Hshape as [(H0 & ->)|(H1 & j & -> & (_ & Hjr & _))]; [apply JQ_receive; exact Q1|apply JQ_receive_just; [apply JQ_receive; exact Q1|exact Hjr]].
    + cbn. destruct (m_just m); [apply QS_receive_just|]; apply Hq; exact Hp0.
    + exact Hc0.
    + apply Ev_try_current_phase; assumption.
  - (* COMMIT *)
    cbv zeta.
    change (match m_value m, m_just m with
            | _ :: _, Some j => q_receive_just (q_receive c (r_comm (get_round i (m_round m))) (m_sender m) (m_value m)) (m_value m) j
            | _, _ => q_receive c (r_comm (get_round i (m_round m))) (m_sender m) (m_value m) end)
      with (comm_update c (r_comm (get_round i (m_round m))) (m_sender m) (m_value m) (m_just m)).
    set (q := comm_update c (r_comm (get_round i (m_round m))) (m_sender m) (m_value m) (m_just m)).
    destruct (Hrs (mkR (r_conv (get_round i (m_round m))) (r_prep (get_round i (m_round m))) q)) as (E1 & A1 & J1 & He1).
    + destruct Rm as [R1 R2 R3 R4 R5 R6 R7]. constructor; cbn [r_prep r_comm r_conv]; try assumption.
      * unfold q, comm_update. cbv zeta. destruct (m_value m); [destruct (m_just m)|destruct (m_just m); [apply QE_receive_just|]]; apply QE_receive; assumption.
      * intros e He'. unfold q, comm_update in He'. cbv zeta in He'.
        destruct (m_value m) as [|x v'] eqn:Emv.
        -- assert (Hx : In e (q_just (q_receive c (r_comm (get_round i (m_round m))) (m_sender m) []))) by (destruct (m_just m); exact He').
           rewrite q_receive_just_keep in Hx. apply R6. exact Hx.
        -- destruct Hshape as [(Hv0 & _)|(_ & j & Ej & Hjs)]; [discriminate Hv0|]. rewrite Ej in He'.
           apply q_receive_just_In in He'. rewrite q_receive_just_keep in He'.
           destruct He' as [He'| ->]; [apply R6; exact He'|]. cbn. split; [eapply jsame_mono; [apply E0_incl|exact Hjs]|discriminate].
    + destruct Jm as [Q1 Q2 Q3 Q4 Q5]. constructor; cbn [r_prep r_comm r_conv]; try assumption.
      * apply JQ_comm_update; [exact Q3|]. intros j Ej Hne. destruct Hshape as [(Hv0 & _)|(_ & j' & Ej' & (_ & Hjr & _))]; [congruence|]. congruence.
      * apply CJ_comm_update; [exact Q4|]. intros Hne. destruct Hshape as [(Hv0 & _)|(_ & j' & Ej' & _)]; [congruence|exists j'; exact Ej'].
      * apply Cov_comm_update; assumption.
    + exact Hp0.
    + apply QS_comm_update; assumption.
    + set (i1 := set_round_state i (m_round m) (mkR (r_conv (get_round i (m_round m))) (r_prep (get_round i (m_round m))) q)) in *.
      destruct (negb (phase_eqb (i_phase i1) DECIDE)); cbn [fst]; [|apply Ev_try_current_phase; assumption].
      pose proof (Ev_try_commit i1 (m_round m) sway E1 A1 J1 Hmr) as E2.
      destruct (GJ_try_commit c Ht Hpow Hsum i1 (m_round m) sway J1 A1 He1) as [J2 _].
      destruct (GQ_try_commit c Ht Hpow Hsum i1 (m_round m) sway A1 He1) as [A2 _].
      match goal with |- context [if ?b then _ else _] => destruct b end; cbn [fst]; [|exact E2].
      apply Ev_try_current_phase; assumption.
  - (* DECIDE *)
    destruct Hshape as (Hr0' & Hvne & j & Ej & Hjb & Hjp & Hjv).
    cbv zeta. rewrite Ej.
    match goal with |- context [skip_to_decide ?x _ _] => set (i1 := x) end.
    assert (H1 : Ev i1 /\ AllQ c i1 /\ JI i1).
    { unfold i1. split; [|split].
      - apply Ev_set_round_state; [|exact Rm].
        destruct HE as [[[A B C D F] HP'] L']. apply (Ev_upd i); [exact L'|split; [reflexivity|exact (fun H => H)]|]. split; [|exact HP'].
        constructor; try assumption. cbn [i_decision set_decision]. apply QE_receive; [exact B|exact Hsnd|]. rewrite <- Hr0'. exact Hvote'.
      - apply (AllQ_set_round_state c (set_decision i _)); [|exact Hp0|exact Hc0]. split; [cbn; apply Hq; apply HA|apply HA].
      - apply (JI_set_round_state (set_decision i _)); [exact HJ|exact Jm]. }
    destruct H1 as (E1 & A1 & J1).
    match goal with |- context [try_current_phase c ?x sway] => set (i2 := x) end.
    assert (H2 : Ev i2 /\ AllQ c i2 /\ JI i2).
    { unfold i2. destruct (negb (phase_eqb (i_phase i1) DECIDE)); [|split; [exact E1|split; [exact A1|exact J1]]].
      split; [|split; [exact A1|exact J1]]. apply Ev_skip_to_decide; [exact E1|exact Hvne| |exact Hjp|exact Hjv].
      eapply backed_mono; [apply E0_incl|exact Hjb]. }
    destruct H2 as (E2 & A2 & J2). apply Ev_try_current_phase; assumption.
Qed.

Lemma Ev_post_receive i round : Ev i -> Ev (post_receive c i round).
Proof.
  intros HE. pose proof HE as [[HC HP] L]. destruct HP as (_ & _ & _ & Hr0). unfold post_receive.
  destruct (_ || _) eqn:Hc; [exact HE|]. apply orb_false_elim in Hc. destruct Hc as [Hc _]. apply Z.leb_gt in Hc.
  destruct (negb _); [exact HE|]. destruct (c_find_best _ _) as [w|] eqn:Eb; [|exact HE].
  unfold c_find_best in Eb. destruct (find_best_In _ _ _ _ Eb) as [E|Hin]; [discriminate E|].
  pose proof (ec_rounds _ _ _ HC round) as Rr. fold (get_round i round) in Rr. destruct (re_conv _ _ _ Rr w Hin) as [Hj Hne].
  apply Ev_skip_to_round; [exact HC|exact L|lia|exact Hne|exact Hj].
Qed.

(* ---------- one step; the start ---------- *)
Lemma Ev_step i e : Ev i -> AllQ c i -> JI i -> i_err i = None -> adm_ev e -> Ev (step c i e).
Proof.
  intros HE HA HJ He Hadm. destruct e as [now|now m sway|now sway]; cbn [step]; [destruct Hadm| |].
  - set (i0 := set_now i now).
    assert (E0' : Ev i0) by (apply (Ev_quiet i); try reflexivity; [split; [reflexivity|exact (fun H => H)]|exact HE]).
    pose proof (Ev_receive_one i0 m sway E0' HA HJ He Hadm) as G1.
    destruct (receive_one c i0 m sway) as [i1 changed]. cbn [fst] in G1.
    destruct (changed && match i_err i1 with None => true | Some _ => false end); [apply Ev_post_receive|]; exact G1.
  - apply Ev_try_current_phase; [|exact HA|exact HJ]. apply (Ev_quiet i); try reflexivity; [split; [reflexivity|exact (fun H => H)]|exact HE].
Qed.

Lemma Ev_started now : kin <> [] -> Ev (step c (new_instance kin 0) (EvStart now)).
Proof.
  intros Hk0. assert (Hf1 : firstn 1 kin <> [] /\ Spec.is_prefix (firstn 1 kin) kin).
  { destruct kin as [|b r] eqn:Ek; [congruence|]. cbn. split; [discriminate|]. split; [discriminate|exists r; reflexivity]. }
  split.
  - split.
    + constructor.
      * intros r. cbn. destruct r; apply RE_empty.
      * constructor; cbn; try (intros ? []); reflexivity.
      * intros v Hv. cbn in Hv. destruct Hv as [<-|[]]. destruct Hf1 as [A B]. split; [exact A|left; exact B].
      * split; [reflexivity|exact Hk0].
      * exact Hk0.
      * left. split; [exact Hk0|exists []; symmetry; apply app_nil_r].
    + split; [cbn; discriminate|]. split; [reflexivity|]. split; [cbn; discriminate|cbn; lia].
  - assert (Hout : exists t, i_out (step c (new_instance kin 0) (EvStart now)) = [OBroadcast 0 QUALITY kin None false; OAlarm t]) by (eexists; reflexivity).
    destruct Hout as (t & ->). cbn [log_ok].
    split; [apply (guardz_quality (ovotes [OAlarm t] ++ E0) kin); [exact Hk0|reflexivity]|split; [lia|split; [exact I|]]].
    split; [split; [reflexivity|split; [exact Hk0|reflexivity]]|split; [|exact I]].
    intros _. left. split; [exact Hk0|exists []; symmetry; apply app_nil_r].
Qed.

End Node.
