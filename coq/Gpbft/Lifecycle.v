(* The participant's instance life cycle (gpbft/participant.go: StartInstanceAt, ReceiveAlarm, ReceiveMessage,
   beginInstance, handleDecision, finishCurrentInstance, beginNextInstance) with the GPBFT instance itself abstracted to
   "running" -- the instance model is Gpbft/Instance.v; what is modelled here is WHICH instance exists WHEN, the host's
   single alarm slot, and the hand-over of decisions to the host.
   The host fires an alarm only while one is set (setting the zero time cancels it, host.go); whether an event makes the
   running instance terminate, whether the instance re-arms the alarm, and whether the host accepts a decision are
   inputs (every combination is allowed).  No proofs here. *)
From Coq Require Import ZArith List Bool.
Import ListNotations.
Open Scope Z_scope.

Record lstate := mkL {
  l_id : Z;                 (* Progress().ID *)
  l_running : bool;         (* p.gpbft != nil *)
  l_alarm : bool;           (* the host's alarm slot is set *)
  l_execs : list Z;         (* instances begun (beginInstance succeeded), newest first *)
  l_reported : list Z;      (* instances whose decision was handed to Host.ReceiveDecision, newest first *)
}.
Definition l0 : lstate := mkL 0 false false [] [].

Inductive lev :=
| LStartAt (inst : Z)                                   (* Participant.StartInstanceAt(inst, when), when > 0 *)
| LAlarm (begin_ok : bool) (terminates rearm accept : bool)
    (* the host's alarm fires.  No instance: beginInstance (may fail: no proposal / committee); the fresh instance
       drains the queue and may terminate at once.  Otherwise the instance's timer step. *)
| LDeliver (inst : Z) (terminates rearm accept : bool). (* ReceiveMessage of a validated message for `inst` *)

(* handleDecision *)
Definition handle (s : lstate) (terminates rearm accept : bool) : lstate :=
  if terminates then
    let rep := l_id s :: l_reported s in
    if accept then mkL (l_id s + 1) false true (l_execs s) rep      (* beginNextInstance; SetAlarm(nextStart) *)
    else mkL (l_id s) false false (l_execs s) rep                   (* SetAlarm(zero): cancelled *)
  else mkL (l_id s) true (l_alarm s || rearm) (l_execs s) (l_reported s).

Definition lstep (s : lstate) (e : lev) : lstate :=
  match e with
  | LStartAt inst => mkL inst false true (l_execs s) (l_reported s)
  | LAlarm begin_ok terminates rearm accept =>
      if negb (l_alarm s) then s                                     (* nothing is set: the host does not call ReceiveAlarm *)
      else
        let s1 := mkL (l_id s) (l_running s) false (l_execs s) (l_reported s) in   (* the slot is consumed by firing *)
        if l_running s then handle s1 terminates rearm accept
        else if begin_ok then handle (mkL (l_id s) true false (l_id s :: l_execs s) (l_reported s)) terminates true accept
        else s1
  | LDeliver inst terminates rearm accept =>
      if inst <? l_id s then s
      else if l_running s && (inst =? l_id s) then handle s terminates rearm accept
      else s                                                         (* queued (MsgQueue.v) *)
  end.
Definition lrun (s : lstate) (evs : list lev) : lstate := fold_left lstep evs s.

(* correspondence: after every event the real participant's (Progress().ID, gpbft != nil, alarm set) *)
Fixpoint ltrace_ok (s : lstate) (evs : list (lev * (Z * bool * bool))) : bool :=
  match evs with
  | [] => true
  | (e, (id, running, alarm)) :: rest =>
      let s' := lstep s e in
      (l_id s' =? id) && Bool.eqb (l_running s') running && Bool.eqb (l_alarm s') alarm && ltrace_ok s' rest
  end.
