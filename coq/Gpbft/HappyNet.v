(* The happy path over the NETWORK model (C02 second sentence; the synchronous corner of C06).
   Setting: the network of Layer-N instances of RefineNet.v; every honest member proposes the same chain v; no faulty
   member ever casts a vote; no timer fires, and every delivery happens before the receiver's current phase timer expires
   (messages arrive within the synchrony bound).  Then, for EVERY such schedule -- any committee, any order of starts
   and deliveries, duplicates and omissions included:
     * every vote ever cast is a round-0 vote for v: nobody votes bottom, nobody votes for a prefix or another chain,
       nobody leaves round 0 (no CONVERGE is ever cast);
     * whoever decides, decides v.
   (Progress -- that everybody does decide once the votes are delivered -- is HappyLive.v.) *)
From Coq Require Import ZArith List Bool Lia.
From F3 Require Import GoInt QuorumGen QuorumProofs Instance InstanceRun InstanceOrder InstanceVotes InstanceDecide InstanceQuorum InstanceNoPanic InstanceJust
  Refine RefineNode RefineNet HappyInst HappyStep.
From F3 Require Spec.
Import ListNotations.
Open Scope Z_scope.

Section Net.
Variable c : config.
Variable honest : nat -> bool.
Variable input : nat -> chain.
Variable v : chain.
Hypothesis Hwf : committee_wf c.
Hypothesis Hscaled : c_total c <= 65535.
Hypothesis Hrr : 0 <= c_rebro_round c.
Hypothesis Hv : (2 <= length v)%nat.
Hypothesis Hunanimous : forall k, honest k = true -> input k = v.

Lemma Hinput : forall k, honest k = true -> input k <> [].
Proof. intros k Hk. rewrite (Hunanimous k Hk). exact (v_nonnil v Hv). Qed.

Local Notation NI := (NI c honest input).
Local Notation member := (member c honest).
Local Notation shape := (shape c v).

Definition vvote (x : Spec.vote) : Prop :=
  Spec.round x = 0%nat /\ Spec.vl x = Some v /\ Spec.ph x <> Spec.CONVERGE.
Definition HN (n : net) : Prop :=
  (forall x, In x (n_votes n) -> vvote x) /\
  (forall k, member k -> i_phase (n_inst n k) <> INITIAL -> shape (n_inst n k)).

(* synchrony, per action: only starts and deliveries; a delivery reaches its receiver before the receiver's phase timer *)
Definition happy_act (n : net) (a : action) : Prop :=
  match a with
  | AStart _ _ => True
  | ADeliver k now _ _ => okt (set_now (clear_out (n_inst n k)) now)
  | AAlarm _ _ _ => False
  | AByz _ => False
  end.
Fixpoint all_happy (n : net) (acts : list action) : Prop :=
  match acts with [] => True | a :: rest => happy_act n a /\ all_happy (nstep c n a) rest end.

Lemma ovotes_vvote k outs : 0 <= k -> Forall (out_v v) outs -> forall x, In x (ovotes k outs) -> vvote x.
Proof.
  intros Hk Ho x Hx. unfold ovotes in Hx. apply in_flat_map in Hx. destruct Hx as (o & Hin & Hxo).
  rewrite Forall_forall in Ho. specialize (Ho o Hin). destruct o as [r p y j t|r p|t]; cbn in Hxo; try contradiction.
  destruct Hxo as [<-|[]]. destruct Ho as (-> & -> & Hp). unfold vvote, voteS. cbn [Spec.round Spec.vl Spec.ph].
  split; [reflexivity|]. split; [destruct (v_cons v Hv) as (a & w & ->); reflexivity|].
  destruct Hp as [-> | [-> | [-> | ->]]]; cbn; discriminate.
Qed.

Lemma adm_vmsg E m : (forall x, In x E -> vvote x) -> adm c honest E m -> vmsg v m.
Proof.
  intros HE (Hs & Hr & Hin & Hm). destruct (HE _ Hin) as (R & V & P). unfold voteS in R, V, P. cbn [Spec.round Spec.vl Spec.ph] in R, V, P.
  split; [lia|]. split.
  - unfold valS in V. destruct (m_value m); [discriminate V|]. injection V as <-. reflexivity.
  - destruct (m_phase m); try contradiction; cbn in P; try congruence; auto.
Qed.

Lemma new_clear w : clear_out (new_instance w 0) = new_instance w 0.
Proof. reflexivity. Qed.

Theorem happy_step n a : NI n -> HN n -> aok c honest n a -> happy_act n a -> HN (nstep c n a).
Proof.
  intros HNI (HV & HS) Hok Hh. destruct a as [k now|k now m sway|k now sway|x]; cbn [happy_act] in Hh; try contradiction.
  - (* start *)
    destruct Hok as (Hm & Hph). cbn [nstep]. unfold node_step. cbn [n_inst n_votes].
    destruct HNI as (_ & HNI). destruct (HNI k Hm) as (_ & Hnew & _). rewrite (Hnew Hph).
    destruct Hm as (Hk & Hhon). rewrite (Hunanimous _ Hhon), new_clear.
    pose proof (shape_start c v now) as S. split.
    + intros x Hx. apply in_app_or in Hx. destruct Hx as [Hx|Hx]; [|exact (HV x Hx)].
      apply (ovotes_vvote k _ (proj1 Hk) (sh_out c v _ S) x Hx).
    + intros k' Hm' Hp'. cbn [n_inst] in *. destruct (Z.eq_dec k' k) as [->|Hne].
      * rewrite upd_same. exact S.
      * rewrite upd_other in * by exact Hne. exact (HS k' Hm' Hp').
  - (* deliver *)
    destruct Hok as (Hm & Hph & Hadm). cbn [nstep]. unfold node_step. cbn [n_inst n_votes].
    pose proof (HS k Hm Hph) as S0.
    assert (Hfull : Full c (n_inst n k)) by (destruct HNI as (_ & HNI); destruct (HNI k Hm) as (_ & _ & Hf); exact (proj1 (Hf Hph))).
    pose proof (Full_step c Hwf (n_inst n k) (EvDeliver now m sway) Hfull (adm_ev_okb c honest (n_votes n) (EvDeliver now m sway) Hadm)) as Hf'.
    assert (He : i_err (step c (clear_out (n_inst n k)) (EvDeliver now m sway)) = None) by (destruct Hf' as (_ & _ & _ & _ & E); exact E).
    pose proof (shape_deliver c v Hv Hwf Hrr (clear_out (n_inst n k)) now m sway (shape_clear_out c v _ S0) Hh (adm_vmsg _ m HV Hadm) He) as S.
    split.
    + intros x Hx. apply in_app_or in Hx. destruct Hx as [Hx|Hx]; [|exact (HV x Hx)].
      apply (ovotes_vvote k _ (proj1 (proj1 Hm)) (sh_out c v _ S) x Hx).
    + intros k' Hm' Hp'. cbn [n_inst] in *. destruct (Z.eq_dec k' k) as [->|Hne].
      * rewrite upd_same. exact S.
      * rewrite upd_other in * by exact Hne. exact (HS k' Hm' Hp').
Qed.

Lemma HN_net0 : HN (net0 input).
Proof. split; [intros x []|]. intros k _ Hp. cbn in Hp. congruence. Qed.

Theorem happy_run acts : forall n, NI n -> HN n -> all_ok c honest n acts -> all_happy n acts -> NI (nrun c n acts) /\ HN (nrun c n acts).
Proof.
  induction acts as [|a acts IH]; intros n HNI HHN Hok Hh; cbn [nrun]; [split; assumption|].
  destruct Hok as (Hok & Hrest). destruct Hh as (Hh & Hhrest).
  apply IH; [apply (NI_step c honest input Hwf Hscaled Hinput); assumption|apply happy_step; assumption|exact Hrest|exact Hhrest].
Qed.

(* ---------- the statements ---------- *)
Theorem happy_votes acts x : all_ok c honest (net0 input) acts -> all_happy (net0 input) acts ->
  In x (n_votes (nrun c (net0 input) acts)) ->
  Spec.round x = 0%nat /\ Spec.vl x = Some v /\ Spec.ph x <> Spec.CONVERGE.
Proof.
  intros Hok Hh Hx. destruct (happy_run acts (net0 input) (NI_net0 c honest input) HN_net0 Hok Hh) as (_ & HV & _). exact (HV x Hx).
Qed.
Theorem happy_decision acts k j : all_ok c honest (net0 input) acts -> all_happy (net0 input) acts -> member k ->
  i_term (n_inst (nrun c (net0 input) acts) k) = Some j -> j_value j = v.
Proof.
  intros Hok Hh Hm Hj. destruct (happy_run acts (net0 input) (NI_net0 c honest input) HN_net0 Hok Hh) as (HNI & _ & HS).
  assert (Hp : i_phase (n_inst (nrun c (net0 input) acts) k) <> INITIAL).
  { intros Hp. destruct HNI as (_ & HNI). destruct (HNI k Hm) as (_ & Hnew & _). rewrite (Hnew Hp) in Hj. discriminate Hj. }
  exact (sh_term c v _ (HS k Hm Hp) j Hj).
Qed.
Theorem happy_round0 acts k : all_ok c honest (net0 input) acts -> all_happy (net0 input) acts -> member k ->
  i_round (n_inst (nrun c (net0 input) acts) k) = 0.
Proof.
  intros Hok Hh Hm. destruct (happy_run acts (net0 input) (NI_net0 c honest input) HN_net0 Hok Hh) as (HNI & _ & HS).
  destruct (i_phase (n_inst (nrun c (net0 input) acts) k)) eqn:Hp;
    try (apply (sh_round c v _); apply (HS k Hm); rewrite Hp; discriminate).
  destruct HNI as (_ & HNI). destruct (HNI k Hm) as (_ & Hnew & _). rewrite (Hnew Hp). reflexivity.
Qed.
End Net.

(* ---------- executable form of the synchrony hypothesis (used for the non-vacuity example) ---------- *)
Definition happy_actb (n : net) (a : action) : bool :=
  match a with
  | AStart _ _ => true
  | ADeliver k now _ _ =>
      let i := n_inst n k in
      (now <? i_ptimeout i) || phase_eqb (i_phase i) DECIDE || phase_eqb (i_phase i) TERMINATED
  | _ => false
  end.
Fixpoint all_happyb (c : config) (n : net) (acts : list action) : bool :=
  match acts with [] => true | a :: rest => happy_actb n a && all_happyb c (nstep c n a) rest end.
Lemma phase_eqb_true p q : phase_eqb p q = true -> p = q.
Proof. unfold phase_eqb. intros H. apply Z.eqb_eq in H. destruct p, q; cbn in H; try discriminate H; reflexivity. Qed.
Lemma happy_actb_sound n a : happy_actb n a = true -> happy_act n a.
Proof.
  destruct a as [k now|k now m sway|k now sway|x]; cbn [happy_actb happy_act]; intros H; try discriminate H; [exact I|].
  unfold okt, timely. cbn [set_now clear_out i_now i_ptimeout i_phase].
  apply orb_true_iff in H. destruct H as [H|H]; [apply orb_true_iff in H; destruct H as [H|H]|].
  - left. apply Z.ltb_lt. exact H.
  - right. left. apply phase_eqb_true. exact H.
  - right. right. apply phase_eqb_true. exact H.
Qed.
Theorem all_happyb_sound c acts : forall n, all_happyb c n acts = true -> all_happy c n acts.
Proof.
  induction acts as [|a acts IH]; intros n H; cbn [all_happyb all_happy] in *; [exact I|].
  apply andb_true_iff in H. destruct H as [H1 H2]. split; [apply happy_actb_sound; exact H1|apply IH; exact H2].
Qed.
