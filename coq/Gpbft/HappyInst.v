(* The happy path on ONE instance (C02 second sentence, C06): a participant whose input is v, which is only ever handed
   round-0 votes for v (QUALITY / PREPARE / COMMIT / DECIDE) and whose phase timers have not expired when they arrive,
   stays in round 0, only ever votes for v, never votes bottom, and -- if it terminates -- decides v.
   (Gpbft/HappyNet.v composes this over the network model and adds progress.) *)
From Coq Require Import ZArith List Bool Lia.
From F3 Require Import GoInt QuorumGen QuorumProofs Instance InstanceRun InstanceOrder InstanceVotes InstanceDecide InstanceQuorum InstanceNoPanic HappyPath.
Import ListNotations.
Open Scope Z_scope.

Section Happy.
Variable c : config.
Variable v : chain.
Hypothesis Hv : (2 <= length v)%nat.
Hypothesis Hcw : committee_wf c.
Hypothesis Hrr : 0 <= c_rebro_round c.

Local Notation total := (c_total c).
Local Notation strong p := (isStrongQuorum p (c_total c)).

Lemma Htot : 0 < total < two62. Proof. exact (proj1 (committee_wf_ok c Hcw)). Qed.
Lemma Hpow s : 0 <= power_of c s. Proof. exact (proj1 (proj2 (committee_wf_ok c Hcw)) s). Qed.
Lemma Hsum l : NoDup l -> sum_power c l <= total. Proof. exact (proj2 (proj2 (committee_wf_ok c Hcw)) l). Qed.
Lemma sum_nonneg l : 0 <= sum_power c l.
Proof. induction l as [|x l IH]; cbn; [lia|]. pose proof (Hpow x). unfold sum_power in IH. lia. Qed.
Lemma v_cons : exists x w, v = x :: w. Proof. destruct v as [|x w]; [cbn in Hv; lia|eauto]. Qed.
Lemma v_nonnil : v <> []. Proof. destruct v_cons as (x & w & ->). discriminate. Qed.
Lemma strong0 : strong 0 = false.
Proof. pose proof Htot. destruct (strong 0) eqn:E; [|reflexivity]. apply (strong_iff 0 total) in E; lia. Qed.

(* ---------- tallies in which every sender voted for v ---------- *)
Definition uni (q : qstate) : Prop :=
  NoDup (q_senders q) /\ q_spower q = sum_power c (q_senders q) /\
  ((q_senders q = [] /\ q_support q = []) \/
   (q_senders q <> [] /\ exists sg, q_support q = [mkSup v (q_spower q) sg (strong (q_spower q))])).
(* the QUALITY tally records every prefix; only the entry of v itself matters here *)
Definition uniQ (q : qstate) : Prop :=
  NoDup (q_senders q) /\ q_spower q = sum_power c (q_senders q) /\
  ((q_senders q = [] /\ sup_find (q_support q) v = None) \/
   (q_senders q <> [] /\ exists sg, sup_find (q_support q) v = Some (mkSup v (q_spower q) sg (strong (q_spower q))))).

Lemma uni_empty : uni q_empty.
Proof. split; [constructor|]. split; [reflexivity|]. left. split; reflexivity. Qed.
Lemma uniQ_empty : uniQ q_empty.
Proof. split; [constructor|]. split; [reflexivity|]. left. split; reflexivity. Qed.

Lemma memZ_In x l : memZ x l = true <-> In x l.
Proof. unfold memZ. rewrite existsb_exists. split; [intros (y & Hy & E); apply Z.eqb_eq in E; subst; exact Hy|intros H; exists x; split; [exact H|apply Z.eqb_refl]]. Qed.
Lemma NoDup_snoc (l : list Z) x : NoDup l -> ~ In x l -> NoDup (l ++ [x]).
Proof.
  intros Hn Hx. induction Hn as [|y l Hy Hn IH]; cbn; [constructor; [intros []|constructor]|].
  constructor; [|apply IH; intros H; apply Hx; right; exact H].
  intros H. apply in_app_or in H. destruct H as [H|[->|[]]]; [exact (Hy H)|apply Hx; left; reflexivity].
Qed.
Lemma sum_power_snoc l x : sum_power c (l ++ [x]) = sum_power c l + power_of c x.
Proof. induction l as [|y l IH]; cbn; [lia|]. unfold sum_power in IH. rewrite IH. lia. Qed.

Lemma uni_receive q s : uni q -> uni (q_receive c q s v).
Proof.
  intros (Hn & Hs & Hc). unfold q_receive. destruct (memZ s (q_senders q)) eqn:Em; [split; [exact Hn|split; [exact Hs|exact Hc]]|].
  assert (Hni : ~ In s (q_senders q)) by (intros H; apply memZ_In in H; congruence).
  unfold q_receive_inner, uni. cbn [q_senders q_spower q_support q_just].
  split; [apply NoDup_snoc; assumption|]. split; [rewrite sum_power_snoc, Hs; reflexivity|].
  right. split; [intros H; destruct (q_senders q); discriminate H|].
  destruct Hc as [(E1 & E2)|(_ & sg & E2)]; rewrite E2.
  - assert (Hsp : q_spower q = 0) by (rewrite Hs, E1; reflexivity).
    cbn [sup_find sup_set s_power s_signers]. rewrite Hsp, !Z.add_0_l. eexists. reflexivity.
  - cbn [sup_find s_chain]. rewrite chain_eqb_refl. cbn [sup_set s_chain s_power s_signers]. rewrite chain_eqb_refl.
    eexists. reflexivity.
Qed.
Lemma uni_receive_just q j : uni q -> uni (q_receive_just q v j).
Proof. intros H. unfold q_receive_just. destruct (existsb _ _); [exact H|]. exact H. Qed.

Lemma uni_spower_le q : uni q -> 0 <= q_spower q <= total.
Proof. intros (Hn & Hs & _). rewrite Hs. split; [apply sum_nonneg|apply Hsum; exact Hn]. Qed.

Lemma uni_has_sq q : uni q -> q_has_sq q v = strong (q_spower q).
Proof.
  intros (Hn & Hs & [(E1 & E2)|(_ & sg & E2)]); unfold q_has_sq; rewrite E2; cbn [sup_find s_chain].
  - rewrite Hs, E1. cbn. symmetry. apply strong0.
  - rewrite chain_eqb_refl. reflexivity.
Qed.
Lemma uni_find_sq_value q : uni q -> q_find_sq_value q = if strong (q_spower q) then FsvSome v else FsvNone.
Proof.
  intros (Hn & Hs & [(E1 & E2)|(_ & sg & E2)]); unfold q_find_sq_value; rewrite E2; cbn [filter s_sq].
  - rewrite Hs, E1. cbn [sum_power fold_right]. rewrite strong0. reflexivity.
  - destruct (strong (q_spower q)); reflexivity.
Qed.
Lemma uni_sup_find q : uni q -> strong (q_spower q) = true -> exists sg, sup_find (q_support q) v = Some (mkSup v (q_spower q) sg true).
Proof.
  intros (Hn & Hs & [(E1 & E2)|(_ & sg & E2)]) Hst.
  - rewrite Hs, E1 in Hst. cbn in Hst. rewrite strong0 in Hst. discriminate.
  - exists sg. rewrite E2. cbn [sup_find s_chain]. rewrite chain_eqb_refl, Hst. reflexivity.
Qed.
Lemma could_reach_all sp : 0 <= sp <= total -> couldReachStrongQuorumFor false sp true sp total = true.
Proof.
  intros H. pose proof Htot as Ht. unfold couldReachStrongQuorumFor, two62 in *. cbv zeta.
  unfold add_i64, sub_i64. rewrite (wrap_i64_id (total - sp)) by (unfold in_i64, two63; lia).
  rewrite (wrap_i64_id (sp + (total - sp))) by (unfold in_i64, two63; lia).
  rewrite (wrap_i64_id (sp + (total - sp) + 0)) by (unfold in_i64, two63; lia).
  replace (sp + (total - sp) + 0) with total by lia. rewrite Z.min_id. apply (strong_iff total total); unfold two62; lia.
Qed.
Lemma could_reach_none : couldReachStrongQuorumFor false 0 false 0 total = true.
Proof.
  pose proof Htot as Ht. unfold couldReachStrongQuorumFor, two62 in *. cbv zeta.
  unfold add_i64, sub_i64. rewrite (wrap_i64_id (total - 0)) by (unfold in_i64, two63; lia).
  rewrite (wrap_i64_id (0 + (total - 0))) by (unfold in_i64, two63; lia).
  rewrite (wrap_i64_id (0 + (total - 0) + 0)) by (unfold in_i64, two63; lia).
  replace (0 + (total - 0) + 0) with total by lia. rewrite Z.min_id. apply (strong_iff total total); unfold two62; lia.
Qed.
Lemma uni_could_reach q : uni q -> q_could_reach c q v false = true.
Proof.
  intros U. pose proof (uni_spower_le q U) as Hb. destruct U as (Hn & Hs & [(E1 & E2)|(_ & sg & E2)]); unfold q_could_reach; rewrite E2; cbn [sup_find s_chain].
  - replace (q_spower q) with 0 by (rewrite Hs, E1; reflexivity). apply could_reach_none.
  - rewrite chain_eqb_refl. cbn [s_power]. apply could_reach_all. exact Hb.
Qed.

(* QUALITY: the entry of v *)
Lemma sup_find_set_same l s : sup_find (sup_set l s) (s_chain s) = Some s.
Proof.
  induction l as [|x l IH]; cbn [sup_set sup_find]; [rewrite chain_eqb_refl; reflexivity|].
  destruct (chain_eqb (s_chain x) (s_chain s)) eqn:E; cbn [sup_find]; [rewrite chain_eqb_refl; reflexivity|rewrite E; exact IH].
Qed.
Lemma sup_find_set_other l s k : s_chain s <> k -> sup_find (sup_set l s) k = sup_find l k.
Proof.
  intros Hne. assert (Hf : chain_eqb (s_chain s) k = false).
  { destruct (chain_eqb (s_chain s) k) eqn:E; [apply chain_eqb_eq in E; contradiction|reflexivity]. }
  induction l as [|x l IH]; cbn [sup_set sup_find]; [rewrite Hf; reflexivity|].
  destruct (chain_eqb (s_chain x) (s_chain s)) eqn:E; cbn [sup_find].
  - apply chain_eqb_eq in E. rewrite E, Hf. reflexivity.
  - destruct (chain_eqb (s_chain x) k); [reflexivity|exact IH].
Qed.
Lemma inner_other q s p pw : p <> v ->
  let q' := q_receive_inner c q s p pw in
  q_senders q' = q_senders q /\ q_spower q' = q_spower q /\ sup_find (q_support q') v = sup_find (q_support q) v.
Proof.
  intros Hne. unfold q_receive_inner. cbn [q_senders q_spower q_support]. repeat split.
  apply sup_find_set_other. cbn [s_chain]. exact Hne.
Qed.
Lemma all_prefixes_last : exists ps, all_prefixes v = ps ++ [v] /\ forall p, In p ps -> p <> v.
Proof.
  rewrite all_prefixes_map. set (n := length v) in *.
  assert (Hn : (n - 1 = S (n - 2))%nat) by lia. rewrite Hn, seq_S, map_app. cbn [map].
  exists (map (fun k => firstn (S k) v) (seq 1 (n - 2))). split.
  - f_equal. f_equal. replace (S (1 + (n - 2))) with n by lia. apply firstn_all.
  - intros p Hp Ep. apply in_map_iff in Hp. destruct Hp as (k & <- & Hk). apply in_seq in Hk.
    assert (L : length (firstn (S k) v) = S k) by (apply firstn_length_le; lia). rewrite Ep in L. lia.
Qed.
Lemma uniQ_receive q s : uniQ q -> uniQ (q_receive_prefixes c q s v).
Proof.
  intros (Hn & Hs & Hc). unfold q_receive_prefixes. destruct (memZ s (q_senders q)) eqn:Em; [split; [exact Hn|split; [exact Hs|exact Hc]]|].
  assert (Hni : ~ In s (q_senders q)) by (intros H; apply memZ_In in H; congruence).
  destruct all_prefixes_last as (ps & -> & Hps). rewrite fold_left_app. cbn [fold_left].
  set (q0 := mkQ (q_senders q ++ [s]) (q_spower q + power_of c s) (q_support q) (q_just q)).
  assert (Hfold : forall l q1, (forall p, In p l -> p <> v) ->
            let q2 := fold_left (fun q p => q_receive_inner c q s p (power_of c s)) l q1 in
            q_senders q2 = q_senders q1 /\ q_spower q2 = q_spower q1 /\ sup_find (q_support q2) v = sup_find (q_support q1) v).
  { induction l as [|p l IH]; intros q1 Hl; cbn [fold_left]; [repeat split|].
    destruct (inner_other q1 s p (power_of c s) (Hl p (or_introl eq_refl))) as (A & B & C).
    destruct (IH (q_receive_inner c q1 s p (power_of c s)) (fun p' Hp' => Hl p' (or_intror Hp'))) as (A' & B' & C').
    cbv zeta in *. rewrite A', B', C'. repeat split; assumption. }
  destruct (Hfold ps q0 Hps) as (A & B & C). cbv zeta in A, B, C.
  set (q2 := fold_left (fun q p => q_receive_inner c q s p (power_of c s)) ps q0) in *.
  unfold q_receive_inner, uniQ. cbn [q_senders q_spower q_support]. rewrite A, B. unfold q0. cbn [q_senders q_spower].
  split; [apply NoDup_snoc; assumption|]. split; [rewrite sum_power_snoc, Hs; reflexivity|].
  right. split; [intros H; destruct (q_senders q); discriminate H|].
  rewrite C. unfold q0. cbn [q_support].
  destruct Hc as [(E1 & E2)|(_ & sg & E2)]; rewrite E2.
  - assert (Hsp : q_spower q = 0) by (rewrite Hs, E1; reflexivity). cbn [s_power s_signers].
    match goal with |- exists sg0, sup_find (sup_set ?l ?x) v = _ => pose proof (sup_find_set_same l x) as F; cbn [s_chain] in F; rewrite F end.
    eexists. rewrite Hsp, !Z.add_0_l. reflexivity.
  - cbn [s_power s_signers].
    match goal with |- exists sg0, sup_find (sup_set ?l ?x) v = _ => pose proof (sup_find_set_same l x) as F; cbn [s_chain] in F; rewrite F end.
    eexists. reflexivity.
Qed.
Lemma uniQ_has_sq q : uniQ q -> q_has_sq q v = strong (q_spower q).
Proof.
  intros (Hn & Hs & [(E1 & E2)|(_ & sg & E2)]); unfold q_has_sq; rewrite E2.
  - rewrite Hs, E1. cbn. symmetry. apply strong0.
  - reflexivity.
Qed.

(* ---------- the happy shape of an instance ---------- *)
Definition vphase (p : phase) : Prop := p = QUALITY \/ p = PREPARE \/ p = COMMIT \/ p = DECIDE \/ p = TERMINATED.
Definition out_v (o : out) : Prop :=
  match o with
  | OBroadcast r p x _ _ => r = 0 /\ x = v /\ (p = QUALITY \/ p = PREPARE \/ p = COMMIT \/ p = DECIDE)
  | _ => True
  end.
Record shape (i : inst) : Prop := {
  sh_input : i_input i = v; sh_prop : i_proposal i = v; sh_round : i_round i = 0;
  sh_rounds : exists prep comm, i_rounds i = [(0, mkR c_empty prep comm)] /\ uni prep /\ uni comm;
  sh_qual : uniQ (i_quality i); sh_dec : uni (i_decision i);
  sh_val : i_value i = v \/ (i_value i = [] /\ i_phase i = QUALITY);
  sh_phase : vphase (i_phase i);
  sh_term : forall j, i_term i = Some j -> j_value j = v;
  sh_out : Forall out_v (i_out i) }.

Definition core (i : inst) := (i_input i, i_proposal i, i_round i, i_rounds i, i_quality i, i_decision i, i_value i, i_phase i, i_term i).
Lemma shape_core i i' : core i' = core i -> Forall out_v (i_out i') -> shape i -> shape i'.
Proof.
  unfold core. intros E Ho [A B C D F G H I J K]. injection E as E1 E2 E3 E4 E5 E6 E7 E8 E9.
  constructor.
  - rewrite E1. exact A.
  - rewrite E2. exact B.
  - rewrite E3. exact C.
  - rewrite E4. exact D.
  - rewrite E5. exact F.
  - rewrite E6. exact G.
  - rewrite E7, E8. exact H.
  - rewrite E8. exact I.
  - rewrite E9. exact J.
  - exact Ho.
Qed.
Definition timely (i : inst) : Prop := i_now i < i_ptimeout i.
Lemma timely_not_elapsed i : timely i -> phase_timeout_elapsed i = false.
Proof. unfold timely, phase_timeout_elapsed. intros H. apply Z.leb_gt. exact H. Qed.
Lemma no_rebroadcast i : timely i -> i_round i = 0 -> should_rebroadcast c i = false.
Proof. intros Ht Hr. unfold should_rebroadcast. rewrite (timely_not_elapsed i Ht), Hr. cbn [orb]. apply Z.ltb_ge. exact Hrr. Qed.

Lemma shape_try_rebroadcast i : shape i -> shape (try_rebroadcast c i).
Proof.
  intros S. pose proof (sh_out i S) as Ho. unfold try_rebroadcast.
  destruct (i_rtimeout i) as [rt|].
  - destruct (rt <=? i_now i); [|exact S]. unfold do_rebroadcast.
    destruct (i_phase i); cbn [i_round emit set_timers i_now i_rattempts i_ptimeout];
      repeat match goal with |- context [if ?b then _ else _] => destruct b end;
      (apply (shape_core i); [reflexivity| |exact S]); cbn [i_out emit set_timers]; repeat (constructor; [exact I|]); exact Ho.
  - destruct (i_rattempts i =? 0); [|exact S].
    repeat match goal with |- context [if ?b then _ else _] => destruct b end;
      (apply (shape_core i); [reflexivity| |exact S]); cbn [i_out emit set_timers reset_rebroadcast]; repeat (constructor; [exact I|]); exact Ho.
Qed.
End Happy.
