(* gpbft.messageQueue (participant.go): messages that arrive for an instance that has not started yet are queued per
   instance and sender; Add drops unjustified messages of rounds beyond the look-ahead limit and duplicates /
   equivocations (same sender, round and step: the first one wins); Drain removes and returns everything queued for an
   instance ordered by (round, step) -- a stable sort, ties in an unspecified order (Go map iteration over senders).
   beginNextInstance drops the queues of earlier instances.  C06 ("messages that arrived before the participant started
   are delivered when it starts") and C07 rest on it.  Messages are abstract: (instance, sender, round, step code,
   carries-a-justification, tag); the tag identifies the concrete message in the correspondence. *)
From Coq Require Import ZArith List Bool Lia Permutation Sorting.Sorted.
Import ListNotations.
Open Scope Z_scope.

Record qmsg := mkQM { qm_inst : Z; qm_sender : Z; qm_round : Z; qm_phase : Z; qm_just : bool; qm_tag : Z }.
(* isSpammable: no justification and round > 0 *)
Definition spammable (m : qmsg) : bool := negb (qm_just m) && (0 <? qm_round m).
Definition same_slot (a b : qmsg) : bool :=
  (qm_inst a =? qm_inst b) && (qm_sender a =? qm_sender b) && (qm_round a =? qm_round b) && (qm_phase a =? qm_phase b).

(* the queue: every message kept so far, in arrival order *)
Definition queue := list qmsg.
Definition q_add (max_round : Z) (q : queue) (m : qmsg) : queue :=
  if (max_round <? qm_round m) && spammable m then q
  else if existsb (same_slot m) q then q
  else q ++ [m].

Definition key_le (a b : qmsg) : bool := (qm_round a <? qm_round b) || ((qm_round a =? qm_round b) && (qm_phase a <=? qm_phase b)).
Fixpoint insert_by (m : qmsg) (l : list qmsg) : list qmsg :=
  match l with [] => [m] | x :: r => if key_le m x then m :: l else x :: insert_by m r end.
Definition sort_msgs (l : list qmsg) : list qmsg := fold_right insert_by [] l.
(* Drain: (messages returned in one admissible order, remaining queue) *)
Definition q_drain (q : queue) (inst : Z) : list qmsg * queue :=
  (sort_msgs (filter (fun m => qm_inst m =? inst) q), filter (fun m => negb (qm_inst m =? inst)) q).
(* beginNextInstance *)
Definition q_prune (q : queue) (next : Z) : queue := filter (fun m => next <=? qm_inst m) q.

Definition q_run (max_round : Z) (ms : list qmsg) : queue := fold_left (q_add max_round) ms [].

(* what the harness asks: the real Drain returned, up to the order of ties, what the model returns *)
Fixpoint tags_sorted_eq (a b : list Z) : bool :=
  match a, b with [] , [] => true | x :: a', y :: b' => (x =? y) && tags_sorted_eq a' b' | _, _ => false end.
Fixpoint insertZ (x : Z) (l : list Z) : list Z := match l with [] => [x] | y :: r => if x <=? y then x :: l else y :: insertZ x r end.
Definition sortZ (l : list Z) : list Z := fold_right insertZ [] l.
Fixpoint keys_ordered (l : list qmsg) : bool :=
  match l with a :: ((b :: _) as r) => key_le a b && keys_ordered r | _ => true end.
(* observed: the tags the real Drain returned, in order; model: same multiset, and the observed order is sorted by (round, step) *)
Definition drain_ok (max_round : Z) (added : list qmsg) (pruned_below : Z) (inst : Z) (observed : list Z) : bool :=
  let q := q_prune (q_run max_round added) pruned_below in
  let expect := fst (q_drain q inst) in
  tags_sorted_eq (sortZ (map qm_tag expect)) (sortZ observed) &&
  keys_ordered (map (fun t => match find (fun m => qm_tag m =? t) expect with Some m => m | None => mkQM 0 0 0 0 false t end) observed).
