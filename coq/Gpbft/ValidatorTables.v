(* C05 / C13: the justification-expectation tables of gpbft/validator.go are REGENERATED from the source on every run
   (Gen/ValidatorTablesGen.v, by the table extractor of go2coq); here the hand-written validator model is proved to
   consult exactly those tables -- so a changed table entry (another justification phase admitted, another round or
   value demanded) breaks these theorems instead of silently diverging from the model the C05/C13 theorems are about. *)
From Coq Require Import ZArith List Bool Lia.
From F3 Require Import GoInt QuorumGen ProgressGen Validator ValidatorTablesGen.
Import ListNotations.
Open Scope Z_scope.

Fixpoint lookup1 {A} (t : list (Z * A)) (k : Z) : option A :=
  match t with [] => None | (k', x) :: r => if k =? k' then Some x else lookup1 r k end.
Definition lookup2 {A} (t : list (Z * list (Z * A))) (mp jp : Z) : option A :=
  match lookup1 t mp with Some row => lookup1 row jp | None => None end.

(* what validateJustification does with its table: round rule 0 = previous round, 1 = same round, 2 = any round
   (math.MaxUint64); key rule 0 = the zero key, 1 = the message's value key *)
Definition expectation_gen (mphase mround jphase msgkey : Z) : option (option Z * Z) :=
  match lookup2 full_expectations mphase jphase with
  | None => None
  | Some (rr, kr) =>
      Some (if rr =? 0 then Some (sub_u64 mround 1) else if rr =? 1 then Some mround else None,
            if kr =? 0 then 0 else msgkey)
  end.

Ltac phase_cases x :=
  let H := fresh "H" in
  assert (H : x = 2 \/ x = 3 \/ x = 4 \/ x = 5 \/ (x <> 2 /\ x <> 3 /\ x <> 4 /\ x <> 5)) by lia;
  destruct H as [->|[->|[->|[->|(?&?&?&?)]]]].
Ltac neq_to_eqb :=
  repeat match goal with H : ?a <> ?b |- _ => apply Z.eqb_neq in H end.

Theorem expectation_is_the_generated_table : forall mp mr jp key, expectation mp mr jp key = expectation_gen mp mr jp key.
Proof.
  intros mp mr jp key. unfold expectation, expectation_gen, lookup2, full_expectations.
  phase_cases mp; phase_cases jp; neq_to_eqb; cbn [lookup1 Z.eqb Pos.eqb orb];
    repeat match goal with H : (_ =? _) = false |- _ => rewrite H end; reflexivity.
Qed.

(* FullyValidateMessage's abbreviated table: value rule 0 = bottom, 1 = the message's value *)
Definition abbrev_value (v : vote) (rule : Z) : chainv := if rule =? 0 then zero_chain else v_value v.
Definition fully_validate_gen (p : progress) (lookback : Z) (m : gmsg) (k : Z) : verdict :=
  let v := g_vote m in
  if negb (cvalid (v_value v)) then VInvalid else
  if negb (k =? ck (v_value v)) then VInvalid else
  match by_progress p lookback m with
  | Some e => e
  | None =>
      let zero_bad := (k =? 0) && (negb (ch_is_zero (v_value v)) ||
                                   match g_just m with Some j => negb (ch_is_zero (v_value (j_vote j))) | None => false end) in
      if zero_bad then VInvalid else
      match g_just m with
      | None => VOk
      | Some j =>
          match lookup2 abbrev_expectations (v_phase v) (v_phase (j_vote j)) with
          | None => VInvalid
          | Some rule => if ck (v_value (j_vote j)) =? ck (abbrev_value v rule) then VOk else VInvalid
          end
      end
  end.

Theorem fully_validate_is_the_generated_table : forall p lb m k, fully_validate p lb m k = fully_validate_gen p lb m k.
Proof.
  intros p lb m k. unfold fully_validate, fully_validate_gen. cbv zeta.
  destruct (negb (cvalid (v_value (g_vote m)))); [reflexivity|].
  destruct (negb (k =? ck (v_value (g_vote m)))); [reflexivity|].
  destruct (by_progress p lb m); [reflexivity|].
  match goal with |- (if ?b then _ else _) = _ => destruct b end; [reflexivity|].
  destruct (g_just m) as [j|]; [|reflexivity].
  unfold lookup2, abbrev_expectations, abbrev_value.
  set (mp := v_phase (g_vote m)). set (jp := v_phase (j_vote j)).
  phase_cases mp; phase_cases jp; neq_to_eqb; cbn [lookup1 Z.eqb Pos.eqb orb];
    repeat match goal with H : (_ =? _) = false |- _ => rewrite H end; reflexivity.
Qed.
