(* The happy path on one instance, continued: every function of the instance model keeps the happy shape when the phase
   timer has not expired and only round-0 votes for v arrive. *)
From Coq Require Import ZArith List Bool Lia.
From F3 Require Import GoInt QuorumGen QuorumProofs Instance InstanceRun InstanceOrder InstanceVotes InstanceDecide InstanceQuorum InstanceNoPanic HappyPath HappyInst.
Import ListNotations.
Open Scope Z_scope.

Section Happy.
Variable c : config.
Variable v : chain.
Hypothesis Hv : (2 <= length v)%nat.
Hypothesis Hcw : committee_wf c.
Hypothesis Hrr : 0 <= c_rebro_round c.

Local Notation uni := (uni c v).
Local Notation uniQ := (uniQ c v).
Local Notation shape := (shape c v).
Local Notation out_v := (out_v v).
Local Notation strong p := (isStrongQuorum p (c_total c)).

Ltac proj := cbn [i_input i_proposal i_value i_cands i_quality i_rounds i_decision i_round i_phase i_ptimeout i_rtimeout i_rattempts
                  i_term i_now i_out i_err emit fail set_round_state set_pv set_cands set_quality set_decision set_progress set_timers
                  set_term set_now reset_rebroadcast alarm_after broadcast].

Ltac proj_in H := cbn [i_input i_proposal i_value i_cands i_quality i_rounds i_decision i_round i_phase i_ptimeout i_rtimeout i_rattempts
                  i_term i_now i_out i_err emit fail set_round_state set_pv set_cands set_quality set_decision set_progress set_timers
                  set_term set_now reset_rebroadcast alarm_after broadcast] in H.

Lemma vnn : v <> []. Proof. exact (v_nonnil v Hv). Qed.

(* begin_prepare / begin_commit / begin_decide / skip_to_decide / terminate from a happy state with value v *)
Lemma shape_begin_prepare i j : shape i -> i_value i = v -> shape (begin_prepare c i j).
Proof.
  intros [A B C D F G H I J K] Hval. unfold begin_prepare. constructor; proj; try assumption.
  - left. exact Hval.
  - right. left. reflexivity.
  - constructor; [cbn; rewrite C, Hval; repeat split; right; left; reflexivity|]. constructor; [exact Logic.I|exact K].
Qed.

Lemma shape_begin_commit i : shape i -> i_value i = v -> i_err (begin_commit c i) = None -> shape (begin_commit c i).
Proof.
  intros S Hval He. destruct S as [A B C D F G H I J K]. unfold begin_commit in *. proj. proj_in He. rewrite Hval in *.
  destruct (v_cons v Hv) as (x & w & Ev).
  assert (Hb : forall jj, shape (broadcast (reset_rebroadcast (alarm_after c (set_progress i (i_round i) COMMIT) false)) (i_round i) COMMIT v false jj)).
  { intros jj. constructor; proj; try assumption.
    - left. exact Hval.
    - right. right. left. reflexivity.
    - constructor; [cbn; rewrite C; repeat split; right; right; left; reflexivity|]. constructor; [exact Logic.I|exact K]. }
  rewrite Ev in *. rewrite <- Ev in *.
  repeat match goal with
         | |- shape (match ?x with _ => _ end) => destruct x
         end; try apply Hb; proj_in He; try discriminate He;
  repeat match type of He with context [match ?x with _ => _ end] => destruct x end; try discriminate He.
Qed.

Lemma shape_begin_decide i : shape i -> i_value i = v -> i_err (begin_decide c i 0) = None -> shape (begin_decide c i 0).
Proof.
  intros S Hval He. destruct S as [A B C D F G H I J K]. unfold begin_decide in *. proj. proj_in He. rewrite Hval in *.
  destruct (q_find_sq_for c _ v); proj_in He; try (destruct (i_err i); discriminate He).
  constructor; proj; try assumption.
  - left. exact Hval.
  - right. right. right. left. reflexivity.
  - constructor; [cbn; repeat split; try exact Hval; right; right; right; reflexivity|exact K].
Qed.

Lemma shape_skip_to_decide i j : shape i -> shape (skip_to_decide i v j).
Proof.
  intros [A B C D F G H I J K]. unfold skip_to_decide. constructor; proj; try assumption; try reflexivity.
  - left. reflexivity.
  - right. right. right. left. reflexivity.
  - constructor; [cbn; repeat split; right; right; right; reflexivity|exact K].
Qed.

Lemma shape_try_quality i : shape i -> i_phase i = QUALITY -> timely i -> shape (try_quality c i).
Proof.
  intros S Hp Ht. unfold try_quality. rewrite (timely_not_elapsed i Ht), (sh_prop c v i S), orb_false_r.
  destruct (q_has_sq (i_quality i) v) eqn:Eq; [|exact S].
  rewrite (sh_input c v i S), (longest_prefix_full c (Hpow c Hcw) (Hsum c Hcw) _ _ vnn Eq). rewrite add_candidate_prefixes_cands.
  apply shape_begin_prepare; [|reflexivity].
  destruct S as [A B C D F G H I J K]. constructor; proj; try assumption; try reflexivity; try (left; reflexivity); try (left; exact Hp).
Qed.

Lemma shape_set_vv i : shape i -> shape (set_pv i v v).
Proof.
  intros [A B C D F G H I J K]. constructor; proj; try assumption; try reflexivity. left. reflexivity.
Qed.
Lemma fail_err i e : i_err (fail i e) <> None.
Proof. unfold fail. proj. destruct (i_err i); discriminate. Qed.

Lemma shape_try_prepare i : shape i -> timely i -> i_err (try_prepare c i) = None -> shape (try_prepare c i).
Proof.
  intros S Ht He. pose proof (sh_prop c v i S) as Hp. pose proof (sh_round c v i S) as Hr.
  destruct (sh_rounds c v i S) as (prep & comm & Er & Up & Uc).
  unfold try_prepare in *. cbv zeta in *. unfold get_round in *. rewrite Hp, Hr, Er in *. cbn [rget Z.eqb r_prep r_comm r_conv] in *.
  rewrite (uni_could_reach c v Hv Hcw prep Up), (timely_not_elapsed i Ht) in *. cbn [negb andb orb] in *.
  rewrite !orb_false_r in *.
  match goal with |- shape (if ?b then _ else _) => destruct b eqn:Eb end.
  - apply shape_begin_commit; [apply shape_set_vv; exact S|reflexivity|exact He].
  - rewrite (no_rebroadcast c Hrr i Ht Hr). exact S.
Qed.

Lemma shape_try_commit i sway : shape i -> timely i -> i_err (try_commit c i 0 sway) = None -> shape (try_commit c i 0 sway).
Proof.
  intros S Ht He. pose proof (sh_prop c v i S) as Hp. pose proof (sh_round c v i S) as Hr.
  destruct (sh_rounds c v i S) as (prep & comm & Er & Up & Uc). destruct (v_cons v Hv) as (x & w & Ev).
  unfold try_commit in *. unfold get_round in *. rewrite Er in *. cbn [rget Z.eqb Z.add Pos.eqb r_prep r_comm r_conv r_empty] in *.
  rewrite (uni_find_sq_value c v Hv Hcw comm Uc) in *. rewrite (timely_not_elapsed i Ht) in *.
  destruct (strong (q_spower comm)).
  - rewrite Ev in *. rewrite <- Ev in *. rewrite Hp in *. apply shape_begin_decide; [apply shape_set_vv; exact S|reflexivity|exact He].
  - cbn [andb orb] in *. change (q_has_just q_empty COMMIT [] || c_has_just c_empty COMMIT []) with false in *. cbn [orb] in *.
    destruct (negb (i_round i =? 0) || negb (phase_eqb (i_phase i) COMMIT)); [exact S|].
    rewrite (no_rebroadcast c Hrr i Ht Hr). exact S.
Qed.

Lemma shape_try_decide i : shape i -> i_err (try_decide c i) = None -> shape (try_decide c i).
Proof.
  intros S He. unfold try_decide in *. rewrite (uni_find_sq_value c v Hv Hcw _ (sh_dec c v i S)) in *.
  destruct (strong (q_spower (i_decision i))); [|apply shape_try_rebroadcast; exact S].
  destruct (q_find_sq_for c (i_decision i) v) as [| |sg]; try (exfalso; exact (fail_err _ _ He)).
  destruct S as [A B C D F G H I J K]. unfold terminate, build_just. constructor; proj; try assumption; try reflexivity.
  - left. reflexivity.
  - right. right. right. right. reflexivity.
  - intros j Ej. injection Ej as <-. reflexivity.
Qed.

Lemma shape_try_current_phase i sway : shape i -> timely i \/ i_phase i = DECIDE \/ i_phase i = TERMINATED ->
  i_err (try_current_phase c i sway) = None -> shape (try_current_phase c i sway).
Proof.
  intros S Ht He. unfold try_current_phase in *. pose proof (sh_phase c v i S) as Hph. pose proof (sh_round c v i S) as Hr.
  destruct (i_phase i) eqn:Ep.
  - exfalso. exact (fail_err _ _ He).
  - destruct Ht as [Ht|[Ht|Ht]]; try discriminate Ht. apply shape_try_quality; assumption.
  - destruct Hph as [Hph|[Hph|[Hph|[Hph|Hph]]]]; discriminate Hph.
  - destruct Ht as [Ht|[Ht|Ht]]; try discriminate Ht. apply shape_try_prepare; assumption.
  - destruct Ht as [Ht|[Ht|Ht]]; try discriminate Ht. rewrite Hr in *. apply shape_try_commit; assumption.
  - apply shape_try_decide; assumption.
  - exact S.
Qed.

Lemma try_commit_cases i sway : shape i -> timely i -> try_commit c i 0 sway = i \/ i_phase (try_commit c i 0 sway) = DECIDE \/ i_err (try_commit c i 0 sway) <> None.
Proof.
  intros S Ht. pose proof (sh_prop c v i S) as Hp. pose proof (sh_round c v i S) as Hr.
  destruct (sh_rounds c v i S) as (prep & comm & Er & Up & Uc). destruct (v_cons v Hv) as (x & w & Ev).
  unfold try_commit. unfold get_round. rewrite Er. cbn [rget Z.eqb Z.add Pos.eqb r_prep r_comm r_conv r_empty].
  rewrite (uni_find_sq_value c v Hv Hcw comm Uc). rewrite (timely_not_elapsed i Ht).
  destruct (strong (q_spower comm)).
  - rewrite Ev. rewrite <- Ev. right. unfold begin_decide. proj.
    destruct (q_find_sq_for c _ _); [right; apply fail_err|right; apply fail_err|left; reflexivity].
  - cbn [andb orb]. change (q_has_just q_empty COMMIT [] || c_has_just c_empty COMMIT []) with false. cbn [orb].
    destruct (negb (i_round i =? 0) || negb (phase_eqb (i_phase i) COMMIT)); [left; reflexivity|].
    rewrite (no_rebroadcast c Hrr i Ht Hr). left. reflexivity.
Qed.

Definition okt (i : inst) : Prop := timely i \/ i_phase i = DECIDE \/ i_phase i = TERMINATED.
Lemma okt_view i i' : i_now i' = i_now i -> i_ptimeout i' = i_ptimeout i -> i_phase i' = i_phase i -> okt i -> okt i'.
Proof. unfold okt, timely. intros -> -> ->. exact (fun H => H). Qed.

Lemma shape_rounds_upd i prep' comm' : shape i -> uni prep' -> uni comm' -> shape (set_round_state i 0 (mkR c_empty prep' comm')).
Proof.
  intros [A B C D F G H I J K] Up Uc. destruct D as (p0 & c0 & Er & _ & _). constructor; proj; try assumption.
  rewrite Er. cbn [rset Z.eqb]. exists prep', comm'. split; [reflexivity|split; assumption].
Qed.

Lemma shape_receive_one i m sway : shape i -> okt i -> m_round m = 0 -> m_value m = v ->
  (m_phase m = QUALITY \/ m_phase m = PREPARE \/ m_phase m = COMMIT \/ m_phase m = DECIDE) ->
  i_err (fst (receive_one c i m sway)) = None -> shape (fst (receive_one c i m sway)).
Proof.
  intros S Hk Hmr Hmv Hmp He. pose proof (sh_round c v i S) as Hr.
  destruct (sh_rounds c v i S) as (prep & comm & Er & Up & Uc).
  unfold receive_one in *. destruct (phase_eqb (i_phase i) TERMINATED) eqn:Et; [exact S|].
  rewrite Hmr, Hr, Hmv in *. change (0 <? 0) with false in *. cbn [andb] in *.
  replace (is_spammable m) with false in * by (unfold is_spammable; rewrite Hmr, andb_false_r; reflexivity).
  rewrite andb_false_r in *. unfold get_round in *. rewrite Er in *. cbn [rget Z.eqb r_conv r_prep r_comm] in *.
  destruct Hmp as [Hmp|[Hmp|[Hmp|Hmp]]]; rewrite Hmp in *.
  - (* QUALITY *)
    set (i1 := set_round_state (set_quality i (q_receive_prefixes c (i_quality i) (m_sender m) v)) 0 (mkR c_empty prep comm)) in *.
    assert (S1 : shape i1).
    { unfold i1. apply shape_rounds_upd; try assumption. destruct S as [A B C D F G H I J K]. constructor; proj; try assumption.
      apply uniQ_receive; assumption. }
    assert (K1 : okt i1) by (apply (okt_view i); try reflexivity; exact Hk).
    destruct (negb (phase_eqb (i_phase i1) QUALITY)); cbn [fst] in *.
    + unfold update_candidates_from_quality. rewrite add_candidate_prefixes_cands.
      destruct S1 as [A B C D F G H I J K]. constructor; proj; assumption.
    + apply shape_try_current_phase; assumption.
  - (* PREPARE *)
    cbn [fst] in *.
    match goal with |- shape (try_current_phase c ?x sway) => set (i1 := x) in * end.
    assert (S1 : shape i1).
    { unfold i1. apply shape_rounds_upd; try assumption. destruct (m_just m); [apply uni_receive_just|]; apply uni_receive; assumption. }
    apply shape_try_current_phase; try assumption; try (apply (okt_view i); try reflexivity; exact Hk).
  - (* COMMIT *)
    match type of He with context [set_round_state i 0 ?x] => set (i1 := set_round_state i 0 x) in * end.
    assert (S1 : shape i1).
    { assert (Hq : forall u : chain, u <> [] -> uni (match u, m_just m with
                                               | _ :: _, Some j => q_receive_just (q_receive c comm (m_sender m) v) v j
                                               | _, _ => q_receive c comm (m_sender m) v end)).
      { intros [|x w] Hu; [contradiction|]. destruct (m_just m); [apply uni_receive_just|]; apply uni_receive; assumption. }
      unfold i1. apply shape_rounds_upd; try assumption. exact (Hq v vnn). }
    assert (K1 : okt i1) by (apply (okt_view i); try reflexivity; exact Hk).
    destruct (negb (phase_eqb (i_phase i1) DECIDE)) eqn:Ed.
    + assert (T1 : timely i1).
      { destruct K1 as [T|[T|T]]; [exact T| |]; rewrite T in Ed; try discriminate Ed.
        change (i_phase i1) with (i_phase i) in T. rewrite T in Et. discriminate Et. }
      set (i2 := try_commit c i1 0 sway) in *.
      match type of He with context [if ?b then _ else _] => destruct b eqn:Ea end; cbn [fst] in *.
      * assert (E2 : i_err i2 = None).
        { destruct (i_err i2); [cbn in Ea; discriminate Ea|reflexivity]. }
        assert (S2 : shape i2) by (apply shape_try_commit; assumption).
        apply shape_try_current_phase; try assumption.
        destruct (try_commit_cases i1 sway S1 T1) as [Eq|[Eq|Eq]]; fold i2 in Eq.
        -- rewrite Eq. left. exact T1.
        -- right. left. exact Eq.
        -- contradiction.
      * apply shape_try_commit; assumption.
    + cbn [fst] in *. apply shape_try_current_phase; assumption.
  - (* DECIDE *)
    cbn [fst] in *.
    match goal with |- shape (try_current_phase c ?x sway) => set (i2 := x) in * end.
    assert (S1 : shape (set_round_state (set_decision i (q_receive c (i_decision i) (m_sender m) v)) 0 (mkR c_empty prep comm))).
    { apply shape_rounds_upd; try assumption. destruct S as [A B C D F G H I J K]. constructor; proj; try assumption.
      apply uni_receive; assumption. }
    assert (S2 : shape i2).
    { unfold i2. destruct (negb (phase_eqb (i_phase _) DECIDE)); [apply shape_skip_to_decide|]; exact S1. }
    apply shape_try_current_phase; try assumption.
    unfold i2. destruct (negb (phase_eqb (i_phase _) DECIDE)) eqn:Ed.
    + right. left. reflexivity.
    + right. left. apply negb_false_iff in Ed. unfold phase_eqb in Ed. apply Z.eqb_eq in Ed.
      match type of Ed with phase_code ?p = _ => destruct p; cbn in Ed; try discriminate Ed; reflexivity end.
Qed.

Lemma shape_set_now i now : shape i -> shape (set_now i now).
Proof. intros S. apply (shape_core c v i); [reflexivity|exact (sh_out c v i S)|exact S]. Qed.
Lemma shape_clear_out i : shape i -> shape (clear_out i).
Proof. intros S. apply (shape_core c v i); [reflexivity|constructor|exact S]. Qed.

(* the message: a round-0 vote for v *)
Definition vmsg (m : msg) : Prop :=
  m_round m = 0 /\ m_value m = v /\ (m_phase m = QUALITY \/ m_phase m = PREPARE \/ m_phase m = COMMIT \/ m_phase m = DECIDE).

Theorem shape_deliver i now m sway : shape i -> okt (set_now i now) -> vmsg m ->
  i_err (step c i (EvDeliver now m sway)) = None -> shape (step c i (EvDeliver now m sway)).
Proof.
  intros S Hk (Hr & Hval & Hp) He. cbn [step] in *.
  pose proof (shape_receive_one (set_now i now) m sway (shape_set_now i now S) Hk Hr Hval Hp) as R.
  destruct (receive_one c (set_now i now) m sway) as [i1 changed]. cbn [fst] in R.
  destruct (changed && match i_err i1 with None => true | Some _ => false end) eqn:Ec.
  - assert (E1 : i_err i1 = None) by (destruct (i_err i1); [rewrite andb_false_r in Ec; discriminate Ec|reflexivity]).
    specialize (R E1). unfold post_receive in *. rewrite Hr in *. rewrite (sh_round c v i1 R) in *. cbn [Z.leb orb] in *. exact R.
  - exact (R He).
Qed.

Theorem shape_start now : shape (step c (new_instance v 0) (EvStart now)).
Proof.
  cbn [step]. unfold begin_quality, new_instance. proj. cbn [phase_eqb phase_code Z.eqb negb].
  constructor; proj; try reflexivity.
  - exists q_empty, q_empty. split; [reflexivity|split; apply uni_empty; assumption].
  - apply uniQ_empty; assumption.
  - apply uni_empty; assumption.
  - right. split; reflexivity.
  - left. reflexivity.
  - intros j Ej. discriminate Ej.
  - constructor; [cbn; repeat split; left; reflexivity|]. constructor; [exact I|constructor].
Qed.
End Happy.
