(* Layer N, protocol discipline III (C07): tryConverge never fails with "no values at CONVERGE".
   Invariant (while no internal error has occurred): once QUALITY has been settled the participant's own proposal is a
   candidate, and while it is in CONVERGE its own CONVERGE value sits in the converge state of the current round.  It
   holds in every state reachable by deliveries and timers; it is exactly what skipToRound entered from QUALITY used
   to break (repaired). *)
From Coq Require Import ZArith List Bool Lia.
From F3 Require Import GoInt QuorumGen Instance InstanceOrder InstanceVotes.
Import ListNotations.
Open Scope Z_scope.

Section Cfg.
Variable c : config.

Definition conv_has (i : inst) (v : chain) : Prop :=
  cv_find (cs_values (r_conv (get_round i (i_round i)))) v <> None.
Definition PI (i : inst) : Prop :=
  In (firstn 1 (i_input i)) (i_cands i) /\
  (2 <= phase_code (i_phase i) <= 4 -> In (i_proposal i) (i_cands i)) /\
  (i_phase i = CONVERGE -> conv_has i (i_proposal i)) /\
  i_phase i <> INITIAL.
(* the invariant is only claimed while no internal error was recorded *)
Definition PInv (i : inst) : Prop := i_err i = None -> PI i.
(* the error this file is about never appears *)
Definition NCV (i : inst) : Prop := i_err i <> Some ENoConvergeValue.

Definition pview (i : inst) := (i_phase i, i_round i, i_proposal i, i_cands i, i_rounds i, i_input i).
Lemma PI_view i i' : pview i' = pview i -> PI i -> PI i'.
Proof.
  unfold pview, PI, conv_has, get_round. intros E. injection E as E1 E2 E3 E4 E5 E6.
  rewrite E1, E2, E3, E4, E5, E6. exact (fun H => H).
Qed.

Lemma pview_do_rebroadcast i : pview (do_rebroadcast i) = pview i.
Proof. unfold do_rebroadcast. destruct (i_phase i); try reflexivity; destruct (0 <? _); reflexivity. Qed.
Lemma err_do_rebroadcast i : i_err (do_rebroadcast i) = i_err i.
Proof. unfold do_rebroadcast. destruct (i_phase i); try reflexivity; destruct (0 <? _); reflexivity. Qed.
Lemma pview_try_rebroadcast i : pview (try_rebroadcast c i) = pview i.
Proof.
  unfold try_rebroadcast. destruct (i_rtimeout i) as [rt|].
  - destruct (rt <=? i_now i); [|reflexivity].
    repeat match goal with |- context [if ?b then _ else _] => destruct b end; cbn; apply pview_do_rebroadcast.
  - destruct (i_rattempts i =? 0); [|reflexivity].
    repeat match goal with |- context [if ?b then _ else _] => destruct b end; reflexivity.
Qed.
Lemma err_try_rebroadcast i : i_err (try_rebroadcast c i) = i_err i.
Proof.
  unfold try_rebroadcast. destruct (i_rtimeout i) as [rt|].
  - destruct (rt <=? i_now i); [|reflexivity].
    repeat match goal with |- context [if ?b then _ else _] => destruct b end; cbn; apply err_do_rebroadcast.
  - destruct (i_rattempts i =? 0); [|reflexivity].
    repeat match goal with |- context [if ?b then _ else _] => destruct b end; reflexivity.
Qed.

(* recording an error other than the one we track keeps NCV *)
Lemma NCV_fail i e : e <> ENoConvergeValue -> NCV i -> NCV (fail i e).
Proof. unfold NCV. intros He H. cbn. destruct (i_err i) as [e0|]; [exact H|congruence]. Qed.
Lemma err_fail_some i e : i_err (fail i e) <> None.
Proof. cbn. destruct (i_err i); discriminate. Qed.

(* ---- candidates ---- *)
Lemma in_cands_add i v x : In x (i_cands i) -> In x (i_cands (fst (add_candidate i v))).
Proof. unfold add_candidate. destruct (is_candidate i v); cbn; [auto|intros H; apply in_or_app; left; exact H]. Qed.
Lemma in_cands_prefixes i v x : In x (i_cands i) -> In x (i_cands (add_candidate_prefixes i v)).
Proof. intros H. destruct (same_add_candidate_prefixes i v) as (_ & _ & _ & _ & Hc & _). apply Hc. exact H. Qed.
Lemma input_add_candidate i v : i_input (fst (add_candidate i v)) = i_input i.
Proof. unfold add_candidate. destruct (is_candidate i v); reflexivity. Qed.
Lemma input_acp i v : i_input (add_candidate_prefixes i v) = i_input i.
Proof. destruct (same_add_candidate_prefixes i v) as (_ & _ & _ & _ & _ & H & _). exact H. Qed.
Lemma settle_in_cands i : In (firstn 1 (i_input i)) (i_cands i) ->
  let p := q_longest_prefix (i_quality i) (i_input i) in
  In p (i_cands (add_candidate_prefixes (set_pv i p (i_value i)) p)).
Proof.
  intros Hb p. destruct (Nat.le_gt_cases 2 (length p)) as [H2|H2].
  - apply add_candidate_prefixes_In. apply In_all_prefixes. exists (length p). split; [lia|symmetry; apply firstn_all].
  - apply in_cands_prefixes. cbn. unfold p. rewrite longest_prefix_short; [exact Hb|exact H2].
Qed.

(* ---- converge state helpers ---- *)
Lemma cv_find_set_self s v j : cv_find (cs_values (c_set_self s v j)) v <> None.
Proof.
  unfold c_set_self. destruct (cv_find (cs_values s) v) eqn:E; [rewrite E; discriminate|].
  cbn. induction (cs_values s) as [|x l IH]; cbn in *; [rewrite chain_eqb_refl; discriminate|].
  destruct (chain_eqb (cv_chain x) v); [discriminate E|apply IH; exact E].
Qed.
Lemma rget_rset_same l r s : rget (rset l r s) r = s.
Proof.
  induction l as [|[k x] l IH]; cbn; [rewrite Z.eqb_refl; reflexivity|].
  destruct (k =? r) eqn:E; cbn; [rewrite Z.eqb_refl; reflexivity|rewrite E; exact IH].
Qed.
Lemma rget_rset_other l r s r' : r' <> r -> rget (rset l r s) r' = rget l r'.
Proof.
  intros Hne. induction l as [|[k x] l IH]; cbn.
  - destruct (r =? r') eqn:E; [apply Z.eqb_eq in E; congruence|reflexivity].
  - destruct (k =? r) eqn:E; cbn.
    + apply Z.eqb_eq in E. subst k. destruct (r =? r') eqn:E2; [apply Z.eqb_eq in E2; congruence|reflexivity].
    + destruct (k =? r'); [reflexivity|exact IH].
Qed.
Lemma cv_find_set_keeps l w v : cv_find l v <> None -> cv_find (cv_set l w) v <> None.
Proof.
  induction l as [|x l IH]; cbn; [congruence|].
  destruct (chain_eqb (cv_chain x) (cv_chain w)) eqn:E1; cbn.
  - destruct (chain_eqb (cv_chain x) v) eqn:E2.
    + apply chain_eqb_eq in E1. rewrite <- E1, E2. discriminate.
    + destruct (chain_eqb (cv_chain w) v) eqn:E3; [discriminate|auto].
  - destruct (chain_eqb (cv_chain x) v); [discriminate|exact IH].
Qed.
Lemma cv_find_app_keeps l w v : cv_find l v <> None -> cv_find (l ++ [w]) v <> None.
Proof.
  induction l as [|x l IH]; cbn; [congruence|]. destruct (chain_eqb (cv_chain x) v); [discriminate|exact IH].
Qed.
Lemma c_receive_keeps s sender val rank j s' v :
  c_receive s sender val rank j = Some s' -> cv_find (cs_values s) v <> None -> cv_find (cs_values s') v <> None.
Proof.
  unfold c_receive. destruct val as [|x val']; [discriminate|]. destruct j as [jj|]; [|discriminate].
  destruct (memZ sender (cs_senders s)); [intros H; injection H as <-; auto|].
  destruct (cv_find (cs_values s) (x :: val')) as [old|].
  - destruct (rank_lt rank (cv_rank old)); intros H; injection H as <-; cbn; [apply cv_find_set_keeps|auto].
  - intros H; injection H as <-. cbn. apply cv_find_app_keeps.
Qed.

(* ---- the begin* functions ---- *)
Lemma PI_begin_converge i j :
  In (firstn 1 (i_input i)) (i_cands i) -> In (i_proposal i) (i_cands i) ->
  i_err (begin_converge c i j) = None -> PI (begin_converge c i j).
Proof.
  intros Hb Hp. unfold begin_converge. destruct (negb _); [intros H; exfalso; exact (err_fail_some _ _ H)|].
  intros _. unfold PI, conv_has, get_round. cbn. repeat split; auto; try discriminate.
  intros _. rewrite rget_rset_same. cbn. apply cv_find_set_self.
Qed.
Lemma NCV_begin_converge i j : NCV i -> NCV (begin_converge c i j).
Proof. unfold begin_converge. destruct (negb _); [apply NCV_fail; discriminate|exact (fun H => H)]. Qed.

Lemma PI_begin_next_round i :
  PI i -> i_phase i = COMMIT -> i_err (begin_next_round c i) = None -> PI (begin_next_round c i).
Proof.
  intros (Hb & Hp & _ & _) Hph. unfold begin_next_round.
  set (i1 := set_progress i (i_round i + 1) (i_phase i)).
  assert (H1 : In (firstn 1 (i_input i1)) (i_cands i1)) by exact Hb.
  assert (H2 : In (i_proposal i1) (i_cands i1)) by (apply Hp; rewrite Hph; cbn; lia).
  repeat match goal with
         | |- i_err (fail _ _) = None -> _ => intros H; exfalso; exact (err_fail_some _ _ H)
         | |- i_err (begin_converge _ _ _) = None -> _ => apply PI_begin_converge; assumption
         | |- context [match ?x with _ => _ end] => destruct x
         end.
Qed.
Lemma NCV_begin_next_round i : NCV i -> NCV (begin_next_round c i).
Proof.
  intros H. unfold begin_next_round.
  repeat match goal with
         | |- NCV (fail _ _) => apply NCV_fail; [discriminate|exact H]
         | |- NCV (begin_converge _ _ _) => apply NCV_begin_converge; exact H
         | |- context [match ?x with _ => _ end] => destruct x
         end.
Qed.

Lemma PI_skip_to_round i round v j :
  PI i -> 1 <= phase_code (i_phase i) <= 4 ->
  i_err (skip_to_round c i round v j) = None -> PI (skip_to_round c i round v j).
Proof.
  intros (Hb & Hp & _ & _) Hph. unfold skip_to_round.
  set (i1 := set_progress i round (i_phase i)).
  set (i2 := if phase_eqb (i_phase i1) QUALITY then _ else i1).
  set (i3 := if phase_eqb (j_phase j) PREPARE then _ else i2).
  assert (H2 : In (firstn 1 (i_input i2)) (i_cands i2) /\ In (i_proposal i2) (i_cands i2)).
  { unfold i2. destruct (phase_eqb (i_phase i1) QUALITY) eqn:Eq.
    - set (p := q_longest_prefix (i_quality i1) (i_input i1)). split.
      + change (In (firstn 1 (i_input (add_candidate_prefixes (set_pv i1 p (i_value i1)) p))) (i_cands (add_candidate_prefixes (set_pv i1 p (i_value i1)) p))).
        rewrite input_acp. apply in_cands_prefixes. exact Hb.
      + change (In p (i_cands (add_candidate_prefixes (set_pv i1 p (i_value i1)) p))). apply (settle_in_cands i1). exact Hb.
    - apply phase_eqb_false in Eq. cbn in Eq. split; [exact Hb|]. cbn. apply Hp.
      destruct (i_phase i); cbn in *; try lia; congruence. }
  assert (H3 : In (firstn 1 (i_input i3)) (i_cands i3) /\ In (i_proposal i3) (i_cands i3)).
  { unfold i3. destruct (phase_eqb (j_phase j) PREPARE); [|exact H2]. destruct H2 as [A B]. split.
    - change (In (firstn 1 (i_input (fst (add_candidate i2 v)))) (i_cands (fst (add_candidate i2 v)))).
      rewrite input_add_candidate. apply in_cands_add. exact A.
    - change (In v (i_cands (fst (add_candidate i2 v)))). apply add_candidate_In. }
  apply PI_begin_converge; apply H3.
Qed.
Lemma NCV_skip_to_round i round v j : NCV i -> NCV (skip_to_round c i round v j).
Proof.
  intros H. unfold skip_to_round. apply NCV_begin_converge.
  set (i1 := set_progress i round (i_phase i)).
  set (i2 := if phase_eqb (i_phase i1) QUALITY then _ else i1).
  assert (E2 : same i1 i2).
  { unfold i2. destruct (phase_eqb (i_phase i1) QUALITY); [|apply same_refl].
    set (p := q_longest_prefix (i_quality i1) (i_input i1)).
    eapply same_trans; [apply (same_set_pv i1 p (i_value i1))|].
    eapply same_trans; [apply same_add_candidate_prefixes|apply same_set_pv]. }
  assert (E3 : same i1 (if phase_eqb (j_phase j) PREPARE then set_pv (fst (add_candidate i2 v)) v (i_value (fst (add_candidate i2 v))) else i2)).
  { destruct (phase_eqb (j_phase j) PREPARE); [|exact E2].
    eapply same_trans; [exact E2|]. eapply same_trans; [apply same_add_candidate|apply same_set_pv]. }
  destruct E3 as (_ & _ & E & _). unfold NCV. rewrite E. exact H.
Qed.

(* ---- monotonicity of PI in the candidate set / converge state ---- *)
Lemma PI_begin_prepare i j :
  In (firstn 1 (i_input i)) (i_cands i) -> In (i_value i) (i_cands i) -> i_proposal i = i_value i -> PI (begin_prepare c i j).
Proof. intros Hb Hv Hp. unfold PI, begin_prepare. cbn. rewrite Hp. repeat split; auto; discriminate. Qed.

Lemma pview_begin_commit i : pview (begin_commit c i) = (COMMIT, i_round i, i_proposal i, i_cands i, i_rounds i, i_input i).
Proof.
  unfold begin_commit, broadcast.
  set (i1 := reset_rebroadcast (alarm_after c (set_progress i (i_round i) COMMIT) false)).
  destruct (i_value i1); [reflexivity|].
  repeat match goal with |- context [match ?x with _ => _ end] => destruct x end; reflexivity.
Qed.
Lemma PI_of_view ph rd pr cs rs inp i' :
  pview i' = (ph, rd, pr, cs, rs, inp) -> In (firstn 1 inp) cs -> In pr cs -> ph <> CONVERGE -> ph <> INITIAL -> PI i'.
Proof.
  unfold pview, PI. intros E Hb Hp H1 H2. injection E as E1 E2 E3 E4 E5 E6. rewrite E1, E3, E4, E6.
  repeat split; auto. intros E; contradiction.
Qed.
Lemma NCV_begin_commit i : NCV i -> NCV (begin_commit c i).
Proof.
  intros H. unfold begin_commit, broadcast.
  set (i1 := reset_rebroadcast (alarm_after c (set_progress i (i_round i) COMMIT) false)).
  assert (H1 : NCV i1) by exact H.
  destruct (i_value i1); [exact H1|].
  repeat match goal with
         | |- NCV (fail _ _) => apply NCV_fail; [discriminate|exact H1]
         | |- NCV (emit _ _) => exact H1
         | |- context [match ?x with _ => _ end] => destruct x
         end.
Qed.
Lemma NCV_begin_decide i round : NCV i -> NCV (begin_decide c i round).
Proof. intros H. unfold begin_decide, broadcast. destruct (q_find_sq_for c _ _); try (apply NCV_fail; [discriminate|exact H]). exact H. Qed.
Lemma PI_late ph i' : i_phase i' = ph -> 5 <= phase_code ph -> In (firstn 1 (i_input i')) (i_cands i') -> PI i'.
Proof.
  intros E H5 Hb. unfold PI. rewrite E. repeat split; auto; try (intros; lia).
  - intros E2. rewrite E2 in H5. cbn in H5. lia.
  - intros E2. rewrite E2 in H5. cbn in H5. lia.
Qed.
Lemma phase_begin_decide i round : i_phase (begin_decide c i round) = DECIDE /\ i_cands (begin_decide c i round) = i_cands i /\ i_input (begin_decide c i round) = i_input i.
Proof. unfold begin_decide, broadcast. destruct (q_find_sq_for c _ _); repeat split. Qed.

(* FindBestTicketProposal finds something whenever some value passes the filter *)
Lemma find_best_some (f : cvalue -> bool) l : forall acc,
  (acc <> None \/ exists v, In v l /\ f v = true) ->
  fold_left (fun best v => if better best v && f v then Some v else best) l acc <> None.
Proof.
  induction l as [|x l IH]; intros acc H; cbn.
  - destruct H as [H|(v & [] & _)]; exact H.
  - apply IH. destruct H as [H|(v & [E|Hin] & Hf)].
    + left. destruct (better acc x && f x); [discriminate|exact H].
    + subst x. destruct acc as [b|]; [left; destruct (better (Some b) v && f v); discriminate|].
      left. cbn. rewrite Hf. discriminate.
    + right. exists v. auto.
Qed.
Lemma cv_find_In l v w : cv_find l v = Some w -> In w l /\ cv_chain w = v.
Proof.
  induction l as [|x l IH]; cbn; [discriminate|]. destruct (chain_eqb (cv_chain x) v) eqn:E.
  - intros H; injection H as <-. split; [left; reflexivity|apply chain_eqb_eq; exact E].
  - intros H. destruct (IH H). split; [right; assumption|assumption].
Qed.

(* the heart: in CONVERGE with the invariant, tryConverge does not fail *)
Lemma try_converge_ok i :
  PI i -> i_phase i = CONVERGE -> i_err i = None ->
  i_err (try_converge c i) = None /\ PI (try_converge c i).
Proof.
  intros (Hb & Hp & Hc & Hn) Hph He. unfold try_converge.
  destruct (negb (phase_timeout_elapsed i)).
  - destruct (should_rebroadcast c i).
    + split; [rewrite err_try_rebroadcast; exact He|apply (PI_view i); [apply pview_try_rebroadcast|repeat split; assumption]].
    + split; [exact He|repeat split; assumption].
  - set (valid := fun cv => is_candidate i (cv_chain cv) || _).
    assert (Hsome : c_find_best (r_conv (get_round i (i_round i))) valid <> None).
    { unfold c_find_best. apply find_best_some. right.
      specialize (Hc Hph). unfold conv_has in Hc.
      destruct (cv_find (cs_values (r_conv (get_round i (i_round i)))) (i_proposal i)) as [w|] eqn:Ew; [|congruence].
      destruct (cv_find_In _ _ _ Ew) as [Hin Hch]. exists w. split; [exact Hin|].
      unfold valid. rewrite Hch. replace (is_candidate i (i_proposal i)) with true; [reflexivity|].
      symmetry. apply is_candidate_In. apply Hp. rewrite Hph. cbn. lia. }
    destruct (c_find_best (r_conv (get_round i (i_round i))) valid) as [w|]; [|congruence].
    split.
    + cbn. destruct (same_add_candidate i (cv_chain w)) as (_ & _ & -> & _). exact He.
    + apply PI_begin_prepare; cbn; [|apply add_candidate_In|reflexivity].
      rewrite input_add_candidate. apply in_cands_add. exact Hb.
Qed.

Definition Good (i i' : inst) : Prop := (i_err i' = None -> PI i') /\ NCV i'.
Lemma NCV_none i : i_err i = None -> NCV i. Proof. unfold NCV; intros ->; discriminate. Qed.
Lemma Good_keep i i' : pview i' = pview i -> i_err i' = i_err i -> PI i -> i_err i = None -> Good i i'.
Proof. intros Ev Ee H He. split; [intros _; apply (PI_view i); assumption|unfold NCV; rewrite Ee, He; discriminate]. Qed.

Lemma Good_try_quality i : PI i -> i_err i = None -> i_phase i = QUALITY -> Good i (try_quality c i).
Proof.
  intros HP He Hph. unfold try_quality. destruct (_ || _); [|apply Good_keep; auto].
  destruct HP as (Hb & _).
  set (p := q_longest_prefix (i_quality i) (i_input i)).
  split.
  - intros _. apply PI_begin_prepare; cbn; [|apply (settle_in_cands i Hb)|reflexivity].
    rewrite input_acp. apply in_cands_prefixes. exact Hb.
  - apply NCV_none. cbn. destruct (same_add_candidate_prefixes (set_pv i p (i_value i)) p) as (_ & _ & -> & _). exact He.
Qed.

Lemma Good_try_prepare i : PI i -> i_err i = None -> i_phase i = PREPARE -> Good i (try_prepare c i).
Proof.
  intros HP He Hph. unfold try_prepare. cbv zeta.
  match goal with |- Good i (if _ then begin_commit c ?x else _) => set (i1 := x) end.
  assert (V1 : pview i1 = pview i /\ i_err i1 = i_err i).
  { unfold i1. repeat match goal with |- context [if ?b then _ else _] => destruct b end; split; reflexivity. }
  destruct V1 as [V1 E1]. destruct HP as (Hb & Hp & Hc & Hn).
  destruct (_ || _ || _ || _).
  - split.
    + intros _. pose proof (pview_begin_commit i1) as Hv. unfold pview in V1. injection V1 as _ A2 A3 A4 A5 A6.
      rewrite A2, A3, A4, A5, A6 in Hv. eapply PI_of_view; [exact Hv|exact Hb| |discriminate|discriminate].
      apply Hp. rewrite Hph. cbn. lia.
    + apply NCV_begin_commit. unfold NCV. rewrite E1, He. discriminate.
  - destruct (should_rebroadcast c i1).
    + apply Good_keep; [rewrite pview_try_rebroadcast; exact V1|rewrite err_try_rebroadcast; exact E1|repeat split; assumption|exact He].
    + apply Good_keep; [exact V1|exact E1|repeat split; assumption|exact He].
Qed.

Lemma Good_begin_next_round i x : PI x -> i_err x = None -> i_phase x = COMMIT -> Good i (begin_next_round c x).
Proof. intros HP He Hph. split; [apply PI_begin_next_round; assumption|apply NCV_begin_next_round, NCV_none; exact He]. Qed.

Lemma Good_try_commit i round sway : PI i -> i_err i = None -> phase_code (i_phase i) < 5 -> Good i (try_commit c i round sway).
Proof.
  intros HP He Hlt. unfold try_commit.
  assert (Hrest : forall b : bool,
    Good i (if negb (i_round i =? round) || negb (phase_eqb (i_phase i) COMMIT) then i else
         if b then begin_next_round c i else
         if phase_timeout_elapsed i && q_from_strong c (r_comm (get_round i round)) then
           begin_next_round c
             (match (match sway with
                     | Some s => if existsb (chain_eqb s) (filter (fun v => negb (is_zero v)) (q_all_values (r_comm (get_round i round)))) then Some s
                                 else hd_error (filter (fun v => negb (is_zero v)) (q_all_values (r_comm (get_round i round))))
                     | None => hd_error (filter (fun v => negb (is_zero v)) (q_all_values (r_comm (get_round i round)))) end) with
              | Some v => let i0 := fst (add_candidate i v) in if chain_eqb v (i_proposal i0) then i0 else set_pv i0 v (i_value i0)
              | None => i end)
         else if should_rebroadcast c i then try_rebroadcast c i else i)).
  { intros b. destruct (negb (i_round i =? round) || negb (phase_eqb (i_phase i) COMMIT)) eqn:Hc; [apply Good_keep; auto|].
    apply orb_false_elim in Hc. destruct Hc as [_ Hc]. apply negb_false_iff in Hc. apply phase_eqb_true in Hc.
    destruct b; [apply Good_begin_next_round; assumption|].
    destruct (_ && _).
    - match goal with |- Good i (begin_next_round c ?x) => set (i1 := x) end.
      assert (H1 : PI i1 /\ i_err i1 = None /\ i_phase i1 = COMMIT).
      { unfold i1. destruct (match sway with Some _ => _ | None => _ end) as [v|]; [|split; [exact HP|split; assumption]].
        cbv zeta. destruct HP as (Hb & Hp & Hcv & Hn).
        pose proof (same_add_candidate i v) as S. pose proof (same_phase _ _ S) as Sp. destruct S as (_ & _ & Se & _).
        assert (Hb' : In (firstn 1 (i_input (fst (add_candidate i v)))) (i_cands (fst (add_candidate i v)))).
        { rewrite input_add_candidate. apply in_cands_add. exact Hb. }
        destruct (chain_eqb v (i_proposal (fst (add_candidate i v)))) eqn:Ev.
        - apply chain_eqb_eq in Ev. split; [|split; congruence].
          split; [exact Hb'|]. split; [intros _; rewrite <- Ev; apply add_candidate_In|].
          split; [rewrite Sp, Hc; discriminate|rewrite Sp, Hc; discriminate].
        - split; [|split; [exact (eq_trans Se He)|exact (eq_trans Sp Hc)]].
          split; [exact Hb'|]. split; [intros _; apply add_candidate_In|].
          split; [cbn; rewrite Sp, Hc; discriminate|cbn; rewrite Sp, Hc; discriminate]. }
      destruct H1 as (A & B & C). apply Good_begin_next_round; assumption.
    - destruct (should_rebroadcast c i).
      + apply Good_keep; [apply pview_try_rebroadcast|apply err_try_rebroadcast|exact HP|exact He].
      + apply Good_keep; auto. }
  destruct (q_find_sq_value (r_comm (get_round i round))) as [| |[|x v]].
  - apply (Hrest (false || _)).
  - split; [intros H; exfalso; exact (err_fail_some _ _ H)|apply NCV_fail; [discriminate|apply NCV_none; exact He]].
  - apply (Hrest (true || _)).
  - destruct (phase_begin_decide (set_pv i (i_proposal i) (x :: v)) round) as (A & B & C).
    split; [|apply NCV_begin_decide, NCV_none; exact He].
    intros _. apply (PI_late DECIDE); [exact A|cbn; lia|rewrite B, C; apply HP].
Qed.

Lemma Good_try_decide i : PI i -> i_err i = None -> i_phase i = DECIDE -> Good i (try_decide c i).
Proof.
  intros HP He Hph. unfold try_decide. destruct (q_find_sq_value _) as [| |v].
  - apply Good_keep; [apply pview_try_rebroadcast|apply err_try_rebroadcast|exact HP|exact He].
  - split; [intros H; exfalso; exact (err_fail_some _ _ H)|apply NCV_fail; [discriminate|apply NCV_none; exact He]].
  - destruct (q_find_sq_for c _ _); try (split; [intros H; exfalso; exact (err_fail_some _ _ H)|apply NCV_fail; [discriminate|apply NCV_none; exact He]]).
    split; [|apply NCV_none; exact He]. intros _. apply (PI_late TERMINATED); [reflexivity|cbn; lia|apply HP].
Qed.

Lemma Good_try_current_phase i sway : PI i -> i_err i = None -> Good i (try_current_phase c i sway).
Proof.
  intros HP He. unfold try_current_phase. destruct (i_phase i) eqn:Hph.
  - destruct HP as (_ & _ & _ & Hn). congruence.
  - apply Good_try_quality; assumption.
  - destruct (try_converge_ok i HP Hph He) as [A B]. split; [intros _; exact B|apply NCV_none; exact A].
  - apply Good_try_prepare; assumption.
  - apply Good_try_commit; [assumption|assumption|rewrite Hph; cbn; lia].
  - apply Good_try_decide; assumption.
  - apply Good_keep; auto.
Qed.

(* ---- state updates made by receiveOne ---- *)
Lemma PI_set_round_state i r s :
  PI i ->
  (forall v, cv_find (cs_values (r_conv (rget (i_rounds i) r))) v <> None -> cv_find (cs_values (r_conv s)) v <> None) ->
  PI (set_round_state i r s).
Proof.
  intros (Hb & Hp & Hc & Hn) Hk. unfold PI, conv_has, get_round in *. cbn. repeat split; auto.
  intros Hph. specialize (Hc Hph). destruct (Z.eq_dec (i_round i) r) as [E|Hne].
  - rewrite E, rget_rset_same. apply Hk. rewrite <- E. exact Hc.
  - rewrite rget_rset_other by exact Hne. exact Hc.
Qed.
Lemma PI_set_cands i l : PI i -> incl (i_cands i) l -> PI (set_cands i l).
Proof. intros (Hb & Hp & Hc & Hn) Hi. unfold PI, conv_has, get_round in *. cbn. repeat split; auto. Qed.
Lemma PI_acp i v : PI i -> PI (add_candidate_prefixes i v).
Proof.
  intros H. rewrite add_candidate_prefixes_cands. apply PI_set_cands; [exact H|].
  destruct (same_add_candidate_prefixes i v) as (_ & _ & _ & _ & Hc & _). exact Hc.
Qed.
Lemma err_acp i v : i_err (add_candidate_prefixes i v) = i_err i.
Proof. destruct (same_add_candidate_prefixes i v) as (_ & _ & H & _). exact H. Qed.

Lemma Good_receive_one i m sway : PI i -> i_err i = None -> Good i (fst (receive_one c i m sway)).
Proof.
  intros HP He. unfold receive_one.
  destruct (phase_eqb (i_phase i) TERMINATED) eqn:Ht; [apply Good_keep; auto|]. apply phase_eqb_false in Ht.
  destruct (_ && (_ || _)); [apply Good_keep; auto|]. destruct (_ && is_spammable m); [apply Good_keep; auto|].
  assert (Hfail : forall e, e <> ENoConvergeValue -> Good i (fail i e)).
  { intros e Hne. split; [intros H; exfalso; exact (err_fail_some _ _ H)|apply NCV_fail; [exact Hne|apply NCV_none; exact He]]. }
  (* any update of one round's state that keeps the CONVERGE values of that round *)
  assert (Hrs : forall s, (forall v, cv_find (cs_values (r_conv (rget (i_rounds i) (m_round m)))) v <> None -> cv_find (cs_values (r_conv s)) v <> None) ->
                PI (set_round_state i (m_round m) s) /\ i_err (set_round_state i (m_round m) s) = None).
  { intros s Hk. split; [apply PI_set_round_state; assumption|exact He]. }
  destruct (m_phase m) eqn:Ep; cbn [fst].
  - apply Hfail; discriminate.
  - cbv zeta. match goal with |- context [update_candidates_from_quality ?x] => set (i1 := x) end.
    assert (H1 : PI i1 /\ i_err i1 = None).
    { unfold i1. split; [|exact He].
      apply (PI_set_round_state (set_quality i _)); [apply (PI_view i); [reflexivity|exact HP]|]. cbn. intros v Hv; exact Hv. }
    destruct H1 as [P1 E1].
    destruct (negb _); cbn [fst].
    + split; [intros _; apply PI_acp; exact P1|apply NCV_none; unfold update_candidates_from_quality; rewrite err_acp; exact E1].
    + destruct (Good_try_current_phase i1 sway P1 E1) as [A B]. split; assumption.
  - destruct (c_receive _ _ _ _ _) as [cs|] eqn:Ec; cbn [fst]; [|apply Hfail; discriminate].
    destruct (Hrs (mkR cs (r_prep (get_round i (m_round m))) (r_comm (get_round i (m_round m))))) as [P1 E1].
    { cbn. intros v Hv. eapply c_receive_keeps; [exact Ec|exact Hv]. }
    destruct (Good_try_current_phase _ sway P1 E1) as [A B]. split; assumption.
  - cbv zeta. match goal with |- context [try_current_phase c (set_round_state i (m_round m) ?s) sway] => destruct (Hrs s) as [P1 E1] end.
    { cbn. intros v Hv; exact Hv. }
    destruct (Good_try_current_phase _ sway P1 E1) as [A B]. split; assumption.
  - cbv zeta. match goal with |- context [try_commit c (set_round_state i (m_round m) ?s) _ _] => destruct (Hrs s) as [P1 E1]; [cbn; intros v Hv; exact Hv|set (i1 := set_round_state i (m_round m) s) in *] end.
    destruct (negb (phase_eqb (i_phase i1) DECIDE)) eqn:Hd; cbn [fst].
    + apply negb_true_iff, phase_eqb_false in Hd.
      assert (Hlt : phase_code (i_phase i1) < 5).
      { change (i_phase i1) with (i_phase i) in *. destruct (i_phase i); cbn; try lia; congruence. }
      destruct (Good_try_commit i1 (m_round m) sway P1 E1 Hlt) as [A B].
      match goal with |- context [if ?b then _ else _] => destruct b eqn:Hag end; cbn [fst]; [|split; assumption].
      apply andb_prop in Hag. destruct Hag as [Hag _]. apply andb_prop in Hag. destruct Hag as [Hag _]. apply andb_prop in Hag. destruct Hag as [Hag _].
      assert (E2 : i_err (try_commit c i1 (m_round m) sway) = None) by (destruct (i_err (try_commit c i1 (m_round m) sway)); [discriminate Hag|reflexivity]).
      destruct (Good_try_current_phase _ sway (A E2) E2) as [A2 B2]. split; assumption.
    + destruct (Good_try_current_phase _ sway P1 E1) as [A B]. split; assumption.
  - cbv zeta.
    match goal with |- context [skip_to_decide ?x _ _] => set (i1 := x) end.
    assert (H1 : PI i1 /\ i_err i1 = None).
    { unfold i1. split; [|exact He].
      apply (PI_set_round_state (set_decision i _)); [apply (PI_view i); [reflexivity|exact HP]|]. cbn. intros v Hv; exact Hv. }
    destruct H1 as [P1 E1].
    match goal with |- context [try_current_phase c ?x sway] => set (i2 := x) end.
    assert (H2 : PI i2 /\ i_err i2 = None).
    { unfold i2. destruct (negb (phase_eqb (i_phase i1) DECIDE)); [|split; assumption].
      split; [|exact E1]. apply (PI_late DECIDE); [reflexivity|cbn; lia|apply P1]. }
    destruct H2 as [P2 E2]. destruct (Good_try_current_phase _ sway P2 E2) as [A B]. split; assumption.
  - apply Hfail; discriminate.
Qed.

Lemma Good_post_receive i round :
  PI i -> i_err i = None -> i_phase i <> TERMINATED -> Good i (post_receive c i round).
Proof.
  intros HP He Ht. unfold post_receive. destruct (_ || _) eqn:Hc; [apply Good_keep; auto|].
  apply orb_false_elim in Hc. destruct Hc as [_ Hd]. apply phase_eqb_false in Hd.
  destruct (negb _); [apply Good_keep; auto|]. destruct (c_find_best _ _) as [w|]; [|apply Good_keep; auto].
  split; [|apply NCV_skip_to_round, NCV_none; exact He].
  apply PI_skip_to_round; [exact HP|]. destruct HP as (_ & _ & _ & Hn). destruct (i_phase i); cbn; try lia; congruence.
Qed.

(* ---- one step ---- *)
Lemma Good_step i e :
  Inv i -> wfe e -> PI i -> i_err i = None -> Good i (step c i e).
Proof.
  intros HI Hw HP He. destruct e as [now|now m sway|now sway]; cbn [step].
  - (* a second start is an error of the driver, not of the instance *)
    unfold begin_quality. destruct HP as (Hb & Hp & Hc & Hn).
    replace (negb (phase_eqb (i_phase (set_now i now)) INITIAL)) with true.
    + split; [intros H; exfalso; exact (err_fail_some _ _ H)|apply NCV_fail; [discriminate|apply NCV_none; exact He]].
    + symmetry. apply negb_true_iff, phase_eqb_false. exact Hn.
  - set (i0 := set_now i now).
    assert (P0 : PI i0) by (apply (PI_view i); [reflexivity|exact HP]).
    assert (E0 : i_err i0 = None) by exact He.
    assert (HI0 : Inv i0) by exact HI.
    pose proof (Good_receive_one i0 m sway P0 E0) as G1.
    destruct (receive_one c i0 m sway) as [i1 changed] eqn:Ero. cbn [fst] in G1.
    destruct (changed && match i_err i1 with None => true | Some _ => false end) eqn:Hc; [|destruct G1; split; assumption].
    apply andb_prop in Hc. destruct Hc as [Hch Hc].
    assert (E1 : i_err i1 = None) by (destruct (i_err i1); [discriminate Hc|reflexivity]).
    destruct G1 as [A1 _]. specialize (A1 E1).
    destruct (phase_eqb (i_phase i0) TERMINATED) eqn:Ht.
    { unfold receive_one in Ero. rewrite Ht in Ero. injection Ero as Ea Eb. rewrite <- Eb in Hch. discriminate Hch. }
    apply phase_eqb_false in Ht.
    destruct (phase_eqb (m_phase m) DECIDE) eqn:Hmd.
    + apply phase_eqb_true in Hmd. cbn in Hw. specialize (Hw Hmd).
      destruct (receive_one_decide c i0 m sway Hmd Hw Ht) as (HRc & _). rewrite Ero in HRc. cbn [fst] in HRc.
      assert (Hr1 : 0 <= i_round i1). { apply Rc_kle, kle_round in HRc. destruct HI0 as (H0 & _). cbn in *. lia. }
      unfold post_receive. rewrite Hw. replace (0 <=? i_round i1) with true by (symmetry; apply Z.leb_le; exact Hr1).
      cbn [orb]. split; [intros _; exact A1|apply NCV_none; exact E1].
    + apply phase_eqb_false in Hmd.
      assert (Hdc : dec_clear i0). { intros Ep. destruct HI0 as (_ & _ & I3). apply I3; assumption. }
      pose proof (nt_receive_one c i0 m sway Hmd Hdc Ht) as Hnt. rewrite Ero in Hnt. cbn [fst] in Hnt.
      destruct (Good_post_receive i1 (m_round m) A1 E1 Hnt) as [A B]. split; assumption.
  - apply Good_try_current_phase; [apply (PI_view i); [reflexivity|exact HP]|exact He].
Qed.

(* ---- runs: tryConverge never reports "no values at CONVERGE" ---- *)
Definition started (input : chain) (now : Z) : inst := step c (new_instance input now) (EvStart now).

Lemma run_hist_converge evs : forall i, Inv i -> PInv i -> NCV i -> Forall wfe evs ->
  NCV (snd (run_hist c i evs)).
Proof.
  induction evs as [|e evs IH]; intros i HI HP HN Hw; cbn [run_hist]; [exact HN|].
  inversion Hw as [|? ? Hwe Hwr]; subst.
  destruct (step_ordered c (clear_out i) e (Inv_clear_out i HI) Hwe) as (_ & HI' & Hpers & _).
  assert (H' : PInv (step c (clear_out i) e) /\ NCV (step c (clear_out i) e)).
  { destruct (i_err i) as [x|] eqn:Ex.
    - specialize (Hpers x Ex). split; [intros H; congruence|]. unfold NCV in *. rewrite Hpers. cbn in HN. rewrite Ex in HN. exact HN.
    - assert (P0 : PI (clear_out i)) by (apply (PI_view i); [reflexivity|apply HP; exact Ex]).
      destruct (Good_step (clear_out i) e (Inv_clear_out i HI) Hwe P0 Ex) as [A B]. split; [exact A|exact B]. }
  destruct H' as [HP' HN'].
  specialize (IH _ HI' HP' HN' Hwr). destruct (run_hist c (step c (clear_out i) e) evs). exact IH.
Qed.

Theorem converge_never_fails input now evs :
  input <> [] -> Forall wfe evs ->
  i_err (snd (run_hist c (started input now) evs)) <> Some ENoConvergeValue.
Proof.
  intros Hin Hw.
  assert (HI : Inv (started input now)).
  { destruct (step_ordered c (new_instance input now) (EvStart now) (Inv_new input now) I) as (_ & H & _). exact H. }
  assert (HP : PInv (started input now) /\ NCV (started input now)).
  { unfold started. cbn [step]. unfold begin_quality. cbn [i_phase set_now new_instance].
    replace (negb (phase_eqb INITIAL INITIAL)) with false by reflexivity.
    split; [|apply NCV_none; reflexivity].
    intros _. unfold PI, conv_has. cbn. repeat split; auto; try discriminate; try (intros; lia). }
  destruct HP as [HP HN]. exact (run_hist_converge evs _ HI HP HN Hw).
Qed.

End Cfg.
