(* Layer N, C07 "no internal error or panic", the remaining internal errors:
     beginConverge with a justification of the wrong round     (PBeginConverge)
     beginNextRound "no justification for proposal"            (PNextRound)
     a CONVERGE message without value / justification          (EConvergeMsg)
     a message or a timer in a phase that cannot handle it     (EPhase)
   are unreachable on every sequence of VALIDATED deliveries (wfmb: what gpbft/validator.go guarantees about the round
   of a justification) and alarms.  Together with InstanceConverge (ENoConvergeValue) and InstanceNoPanic (the quorum
   panics) this gives: an honest instance never reports an internal error (no_internal_error below).
   Invariant: the justifications stored for round r are from round r-1 (PREPARE, CONVERGE) resp. r (COMMIT); every
   non-bottom COMMIT value has a stored justification; the sender power of a COMMIT state is the sum over its values. *)
From Coq Require Import ZArith List Bool Lia Permutation.
From F3 Require Import GoInt QuorumGen QuorumProofs Instance InstanceRun InstanceOrder InstanceVotes InstanceConverge InstanceDecide InstanceQuorum InstanceNoPanic.
Import ListNotations.
Open Scope Z_scope.

Section Cfg.
Variable c : config.
Hypothesis Htotal : 0 < c_total c < two62.
Hypothesis Hpow : forall s, 0 <= power_of c s.
Hypothesis Hsum : forall l, NoDup l -> sum_power c l <= c_total c.

Definition JQ (r : Z) (q : qstate) : Prop := forall e, In e (q_just q) -> j_round (snd e) = r.
Definition JCv (r : Z) (s : cstate) : Prop := forall cv, In cv (cs_values s) -> j_round (cv_just cv) = r.
Definition CJ (q : qstate) : Prop :=
  forall s, In s (q_support q) -> s_chain s <> [] -> exists e, In e (q_just q) /\ chain_eqb (fst e) (s_chain s) = true.
Definition sup_total (l : list support) : Z := fold_right (fun s a => s_power s + a) 0 l.
Definition Cov (q : qstate) : Prop := q_spower q = sup_total (q_support q).
Record RJ (r : Z) (rs : rstate) : Prop := {
  rj_prep : JQ (r - 1) (r_prep rs); rj_conv : JCv (r - 1) (r_conv rs);
  rj_comm : JQ r (r_comm rs); rj_cj : CJ (r_comm rs); rj_cov : Cov (r_comm rs) }.
Definition JI (i : inst) : Prop := forall r, RJ r (rget (i_rounds i) r).
Definition JP (e : ierr) : Prop := match e with PBeginConverge | PNextRound | EConvergeMsg | EPhase => True | _ => False end.
Definition NJ (i : inst) : Prop := forall e, i_err i = Some e -> ~ JP e.

Lemma RJ_empty r : RJ r r_empty.
Proof. constructor; cbn; try (intros ? []); reflexivity. Qed.
Lemma JI_rounds i i' : i_rounds i' = i_rounds i -> JI i -> JI i'.
Proof. unfold JI. intros ->. auto. Qed.
Lemma JI_rd i i' : rd i' = rd i -> JI i -> JI i'.
Proof. unfold rd. intros E. injection E as E _. apply JI_rounds. exact E. Qed.
Lemma JI_set_round_state i r s : JI i -> RJ r s -> JI (set_round_state i r s).
Proof.
  intros HJ Hs r'. cbn. destruct (Z.eq_dec r' r) as [->|Hne]; [rewrite rget_rset_same; exact Hs|rewrite rget_rset_other by exact Hne; apply HJ].
Qed.
Lemma NJ_none i : i_err i = None -> NJ i. Proof. intros H e He. congruence. Qed.
Lemma NJ_err i i' : i_err i' = i_err i -> NJ i -> NJ i'. Proof. unfold NJ. intros ->. auto. Qed.
Lemma NJ_fail i e : ~ JP e -> NJ i -> NJ (fail i e).
Proof. intros Hn H x. cbn. destruct (i_err i) as [y|] eqn:E; intros Hx; injection Hx as <-; [apply H; exact E|exact Hn]. Qed.

Lemma q_get_just_In q ph k j : q_get_just q ph k = Some j -> exists e, In e (q_just q) /\ snd e = j.
Proof.
  unfold q_get_just. destruct k as [|x k].
  - destruct (filter _ (q_just q)) as [|e l] eqn:Ef; [discriminate|]. intros H; injection H as <-.
    exists e. split; [|reflexivity]. assert (Hin : In e (e :: l)) by (left; reflexivity). rewrite <- Ef in Hin. apply filter_In in Hin. apply Hin.
  - destruct (filter _ (q_just q)) as [|e l] eqn:Ef; [discriminate|]. destruct (phase_eqb _ _); [|discriminate]. intros H; injection H as <-.
    exists e. split; [|reflexivity]. assert (Hin : In e (e :: l)) by (left; reflexivity). rewrite <- Ef in Hin. apply filter_In in Hin. apply Hin.
Qed.
Lemma c_get_just_In s ph k j : c_get_just s ph k = Some j -> exists cv, In cv (cs_values s) /\ cv_just cv = j.
Proof.
  unfold c_get_just. destruct k as [|x k].
  - destruct (filter _ (cs_values s)) as [|e l] eqn:Ef; [discriminate|]. intros H; injection H as <-.
    exists e. split; [|reflexivity]. assert (Hin : In e (e :: l)) by (left; reflexivity). rewrite <- Ef in Hin. apply filter_In in Hin. apply Hin.
  - destruct (cv_find (cs_values s) (x :: k)) as [v|] eqn:Ef; [|discriminate]. destruct (phase_eqb _ _); [|discriminate]. intros H; injection H as <-.
    exists v. split; [|reflexivity]. apply (cv_find_In _ _ _ Ef).
Qed.
Lemma find_best_In (f : cvalue -> bool) l : forall acc w,
  fold_left (fun best v => if better best v && f v then Some v else best) l acc = Some w -> acc = Some w \/ In w l.
Proof.
  induction l as [|x l IH]; intros acc w H; cbn in H; [left; exact H|].
  destruct (IH _ _ H) as [E|Hin]; [|right; right; exact Hin].
  destruct (better acc x && f x); [injection E as ->; right; left; reflexivity|left; exact E].
Qed.

(* ---- beginConverge / beginNextRound / skipToRound ---- *)
Lemma GJ_begin_converge i j : JI i -> NJ i -> j_round j = i_round i - 1 ->
  JI (begin_converge c i j) /\ NJ (begin_converge c i j).
Proof.
  intros HJ HN Hr. unfold begin_converge. rewrite (proj2 (Z.eqb_eq _ _) Hr). cbn [negb]. cbv zeta. split; [|exact HN].
  match goal with |- JI (broadcast (set_round_state ?x ?r ?s) _ _ _ _ _) =>
    apply (JI_rounds (set_round_state x r s)); [reflexivity|apply JI_set_round_state; [exact HJ|]] end.
  cbn [i_round set_progress reset_rebroadcast alarm_after emit set_timers].
  pose proof (HJ (i_round i)) as [A B C D E].
  constructor; cbn [r_prep r_conv r_comm]; try assumption.
  intros cv Hcv. unfold c_set_self in Hcv.
  change (get_round (reset_rebroadcast (alarm_after c (set_progress i (i_round i) CONVERGE) false)) (i_round i)) with (rget (i_rounds i) (i_round i)) in Hcv.
  destruct (cv_find _ _); [apply B; exact Hcv|]. cbn in Hcv. apply in_app_or in Hcv. destruct Hcv as [Hcv|[<-|[]]]; [apply B; exact Hcv|exact Hr].
Qed.

(* beginNextRound is only entered with a reason to leave the round at hand *)
Lemma GJ_begin_next_round i : JI i -> AllQ c i -> NJ i ->
  ((exists sg, q_find_sq_for c (r_comm (get_round i (i_round i))) [] = FsqSome sg) \/
   q_has_just (r_prep (get_round i (i_round i + 1))) COMMIT [] = true \/
   c_has_just (r_conv (get_round i (i_round i + 1))) COMMIT [] = true \/
   (exists e, In e (q_just (r_comm (get_round i (i_round i)))) /\ chain_eqb (fst e) (i_proposal i) = true)) ->
  JI (begin_next_round c i) /\ NJ (begin_next_round c i).
Proof.
  intros HJ HA HN Hwhy. unfold begin_next_round. cbv zeta.
  set (i1 := set_progress i (i_round i + 1) (i_phase i)).
  assert (J1 : JI i1) by exact HJ. assert (N1 : NJ i1) by exact HN.
  change (get_round i1 (i_round i1 - 1)) with (get_round i (i_round i + 1 - 1)).
  change (get_round i1 (i_round i1)) with (get_round i (i_round i + 1)).
  change (i_proposal i1) with (i_proposal i). change (i_round i1 - 1) with (i_round i + 1 - 1).
  replace (i_round i + 1 - 1) with (i_round i) by lia.
  assert (Hrd : i_round i1 - 1 = i_round i) by (cbn; lia).
  destruct (q_find_sq_for c (r_comm (get_round i (i_round i))) []) as [| |sg] eqn:Ef.
  - destruct (q_get_just (r_prep (get_round i (i_round i + 1))) COMMIT []) as [j|] eqn:E1.
    { apply GJ_begin_converge; [exact J1|exact N1|]. destruct (q_get_just_In _ _ _ _ E1) as (e & Hin & <-).
      rewrite (rj_prep _ _ (HJ (i_round i + 1)) e Hin). cbn. lia. }
    destruct (c_get_just (r_conv (get_round i (i_round i + 1))) COMMIT []) as [j|] eqn:E2.
    { apply GJ_begin_converge; [exact J1|exact N1|]. destruct (c_get_just_In _ _ _ _ E2) as (cv & Hin & <-).
      rewrite (rj_conv _ _ (HJ (i_round i + 1)) cv Hin). cbn. lia. }
    destruct (filter _ (q_just (r_comm (get_round i (i_round i))))) as [|e l] eqn:E3.
    + exfalso. destruct Hwhy as [(sg & H)|[H|[H|(e & Hin & He)]]]; try discriminate H.
      * unfold q_has_just in H. rewrite E1 in H. discriminate H.
      * unfold c_has_just in H. rewrite E2 in H. discriminate H.
      * assert (Hf : In e (filter (fun e0 => chain_eqb (fst e0) (i_proposal i)) (q_just (r_comm (get_round i (i_round i)))))) by (apply filter_In; split; assumption).
        rewrite E3 in Hf. exact Hf.
    + apply GJ_begin_converge; [exact J1|exact N1|].
      assert (Hin : In e (e :: l)) by (left; reflexivity). rewrite <- E3 in Hin. apply filter_In in Hin. destruct Hin as [Hin _].
      rewrite (rj_comm _ _ (HJ (i_round i)) e Hin). cbn. lia.
  - exfalso. apply (find_sq_for_no_panic c Htotal Hpow Hsum (r_comm (get_round i (i_round i))) []); [apply HA|exact Ef].
  - apply GJ_begin_converge; [exact J1|exact N1|]. cbn. lia.
Qed.

Lemma GJ_skip_to_round i round v j : JI i -> NJ i -> j_round j = round - 1 ->
  JI (skip_to_round c i round v j) /\ NJ (skip_to_round c i round v j).
Proof.
  intros HJ HN Hr. unfold skip_to_round. cbv zeta.
  match goal with |- JI (begin_converge c ?x j) /\ _ => set (i3 := x) end.
  assert (H3 : rd i3 = rd i /\ i_err i3 = i_err i /\ i_round i3 = round).
  { unfold i3. set (i1 := set_progress i round (i_phase i)).
    assert (H1 : rd i1 = rd i /\ i_err i1 = i_err i /\ i_round i1 = round) by (repeat split; reflexivity).
    match goal with |- context [if phase_eqb (j_phase j) PREPARE then _ else ?y] => set (i2 := y) end.
    assert (H2 : rd i2 = rd i /\ i_err i2 = i_err i /\ i_round i2 = round).
    { unfold i2. destruct (phase_eqb (i_phase i1) QUALITY); [|exact H1]. cbv zeta.
      set (p := q_longest_prefix _ _). destruct (rd_acp (set_pv i1 p (i_value i1)) p) as [A B].
      repeat split; [exact A|exact B|]. cbn [set_pv i_round].
      rewrite (same_round _ _ (same_add_candidate_prefixes (set_pv i1 p (i_value i1)) p)). reflexivity. }
    destruct (phase_eqb (j_phase j) PREPARE); [|exact H2]. cbv zeta.
    destruct (rd_add_candidate i2 v) as [A B]. destruct H2 as (A2 & B2 & C2).
    repeat split; [rewrite <- A2; exact A|rewrite <- B2; exact B|].
    cbn [set_pv i_round]. rewrite (same_round _ _ (same_add_candidate i2 v)). exact C2. }
  destruct H3 as (A3 & B3 & C3). apply GJ_begin_converge; [apply (JI_rd i); assumption|apply (NJ_err i); assumption|rewrite C3; exact Hr].
Qed.

Lemma GJ_post_receive i round : JI i -> NJ i -> JI (post_receive c i round) /\ NJ (post_receive c i round).
Proof.
  intros HJ HN. unfold post_receive.
  destruct (_ || _); [split; assumption|]. destruct (negb _); [split; assumption|].
  destruct (c_find_best _ _) as [w|] eqn:Eb; [|split; assumption]. apply GJ_skip_to_round; [exact HJ|exact HN|].
  unfold c_find_best in Eb. destruct (find_best_In _ _ _ _ Eb) as [E|Hin]; [discriminate E|].
  exact (rj_conv _ _ (HJ round) w Hin).
Qed.

(* ---- the quorum-state updates of receiveOne ---- *)
Lemma sup_total_app a b : sup_total (a ++ b) = sup_total a + sup_total b.
Proof. unfold sup_total. induction a as [|x a IH]; cbn; [reflexivity|]. rewrite IH. lia. Qed.

Lemma q_receive_just_keep q sender v : q_just (q_receive c q sender v) = q_just q.
Proof. unfold q_receive. destruct (memZ _ _); reflexivity. Qed.
Lemma q_receive_support q sender v s : In s (q_support (q_receive c q sender v)) -> s_chain s = v \/ In s (q_support q).
Proof.
  unfold q_receive. destruct (memZ _ _); [right; assumption|]. unfold q_receive_inner. cbn [q_support].
  intros H. apply sup_set_In in H. destruct H as [->|H]; [left; reflexivity|right; exact H].
Qed.
Lemma Cov_receive q sender v : Cov q -> Cov (q_receive c q sender v).
Proof.
  unfold Cov, q_receive. intros HC. destruct (memZ _ _); [exact HC|]. unfold q_receive_inner. cbn [q_support q_spower q_senders q_just].
  set (cand := match sup_find (q_support q) v with Some s => s | None => mkSup v 0 [] false end).
  set (ns := mkSup v (s_power cand + power_of c sender) (s_signers cand ++ [sender]) (isStrongQuorum (s_power cand + power_of c sender) (c_total c))).
  destruct (sup_set_split (q_support q) ns) as [(l1 & old & l2 & El & Hc & Hs & Hf)|[Hn Hs]]; rewrite Hs.
  - assert (Eo : cand = old). { unfold cand. cbn in Hf. rewrite Hf. reflexivity. }
    rewrite HC, El, !sup_total_app. cbn. rewrite Eo. lia.
  - assert (Ec : s_power cand = 0). { unfold cand. cbn in Hn. rewrite Hn. reflexivity. }
    rewrite HC, sup_total_app. cbn. rewrite Ec. lia.
Qed.
Lemma Cov_receive_just q v j : Cov q -> Cov (q_receive_just q v j).
Proof. unfold Cov, q_receive_just. destruct (existsb _ _); auto. Qed.
Lemma JQ_receive r q sender v : JQ r q -> JQ r (q_receive c q sender v).
Proof. unfold JQ. rewrite q_receive_just_keep. auto. Qed.
Lemma JQ_receive_just r q v j : JQ r q -> j_round j = r -> JQ r (q_receive_just q v j).
Proof.
  unfold JQ, q_receive_just. intros H Hj. destruct (existsb _ _); [exact H|]. cbn. intros e He.
  apply in_app_or in He. destruct He as [He|[<-|[]]]; [apply H; exact He|exact Hj].
Qed.
Lemma chain_eqb_refl' v : chain_eqb v v = true. Proof. apply chain_eqb_eq. reflexivity. Qed.

(* the COMMIT update as a whole: the vote, then (for a value) its justification *)
Definition comm_update (q : qstate) (sender : Z) (v : chain) (oj : option just) : qstate :=
  let q1 := q_receive c q sender v in
  match v, oj with _ :: _, Some j => q_receive_just q1 v j | _, _ => q1 end.
Lemma CJ_comm_update q sender v oj : CJ q -> (v <> [] -> exists j, oj = Some j) -> CJ (comm_update q sender v oj).
Proof.
  intros HC Hv. unfold comm_update. cbv zeta.
  destruct v as [|x v'].
  - assert (E : (match oj with Some _ => q_receive c q sender [] | None => q_receive c q sender [] end) = q_receive c q sender []) by (destruct oj; reflexivity).
    intros s Hs Hne. destruct (q_receive_support _ _ _ _ Hs) as [E1|Hin]; [congruence|].
    destruct (HC s Hin Hne) as (e & He & Hce). exists e. split; [rewrite q_receive_just_keep; exact He|exact Hce].
  - destruct (Hv ltac:(discriminate)) as (j & ->).
    intros s Hs Hne. unfold q_receive_just in *.
    destruct (existsb (fun e => chain_eqb (fst e) (x :: v')) (q_just (q_receive c q sender (x :: v')))) eqn:Ex.
    + destruct (q_receive_support _ _ _ _ Hs) as [E1|Hin].
      * apply existsb_exists in Ex. destruct Ex as (e & He & Hce). exists e. split; [exact He|rewrite E1; exact Hce].
      * destruct (HC s Hin Hne) as (e & He & Hce). exists e. split; [rewrite q_receive_just_keep; exact He|exact Hce].
    + cbn [q_support q_just] in *. destruct (q_receive_support _ _ _ _ Hs) as [E1|Hin].
      * exists (x :: v', j). split; [apply in_or_app; right; left; reflexivity|cbn [fst]; rewrite E1; apply chain_eqb_refl'].
      * destruct (HC s Hin Hne) as (e & He & Hce). exists e. split; [apply in_or_app; left; rewrite q_receive_just_keep; exact He|exact Hce].
Qed.

(* all COMMIT votes for bottom and a strong quorum of senders: bottom has the quorum *)
Lemma all_zero_quorum q : QS c q -> Cov q -> q_from_strong c q = true ->
  filter (fun v => negb (is_zero v)) (q_all_values q) = [] -> q_find_sq_value q <> FsvNone.
Proof.
  intros HQ HC Hs Hz. unfold q_find_sq_value, q_from_strong, q_all_values, Cov in *.
  assert (Hall : forall s, In s (q_support q) -> s_chain s = []).
  { intros s Hin. destruct (s_chain s) as [|x r] eqn:E; [reflexivity|exfalso].
    assert (Hf : In (s_chain s) (filter (fun v => negb (is_zero v)) (map s_chain (q_support q)))).
    { apply filter_In. split; [apply in_map; exact Hin|rewrite E; reflexivity]. }
    rewrite Hz in Hf. exact Hf. }
  destruct (q_support q) as [|s [|t l]] eqn:El.
  - exfalso. cbn in HC. rewrite HC in Hs. apply (strong_iff 0 (c_total c)) in Hs; lia.
  - assert (Hsq : s_sq s = true).
    { destruct (qs_sup c q HQ s) as [_ _ _ D]; [rewrite El; left; reflexivity|]. rewrite D. cbn in HC. replace (s_power s) with (q_spower q) by lia. exact Hs. }
    cbn. rewrite Hsq. discriminate.
  - exfalso. pose proof (qs_chains c q HQ) as Hd. rewrite El in Hd. cbn in Hd. destruct Hd as [Hd _].
    apply (Hd t); [left; reflexivity|]. rewrite (Hall s), (Hall t); [reflexivity|right; left; reflexivity|left; reflexivity].
Qed.

(* ---- tryCommit ---- *)
Lemma GJ_try_commit i round sway : JI i -> AllQ c i -> i_err i = None ->
  JI (try_commit c i round sway) /\ NJ (try_commit c i round sway).
Proof.
  intros HJ HA He. pose proof (NJ_none i He) as HN. unfold try_commit.
  set (comm := r_comm (get_round i round)).
  assert (HQ : QS c comm) by apply HA.
  assert (Hrest : forall b : bool,
    (b = true -> (exists sg, q_find_sq_for c comm [] = FsqSome sg) \/
                 q_has_just (r_prep (get_round i (round + 1))) COMMIT [] = true \/ c_has_just (r_conv (get_round i (round + 1))) COMMIT [] = true) ->
    (b = false -> q_find_sq_value comm = FsvNone) ->
    let x := (if negb (i_round i =? round) || negb (phase_eqb (i_phase i) COMMIT) then i else
         if b then begin_next_round c i else
         if phase_timeout_elapsed i && q_from_strong c comm then
           begin_next_round c
             (match (match sway with
                     | Some s => if existsb (chain_eqb s) (filter (fun v => negb (is_zero v)) (q_all_values comm)) then Some s
                                 else hd_error (filter (fun v => negb (is_zero v)) (q_all_values comm))
                     | None => hd_error (filter (fun v => negb (is_zero v)) (q_all_values comm)) end) with
              | Some v => let i0 := fst (add_candidate i v) in if chain_eqb v (i_proposal i0) then i0 else set_pv i0 v (i_value i0)
              | None => i end)
         else if should_rebroadcast c i then try_rebroadcast c i else i) in JI x /\ NJ x).
  { intros b Hb1 Hb0. cbv zeta. destruct (_ || _) eqn:Hc; [split; assumption|].
    apply orb_false_elim in Hc. destruct Hc as [Hc _]. apply negb_false_iff, Z.eqb_eq in Hc.
    destruct b.
    - apply GJ_begin_next_round; [exact HJ|exact HA|exact HN|]. rewrite Hc.
      destruct (Hb1 eq_refl) as [H|[H|H]]; [left; exact H|right; left; exact H|right; right; left; exact H].
    - specialize (Hb0 eq_refl).
      destruct (_ && _) eqn:Hcomp.
      + apply andb_prop in Hcomp. destruct Hcomp as [_ Hstrong].
        set (nz := filter (fun v => negb (is_zero v)) (q_all_values comm)).
        destruct (match sway with Some s => if existsb (chain_eqb s) nz then Some s else hd_error nz | None => hd_error nz end) as [v|] eqn:Ep.
        * assert (Hv : In v nz).
          { assert (Hh : forall w, hd_error nz = Some w -> In w nz) by (intros w; destruct nz; cbn; [discriminate|intros H; injection H as ->; left; reflexivity]).
            destruct sway as [s|]; [|apply Hh; exact Ep].
            destruct (existsb (chain_eqb s) nz) eqn:Ex; [|apply Hh; exact Ep].
            injection Ep as <-. apply existsb_exists in Ex. destruct Ex as (y & Hy & Hsy). apply chain_eqb_eq in Hsy. subst y. exact Hy. }
          unfold nz in Hv. apply filter_In in Hv. destruct Hv as [Hv Hnz]. unfold q_all_values in Hv. apply in_map_iff in Hv.
          destruct Hv as (s & Hsc & Hsin).
          assert (Hne : s_chain s <> []) by (rewrite Hsc; destruct v; [discriminate Hnz|discriminate]).
          destruct (rj_cj _ _ (HJ round) s Hsin Hne) as (e & Hein & Hee). fold (get_round i round) in Hein. fold comm in Hein. rewrite Hsc in Hee.
          cbv zeta. set (i0 := fst (add_candidate i v)).
          destruct (rd_add_candidate i v) as [A0 B0]. fold i0 in A0, B0.
          assert (P0 : i_proposal i0 = i_proposal i /\ i_round i0 = i_round i) by (unfold i0, add_candidate; destruct (is_candidate i v); split; reflexivity).
          destruct P0 as [P0 R0].
          match goal with |- JI (begin_next_round c ?x) /\ _ => set (i1 := x) end.
          assert (H1 : rd i1 = rd i /\ i_err i1 = i_err i /\ i_round i1 = i_round i /\ i_proposal i1 = v).
          { unfold i1. destruct (chain_eqb v (i_proposal i0)) eqn:Ev.
            - apply chain_eqb_eq in Ev. repeat split; [exact A0|exact B0|exact R0|symmetry; exact Ev].
            - repeat split; [exact A0|exact B0|exact R0]. }
          destruct H1 as (A1 & B1 & R1 & P1).
          assert (G1 : forall r, get_round i1 r = get_round i r).
          { intros r. unfold get_round. unfold rd in A1. injection A1 as -> _. reflexivity. }
          apply GJ_begin_next_round; [apply (JI_rd i); assumption|apply (AllQ_rd c i); assumption|apply (NJ_err i); assumption|].
          right; right; right. exists e. rewrite G1, R1, Hc, P1. split; [exact Hein|exact Hee].
        * exfalso. assert (Hnil : nz = []).
          { destruct sway as [s|]; [destruct (existsb (chain_eqb s) nz); [discriminate Ep|]|]; destruct nz; [reflexivity|discriminate Ep|reflexivity|discriminate Ep]. }
          apply (all_zero_quorum comm HQ); [exact (rj_cov _ _ (HJ round))|exact Hstrong|exact Hnil|exact Hb0].
      + destruct (should_rebroadcast c i); [|split; assumption].
        destruct (rd_try_rebroadcast c i) as [A B]. split; [apply (JI_rd i); assumption|apply (NJ_err i); assumption]. }
  destruct (q_find_sq_value comm) as [| |[|x v]] eqn:Ev.
  - apply (Hrest (false || _)).
    + intros Hb. cbn [orb] in Hb. apply orb_prop in Hb. destruct Hb as [Hb|Hb]; [right; left; exact Hb|right; right; exact Hb].
    + intros _. reflexivity.
  - split; [exact HJ|apply NJ_fail; [intros []|exact HN]].
  - apply (Hrest (true || _)).
    + intros _. left.
      assert (Hx : exists s, sup_find (q_support comm) [] = Some s /\ s_sq s = true) by (eapply find_sq_value_support; eassumption).
      destruct Hx as (s & Ef & Es). eapply find_sq_for_some; eassumption.
    + intros Hb. discriminate Hb.
  - split; [apply (JI_rd i); [|exact HJ]; rewrite rd_begin_decide; reflexivity|].
    apply NJ_none. apply (begin_decide_no_panic c Htotal Hpow Hsum); assumption.
Qed.

(* ---- tryCurrentPhase ---- *)
Lemma NJ_try_converge i : i_err i = None -> NJ (try_converge c i).
Proof.
  intros He. unfold try_converge. destruct (negb _).
  - destruct (should_rebroadcast c i); apply NJ_none; [rewrite err_try_rebroadcast|]; exact He.
  - cbv zeta. destruct (c_find_best _ _) as [w|]; [|apply NJ_fail; [intros []|apply NJ_none; exact He]].
    apply NJ_none. destruct (rd_add_candidate i (cv_chain w)) as [_ B]. cbn. rewrite <- He. exact B.
Qed.

Lemma GJ_try_current_phase i sway : JI i -> AllQ c i -> i_err i = None -> i_phase i <> INITIAL ->
  JI (try_current_phase c i sway) /\ NJ (try_current_phase c i sway).
Proof.
  intros HJ HA He Hph. unfold try_current_phase. destruct (i_phase i).
  - congruence.
  - destruct (rd_try_quality c i) as [A B]. split; [apply (JI_rd i); assumption|apply NJ_none; congruence].
  - split; [apply (JI_rd i); [apply rd_try_converge|exact HJ]|apply NJ_try_converge; exact He].
  - split; [apply (JI_rd i); [apply rd_try_prepare|exact HJ]|apply NJ_none; apply (try_prepare_err_none c Htotal Hpow Hsum); assumption].
  - apply GJ_try_commit; assumption.
  - split; [apply (JI_rd i); [apply rd_try_decide|exact HJ]|].
    apply NJ_none. apply (try_decide_no_panic c Htotal Hpow Hsum); [apply HA|exact He].
  - split; [exact HJ|apply NJ_none; exact He].
Qed.

(* ---- receiveOne ---- *)
Lemma JQ_comm_update r q sender v oj : JQ r q -> (forall j, oj = Some j -> v <> [] -> j_round j = r) -> JQ r (comm_update q sender v oj).
Proof.
  intros H Hj. unfold comm_update. cbv zeta. destruct v as [|x v']; [destruct oj; apply JQ_receive; exact H|].
  destruct oj as [j|]; [|apply JQ_receive; exact H]. apply JQ_receive_just; [apply JQ_receive; exact H|apply Hj; [reflexivity|discriminate]].
Qed.
Lemma Cov_comm_update q sender v oj : Cov q -> Cov (comm_update q sender v oj).
Proof.
  intros H. unfold comm_update. cbv zeta. destruct v as [|x v']; [destruct oj; apply Cov_receive; exact H|].
  destruct oj as [j|]; [apply Cov_receive_just|]; apply Cov_receive; exact H.
Qed.
Lemma QS_comm_update q sender v oj : QS c q -> QS c (comm_update q sender v oj).
Proof.
  intros H. assert (H1 : QS c (q_receive c q sender v)) by (apply QS_receive; assumption).
  unfold comm_update. cbv zeta. destruct v as [|x v']; [destruct oj; exact H1|].
  destruct oj as [j|]; [apply QS_receive_just|]; exact H1.
Qed.

Lemma GJ_receive_one i m sway : JI i -> AllQ c i -> i_err i = None -> i_phase i <> INITIAL -> wfmb m = true ->
  JI (fst (receive_one c i m sway)) /\ NJ (fst (receive_one c i m sway)).
Proof.
  intros HJ HA He Hph Hw. pose proof (NJ_none i He) as HN. unfold receive_one.
  destruct (phase_eqb (i_phase i) TERMINATED); [split; assumption|].
  destruct (_ && (_ || _)); [split; assumption|]. destruct (_ && is_spammable m); [split; assumption|].
  assert (Hq : forall q sender v, QS c q -> QS c (q_receive c q sender v)) by (intros; apply QS_receive; assumption).
  pose proof (HJ (m_round m)) as [Jp Jc Jm Jcj Jcov]. fold (get_round i (m_round m)) in Jp, Jc, Jm, Jcj, Jcov.
  assert (Hp0 : QS c (r_prep (get_round i (m_round m)))) by apply HA.
  assert (Hc0 : QS c (r_comm (get_round i (m_round m)))) by apply HA.
  assert (Hrs : forall s, RJ (m_round m) s -> QS c (r_prep s) -> QS c (r_comm s) ->
                let x := set_round_state i (m_round m) s in JI x /\ AllQ c x /\ i_err x = None /\ i_phase x <> INITIAL).
  { intros s H0 H1 H2. cbv zeta. split; [apply JI_set_round_state; assumption|]. split; [apply AllQ_set_round_state; assumption|]. split; [exact He|exact Hph]. }
  unfold wfmb in Hw.
  destruct (m_phase m) eqn:Ep; cbn [fst]; try discriminate Hw.
  - (* QUALITY *)
    cbv zeta. match goal with |- context [update_candidates_from_quality ?x] => set (i1 := x) end.
    assert (H1 : JI i1 /\ AllQ c i1 /\ i_err i1 = None /\ i_phase i1 <> INITIAL).
    { unfold i1. split; [|split; [|split; [exact He|exact Hph]]].
      - apply (JI_set_round_state (set_quality i _)); [exact HJ|constructor; assumption].
      - apply (AllQ_set_round_state c (set_quality i _)); [exact HA|exact Hp0|exact Hc0]. }
    destruct H1 as (J1 & A1 & E1 & P1).
    destruct (negb _); cbn [fst].
    + unfold update_candidates_from_quality. destruct (rd_acp i1 (q_longest_prefix (i_quality i1) (i_input i1))) as [A B].
      split; [apply (JI_rd i1); assumption|apply NJ_none; congruence].
    + apply GJ_try_current_phase; assumption.
  - (* CONVERGE *)
    apply andb_prop in Hw. destruct Hw as [Hv Hj].
    destruct (m_value m) as [|x v'] eqn:Emv; [discriminate Hv|]. destruct (m_just m) as [j|] eqn:Emj; [|discriminate Hj].
    apply Z.eqb_eq in Hj.
    destruct (c_receive _ _ _ _ _) as [cs|] eqn:Ecr; cbn [fst].
    2:{ exfalso. unfold c_receive in Ecr. destruct (memZ _ _); [discriminate|]. destruct (cv_find _ _) as [old|]; [destruct (rank_lt _ _)|]; discriminate. }
    assert (Hcs : JCv (m_round m - 1) cs).
    { unfold c_receive in Ecr. destruct (memZ _ _); [injection Ecr as <-; exact Jc|].
      destruct (cv_find (cs_values (r_conv (get_round i (m_round m)))) (x :: v')) as [old|] eqn:Ef.
      - destruct (rank_lt _ _); injection Ecr as <-; [|exact Jc]. intros cv Hcv. cbn in Hcv.
        assert (Hset : forall l w y, In y (cv_set l w) -> y = w \/ In y l).
        { induction l as [|a l IH]; cbn; intros w y; [intros [<-|[]]; left; reflexivity|].
          destruct (chain_eqb (cv_chain a) (cv_chain w)); cbn; intros [<-|H]; auto. destruct (IH _ _ H); auto. }
        destruct (Hset _ _ _ Hcv) as [->|Hin]; [cbn; apply Jc; apply (cv_find_In _ _ _ Ef)|apply Jc; exact Hin].
      - injection Ecr as <-. intros cv Hcv. cbn in Hcv. apply in_app_or in Hcv. destruct Hcv as [Hcv|[<-|[]]]; [apply Jc; exact Hcv|exact Hj]. }
    destruct (Hrs (mkR cs (r_prep (get_round i (m_round m))) (r_comm (get_round i (m_round m))))) as (J1 & A1 & E1 & P1); [constructor; assumption|exact Hp0|exact Hc0|].
    apply GJ_try_current_phase; assumption.
  - (* PREPARE *)
    cbv zeta. match goal with |- context [try_current_phase c (set_round_state i (m_round m) ?s) sway] => destruct (Hrs s) as (J1 & A1 & E1 & P1) end.
    + constructor; cbn [r_prep r_conv r_comm]; try assumption.
      destruct (m_just m) as [j|]; [apply JQ_receive_just; [apply JQ_receive; exact Jp|apply Z.eqb_eq; exact Hw]|apply JQ_receive; exact Jp].
    + cbn. destruct (m_just m); [apply QS_receive_just|]; apply Hq; exact Hp0.
    + exact Hc0.
    + apply GJ_try_current_phase; assumption.
  - (* COMMIT *)
    cbv zeta.
    change (match m_value m, m_just m with
            | _ :: _, Some j => q_receive_just (q_receive c (r_comm (get_round i (m_round m))) (m_sender m) (m_value m)) (m_value m) j
            | _, _ => q_receive c (r_comm (get_round i (m_round m))) (m_sender m) (m_value m) end)
      with (comm_update (r_comm (get_round i (m_round m))) (m_sender m) (m_value m) (m_just m)).
    set (q := comm_update (r_comm (get_round i (m_round m))) (m_sender m) (m_value m) (m_just m)).
    destruct (Hrs (mkR (r_conv (get_round i (m_round m))) (r_prep (get_round i (m_round m))) q)) as (J1 & A1 & E1 & P1).
    + constructor; cbn [r_prep r_conv r_comm]; try assumption.
      * apply JQ_comm_update; [exact Jm|]. intros j Ej Hne. rewrite Ej in Hw. destruct (m_value m); [congruence|]. cbn in Hw. apply Z.eqb_eq. exact Hw.
      * apply CJ_comm_update; [exact Jcj|]. intros Hne. destruct (m_value m); [congruence|]. cbn in Hw. destruct (m_just m) as [j|]; [exists j; reflexivity|discriminate Hw].
      * apply Cov_comm_update. exact Jcov.
    + exact Hp0.
    + apply QS_comm_update. exact Hc0.
    + set (i1 := set_round_state i (m_round m) (mkR (r_conv (get_round i (m_round m))) (r_prep (get_round i (m_round m))) q)) in *.
      destruct (negb (phase_eqb (i_phase i1) DECIDE)); cbn [fst]; [|apply GJ_try_current_phase; assumption].
      destruct (GJ_try_commit i1 (m_round m) sway J1 A1 E1) as [J2 N2].
      destruct (GQ_try_commit c Htotal Hpow Hsum i1 (m_round m) sway A1 E1) as [A2 _].
      match goal with |- context [if ?b then _ else _] => destruct b eqn:Hag end; cbn [fst]; [|split; assumption].
      apply andb_prop in Hag. destruct Hag as [Hag _]. apply andb_prop in Hag. destruct Hag as [Hag _]. apply andb_prop in Hag. destruct Hag as [Hag Hpp].
      assert (E2 : i_err (try_commit c i1 (m_round m) sway) = None) by (destruct (i_err (try_commit c i1 (m_round m) sway)); [discriminate Hag|reflexivity]).
      apply GJ_try_current_phase; try assumption. apply phase_eqb_true in Hpp. rewrite Hpp. discriminate.
  - (* DECIDE *)
    cbv zeta.
    match goal with |- context [skip_to_decide ?x _ _] => set (i1 := x) end.
    assert (H1 : JI i1 /\ AllQ c i1 /\ i_err i1 = None /\ i_phase i1 <> INITIAL).
    { unfold i1. split; [|split; [|split; [exact He|exact Hph]]].
      - apply (JI_set_round_state (set_decision i _)); [exact HJ|constructor; assumption].
      - apply (AllQ_set_round_state c (set_decision i _)); [|exact Hp0|exact Hc0].
        split; [cbn; apply Hq; apply HA|apply HA]. }
    destruct H1 as (J1 & A1 & E1 & P1).
    match goal with |- context [try_current_phase c ?x sway] => set (i2 := x) end.
    assert (H2 : JI i2 /\ AllQ c i2 /\ i_err i2 = None /\ i_phase i2 <> INITIAL).
    { unfold i2. destruct (negb (phase_eqb (i_phase i1) DECIDE)); [|split; [exact J1|split; [exact A1|split; [exact E1|exact P1]]]].
      split; [exact J1|split; [exact A1|split; [exact E1|cbn; discriminate]]]. }
    destruct H2 as (J2 & A2 & E2 & P2). apply GJ_try_current_phase; assumption.
Qed.

Lemma GJ_step i e : JI i -> AllQ c i -> i_err i = None -> i_phase i <> INITIAL -> ev_okb e = true ->
  JI (step c i e) /\ NJ (step c i e).
Proof.
  intros HJ HA He Hph Hok. destruct e as [now|now m sway|now sway]; cbn [step]; [discriminate Hok| |].
  - set (i0 := set_now i now). assert (J0 : JI i0) by exact HJ. assert (A0 : AllQ c i0) by exact HA.
    assert (E0 : i_err i0 = None) by exact He. assert (P0 : i_phase i0 <> INITIAL) by exact Hph.
    pose proof (GJ_receive_one i0 m sway J0 A0 E0 P0 Hok) as G1.
    destruct (receive_one c i0 m sway) as [i1 changed]. cbn [fst] in G1.
    destruct (changed && match i_err i1 with None => true | Some _ => false end); [|exact G1].
    apply GJ_post_receive; apply G1.
  - apply GJ_try_current_phase; assumption.
Qed.

(* ---- runs: no internal error at all ---- *)
Lemma ev_okb_wfe e : ev_okb e = true -> wfe e.
Proof.
  destruct e as [now|now m sway|now sway]; cbn; auto. unfold wfmb. intros H Hd. rewrite Hd in H. apply Z.eqb_eq. exact H.
Qed.

Lemma run_hist_no_error evs : forall i, Inv i -> PI i -> AllQ c i -> JI i -> i_err i = None ->
  Forall (fun e => ev_okb e = true) evs -> i_err (snd (run_hist c i evs)) = None.
Proof.
  induction evs as [|e evs IH]; intros i HI HP HA HJ He Hw; cbn [run_hist]; [exact He|].
  inversion Hw as [|? ? Hwe Hwr]; subst.
  set (i0 := clear_out i).
  assert (I0 : Inv i0) by (apply Inv_clear_out; exact HI).
  assert (P0 : PI i0) by (apply (PI_view i); [reflexivity|exact HP]).
  assert (A0 : AllQ c i0) by exact HA. assert (J0 : JI i0) by exact HJ. assert (E0 : i_err i0 = None) by exact He.
  assert (Ph0 : i_phase i0 <> INITIAL) by apply HP.
  destruct (step_ordered c i0 e I0 (ev_okb_wfe e Hwe)) as (_ & HI' & _).
  destruct (Good_step c i0 e I0 (ev_okb_wfe e Hwe) P0 E0) as [GP GN].
  destruct (GQ_step c Htotal Hpow Hsum i0 e A0 E0) as [GA GQ].
  destruct (GJ_step i0 e J0 A0 E0 Ph0 Hwe) as [GJ GNJ].
  assert (E' : i_err (step c i0 e) = None).
  { destruct (i_err (step c i0 e)) as [x|] eqn:Ex; [exfalso|reflexivity].
    destruct x; try (apply (GQ _ Ex); exact I); try (apply (GNJ _ Ex); exact I). apply GN. exact Ex. }
  specialize (IH _ HI' (GP E') GA GJ E' Hwr). destruct (run_hist c (step c i0 e) evs). exact IH.
Qed.

Theorem no_internal_error input now evs :
  Forall (fun e => ev_okb e = true) evs -> i_err (snd (run_hist c (started c input now) evs)) = None.
Proof.
  intros Hw.
  assert (HI : Inv (started c input now)).
  { destruct (step_ordered c (new_instance input now) (EvStart now) (Inv_new input now) I) as (_ & H & _). exact H. }
  destruct (GQ_step c Htotal Hpow Hsum (new_instance input now) (EvStart now) (AllQ_new c input now) eq_refl) as [A _].
  apply run_hist_no_error; try assumption.
  - unfold started. cbn [step]. unfold begin_quality. cbn [i_phase set_now new_instance].
    replace (negb (phase_eqb INITIAL INITIAL)) with false by reflexivity.
    unfold PI, conv_has. cbn. repeat split; auto; try discriminate; try (intros; lia).
  - intros r. unfold started. cbn. destruct r; apply RJ_empty.
  - reflexivity.
Qed.

End Cfg.

(* with the committee hypotheses discharged from the power table *)
Theorem no_internal_error_wf c input now evs :
  committee_wf c -> Forall (fun e => ev_okb e = true) evs -> i_err (snd (run_hist c (started c input now) evs)) = None.
Proof.
  intros Hwf. destruct (committee_wf_ok c Hwf) as (H1 & H2 & H3). apply no_internal_error; assumption.
Qed.
