From Coq Require Import ZArith List Bool Arith Lia.
From F3 Require Import Spec.
Import ListNotations.
Open Scope Z_scope.

Section Proofs.
  Variable power : nat -> Z.
  Hypothesis power_nonneg : forall n, 0 <= power n.
  Variable committee : list nat.
  Hypothesis committee_nodup : NoDup committee.
  Variable honest : nat -> bool.
  Variable input : nat -> chain.
  (* less than one third of the (scaled) power is faulty *)
  Hypothesis byz_lt_third : 3 * byz_power power committee honest < total power committee.

  Notation psum := (psum power).
  Notation total := (total power committee).
  Notation byz_power := (byz_power power committee honest).
  Notation strong := (strong power committee).
  Notation SQ := (SQ power committee honest).
  Notation justified := (justified power committee honest).
  Notation guard := (guard power committee honest input).
  Notation Inv := (Inv power committee honest input).

  (* ---- quorum intersection over lists ---- *)
  Lemma psum_nonneg l : 0 <= psum l.
  Proof. induction l; simpl; [lia|]. pose proof (power_nonneg a); lia. Qed.
  Lemma psum_app l1 l2 : psum (l1 ++ l2) = psum l1 + psum l2.
  Proof. induction l1; simpl; lia. Qed.
  Lemma psum_filter_split (f : nat -> bool) l :
    psum l = psum (filter f l) + psum (filter (fun n => negb (f n)) l).
  Proof. induction l; simpl; [lia|]. destruct (f a); simpl; lia. Qed.
  Lemma psum_incl_nodup : forall A B, NoDup A -> incl A B -> psum A <= psum B.
  Proof.
    induction A as [|a A IH]; intros B HA Hi; simpl. { apply psum_nonneg. }
    inversion HA; subst. assert (Hin : In a B) by (apply Hi; left; auto).
    apply in_split in Hin. destruct Hin as [l1 [l2 ->]].
    assert (E : psum (l1 ++ a :: l2) = power a + psum (l1 ++ l2)) by (rewrite !psum_app; simpl; lia).
    rewrite E. assert (psum A <= psum (l1 ++ l2)).
    { apply IH; auto. intros x Hx. assert (Hx' : In x (l1 ++ a :: l2)) by (apply Hi; right; auto).
      apply in_app_or in Hx'. apply in_or_app. destruct Hx' as [|[|]]; auto. subst; contradiction. }
    lia.
  Qed.
  Definition mem (x : nat) (l : list nat) : bool := existsb (Nat.eqb x) l.
  Lemma mem_true x l : mem x l = true <-> In x l.
  Proof.
    unfold mem. rewrite existsb_exists. split.
    - intros [y [Hy E]]. apply Nat.eqb_eq in E. subst; auto.
    - intros H. exists x. split; auto. apply Nat.eqb_refl.
  Qed.
  Lemma nodup_app_disj (l1 l2 : list nat) :
    NoDup l1 -> NoDup l2 -> (forall x, In x l1 -> ~ In x l2) -> NoDup (l1 ++ l2).
  Proof.
    induction l1 as [|a l1 IH]; simpl; intros H1 H2 Hd; auto. inversion H1; subst. constructor.
    - intro Hin. apply in_app_or in Hin. destruct Hin; [contradiction|]. apply (Hd a); auto.
    - apply IH; auto.
  Qed.
  Lemma inter_bound A B : NoDup A -> NoDup B -> incl A committee -> incl B committee ->
    psum A + psum B <= total + psum (filter (fun x => mem x B) A).
  Proof.
    intros HA HB IA IB. rewrite (psum_filter_split (fun x => mem x B) A).
    assert (psum (filter (fun n => negb (mem n B)) A ++ B) <= total).
    { apply psum_incl_nodup.
      - apply nodup_app_disj; auto. { apply NoDup_filter; auto. }
        intros x Hx. apply filter_In in Hx. destruct Hx as [_ Hx]. apply negb_true_iff in Hx.
        intro Hin. apply mem_true in Hin. congruence.
      - intros x Hx. apply in_app_or in Hx. destruct Hx as [Hx|Hx]; auto. apply filter_In in Hx. apply IA. tauto. }
    rewrite psum_app in H. lia.
  Qed.
  Lemma all_byz_bound l : NoDup l -> incl l committee -> (forall x, In x l -> honest x = false) -> psum l <= byz_power.
  Proof.
    intros Hn Hi Hb. unfold Spec.byz_power. apply psum_incl_nodup; auto.
    intros x Hx. apply filter_In. split; auto. rewrite (Hb x Hx). reflexivity.
  Qed.
  Lemma strong_has_honest S : strong S -> exists s, In s S /\ honest s = true.
  Proof.
    intros [Hn [Hi Hs]]. destruct (existsb honest S) eqn:E. { apply existsb_exists in E. auto. }
    exfalso. assert (psum S <= byz_power).
    { apply all_byz_bound; auto. intros x Hx. destruct (honest x) eqn:Hx'; auto.
      assert (existsb honest S = true) by (apply existsb_exists; eauto). congruence. }
    pose proof (psum_nonneg (filter (fun n => negb (honest n)) committee)). unfold Spec.byz_power in *. lia.
  Qed.
  Lemma strong_intersect A B : strong A -> strong B -> exists s, In s A /\ In s B /\ honest s = true.
  Proof.
    intros [HA [IA SA]] [HB [IB SB]]. pose proof (inter_bound A B HA HB IA IB) as Hb.
    set (I := filter (fun x => mem x B) A) in *.
    destruct (existsb honest I) eqn:E.
    - apply existsb_exists in E. destruct E as [s [Hs Hh]]. apply filter_In in Hs. destruct Hs as [Hs1 Hs2].
      apply mem_true in Hs2. eauto.
    - exfalso. assert (psum I <= byz_power).
      { apply all_byz_bound. { apply NoDup_filter; auto. }
        - intros x Hx. apply filter_In in Hx. apply IA. tauto.
        - intros x Hx. destruct (honest x) eqn:Hx'; auto.
          assert (existsb honest I = true) by (apply existsb_exists; eauto). congruence. }
      lia.
  Qed.

  (* ---- monotonicity: evidence never disappears ---- *)
  Lemma SQ_mono vs vs' r p x : incl vs vs' -> SQ vs r p x -> SQ vs' r p x.
  Proof. intros Hi [S [HS Hall]]. exists S. split; auto. Qed.
  Lemma justified_mono vs vs' r x : incl vs vs' -> justified vs r x -> justified vs' r x.
  Proof.
    intros Hi [H|[r0 [E [H|H]]]]; [left; auto| |]; right; exists r0; split; auto; [left|right]; eapply SQ_mono; eauto.
  Qed.
  Lemma guard_mono vs vs' v : incl vs vs' -> guard vs v -> guard vs' v.
  Proof.
    intros Hi. unfold Spec.guard. destruct (ph v), (vl v) as [w|]; auto.
    - intros [r0 [E [H|H]]]; exists r0; split; auto; [left|right]; eapply SQ_mono; eauto.
    - destruct (round v) as [|r0]; auto.
      intros [H|[H1 [H2|[r1 [L H2]]]]]; [left; eapply SQ_mono; eauto| |]; right; (split; [eapply SQ_mono; eauto|]); auto.
      right. exists r1. split; auto. eapply SQ_mono; eauto.
    - intros [H1 H2]. split; auto. eapply SQ_mono; eauto.
    - intros [w [H1 [t [x [Hne [H2 H3]]]]]]. exists w. split; auto. exists t, x. repeat split; auto. eapply justified_mono; eauto.
    - intros [H0 [r H]]. split; auto. exists r. eapply SQ_mono; eauto.
  Qed.

  (* every reachable vote set satisfies the invariant *)
  Theorem reachable_inv vs : reachable power committee honest input vs -> Inv vs.
  Proof.
    induction 1 as [|vs v R IH St]. { split; [intros v []|intros s r p x y _ []]. }
    destruct IH as [G U]. split.
    - intros u [<-|Hu] Hh.
      + inversion St as [v' Hv Hg _|v' Hv]; subst; [|congruence]. eapply guard_mono; [|exact Hg]. intros z Hz; right; auto.
      + eapply guard_mono; [|apply G; auto]. intros z Hz; right; auto.
    - intros s r p x y Hh [E1|H1] [E2|H2].
      + congruence.
      + inversion St as [v' Hv Hg Hnew|v' Hv]; subst; [|cbn in *; congruence]. cbn in *. exfalso. eapply Hnew; eauto.
      + inversion St as [v' Hv Hg Hnew|v' Hv]; subst; [|cbn in *; congruence]. cbn in *. exfalso. eapply Hnew; eauto.
      + eapply U; eauto.
  Qed.

  (* ================= agreement ================= *)
  Section WithInv.
  Variable vs : list vote.
  Hypothesis HInv : Inv vs.

  Lemma sq_honest_member r p x : SQ vs r p x -> exists s, honest s = true /\ In (V s r p x) vs.
  Proof. intros [S [HS Hall]]. destruct (strong_has_honest S HS) as [s [Hin Hh]]. eauto. Qed.

  Lemma sq_unique r p x y : SQ vs r p x -> SQ vs r p y -> x = y.
  Proof.
    intros [A [HA Ha]] [B [HB Hb]]. destruct (strong_intersect A B HA HB) as [s [H1 [H2 Hh]]].
    destruct HInv as [_ Honce]. eapply Honce; eauto.
  Qed.

  Lemma commit_sq_prepare_sq r w : SQ vs r COMMIT (Some w) -> SQ vs r PREPARE (Some w).
  Proof.
    intro H. destruct (sq_honest_member _ _ _ H) as [s [Hh Hin]].
    destruct HInv as [Hg _]. specialize (Hg _ Hin Hh). unfold Spec.guard in Hg; simpl in Hg. tauto.
  Qed.

  Section Lock.
  Variable r0 : nat. Variable v0 : chain.
  Hypothesis Hlock : SQ vs r0 COMMIT (Some v0).

  Definition LockAt (r : nat) := (forall x, SQ vs r PREPARE x -> x = Some v0) /\ ~ SQ vs r COMMIT None.

  Lemma lock_base : LockAt r0.
  Proof.
    split.
    - intros x Hx. symmetry. eapply sq_unique; [apply commit_sq_prepare_sq; exact Hlock | exact Hx].
    - intro Hn. assert (Some v0 = None) by (eapply sq_unique; eauto). discriminate.
  Qed.

  Lemma justified_after r x : LockAt r -> justified vs (S r) x -> x = Some v0.
  Proof.
    intros [Ha Hb] [Hz | [r1 [Heq [Hp | Hc]]]]; [discriminate| |]; inversion Heq; subst; auto. contradiction.
  Qed.

  Lemma lock_step r : LockAt r -> LockAt (S r).
  Proof.
    intros HL. pose proof HL as [La Lb]. split.
    - intros x Hx. destruct (sq_honest_member _ _ _ Hx) as [s [Hh Hin]].
      destruct HInv as [Hg _]. specialize (Hg _ Hin Hh). unfold Spec.guard in Hg; simpl in Hg.
      destruct x as [w|]; [|contradiction]. destruct Hg as [Hg|[Hg _]]; [apply La; auto | contradiction].
    - intro Hn. destruct (sq_honest_member _ _ _ Hn) as [s [Hh Hin]].
      destruct HInv as [Hg _]. pose proof (Hg _ Hin Hh) as G. unfold Spec.guard in G; simpl in G.
      destruct G as [w [Hp [t [x [Hne [Hpx Hj]]]]]].
      pose proof (Hg _ Hp Hh) as Gp. unfold Spec.guard in Gp; simpl in Gp.
      assert (Some w = Some v0). { destruct Gp as [Gp|[Gp _]]; [apply La; auto | contradiction]. }
      apply (justified_after r _ HL) in Hj. congruence.
  Qed.

  Lemma lock_all r : (r0 <= r)%nat -> LockAt r.
  Proof. induction 1; [apply lock_base | apply lock_step; auto]. Qed.
  End Lock.

  Theorem agreement_inv v w : decides power committee honest vs v -> decides power committee honest vs w -> v = w.
  Proof.
    unfold decides. intros Hv Hw.
    destruct (sq_honest_member _ _ _ Hv) as [s [Hh Hin]]. destruct (sq_honest_member _ _ _ Hw) as [s' [Hh' Hin']].
    destruct HInv as [Hg _]. pose proof (Hg _ Hin Hh) as G1. pose proof (Hg _ Hin' Hh') as G2.
    unfold Spec.guard in G1, G2; simpl in G1, G2. destruct G1 as [_ [r1 H1]]. destruct G2 as [_ [r2 H2]].
    destruct (Nat.le_ge_cases r1 r2) as [L|L].
    - destruct (lock_all r1 v H1 r2 L) as [Ha _]. specialize (Ha _ (commit_sq_prepare_sq _ _ H2)). congruence.
    - destruct (lock_all r2 w H2 r1 L) as [Ha _]. specialize (Ha _ (commit_sq_prepare_sq _ _ H1)). congruence.
  Qed.

  (* ================= validity ================= *)
  Definition from_honest_input (w : chain) : Prop := exists q, honest q = true /\ is_prefix w (input q).

  Lemma prepare_valid : forall r s w, honest s = true -> In (V s r PREPARE (Some w)) vs -> from_honest_input w.
  Proof.
    induction r as [r IHr] using (well_founded_induction lt_wf). intros s w Hh Hin.
    destruct HInv as [Hg _]. pose proof (Hg _ Hin Hh) as G. unfold Spec.guard in G; simpl in G.
    destruct r as [|r0].
    - exists s. auto.
    - destruct G as [G|[_ [G|[r1 [L G]]]]].
      + destruct (sq_honest_member _ _ _ G) as [t [Ht Hi]]. eapply (IHr r0); eauto.
      + exists s. auto.
      + destruct (sq_honest_member _ _ _ G) as [t [Ht Hi]]. eapply (IHr r1); eauto. lia.
  Qed.

  Lemma commit_valid r s w : honest s = true -> In (V s r COMMIT (Some w)) vs -> from_honest_input w.
  Proof.
    intros Hh Hin. destruct HInv as [Hg _]. pose proof (Hg _ Hin Hh) as G. unfold Spec.guard in G; simpl in G.
    destruct G as [Hp _]. eapply prepare_valid; eauto.
  Qed.

  Theorem validity_inv v : decides power committee honest vs v -> from_honest_input v.
  Proof.
    unfold decides. intros Hv. destruct (sq_honest_member _ _ _ Hv) as [s [Hh Hin]].
    destruct HInv as [Hg _]. pose proof (Hg _ Hin Hh) as G. unfold Spec.guard in G; simpl in G.
    destruct G as [_ [r H]]. destruct (sq_honest_member _ _ _ H) as [t [Ht Hi]]. eapply commit_valid; eauto.
  Qed.
  End WithInv.

  (* ================= headline theorems over all executions ================= *)
  Theorem agreement vs v w : reachable power committee honest input vs ->
    decides power committee honest vs v -> decides power committee honest vs w -> v = w.
  Proof. intros R. apply agreement_inv. apply reachable_inv; auto. Qed.

  Theorem validity vs v : reachable power committee honest input vs ->
    decides power committee honest vs v ->
    v <> [] /\ exists q, honest q = true /\ is_prefix v (input q).
  Proof.
    intros R D. destruct (validity_inv vs (reachable_inv vs R) v D) as [q [Hq P]]. split; [apply P|eauto].
  Qed.

  (* a decided value starts at the common base *)
  Theorem validity_base vs v base : reachable power committee honest input vs ->
    (forall q, honest q = true -> exists rest, input q = base :: rest) ->
    decides power committee honest vs v -> exists rest, v = base :: rest.
  Proof.
    intros R Hb D. destruct (validity vs v R D) as [Hne [q [Hq [_ [rest E]]]]].
    destruct (Hb q Hq) as [r' Eq]. rewrite Eq in E. destruct v as [|x v']; [contradiction|].
    cbn in E. inversion E; subst. eauto.
  Qed.

  (* ================= soundness of the executable monitor ================= *)
  Lemma vote_eqb_eq a b : vote_eqb a b = true -> a = b.
  Proof.
    unfold vote_eqb. rewrite !andb_true_iff. intros [[[A B] C] D]. apply Nat.eqb_eq in A, B.
    destruct a as [s r p x], b as [s' r' p' x']; cbn in *. subst.
    assert (p = p') by (destruct p, p'; cbn in C; congruence). subst.
    assert (x = x').
    { destruct x as [c|], x' as [c'|]; cbn in D; try congruence. f_equal. revert c' D.
      induction c as [|a c IH]; destruct c' as [|b c']; cbn; try congruence.
      rewrite andb_true_iff, Z.eqb_eq. intros [-> H]. f_equal. auto. }
    subst. reflexivity.
  Qed.
  Lemma has_vote_in vs v : has_vote vs v = true -> In v vs.
  Proof. unfold has_vote. rewrite existsb_exists. intros [y [Hy E]]. apply vote_eqb_eq in E. subst; auto. Qed.

  Lemma sqb_sound vs r p x : sqb power committee honest vs r p x = true -> SQ vs r p x.
  Proof.
    unfold sqb. intros H. apply Z.geb_le in H. exists (supporters committee honest vs r p x). split.
    - split; [apply NoDup_filter; auto|]. split; [intros z Hz; apply filter_In in Hz; tauto | lia].
    - intros s Hs Hh. apply filter_In in Hs. destruct Hs as [_ Hs]. rewrite Hh in Hs. cbn in Hs. apply has_vote_in; auto.
  Qed.

  Lemma chain_eqb_eq a b : chain_eqb a b = true <-> a = b.
  Proof.
    revert b. induction a as [|x a IH]; destruct b as [|y b]; cbn; try (split; congruence).
    rewrite andb_true_iff, Z.eqb_eq, IH. split; [intros [-> ->]; auto | intros H; inversion H; auto].
  Qed.
  Lemma val_eqb_eq a b : val_eqb a b = true <-> a = b.
  Proof.
    destruct a as [x|], b as [y|]; cbn; try (split; congruence).
    rewrite chain_eqb_eq. split; [intros ->; auto | intros H; inversion H; auto].
  Qed.
  Lemma phase_eqb_eq a b : phase_eqb a b = true <-> a = b.
  Proof. destruct a, b; cbn; split; congruence. Qed.
  Lemma prefixb_spec v w : prefixb v w = true -> exists rest, w = v ++ rest.
  Proof.
    revert w. induction v as [|x v IH]; intros w H; cbn in *. { exists w; auto. }
    destruct w as [|y w]; [discriminate|]. apply andb_true_iff in H. destruct H as [E H]. apply Z.eqb_eq in E. subst.
    destruct (IH w H) as [rest ->]. exists rest. reflexivity.
  Qed.
  Lemma is_prefixb_sound v w : is_prefixb v w = true -> is_prefix v w.
  Proof. unfold is_prefixb, is_prefix. destruct v as [|x v]; [discriminate|]. intros H. split; [discriminate|]. apply prefixb_spec; auto. Qed.
  Lemma exists_upto_spec f n : exists_upto f n = true -> exists k, (k <= n)%nat /\ f k = true.
  Proof.
    induction n as [|n IH]; cbn; intros H. { exists 0%nat. auto. }
    apply orb_true_iff in H. destruct H as [H|H]; [exists (S n); auto|]. destruct (IH H) as [k [L E]]. exists k. split; auto.
  Qed.

  Lemma justifiedb_sound vs r x : justifiedb power committee honest vs r x = true -> justified vs r x.
  Proof.
    unfold justifiedb, Spec.justified. destruct r as [|r0]; [left; auto|]. intros H. right. exists r0. split; auto.
    apply orb_true_iff in H. destruct H as [H|H]; [left|right]; apply sqb_sound; auto.
  Qed.

  Lemma if_and (a b : bool) : (if a then b else false) = true -> a = true /\ b = true.
  Proof. destruct a; [auto|discriminate]. Qed.

  Theorem guardb_sound vs v : guardb power committee honest input vs v = true -> guard vs v.
  Proof.
    unfold guardb, Spec.guard. destruct v as [s r p x]; cbn [Spec.ph Spec.vl Spec.round Spec.sender].
    destruct p, x as [w|]; try discriminate.
    - intros H. apply andb_true_iff in H. destruct H as [A B]. apply Nat.eqb_eq in A. apply chain_eqb_eq in B. auto.
    - destruct r as [|r0]; [discriminate|]. intros H. exists r0. split; auto.
      apply orb_true_iff in H. destruct H as [H|H]; [left|right]; apply sqb_sound; auto.
    - destruct r as [|r0]. { apply is_prefixb_sound. }
      intros H. apply orb_true_iff in H. destruct H as [H|H]; [left; apply sqb_sound; auto|].
      apply andb_true_iff in H. destruct H as [A B]. right. split; [apply sqb_sound; auto|].
      apply orb_true_iff in B. destruct B as [B|B]; [left; apply is_prefixb_sound; auto|].
      right. apply exists_upto_spec in B. destruct B as [k [L E]]. exists k. split; auto. apply sqb_sound; auto.
    - intros H. apply andb_true_iff in H. destruct H as [A B]. split; [apply has_vote_in; auto | apply sqb_sound; auto].
    - intros H. apply existsb_exists in H. destruct H as [pv [Hpv H]].
      apply if_and in H. destruct H as [H H0].
      repeat (apply andb_true_iff in H; destruct H as [H ?]).
      apply Nat.eqb_eq in H, H2. apply phase_eqb_eq in H1.
      destruct pv as [ps pr pp px]; cbn in *. subst. destruct px as [w|]; [|discriminate].
      exists w. split; auto. apply existsb_exists in H0. destruct H0 as [ov [Hov H0]].
      apply if_and in H0. destruct H0 as [H0 Hj].
      repeat (apply andb_true_iff in H0; destruct H0 as [H0 ?]).
      apply Nat.eqb_eq in H0. apply phase_eqb_eq in H1. destruct ov as [os or' op ox]; cbn in *. subst.
      exists os, ox. split.
      { intros E. subst. apply negb_true_iff in H. assert (val_eqb (Some w) (Some w) = true) by (apply val_eqb_eq; auto). congruence. }
      split; auto. apply justifiedb_sound; auto.
    - intros H. apply andb_true_iff in H. destruct H as [A B]. apply Nat.eqb_eq in A. split; auto.
      apply existsb_exists in B. destruct B as [cv [_ B]]. apply if_and in B. destruct B as [_ B].
      exists (Spec.round cv). apply sqb_sound; auto.
  Qed.

  (* a trace accepted by the monitor is an execution of the transition system *)
  Lemma conforms_reachable future : forall past, reachable power committee honest input past ->
    conforms power committee honest input past future = true ->
    reachable power committee honest input (rev future ++ past).
  Proof.
    induction future as [|v rest IH]; intros past R H; cbn in *; auto.
    apply andb_true_iff in H. destruct H as [Hv Hr].
    replace (rev rest ++ [v]) with (rev rest ++ [v]) by reflexivity. rewrite <- app_assoc. cbn.
    apply IH; auto. constructor; auto.
    destruct (honest (Spec.sender v)) eqn:Hh; [|apply step_byz; auto].
    apply andb_true_iff in Hv. destruct Hv as [G N]. apply step_honest; auto. { apply guardb_sound; auto. }
    intros y Hin. apply negb_true_iff in N. assert (existsb (fun o => Nat.eqb (Spec.sender o) (Spec.sender v) && Nat.eqb (Spec.round o) (Spec.round v) && phase_eqb (Spec.ph o) (Spec.ph v)) past = true); [|congruence].
    apply existsb_exists. eexists. split; [exact Hin|]. cbn. rewrite !Nat.eqb_refl. cbn. apply phase_eqb_eq; auto.
  Qed.

  Theorem conforming_trace_safe trace v w : conforms power committee honest input [] trace = true ->
    decides power committee honest (rev trace) v -> decides power committee honest (rev trace) w -> v = w.
  Proof.
    intros C. pose proof (conforms_reachable trace [] (reach_nil _ _ _ _) C) as R. rewrite app_nil_r in R.
    apply agreement; auto.
  Qed.
End Proofs.
